import CMacVerif.Model.TimeLine
