import CMacVerif.Arith
import Mathlib.Analysis.SpecialFunctions.Pow.Real
import Mathlib.Analysis.SpecialFunctions.Log.Basic
import Mathlib.Analysis.SpecialFunctions.Sqrt
/-! `ℝ` instance used by the theorems.  `x / 0 = 0`, `√x = 0` for `x < 0`, `log x = log |x|`:
theorems must carry the domain hypotheses under which these agree with IEEE (DESIGN §2.1). -/
namespace CMacVerif
noncomputable instance : ArithFns ℝ :=
  ⟨Real.sqrt, Real.rpow, Real.exp, Real.log, fun x => Real.log x / Real.log 10, fun x => |x|⟩

theorem amax_real (a b : ℝ) : amax a b = max a b := by
  unfold amax; split_ifs with h
  · exact (max_eq_right h.le).symm
  · exact (max_eq_left (not_lt.mp h)).symm

theorem amin_real (a b : ℝ) : amin a b = min a b := by
  unfold amin; split_ifs with h
  · exact (min_eq_right h.le).symm
  · exact (min_eq_left (not_lt.mp h)).symm
end CMacVerif
