import CMacVerif.Arith
/-! `Float` instance of the transcendental functions: the same libm the C++ links. -/
namespace CMacVerif
instance : ArithFns Float := ⟨Float.sqrt, Float.pow, Float.exp, Float.log, Float.log10, Float.abs⟩
end CMacVerif
