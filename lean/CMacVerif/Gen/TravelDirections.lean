/-! GENERATED on every run by harness/gen_c03_tables.cpp from /repo/src/TravelDirections.hpp and
/repo/src/DensitySubGrid.hpp (exhaustive evaluation of the real functions).  Do not edit. -/
namespace CMacVerif.Gen.TravelDirections

def numDirections : Nat := 27
def neighbourOutside : Nat := 4294967295

def dirNames : List String := ["INSIDE", "CORNER_PPP", "CORNER_PPN", "CORNER_PNP", "CORNER_PNN", "CORNER_NPP", "CORNER_NPN", "CORNER_NNP", "CORNER_NNN", "EDGE_X_PP", "EDGE_X_PN", "EDGE_X_NP", "EDGE_X_NN", "EDGE_Y_PP", "EDGE_Y_PN", "EDGE_Y_NP", "EDGE_Y_NN", "EDGE_Z_PP", "EDGE_Z_PN", "EDGE_Z_NP", "EDGE_Z_NN", "FACE_X_P", "FACE_X_N", "FACE_Y_P", "FACE_Y_N", "FACE_Z_P", "FACE_Z_N"]

/-- offset each label stands for according to its NAME (enum documentation): P = upper limit (+1), N = lower
limit (-1), a coordinate that is not named = 0; from harness/c03_names.hpp through the enum constants -/
def namedOffset : List (Int × Int × Int) := [(0, 0, 0), (1, 1, 1), (1, 1, -1), (1, -1, 1), (1, -1, -1), (-1, 1, 1), (-1, 1, -1), (-1, -1, 1), (-1, -1, -1), (0, 1, 1), (0, 1, -1), (0, -1, 1), (0, -1, -1), (1, 0, 1), (1, 0, -1), (-1, 0, 1), (-1, 0, -1), (1, 1, 0), (1, -1, 0), (-1, 1, 0), (-1, -1, 0), (1, 0, 0), (-1, 0, 0), (0, 1, 0), (0, -1, 0), (0, 0, 1), (0, 0, -1)]

/-- `TravelDirections::output_to_input_direction(d)`, d = 0..26 -/
def outToIn : List Nat := [0, 8, 7, 6, 5, 4, 3, 2, 1, 12, 11, 10, 9, 16, 15, 14, 13, 20, 19, 18, 17, 22, 21, 24, 23, 26, 25]

/-- `is_compatible_output_direction(dir, d)`: row = sign pattern 9*(sx+1)+3*(sy+1)+(sz+1) of `dir`, column = d -/
def compatOut : List (List Bool) := [
  [true, false, false, false, false, false, false, false, true, false, false, false, true, false, false, false, true, false, false, false, true, false, true, false, true, false, true],
  [true, false, false, false, false, false, false, false, false, false, false, false, false, false, false, false, false, false, false, false, true, false, true, false, true, false, false],
  [true, false, false, false, false, false, false, true, false, false, false, true, false, false, false, true, false, false, false, false, true, false, true, false, true, true, false],
  [true, false, false, false, false, false, false, false, false, false, false, false, false, false, false, false, true, false, false, false, false, false, true, false, false, false, true],
  [true, false, false, false, false, false, false, false, false, false, false, false, false, false, false, false, false, false, false, false, false, false, true, false, false, false, false],
  [true, false, false, false, false, false, false, false, false, false, false, false, false, false, false, true, false, false, false, false, false, false, true, false, false, true, false],
  [true, false, false, false, false, false, true, false, false, false, true, false, false, false, false, false, true, false, false, true, false, false, true, true, false, false, true],
  [true, false, false, false, false, false, false, false, false, false, false, false, false, false, false, false, false, false, false, true, false, false, true, true, false, false, false],
  [true, false, false, false, false, true, false, false, false, true, false, false, false, false, false, true, false, false, false, true, false, false, true, true, false, true, false],
  [true, false, false, false, false, false, false, false, false, false, false, false, true, false, false, false, false, false, false, false, false, false, false, false, true, false, true],
  [true, false, false, false, false, false, false, false, false, false, false, false, false, false, false, false, false, false, false, false, false, false, false, false, true, false, false],
  [true, false, false, false, false, false, false, false, false, false, false, true, false, false, false, false, false, false, false, false, false, false, false, false, true, true, false],
  [true, false, false, false, false, false, false, false, false, false, false, false, false, false, false, false, false, false, false, false, false, false, false, false, false, false, true],
  [true, false, false, false, false, false, false, false, false, false, false, false, false, false, false, false, false, false, false, false, false, false, false, false, false, false, false],
  [true, false, false, false, false, false, false, false, false, false, false, false, false, false, false, false, false, false, false, false, false, false, false, false, false, true, false],
  [true, false, false, false, false, false, false, false, false, false, true, false, false, false, false, false, false, false, false, false, false, false, false, true, false, false, true],
  [true, false, false, false, false, false, false, false, false, false, false, false, false, false, false, false, false, false, false, false, false, false, false, true, false, false, false],
  [true, false, false, false, false, false, false, false, false, true, false, false, false, false, false, false, false, false, false, false, false, false, false, true, false, true, false],
  [true, false, false, false, true, false, false, false, false, false, false, false, true, false, true, false, false, false, true, false, false, true, false, false, true, false, true],
  [true, false, false, false, false, false, false, false, false, false, false, false, false, false, false, false, false, false, true, false, false, true, false, false, true, false, false],
  [true, false, false, true, false, false, false, false, false, false, false, true, false, true, false, false, false, false, true, false, false, true, false, false, true, true, false],
  [true, false, false, false, false, false, false, false, false, false, false, false, false, false, true, false, false, false, false, false, false, true, false, false, false, false, true],
  [true, false, false, false, false, false, false, false, false, false, false, false, false, false, false, false, false, false, false, false, false, true, false, false, false, false, false],
  [true, false, false, false, false, false, false, false, false, false, false, false, false, true, false, false, false, false, false, false, false, true, false, false, false, true, false],
  [true, false, true, false, false, false, false, false, false, false, true, false, false, false, true, false, false, true, false, false, false, true, false, true, false, false, true],
  [true, false, false, false, false, false, false, false, false, false, false, false, false, false, false, false, false, true, false, false, false, true, false, true, false, false, false],
  [true, true, false, false, false, false, false, false, false, true, false, false, false, true, false, false, false, true, false, false, false, true, false, true, false, true, false]
]

/-- `is_compatible_input_direction(dir, d)`: row = sign pattern of `dir`, column = d -/
def compatIn : List (List Bool) := [
  [true, true, false, false, false, false, false, false, false, true, false, false, false, true, false, false, false, true, false, false, false, true, false, true, false, true, false],
  [true, false, false, false, false, false, false, false, false, false, false, false, false, false, false, false, false, true, false, false, false, true, false, true, false, false, false],
  [true, false, true, false, false, false, false, false, false, false, true, false, false, false, true, false, false, true, false, false, false, true, false, true, false, false, true],
  [true, false, false, false, false, false, false, false, false, false, false, false, false, true, false, false, false, false, false, false, false, true, false, false, false, true, false],
  [true, false, false, false, false, false, false, false, false, false, false, false, false, false, false, false, false, false, false, false, false, true, false, false, false, false, false],
  [true, false, false, false, false, false, false, false, false, false, false, false, false, false, true, false, false, false, false, false, false, true, false, false, false, false, true],
  [true, false, false, true, false, false, false, false, false, false, false, true, false, true, false, false, false, false, true, false, false, true, false, false, true, true, false],
  [true, false, false, false, false, false, false, false, false, false, false, false, false, false, false, false, false, false, true, false, false, true, false, false, true, false, false],
  [true, false, false, false, true, false, false, false, false, false, false, false, true, false, true, false, false, false, true, false, false, true, false, false, true, false, true],
  [true, false, false, false, false, false, false, false, false, true, false, false, false, false, false, false, false, false, false, false, false, false, false, true, false, true, false],
  [true, false, false, false, false, false, false, false, false, false, false, false, false, false, false, false, false, false, false, false, false, false, false, true, false, false, false],
  [true, false, false, false, false, false, false, false, false, false, true, false, false, false, false, false, false, false, false, false, false, false, false, true, false, false, true],
  [true, false, false, false, false, false, false, false, false, false, false, false, false, false, false, false, false, false, false, false, false, false, false, false, false, true, false],
  [true, false, false, false, false, false, false, false, false, false, false, false, false, false, false, false, false, false, false, false, false, false, false, false, false, false, false],
  [true, false, false, false, false, false, false, false, false, false, false, false, false, false, false, false, false, false, false, false, false, false, false, false, false, false, true],
  [true, false, false, false, false, false, false, false, false, false, false, true, false, false, false, false, false, false, false, false, false, false, false, false, true, true, false],
  [true, false, false, false, false, false, false, false, false, false, false, false, false, false, false, false, false, false, false, false, false, false, false, false, true, false, false],
  [true, false, false, false, false, false, false, false, false, false, false, false, true, false, false, false, false, false, false, false, false, false, false, false, true, false, true],
  [true, false, false, false, false, true, false, false, false, true, false, false, false, false, false, true, false, false, false, true, false, false, true, true, false, true, false],
  [true, false, false, false, false, false, false, false, false, false, false, false, false, false, false, false, false, false, false, true, false, false, true, true, false, false, false],
  [true, false, false, false, false, false, true, false, false, false, true, false, false, false, false, false, true, false, false, true, false, false, true, true, false, false, true],
  [true, false, false, false, false, false, false, false, false, false, false, false, false, false, false, true, false, false, false, false, false, false, true, false, false, true, false],
  [true, false, false, false, false, false, false, false, false, false, false, false, false, false, false, false, false, false, false, false, false, false, true, false, false, false, false],
  [true, false, false, false, false, false, false, false, false, false, false, false, false, false, false, false, true, false, false, false, false, false, true, false, false, false, true],
  [true, false, false, false, false, false, false, true, false, false, false, true, false, false, false, true, false, false, false, false, true, false, true, false, true, true, false],
  [true, false, false, false, false, false, false, false, false, false, false, false, false, false, false, false, false, false, false, false, true, false, true, false, true, false, false],
  [true, false, false, false, false, false, false, false, true, false, false, false, true, false, false, false, true, false, false, false, true, false, true, false, true, false, true]
]

/-- `TravelDirections::get_output_direction(mask)`, mask = 0..63 (-1 = invalid) -/
def maskTable : List Int := [0, 26, 25, -1, 24, 12, 11, -1, 23, 10, 9, -1, -1, -1, -1, -1, 22, 16, 15, -1, 20, 8, 7, -1, 19, 6, 5, -1, -1, -1, -1, -1, 21, 14, 13, -1, 18, 4, 3, -1, 17, 2, 1, -1, -1, -1, -1, -1, -1, -1, -1, -1, -1, -1, -1, -1, -1, -1, -1, -1, -1, -1, -1, -1]

/-- `DensitySubGrid::get_output_direction(three_index)` for the 27 classes (below / inside / above per axis,
index 9*(a+1)+3*(b+1)+(c+1)); every class probed with the index one step outside (as `interact` produces it)
and a whole subgrid outside (as `create_subgrid` produces it), in a 4x5x7 block -/
def exitDir : List Int := [8, 20, 7, 16, 22, 15, 6, 19, 5, 12, 24, 11, 26, 0, 25, 10, 23, 9, 4, 18, 3, 14, 21, 13, 2, 17, 1]

/-- offset (a,b,c) in {-1,0,1}^3 of every direction: the class whose `exitDir` is that direction
((2,2,2) if there is none or more than one) -/
def offset : List (Int × Int × Int) := [(0, 0, 0), (1, 1, 1), (1, 1, -1), (1, -1, 1), (1, -1, -1), (-1, 1, 1), (-1, 1, -1), (-1, -1, 1), (-1, -1, -1), (0, 1, 1), (0, 1, -1), (0, -1, 1), (0, -1, -1), (1, 0, 1), (1, 0, -1), (-1, 0, 1), (-1, 0, -1), (1, 1, 0), (1, -1, 0), (-1, 1, 0), (-1, -1, 0), (1, 0, 0), (-1, 0, 0), (0, 1, 0), (0, -1, 0), (0, 0, 1), (0, 0, -1)]

/-- `DensitySubGrid::update_photon_position(d, position)`: per axis 0 = untouched, 1 = set to 0 (lower wall),
2 = set to number_of_cells*cell_size (upper wall); probed with sentinel coordinates -/
def pin : List (List Nat) := [[0, 0, 0], [2, 2, 2], [2, 2, 1], [2, 1, 2], [2, 1, 1], [1, 2, 2], [1, 2, 1], [1, 1, 2], [1, 1, 1], [0, 2, 2], [0, 2, 1], [0, 1, 2], [0, 1, 1], [2, 0, 2], [2, 0, 1], [1, 0, 2], [1, 0, 1], [2, 2, 0], [2, 1, 0], [1, 2, 0], [1, 1, 0], [2, 0, 0], [1, 0, 0], [0, 2, 0], [0, 1, 0], [0, 0, 2], [0, 0, 1]]

/-- `DensitySubGrid::get_{x,y,z}_index(coordinate, d)`: per axis 0 = computed from the coordinate,
1 = lower limit (0), 2 = upper limit (ncell-1); probed with several coordinates -/
def idxClass : List (List Nat) := [[0, 0, 0], [2, 2, 2], [2, 2, 1], [2, 1, 2], [2, 1, 1], [1, 2, 2], [1, 2, 1], [1, 1, 2], [1, 1, 1], [0, 2, 2], [0, 2, 1], [0, 1, 2], [0, 1, 1], [2, 0, 2], [2, 0, 1], [1, 0, 2], [1, 0, 1], [2, 2, 0], [2, 1, 0], [1, 2, 0], [1, 1, 0], [2, 0, 0], [1, 0, 0], [0, 2, 0], [0, 1, 0], [0, 0, 2], [0, 0, 1]]

end CMacVerif.Gen.TravelDirections
