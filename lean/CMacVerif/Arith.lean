/-!
Generic arithmetic for the numeric models (DESIGN §2.1).

Numeric models are written ONCE against the standard operator classes
`[Add α] [Sub α] [Mul α] [Div α] [Neg α] [LT α] [LE α] [DecidableLT α] [DecidableLE α]
[OfScientific α]` plus this small class for the transcendental functions.  All literals are
written in scientific form (`0.0`, `1.0`, `0.5`, `1.0e-14`).  The same definition is then
instantiated at `Float` (drivers: `Inst/Float.lean`), at `Rat` where no `ArithFns` is needed,
and at `ℝ` in the proof files (`Inst/Real.lean`).
-/
namespace CMacVerif

class ArithFns (α : Type) where
  sqrt : α → α
  pow : α → α → α
  exp : α → α
  log : α → α
  log10 : α → α
  abs : α → α

section
variable {α : Type} [LT α] [DecidableLT α]
/-- `std::max(a, b)` = `(a < b) ? b : a` -/
@[inline] def amax (a b : α) : α := if a < b then b else a
/-- `std::min(a, b)` = `(b < a) ? b : a` -/
@[inline] def amin (a b : α) : α := if b < a then b else a
end

end CMacVerif
