import CMacVerif.Lemmas.GridNum
import CMacVerif.Lemmas.AMRTree
import Mathlib.Tactic.Ring
import Mathlib.Tactic.FieldSimp
/-! Geometric lemmas for the AMR descent over `ℝ` (C16). -/
namespace CMacVerif.AMR
open CMacVerif.GridNum

/-- in exact arithmetic the child index is 0 or 1 and says on which side of the mid plane the
position lies -/
theorem childIndex_real (p a s : ℝ) (hs : 0 < s) (h1 : a ≤ p) (h2 : p < a + s) :
    (p < a + s * 0.5 → childIndex p a s = 0) ∧ (a + s * 0.5 ≤ p → childIndex p a s = 1) := by
  have hq : 0 ≤ 2.0 * (p - a) / s := by
    apply div_nonneg _ hs.le; norm_num; linarith
  unfold childIndex
  constructor
  · intro h
    have : Trunc.toNat (2.0 * (p - a) / s) = 0 := by
      rw [toNat_eq_iff _ hq]
      refine ⟨by simpa using hq, ?_⟩
      rw [div_lt_iff₀ hs]; norm_num at h ⊢; linarith
    rw [this]; rfl
  · intro h
    have : Trunc.toNat (2.0 * (p - a) / s) = 1 := by
      rw [toNat_eq_iff _ hq]
      constructor
      · rw [le_div_iff₀ hs]; norm_num at h ⊢; linarith
      · rw [div_lt_iff₀ hs]; norm_num; linarith
    rw [this]; rfl

/-- the clamp makes the child index 0 or 1 for every numeric type and every position -/
theorem childIndex_le_one {α : Type} [Sub α] [Mul α] [Div α] [OfScientific α] [GridNum.Trunc α] (p a s : α) :
    childIndex p a s ≤ 1 := by
  unfold childIndex; exact Nat.min_le_right _ _

theorem childIndex_lt_two (p a s : ℝ) (hs : 0 < s) (h1 : a ≤ p) (h2 : p < a + s) :
    childIndex p a s < 2 := by
  have := childIndex_real p a s hs h1 h2
  rcases lt_or_ge p (a + s * 0.5) with h | h
  · rw [this.1 h]; decide
  · rw [this.2 h]; decide

/-- the child box selected by the three child indices contains the position -/
theorem childBox_contains (b : Box3 ℝ) (p : V3 ℝ) (hb : PosBox b) (hp : InBox b p) :
    InBox (childBox b (childIndex p.x b.ax b.sx) (childIndex p.y b.ay b.sy) (childIndex p.z b.az b.sz)) p
    ∧ PosBox (childBox b (childIndex p.x b.ax b.sx) (childIndex p.y b.ay b.sy) (childIndex p.z b.az b.sz)) := by
  obtain ⟨hx1, hx2, hy1, hy2, hz1, hz2⟩ := hp
  obtain ⟨sx, sy, sz⟩ := hb
  have cx := childIndex_real p.x b.ax b.sx sx hx1 hx2
  have cy := childIndex_real p.y b.ay b.sy sy hy1 hy2
  have cz := childIndex_real p.z b.az b.sz sz hz1 hz2
  unfold InBox PosBox childBox
  simp only [ofNat_real]
  refine ⟨⟨?_, ?_, ?_, ?_, ?_, ?_⟩, by norm_num; exact sx, by norm_num; exact sy, by norm_num; exact sz⟩
  all_goals first
    | (rcases lt_or_ge p.x (b.ax + b.sx * 0.5) with h | h
       · rw [cx.1 h]; norm_num at h ⊢; linarith
       · rw [cx.2 h]; norm_num at h ⊢; linarith)
    | (rcases lt_or_ge p.y (b.ay + b.sy * 0.5) with h | h
       · rw [cy.1 h]; norm_num at h ⊢; linarith
       · rw [cy.2 h]; norm_num at h ⊢; linarith)
    | (rcases lt_or_ge p.z (b.az + b.sz * 0.5) with h | h
       · rw [cz.1 h]; norm_num at h ⊢; linarith
       · rw [cz.2 h]; norm_num at h ⊢; linarith)

/-- a child box lies inside its parent -/
theorem childBox_sub (b : Box3 ℝ) (p : V3 ℝ) (hb : PosBox b) (i j k : Nat)
    (hi : i < 2) (hj : j < 2) (hk : k < 2) (hp : InBox (childBox b i j k) p) :
    InBox b p ∧ PosBox (childBox b i j k) := by
  obtain ⟨sx, sy, sz⟩ := hb
  unfold InBox childBox at hp
  simp only [ofNat_real] at hp
  obtain ⟨h1, h2, h3, h4, h5, h6⟩ := hp
  have ei : i = 0 ∨ i = 1 := by omega
  have ej : j = 0 ∨ j = 1 := by omega
  have ek : k = 0 ∨ k = 1 := by omega
  refine ⟨?_, by unfold PosBox childBox; norm_num; exact ⟨sx, sy, sz⟩⟩
  unfold InBox
  rcases ei with rfl | rfl <;> rcases ej with rfl | rfl <;> rcases ek with rfl | rfl <;>
    norm_num at h1 h2 h3 h4 h5 h6 ⊢ <;> refine ⟨?_, ?_, ?_, ?_, ?_, ?_⟩ <;> linarith

/-- a position lies in at most one child box: the indices are determined -/
theorem childBox_unique (b : Box3 ℝ) (p : V3 ℝ) (hb : PosBox b) (hin : InBox b p) (i j k : Nat)
    (hi : i < 2) (hj : j < 2) (hk : k < 2) (hp : InBox (childBox b i j k) p) :
    i = childIndex p.x b.ax b.sx ∧ j = childIndex p.y b.ay b.sy ∧ k = childIndex p.z b.az b.sz := by
  obtain ⟨hx1, hx2, hy1, hy2, hz1, hz2⟩ := hin
  obtain ⟨sx, sy, sz⟩ := hb
  have cx := childIndex_real p.x b.ax b.sx sx hx1 hx2
  have cy := childIndex_real p.y b.ay b.sy sy hy1 hy2
  have cz := childIndex_real p.z b.az b.sz sz hz1 hz2
  unfold InBox childBox at hp
  simp only [ofNat_real] at hp
  obtain ⟨h1, h2, h3, h4, h5, h6⟩ := hp
  have ei : i = 0 ∨ i = 1 := by omega
  have ej : j = 0 ∨ j = 1 := by omega
  have ek : k = 0 ∨ k = 1 := by omega
  refine ⟨?_, ?_, ?_⟩
  · rcases ei with rfl | rfl
    · rw [cx.1 (by norm_num at h2 ⊢; linarith)]
    · rw [cx.2 (by norm_num at h1 ⊢; linarith)]
  · rcases ej with rfl | rfl
    · rw [cy.1 (by norm_num at h4 ⊢; linarith)]
    · rw [cy.2 (by norm_num at h3 ⊢; linarith)]
  · rcases ek with rfl | rfl
    · rw [cz.1 (by norm_num at h6 ⊢; linarith)]
    · rw [cz.2 (by norm_num at h5 ⊢; linarith)]

/-- digits of the paths are child indices -/
theorem leafPaths_digits (t : Tree) : ∀ π ∈ leafPaths t, ∀ i ∈ π, i < 8 := by
  induction t with
  | leaf => intro π hπ; simp [leafPaths] at hπ; subst hπ; simp
  | node c ih =>
    intro π hπ
    simp only [leafPaths, List.mem_append, List.mem_map] at hπ
    rcases hπ with ((((((h | h) | h) | h) | h) | h) | h) | h <;>
      obtain ⟨r, hr, rfl⟩ := h <;> intro i hi <;> simp only [List.mem_cons] at hi <;>
      rcases hi with rfl | hi
    all_goals first | omega | skip
    · exact ih 0 r hr i hi
    · exact ih 1 r hr i hi
    · exact ih 2 r hr i hi
    · exact ih 3 r hr i hi
    · exact ih 4 r hr i hi
    · exact ih 5 r hr i hi
    · exact ih 6 r hr i hi
    · exact ih 7 r hr i hi

/-- membership in the paths of a node -/
theorem mem_leafPaths_node (c : Fin 8 → Tree) (π : List Nat) :
    π ∈ leafPaths (.node c) ↔ ∃ (i : Fin 8) (r : List Nat), r ∈ leafPaths (c i) ∧ π = i.val :: r := by
  simp only [leafPaths, List.mem_append, List.mem_map]
  constructor
  · rintro (((((((h | h) | h) | h) | h) | h) | h) | h) <;> obtain ⟨r, hr, rfl⟩ := h
    · exact ⟨0, r, hr, rfl⟩
    · exact ⟨1, r, hr, rfl⟩
    · exact ⟨2, r, hr, rfl⟩
    · exact ⟨3, r, hr, rfl⟩
    · exact ⟨4, r, hr, rfl⟩
    · exact ⟨5, r, hr, rfl⟩
    · exact ⟨6, r, hr, rfl⟩
    · exact ⟨7, r, hr, rfl⟩
  · rintro ⟨i, r, hr, rfl⟩
    match i, hr with
    | ⟨0, _⟩, hr => exact Or.inl (Or.inl (Or.inl (Or.inl (Or.inl (Or.inl (Or.inl ⟨r, hr, rfl⟩))))))
    | ⟨1, _⟩, hr => exact Or.inl (Or.inl (Or.inl (Or.inl (Or.inl (Or.inl (Or.inr ⟨r, hr, rfl⟩))))))
    | ⟨2, _⟩, hr => exact Or.inl (Or.inl (Or.inl (Or.inl (Or.inl (Or.inr ⟨r, hr, rfl⟩)))))
    | ⟨3, _⟩, hr => exact Or.inl (Or.inl (Or.inl (Or.inl (Or.inr ⟨r, hr, rfl⟩))))
    | ⟨4, _⟩, hr => exact Or.inl (Or.inl (Or.inl (Or.inr ⟨r, hr, rfl⟩)))
    | ⟨5, _⟩, hr => exact Or.inl (Or.inl (Or.inr ⟨r, hr, rfl⟩))
    | ⟨6, _⟩, hr => exact Or.inl (Or.inr ⟨r, hr, rfl⟩)
    | ⟨7, _⟩, hr => exact Or.inr ⟨r, hr, rfl⟩

/-- the descent by position ends in a leaf whose box contains the position; its key is the key
of that leaf's path -/
theorem descend_spec (t : Tree) : ∀ (L : Nat) (b : Box3 ℝ) (p : V3 ℝ), PosBox b → InBox b p →
    InBox (descend t L p b).2 p ∧
    ∃ π ∈ leafPaths t, (descend t L p b).1 = 2 ^ (3 * L) * encodeKey π ∧ (descend t L p b).2 = boxOfPath b π := by
  induction t with
  | leaf =>
    intro L b p _ hp
    exact ⟨hp, [], by simp [leafPaths], by simp [descend, encodeKey], rfl⟩
  | node c ih =>
    intro L b p hb hp
    obtain ⟨hx1, hx2, hy1, hy2, hz1, hz2⟩ := hp
    have hp : InBox b p := ⟨hx1, hx2, hy1, hy2, hz1, hz2⟩
    have hix := childIndex_lt_two p.x b.ax b.sx hb.1 hx1 hx2
    have hiy := childIndex_lt_two p.y b.ay b.sy hb.2.1 hy1 hy2
    have hiz := childIndex_lt_two p.z b.az b.sz hb.2.2 hz1 hz2
    obtain ⟨hcin, hcpos⟩ := childBox_contains b p hb hp
    generalize hixe : childIndex p.x b.ax b.sx = ix at *
    generalize hiye : childIndex p.y b.ay b.sy = iy at *
    generalize hize : childIndex p.z b.az b.sz = iz at *
    have hcell : (4 * ix + 2 * iy + iz) % 8 = 4 * ix + 2 * iy + iz := by omega
    let i : Fin 8 := ⟨(4 * ix + 2 * iy + iz) % 8, Nat.mod_lt _ (by decide)⟩
    obtain ⟨h1, π, hπ, h3, h4⟩ := ih i (L + 1) (childBox b ix iy iz) p hcpos hcin
    have hd : descend (.node c) L p b =
        ((4 * ix + 2 * iy + iz) * 2 ^ (3 * L) + (descend (c i) (L + 1) p (childBox b ix iy iz)).1,
          (descend (c i) (L + 1) p (childBox b ix iy iz)).2) := by
      simp only [descend, hixe, hiye, hize]; rfl
    rw [hd]
    refine ⟨h1, i.val :: π, (mem_leafPaths_node c _).2 ⟨i, π, hπ, rfl⟩, ?_, ?_⟩
    · simp only [h3, encodeKey]
      show (4 * ix + 2 * iy + iz) * 2 ^ (3 * L) + 2 ^ (3 * (L + 1)) * encodeKey π
        = 2 ^ (3 * L) * ((4 * ix + 2 * iy + iz) % 8 + 8 * encodeKey π)
      rw [hcell, pow_three_succ]; ring
    · simp only [h4, boxOfPath]
      show boxOfPath (childBox b ix iy iz) π = boxOfPath (childBox b
        ((4 * ix + 2 * iy + iz) % 8 / 4 % 2) ((4 * ix + 2 * iy + iz) % 8 / 2 % 2) ((4 * ix + 2 * iy + iz) % 8 % 2)) π
      have e1 : (4 * ix + 2 * iy + iz) % 8 / 4 % 2 = ix := by omega
      have e2 : (4 * ix + 2 * iy + iz) % 8 / 2 % 2 = iy := by omega
      have e3 : (4 * ix + 2 * iy + iz) % 8 % 2 = iz := by omega
      rw [e1, e2, e3]

/-- boxes of deeper cells are nested in the box of the cell -/
theorem boxOfPath_sub (π : List Nat) : ∀ (b : Box3 ℝ) (p : V3 ℝ), PosBox b →
    InBox (boxOfPath b π) p → InBox b p := by
  induction π with
  | nil => intro b p _ h; exact h
  | cons i r ih =>
    intro b p hb h
    simp only [boxOfPath] at h
    have hsub : ∀ q, InBox (childBox b (i / 4 % 2) (i / 2 % 2) (i % 2)) q →
        InBox b q ∧ PosBox (childBox b (i / 4 % 2) (i / 2 % 2) (i % 2)) :=
      fun q hq => childBox_sub b q hb _ _ _ (by omega) (by omega) (by omega) hq
    have hpos : PosBox (childBox b (i / 4 % 2) (i / 2 % 2) (i % 2)) := by
      obtain ⟨sx, sy, sz⟩ := hb
      unfold PosBox childBox; norm_num; exact ⟨sx, sy, sz⟩
    exact (hsub p (ih _ p hpos h)).1

theorem descend_node (c : Fin 8 → Tree) (L : Nat) (p : V3 ℝ) (b : Box3 ℝ) (i : Fin 8) (ix iy iz : Nat)
    (hx : childIndex p.x b.ax b.sx = ix) (hy : childIndex p.y b.ay b.sy = iy)
    (hz : childIndex p.z b.az b.sz = iz) (hi : (4 * ix + 2 * iy + iz) % 8 = i.val) :
    descend (.node c) L p b =
      ((4 * ix + 2 * iy + iz) * 2 ^ (3 * L) + (descend (c i) (L + 1) p (childBox b ix iy iz)).1,
        (descend (c i) (L + 1) p (childBox b ix iy iz)).2) := by
  subst hx hy hz
  obtain rfl : i = ⟨_, Nat.mod_lt _ (by decide)⟩ := Fin.ext hi.symm
  simp only [descend]

/-- the leaf found by the descent is the only leaf whose box contains the position -/
theorem descend_unique (t : Tree) : ∀ (L : Nat) (b : Box3 ℝ) (p : V3 ℝ), PosBox b → InBox b p →
    ∀ π ∈ leafPaths t, InBox (boxOfPath b π) p → (descend t L p b).1 = 2 ^ (3 * L) * encodeKey π := by
  induction t with
  | leaf =>
    intro L b p _ _ π hπ _
    simp [leafPaths] at hπ; subst hπ; simp [descend, encodeKey]
  | node c ih =>
    intro L b p hb hp π hπ hin
    obtain ⟨j, r, hr, rfl⟩ := (mem_leafPaths_node c π).1 hπ
    simp only [boxOfPath] at hin
    have hj := j.isLt
    have hpos : PosBox (childBox b (j.val / 4 % 2) (j.val / 2 % 2) (j.val % 2)) := by
      obtain ⟨sx, sy, sz⟩ := hb
      unfold PosBox childBox; norm_num; exact ⟨sx, sy, sz⟩
    have hcin := boxOfPath_sub r _ p hpos hin
    obtain ⟨e1, e2, e3⟩ := childBox_unique b p hb hp _ _ _ (by omega) (by omega) (by omega) hcin
    have hcell : (4 * (j.val / 4 % 2) + 2 * (j.val / 2 % 2) + j.val % 2) % 8 = j.val := by omega
    have hcell' : 4 * (j.val / 4 % 2) + 2 * (j.val / 2 % 2) + j.val % 2 = j.val := by omega
    have := ih j (L + 1) _ p hpos hcin r hr hin
    rw [descend_node c L p b j _ _ _ e1.symm e2.symm e3.symm hcell]
    simp only [encodeKey]
    rw [this, hcell', pow_three_succ]; ring

/-- the leaf volumes below a cell sum to the volume of the cell -/
theorem volSum_eq (t : Tree) : ∀ b : Box3 ℝ, volSum t b = volume b := by
  induction t with
  | leaf => intro b; rfl
  | node c ih =>
    intro b
    simp only [volSum, ih, volume, childBox]
    norm_num; ring

end CMacVerif.AMR
