import CMacVerif.Lemmas.Ranlux
import Mathlib.Tactic.Ring
/-!
Helper lemmas for C13, part 3: `set_seed` fills the state with the complemented output of the
31 bit shift register `b(n+31) = b(n) xor b(n+18)` started from the bits of the seed.
-/
namespace CMacVerif.Ranlux

/-- the shift register sequence of seed `i`: the 31 seed bits (least significant first), then
`b(n) = b(n-31) xor b(n-13)` -/
def lfsr (i : Nat) (n : Nat) : Nat :=
  if h : n < 31 then (i / 2 ^ n) % 2 else (lfsr i (n - 31) + lfsr i (n - 13)) % 2
termination_by n
decreasing_by all_goals omega

theorem lfsr_lt (i n : Nat) (h : n < 31) : lfsr i n = (i / 2 ^ n) % 2 := by
  rw [lfsr]; simp [h]

theorem lfsr_ge (i n : Nat) : lfsr i (n + 31) = (lfsr i n + lfsr i (n + 18)) % 2 := by
  rw [lfsr]
  have : ¬ n + 31 < 31 := by omega
  simp only [this, dite_false]
  congr 3

theorem lfsr_le_one (i n : Nat) : lfsr i n ≤ 1 := by
  rw [lfsr]; split <;> omega

/-- the generated bit: complement of the register output -/
def ybit (i n : Nat) : Int := (((lfsr i n + 1) % 2 : Nat) : Int)

theorem ybit_01 (i n : Nat) : ybit i n = 0 ∨ ybit i n = 1 := by
  unfold ybit; omega

theorem ybit_eq (i n : Nat) : ybit i n = 1 - (lfsr i n : Int) := by
  have := lfsr_le_one i n
  unfold ybit; omega

/-- before iteration `n` the circular buffer holds `b(n) … b(n+30)` -/
structure SRep (i n : Nat) (t : Shift) : Prop where
  size : t.xbit.size = 31
  val  : ∀ q, q < 31 → t.xbit.getD q 0 = lfsr i (q + 31 * ((n + 30 - q) / 31))
  ib   : t.ibit = n % 31
  jb   : t.jbit = (n + 18) % 31

theorem getD_set (x : Array Nat) (i j v : Nat) (h : i < x.size) :
    (x.setIfInBounds i v).getD j 0 = if i = j then v else x.getD j 0 := by
  by_cases e : i = j
  · subst e; simp [Array.getD, h]
  · simp only [Array.getD_eq_getD_getElem?, Array.getElem?_setIfInBounds_ne e, if_neg e]

/-- one iteration of the `m` loop -/
theorem seedBit_spec (R : Rnd) (i n : Nat) (x : Int) (t : Shift) (h : SRep i n t) :
    seedBit R x t = (R (x + R (x + ybit i n)), (seedBit R x t).2) ∧ SRep i (n + 1) (seedBit R x t).2 := by
  have hi : n % 31 < 31 := Nat.mod_lt _ (by omega)
  have hj : (n + 18) % 31 < 31 := Nat.mod_lt _ (by omega)
  have vi := h.val _ hi
  have vj := h.val _ hj
  have ei : n % 31 + 31 * ((n + 30 - n % 31) / 31) = n := by omega
  have ej : (n + 18) % 31 + 31 * ((n + 30 - (n + 18) % 31) / 31) = n + 18 := by omega
  rw [ei] at vi
  rw [ej] at vj
  unfold seedBit
  rw [h.ib, h.jb, vi, vj]
  refine ⟨rfl, ?_, ?_, ?_, ?_⟩
  · dsimp only; rw [Array.size_setIfInBounds]; exact h.size
  · intro q hq
    dsimp only
    rw [getD_set _ _ _ _ (by rw [h.size]; exact hi)]
    by_cases e : n % 31 = q
    · have : q + 31 * ((n + 1 + 30 - q) / 31) = n + 31 := by omega
      rw [if_pos e, this, lfsr_ge]
    · have : q + 31 * ((n + 1 + 30 - q) / 31) = q + 31 * ((n + 30 - q) / 31) := by omega
      rw [if_neg e, this]; exact h.val q hq
  · dsimp only; omega
  · dsimp only; omega

/-- the first `k` generated bits from position `n` on, read as a binary number -/
def pre (i : Nat) : Nat → Nat → Int
  | _, 0 => 0
  | n, k + 1 => ybit i n * 2 ^ k + pre i (n + 1) k

theorem pre_nonneg (i n k : Nat) : 0 ≤ pre i n k := by
  induction k generalizing n with
  | zero => simp [pre]
  | succ k ih =>
    have := ih (n + 1)
    have h2 : (0 : Int) < 2 ^ k := by positivity
    rcases ybit_01 i n with h | h <;> rw [pre, h] <;> omega

theorem pre_lt (i n k : Nat) : pre i n k < 2 ^ k := by
  induction k generalizing n with
  | zero => simp [pre]
  | succ k ih =>
    have := ih (n + 1)
    have h2 : (2 : Int) ^ (k + 1) = 2 * 2 ^ k := by ring
    have h3 : (0 : Int) < 2 ^ k := by positivity
    rcases ybit_01 i n with h | h <;> rw [pre, h, h2] <;> omega

/-- the same number built from the other end -/
theorem pre_succ (i n k : Nat) : pre i n (k + 1) = 2 * pre i n k + ybit i (n + k) := by
  induction k generalizing n with
  | zero => simp [pre]
  | succ k ih =>
    rw [pre, ih (n + 1), pre]
    have : n + 1 + k = n + (k + 1) := by omega
    rw [this]; ring

theorem pre_zero_bits (i n k : Nat) (h : pre i n k = 0) : ∀ m, m < k → ybit i (n + m) = 0 := by
  induction k generalizing n with
  | zero => intro m hm; omega
  | succ k ih =>
    intro m hm
    rw [pre] at h
    have h1 := pre_nonneg i (n + 1) k
    have h2 : (0 : Int) < 2 ^ k := by positivity
    rcases ybit_01 i n with h0 | h0
    · rw [h0] at h
      cases m with
      | zero => exact h0
      | succ m =>
        have := ih (n + 1) (by omega) m (by omega)
        rw [show n + 1 + m = n + (m + 1) by omega] at this; exact this
    · rw [h0] at h; omega

/-- 32 consecutive generated bits are never all zero (the register would produce 32 ones) -/
theorem not_all_zero (i n : Nat) (h : ∀ m, m < 32 → ybit i (n + m) = 0) : False := by
  have e0 := h 0 (by omega)
  have e18 := h 18 (by omega)
  have e31 := h 31 (by omega)
  rw [ybit_eq] at e0 e18 e31
  rw [Nat.add_zero] at e0
  have := lfsr_ge i n
  generalize lfsr i n = a at *
  generalize lfsr i (n + 18) = b at *
  generalize lfsr i (n + 31) = c at *
  omega

theorem pre48_ne_zero (i n : Nat) : pre i n 48 ≠ 0 := by
  intro h
  exact not_all_zero i n (fun m hm => pre_zero_bits i n 48 h m (by omega))


/-- the `m` loop: `k` further bits are shifted into `x` (no operation rounds) -/
theorem seedWord_spec (R : Rnd) (hR : RExact R) (i : Nat) :
    ∀ (k n : Nat) (x : Int) (t : Shift), SRep i n t → 0 ≤ x → (x + 1) * 2 ^ k ≤ B →
      (seedWord R k x t).1 = x * 2 ^ k + pre i n k ∧ SRep i (n + k) (seedWord R k x t).2 := by
  intro k
  induction k with
  | zero => intro n x t h _ _; simp [seedWord, pre]; exact h
  | succ k ih =>
    intro n x t h h0 hb
    obtain ⟨e, hs⟩ := seedBit_spec R i n x t h
    have hp1 : (1 : Int) ≤ 2 ^ k := one_le_pow₀ (by norm_num)
    have hp : (2 : Int) ≤ 2 ^ (k + 1) := by rw [pow_succ]; omega
    have hm := mul_le_mul_of_nonneg_left hp (show (0 : Int) ≤ x + 1 by omega)
    rw [B_val] at hb
    have y01 := ybit_01 i n
    have e1 : R (x + ybit i n) = x + ybit i n := by
      rcases y01 with y | y <;> rw [y] <;> exact hR _ (by omega) (by omega)
    have e2 : R (x + (x + ybit i n)) = x + (x + ybit i n) := by
      rcases y01 with y | y <;> rw [y] <;> exact hR _ (by omega) (by omega)
    rw [e1, e2] at e
    have hb' : (x + (x + ybit i n) + 1) * 2 ^ k ≤ B := by
      have : (x + (x + ybit i n) + 1) * 2 ^ k ≤ (x + 1) * 2 ^ (k + 1) := by
        have h2 : (x + 1) * 2 ^ (k + 1) = (2 * (x + 1)) * 2 ^ k := by ring
        rw [h2]
        apply mul_le_mul_of_nonneg_right _ (by positivity)
        rcases y01 with y | y <;> rw [y] <;> omega
      rw [B_val]; omega
    have := ih (n + 1) (x + (x + ybit i n)) (seedBit R x t).2 hs
      (by rcases y01 with y | y <;> rw [y] <;> omega) hb'
    rw [seedWord, e]
    dsimp only
    refine ⟨?_, ?_⟩
    · rw [this.1, pre]; ring
    · rw [show n + (k + 1) = n + 1 + k by omega]; exact this.2

/-- the `k` loop: the words of the state are consecutive 48 bit groups of the generated bits -/
theorem seedWords_spec (R : Rnd) (hR : RExact R) (i : Nat) :
    ∀ (k n : Nat) (t : Shift), SRep i n t →
      seedWords R 48 k t = (List.range k).map (fun j => pre i (n + 48 * j) 48) := by
  intro k
  induction k with
  | zero => intro n t _; rfl
  | succ k ih =>
    intro n t h
    have hw := seedWord_spec R hR i 48 n 0 t h (by omega) (by rw [B_val]; norm_num)
    have h0 := pre_nonneg i n 48
    have h1 := pre_lt i n 48
    have hr : R (pre i n 48) = pre i n 48 := hR _ (by omega) (by norm_num at h1; omega)
    rw [seedWords]
    generalize seedWord R 48 0 t = w at hw ⊢
    obtain ⟨wx, wt⟩ := w
    dsimp only at hw ⊢
    have hv : wx = pre i n 48 := by rw [hw.1]; ring
    rw [hv, hr, ih (n + 48) _ hw.2, List.range_succ_eq_map, List.map_cons, List.map_map]
    rw [show n + 48 * 0 = n by omega]
    refine congrArg _ ?_
    apply List.map_congr_left
    intro j _
    show pre i (n + 48 + 48 * j) 48 = pre i (n + 48 * (j + 1)) 48
    rw [show n + 48 + 48 * j = n + 48 * (j + 1) by omega]

theorem seedBits_getD : ∀ (n i q : Nat), q < n → (seedBits n i).getD q 0 = (i / 2 ^ q) % 2 := by
  intro n
  induction n with
  | zero => intro i q h; omega
  | succ n ih =>
    intro i q h
    cases q with
    | zero => simp [seedBits]
    | succ q =>
      rw [seedBits, List.getD_cons_succ, ih (i / 2) q (by omega), Nat.div_div_eq_div_mul, pow_succ]
      congr 2; ring

theorem seedBits_length : ∀ (n i : Nat), (seedBits n i).length = n := by
  intro n
  induction n with
  | zero => intro i; rfl
  | succ n ih => intro i; simp [seedBits, ih]

theorem srep_init (i : Nat) : SRep i 0 { xbit := (seedBits 31 i).toArray, ibit := 0, jbit := 18 } := by
  refine ⟨by simp [seedBits_length], ?_, rfl, rfl⟩
  intro q hq
  have : q + 31 * ((0 + 30 - q) / 31) = q := by omega
  rw [this, lfsr_lt i q hq]
  dsimp only
  rw [← seedBits_getD 31 i q hq]
  simp [Array.getD_eq_getD_getElem?, List.getD_eq_getElem?_getD]


/-! ### the seeded state -/

/-- the 31 bit value the shift register is started from: `0 ↦ 1`, then `seed & 0x7FFFFFFF` -/
def effSeed (seed : Int) : Nat := ((if seed = 0 then 1 else seed) % 2147483648).toNat

theorem seedState_x (R : Rnd) (hR : RExact R) (seed : Int) :
    (seedState R seed).x =
      ((List.range 12).map (fun j => pre (effSeed seed) (0 + 48 * j) 48)).toArray := by
  unfold seedState
  dsimp only
  rw [seedWords_spec R hR _ 12 0 _ (srep_init _)]
  rfl

theorem seedState_R (R : Rnd) (hR : RExact R) (seed : Int) : seedState R seed = seedState exact seed := by
  have a := seedState_x R hR seed
  have b := seedState_x exact exact_RExact seed
  have e : seedState R seed = { seedState R seed with x := (seedState R seed).x } := rfl
  rw [e, a, ← b]
  rfl

theorem seedState_rd (seed : Int) (p : Nat) (hp : p < 12) :
    rd (seedState exact seed).x p = pre (effSeed seed) (48 * p) 48 := by
  rw [seedState_x exact exact_RExact seed]
  simp only [rd, Array.getD_eq_getD_getElem?, List.getElem?_toArray, List.getElem?_map,
    List.getElem?_range hp, Option.map_some, Option.getD_some]
  rw [Nat.zero_add]

theorem seedState_size (seed : Int) : (seedState exact seed).x.size = 12 := by
  rw [seedState_x exact exact_RExact seed]; simp

theorem seedState_bnd (seed : Int) : Bnd (seedState exact seed).x := by
  refine ⟨seedState_size seed, ?_⟩
  intro p hp
  rw [seedState_rd seed p hp, B_val]
  have h0 := pre_nonneg (effSeed seed) (48 * p) 48
  have h1 := pre_lt (effSeed seed) (48 * p) 48
  norm_num at h1
  omega

/-! ### the first 31 generated bits determine the seed -/

theorem pre_succ_inj (i i' n k : Nat) (h : pre i n (k + 1) = pre i' n (k + 1)) :
    pre i n k = pre i' n k ∧ ybit i (n + k) = ybit i' (n + k) := by
  rw [pre_succ, pre_succ] at h
  rcases ybit_01 i (n + k) with a | a <;> rcases ybit_01 i' (n + k) with b | b <;>
    rw [a, b] at h ⊢ <;> omega

theorem pre_prefix (i i' n k : Nat) : ∀ j, pre i n (k + j) = pre i' n (k + j) → pre i n k = pre i' n k := by
  intro j
  induction j with
  | zero => exact id
  | succ j ih => intro h; exact ih (pre_succ_inj i i' n (k + j) h).1

theorem pre_inj31 (i i' : Nat) : ∀ k, k ≤ 31 → pre i 0 k = pre i' 0 k → i % 2 ^ k = i' % 2 ^ k := by
  intro k
  induction k with
  | zero => intro _ _; simp [Nat.mod_one]
  | succ k ih =>
    intro hk h
    obtain ⟨h1, h2⟩ := pre_succ_inj i i' 0 k h
    have := ih (by omega) h1
    rw [Nat.zero_add, ybit_eq, ybit_eq, lfsr_lt i k (by omega), lfsr_lt i' k (by omega)] at h2
    have h3 : i / 2 ^ k % 2 = i' / 2 ^ k % 2 := by omega
    rw [Nat.mod_pow_succ, Nat.mod_pow_succ, this, h3]

theorem word0_inj (i i' : Nat) (hi : i < 2 ^ 31) (hi' : i' < 2 ^ 31)
    (h : pre i 0 48 = pre i' 0 48) : i = i' := by
  have := pre_inj31 i i' 31 (by omega) (pre_prefix i i' 0 31 17 h)
  rwa [Nat.mod_eq_of_lt hi, Nat.mod_eq_of_lt hi'] at this

theorem effSeed_lt (seed : Int) : effSeed seed < 2 ^ 31 := by
  unfold effSeed; split <;> omega

theorem effSeed_of_range (a : Int) (h1 : 1 ≤ a) (h2 : a < 2147483648) : effSeed a = a.toNat := by
  unfold effSeed
  rw [if_neg (by omega), Int.emod_eq_of_lt (by omega) h2]

end CMacVerif.Ranlux
