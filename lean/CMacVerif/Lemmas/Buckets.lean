import CMacVerif.Model.Buckets
import CMacVerif.Lemmas.ShellsRange
import CMacVerif.Lemmas.GridNum
import Mathlib.Tactic.Positivity
/-! The bucket-grid nearest neighbour search returns the brute-force answer (C16). -/
namespace CMacVerif.Buckets
open CMacVerif.GridNum CMacVerif.Shells

theorem zero_lit : (0.0 : ℝ) = 0 := by norm_num

theorem dist2_nonneg (q p : V3 ℝ) : 0 ≤ dist2 q p := by
  unfold dist2
  have h1 := mul_self_nonneg (q.x - p.x)
  have h2 := mul_self_nonneg (q.y - p.y)
  have h3 := mul_self_nonneg (q.z - p.z)
  linarith

section
variable (g : BGrid ℝ) (p : V3 ℝ) (ax ay az : Int)

/-- squared distance of point `q` to the query -/
def d2 (q : Nat) : ℝ := dist2 (g.pos q) p

/-- the bucket at a block offset from the anchor cell -/
def bucketAt (i : Idx) : List Nat := g.bucket (ax + i.rx) (ay + i.ry) (az + i.rz)

/-- `b` is the best candidate among the points satisfying `S` (or "none yet") -/
def BestOf (S : Nat → Prop) (b : Best ℝ) : Prop :=
  (b.r2 < 0 ∧ ∀ q, ¬ S q) ∨ (0 ≤ b.r2 ∧ S b.idx ∧ b.r2 = d2 g p b.idx ∧ ∀ q, S q → b.r2 ≤ d2 g p q)

theorem scan_best (pts : List Nat) : ∀ (S : Nat → Prop) (b : Best ℝ), BestOf g p S b →
    BestOf g p (fun q => S q ∨ q ∈ pts) (scan g p pts b) := by
  induction pts with
  | nil => intro S b h; simpa [scan] using h
  | cons x rest ih =>
    intro S b h
    simp only [scan, zero_lit]
    have key : BestOf g p (fun q => S q ∨ q = x)
        (if b.r2 < 0 ∨ dist2 (g.pos x) p < b.r2 then ⟨dist2 (g.pos x) p, x⟩ else b) := by
      have hx0 := dist2_nonneg (g.pos x) p
      rcases h with ⟨hneg, hnone⟩ | ⟨hpos, hin, heq, hmin⟩
      · rw [if_pos (Or.inl hneg)]
        refine Or.inr ⟨hx0, Or.inr rfl, rfl, ?_⟩
        rintro q (hq | rfl)
        · exact absurd hq (hnone q)
        · exact le_refl _
      · by_cases hc : dist2 (g.pos x) p < b.r2
        · rw [if_pos (Or.inr hc)]
          refine Or.inr ⟨hx0, Or.inr rfl, rfl, ?_⟩
          rintro q (hq | rfl)
          · exact le_trans hc.le (hmin q hq)
          · exact le_refl _
        · rw [if_neg (by push Not; exact ⟨hpos, le_of_not_gt hc⟩)]
          refine Or.inr ⟨hpos, Or.inl hin, heq, ?_⟩
          rintro q (hq | rfl)
          · exact hmin q hq
          · exact le_of_not_gt hc
    have := ih _ _ key
    unfold BestOf at this ⊢
    simp only [List.mem_cons] at this ⊢
    rcases this with ⟨a, b'⟩ | ⟨a, b', c, d⟩
    · exact Or.inl ⟨a, fun q hq => b' q (by tauto)⟩
    · exact Or.inr ⟨a, by tauto, c, fun q hq => d q (by tauto)⟩

/-- the bounds after the widenings for the levels `0 … L-1` -/
noncomputable def boundsAt : Nat → Bounds ℝ
  | 0 => initBounds g ax ay az p
  | L + 1 => widen g ax ay az (L : Int) (boundsAt L)

/-- points of the buckets of the blocks inside the grid visited up to traversal index `K` -/
def Visited (K : Nat) (q : Nat) : Prop :=
  ∃ k, k ≤ K ∧ Inside ax ay az g.n g.n g.n (iter k) ∧ q ∈ bucketAt g ax ay az (iter k)

/-- points of all buckets inside the grid -/
def AllPts (q : Nat) : Prop := ∃ k, Inside ax ay az g.n g.n g.n (iter k) ∧ q ∈ bucketAt g ax ay az (iter k)

end

theorem level_nonneg (k : Nat) : 0 ≤ (iter k).level := by
  have := good_iter k; unfold Good at this; rw [← this]; exact maxNorm_nonneg _ _ _

theorem level_pos_of_pos (k : Nat) (hk : 0 < k) : 1 ≤ (iter k).level := by
  have h1 : (iter 1).level = 1 := by decide
  have := level_mono (m := 1) (n := k) hk
  omega

theorem BestOf_congr (g : BGrid ℝ) (p : V3 ℝ) (S S' : Nat → Prop) (b : Best ℝ) (h : ∀ q, S q ↔ S' q)
    (hb : BestOf g p S b) : BestOf g p S' b := by
  have : S = S' := funext fun q => propext (h q)
  rw [← this]; exact hb

theorem searchLoop_correct (g : BGrid ℝ) (p : V3 ℝ) (ax ay az : Int)
    (hx : 0 ≤ ax ∧ ax < g.n) (hy : 0 ≤ ay ∧ ay < g.n) (hz : 0 ≤ az ∧ az < g.n) (fuelR : Nat)
    (hfuelR : ∀ k, Inside ax ay az g.n g.n g.n (iter k) → k ≤ fuelR)
    (hcover : ∀ (L k q : Nat), 1 ≤ L → Inside ax ay az g.n g.n g.n (iter k) → (L : Int) ≤ (iter k).level →
      q ∈ bucketAt g ax ay az (iter k) → maxRadius2 (boundsAt g p ax ay az L) ≤ d2 g p q) :
    ∀ (fuel K : Nat) (s : SSt ℝ), s.idx = iter K → Inside ax ay az g.n g.n g.n (iter K) →
      s.bnd = boundsAt g p ax ay az (iter K).level.toNat → BestOf g p (Visited g ax ay az K) s.best →
      ∀ s' e, searchLoop g p ax ay az (setMaxRange ax ay az g.n g.n g.n) fuelR fuel s = (s', e) → e ≠ .fuel →
        BestOf g p (AllPts g ax ay az) s'.best := by
  intro fuel
  induction fuel with
  | zero => intro K s _ _ _ _ s' e h he; simp [searchLoop] at h; exact absurd h.2.symm he
  | succ fuel ih =>
    intro K s hidx hin hbnd hbest s' e h he
    obtain ⟨hmin, N, hN, hlast⟩ := max_range_is_last_aux ax ay az g.n hx hy hz
    simp only [searchLoop] at h
    rw [hidx] at h
    by_cases hend : (iter K).rx = (setMaxRange ax ay az g.n g.n g.n).rx ∧ (iter K).ry = (setMaxRange ax ay az g.n g.n g.n).ry
        ∧ (iter K).rz = (setMaxRange ax ay az g.n g.n g.n).rz
    · -- last block: everything has been visited
      have hat : increaseRange ax ay az g.n g.n g.n (setMaxRange ax ay az g.n g.n g.n) fuelR (iter K) = .atEnd := by
        unfold increaseRange; rw [if_pos hend]
      rw [hat] at h
      simp only [Prod.mk.injEq] at h
      obtain ⟨rfl, _⟩ := h
      have hKN : K = N := by
        apply iter_injective
        rw [hN]
        have g1 := good_iter K
        have g2 := good_iter N
        rw [hN] at g2
        unfold Good at g1 g2
        obtain ⟨e1, e2, e3⟩ := hend
        cases hi : iter K with
        | mk a b c d =>
          cases hm : setMaxRange ax ay az g.n g.n g.n with
          | mk a' b' c' d' =>
            rw [hi] at g1 e1 e2 e3; rw [hm] at g2 e1 e2 e3
            simp only at g1 g2 e1 e2 e3
            subst e1 e2 e3
            rw [← g1, ← g2]
      refine BestOf_congr g p _ _ _ (fun q => ?_) hbest
      constructor
      · rintro ⟨k, _, hk, hq⟩; exact ⟨k, hk, hq⟩
      · rintro ⟨k, hk, hq⟩; exact ⟨k, by rw [hKN]; exact hlast k hk, hk, hq⟩
    · obtain ⟨k', hlt, hin', hout, hlev, hfuel⟩ := increase_range_next_aux ax ay az g.n hx hy hz K hend hin
      have hnext := hfuel fuelR (by have := hfuelR k' hin'; omega)
      rw [hnext] at h
      simp only at h
      -- the bounds follow the level
      have hl0 := level_nonneg K
      have hmono := level_mono (le_of_lt hlt)
      have hbnd' : (if (iter k').level > (iter K).level then widen g ax ay az (iter K).level s.bnd else s.bnd)
          = boundsAt g p ax ay az (iter k').level.toNat := by
        by_cases hg : (iter k').level > (iter K).level
        · rw [if_pos hg, hbnd]
          have e1 : (iter k').level = (iter K).level + 1 := by omega
          have e2 : (iter k').level.toNat = (iter K).level.toNat + 1 := by omega
          rw [e2]
          show _ = widen g ax ay az (((iter K).level.toNat : Nat) : Int) _
          rw [Int.toNat_of_nonneg hl0]
        · rw [if_neg hg, hbnd]
          have e1 : (iter k').level = (iter K).level := by omega
          rw [e1]
      rw [hbnd'] at h
      have hvis : ∀ q, (Visited g ax ay az K q ∨ q ∈ bucketAt g ax ay az (iter k')) ↔ Visited g ax ay az k' q := by
        intro q
        constructor
        · rintro (⟨k, hk, hki, hq⟩ | hq)
          · exact ⟨k, by omega, hki, hq⟩
          · exact ⟨k', le_refl _, hin', hq⟩
        · rintro ⟨k, hk, hki, hq⟩
          rcases Nat.lt_or_ge K k with h1 | h1
          · rcases Nat.lt_or_ge k k' with h2 | h2
            · exact absurd hki (hout k h1 h2)
            · have : k = k' := by omega
              subst this; exact Or.inr hq
          · exact Or.inl ⟨k, h1, hki, hq⟩
      by_cases hc : s.best.r2 < 0.0 ∨ s.best.r2 ≥ maxRadius2 (boundsAt g p ax ay az (iter k').level.toNat)
      · rw [if_pos hc] at h
        refine ih k' _ rfl hin' rfl ?_ s' e h he
        exact BestOf_congr g p _ _ _ hvis (scan_best g p _ _ _ hbest)
      · rw [if_neg hc] at h
        simp only [Prod.mk.injEq] at h
        obtain ⟨rfl, _⟩ := h
        push Not at hc
        rw [zero_lit] at hc
        obtain ⟨hnn, hltr⟩ := hc
        show BestOf g p (AllPts g ax ay az) s.best
        rcases hbest with ⟨hneg, _⟩ | ⟨hpos, hinb, heq, hminb⟩
        · exact absurd hneg (not_lt.mpr hnn)
        · refine Or.inr ⟨hpos, ?_, heq, ?_⟩
          · obtain ⟨k, _, hk, hq⟩ := hinb; exact ⟨k, hk, hq⟩
          · rintro q ⟨k, hk, hq⟩
            rcases Nat.lt_or_ge k k' with h1 | h1
            · -- visited earlier (blocks strictly between are outside the grid)
              rcases Nat.lt_or_ge K k with h2 | h2
              · exact absurd hk (hout k h2 h1)
              · exact hminb q ⟨k, h2, hk, hq⟩
            · -- not yet visited: at least the current level away
              have hL : 1 ≤ (iter k').level := level_pos_of_pos k' (by omega)
              have hLk : (iter k').level ≤ (iter k).level := level_mono h1
              have := hcover (iter k').level.toNat k q (by omega) hk (by rw [Int.toNat_of_nonneg (by omega)]; exact hLk) hq
              linarith

end CMacVerif.Buckets
