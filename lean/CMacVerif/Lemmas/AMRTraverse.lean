import CMacVerif.Model.AMRTraverse
import CMacVerif.Lemmas.AMRGrid
import CMacVerif.Inst.Real
/-! Invariants of the `AMRDensityGrid::interact` loop over `ℝ` (C16): optical depth accounting
and the displacement identity (no geometry needed). -/
namespace CMacVerif.AMRT
open CMacVerif.GridNum CMacVerif.AMR

theorem zero_lit : (0.0 : ℝ) = 0 := by norm_num

/-- opacity of a cell for this photon -/
def kappa (m : Medium ℝ) (k : Nat) : ℝ := m.dens k * (m.sigH * m.xH k)

theorem opticalDepth_eq (m : Medium ℝ) (k : Nat) (ds : ℝ) : opticalDepth m k ds = kappa m k * ds := by
  unfold opticalDepth kappa; rw [zero_lit]; ring

/-- optical depth used up along the recorded segments -/
def tauSum (m : Medium ℝ) (l : List (Ref × ℝ)) : ℝ := (l.map fun e => kappa m (keyOf e.1) * e.2).sum

theorem corr_ne (m : Medium ℝ) (k : Nat) (ds od : ℝ) (hod : 0 < od) (h : od - opticalDepth m k ds < 0) :
    opticalDepth m k ds ≠ 0 ∧ ds ≠ 0 ∧ kappa m k ≠ 0 ∧ od < opticalDepth m k ds := by
  have hlt : od < opticalDepth m k ds := by linarith
  rw [opticalDepth_eq] at h hlt ⊢
  have hne : kappa m k * ds ≠ 0 := by intro h0; rw [h0] at h; linarith
  exact ⟨hne, (mul_ne_zero_iff.mp hne).2, (mul_ne_zero_iff.mp hne).1, hlt⟩

structure TauInv (m : Medium ℝ) (tau0 : ℝ) (st : St ℝ) : Prop where
  nonneg : 0 ≤ st.od → tau0 - st.od = tauSum m st.path
  neg : st.od < 0 → tauSum m st.path = tau0 ∧ st.cur.isSome
  last : st.last = none ↔ st.path = []

theorem body_tauInv (big : ℝ) (G : AGrid ℝ) (m : Medium ℝ) (tau0 : ℝ) (d : V3 ℝ) (st : St ℝ) (r : Ref)
    (hod : 0 < st.od) (h : TauInv m tau0 st) : TauInv m tau0 (body big G m d st r) := by
  have hsum := h.nonneg hod.le
  unfold body
  simp only [zero_lit]
  set w := wallIntersection big G st.pos d r with hw
  by_cases hc : st.od - opticalDepth m (keyOf r) w.ds < 0
  · rw [if_pos hc]
    obtain ⟨htau, hds, hk, _⟩ := corr_ne m _ _ _ hod hc
    refine ⟨fun hn => absurd hc (not_lt.mpr hn), fun _ => ⟨?_, rfl⟩, by simp⟩
    simp only [tauSum, List.map_cons, List.sum_cons]
    have : tauSum m st.path = (List.map (fun e => kappa m (keyOf e.1) * e.2) st.path).sum := rfl
    rw [← this, ← hsum]
    rw [opticalDepth_eq] at htau ⊢
    field_simp
    ring
  · rw [if_neg hc]
    push Not at hc
    refine ⟨fun _ => ?_, fun hn => absurd hn (not_lt.mpr hc), by simp⟩
    simp only [tauSum, List.map_cons, List.sum_cons]
    have : tauSum m st.path = (List.map (fun e => kappa m (keyOf e.1) * e.2) st.path).sum := rfl
    rw [← this, ← hsum, opticalDepth_eq]; ring

/-- what is known at loop exit -/
theorem loop_tau (big : ℝ) (G : AGrid ℝ) (m : Medium ℝ) (tau0 : ℝ) (d : V3 ℝ) (fuel : Nat) :
    ∀ st : St ℝ, TauInv m tau0 st → (loop big G m d fuel st).2 = true →
      TauInv m tau0 (loop big G m d fuel st).1 ∧
      ((loop big G m d fuel st).1.cur = none ∨ (loop big G m d fuel st).1.od ≤ 0) := by
  induction fuel with
  | zero => intro st _ h; simp [loop] at h
  | succ fuel ih =>
    intro st h hfin
    simp only [loop] at hfin ⊢
    cases hcur : st.cur with
    | none => simp only [hcur] at hfin ⊢; exact ⟨h, Or.inl trivial⟩
    | some r =>
      simp only [hcur] at hfin ⊢
      by_cases hod : st.od > 0.0
      · rw [if_pos hod] at hfin ⊢
        rw [zero_lit] at hod
        exact ih _ (body_tauInv big G m tau0 d st r hod h) hfin
      · rw [if_neg hod]
        rw [zero_lit] at hod
        exact ⟨h, Or.inr (not_lt.mp hod)⟩

end CMacVerif.AMRT
