import CMacVerif.Lemmas.AtomicsQueue
import CMacVerif.Model.AtomicsSpec
import CMacVerif.Model.Worker
/-!
C08 lemmas, part 7: the set of *running* tasks and the refinement of the task-level
`acquire` / `finishExec` of C07's `Model/Worker.lean` (and C01) by the single-atomic-operation
model.

A thread *runs* task `t` from the atomic operation that took the last lock of `t` (inside a pop,
or in a direct `lock_dependency`) until the first unlock of `unlock_dependency(t)`.
-/
namespace CMacVerif.Atomics

/-- task in the transient part of the running interval -/
def pcRunning (cfg : Cfg) : PC → Option Nat
  | .popRemove _ _ t => some t
  | .tuStart t => some t
  | .tu1 t => some t
  | .tu0 t => if (cfg.deps t).2 = none then some t else none
  | _ => none

/-- the tasks a thread runs -/
def runList (cfg : Cfg) (th : Thread) : List Nat := (pcRunning cfg th.pc).toList ++ th.tasks

/-- all running tasks of a state (with multiplicity) -/
def running (cfg : Cfg) (s : State) : List Nat := s.threads.flatMap (runList cfg)

/-- how many of the tasks in `l` declare lock `L` -/
def hsum (cfg : Cfg) (L : LockId) (l : List Nat) : Nat := (l.map (depsHold cfg · L)).sum

def runHold (cfg : Cfg) (L : LockId) (th : Thread) : Nat := hsum cfg L (runList cfg th)

theorem hsum_append (cfg : Cfg) (L : LockId) (a b : List Nat) :
    hsum cfg L (a ++ b) = hsum cfg L a + hsum cfg L b := by simp [hsum]

theorem hsum_tasks (cfg : Cfg) (L : LockId) (l : List Nat) : hsum cfg L l = tasksHold cfg l L := rfl

/-- a thread holds every lock of every task it runs -/
theorem runHold_le_holdL (cfg : Cfg) (L : LockId) (th : Thread) : runHold cfg L th ≤ holdL cfg L th := by
  unfold runHold runList holdL
  rw [hsum_append]
  have e : hsum cfg L th.tasks = tasksHold cfg th.tasks L := rfl
  have : hsum cfg L (pcRunning cfg th.pc).toList ≤ pcHoldL cfg th.pc L := by
    cases hpc : th.pc <;> simp only [pcRunning, pcHoldL, Option.toList, hsum, List.map_nil, List.sum_nil,
      List.map_cons, List.sum_cons, Nat.zero_le, Nat.add_zero, Nat.le_refl]
    case popRemove q j t => omega
    case tu0 t =>
      rcases hd : cfg.deps t with ⟨_ | a, _ | b⟩ <;> simp [hd, depsHold, dep0Hold]
  omega

theorem sumT_le' (f g : Thread → Nat) (l : List Thread) (h : ∀ th ∈ l, f th ≤ g th) : sumT f l ≤ sumT g l := by
  induction l with
  | nil => simp
  | cons a l ih =>
    have := ih (fun th hth => h th (by simp [hth]))
    have := h a (by simp)
    simp only [sumT_cons]; omega

/-- **at most one running task declares any given lock** (sum form) -/
theorem runHold_sum_le_one (cfg : Cfg) (s : State) (h : LockInv cfg s) (L : LockId) :
    sumT (runHold cfg L) s.threads ≤ 1 := by
  have h1 := sumT_le' (runHold cfg L) (holdL cfg L) s.threads (fun th _ => runHold_le_holdL cfg L th)
  have h2 := h L
  have := Bool.toNat_le (s.mem.locks L)
  omega

theorem hsum_running (cfg : Cfg) (L : LockId) (l : List Thread) :
    hsum cfg L (l.flatMap (runList cfg)) = sumT (runHold cfg L) l := by
  induction l with
  | nil => rfl
  | cons a l ih => simp only [List.flatMap_cons, hsum_append, ih, sumT_cons, runHold]

theorem mem_lockset (cfg : Cfg) (t r : Nat) : r ∈ lockset cfg t → 1 ≤ depsHold cfg t (.dep r) := by
  unfold lockset depsHold
  rcases cfg.deps t with ⟨_ | a, _ | b⟩ <;> simp [ind]
  · intro h; subst h; simp
  · intro h; rcases h with rfl | rfl <;> simp <;> omega

theorem le_hsum (cfg : Cfg) (L : LockId) (l : List Nat) (x : Nat) (h : x ∈ l) : depsHold cfg x L ≤ hsum cfg L l :=
  depsHold_le_tasksHold cfg l x L h

theorem conflict_elim (cfg : Cfg) (a b : Nat) (h : conflict cfg a b = true) :
    ∃ r, 1 ≤ depsHold cfg a (.dep r) ∧ 1 ≤ depsHold cfg b (.dep r) := by
  unfold conflict at h
  simp only [List.any_eq_true, List.contains_iff_mem] at h
  obtain ⟨r, hr, hb⟩ := h
  exact ⟨r, mem_lockset cfg a r hr, mem_lockset cfg b r hb⟩

/-- a list of tasks in which every lock is declared at most once is pairwise conflict-free -/
theorem pairwise_of_hsum (cfg : Cfg) (l : List Nat) (h : ∀ L, hsum cfg L l ≤ 1) :
    l.Pairwise (fun a b => conflict cfg a b = false) := by
  induction l with
  | nil => exact List.Pairwise.nil
  | cons a l ih =>
    refine List.Pairwise.cons ?_ (ih (fun L => ?_))
    · intro b hb
      cases hc : conflict cfg a b
      · rfl
      · obtain ⟨r, ha, hb'⟩ := conflict_elim cfg a b hc
        have h1 := h (.dep r)
        have h2 := le_hsum cfg (.dep r) l b hb
        simp only [hsum, List.map_cons, List.sum_cons] at h1 h2
        omega
    · have := h L
      simp only [hsum, List.map_cons, List.sum_cons] at this ⊢
      omega

/-- the lock part of C07's task graph, read off the task table -/
def graphOf (cfg : Cfg) : Worker.Graph Nat Nat :=
  { univ := [], children := cfg.children, parents := fun _ => [], lockset := lockset cfg }

theorem conflicts_graphOf (cfg : Cfg) (a b : Nat) : Worker.conflicts (graphOf cfg) a b = conflict cfg a b := rfl

open Spec

def runW (cfg : Cfg) (x : Nat) (th : Thread) : Nat := (runList cfg th).count x

def labPlus (l : Option Label) (x : Nat) : Nat :=
  match l with
  | some (.acquire _ t) => ind (x = t)
  | some (.take t) => ind (x = t)
  | _ => 0

def labMinus (l : Option Label) (x : Nat) : Nat :=
  match l with
  | some (.finish t) => ind (x = t)
  | _ => 0

theorem runW_dispatch (cfg : Cfg) (x : Nat) (th : Thread) (c : Cmd) (hpc : th.pc = .idle) :
    runW cfg x (dispatch cfg th c) = runW cfg x th := by
  cases c
  case unlockTask j =>
    simp only [dispatch]
    split
    · rename_i t ht
      have := count_erase_add th.tasks t x (pick_mem _ _ _ ht)
      simp only [runW, runList, pcRunning, hpc, Option.toList, List.cons_append, List.nil_append, count_cons_ind, ind] at this ⊢
      omega
    · simp [runW, runList, pcRunning, hpc, ret]
  all_goals
    simp only [dispatch, ret]
    (repeat' split) <;> simp [runW, runList, pcRunning, hpc]

theorem exec_runW (cfg : Cfg) (m : Mem) (th : Thread) (x : Nat) :
    runW cfg x (exec cfg m th).2 + labMinus (lab cfg m th) x = runW cfg x th + labPlus (lab cfg m th) x := by
  unfold exec lab
  cases hpc : th.pc
  case idle =>
    simp only
    split
    · simp [labPlus, labMinus, hpc]
    · rename_i c0 rest hp
      rw [runW_dispatch cfg x _ c0 (by simp)]
      simp [runW, runList, labPlus, labMinus, hpc]
  case tlStart c t =>
    rcases hd : cfg.deps t with ⟨_ | a, _ | b⟩ <;> cases c <;> simp only [hd] <;> (repeat' split) <;>
      simp_all [runW, runList, pcRunning, tlSucc, tlFail, ret, labPlus, labMinus, acqLabel, count_cons_ind]
  case tl0 c t =>
    rcases hd : cfg.deps t with ⟨_ | a, _ | b⟩ <;> cases c <;> simp only [hd] <;> (repeat' split) <;>
      simp_all [runW, runList, pcRunning, tlSucc, tlFail, ret, labPlus, labMinus, acqLabel, count_cons_ind]
  case tl1 c t =>
    rcases hd : cfg.deps t with ⟨_ | a, _ | b⟩ <;> cases c <;> simp only [hd] <;> (repeat' split) <;>
      simp_all [runW, runList, pcRunning, tlSucc, tlFail, ret, labPlus, labMinus, acqLabel, count_cons_ind]
  case tlBack c t =>
    rcases hd : cfg.deps t with ⟨_ | a, _ | b⟩ <;> cases c <;> simp only [hd] <;> (repeat' split) <;>
      simp_all [runW, runList, pcRunning, tlSucc, tlFail, ret, labPlus, labMinus, acqLabel, count_cons_ind]
  case tuStart t =>
    rcases hd : cfg.deps t with ⟨_ | a, _ | b⟩ <;> simp only [hd] <;>
      simp_all [runW, runList, pcRunning, ret, labPlus, labMinus, count_cons_ind]
  case tu1 t =>
    rcases hd : cfg.deps t with ⟨_ | a, _ | b⟩ <;> simp only [hd] <;>
      simp_all [runW, runList, pcRunning, ret, labPlus, labMinus, count_cons_ind]
  case tu0 t =>
    rcases hd : cfg.deps t with ⟨_ | a, _ | b⟩ <;> simp only [hd] <;>
      simp_all [runW, runList, pcRunning, ret, labPlus, labMinus, count_cons_ind]
  case popRemove q j t =>
    simp only
    split <;> simp [runW, runList, pcRunning, labPlus, labMinus, count_cons_ind, hpc] <;> omega
  case getTotal j r => cases r <;> simp [runW, runList, pcRunning, getDone, ret, labPlus, labMinus, hpc]
  case addUnlock q t k => cases k <;> simp [runW, runList, pcRunning, ret, labPlus, labMinus, hpc]
  case numInc q t k => cases k <;> simp only <;> (repeat' split) <;> simp [runW, runList, pcRunning, ret, labPlus, labMinus, hpc]
  all_goals
    first
    | (simp only; simp [labPlus, labMinus]; done)
    | (simp only; (repeat' split) <;> simp [runW, runList, pcRunning, ret, labPlus, labMinus, hpc] <;> done)

/-- queue entry a thread has claimed (all locks taken) but not yet removed -/
def pcClaim : PC → Option (Nat × Nat)
  | .popRemove q _ t => some (q, t)
  | _ => none

def claimW (q x : Nat) (th : Thread) : Nat :=
  match pcClaim th.pc with
  | some (q', t) => ind (q = q' ∧ x = t)
  | none => 0

def labAcqQ (l : Option Label) (q x : Nat) : Nat :=
  match l with
  | some (.acquire q' t) => ind (q = q' ∧ x = t)
  | _ => 0

def labAddQ (l : Option Label) (q x : Nat) : Nat :=
  match l with
  | some (.add q' t) => ind (q = q' ∧ x = t)
  | _ => 0

theorem claim_dispatch (cfg : Cfg) (th : Thread) (c : Cmd) : pcClaim (dispatch cfg th c).pc = none := by
  cases c <;> simp only [dispatch, ret] <;> (repeat' split) <;> simp [pcClaim]

theorem exec_claimq (cfg : Cfg) (m : Mem) (th : Thread) (q x : Nat) (href : RefOk m th) :
    ((exec cfg m th).1.items q).count x + claimW q x th + labAcqQ (lab cfg m th) q x
      = (m.items q).count x + claimW q x (exec cfg m th).2 + labAddQ (lab cfg m th) q x := by
  unfold exec lab
  cases hpc : th.pc
  case idle =>
    simp only
    split
    · simp [labAcqQ, labAddQ, claimW, hpc]
    · rename_i c0 rest hp
      have := claim_dispatch cfg { th with pc := .idle, prog := rest } c0
      simp only [claimW]
      rw [this, hpc]
      simp [labAcqQ, labAddQ, pcClaim]
  case addBody q' t k =>
    simp only [claimW, pcClaim, hpc, labAcqQ, labAddQ, upd_apply]
    split
    · rename_i h; subst h
      simp only [List.count_append, count_cons_ind, List.count_nil, ind]
      split <;> simp_all
    · rename_i h; simp [ind, h]
  case popRemove q' j t =>
    have hj := href q' j t (by simp [hpc, pcQueueRef])
    simp only [hj, claimW, pcClaim, hpc, labAcqQ, labAddQ, upd_apply]
    split
    · rename_i h; subst h
      have := count_eraseIdx (m.items q) j x t hj
      simp only [ind] at *
      split <;> simp_all <;> omega
    · rename_i h; simp [ind, h]
  case tlStart c t =>
    rcases hd : cfg.deps t with ⟨_ | a, _ | b⟩ <;> cases c <;> simp only [hd] <;> (repeat' split) <;>
      simp_all [claimW, pcClaim, tlSucc, tlFail, ret, labAcqQ, labAddQ, acqLabel, ind]
  case tl0 c t =>
    rcases hd : cfg.deps t with ⟨_ | a, _ | b⟩ <;> cases c <;> simp only [hd] <;> (repeat' split) <;>
      simp_all [claimW, pcClaim, tlSucc, tlFail, ret, labAcqQ, labAddQ, acqLabel, ind]
  case tl1 c t =>
    rcases hd : cfg.deps t with ⟨_ | a, _ | b⟩ <;> cases c <;> simp only [hd] <;> (repeat' split) <;>
      simp_all [claimW, pcClaim, tlSucc, tlFail, ret, labAcqQ, labAddQ, acqLabel, ind]
  case tlBack c t =>
    rcases hd : cfg.deps t with ⟨_ | a, _ | b⟩ <;> cases c <;> simp only [hd] <;> (repeat' split) <;>
      simp_all [claimW, pcClaim, tlSucc, tlFail, ret, labAcqQ, labAddQ, acqLabel, ind]
  case tuStart t =>
    rcases hd : cfg.deps t with ⟨_ | a, _ | b⟩ <;> simp only [hd] <;> simp_all [claimW, pcClaim, ret, labAcqQ, labAddQ]
  case tu1 t =>
    rcases hd : cfg.deps t with ⟨_ | a, _ | b⟩ <;> simp only [hd] <;> simp_all [claimW, pcClaim, ret, labAcqQ, labAddQ]
  case tu0 t =>
    rcases hd : cfg.deps t with ⟨_ | a, _ | b⟩ <;> simp only [hd] <;> simp_all [claimW, pcClaim, ret, labAcqQ, labAddQ]
  case getTotal j r => cases r <;> simp [claimW, pcClaim, getDone, ret, labAcqQ, labAddQ, hpc]
  case addUnlock q' t k => cases k <;> simp [claimW, pcClaim, ret, labAcqQ, labAddQ, hpc]
  case numInc q' t k => cases k <;> simp only <;> (repeat' split) <;> simp [claimW, pcClaim, ret, labAcqQ, labAddQ, hpc]
  all_goals
    first
    | (simp only; simp [labAcqQ, labAddQ]; done)
    | (simp only; (repeat' split) <;> simp [claimW, pcClaim, ret, labAcqQ, labAddQ, hpc] <;> done)

/-- at a linearisation point the task is put in front of the thread's running list -/
theorem exec_runList_acq (cfg : Cfg) (m : Mem) (th : Thread) (t : Nat)
    (h : 1 ≤ labPlus (lab cfg m th) t) : runList cfg (exec cfg m th).2 = t :: runList cfg th := by
  unfold exec
  unfold lab at h
  cases hpc : th.pc <;> rw [hpc] at h <;> simp only [labPlus, Nat.le_zero, Nat.one_ne_zero, reduceCtorEq] at h
  case tlStart c t' =>
    rcases hd : cfg.deps t' with ⟨_ | a, _ | b⟩ <;> cases c <;> simp only [hd] at h ⊢ <;>
      simp_all [runList, pcRunning, tlSucc, ret, labPlus, acqLabel, ind] <;> (try (split at h <;> first | omega | (rename_i e; exact e.symm)))
  case tl0 c t' =>
    rcases hd : cfg.deps t' with ⟨_ | a, _ | b⟩ <;> cases c <;> simp only [hd] at h ⊢ <;> (repeat' split) <;>
      simp_all [runList, pcRunning, tlSucc, ret, labPlus, acqLabel, ind] <;> (try (split at h <;> first | omega | (rename_i e; exact e.symm)))
  case tl1 c t' =>
    rcases hd : cfg.deps t' with ⟨_ | a, _ | b⟩ <;> cases c <;> simp only [hd] at h ⊢ <;> (repeat' split) <;>
      simp_all [runList, pcRunning, tlSucc, ret, labPlus, acqLabel, ind] <;> (try (split at h <;> first | omega | (rename_i e; exact e.symm)))
  case tuStart t' => rcases hd : cfg.deps t' with ⟨_ | a, _ | b⟩ <;> simp [hd, labPlus] at h
  case tu1 t' => rcases hd : cfg.deps t' with ⟨_ | a, _ | b⟩ <;> simp [hd, labPlus] at h
  case tu0 t' => by_cases hc : (cfg.deps t').2 = none <;> simp [hc] at h

theorem claimW_le (cfg : Cfg) (q x : Nat) (th : Thread) : claimW q x th ≤ pcHoldL cfg th.pc (.queue q) := by
  unfold claimW
  cases hpc : th.pc <;> simp only [pcClaim, Nat.zero_le]
  case popRemove q' j t =>
    simp only [pcHoldL, ind]
    split <;> simp_all

theorem claimW_ref (q x : Nat) (th : Thread) (h : 1 ≤ claimW q x th) :
    ∃ j, pcQueueRef th.pc = some (q, j, x) := by
  unfold claimW at h
  cases hpc : th.pc <;> rw [hpc] at h <;> simp only [pcClaim, Nat.le_zero, Nat.one_ne_zero] at h
  case popRemove q' j t =>
    simp only [ind] at h
    split at h
    · rename_i hh; obtain ⟨rfl, rfl⟩ := hh; exact ⟨j, rfl⟩
    · omega

theorem sumT_pos (f : Thread → Nat) (l : List Thread) (h : 1 ≤ sumT f l) :
    ∃ (k : Nat) (th : Thread), l[k]? = some th ∧ 1 ≤ f th := by
  induction l with
  | nil => simp at h
  | cons a l ih =>
    simp only [sumT_cons] at h
    by_cases ha : 1 ≤ f a
    · exact ⟨0, a, by simp, ha⟩
    · obtain ⟨k, th, hk, hf⟩ := ih (by omega)
      exact ⟨k + 1, th, by simpa using hk, hf⟩

theorem lab_acquire_pc (cfg : Cfg) (m : Mem) (th : Thread) (q t : Nat)
    (h : lab cfg m th = some (.acquire q t)) :
    (∃ j, pcQueueRef th.pc = some (q, j, t)) ∧ pcClaim th.pc = none := by
  unfold lab at h
  cases hpc : th.pc <;> rw [hpc] at h <;> simp only [reduceCtorEq] at h
  case tlStart c t' =>
    rcases hd : cfg.deps t' with ⟨_ | a, _ | b⟩ <;> cases c <;> simp [hd, acqLabel] at h <;>
      simp_all [pcQueueRef, pcClaim]
  case tl0 c t' =>
    rcases hd : cfg.deps t' with ⟨_ | a, _ | b⟩ <;> cases c <;> simp [hd, acqLabel] at h <;>
      simp_all [pcQueueRef, pcClaim]
  case tl1 c t' =>
    rcases hd : cfg.deps t' with ⟨_ | a, _ | b⟩ <;> cases c <;> simp [hd, acqLabel] at h <;>
      simp_all [pcQueueRef, pcClaim]
  case tuStart t' => rcases hd : cfg.deps t' with ⟨_ | a, _ | b⟩ <;> simp [hd] at h
  case tu1 t' => rcases hd : cfg.deps t' with ⟨_ | a, _ | b⟩ <;> simp [hd] at h
  case tu0 t' => by_cases hc : (cfg.deps t').2 = none <;> simp [hc] at h
  case addBody q' t' k => simp at h

/-- the abstract state of a concrete state: running multiset and queue multisets (a queue entry
claimed by a pop that already holds all its locks no longer counts as queued) -/
def absRun (cfg : Cfg) (s : State) (x : Nat) : Nat := sumT (runW cfg x) s.threads
def absK (s : State) (q x : Nat) : Nat := sumT (claimW q x) s.threads
def absQueue (s : State) (q x : Nat) : Nat := (s.mem.items q).count x - absK s q x
def abs (cfg : Cfg) (s : State) : AState := ⟨absRun cfg s, absQueue s⟩

/-- at most one thread has a claimed entry in a queue, and that entry is in the queue -/
theorem absK_le_count (cfg : Cfg) (s : State) (hl : LockInv cfg s) (hs : StabInv s) (q x : Nat) :
    absK s q x ≤ (s.mem.items q).count x := by
  by_cases h0 : absK s q x = 0
  · omega
  · obtain ⟨k, th, hk, hc⟩ := sumT_pos (claimW q x) s.threads (by unfold absK at h0; omega)
    obtain ⟨j, hj⟩ := claimW_ref q x th hc
    have hit := (hs k th hk).1 q j x hj
    have hcount : 1 ≤ (s.mem.items q).count x := List.count_pos_iff.mpr (List.mem_of_getElem? hit)
    have h1 : absK s q x ≤ sumT (holdL cfg (.queue q)) s.threads :=
      sumT_le' _ _ _ (fun th _ => by
        have := claimW_le cfg q x th
        unfold holdL; omega)
    have := hl (.queue q)
    have := Bool.toNat_le (s.mem.locks (.queue q))
    omega

/-- a thread that holds the queue lock without a claim excludes every claim on that queue -/
theorem absK_zero (cfg : Cfg) (s : State) (hl : LockInv cfg s) (tid : Nat) (th : Thread)
    (hth : s.threads[tid]? = some th) (q x : Nat) (hh : 1 ≤ pcHoldL cfg th.pc (.queue q))
    (hc : claimW q x th = 0) : absK s q x = 0 := by
  by_cases h0 : absK s q x = 0
  · exact h0
  · obtain ⟨k, th2, hk, hc2⟩ := sumT_pos (claimW q x) s.threads (by unfold absK at h0; omega)
    have hne : tid ≠ k := by
      intro e; subst e; rw [hth] at hk; cases hk; omega
    have hle := add_le_sumT (holdL cfg (.queue q)) s.threads tid k th th2 hth hk hne
    have h2 := claimW_le cfg q x th2
    have := hl (.queue q)
    have := Bool.toNat_le (s.mem.locks (.queue q))
    have e1 : holdL cfg (.queue q) th = heldHold th.held (.queue q) + tasksHold cfg th.tasks (.queue q) + pcHoldL cfg th.pc (.queue q) := rfl
    have e2 : holdL cfg (.queue q) th2 = heldHold th2.held (.queue q) + tasksHold cfg th2.tasks (.queue q) + pcHoldL cfg th2.pc (.queue q) := rfl
    omega

theorem mem_runList_of_runW (cfg : Cfg) (u : Nat) (th : Thread) (h : 1 ≤ runW cfg u th) : u ∈ runList cfg th :=
  List.count_pos_iff.mp h

/-- **one concrete transition is a stuttering step or the abstract transition of its label** -/
theorem sim_step (cfg : Cfg) (s : State) (tid : Nat) (th : Thread)
    (hl : LockInv cfg s) (hs : StabInv s)
    (hl' : LockInv cfg (step cfg s tid)) (hs' : StabInv (step cfg s tid))
    (hth : s.threads[tid]? = some th) :
    match lab cfg s.mem th with
    | none => Same (abs cfg s) (abs cfg (step cfg s tid))
    | some l => Step cfg (abs cfg s) l (abs cfg (step cfg s tid)) := by
  -- frame + local lemmas
  have hR : ∀ x, absRun cfg (step cfg s tid) x + labMinus (lab cfg s.mem th) x
      = absRun cfg s x + labPlus (lab cfg s.mem th) x := by
    intro x
    have hf := sumT_set (runW cfg x) s.threads tid th (exec cfg s.mem th).2 hth
    have hloc := exec_runW cfg s.mem th x
    rw [step_some cfg s tid th hth]
    simp only [absRun]
    omega
  have hQ : ∀ q x, absQueue (step cfg s tid) q x + labAcqQ (lab cfg s.mem th) q x
      = absQueue s q x + labAddQ (lab cfg s.mem th) q x := by
    intro q x
    have hf := sumT_set (claimW q x) s.threads tid th (exec cfg s.mem th).2 hth
    have hloc := exec_claimq cfg s.mem th q x (hs tid th hth).1
    have h1 := absK_le_count cfg s hl hs q x
    have h2 := absK_le_count cfg (step cfg s tid) hl' hs' q x
    rw [step_some cfg s tid th hth] at h2 ⊢
    simp only [absQueue, absK] at *
    omega
  cases hlab : lab cfg s.mem th with
  | none =>
    simp only
    rw [hlab] at hR hQ
    exact ⟨fun x => by have := hR x; simp [labPlus, labMinus] at this; exact this.symm,
           fun q x => by have := hQ q x; simp [labAcqQ, labAddQ] at this; exact this.symm⟩
  | some l =>
    rw [hlab] at hR hQ
    -- the guard of acquire / take: no running task conflicts with t
    have hfree : ∀ t, 1 ≤ labPlus (some l) t → Free cfg (abs cfg s) t := by
      intro t ht u hu
      cases hc : conflict cfg t u
      · rfl
      · exfalso
        obtain ⟨r, hrt, hru⟩ := conflict_elim cfg t u hc
        obtain ⟨k, thk, hk, hrk⟩ := sumT_pos (runW cfg u) s.threads hu
        have hmem := mem_runList_of_runW cfg u thk hrk
        have h1 : depsHold cfg u (.dep r) ≤ runHold cfg (.dep r) thk := le_hsum cfg (.dep r) _ u hmem
        have h2 := le_sumT (runHold cfg (.dep r)) s.threads k thk hk
        have hacq := exec_runList_acq cfg s.mem th t (by rw [hlab]; exact ht)
        have h3 : runHold cfg (.dep r) (exec cfg s.mem th).2 = depsHold cfg t (.dep r) + runHold cfg (.dep r) th := by
          simp only [runHold, hacq, hsum, List.map_cons, List.sum_cons]
        have hf := sumT_set (runHold cfg (.dep r)) s.threads tid th (exec cfg s.mem th).2 hth
        have hpost := runHold_sum_le_one cfg (step cfg s tid) hl' (.dep r)
        rw [step_some cfg s tid th hth] at hpost
        simp only at hpost
        omega
    cases l with
    | add q t =>
      refine ⟨fun x => ?_, fun q' x => ?_⟩
      · have := hR x; simp [labPlus, labMinus] at this; exact this
      · have := hQ q' x; simp only [labAcqQ, labAddQ, Nat.add_zero] at this
        simpa [abs, one, ind] using this
    | acquire q t =>
      obtain ⟨⟨j, hj⟩, hcl⟩ := lab_acquire_pc cfg s.mem th q t hlab
      have hit := (hs tid th hth).1 q j t hj
      have hcount : 1 ≤ (s.mem.items q).count t := List.count_pos_iff.mpr (List.mem_of_getElem? hit)
      have hk0 := absK_zero cfg s hl tid th hth q t (ref_holds_queue cfg th.pc q j t hj)
        (by simp [claimW, hcl])
      refine ⟨?_, hfree t (by simp [labPlus, ind]), fun x => ?_, fun q' x => ?_⟩
      · show 1 ≤ absQueue s q t
        unfold absQueue; omega
      · have := hR x; simp [labPlus, labMinus] at this
        simpa [abs, one, ind] using this
      · have := hQ q' x; simp only [labAcqQ, labAddQ, Nat.add_zero] at this
        simpa [abs, one, ind] using this
    | take t =>
      refine ⟨hfree t (by simp [labPlus, ind]), fun x => ?_, fun q' x => ?_⟩
      · have := hR x; simp [labPlus, labMinus] at this
        simpa [abs, one, ind] using this
      · have := hQ q' x; simp [labAcqQ, labAddQ] at this; exact this
    | finish t =>
      refine ⟨?_, fun x => ?_, fun q' x => ?_⟩
      · have := hR t; simp [labPlus, labMinus, ind] at this
        show 1 ≤ absRun cfg s t
        omega
      · have := hR x; simp [labPlus, labMinus] at this
        simpa [abs, one, ind] using this
      · have := hQ q' x; simp [labAcqQ, labAddQ] at this; exact this

theorem Same.refl (a : AState) : Same a a := ⟨fun _ => rfl, fun _ _ => rfl⟩

/-- **refinement**: the projection of every concrete execution (from any reachable state) is an
execution of the abstract lock-level specification between the abstractions of its end points -/
theorem refines_from (cfg : Cfg) (progs : List (List Cmd)) (sched : List Nat) :
    ∀ pre : List Nat,
      Exec cfg (abs cfg (run cfg (init progs) pre)) (trace cfg (run cfg (init progs) pre) sched)
        (abs cfg (run cfg (run cfg (init progs) pre) sched)) := by
  induction sched with
  | nil => intro pre; exact Exec.done (Same.refl _)
  | cons tid rest ih =>
    intro pre
    have hstep : run cfg (init progs) (pre ++ [tid]) = step cfg (run cfg (init progs) pre) tid := by
      rw [run_append]; rfl
    have ih' := ih (pre ++ [tid])
    rw [hstep] at ih'
    simp only [run_cons, trace]
    cases hth : (run cfg (init progs) pre).threads[tid]? with
    | none =>
      simp only
      rw [step_none cfg _ tid hth] at ih' ⊢
      exact ih'
    | some th =>
      have hsim := sim_step cfg (run cfg (init progs) pre) tid th
        (lockInv_run cfg progs pre) (stabInv_run cfg progs pre)
        (by rw [← hstep]; exact lockInv_run cfg progs _) (by rw [← hstep]; exact stabInv_run cfg progs _) hth
      cases hlab : lab cfg (run cfg (init progs) pre).mem th with
      | none =>
        rw [hlab] at hsim
        simp only [hlab]
        exact Exec.stutter hsim ih'
      | some l =>
        rw [hlab] at hsim
        simp only [hlab]
        exact Exec.step hsim ih'

theorem Solo.mono {cfg : Cfg} {tid : Nat} {s : State} {P Q : State → Prop}
    (h : ∀ s', P s' → Q s') (hs : Solo cfg tid s P) : Solo cfg tid s Q := by
  obtain ⟨n, hn⟩ := hs
  exact ⟨n, h _ hn⟩

/-- outcome of the scan of a pop that runs without interference, relative to the memory `m0`
and the locals (`tasks0`, `held0`) it started from: it ends at the unlock of the queue lock, and
if it found no task, all lock flags and the queue content are as they were -/
def ScanEnd (tid q : Nat) (m0 : Mem) (tasks0 held0 : List Nat) (res0 : List Res) (s' : State) : Prop :=
  ∃ th' r, s'.threads[tid]? = some th' ∧ th'.pc = .popUnlock q r ∧ th'.res = res0 ∧
    (r = none → (∀ L, s'.mem.locks L = m0.locks L) ∧ s'.mem.items = m0.items ∧
      th'.tasks = tasks0 ∧ th'.held = held0)

theorem scan_outcome (cfg : Cfg) (tid q : Nat) (i : Nat) :
    ∀ (s : State) (th : Thread), s.threads[tid]? = some th → th.pc = .popScan q i →
      i ≤ (s.mem.items q).length →
      Solo cfg tid s (ScanEnd tid q s.mem th.tasks th.held th.res) := by
  induction i with
  | zero =>
    intro s th hth hpc _
    have e1 : exec cfg s.mem th = (s.mem, { th with pc := .popUnlock q none }) := by
      unfold exec; rw [hpc]; simp
    have h1 := solo_exec hth e1
    exact Solo.next (Solo.now ⟨_, none, h1.1, rfl, rfl, fun _ => ⟨fun L => by rw [h1.2], by rw [h1.2], rfl, rfl⟩⟩)
  | succ i ih =>
    intro s th hth hpc hlen
    have hi : i < (s.mem.items q).length := by omega
    obtain ⟨t, ht⟩ : ∃ t, (s.mem.items q)[i]? = some t := ⟨_, List.getElem?_eq_getElem hi⟩
    have e1 : exec cfg s.mem th = (s.mem, { th with pc := .tlStart (.pop q (i + 1)) t }) := by
      unfold exec; rw [hpc]; simp [ht]
    have h1 := solo_exec hth e1
    apply Solo.next
    -- success: the candidate is removed and returned
    have finish : ∀ (s2 : State) (th2 : Thread), s2.threads[tid]? = some th2 →
        th2.pc = .popRemove q i t → s2.mem.items = s.mem.items → th2.res = th.res →
        Solo cfg tid s2 (ScanEnd tid q s.mem th.tasks th.held th.res) := by
      intro s2 th2 hth2 hpc2 hit hres
      have e : exec cfg s2.mem th2 = ({ s2.mem with items := upd s2.mem.items q ((s2.mem.items q).eraseIdx i) },
          { th2 with pc := .popUnlock q (some t), tasks := t :: th2.tasks, popLog := (q, t) :: th2.popLog }) := by
        unfold exec; rw [hpc2]; simp [hit, ht]
      have h := solo_exec hth2 e
      exact Solo.next (Solo.now ⟨_, some t, h.1, rfl, hres, fun hr => by cases hr⟩)
    -- failure of this candidate with everything restored: go on with the next one
    have goOn : ∀ (s2 : State) (th2 : Thread), s2.threads[tid]? = some th2 →
        th2.pc = .popScan q i → s2.mem.items = s.mem.items → (∀ L, s2.mem.locks L = s.mem.locks L) →
        th2.tasks = th.tasks → th2.held = th.held → th2.res = th.res →
        Solo cfg tid s2 (ScanEnd tid q s.mem th.tasks th.held th.res) := by
      intro s2 th2 hth2 hpc2 hit hlo htk hhd hres
      have := ih s2 th2 hth2 hpc2 (by rw [hit]; omega)
      refine Solo.mono ?_ this
      rintro s' ⟨th', r, h1, h2, h3, h4⟩
      refine ⟨th', r, h1, h2, by rw [h3, hres], fun hr => ?_⟩
      obtain ⟨a1, a2, a3, a4⟩ := h4 hr
      exact ⟨fun L => by rw [a1 L, hlo L], by rw [a2, hit], by rw [a3, htk], by rw [a4, hhd]⟩
    rcases hd : cfg.deps t with ⟨_ | a, d1⟩
    · have e2 : exec cfg (step cfg s tid).mem { th with pc := .tlStart (.pop q (i + 1)) t }
          = ((step cfg s tid).mem, { th with pc := .popRemove q i t }) := by
        unfold exec; simp [hd, tlSucc]
      have h2 := solo_exec h1.1 e2
      apply Solo.next
      exact finish _ _ h2.1 rfl (by rw [h2.2, h1.2]) rfl
    · have e2 : exec cfg (step cfg s tid).mem { th with pc := .tlStart (.pop q (i + 1)) t }
          = ((step cfg s tid).mem, { th with pc := .tl0 (.pop q (i + 1)) t }) := by
        unfold exec; simp [hd]
      have h2 := solo_exec h1.1 e2
      apply Solo.next
      have hm2 : (step cfg (step cfg s tid) tid).mem = s.mem := by rw [h2.2, h1.2]
      cases hla : s.mem.locks (.dep a)
      · cases d1 with
        | none =>
          have e3 : exec cfg (step cfg (step cfg s tid) tid).mem { th with pc := .tl0 (.pop q (i + 1)) t }
              = ({ s.mem with locks := upd s.mem.locks (.dep a) true }, { th with pc := .popRemove q i t }) := by
            unfold exec; simp [hd, hm2, hla, tlSucc]
          have h3 := solo_exec h2.1 e3
          apply Solo.next
          exact finish _ _ h3.1 rfl (by rw [h3.2]) rfl
        | some b =>
          have e3 : exec cfg (step cfg (step cfg s tid) tid).mem { th with pc := .tl0 (.pop q (i + 1)) t }
              = ({ s.mem with locks := upd s.mem.locks (.dep a) true }, { th with pc := .tl1 (.pop q (i + 1)) t }) := by
            unfold exec; simp [hd, hm2, hla]
          have h3 := solo_exec h2.1 e3
          apply Solo.next
          cases hlb : upd s.mem.locks (.dep a) true (.dep b)
          · have e4 : exec cfg (step cfg (step cfg (step cfg s tid) tid) tid).mem { th with pc := .tl1 (.pop q (i + 1)) t }
                = ({ s.mem with locks := upd (upd s.mem.locks (.dep a) true) (.dep b) true },
                   { th with pc := .popRemove q i t }) := by
              unfold exec; simp [hd, h3.2, hlb, tlSucc]
            have h4 := solo_exec h3.1 e4
            apply Solo.next
            exact finish _ _ h4.1 rfl (by rw [h4.2]) rfl
          · have e4 : exec cfg (step cfg (step cfg (step cfg s tid) tid) tid).mem { th with pc := .tl1 (.pop q (i + 1)) t }
                = ({ s.mem with locks := upd s.mem.locks (.dep a) true }, { th with pc := .tlBack (.pop q (i + 1)) t }) := by
              unfold exec; simp [hd, h3.2, hlb]
            have h4 := solo_exec h3.1 e4
            apply Solo.next
            have e5 : exec cfg (step cfg (step cfg (step cfg (step cfg s tid) tid) tid) tid).mem { th with pc := .tlBack (.pop q (i + 1)) t }
                = ({ s.mem with locks := upd (upd s.mem.locks (.dep a) true) (.dep a) false },
                   { th with pc := .popScan q i }) := by
              unfold exec; simp [hd, h4.2, tlFail]
            have h5 := solo_exec h4.1 e5
            apply Solo.next
            refine goOn _ _ h5.1 rfl (by rw [h5.2]) ?_ rfl rfl rfl
            intro L; rw [h5.2]; simp only [upd_apply]
            split
            · rename_i h; rw [h, hla]
            · rfl
      · have e3 : exec cfg (step cfg (step cfg s tid) tid).mem { th with pc := .tl0 (.pop q (i + 1)) t }
            = (s.mem, { th with pc := .popScan q i }) := by
          unfold exec; simp [hd, hm2, hla, tlFail]
        have h3 := solo_exec h2.1 e3
        apply Solo.next
        exact goOn _ _ h3.1 rfl (by rw [h3.2]) (by intro L; rw [h3.2]) rfl rfl rfl

theorem Solo.bind {cfg : Cfg} {tid : Nat} {s : State} {P Q : State → Prop}
    (hs : Solo cfg tid s P) (h : ∀ s', P s' → Solo cfg tid s' Q) : Solo cfg tid s Q := by
  obtain ⟨n, hn⟩ := hs
  obtain ⟨m, hm⟩ := h _ hn
  refine ⟨n + m, ?_⟩
  have : List.replicate (n + m) tid = List.replicate n tid ++ List.replicate m tid := by
    simp [List.replicate_append_replicate]
  rw [this, run_append]
  exact hm

/-- a whole `get_task` / `try_get_task` that finds the queue lock free and runs without
interference terminates; if it returns NO_TASK, every lock flag, the queue content and the
thread's own locks/tasks are exactly as it found them -/
theorem pop_outcome (cfg : Cfg) (s : State) (tid q : Nat) (b : Bool) (th : Thread)
    (hth : s.threads[tid]? = some th) (hpc : th.pc = .popLock q b)
    (hfree : s.mem.locks (.queue q) = false) :
    Solo cfg tid s (fun s' => ∃ th' r, s'.threads[tid]? = some th' ∧ th'.pc = .idle ∧
      th'.res = .popped q r :: th.res ∧
      (r = none → (∀ L, s'.mem.locks L = s.mem.locks L) ∧ s'.mem.items = s.mem.items ∧
        th'.tasks = th.tasks ∧ th'.held = th.held)) := by
  have e1 : exec cfg s.mem th = ({ s.mem with locks := upd s.mem.locks (.queue q) true }, { th with pc := .popInit q }) := by
    unfold exec; rw [hpc]; simp [hfree]
  have h1 := solo_exec hth e1
  apply Solo.next
  have e2 : exec cfg (step cfg s tid).mem { th with pc := .popInit q }
      = ((step cfg s tid).mem, { th with pc := .popScan q ((step cfg s tid).mem.items q).length }) := by
    unfold exec; simp
  have h2 := solo_exec h1.1 e2
  apply Solo.next
  have hsc := scan_outcome cfg tid q _ _ _ h2.1 rfl (by rw [h2.2]; exact Nat.le_refl _)
  refine Solo.bind hsc ?_
  rintro s' ⟨th', r, hth', hpc', hres', hnone⟩
  have e3 : exec cfg s'.mem th' = ({ s'.mem with locks := upd s'.mem.locks (.queue q) false }, ret th' (.popped q r)) := by
    unfold exec; rw [hpc']
  have h3 := solo_exec hth' e3
  refine Solo.next (Solo.now ⟨_, r, h3.1, rfl, by simp [ret, hres'], fun hr => ?_⟩)
  obtain ⟨a1, a2, a3, a4⟩ := hnone hr
  have hm : (step cfg (step cfg s tid) tid).mem = { s.mem with locks := upd s.mem.locks (.queue q) true } := by
    rw [h2.2, h1.2]
  refine ⟨fun L => ?_, ?_, by simpa [ret] using a3, by simpa [ret] using a4⟩
  · rw [h3.2]; simp only [upd_apply]
    split
    · rename_i h; rw [h, hfree]
    · rename_i h; rw [a1 L, hm]; simp [upd_apply, h]
  · rw [h3.2]; simp only; rw [a2, hm]


/-- the only labelled step inside a pop is the one that takes the last lock; it leads to the
removal of the claimed entry, i.e. to a pop that returns a task -/
theorem acquire_leads_to_remove (cfg : Cfg) (m : Mem) (th : Thread) (q t : Nat)
    (h : lab cfg m th = some (.acquire q t)) : ∃ j, (exec cfg m th).2.pc = .popRemove q j t := by
  unfold lab at h
  unfold exec
  cases hpc : th.pc <;> rw [hpc] at h <;> simp only [reduceCtorEq] at h
  case tlStart c t' =>
    rcases hd : cfg.deps t' with ⟨_ | a, _ | b⟩ <;> cases c <;> simp [hd, acqLabel] at h <;>
      simp_all [tlSucc]
  case tl0 c t' =>
    rcases hd : cfg.deps t' with ⟨_ | a, _ | b⟩ <;> cases c <;> simp [hd, acqLabel] at h <;>
      simp_all [tlSucc]
  case tl1 c t' =>
    rcases hd : cfg.deps t' with ⟨_ | a, _ | b⟩ <;> cases c <;> simp [hd, acqLabel] at h <;>
      simp_all [tlSucc]
  case tuStart t' => rcases hd : cfg.deps t' with ⟨_ | a, _ | b⟩ <;> simp [hd] at h
  case tu1 t' => rcases hd : cfg.deps t' with ⟨_ | a, _ | b⟩ <;> simp [hd] at h
  case tu0 t' => by_cases hc : (cfg.deps t').2 = none <;> simp [hc] at h
  case addBody q' t' k => simp at h

end CMacVerif.Atomics
