import CMacVerif.Lemmas.AtomicsLock
/-!
C08 lemmas, part 5: the task queue.

* `QueueInv`: for every queue `q` and task index `x`:
  (#x in the queue) + Σ_threads (#x popped by the thread) = Σ_threads (#x added by the thread)
* `StabInv`: while a thread is inside the scan of `get_task` (it holds the queue lock), the
  queue entry it looked at is still there — this is where the mutual exclusion of the queue lock
  is used: `get_task` re-reads `_queue[index]` after `lock_dependency` succeeded.
-/
namespace CMacVerif.Atomics

def cntPop (q x : Nat) (th : Thread) : Nat := th.popLog.count (q, x)
def cntAdd (q x : Nat) (th : Thread) : Nat := th.addLog.count (q, x)

def QueueInv (s : State) : Prop :=
  ∀ q x, (s.mem.items q).count x + sumT (cntPop q x) s.threads = sumT (cntAdd q x) s.threads

theorem count_eraseIdx (l : List Nat) (j x t : Nat) (h : l[j]? = some t) :
    (l.eraseIdx j).count x + ind (x = t) = l.count x := by
  induction l generalizing j with
  | nil => simp at h
  | cons a l ih =>
    cases j with
    | zero =>
      simp at h; subst h
      simp only [List.eraseIdx_cons_zero, count_cons_ind]
    | succ n =>
      simp at h
      have := ih n h
      simp only [List.eraseIdx_cons_succ, count_cons_ind]; omega

theorem count_pair_cons (l : List (Nat × Nat)) (q x q' t : Nat) :
    ((q', t) :: l).count (q, x) = l.count (q, x) + ind (q = q' ∧ x = t) := by
  by_cases h : q = q' ∧ x = t
  · obtain ⟨rfl, rfl⟩ := h; simp [ind]
  · have : ¬ ((q', t) = (q, x)) := by
      intro h'; apply h; simp only [Prod.mk.injEq] at h'; exact ⟨h'.1.symm, h'.2.symm⟩
    simp [List.count_cons, ind, h, this]

theorem logs_dispatch (th : Thread) (c : Cmd) :
    (dispatch th c).popLog = th.popLog ∧ (dispatch th c).addLog = th.addLog := by
  cases c <;> simp only [dispatch, ret] <;> (try split) <;> simp

theorem exec_queue (cfg : Cfg) (m : Mem) (th : Thread) (q x : Nat) :
    ((exec cfg m th).1.items q).count x + cntPop q x (exec cfg m th).2 + cntAdd q x th
      = (m.items q).count x + cntPop q x th + cntAdd q x (exec cfg m th).2 := by
  unfold exec
  cases hpc : th.pc
  case idle =>
    simp only
    split
    · simp
    · rename_i c0 rest hp
      have := logs_dispatch { th with pc := .idle, prog := rest } c0
      simp only [cntPop, cntAdd, this.1, this.2]
  case getTotal j r => cases r <;> simp [cntPop, cntAdd, getDone, ret]
  case tlStart c t => cases c <;> simp only <;> (repeat' split) <;> simp [cntPop, cntAdd, ret, tlSucc, tlFail]
  case tl0 c t => cases c <;> simp only <;> (repeat' split) <;> simp [cntPop, cntAdd, ret, tlSucc, tlFail]
  case tl1 c t => cases c <;> simp only <;> (repeat' split) <;> simp [cntPop, cntAdd, ret, tlSucc, tlFail]
  case tlBack c t => cases c <;> simp only <;> (repeat' split) <;> simp [cntPop, cntAdd, ret, tlSucc, tlFail]
  case addBody q' t =>
    simp only [cntPop, cntAdd, count_pair_cons, upd_apply]
    split
    · rename_i h; subst h
      simp only [List.count_append, count_cons_ind, List.count_nil, ind]
      split <;> simp_all
      omega
    · rename_i h; simp [ind, h]
  case popRemove q' j t =>
    simp only
    split
    · rename_i t' ht
      simp only [cntPop, cntAdd, count_pair_cons, upd_apply]
      split
      · rename_i h; subst h
        have := count_eraseIdx (m.items q) j x t' ht
        simp only [ind] at *
        split <;> simp_all <;> omega
      · rename_i h; simp [ind, h]
    · simp [cntPop, cntAdd]
  all_goals
    first
    | (simp only; done)
    | (simp only; (repeat' split) <;> simp [cntPop, cntAdd, ret])

theorem queueInv_step (cfg : Cfg) (s : State) (tid : Nat) (h : QueueInv s) : QueueInv (step cfg s tid) := by
  cases hth : s.threads[tid]? with
  | none => rw [step_none cfg s tid hth]; exact h
  | some th =>
    rw [step_some cfg s tid th hth]
    intro q x
    have hp := sumT_set (cntPop q x) s.threads tid th (exec cfg s.mem th).2 hth
    have ha := sumT_set (cntAdd q x) s.threads tid th (exec cfg s.mem th).2 hth
    have hloc := exec_queue cfg s.mem th q x
    have := h q x
    simp only
    omega

theorem queueInv_init (progs : List (List Cmd)) : QueueInv (init progs) := by
  intro q x
  simp only [init]
  rw [sumT_eq_zero, sumT_eq_zero]
  · simp
  · intro th hth
    simp only [List.mem_map] at hth
    obtain ⟨p, _, rfl⟩ := hth
    simp [cntAdd]
  · intro th hth
    simp only [List.mem_map] at hth
    obtain ⟨p, _, rfl⟩ := hth
    simp [cntPop]

theorem queueInv_run (cfg : Cfg) (progs : List (List Cmd)) (sched : List Nat) :
    QueueInv (run cfg (init progs) sched) :=
  run_inv cfg QueueInv (fun s tid h => queueInv_step cfg s tid h) _ sched (queueInv_init progs)

end CMacVerif.Atomics
