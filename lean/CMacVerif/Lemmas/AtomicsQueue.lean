import CMacVerif.Lemmas.AtomicsLock
/-!
C08 lemmas, part 5: the task queue.

* `QueueInv`: for every queue `q` and task index `x`:
  (#x in the queue) + Σ_threads (#x popped by the thread) = Σ_threads (#x added by the thread)
* `StabInv`: while a thread is inside the scan of `get_task` (it holds the queue lock), the
  queue entry it looked at is still there — this is where the mutual exclusion of the queue lock
  is used: `get_task` re-reads `_queue[index]` after `lock_dependency` succeeded.
-/
namespace CMacVerif.Atomics

def cntPop (q x : Nat) (th : Thread) : Nat := th.popLog.count (q, x)
def cntAdd (q x : Nat) (th : Thread) : Nat := th.addLog.count (q, x)

def QueueInv (s : State) : Prop :=
  ∀ q x, (s.mem.items q).count x + sumT (cntPop q x) s.threads = sumT (cntAdd q x) s.threads

theorem count_eraseIdx (l : List Nat) (j x t : Nat) (h : l[j]? = some t) :
    (l.eraseIdx j).count x + ind (x = t) = l.count x := by
  induction l generalizing j with
  | nil => simp at h
  | cons a l ih =>
    cases j with
    | zero =>
      simp at h; subst h
      simp only [List.eraseIdx_cons_zero, count_cons_ind]
    | succ n =>
      simp at h
      have := ih n h
      simp only [List.eraseIdx_cons_succ, count_cons_ind]; omega

theorem count_pair_cons (l : List (Nat × Nat)) (q x q' t : Nat) :
    ((q', t) :: l).count (q, x) = l.count (q, x) + ind (q = q' ∧ x = t) := by
  by_cases h : q = q' ∧ x = t
  · obtain ⟨rfl, rfl⟩ := h; simp [ind]
  · have : ¬ ((q', t) = (q, x)) := by
      intro h'; apply h; simp only [Prod.mk.injEq] at h'; exact ⟨h'.1.symm, h'.2.symm⟩
    simp [ind, h, this]

theorem logs_dispatch (cfg : Cfg) (th : Thread) (c : Cmd) :
    (dispatch cfg th c).popLog = th.popLog ∧ (dispatch cfg th c).addLog = th.addLog := by
  cases c <;> simp only [dispatch, ret] <;> (repeat' split) <;> simp

theorem exec_queue (cfg : Cfg) (m : Mem) (th : Thread) (q x : Nat) :
    ((exec cfg m th).1.items q).count x + cntPop q x (exec cfg m th).2 + cntAdd q x th
      = (m.items q).count x + cntPop q x th + cntAdd q x (exec cfg m th).2 := by
  unfold exec
  cases hpc : th.pc
  case idle =>
    simp only
    split
    · simp
    · rename_i c0 rest hp
      have := logs_dispatch cfg { th with pc := .idle, prog := rest } c0
      simp only [cntPop, cntAdd, this.1, this.2]
  case getTotal j r => cases r <;> simp [cntPop, cntAdd, getDone, ret]
  case tlStart c t => cases c <;> simp only <;> (repeat' split) <;> simp [cntPop, cntAdd, ret, tlSucc, tlFail]
  case tl0 c t => cases c <;> simp only <;> (repeat' split) <;> simp [cntPop, cntAdd, ret, tlSucc, tlFail]
  case tl1 c t => cases c <;> simp only <;> (repeat' split) <;> simp [cntPop, cntAdd, ret, tlSucc, tlFail]
  case tlBack c t => cases c <;> simp only <;> (repeat' split) <;> simp [cntPop, cntAdd, ret, tlSucc, tlFail]
  case addBody q' t k =>
    simp only [cntPop, cntAdd, count_pair_cons, upd_apply]
    split
    · rename_i h; subst h
      simp only [List.count_append, count_cons_ind, List.count_nil, ind]
      split <;> simp_all
      omega
    · rename_i h; simp [ind, h]
  case popRemove q' j t =>
    simp only
    split
    · rename_i t' ht
      simp only [cntPop, cntAdd, count_pair_cons, upd_apply]
      split
      · rename_i h; subst h
        have := count_eraseIdx (m.items q) j x t' ht
        simp only [ind] at *
        split <;> simp_all <;> omega
      · rename_i h; simp [ind, h]
    · simp [cntPop, cntAdd]
  all_goals
    first
    | (simp only; done)
    | (simp only; (repeat' split) <;> simp [cntPop, cntAdd, ret])

theorem queueInv_step (cfg : Cfg) (s : State) (tid : Nat) (h : QueueInv s) : QueueInv (step cfg s tid) := by
  cases hth : s.threads[tid]? with
  | none => rw [step_none cfg s tid hth]; exact h
  | some th =>
    rw [step_some cfg s tid th hth]
    intro q x
    have hp := sumT_set (cntPop q x) s.threads tid th (exec cfg s.mem th).2 hth
    have ha := sumT_set (cntAdd q x) s.threads tid th (exec cfg s.mem th).2 hth
    have hloc := exec_queue cfg s.mem th q x
    have := h q x
    simp only
    omega

theorem queueInv_init (progs : List (List Cmd)) : QueueInv (init progs) := by
  intro q x
  simp only [init]
  rw [sumT_eq_zero, sumT_eq_zero]
  · simp
  · intro th hth
    simp only [List.mem_map] at hth
    obtain ⟨p, _, rfl⟩ := hth
    simp [cntAdd]
  · intro th hth
    simp only [List.mem_map] at hth
    obtain ⟨p, _, rfl⟩ := hth
    simp [cntPop]

theorem queueInv_run (cfg : Cfg) (progs : List (List Cmd)) (sched : List Nat) :
    QueueInv (run cfg (init progs) sched) :=
  run_inv cfg QueueInv (fun s tid h => queueInv_step cfg s tid h) _ sched (queueInv_init progs)

/-- the queue entry a thread inside `get_task`'s scan has looked at: (queue, position, task) -/
def pcQueueRef : PC → Option (Nat × Nat × Nat)
  | .tlStart (.pop q i) t => some (q, i - 1, t)
  | .tl0 (.pop q i) t => some (q, i - 1, t)
  | .tl1 (.pop q i) t => some (q, i - 1, t)
  | .tlBack (.pop q i) t => some (q, i - 1, t)
  | .popRemove q j t => some (q, j, t)
  | _ => none

def RefOk (m : Mem) (th : Thread) : Prop :=
  ∀ q j t, pcQueueRef th.pc = some (q, j, t) → (m.items q)[j]? = some t

/-- a task the pop is about to return is in the thread's `tasks` (its locks are counted) -/
def RetOk (th : Thread) : Prop := ∀ q x, th.pc = .popUnlock q (some x) → x ∈ th.tasks

theorem ref_holds_queue (cfg : Cfg) (pc : PC) (q j t : Nat) (h : pcQueueRef pc = some (q, j, t)) :
    pcHoldL cfg pc (.queue q) ≥ 1 := by
  cases pc <;> simp only [pcQueueRef, reduceCtorEq] at h
  case tlStart c t' => cases c <;> simp_all [pcQueueRef, pcHoldL, ctxHold, ind]
  case tl0 c t' => cases c <;> simp_all [pcQueueRef, pcHoldL, ctxHold, ind]
  case tl1 c t' => cases c <;> simp_all [pcQueueRef, pcHoldL, ctxHold, ind]
  case tlBack c t' => cases c <;> simp_all [pcQueueRef, pcHoldL, ctxHold, ind]
  case popRemove q' j' t' => simp_all [pcHoldL, ind]

/-- only a thread that holds the queue lock changes the queue content -/
theorem exec_items_frame (cfg : Cfg) (m : Mem) (th : Thread) (q : Nat)
    (h : pcHoldL cfg th.pc (.queue q) = 0) : (exec cfg m th).1.items q = m.items q := by
  unfold exec
  cases hpc : th.pc
  case addBody q' t k =>
    simp only [hpc, pcHoldL, ind] at h
    have : q ≠ q' := by intro e; subst e; simp at h
    simp [upd_apply, this]
  case popRemove q' j t =>
    simp only [hpc, pcHoldL, ind] at h
    have : q ≠ q' := by intro e; subst e; simp at h
    simp only
    split <;> simp [upd_apply, this]
  all_goals
    first
    | (simp only; done)
    | (simp only; (repeat' split) <;> rfl)

theorem ref_dispatch (cfg : Cfg) (th : Thread) (c : Cmd) :
    pcQueueRef (dispatch cfg th c).pc = none ∧ ∀ q x, (dispatch cfg th c).pc ≠ .popUnlock q (some x) := by
  cases c <;> simp only [dispatch, ret] <;> (repeat' split) <;> simp [pcQueueRef]

theorem exec_refOk (cfg : Cfg) (m : Mem) (th : Thread) (h : RefOk m th) :
    RefOk (exec cfg m th).1 (exec cfg m th).2 ∧ (RetOk th → RetOk (exec cfg m th).2) := by
  unfold exec
  cases hpc : th.pc
  case idle =>
    simp only
    split
    · exact ⟨h, id⟩
    · rename_i c0 rest hp
      have := ref_dispatch cfg { th with pc := .idle, prog := rest } c0
      unfold RefOk RetOk
      simp only [this.1]
      refine ⟨by simp, fun _ q x hx => absurd hx (this.2 q x)⟩
  case popScan q i =>
    simp only
    split
    · unfold RefOk RetOk; simp [pcQueueRef]
    · split
      · rename_i t ht
        unfold RefOk RetOk
        simp only [pcQueueRef]
        refine ⟨?_, by simp⟩
        intro q' j' t' hh
        simp only [Option.some.injEq, Prod.mk.injEq] at hh
        obtain ⟨rfl, rfl, rfl⟩ := hh
        exact ht
      · unfold RefOk RetOk; simp [pcQueueRef]
  case popRemove q j t =>
    have hj := h q j t (by simp [hpc, pcQueueRef])
    simp only [hj]
    unfold RefOk RetOk
    simp [pcQueueRef]
  case tlStart c t =>
    cases c <;> simp only <;> (repeat' split) <;> unfold RefOk RetOk at * <;> simp_all [pcQueueRef, tlSucc, tlFail, ret]
  case tl0 c t =>
    cases c <;> simp only <;> (repeat' split) <;> unfold RefOk RetOk at * <;> simp_all [pcQueueRef, tlSucc, tlFail, ret]
  case tl1 c t =>
    cases c <;> simp only <;> (repeat' split) <;> unfold RefOk RetOk at * <;> simp_all [pcQueueRef, tlSucc, tlFail, ret]
  case tlBack c t =>
    cases c <;> simp only <;> (repeat' split) <;> unfold RefOk RetOk at * <;> simp_all [pcQueueRef, tlSucc, tlFail, ret]
  case getTotal j r => cases r <;> unfold RefOk RetOk <;> simp [pcQueueRef, getDone, ret]
  all_goals
    first
    | (simp only; (repeat' split) <;> unfold RefOk RetOk at * <;> simp_all [pcQueueRef, ret] <;> done)

/-- stability of the scanned queue entry + returned task is counted, for every thread -/
def StabInv (s : State) : Prop := ∀ (k : Nat) (th : Thread), s.threads[k]? = some th → RefOk s.mem th ∧ RetOk th

theorem stabInv_step (cfg : Cfg) (s : State) (tid : Nat) (hl : LockInv cfg s) (h : StabInv s) :
    StabInv (step cfg s tid) := by
  cases hth : s.threads[tid]? with
  | none => rw [step_none cfg s tid hth]; exact h
  | some thu =>
    rw [step_some cfg s tid thu hth]
    intro k th hk
    simp only [List.getElem?_set] at hk
    by_cases hkt : tid = k
    · subst hkt
      have hlt : tid < s.threads.length := by
        rcases Nat.lt_or_ge tid s.threads.length with h' | h'
        · exact h'
        · rw [List.getElem?_eq_none h'] at hth; cases hth
      simp only [hlt, if_true] at hk
      cases hk
      have := exec_refOk cfg s.mem thu (h tid thu hth).1
      exact ⟨this.1, this.2 (h tid thu hth).2⟩
    · simp only [hkt, if_false] at hk
      refine ⟨?_, (h k th hk).2⟩
      intro q j t href
      have hold := (h k th hk).1 q j t href
      have h1 : pcHoldL cfg th.pc (.queue q) ≥ 1 := ref_holds_queue cfg th.pc q j t href
      have hle := add_le_sumT (holdL cfg (.queue q)) s.threads tid k thu th hth hk hkt
      have hs := hl (.queue q)
      have hb := Bool.toNat_le (s.mem.locks (.queue q))
      have e1 : holdL cfg (.queue q) th = heldHold th.held (.queue q) + tasksHold cfg th.tasks (.queue q) + pcHoldL cfg th.pc (.queue q) := rfl
      have e2 : holdL cfg (.queue q) thu = heldHold thu.held (.queue q) + tasksHold cfg thu.tasks (.queue q) + pcHoldL cfg thu.pc (.queue q) := rfl
      have h0 : pcHoldL cfg thu.pc (.queue q) = 0 := by omega
      simp only
      rw [exec_items_frame cfg s.mem thu q h0]
      exact hold

theorem stabInv_init (progs : List (List Cmd)) : StabInv (init progs) := by
  intro k th hk
  have hm : th ∈ (init progs).threads := List.mem_of_getElem? hk
  simp only [init, List.mem_map] at hm
  obtain ⟨p, _, rfl⟩ := hm
  unfold RefOk RetOk
  simp [pcQueueRef]

theorem stabInv_run (cfg : Cfg) (progs : List (List Cmd)) (sched : List Nat) :
    StabInv (run cfg (init progs) sched) :=
  (run_inv cfg (fun s => LockInv cfg s ∧ StabInv s)
    (fun s tid h => ⟨lockInv_step cfg s tid h.1, stabInv_step cfg s tid h.1 h.2⟩) _ sched
    ⟨lockInv_init cfg progs, stabInv_init progs⟩).2

theorem depsHold_le_tasksHold (cfg : Cfg) (ts : List Nat) (x : Nat) (L : LockId) (h : x ∈ ts) :
    depsHold cfg x L ≤ tasksHold cfg ts L := by
  have := tasksHold_erase cfg ts x L h
  omega

/-- all locks task `x` declares are free (and it does not declare the same lock twice) -/
def Lockable (cfg : Cfg) (locks : LockId → Bool) (x : Nat) : Prop :=
  match cfg.deps x with
  | (none, _) => True
  | (some a, none) => locks (.dep a) = false
  | (some a, some b) => a ≠ b ∧ locks (.dep a) = false ∧ locks (.dep b) = false

/-- solo progress of the scan of `get_task` / `try_get_task`: if some entry below the scan position
is lockable, the thread, running alone, returns a task -/
theorem pop_progress (cfg : Cfg) (tid q : Nat) (i : Nat) :
    ∀ (s : State) (th : Thread), s.threads[tid]? = some th → th.pc = .popScan q i →
      i ≤ (s.mem.items q).length →
      (∃ j x, j < i ∧ (s.mem.items q)[j]? = some x ∧ Lockable cfg s.mem.locks x) →
      Solo cfg tid s (fun s' => ∃ th' y, s'.threads[tid]? = some th' ∧ th'.pc = .popUnlock q (some y)) := by
  induction i with
  | zero => intro s th _ _ _ ⟨j, x, hj, _⟩; omega
  | succ i ih =>
    intro s th hth hpc hlen ⟨j, x, hj, hjx, hlk⟩
    have hi : i < (s.mem.items q).length := by omega
    obtain ⟨t, ht⟩ : ∃ t, (s.mem.items q)[i]? = some t := ⟨_, List.getElem?_eq_getElem hi⟩
    -- popScan: read the candidate
    have e1 : exec cfg s.mem th = (s.mem, { th with pc := .tlStart (.pop q (i + 1)) t }) := by
      unfold exec; rw [hpc]; simp [ht]
    have h1 := solo_exec hth e1
    apply Solo.next
    -- the removal of candidate `t` once its locks are taken
    have finish : ∀ (s2 : State) (th2 : Thread), s2.threads[tid]? = some th2 →
        th2.pc = .popRemove q i t → s2.mem.items = s.mem.items →
        Solo cfg tid s2 (fun s' => ∃ th' y, s'.threads[tid]? = some th' ∧ th'.pc = .popUnlock q (some y)) := by
      intro s2 th2 hth2 hpc2 hit
      have e : exec cfg s2.mem th2 = ({ s2.mem with items := upd s2.mem.items q ((s2.mem.items q).eraseIdx i) },
          { th2 with pc := .popUnlock q (some t), tasks := t :: th2.tasks, popLog := (q, t) :: th2.popLog }) := by
        unfold exec; rw [hpc2]; simp [hit, ht]
      have h := solo_exec hth2 e
      exact Solo.next (Solo.now ⟨_, t, h.1, rfl⟩)
    -- going on with the next candidate after a failed attempt that restored the locks
    have goOn : ∀ (s2 : State) (th2 : Thread), s2.threads[tid]? = some th2 →
        th2.pc = .popScan q i → s2.mem.items = s.mem.items → (∀ L, s2.mem.locks L = s.mem.locks L) →
        ¬ Lockable cfg s.mem.locks t →
        Solo cfg tid s2 (fun s' => ∃ th' y, s'.threads[tid]? = some th' ∧ th'.pc = .popUnlock q (some y)) := by
      intro s2 th2 hth2 hpc2 hit hlo hnl
      have hji : j < i := by
        rcases Nat.lt_or_ge j i with h | h
        · exact h
        · have : j = i := by omega
          subst this; rw [ht] at hjx; cases hjx; exact absurd hlk hnl
      refine ih s2 th2 hth2 hpc2 (by rw [hit]; omega) ⟨j, x, hji, by rw [hit]; exact hjx, ?_⟩
      unfold Lockable at hlk ⊢
      rcases hd : cfg.deps x with ⟨_ | a, _ | b⟩ <;> simp only [hd] at hlk ⊢ <;> simp_all
    rcases hd : cfg.deps t with ⟨_ | a, d1⟩
    · -- no dependency: lock_dependency returns true at once
      have e2 : exec cfg (step cfg s tid).mem { th with pc := .tlStart (.pop q (i + 1)) t }
          = ((step cfg s tid).mem, { th with pc := .popRemove q i t }) := by
        unfold exec; simp [hd, tlSucc]
      have h2 := solo_exec h1.1 e2
      apply Solo.next
      exact finish _ _ h2.1 rfl (by rw [h2.2, h1.2])
    · have e2 : exec cfg (step cfg s tid).mem { th with pc := .tlStart (.pop q (i + 1)) t }
          = ((step cfg s tid).mem, { th with pc := .tl0 (.pop q (i + 1)) t }) := by
        unfold exec; simp [hd]
      have h2 := solo_exec h1.1 e2
      apply Solo.next
      have hm2 : (step cfg (step cfg s tid) tid).mem = s.mem := by rw [h2.2, h1.2]
      cases hla : s.mem.locks (.dep a)
      · -- first dependency free
        cases d1 with
        | none =>
          have e3 : exec cfg (step cfg (step cfg s tid) tid).mem { th with pc := .tl0 (.pop q (i + 1)) t }
              = ({ s.mem with locks := upd s.mem.locks (.dep a) true }, { th with pc := .popRemove q i t }) := by
            unfold exec; simp [hd, hm2, hla, tlSucc]
          have h3 := solo_exec h2.1 e3
          apply Solo.next
          exact finish _ _ h3.1 rfl (by rw [h3.2])
        | some b =>
          have e3 : exec cfg (step cfg (step cfg s tid) tid).mem { th with pc := .tl0 (.pop q (i + 1)) t }
              = ({ s.mem with locks := upd s.mem.locks (.dep a) true }, { th with pc := .tl1 (.pop q (i + 1)) t }) := by
            unfold exec; simp [hd, hm2, hla]
          have h3 := solo_exec h2.1 e3
          apply Solo.next
          cases hlb : upd s.mem.locks (.dep a) true (.dep b)
          · -- second dependency free as well
            have e4 : exec cfg (step cfg (step cfg (step cfg s tid) tid) tid).mem { th with pc := .tl1 (.pop q (i + 1)) t }
                = ({ s.mem with locks := upd (upd s.mem.locks (.dep a) true) (.dep b) true },
                   { th with pc := .popRemove q i t }) := by
              unfold exec; simp [hd, h3.2, hlb, tlSucc]
            have h4 := solo_exec h3.1 e4
            apply Solo.next
            exact finish _ _ h4.1 rfl (by rw [h4.2])
          · -- second dependency busy: roll back, next candidate
            have e4 : exec cfg (step cfg (step cfg (step cfg s tid) tid) tid).mem { th with pc := .tl1 (.pop q (i + 1)) t }
                = ({ s.mem with locks := upd s.mem.locks (.dep a) true }, { th with pc := .tlBack (.pop q (i + 1)) t }) := by
              unfold exec; simp [hd, h3.2, hlb]
            have h4 := solo_exec h3.1 e4
            apply Solo.next
            have e5 : exec cfg (step cfg (step cfg (step cfg (step cfg s tid) tid) tid) tid).mem { th with pc := .tlBack (.pop q (i + 1)) t }
                = ({ s.mem with locks := upd (upd s.mem.locks (.dep a) true) (.dep a) false },
                   { th with pc := .popScan q i }) := by
              unfold exec; simp [hd, h4.2, tlFail]
            have h5 := solo_exec h4.1 e5
            apply Solo.next
            refine goOn _ _ h5.1 rfl (by rw [h5.2]) ?_ ?_
            · intro L; rw [h5.2]; simp only [upd_apply]
              split
              · rename_i h; rw [h, hla]
              · rfl
            · unfold Lockable; simp only [hd]
              intro ⟨hab, _, hb⟩
              rw [upd_other _ _ _ _ (by intro h; cases h; exact hab rfl)] at hlb
              rw [hb] at hlb; cases hlb
      · -- first dependency busy: next candidate
        have e3 : exec cfg (step cfg (step cfg s tid) tid).mem { th with pc := .tl0 (.pop q (i + 1)) t }
            = (s.mem, { th with pc := .popScan q i }) := by
          unfold exec; simp [hd, hm2, hla, tlFail]
        have h3 := solo_exec h2.1 e3
        apply Solo.next
        refine goOn _ _ h3.1 rfl (by rw [h3.2]) (by intro L; rw [h3.2]) ?_
        unfold Lockable; rw [hd]
        cases d1 <;> simp [hla]

end CMacVerif.Atomics
