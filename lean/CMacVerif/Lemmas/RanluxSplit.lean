import CMacVerif.Model.RanluxSplit
import Mathlib.Tactic.Linarith
/-! Helper lemmas for C13, part 5: the photon packet split of `DistributedPhotonSource`. -/
namespace CMacVerif.Ranlux

theorem range_ind_sum (a r : Nat) : ∀ n,
    ((List.range n).map (fun i => a + if i < r then 1 else 0)).sum = n * a + min n r := by
  intro n
  induction n with
  | zero => simp
  | succ n ih =>
    rw [List.range_succ, List.map_append, List.sum_append, ih]
    simp only [List.map_cons, List.map_nil, List.sum_cons, List.sum_nil]
    by_cases h : n < r
    · simp only [h, if_true]; rw [Nat.min_def, Nat.min_def]; split <;> split <;> first | omega | (rw [Nat.succ_mul]; omega)
    · simp only [h, if_false]; rw [Nat.min_def, Nat.min_def]; split <;> split <;> first | omega | (rw [Nat.succ_mul]; omega)

theorem sourceEntries_sum (q c : Nat) (hc : 0 < c) : (sourceEntries q c).sum = q := by
  unfold sourceEntries
  rw [range_ind_sum]
  have h1 : q % c < c := Nat.mod_lt _ hc
  have h2 := Nat.div_add_mod q c
  rw [Nat.min_def, Nat.mul_comm] at *; split <;> omega

theorem sourceEntries_length (q c : Nat) : (sourceEntries q c).length = c := by
  simp [sourceEntries]

theorem bump_sum : ∀ (tot : List Nat) (j : Nat), j < tot.length → (bump tot j).sum = tot.sum + 1 := by
  intro tot
  induction tot with
  | nil => intro j h; simp at h
  | cons a t ih =>
    intro j h
    cases j with
    | zero => simp [bump, List.modify]; omega
    | succ j =>
      have := ih j (by simpa using h)
      simp only [bump, List.modify_succ_cons, List.sum_cons] at this ⊢
      omega

theorem bump_length (tot : List Nat) (j : Nat) : (bump tot j).length = tot.length := by
  simp [bump]

/-- what the source loop establishes -/
theorem splitBase_spec : ∀ (src : List (Nat × Nat)) (tot ov : List Nat),
    (∀ p ∈ src, 0 < p.2) → (∀ j ∈ ov, j < tot.length) →
    (splitBase src tot ov).1.sum = tot.sum + (src.map Prod.fst).sum
    ∧ (splitBase src tot ov).1.length = tot.length + (src.map Prod.snd).sum
    ∧ (splitBase src tot ov).2.length = ov.length + src.length
    ∧ (∀ j ∈ (splitBase src tot ov).2, j < (splitBase src tot ov).1.length) := by
  intro src
  induction src with
  | nil => intro tot ov _ h; simp [splitBase]; exact h
  | cons p rest ih =>
    intro tot ov hc hov
    obtain ⟨q, c⟩ := p
    have hc0 : 0 < c := hc (q, c) (List.mem_cons_self)
    have hm : q % c < c := Nat.mod_lt _ hc0
    have := ih (tot ++ sourceEntries q c) (ov ++ [tot.length + q % c])
      (fun p hp => hc p (List.mem_cons_of_mem _ hp))
      (by
        intro j hj
        rw [List.length_append, sourceEntries_length]
        rcases List.mem_append.mp hj with h | h
        · have := hov j h; omega
        · simp at h; omega)
    rw [splitBase]
    obtain ⟨h1, h2, h3, h4⟩ := this
    refine ⟨?_, ?_, ?_, h4⟩
    · rw [h1, List.sum_append, sourceEntries_sum q c hc0]; simp; omega
    · rw [h2, List.length_append, sourceEntries_length]; simp; omega
    · rw [h3]; simp; omega

theorem leftovers_spec (ov : List Nat) (idx : Nat → Nat) (hidx : ∀ i, idx i < ov.length) :
    ∀ (n i : Nat) (tot : List Nat), (∀ j ∈ ov, j < tot.length) →
      (leftovers ov idx n i tot).sum = tot.sum + n
      ∧ (leftovers ov idx n i tot).length = tot.length := by
  intro n
  induction n with
  | zero => intro i tot _; simp [leftovers]
  | succ n ih =>
    intro i tot h
    have hj : ov.getD (idx i) 0 < tot.length := by
      have := hidx i
      rw [List.getD_eq_getElem?_getD, List.getElem?_eq_getElem this, Option.getD_some]
      exact h _ (List.getElem_mem _)
    have := ih (i + 1) (bump tot (ov.getD (idx i) 0)) (by rw [bump_length]; exact h)
    rw [leftovers, this.1, this.2, bump_sum _ _ hj, bump_length]
    omega

end CMacVerif.Ranlux
