import CMacVerif.Model.HydroSweeps
import CMacVerif.Lemmas.HydroGraph
import Mathlib.Data.List.Perm.Basic
/-! Lemmas about the cell pairs visited by the hydro sweeps (C04, C10). -/
namespace CMacVerif.HydroSweeps
open CMacVerif.HydroGraph

/-! ### one axis -/

theorem mul_add_lt {n c a i : Nat} (ha : a < n) (hi : i < c) : a * c + i < n * c := by
  have h : (a + 1) * c ≤ n * c := Nat.mul_le_mul_right c ha
  rw [Nat.add_mul, Nat.one_mul] at h
  omega

theorem mul_add_inj {c a i a' i' : Nat} (hi : i < c) (hi' : i' < c) (h : a * c + i = a' * c + i') :
    a = a' ∧ i = i' := by
  rcases Nat.lt_trichotomy a a' with hlt | heq | hgt
  · have := mul_add_lt hlt hi; omega
  · subst heq; omega
  · have := mul_add_lt hgt hi'; omega

/-- next cell of a cell that is not in the last layer of its subgrid -/
theorem up1_inner {n c a i : Nat} (p : Bool) (ha : a < n) (hi : i + 1 < c) :
    up1 (n * c) p (a * c + i) = some (a * c + (i + 1)) := by
  have := mul_add_lt ha hi
  unfold up1; rw [if_pos (by omega)]; rfl

/-- next cell of a cell in the last layer: first layer of the next subgrid (periodic wrap of the
cells = periodic wrap of the subgrids) -/
theorem up1_outer {n c a i : Nat} (p : Bool) (ha : a < n) (hi : i + 1 = c) :
    up1 (n * c) p (a * c + i) = (up1 n p a).map (fun a' => a' * c + 0) := by
  unfold up1
  by_cases h : a + 1 < n
  · have := mul_add_lt (c := c) (i := 0) h (by omega)
    rw [Nat.add_mul, Nat.one_mul] at this
    rw [if_pos h, if_pos (by omega)]
    simp only [Option.map_some, Option.some.injEq]
    rw [Nat.add_mul, Nat.one_mul]; omega
  · have hn : n = a + 1 := by omega
    subst hn
    rw [if_neg h, if_neg (by rw [Nat.add_mul, Nat.one_mul]; omega)]
    cases p <;> simp

theorem down1_inner {n c a i : Nat} (p : Bool) (hi : 0 < i) :
    down1 (n * c) p (a * c + i) = some (a * c + (i - 1)) := by
  unfold down1; rw [if_pos (by omega)]
  simp only [Option.some.injEq]; omega

theorem down1_outer {n c a : Nat} (p : Bool) (ha : a < n) (hc : 0 < c) :
    down1 (n * c) p (a * c + 0) = (down1 n p a).map (fun a' => a' * c + (c - 1)) := by
  unfold down1
  by_cases h : 0 < a
  · have hpos : 0 < a * c := Nat.mul_pos h hc
    rw [if_pos h, if_pos (by omega)]
    simp only [Option.map_some, Option.some.injEq]
    have : a * c = (a - 1) * c + c := by
      conv_lhs => rw [show a = (a - 1) + 1 by omega, Nat.add_mul, Nat.one_mul]
    omega
  · have ha0 : a = 0 := by omega
    subst ha0
    rw [if_neg h, if_neg (by simp)]
    cases p
    · simp
    · simp only [if_true, Option.map_some, Option.some.injEq]
      have : n * c = (n - 1) * c + c := by
        conv_lhs => rw [show n = (n - 1) + 1 by omega, Nat.add_mul, Nat.one_mul]
      omega

/-! ### coordinates -/

theorem len_cellGrid (L : Layout) (c : Cells) (ax : Axis) :
    len (cellGrid L c) ax = len L ax * clen c ax := by cases ax <;> rfl

theorem per_cellGrid (L : Layout) (c : Cells) (ax : Axis) : per (cellGrid L c) ax = per L ax := by
  cases ax <;> rfl

theorem coord_gcell (c : Cells) (g : Sub) (p : Loc) (ax : Axis) :
    coord (gcell c g p) ax = coord g ax * clen c ax + coord p ax := by cases ax <;> rfl

theorem setCoord_gcell (c : Cells) (g : Sub) (p : Loc) (ax : Axis) (a v : Nat) :
    setCoord (gcell c g p) ax (a * clen c ax + v) = gcell c (setCoord g ax a) (setCoord p ax v) := by
  cases ax <;> rfl

theorem validLoc_iff (c : Cells) (p : Loc) :
    validLoc c p = true ↔ p.1 < c.cx ∧ p.2.1 < c.cy ∧ p.2.2 < c.cz := by
  simp [validLoc, and_assoc]

theorem coord_lt_clen {c : Cells} {p : Loc} (h : validLoc c p = true) (ax : Axis) :
    coord p ax < clen c ax := by
  rw [validLoc_iff] at h; cases ax <;> simp [coord, clen, h]

theorem validLoc_setCoord {c : Cells} {p : Loc} (h : validLoc c p = true) (ax : Axis) {v : Nat}
    (hv : v < clen c ax) : validLoc c (setCoord p ax v) = true := by
  rw [validLoc_iff] at h ⊢
  cases ax <;> simp only [setCoord, clen] at hv ⊢ <;> simp [h, hv]

theorem valid_gcell {L : Layout} {c : Cells} {g : Sub} {p : Loc} (hg : valid L g = true)
    (hp : validLoc c p = true) : valid (cellGrid L c) (gcell c g p) = true := by
  rw [valid_iff] at hg ⊢
  rw [validLoc_iff] at hp
  exact ⟨mul_add_lt hg.1 hp.1, mul_add_lt hg.2.1 hp.2.1, mul_add_lt hg.2.2 hp.2.2⟩

theorem gcell_inj {c : Cells} {g g' : Sub} {p p' : Loc} (hp : validLoc c p = true)
    (hp' : validLoc c p' = true) (h : gcell c g p = gcell c g' p') : g = g' ∧ p = p' := by
  rw [validLoc_iff] at hp hp'
  obtain ⟨a, b, d⟩ := g
  obtain ⟨a', b', d'⟩ := g'
  obtain ⟨i, j, k⟩ := p
  obtain ⟨i', j', k'⟩ := p'
  simp only [gcell, Prod.mk.injEq] at h
  obtain ⟨h1, h2, h3⟩ := h
  obtain ⟨e1, e1'⟩ := mul_add_inj hp.1 hp'.1 h1
  obtain ⟨e2, e2'⟩ := mul_add_inj hp.2.1 hp'.2.1 h2
  obtain ⟨e3, e3'⟩ := mul_add_inj hp.2.2 hp'.2.2 h3
  simp only at e1 e2 e3 e1' e2' e3'
  subst e1 e2 e3 e1' e2' e3'
  exact ⟨rfl, rfl⟩

theorem gcell_left_inj (c : Cells) (g : Sub) {p p' : Loc} (h : gcell c g p = gcell c g p') :
    p = p' := by
  obtain ⟨i, j, k⟩ := p
  obtain ⟨i', j', k'⟩ := p'
  simp only [gcell, Prod.mk.injEq] at h
  obtain ⟨h1, h2, h3⟩ := h
  have e1 : i = i' := by omega
  have e2 : j = j' := by omega
  have e3 : k = k' := by omega
  subst e1 e2 e3; rfl

/-- every cell of the global grid is a cell of exactly one subgrid -/
theorem exists_gcell {L : Layout} {c : Cells} {X : Loc} (hX : valid (cellGrid L c) X = true) :
    ∃ g p, valid L g = true ∧ validLoc c p = true ∧ X = gcell c g p := by
  rw [valid_iff] at hX
  obtain ⟨x, y, z⟩ := X
  simp only [cellGrid] at hX
  obtain ⟨h1, h2, h3⟩ := hX
  have c1 : 0 < c.cx := Nat.pos_of_ne_zero (fun h => by rw [h] at h1; simp at h1)
  have c2 : 0 < c.cy := Nat.pos_of_ne_zero (fun h => by rw [h] at h2; simp at h2)
  have c3 : 0 < c.cz := Nat.pos_of_ne_zero (fun h => by rw [h] at h3; simp at h3)
  refine ⟨(x / c.cx, y / c.cy, z / c.cz), (x % c.cx, y % c.cy, z % c.cz), ?_, ?_, ?_⟩
  · rw [valid_iff]
    exact ⟨Nat.div_lt_of_lt_mul (by rw [Nat.mul_comm]; exact h1),
      Nat.div_lt_of_lt_mul (by rw [Nat.mul_comm]; exact h2),
      Nat.div_lt_of_lt_mul (by rw [Nat.mul_comm]; exact h3)⟩
  · rw [validLoc_iff]; exact ⟨Nat.mod_lt _ c1, Nat.mod_lt _ c2, Nat.mod_lt _ c3⟩
  · simp only [gcell, Nat.div_add_mod']

/-! ### the next / previous cell in the global grid, in terms of subgrid and cell in the subgrid -/

theorem ngbUp_gcell_inner {L : Layout} {c : Cells} {g : Sub} {p : Loc} (ax : Axis)
    (hg : valid L g = true) (h : coord p ax + 1 < clen c ax) :
    ngbUp (cellGrid L c) ax (gcell c g p)
      = some (gcell c g (setCoord p ax (coord p ax + 1))) := by
  unfold ngbUp
  rw [len_cellGrid, per_cellGrid, coord_gcell, up1_inner _ (coord_lt hg ax) h]
  simp only [Option.map_some, setCoord_gcell, setCoord_coord]

theorem ngbUp_gcell_outer {L : Layout} {c : Cells} {g : Sub} {p : Loc} (ax : Axis)
    (hg : valid L g = true) (h : coord p ax + 1 = clen c ax) :
    ngbUp (cellGrid L c) ax (gcell c g p)
      = (ngbUp L ax g).map (fun n => gcell c n (setCoord p ax 0)) := by
  unfold ngbUp
  rw [len_cellGrid, per_cellGrid, coord_gcell, up1_outer _ (coord_lt hg ax) h]
  cases up1 (len L ax) (per L ax) (coord g ax) with
  | none => rfl
  | some a' => simp only [Option.map_some, setCoord_gcell]

theorem ngbDown_gcell_inner {L : Layout} {c : Cells} {g : Sub} {p : Loc} (ax : Axis)
    (h : 0 < coord p ax) :
    ngbDown (cellGrid L c) ax (gcell c g p)
      = some (gcell c g (setCoord p ax (coord p ax - 1))) := by
  unfold ngbDown
  rw [len_cellGrid, per_cellGrid, coord_gcell, down1_inner _ h]
  simp only [Option.map_some, setCoord_gcell, setCoord_coord]

theorem ngbDown_gcell_outer {L : Layout} {c : Cells} {g : Sub} {p : Loc} (ax : Axis)
    (hg : valid L g = true) (hc : 0 < clen c ax) (h : coord p ax = 0) :
    ngbDown (cellGrid L c) ax (gcell c g p)
      = (ngbDown L ax g).map (fun n => gcell c n (setCoord p ax (clen c ax - 1))) := by
  unfold ngbDown
  rw [len_cellGrid, per_cellGrid, coord_gcell, h, down1_outer _ (coord_lt hg ax) hc]
  cases down1 (len L ax) (per L ax) (coord g ax) with
  | none => rfl
  | some a' => simp only [Option.map_some, setCoord_gcell]

/-! ### membership in the sweep lists -/

theorem innerBound_self (c : Cells) (ax : Axis) : innerBound c ax ax = clen c ax - 1 := by
  simp [innerBound]

theorem mem_innerLoc (c : Cells) (ax : Axis) (p q : Loc) :
    (p, q) ∈ innerLoc c ax ↔
      validLoc c p = true ∧ coord p ax + 1 < clen c ax ∧ q = setCoord p ax (coord p ax + 1) := by
  obtain ⟨ix, iy, iz⟩ := p
  simp only [innerLoc, List.mem_flatMap, List.mem_range, List.mem_map, Prod.mk.injEq, validLoc_iff]
  constructor
  · rintro ⟨ix', h1, iy', h2, iz', h3, ⟨rfl, rfl, rfl⟩, rfl⟩
    cases ax <;> simp [innerBound, clen, coord] at h1 h2 h3 ⊢ <;> omega
  · rintro ⟨⟨h1, h2, h3⟩, h4, rfl⟩
    refine ⟨ix, ?_, iy, ?_, iz, ?_, ⟨rfl, rfl, rfl⟩, rfl⟩ <;>
      cases ax <;> simp [innerBound, clen, coord] at h1 h2 h3 h4 ⊢ <;> omega

theorem mem_faceLocs (c : Cells) (ax : Axis) (v : Nat) (hv : v < clen c ax) (p : Loc) :
    p ∈ faceLocs c ax v ↔ validLoc c p = true ∧ coord p ax = v := by
  obtain ⟨ix, iy, iz⟩ := p
  simp only [faceLocs, List.mem_flatMap, List.mem_range, List.mem_map, validLoc_iff]
  constructor
  · rintro ⟨ic, h1, ir, h2, h⟩
    cases ax <;> simp only [faceLoc, Prod.mk.injEq] at h <;> obtain ⟨rfl, rfl, rfl⟩ := h <;>
      simp [outerGeom, clen, coord] at h1 h2 hv ⊢ <;> omega
  · rintro ⟨⟨h1, h2, h3⟩, h4⟩
    cases ax <;> simp only [coord] at h4 <;> subst h4
    · exact ⟨iy, h2, iz, h3, rfl⟩
    · exact ⟨ix, h1, iz, h3, rfl⟩
    · exact ⟨ix, h1, iy, h2, rfl⟩

theorem setCoord_faceLoc (ax : Axis) (v w ic ir : Nat) :
    setCoord (faceLoc ax v ic ir) ax w = faceLoc ax w ic ir := by cases ax <;> rfl

theorem mem_outerLoc (c : Cells) (ax : Axis) (hc : 0 < clen c ax) (p q : Loc) :
    (p, q) ∈ outerLoc c ax ↔
      validLoc c p = true ∧ coord p ax + 1 = clen c ax ∧ q = setCoord p ax 0 := by
  have key : (p, q) ∈ outerLoc c ax ↔ p ∈ faceLocs c ax (clen c ax - 1) ∧ q = setCoord p ax 0 := by
    simp only [outerLoc, faceLocs, List.mem_flatMap, List.mem_range, List.mem_map, Prod.mk.injEq]
    constructor
    · rintro ⟨ic, h1, ir, h2, rfl, rfl⟩
      exact ⟨⟨ic, h1, ir, h2, rfl⟩, (setCoord_faceLoc ..).symm⟩
    · rintro ⟨⟨ic, h1, ir, h2, rfl⟩, rfl⟩
      exact ⟨ic, h1, ir, h2, rfl, (setCoord_faceLoc ..).symm⟩
  rw [key, mem_faceLocs c ax _ (by omega)]
  constructor
  · rintro ⟨⟨h1, h2⟩, h3⟩; exact ⟨h1, by omega, h3⟩
  · rintro ⟨h1, h2, h3⟩; exact ⟨⟨h1, by omega⟩, h3⟩

/-- the pair interactions of subgrid `g` along `ax`: every cell `p` of `g`, with the next cell
inside `g` or — for the last layer, if there is a neighbour — the first layer of the neighbour -/
theorem mem_subFaces (L : Layout) (c : Cells) (ax : Axis) (hc : 0 < clen c ax) (g : Sub)
    (X Y : Loc) :
    (X, Y) ∈ subFaces L c ax g ↔ ∃ p, validLoc c p = true ∧ X = gcell c g p ∧
      ((coord p ax + 1 < clen c ax ∧ Y = gcell c g (setCoord p ax (coord p ax + 1))) ∨
       (coord p ax + 1 = clen c ax ∧ ∃ n, ngbUp L ax g = some n ∧
          Y = gcell c n (setCoord p ax 0))) := by
  simp only [subFaces, List.mem_append, List.mem_map, Prod.mk.injEq]
  constructor
  · rintro (⟨⟨p, q⟩, hpq, rfl, rfl⟩ | h)
    · rw [mem_innerLoc] at hpq
      obtain ⟨h1, h2, rfl⟩ := hpq
      exact ⟨p, h1, rfl, Or.inl ⟨h2, rfl⟩⟩
    · cases hn : ngbUp L ax g with
      | none => rw [hn] at h; simp at h
      | some n =>
        rw [hn] at h
        simp only [List.mem_map, Prod.mk.injEq] at h
        obtain ⟨⟨p, q⟩, hpq, rfl, rfl⟩ := h
        rw [mem_outerLoc c ax hc] at hpq
        obtain ⟨h1, h2, rfl⟩ := hpq
        exact ⟨p, h1, rfl, Or.inr ⟨h2, n, rfl, rfl⟩⟩
  · rintro ⟨p, h1, rfl, (⟨h2, rfl⟩ | ⟨h2, n, hn, rfl⟩)⟩
    · exact Or.inl ⟨(p, _), (mem_innerLoc ..).mpr ⟨h1, h2, rfl⟩, rfl, rfl⟩
    · right
      rw [hn]
      simp only [List.mem_map, Prod.mk.injEq]
      exact ⟨(p, _), (mem_outerLoc c ax hc ..).mpr ⟨h1, h2, rfl⟩, rfl, rfl⟩

theorem mem_gridFaces (G : Layout) (ax : Axis) (X Y : Loc) :
    (X, Y) ∈ gridFaces G ax ↔ valid G X = true ∧ ngbUp G ax X = some Y := by
  simp only [gridFaces, List.mem_filterMap, mem_allSubs, Option.map_eq_some_iff, Prod.mk.injEq]
  constructor
  · rintro ⟨X', hX', Y', hY', rfl, rfl⟩; exact ⟨hX', hY'⟩
  · rintro ⟨hX, hY⟩; exact ⟨X, hX, Y, hY, rfl, rfl⟩

/-- same elements: the subgrid sweeps of all subgrids together visit exactly the faces of the
global grid -/
theorem mem_allFaces_iff (L : Layout) (c : Cells) (ax : Axis) (hc : 0 < clen c ax) (X Y : Loc) :
    (X, Y) ∈ allFaces L c ax ↔ (X, Y) ∈ gridFaces (cellGrid L c) ax := by
  rw [mem_gridFaces]
  simp only [allFaces, List.mem_flatMap, mem_allSubs]
  constructor
  · rintro ⟨g, hg, h⟩
    rw [mem_subFaces L c ax hc] at h
    obtain ⟨p, hp, rfl, (⟨h2, rfl⟩ | ⟨h2, n, hn, rfl⟩)⟩ := h
    · exact ⟨valid_gcell hg hp, ngbUp_gcell_inner ax hg h2⟩
    · exact ⟨valid_gcell hg hp, by rw [ngbUp_gcell_outer ax hg h2, hn]; rfl⟩
  · rintro ⟨hX, hY⟩
    obtain ⟨g, p, hg, hp, rfl⟩ := exists_gcell hX
    refine ⟨g, hg, (mem_subFaces L c ax hc ..).mpr ⟨p, hp, rfl, ?_⟩⟩
    have hlt := coord_lt_clen hp ax
    by_cases h : coord p ax + 1 < clen c ax
    · left
      rw [ngbUp_gcell_inner ax hg h] at hY
      exact ⟨h, (Option.some.inj hY).symm⟩
    · right
      have h' : coord p ax + 1 = clen c ax := by omega
      rw [ngbUp_gcell_outer ax hg h'] at hY
      cases hn : ngbUp L ax g with
      | none => rw [hn] at hY; simp at hY
      | some n =>
        rw [hn] at hY
        exact ⟨h', n, rfl, (Option.some.inj hY).symm⟩

/-! ### no interaction is performed twice -/

theorem nodup_flatMap_of_disjoint {α β : Type} {l : List α} {f : α → List β} (hl : l.Nodup)
    (hf : ∀ a ∈ l, (f a).Nodup)
    (hd : ∀ a ∈ l, ∀ a' ∈ l, ∀ b, b ∈ f a → b ∈ f a' → a = a') : (l.flatMap f).Nodup := by
  rw [List.nodup_flatMap]
  refine ⟨hf, ?_⟩
  apply List.Nodup.pairwise_of_forall_ne hl
  intro a ha a' ha' hne
  simp only [Function.onFun, List.disjoint_left]
  intro b hb hb'
  exact hne (hd a ha a' ha' b hb hb')

theorem innerLoc_nodup (c : Cells) (ax : Axis) : (innerLoc c ax).Nodup := by
  unfold innerLoc
  refine nodup_flatMap_of_disjoint List.nodup_range (fun ix _ => ?_) ?_
  · refine nodup_flatMap_of_disjoint List.nodup_range (fun iy _ => ?_) ?_
    · exact List.nodup_range.map (fun iz iz' h => by simp only [Prod.mk.injEq] at h; exact h.1.2.2)
    · intro iy _ iy' _ b hb hb'
      simp only [List.mem_map, List.mem_range] at hb hb'
      obtain ⟨iz, _, rfl⟩ := hb
      obtain ⟨iz', _, h⟩ := hb'
      simp only [Prod.mk.injEq] at h
      exact h.1.2.1.symm
  · intro ix _ ix' _ b hb hb'
    simp only [List.mem_flatMap, List.mem_map, List.mem_range] at hb hb'
    obtain ⟨iy, _, iz, _, rfl⟩ := hb
    obtain ⟨iy', _, iz', _, h⟩ := hb'
    simp only [Prod.mk.injEq] at h
    exact h.1.1.symm

theorem faceLoc_inj {ax : Axis} {v ic ir ic' ir' : Nat}
    (h : faceLoc ax v ic ir = faceLoc ax v ic' ir') : ic = ic' ∧ ir = ir' := by
  cases ax <;> simp only [faceLoc, Prod.mk.injEq] at h <;> simp [h]

theorem faceLocs_nodup (c : Cells) (ax : Axis) (v : Nat) : (faceLocs c ax v).Nodup := by
  unfold faceLocs
  refine nodup_flatMap_of_disjoint List.nodup_range (fun ic _ => ?_) ?_
  · exact List.nodup_range.map (fun ir ir' h => (faceLoc_inj h).2)
  · intro ic _ ic' _ b hb hb'
    simp only [List.mem_map, List.mem_range] at hb hb'
    obtain ⟨ir, _, rfl⟩ := hb
    obtain ⟨ir', _, h⟩ := hb'
    exact (faceLoc_inj h).1.symm

theorem outerLoc_nodup (c : Cells) (ax : Axis) : (outerLoc c ax).Nodup := by
  unfold outerLoc
  refine nodup_flatMap_of_disjoint List.nodup_range (fun ic _ => ?_) ?_
  · exact List.nodup_range.map (fun ir ir' h => by
      simp only [Prod.mk.injEq] at h; exact (faceLoc_inj h.1).2)
  · intro ic _ ic' _ b hb hb'
    simp only [List.mem_map, List.mem_range] at hb hb'
    obtain ⟨ir, _, rfl⟩ := hb
    obtain ⟨ir', _, h⟩ := hb'
    simp only [Prod.mk.injEq] at h
    exact (faceLoc_inj h.1).1.symm

theorem subFaces_nodup (L : Layout) (c : Cells) (ax : Axis) (hc : 0 < clen c ax) (g : Sub) :
    (subFaces L c ax g).Nodup := by
  unfold subFaces
  rw [List.nodup_append]
  refine ⟨?_, ?_, ?_⟩
  · refine (innerLoc_nodup c ax).map (fun pq pq' h => ?_)
    simp only [Prod.mk.injEq] at h
    exact Prod.ext (gcell_left_inj c g h.1) (gcell_left_inj c g h.2)
  · cases ngbUp L ax g with
    | none => exact List.nodup_nil
    | some n =>
      refine (outerLoc_nodup c ax).map (fun pq pq' h => ?_)
      simp only [Prod.mk.injEq] at h
      exact Prod.ext (gcell_left_inj c g h.1) (gcell_left_inj c n h.2)
  · intro f hf f' hf' heq
    subst heq
    cases hn : ngbUp L ax g with
    | none => rw [hn] at hf'; simp at hf'
    | some n =>
      rw [hn] at hf'
      simp only [List.mem_map] at hf hf'
      obtain ⟨⟨p, q⟩, hpq, rfl⟩ := hf
      obtain ⟨⟨p', q'⟩, hpq', h⟩ := hf'
      simp only [Prod.mk.injEq] at h
      have := gcell_left_inj c g h.1
      subst this
      rw [mem_innerLoc] at hpq
      rw [mem_outerLoc c ax hc] at hpq'
      omega

theorem allFaces_nodup (L : Layout) (c : Cells) (ax : Axis) (hc : 0 < clen c ax) :
    (allFaces L c ax).Nodup := by
  unfold allFaces
  refine nodup_flatMap_of_disjoint (allSubs_nodup L) (fun g _ => subFaces_nodup L c ax hc g) ?_
  intro g _ g' _ ⟨X, Y⟩ hb hb'
  rw [mem_subFaces L c ax hc] at hb hb'
  obtain ⟨p, hp, rfl, _⟩ := hb
  obtain ⟨p', hp', h, _⟩ := hb'
  exact (gcell_inj hp hp' h).1

theorem gridFaces_nodup (G : Layout) (ax : Axis) : (gridFaces G ax).Nodup := by
  unfold gridFaces
  refine (allSubs_nodup G).filterMap ?_
  intro X X' f hf hf'
  simp only [Option.mem_def, Option.map_eq_some_iff] at hf hf'
  obtain ⟨Y, _, rfl⟩ := hf
  obtain ⟨Y', _, h⟩ := hf'
  simp only [Prod.mk.injEq] at h
  exact h.1.symm

/-! ### ghost interactions -/

theorem mem_subGhosts (L : Layout) (c : Cells) (ax : Axis) (up : Bool) (hc : 0 < clen c ax)
    (g : Sub) (X : Loc) :
    X ∈ subGhosts L c ax up g ↔ (if up then ngbUp L ax g else ngbDown L ax g) = none ∧
      ∃ p, validLoc c p = true ∧ coord p ax = (if up then clen c ax - 1 else 0) ∧
        X = gcell c g p := by
  unfold subGhosts
  by_cases h : (if up then ngbUp L ax g else ngbDown L ax g).isNone = true
  · rw [if_pos h]
    simp only [ghostLoc, List.mem_map]
    have hv : (if up = true then clen c ax - 1 else 0) < clen c ax := by split_ifs <;> omega
    constructor
    · rintro ⟨p, hp, rfl⟩
      rw [mem_faceLocs c ax _ hv] at hp
      exact ⟨Option.isNone_iff_eq_none.mp h, p, hp.1, hp.2, rfl⟩
    · rintro ⟨_, p, h1, h2, rfl⟩
      exact ⟨p, (mem_faceLocs c ax _ hv p).mpr ⟨h1, h2⟩, rfl⟩
  · rw [if_neg h]
    simp only [List.not_mem_nil, false_iff, not_and]
    intro h'
    rw [h'] at h; simp at h

theorem mem_gridGhosts (G : Layout) (ax : Axis) (up : Bool) (X : Loc) :
    X ∈ gridGhosts G ax up ↔
      valid G X = true ∧ (if up then ngbUp G ax X else ngbDown G ax X) = none := by
  simp only [gridGhosts, List.mem_filter, mem_allSubs, Option.isNone_iff_eq_none]

theorem mem_allGhosts_iff (L : Layout) (c : Cells) (ax : Axis) (up : Bool) (hc : 0 < clen c ax)
    (X : Loc) : X ∈ allGhosts L c ax up ↔ X ∈ gridGhosts (cellGrid L c) ax up := by
  rw [mem_gridGhosts]
  simp only [allGhosts, List.mem_flatMap, mem_allSubs]
  constructor
  · rintro ⟨g, hg, h⟩
    rw [mem_subGhosts L c ax up hc] at h
    obtain ⟨hn, p, hp, hv, rfl⟩ := h
    refine ⟨valid_gcell hg hp, ?_⟩
    cases up
    · simp only [Bool.false_eq_true, if_false] at hn hv ⊢
      rw [ngbDown_gcell_outer ax hg hc hv, hn]; rfl
    · simp only [if_true] at hn hv ⊢
      rw [ngbUp_gcell_outer ax hg (by omega), hn]; rfl
  · rintro ⟨hX, hn⟩
    obtain ⟨g, p, hg, hp, rfl⟩ := exists_gcell hX
    refine ⟨g, hg, (mem_subGhosts L c ax up hc ..).mpr ?_⟩
    have hlt := coord_lt_clen hp ax
    cases up
    · simp only [Bool.false_eq_true, if_false] at hn ⊢
      by_cases h0 : 0 < coord p ax
      · rw [ngbDown_gcell_inner ax h0] at hn; simp at hn
      · have h0' : coord p ax = 0 := by omega
        rw [ngbDown_gcell_outer ax hg hc h0'] at hn
        exact ⟨by simpa using hn, p, hp, h0', rfl⟩
    · simp only [if_true] at hn ⊢
      by_cases h1 : coord p ax + 1 < clen c ax
      · rw [ngbUp_gcell_inner ax hg h1] at hn; simp at hn
      · have h1' : coord p ax + 1 = clen c ax := by omega
        rw [ngbUp_gcell_outer ax hg h1'] at hn
        exact ⟨by simpa using hn, p, hp, by omega, rfl⟩

theorem allGhosts_nodup (L : Layout) (c : Cells) (ax : Axis) (up : Bool) (hc : 0 < clen c ax) :
    (allGhosts L c ax up).Nodup := by
  unfold allGhosts
  refine nodup_flatMap_of_disjoint (allSubs_nodup L) (fun g _ => ?_) ?_
  · unfold subGhosts
    by_cases h : (if up then ngbUp L ax g else ngbDown L ax g).isNone = true
    · rw [if_pos h]
      exact (faceLocs_nodup c ax _).map (fun p p' h => gcell_left_inj c g h)
    · rw [if_neg h]
      exact List.nodup_nil
  · intro g _ g' _ X hb hb'
    rw [mem_subGhosts L c ax up hc] at hb hb'
    obtain ⟨_, p, hp, _, rfl⟩ := hb
    obtain ⟨_, p', hp', _, h⟩ := hb'
    exact (gcell_inj hp hp' h).1

theorem gridGhosts_nodup (G : Layout) (ax : Axis) (up : Bool) : (gridGhosts G ax up).Nodup :=
  (allSubs_nodup G).filter _

/-! ### the index level is the image of the coordinate level -/

theorem innerIdx_eq (c : Cells) (ax : Axis) :
    innerIdx c ax = (innerLoc c ax).map (fun pq => (lidx c pq.1, lidx c pq.2)) := by
  simp only [innerIdx, innerLoc, List.map_flatMap, List.map_map]
  congr 1; funext ix; congr 1; funext iy; congr 1; funext iz
  cases ax <;> simp only [Function.comp, lidx, setCoord, coord, Prod.mk.injEq, true_and] <;> omega

theorem outerIdx_eq (c : Cells) (ax : Axis) :
    outerIdx c ax = (outerLoc c ax).map (fun pq => (lidx c pq.1, lidx c pq.2)) := by
  simp only [outerIdx, outerLoc, List.map_flatMap, List.map_map]
  congr 1; funext ic; congr 1; funext ir
  cases ax <;>
    simp only [Function.comp, lidx, faceLoc, outerGeom, clen, Prod.mk.injEq, Nat.mul_one,
      Nat.zero_add, Nat.zero_mul] <;> omega

theorem ghostIdx_eq (c : Cells) (ax : Axis) (up : Bool) :
    ghostIdx c ax up = (ghostLoc c ax up).map (lidx c) := by
  simp only [ghostIdx, ghostLoc, faceLocs, List.map_flatMap, List.map_map]
  congr 1; funext ic; congr 1; funext ir
  cases ax <;> cases up <;>
    simp only [Function.comp, lidx, faceLoc, outerGeom, clen, Nat.mul_one, Nat.zero_add,
      Nat.zero_mul, if_true, Bool.false_eq_true, if_false] <;> omega

/-- `get_three_index` inverts the index formula: a cell index names one cell of the subgrid -/
theorem threeIndex_lidx (c : Cells) (p : Loc) (hp : validLoc c p = true) :
    threeIndex c (lidx c p) = p := by
  rw [validLoc_iff] at hp
  obtain ⟨ix, iy, iz⟩ := p
  obtain ⟨_, h2, h3⟩ := hp
  simp only at h2 h3
  have hyz : iy * c.cz + iz < c.cy * c.cz := mul_add_lt h2 h3
  have e1 : (ix * (c.cy * c.cz) + iy * c.cz + iz) / (c.cy * c.cz) = ix := by
    rw [Nat.add_assoc, Nat.mul_comm ix, Nat.mul_add_div (by omega), Nat.div_eq_of_lt hyz]; rfl
  simp only [threeIndex, lidx, e1]
  have e2 : ix * (c.cy * c.cz) + iy * c.cz + iz - ix * (c.cy * c.cz) = iy * c.cz + iz := by omega
  have e3 : (iy * c.cz + iz) / c.cz = iy := by
    rw [Nat.mul_comm iy, Nat.mul_add_div (by omega), Nat.div_eq_of_lt h3]; rfl
  rw [e2, e3]
  congr 2
  omega

theorem lidx_inj (c : Cells) {p q : Loc} (hp : validLoc c p = true) (hq : validLoc c q = true)
    (h : lidx c p = lidx c q) : p = q := by
  rw [← threeIndex_lidx c p hp, ← threeIndex_lidx c q hq, h]

end CMacVerif.HydroSweeps
