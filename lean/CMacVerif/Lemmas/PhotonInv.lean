import CMacVerif.Lemmas.PhotonStep
/-! The structural invariant of the photon protocol (C01) and its preservation, together with the
preservation of the weight, for every label except `execTraverse` and `contFinish` (PhotonTrav). -/
namespace CMacVerif.Photon
open CMacVerif.Worker (sumOver sumOver_congr)

@[simp] theorem taskW_none (w : Nat → Nat) : taskW w none = 0 := rfl
@[simp] theorem taskW_some (w : Nat → Nat) (k : Kind) (st : TSt) : taskW w (some ⟨k, st⟩) = kindW w k := rfl
@[simp] theorem kindW_source (w : Nat → Nat) (a : Nat) (ids : List Nat) : kindW w (.source a ids) = wsum w ids := rfl
@[simp] theorem kindW_cont (w : Nat → Nat) (a n : Nat) (ids : List Nat) : kindW w (.contSource a n ids) = wsum w ids := rfl
@[simp] theorem kindW_trav (w : Nat → Nat) (b : Nat) : kindW w (.traverse b) = 0 := rfl
@[simp] theorem kindW_reemit (w : Nat → Nat) (b : Nat) : kindW w (.reemit b) = 0 := rfl
@[simp] theorem kindW_flush (w : Nat → Nat) (b : Nat) : kindW w (.flush b) = 0 := rfl
@[simp] theorem bufW_none (w : Nat → Nat) : bufW w none = 0 := rfl
@[simp] theorem bufW_some (w : Nat → Nat) (a b : Nat) (ids : List Nat) : bufW w (some ⟨a, b, ids⟩) = wsum w ids := rfl

/-- what the protocol requires of a task in the table -/
def taskGood (cfg : Cfg) (tk : Task) : Prop :=
  match tk.kind with
  | .source _ ids => ids ≠ [] ∧ ids.length ≤ BUFSZ
  | .contSource c n ids => c < cfg.nblocks ∧ 0 < n ∧ (tk.st ≠ .running → ids ≠ [])
  | .flush c => c < cfg.nblocks
  | _ => True

def TaskOK (cfg : Cfg) (s : State) : Prop := ∀ t tk, s.tasks t = some tk → t < cfg.taskCap ∧ taskGood cfg tk

structure ContOK (cfg : Cfg) (s : State) : Prop where
  idx : ∀ k, s.cont k ≠ [] → k ∈ pairsU cfg
  len : ∀ k, (s.cont k).length ≤ BUFSZ

structure Inv (cfg : Cfg) (s : State) : Prop where
  own : Own cfg s
  tk : TaskOK cfg s
  ct : ContOK cfg s

theorem taskOK_upd {cfg : Cfg} {s s' : State} (h : TaskOK cfg s) {t : Nat} {v : Option Task}
    (ht : s'.tasks = upd s.tasks t v) (hv : ∀ tk, v = some tk → t < cfg.taskCap ∧ taskGood cfg tk) : TaskOK cfg s' := by
  intro u tk hu
  rw [ht] at hu
  by_cases e : u = t
  · subst e; rw [upd_same] at hu; exact hv tk hu
  · rw [upd_other _ _ _ e] at hu; exact h u tk hu

theorem contOK_upd {cfg : Cfg} {s s' : State} (h : ContOK cfg s) {k : Nat × Nat} {l : List Nat}
    (hc : s'.cont = updP s.cont k l) (hk : l ≠ [] → k ∈ pairsU cfg) (hl : l.length ≤ BUFSZ) : ContOK cfg s' := by
  refine ⟨?_, ?_⟩
  · intro x hx; rw [hc] at hx
    by_cases e : x = k
    · subst e; rw [updP_same] at hx; exact hk hx
    · rw [updP_other _ _ _ e] at hx; exact h.idx x hx
  · intro x; rw [hc]
    by_cases e : x = k
    · subst e; rw [updP_same]; exact hl
    · rw [updP_other _ _ _ e]; exact h.len x

theorem contOK_same {cfg : Cfg} {s s' : State} (h : ContOK cfg s) (hc : s'.cont = s.cont) : ContOK cfg s' :=
  ⟨by intro k hk; rw [hc] at hk; exact h.idx k hk, by intro k; rw [hc]; exact h.len k⟩

theorem refBuf_task_none {s : State} {t : Nat} (h : s.tasks t = none) : refBuf s (.task t) = none := by
  simp [refBuf, h]

theorem refBuf_task_some {s : State} {t : Nat} {tk : Task} (h : s.tasks t = some tk) :
    refBuf s (.task t) = kindBuf tk.kind := by
  simp [refBuf, h]

/-! ### launchBatch, launchCont -/

theorem inv_launchBatch {cfg : Cfg} {s s' : State} {src t : Nat} (hi : Inv cfg s)
    (h : step cfg s (.launchBatch src t) = some s') : Inv cfg s' ∧ ∀ w, weight cfg w s' = weight cfg w s := by
  obtain ⟨hsrc, hne, ht, htn, rfl⟩ := step_launchBatch h
  refine ⟨⟨?_, ?_, ?_⟩, ?_⟩
  · exact own_task_same hi.own rfl rfl rfl (by rw [refBuf_task_none htn]; rfl)
  · apply taskOK_upd hi.tk rfl
    intro tk htk; injection htk with htk; subst htk
    refine ⟨ht, ?_, ?_⟩
    · intro e
      have : (s.srcLeft src).take BUFSZ = [] := e
      rw [List.take_eq_nil_iff] at this
      rcases this with h0 | h0
      · cases h0
      · exact hne h0
    · exact List.length_take_le _ _
  · exact contOK_same hi.ct rfl
  · intro w
    have e1 := sum_upd cfg.taskCap s.tasks t (some ⟨.source src ((s.srcLeft src).take BUFSZ), .queued⟩) (taskW w) ht
    have e2 := sum_upd cfg.nsrc s.srcLeft src ((s.srcLeft src).drop BUFSZ) (wsum w) hsrc
    have e3 := wsum_take_drop w (s.srcLeft src) BUFSZ
    rw [htn] at e1
    simp only [taskW_none, taskW_some, kindW_source] at e1
    simp only [weight]
    omega

theorem inv_launchCont {cfg : Cfg} {s s' : State} {t : Nat} (hi : Inv cfg s)
    (h : step cfg s (.launchCont t) = some s') : Inv cfg s' ∧ ∀ w, weight cfg w s' = weight cfg w s := by
  obtain ⟨hne, ht, htn, hnb, rfl⟩ := step_launchCont h
  have hne' : s.contPool.take BUFSZ ≠ [] := by
    intro e
    rw [List.take_eq_nil_iff] at e
    rcases e with h0 | h0
    · cases h0
    · exact hne h0
  refine ⟨⟨?_, ?_, ?_⟩, ?_⟩
  · exact own_task_same hi.own rfl rfl rfl (by rw [refBuf_task_none htn]; rfl)
  · apply taskOK_upd hi.tk rfl
    intro tk htk; injection htk with htk; subst htk
    refine ⟨ht, Nat.mod_lt _ hnb, ?_, fun _ => hne'⟩
    exact List.length_pos_iff.mpr hne'
  · exact contOK_same hi.ct rfl
  · intro w
    have e1 := sum_upd cfg.taskCap s.tasks t (some ⟨.contSource (s.contBlock % cfg.nblocks)
      (s.contPool.take BUFSZ).length (s.contPool.take BUFSZ), .queued⟩) (taskW w) ht
    have e3 := wsum_take_drop w s.contPool BUFSZ
    rw [htn] at e1
    simp only [taskW_none, taskW_some, kindW_cont] at e1
    simp only [weight]
    omega

/-! ### acquire, enqueue -/

theorem inv_status {cfg : Cfg} {s : State} {t : Nat} {k : Kind} {st st' : TSt} (hi : Inv cfg s)
    (hk : s.tasks t = some ⟨k, st⟩) (hst : st' = .running ∨ st ≠ .running) :
    Inv cfg { s with tasks := upd s.tasks t (some ⟨k, st'⟩) } ∧
      ∀ w, weight cfg w { s with tasks := upd s.tasks t (some ⟨k, st'⟩) } = weight cfg w s := by
  have hg := hi.tk t _ hk
  refine ⟨⟨?_, ?_, ?_⟩, ?_⟩
  · exact own_task_same hi.own rfl rfl rfl (by rw [refBuf_task_some hk]; rfl)
  · apply taskOK_upd hi.tk rfl
    intro tk htk; injection htk with htk; subst htk
    refine ⟨hg.1, ?_⟩
    have h2 := hg.2
    cases k with
    | contSource c n ids =>
      simp only [taskGood] at h2 ⊢
      refine ⟨h2.1, h2.2.1, ?_⟩
      intro hne
      rcases hst with e | e
      · exact absurd e hne
      · exact h2.2.2 e
    | source a ids => exact h2
    | traverse b => exact h2
    | reemit b => exact h2
    | flush c => exact h2
  · exact contOK_same hi.ct rfl
  · intro w
    have e1 := sum_upd cfg.taskCap s.tasks t (some ⟨k, st'⟩) (taskW w) hg.1
    rw [hk] at e1
    simp only [taskW_some] at e1
    simp only [weight]
    omega

theorem inv_acquire {cfg : Cfg} {s s' : State} {t : Nat} (hi : Inv cfg s)
    (h : step cfg s (.acquire t) = some s') : Inv cfg s' ∧ ∀ w, weight cfg w s' = weight cfg w s := by
  obtain ⟨k, hk, _, rfl⟩ := step_acquire h
  exact inv_status hi hk (Or.inl rfl)

theorem inv_enqueue {cfg : Cfg} {s s' : State} {t : Nat} (hi : Inv cfg s)
    (h : step cfg s (.enqueue t) = some s') : Inv cfg s' ∧ ∀ w, weight cfg w s' = weight cfg w s := by
  obtain ⟨k, hk, rfl⟩ := step_enqueue h
  exact inv_status hi hk (Or.inr (by intro e; cases e))

/-! ### execSource -/

theorem inv_execSource {cfg : Cfg} {s s' : State} {t b t' : Nat} (hi : Inv cfg s)
    (h : step cfg s (.execSource t b t') = some s') : Inv cfg s' ∧ ∀ w, weight cfg w s' = weight cfg w s := by
  obtain ⟨src, ids, hk, hb, hpb, ht', htt', rfl⟩ := step_execSource h
  have hg := hi.tk t _ hk
  have hne : t ≠ t' := by intro e; subst e; rw [hk] at htt'; cases htt'
  -- first the new buffer with its traversal task, then the source task disappears
  let sA : State := { s with pool := upd s.pool b (some ⟨cfg.srcSub src, 0, ids⟩),
                             tasks := upd s.tasks t' (some ⟨.traverse b, .pending⟩) }
  have hA : Own cfg sA := by
    apply own_add hi.own (r := .task t') hpb hb (buf := ⟨cfg.srcSub src, 0, ids⟩) hg.2 rfl
    · intro x; simp only [refBuf_eq]; rw [refBufF_upd_tasks]; rfl
    · exact refBuf_task_none htt'
  refine ⟨⟨?_, ?_, ?_⟩, ?_⟩
  · refine own_task_same hA (t := t) (v := none) rfl rfl rfl ?_
    have : sA.tasks t = some ⟨.source src ids, .running⟩ := by
      show upd s.tasks t' _ t = _
      rw [upd_other _ _ _ hne]; exact hk
    rw [refBuf_task_some this]; rfl
  · apply taskOK_upd (s := { s with tasks := upd s.tasks t' (some ⟨.traverse b, .pending⟩) }) _ rfl
    · intro tk htk; cases htk
    · apply taskOK_upd hi.tk rfl
      intro tk htk; injection htk with htk; subst htk
      exact ⟨ht', trivial⟩
  · exact contOK_same hi.ct rfl
  · intro w
    have e1 := sum_upd cfg.taskCap (upd s.tasks t' (some ⟨.traverse b, .pending⟩)) t none (taskW w) hg.1
    have e2 := sum_upd cfg.taskCap s.tasks t' (some ⟨.traverse b, .pending⟩) (taskW w) ht'
    have e3 := sum_upd cfg.bufCap s.pool b (some ⟨cfg.srcSub src, 0, ids⟩) (bufW w) hb
    rw [upd_other _ _ _ hne, hk] at e1
    rw [htt'] at e2
    rw [hpb] at e3
    simp only [taskW_none, taskW_some, kindW_source, kindW_trav, bufW_none, bufW_some] at e1 e2 e3
    simp only [weight]
    omega

/-! ### continuous source: contGen, contOverflow; flush: flushOne, flushFinish -/

theorem inv_contGen {cfg : Cfg} {s s' : State} {t g k : Nat} (hi : Inv cfg s)
    (h : step cfg s (.contGen t g k) = some s') : Inv cfg s' ∧ ∀ w, weight cfg w s' = weight cfg w s := by
  obtain ⟨c, n, ids, hk, hk0, hkl, hg, hc, hlen, rfl⟩ := step_contGen h
  have hgd := hi.tk t _ hk
  have hmem : (c, g) ∈ pairsU cfg := (mem_pairsU cfg c g).mpr ⟨hc, hg⟩
  refine ⟨⟨?_, ?_, ?_⟩, ?_⟩
  · exact own_task_same hi.own rfl rfl rfl (by rw [refBuf_task_some hk]; rfl)
  · apply taskOK_upd hi.tk rfl
    intro tk htk; injection htk with htk; subst htk
    refine ⟨hgd.1, ?_⟩
    have h2 := hgd.2
    simp only [taskGood] at h2 ⊢
    exact ⟨h2.1, h2.2.1, fun hne => absurd rfl hne⟩
  · apply contOK_upd hi.ct rfl (fun _ => hmem)
    rw [List.length_append, List.length_take]
    have : min k ids.length ≤ k := Nat.min_le_left _ _
    omega
  · intro w
    have e1 := sum_upd cfg.taskCap s.tasks t (some ⟨.contSource c n (ids.drop k), .running⟩) (taskW w) hgd.1
    have e2 := sum_updP cfg s.cont (c, g) (s.cont (c, g) ++ ids.take k) (wsum w) hmem
    have e3 := wsum_take_drop w ids k
    rw [hk] at e1
    simp only [taskW_some, kindW_cont] at e1
    rw [wsum_append] at e2
    simp only [weight]
    omega

theorem inv_sendOff {cfg : Cfg} {s : State} {c g b t' : Nat} (hi : Inv cfg s)
    (hne : s.cont (c, g) ≠ []) (hb : b < cfg.bufCap) (hpb : s.pool b = none) (ht' : t' < cfg.taskCap)
    (htt' : s.tasks t' = none) :
    Inv cfg { s with cont := updP s.cont (c, g) [], pool := upd s.pool b (some ⟨g, 0, s.cont (c, g)⟩), tasks := upd s.tasks t' (some ⟨.traverse b, .queued⟩) } ∧
    ∀ w, weight cfg w { s with cont := updP s.cont (c, g) [], pool := upd s.pool b (some ⟨g, 0, s.cont (c, g)⟩), tasks := upd s.tasks t' (some ⟨.traverse b, .queued⟩) } = weight cfg w s := by
  have hmem := hi.ct.idx _ hne
  refine ⟨⟨?_, ?_, ?_⟩, ?_⟩
  · apply own_add hi.own (r := .task t') hpb hb (buf := ⟨g, 0, s.cont (c, g)⟩) ⟨hne, hi.ct.len _⟩ rfl
    · intro x; simp only [refBuf_eq]; rw [refBufF_upd_tasks]; rfl
    · exact refBuf_task_none htt'
  · apply taskOK_upd hi.tk rfl
    intro tk htk; injection htk with htk; subst htk
    exact ⟨ht', trivial⟩
  · exact contOK_upd hi.ct rfl (fun e => absurd rfl e) (by simp)
  · intro w
    have e1 := sum_upd cfg.taskCap s.tasks t' (some ⟨.traverse b, .queued⟩) (taskW w) ht'
    have e2 := sum_updP cfg s.cont (c, g) [] (wsum w) hmem
    have e3 := sum_upd cfg.bufCap s.pool b (some ⟨g, 0, s.cont (c, g)⟩) (bufW w) hb
    rw [htt'] at e1
    rw [hpb] at e3
    simp only [taskW_none, taskW_some, kindW_trav, bufW_none, bufW_some, wsum_nil] at e1 e2 e3
    simp only [weight]
    omega

theorem inv_contOverflow {cfg : Cfg} {s s' : State} {t g b t' : Nat} (hi : Inv cfg s)
    (h : step cfg s (.contOverflow t g b t') = some s') : Inv cfg s' ∧ ∀ w, weight cfg w s' = weight cfg w s := by
  obtain ⟨c, n, ids, _, hlen, hb, hpb, ht', htt', rfl⟩ := step_contOverflow h
  have hne : s.cont (c, g) ≠ [] := by intro e; rw [e] at hlen; simp at hlen
  exact inv_sendOff hi hne hb hpb ht' htt'

theorem inv_flushOne {cfg : Cfg} {s s' : State} {t g b t' : Nat} (hi : Inv cfg s)
    (h : step cfg s (.flushOne t g b t') = some s') : Inv cfg s' ∧ ∀ w, weight cfg w s' = weight cfg w s := by
  obtain ⟨c, _, hne, _, hb, hpb, ht', htt', rfl⟩ := step_flushOne h
  exact inv_sendOff hi hne hb hpb ht' htt'

/-- a task without packets and without a buffer disappears -/
theorem inv_dropTask {cfg : Cfg} {s : State} {t : Nat} {tk : Task} (hi : Inv cfg s) (hk : s.tasks t = some tk)
    (hb : kindBuf tk.kind = none) (hw : ∀ w, kindW w tk.kind = 0) :
    Inv cfg { s with tasks := upd s.tasks t none } ∧
      ∀ w, weight cfg w { s with tasks := upd s.tasks t none } = weight cfg w s := by
  have hg := hi.tk t _ hk
  refine ⟨⟨?_, ?_, ?_⟩, ?_⟩
  · exact own_task_same hi.own rfl rfl rfl (by rw [refBuf_task_some hk, hb]; rfl)
  · apply taskOK_upd hi.tk rfl
    intro tk' htk; cases htk
  · exact contOK_same hi.ct rfl
  · intro w
    have e1 := sum_upd cfg.taskCap s.tasks t none (taskW w) hg.1
    rw [hk] at e1
    have : taskW w (some tk) = 0 := by cases tk; simp only [taskW_some]; exact hw w
    rw [this] at e1
    simp only [taskW_none] at e1
    simp only [weight]
    omega

theorem inv_flushFinish {cfg : Cfg} {s s' : State} {t : Nat} (hi : Inv cfg s)
    (h : step cfg s (.flushFinish t) = some s') : Inv cfg s' ∧ ∀ w, weight cfg w s' = weight cfg w s := by
  obtain ⟨c, hk, _, rfl⟩ := step_flushFinish h
  exact inv_dropTask hi hk rfl (fun _ => rfl)

/-! ### execReemit -/

theorem length_filter_zip_le {β : Type} (a : List Nat) (b : List β) (p : Nat × β → Bool) :
    (((a.zip b).filter p).map (·.1)).length ≤ a.length := by
  rw [List.length_map]
  calc ((a.zip b).filter p).length ≤ (a.zip b).length := List.length_filter_le _ _
    _ ≤ a.length := by rw [List.length_zip]; exact Nat.min_le_left _ _

theorem inv_execReemit {cfg : Cfg} {s s' : State} {t t' : Nat} {keep : List Bool} (hi : Inv cfg s)
    (h : step cfg s (.execReemit t keep t') = some s') : Inv cfg s' ∧ ∀ w, weight cfg w s' = weight cfg w s := by
  obtain ⟨b, buf, hk, hb, hlen, hcase⟩ := step_execReemit h
  have hg := hi.tk t _ hk
  have hrb : refBuf s (.task t) = some b := by rw [refBuf_task_some hk]; rfl
  obtain ⟨buf0, hb0, hok0⟩ := hi.own.live _ _ hrb
  rw [hb] at hb0; injection hb0 with hb0; subst hb0
  have hbcap := (hi.own.owned b buf hb).1
  have hsplit : ∀ w, wsum w (((buf.ids.zip keep).filter (·.2)).map (·.1))
      + wsum w (((buf.ids.zip keep).filter (fun p => !p.2)).map (·.1)) = wsum w buf.ids := by
    intro w
    have := wsum_filter_split w (buf.ids.zip keep) (·.2)
    rw [map_fst_zip _ _ hlen] at this
    exact this
  rcases hcase with ⟨hnil, rfl⟩ | ⟨hnn, ht', htt', rfl⟩
  · refine ⟨⟨?_, ?_, ?_⟩, ?_⟩
    · refine own_remove hi.own hrb ?_ ?_
      · rfl
      · intro x; simp only [refBuf_eq]; rw [refBufF_upd_tasks]; rfl
    · apply taskOK_upd hi.tk rfl
      intro tk' htk; cases htk
    · exact contOK_same hi.ct rfl
    · intro w
      have e1 := sum_upd cfg.taskCap s.tasks t none (taskW w) hg.1
      have e3 := sum_upd cfg.bufCap s.pool b none (bufW w) hbcap
      have e4 := hsplit w
      rw [hk] at e1
      rw [hb] at e3
      rw [hnil] at e4
      cases buf with
      | mk bs bd bids =>
        simp only [taskW_none, taskW_some, kindW_reemit, bufW_none, bufW_some, wsum_nil] at e1 e3 e4
        simp only [weight, wsum_append]
        omega
  · have hne : t ≠ t' := by intro e; subst e; rw [hk] at htt'; cases htt'
    let sA : State := { s with tasks := upd (upd s.tasks t' (some ⟨.traverse b, .pending⟩)) t none }
    have hrA : ∀ x, refBuf sA x = if x = .task t' then some b else if x = .task t then none else refBuf s x := by
      intro x
      simp only [refBuf_eq]
      show refBufF (upd (upd s.tasks t' (some ⟨.traverse b, .pending⟩)) t none) s.active x = _
      rw [refBufF_upd_tasks, refBufF_upd_tasks]
      by_cases e1 : x = .task t
      · subst e1
        have : (Ref.task t = Ref.task t') = False := by simp [hne]
        simp [this]
      · by_cases e2 : x = .task t'
        · subst e2; simp [Ne.symm hne]
        · simp [e1, e2]
    have hA : Own cfg sA := by
      refine own_move hi.own (s' := sA) hrb (refBuf_task_none htt') (by intro _ _ hk'; exact hk') rfl hrA
    refine ⟨⟨?_, ?_, ?_⟩, ?_⟩
    · refine own_refill hA (b := b) (buf' := { buf with ids := ((buf.ids.zip keep).filter (·.2)).map (·.1) }) (by show (s.pool b).isSome = true; rw [hb]; rfl) ?_ ?_ ?_
      · rfl
      · exact fun x => refBuf_congr rfl rfl x
      intro r hr
      have hrt : refBuf sA (.task t') = some b := by rw [hrA]; simp
      have := hA.uniq r (.task t') b hr hrt
      subst this
      exact ⟨hnn, Nat.le_trans (length_filter_zip_le buf.ids keep (·.2)) hok0.2⟩
    · apply taskOK_upd (s := { s with tasks := upd s.tasks t' (some ⟨.traverse b, .pending⟩) }) _ rfl
      · intro tk htk; cases htk
      · apply taskOK_upd hi.tk rfl
        intro tk htk; injection htk with htk; subst htk
        exact ⟨ht', trivial⟩
    · exact contOK_same hi.ct rfl
    · intro w
      have e1 := sum_upd cfg.taskCap (upd s.tasks t' (some ⟨.traverse b, .pending⟩)) t none (taskW w) hg.1
      have e2 := sum_upd cfg.taskCap s.tasks t' (some ⟨.traverse b, .pending⟩) (taskW w) ht'
      have e3 := sum_upd cfg.bufCap s.pool b
        (some { buf with ids := ((buf.ids.zip keep).filter (·.2)).map (·.1) }) (bufW w) hbcap
      have e4 := hsplit w
      rw [upd_other _ _ _ hne, hk] at e1
      rw [htt'] at e2
      rw [hb] at e3
      cases buf with
      | mk bs bd bids =>
        simp only [taskW_none, taskW_some, kindW_reemit, kindW_trav, bufW_some] at e1 e2 e3 e4
        simp only [weight, wsum_append]
        omega

/-! ### premature, checkTermination -/

theorem fullKind_buf (i a : Nat) : kindBuf (fullKind i a) = some a := by
  simp only [fullKind]; split_ifs <;> rfl
theorem fullKind_w (w : Nat → Nat) (i a : Nat) : kindW w (fullKind i a) = 0 := by
  simp only [fullKind]; split_ifs <;> rfl
theorem fullKind_good (cfg : Cfg) (i a : Nat) (st : TSt) : taskGood cfg ⟨fullKind i a, st⟩ := by
  simp only [taskGood, fullKind]; split_ifs <;> trivial

theorem inv_premature {cfg : Cfg} {s s' : State} {g t' : Nat} (hi : Inv cfg s)
    (h : step cfg s (.premature g t') = some s') : Inv cfg s' ∧ ∀ w, weight cfg w s' = weight cfg w s := by
  obtain ⟨b, _, _, _, ht', htt', hact, rfl⟩ := step_premature h
  refine ⟨⟨?_, ?_, ?_⟩, ?_⟩
  · apply own_move hi.own (ro := .act g (s.largest g).1) (rn := .task t') (b := b) hact (refBuf_task_none htt')
    · intro buf _ hok; exact ⟨hok.1, Nat.le_of_lt hok.2.1⟩
    · rfl
    · intro x
      simp only [refBuf_eq]
      rw [refBufF_upd_active, refBufF_upd_tasks]
      rw [optKindBuf_some, fullKind_buf]
      by_cases e1 : x = .task t'
      · subst e1; simp
      · simp [e1]
  · apply taskOK_upd hi.tk rfl
    intro tk htk; injection htk with htk; subst htk
    exact ⟨ht', fullKind_good cfg _ _ _⟩
  · exact contOK_same hi.ct rfl
  · intro w
    have e1 := sum_upd cfg.taskCap s.tasks t' (some ⟨fullKind (s.largest g).1 b, .queued⟩) (taskW w) ht'
    rw [htt'] at e1
    simp only [taskW_none, taskW_some, fullKind_w] at e1
    simp only [weight]
    omega

theorem inv_checkTermination {cfg : Cfg} {s s' : State} (hi : Inv cfg s)
    (h : step cfg s .checkTermination = some s') : Inv cfg s' ∧ ∀ w, weight cfg w s' = weight cfg w s := by
  obtain ⟨_, _, rfl⟩ := step_checkTermination h
  exact ⟨⟨own_same hi.own rfl (fun x => refBuf_congr rfl rfl x), hi.tk, contOK_same hi.ct rfl⟩, fun _ => rfl⟩

end CMacVerif.Photon
