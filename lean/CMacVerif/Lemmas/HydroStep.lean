import CMacVerif.Model.HydroStep
import CMacVerif.Lemmas.HydroSweeps
import CMacVerif.Lemmas.HydroUpdate
import Mathlib.Data.List.Perm.Basic
import Mathlib.Tactic.Ring
import Mathlib.Tactic.Linarith
import Mathlib.Data.Real.Basic
/-! Lemmas about the grid-level hydro step: calls of an accumulating sweep commute (C10), sums over
all cells (C04). -/
namespace CMacVerif.HydroStep
open CMacVerif CMacVerif.HydroGraph CMacVerif.HydroSweeps CMacVerif.HydroUpdate CMacVerif.RiemannVacuum

variable {σ κ ρ : Type}

/-! ### single-cell updates -/

/-- one write access: replace the state of cell `a.1` by `a.2` of its current state -/
abbrev Atom (σ : Type) := Cell × (σ → σ)

def applyAtom (s : Grid σ) (a : Atom σ) : Grid σ := gupd s a.1 (a.2 (s a.1))

theorem applyAtom_comm (s : Grid σ) (a b : Atom σ) (h : ∀ v, a.2 (b.2 v) = b.2 (a.2 v)) :
    applyAtom (applyAtom s a) b = applyAtom (applyAtom s b) a := by
  funext z
  obtain ⟨x, u⟩ := a
  obtain ⟨y, v⟩ := b
  simp only [applyAtom, gupd] at h ⊢
  by_cases hxy : x = y
  · subst hxy
    by_cases hz : z = x
    · simp [hz, h]
    · simp [hz]
  · have hyx : ¬ y = x := fun e => hxy e.symm
    by_cases hzx : z = x
    · subst hzx; simp [hxy]
    · by_cases hzy : z = y
      · subst hzy; simp [hyx]
      · simp [hzx, hzy]

/-- the contribution of a call, computed from the current grid -/
def kOf (P : Phys σ κ) (s : Grid σ) : Op → κ
  | .pair ax l r => P.contrib ax (s l) (s r)
  | .ghost ax up x => P.ghostContrib ax up (s x)

/-- the write accesses of a call once its contribution is known -/
def atoms (P : Phys σ κ) : Op → κ → List (Atom σ)
  | .pair ax l r, k => [(l, fun h => P.addLeft ax h k), (r, fun h => P.addRight ax h k)]
  | .ghost ax _ x, k => [(x, fun h => P.addLeft ax h k)]

theorem applyOp_eq (P : Phys σ κ) (s : Grid σ) (op : Op) :
    applyOp P s op = (atoms P op (kOf P s op)).foldl applyAtom s := by
  cases op <;> rfl

/-- A sweep is *accumulating* when its contributions only depend on a part `ro` of the cell state
that no call of the sweep changes, and its updates commute with each other (sums, minima,
maxima). -/
structure Accum (P : Phys σ κ) (ρ : Type) where
  ro : σ → ρ
  contrib_ro : ∀ ax a b a' b', ro a = ro a' → ro b = ro b' → P.contrib ax a b = P.contrib ax a' b'
  ghost_ro : ∀ ax up a a', ro a = ro a' → P.ghostContrib ax up a = P.ghostContrib ax up a'
  ro_left : ∀ ax a k, ro (P.addLeft ax a k) = ro a
  ro_right : ∀ ax a k, ro (P.addRight ax a k) = ro a
  comm_LL : ∀ ax ax' k k' a,
    P.addLeft ax (P.addLeft ax' a k') k = P.addLeft ax' (P.addLeft ax a k) k'
  comm_LR : ∀ ax ax' k k' a,
    P.addLeft ax (P.addRight ax' a k') k = P.addRight ax' (P.addLeft ax a k) k'
  comm_RR : ∀ ax ax' k k' a,
    P.addRight ax (P.addRight ax' a k') k = P.addRight ax' (P.addRight ax a k) k'

/-- the update functions of a sweep -/
def IsAcc (P : Phys σ κ) (u : σ → σ) : Prop :=
  (∃ ax k, u = fun h => P.addLeft ax h k) ∨ (∃ ax k, u = fun h => P.addRight ax h k)

theorem isAcc_comm {P : Phys σ κ} (A : Accum P ρ) {u v : σ → σ} (hu : IsAcc P u) (hv : IsAcc P v)
    (a : σ) : u (v a) = v (u a) := by
  rcases hu with ⟨ax, k, rfl⟩ | ⟨ax, k, rfl⟩ <;> rcases hv with ⟨ax', k', rfl⟩ | ⟨ax', k', rfl⟩
  · exact A.comm_LL ax ax' k k' a
  · exact A.comm_LR ax ax' k k' a
  · exact (A.comm_LR ax' ax k' k a).symm
  · exact A.comm_RR ax ax' k k' a

theorem isAcc_ro {P : Phys σ κ} (A : Accum P ρ) {u : σ → σ} (hu : IsAcc P u) (a : σ) :
    A.ro (u a) = A.ro a := by
  rcases hu with ⟨ax, k, rfl⟩ | ⟨ax, k, rfl⟩
  · exact A.ro_left ax a k
  · exact A.ro_right ax a k

theorem atoms_isAcc (P : Phys σ κ) (op : Op) (k : κ) : ∀ a ∈ atoms P op k, IsAcc P a.2 := by
  cases op with
  | pair ax l r =>
    intro a ha
    simp only [atoms, List.mem_cons, List.not_mem_nil, or_false] at ha
    rcases ha with rfl | rfl
    · exact Or.inl ⟨ax, k, rfl⟩
    · exact Or.inr ⟨ax, k, rfl⟩
  | ghost ax up x =>
    intro a ha
    simp only [atoms, List.mem_cons, List.not_mem_nil, or_false] at ha
    subst ha
    exact Or.inl ⟨ax, k, rfl⟩

theorem ro_foldl_atoms {P : Phys σ κ} (A : Accum P ρ) (l : List (Atom σ))
    (hl : ∀ a ∈ l, IsAcc P a.2) (s : Grid σ) (x : Cell) :
    A.ro (l.foldl applyAtom s x) = A.ro (s x) := by
  induction l generalizing s with
  | nil => rfl
  | cons a l ih =>
    rw [List.foldl_cons, ih (fun b hb => hl b (List.mem_cons_of_mem _ hb))]
    simp only [applyAtom, gupd]
    split_ifs with h
    · rw [h]; exact isAcc_ro A (hl a List.mem_cons_self) _
    · rfl

theorem kOf_congr {P : Phys σ κ} (A : Accum P ρ) {s s' : Grid σ}
    (h : ∀ x, A.ro (s x) = A.ro (s' x)) (op : Op) : kOf P s op = kOf P s' op := by
  cases op with
  | pair ax l r => exact A.contrib_ro ax _ _ _ _ (h l) (h r)
  | ghost ax up x => exact A.ghost_ro ax up _ _ (h x)

/-- a call does not change the read-only part of any cell -/
theorem ro_applyOp {P : Phys σ κ} (A : Accum P ρ) (s : Grid σ) (op : Op) (x : Cell) :
    A.ro (applyOp P s op x) = A.ro (s x) := by
  rw [applyOp_eq]
  exact ro_foldl_atoms A _ (atoms_isAcc P op _) s x

/-- **two calls of an accumulating sweep commute** -/
theorem applyOp_comm {P : Phys σ κ} (A : Accum P ρ) (s : Grid σ) (o o' : Op) :
    applyOp P (applyOp P s o) o' = applyOp P (applyOp P s o') o := by
  have e1 : kOf P (applyOp P s o) o' = kOf P s o' := kOf_congr A (ro_applyOp A s o) o'
  have e2 : kOf P (applyOp P s o') o = kOf P s o := kOf_congr A (ro_applyOp A s o') o
  rw [applyOp_eq P (applyOp P s o) o', applyOp_eq P (applyOp P s o') o, e1, e2, applyOp_eq P s o,
    applyOp_eq P s o', ← List.foldl_append, ← List.foldl_append]
  refine List.Perm.foldl_eq' List.perm_append_comm ?_ s
  intro a ha b hb z
  have ha' : IsAcc P a.2 := by
    rcases List.mem_append.mp ha with h | h
    · exact atoms_isAcc P o _ a h
    · exact atoms_isAcc P o' _ a h
  have hb' : IsAcc P b.2 := by
    rcases List.mem_append.mp hb with h | h
    · exact atoms_isAcc P o _ b h
    · exact atoms_isAcc P o' _ b h
  exact applyAtom_comm z a b (fun v => isAcc_comm A ha' hb' v)

/-- **the result of a sweep phase does not depend on the order of its calls** -/
theorem runOps_perm {P : Phys σ κ} (A : Accum P ρ) {ops ops' : List Op} (h : ops.Perm ops')
    (s : Grid σ) : runOps P s ops = runOps P s ops' :=
  List.Perm.foldl_eq' h (fun o _ o' _ z => applyOp_comm A z o o') s

theorem ro_runOps {P : Phys σ κ} (A : Accum P ρ) (ops : List Op) (s : Grid σ) (x : Cell) :
    A.ro (runOps P s ops x) = A.ro (s x) := by
  induction ops generalizing s with
  | nil => rfl
  | cons o ops ih =>
    show A.ro (runOps P (applyOp P s o) ops x) = _
    rw [ih, ro_applyOp A]

/-! ### sums over the cells -/

/-- sum of a real quantity over a list of cells -/
noncomputable def total (cells : List Cell) (f : Cell → ℝ) : ℝ := (cells.map f).sum

theorem total_congr {cells : List Cell} {f g : Cell → ℝ} (h : ∀ x ∈ cells, f x = g x) :
    total cells f = total cells g := by
  unfold total; rw [List.map_congr_left h]

theorem total_add (cells : List Cell) (f g : Cell → ℝ) :
    total cells (fun x => f x + g x) = total cells f + total cells g := by
  unfold total
  induction cells with
  | nil => simp
  | cons a l ih => simp only [List.map_cons, List.sum_cons, ih]; ring

theorem total_mul (cells : List Cell) (f : Cell → ℝ) (c : ℝ) :
    total cells (fun x => f x * c) = total cells f * c := by
  unfold total
  induction cells with
  | nil => simp
  | cons a l ih => simp only [List.map_cons, List.sum_cons, ih]; ring

/-- changing the state of one cell changes the sum by the difference at that cell -/
theorem total_gupd {cells : List Cell} (hn : cells.Nodup) {x : Cell} (hx : x ∈ cells)
    (φ : σ → ℝ) (s : Grid σ) (v : σ) :
    total cells (fun y => φ (gupd s x v y)) = total cells (fun y => φ (s y)) + (φ v - φ (s x)) := by
  unfold total
  induction cells with
  | nil => simp at hx
  | cons a l ih =>
    rw [List.nodup_cons] at hn
    simp only [List.map_cons, List.sum_cons]
    rcases List.mem_cons.mp hx with rfl | hx'
    · have : ∀ y ∈ l, φ (gupd s x v y) = φ (s y) := by
        intro y hy
        have : y ≠ x := fun e => hn.1 (e ▸ hy)
        simp [gupd, this]
      rw [List.map_congr_left this]
      simp only [gupd, if_true]
      ring
    · have hax : a ≠ x := fun e => hn.1 (e ▸ hx')
      rw [ih hn.2 hx']
      simp only [gupd, hax, if_false]
      ring


/-! ### the two sweeps of the hydro step are accumulating -/

/-- the flux calls read primitives, gradients and conserved variables and only add to / subtract
from `delta_conserved` -/
noncomputable def fluxAccum (flux : FluxFn ℝ) (pr : Params ℝ) : Accum (fluxPhys flux pr) (HV ℝ) where
  ro h := { h with dcons := ⟨0, ⟨0, 0, 0⟩, 0⟩ }
  contrib_ro ax a b a' b' ha hb := by
    have h1 : a.prim = a'.prim := by have := congrArg HV.prim ha; exact this
    have h2 : a.grad = a'.grad := by have := congrArg HV.grad ha; exact this
    have h3 : a.cons = a'.cons := by have := congrArg HV.cons ha; exact this
    have h4 : b.prim = b'.prim := by have := congrArg HV.prim hb; exact this
    have h5 : b.grad = b'.grad := by have := congrArg HV.grad hb; exact this
    have h6 : b.cons = b'.cons := by have := congrArg HV.cons hb; exact this
    simp only [fluxPhys, faceFlux, faceFluxTag, fluxFac, h1, h2, h3, h4, h5, h6]
  ghost_ro ax up a a' ha := by
    have h1 : a.prim = a'.prim := by have := congrArg HV.prim ha; exact this
    have h2 : a.grad = a'.grad := by have := congrArg HV.grad ha; exact this
    have h3 : a.cons = a'.cons := by have := congrArg HV.cons ha; exact this
    simp only [fluxPhys, ghostFaceFluxB, ghostFaceFluxTagB, ghostFluxFac, h1, h2, h3]
  ro_left _ _ _ := rfl
  ro_right _ _ _ := rfl
  comm_LL _ _ k k' a := by simp only [fluxPhys, Q.sub_sub_comm a.dcons k k']
  comm_LR _ _ k k' a := by simp only [fluxPhys, Q.sub_add_comm a.dcons k k']
  comm_RR _ _ k k' a := by simp only [fluxPhys, Q.add_add_comm a.dcons k k']

theorem gradAddLeft_comm (ax ax' : Axis) (a : HV ℝ) (k W k' W' : Q ℝ) :
    gradAddLeft ax (gradAddLeft ax' a k' W') k W = gradAddLeft ax' (gradAddLeft ax a k W) k' W' := by
  simp only [gradAddLeft, Q.min_min_comm a.lo W W', Q.max_max_comm a.hi W W']
  congr 1
  cases ax <;> cases ax' <;> ext <;>
    simp only [Grad.setAlong, Grad.along, V3'.set, V3'.get, Q.add, V3.add] <;> ring

theorem gradAddLeft_subRight_comm (ax ax' : Axis) (a : HV ℝ) (k W k' W' : Q ℝ) :
    gradAddLeft ax (gradSubRight ax' a k' W') k W
      = gradSubRight ax' (gradAddLeft ax a k W) k' W' := by
  simp only [gradAddLeft, gradSubRight, Q.min_min_comm a.lo W W', Q.max_max_comm a.hi W W']
  congr 1
  cases ax <;> cases ax' <;> ext <;>
    simp only [Grad.setAlong, Grad.along, V3'.set, V3'.get, Q.add, Q.sub, V3.add, V3.sub] <;> ring

theorem gradSubRight_comm (ax ax' : Axis) (a : HV ℝ) (k W k' W' : Q ℝ) :
    gradSubRight ax (gradSubRight ax' a k' W') k W
      = gradSubRight ax' (gradSubRight ax a k W) k' W' := by
  simp only [gradSubRight, Q.min_min_comm a.lo W W', Q.max_max_comm a.hi W W']
  congr 1
  cases ax <;> cases ax' <;> ext <;>
    simp only [Grad.setAlong, Grad.along, V3'.set, V3'.get, Q.sub, V3.sub] <;> ring

/-- the gradient calls read the primitives and only add to the gradients and take running minima
/ maxima of the limiters -/
noncomputable def gradAccum (pr : Params ℝ) : Accum (gradPhys pr) (HV ℝ) where
  ro h := { h with grad := Grad.zero, lo := ⟨0, ⟨0, 0, 0⟩, 0⟩, hi := ⟨0, ⟨0, 0, 0⟩, 0⟩ }
  contrib_ro ax a b a' b' ha hb := by
    have h1 : a.prim = a'.prim := by have := congrArg HV.prim ha; exact this
    have h4 : b.prim = b'.prim := by have := congrArg HV.prim hb; exact this
    simp only [gradPhys, h1, h4]
  ghost_ro ax up a a' ha := by
    have h1 : a.prim = a'.prim := by have := congrArg HV.prim ha; exact this
    simp only [gradPhys, h1]
  ro_left _ _ _ := rfl
  ro_right _ _ _ := rfl
  comm_LL ax ax' k k' a := gradAddLeft_comm ax ax' a k.1 k.2.1 k'.1 k'.2.1
  comm_LR ax ax' k k' a := gradAddLeft_subRight_comm ax ax' a k.1 k.2.1 k'.1 k'.2.2
  comm_RR ax ax' k k' a := gradSubRight_comm ax ax' a k.1 k.2.2 k'.1 k'.2.2

/-! ### the limiter premise: after the gradient sweeps `lo ≤ hi` in every cell that a call touched -/

/-- neighbour minimum ≤ neighbour maximum for all five variables -/
def LoHi (h : HV ℝ) : Prop :=
  h.lo.d ≤ h.hi.d ∧ h.lo.v.x ≤ h.hi.v.x ∧ h.lo.v.y ≤ h.hi.v.y ∧ h.lo.v.z ≤ h.hi.v.z ∧ h.lo.e ≤ h.hi.e

theorem min_le_max' (a b W : ℝ) : min a W ≤ max b W := (min_le_right _ _).trans (le_max_right _ _)

/-- one gradient call establishes the premise whatever the limiters were before
(`min(lo, W) ≤ W ≤ max(hi, W)`) -/
theorem loHi_gradAddLeft (ax : Axis) (h : HV ℝ) (k W : Q ℝ) : LoHi (gradAddLeft ax h k W) := by
  simp only [LoHi, gradAddLeft, Q.min, Q.max, amin_real, amax_real]
  exact ⟨min_le_max' _ _ _, min_le_max' _ _ _, min_le_max' _ _ _, min_le_max' _ _ _, min_le_max' _ _ _⟩

theorem loHi_gradSubRight (ax : Axis) (h : HV ℝ) (k W : Q ℝ) : LoHi (gradSubRight ax h k W) := by
  simp only [LoHi, gradSubRight, Q.min, Q.max, amin_real, amax_real]
  exact ⟨min_le_max' _ _ _, min_le_max' _ _ _, min_le_max' _ _ _, min_le_max' _ _ _, min_le_max' _ _ _⟩

/-- the cells a call touches -/
def opCells' : Op → List Cell
  | .pair _ l r => [l, r]
  | .ghost _ _ x => [x]

theorem grad_applyOp_cases (pr : Params ℝ) (s : Grid (HV ℝ)) (o : Op) (x : Cell) :
    (x ∉ opCells' o ∧ applyOp (gradPhys pr) s o x = s x) ∨
      (x ∈ opCells' o ∧ LoHi (applyOp (gradPhys pr) s o x)) := by
  cases o with
  | pair ax l r =>
    simp only [applyOp, gupd, opCells', List.mem_cons, List.not_mem_nil, or_false]
    by_cases hr : x = r
    · right; refine ⟨Or.inr hr, ?_⟩
      simp only [hr, if_true, gradPhys]; exact loHi_gradSubRight _ _ _ _
    · by_cases hl : x = l
      · right; refine ⟨Or.inl hl, ?_⟩
        subst hl
        simp only [hr, if_true, if_false, gradPhys]
        exact loHi_gradAddLeft _ _ _ _
      · left; exact ⟨by simp [hl, hr], by simp [hl, hr]⟩
  | ghost ax up c =>
    simp only [applyOp, gupd, opCells', List.mem_cons, List.not_mem_nil, or_false]
    by_cases hc : x = c
    · right; refine ⟨hc, ?_⟩
      simp only [hc, if_true, gradPhys]; exact loHi_gradAddLeft _ _ _ _
    · left; exact ⟨hc, by simp [hc]⟩

/-- after a gradient phase every cell that had the premise before or is touched by one of the
calls has `lo ≤ hi` -/
theorem loHi_runOps (pr : Params ℝ) (ops : List Op) (s : Grid (HV ℝ)) (x : Cell)
    (h : LoHi (s x) ∨ ∃ o ∈ ops, x ∈ opCells' o) : LoHi (runOps (gradPhys pr) s ops x) := by
  induction ops generalizing s with
  | nil =>
    rcases h with h | ⟨o, ho, _⟩
    · exact h
    · simp at ho
  | cons o ops ih =>
    show LoHi (runOps (gradPhys pr) (applyOp (gradPhys pr) s o) ops x)
    apply ih
    rcases grad_applyOp_cases pr s o x with ⟨hn, he⟩ | ⟨_, hl⟩
    · rcases h with h | ⟨o', ho', hx'⟩
      · left; rw [he]; exact h
      · rcases List.mem_cons.mp ho' with rfl | ho''
        · exact absurd hx' hn
        · right; exact ⟨o', ho'', hx'⟩
    · left; exact hl

/-- every cell of the grid is touched by a gradient call of the layout (its `+x` face is a pair
face or a box-boundary face) -/
theorem valid_cell_touched (L : Layout) (c : Cells) (hc : 0 < c.cx ∧ 0 < c.cy ∧ 0 < c.cz)
    {x : Cell} (hx : valid (cellGrid L c) x = true) : ∃ o ∈ layoutOps L c, x ∈ opCells' o := by
  have hcl : 0 < clen c .x := by simp [clen, hc]
  cases hn : ngbUp (cellGrid L c) .x x with
  | some y =>
    have hm : (x, y) ∈ allFaces L c .x :=
      (mem_allFaces_iff L c .x hcl x y).mpr ((mem_gridFaces _ _ _ _).mpr ⟨hx, hn⟩)
    refine ⟨.pair .x x y, ?_, by simp [opCells']⟩
    simp only [layoutOps, axes, List.mem_flatMap, List.mem_append, List.mem_map]
    exact ⟨.x, by simp, Or.inl (Or.inl ⟨(x, y), hm, rfl⟩)⟩
  | none =>
    have hm : x ∈ allGhosts L c .x true :=
      (mem_allGhosts_iff L c .x true hcl x).mpr ((mem_gridGhosts _ _ _ _).mpr ⟨hx, by simpa using hn⟩)
    refine ⟨.ghost .x true x, ?_, by simp [opCells']⟩
    simp only [layoutOps, axes, List.mem_flatMap, List.mem_append, List.mem_map]
    exact ⟨.x, by simp, Or.inl (Or.inr ⟨x, hm, rfl⟩)⟩

/-! ### the accumulators are reset by the conserved update -/

theorem updateConserved_resets (dmax : ℝ) (h : HV ℝ) (dt : ℝ) :
    (updateConserved dmax h dt).dcons = ⟨0, ⟨0, 0, 0⟩, 0⟩ ∧ (updateConserved dmax h dt).eterm = 0 ∧
      (updateConserved dmax h dt).acc = h.acc ∧ (updateConserved dmax h dt).grad = Grad.zero := by
  refine ⟨?_, ?_, ?_, ?_⟩ <;> simp [updateConserved, updateConservedTag, V3.zero, lit0]

end CMacVerif.HydroStep
