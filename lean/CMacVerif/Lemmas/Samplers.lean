import CMacVerif.Lemmas.Locate
import Mathlib.Analysis.SpecialFunctions.Pow.Real
import Mathlib.Analysis.SpecialFunctions.Log.Basic
import Mathlib.Tactic.NormNum
import Mathlib.Tactic.Ring
/-!
# C18 — the inverse-CDF samplers over ℝ: the interpolated value stays inside the table
-/
namespace CMacVerif.Locate
open CMacVerif

@[simp] theorem pow_real (x y : ℝ) : ArithFns.pow x y = x ^ y := rfl
@[simp] theorem sqrt_real (x : ℝ) : ArithFns.sqrt x = Real.sqrt x := rfl
@[simp] theorem exp_real (x : ℝ) : ArithFns.exp x = Real.exp x := rfl
@[simp] theorem log10_real (x : ℝ) : ArithFns.log10 x = Real.log x / Real.log 10 := rfl

/-- linear interpolation with a weight in [0, 1] stays between the end points -/
theorem lerp_mem (fl fh a b x : ℝ) (hab : a < b) (hx : a ≤ x) (hx' : x ≤ b) (hf : fl ≤ fh) :
    fl ≤ fl + (fh - fl) * (x - a) / (b - a) ∧ fl + (fh - fl) * (x - a) / (b - a) ≤ fh := by
  have hd : 0 < b - a := by linarith
  have h0 : 0 ≤ (x - a) / (b - a) := div_nonneg (by linarith) hd.le
  have h1 : (x - a) / (b - a) ≤ 1 := by rw [div_le_one hd]; linarith
  rw [mul_div_assoc]
  constructor
  · nlinarith
  · nlinarith

/-- same, weight first (`(x - a) * (fh - fl) / (b - a)`), end points in any order -/
theorem lerp_mem' (f1 f2 a b x lo hi : ℝ) (hab : a < b) (hx : a ≤ x) (hx' : x ≤ b)
    (h1 : lo ≤ f1 ∧ f1 ≤ hi) (h2 : lo ≤ f2 ∧ f2 ≤ hi) :
    lo ≤ f1 + (x - a) * (f2 - f1) / (b - a) ∧ f1 + (x - a) * (f2 - f1) / (b - a) ≤ hi := by
  have hd : 0 < b - a := by linarith
  have h0 : 0 ≤ (x - a) / (b - a) := div_nonneg (by linarith) hd.le
  have h1' : (x - a) / (b - a) ≤ 1 := by rw [div_le_one hd]; linarith
  have e : f1 + (x - a) * (f2 - f1) / (b - a) = (1 - (x - a) / (b - a)) * f1 + (x - a) / (b - a) * f2 := by
    field_simp; ring
  rw [e]
  constructor
  · nlinarith [h1.1, h2.1]
  · nlinarith [h1.2, h2.2]

/-- **linear samplers** (two-photon continuum, masked spectrum): for a random number above the
first and not above the last entry of the cumulative table the frequency lies in the bin
`[freq i, freq (i+1)]` that `locate` selected, hence inside the table's frequency range -/
theorem linearSample_mem (x : ℝ) (freq cdf : ℕ → ℝ) (n : ℕ) (hn : 2 ≤ n)
    (hf : ∀ i j, i ≤ j → j < n → freq i ≤ freq j)
    (h0 : cdf 0 < x) (h1 : x ≤ cdf (n - 1)) :
    freq 0 ≤ linearSample x freq cdf n ∧ linearSample x freq cdf n ≤ freq (n - 1) := by
  obtain ⟨ha, hb⟩ := locate_bracket x cdf n hn h0 h1
  have hle := locate_add_two_le x cdf n hn
  unfold linearSample
  simp only
  obtain ⟨l, u⟩ := lerp_mem (freq (locate x cdf n)) (freq (locate x cdf n + 1)) (cdf (locate x cdf n))
    (cdf (locate x cdf n + 1)) x (lt_of_lt_of_le ha hb) ha.le hb (hf _ _ (Nat.le_succ _) (by omega))
  exact ⟨le_trans (hf 0 _ (Nat.zero_le _) (by omega)) l, le_trans u (hf _ _ (by omega) (by omega))⟩

/-- the linear samplers invert the piecewise-linear cumulative distribution through the table
points exactly: the table CDF evaluated at the returned frequency is the random number -/
theorem linearSample_inverts (x : ℝ) (freq cdf : ℕ → ℝ) (n : ℕ) (hn : 2 ≤ n)
    (hf : ∀ i, i + 1 < n → freq i < freq (i + 1))
    (h0 : cdf 0 < x) (h1 : x ≤ cdf (n - 1)) :
    let i := locate x cdf n
    cdf i + (linearSample x freq cdf n - freq i) / (freq (i + 1) - freq i) * (cdf (i + 1) - cdf i) = x := by
  obtain ⟨ha, hb⟩ := locate_bracket x cdf n hn h0 h1
  have hle := locate_add_two_le x cdf n hn
  have hfi := hf (locate x cdf n) (by omega)
  intro i
  show cdf (locate x cdf n) + (linearSample x freq cdf n - freq (locate x cdf n)) /
    (freq (locate x cdf n + 1) - freq (locate x cdf n)) * (cdf (locate x cdf n + 1) - cdf (locate x cdf n)) = x
  unfold linearSample
  simp only
  have hc : cdf (locate x cdf n + 1) - cdf (locate x cdf n) ≠ 0 :=
    (sub_pos.mpr (lt_of_lt_of_le ha hb)).ne'
  have hfz : freq (locate x cdf n + 1) - freq (locate x cdf n) ≠ 0 := (sub_pos.mpr hfi).ne'
  field_simp
  ring

theorem clampT_mem (T : ℝ) (ttab : ℕ → ℝ) (nT : ℕ) (h : ttab 0 ≤ ttab (nT - 1)) :
    ttab 0 ≤ clampT T ttab nT ∧ clampT T ttab nT ≤ ttab (nT - 1) := by
  unfold clampT
  rw [amax_real, amin_real]
  exact ⟨le_max_left _ _, max_le h (min_le_right _ _)⟩

/-- **Lyman continuum samplers** (after the temperature clamp): for EVERY temperature and EVERY
random number the frequency lies inside the frequency table -/
theorem lymanSample_mem (x T : ℝ) (ttab : ℕ → ℝ) (nT : ℕ) (freq : ℕ → ℝ) (cdf : ℕ → ℕ → ℝ) (nF : ℕ)
    (hnT : 2 ≤ nT) (hnF : 2 ≤ nF)
    (ht : ∀ i, i + 1 < nT → ttab i < ttab (i + 1))
    (hf : ∀ i j, i ≤ j → j < nF → freq i ≤ freq j) :
    freq 0 ≤ lymanSample x T ttab nT freq cdf nF ∧ lymanSample x T ttab nT freq cdf nF ≤ freq (nF - 1) := by
  have hmono : ∀ k, k < nT → ttab 0 ≤ ttab k := by
    intro k hk
    induction k with
    | zero => exact le_rfl
    | succ k ih => exact le_trans (ih (by omega)) (ht k hk).le
  obtain ⟨c0, c1⟩ := clampT_mem T ttab nT (hmono (nT - 1) (by omega))
  obtain ⟨ba, bb⟩ := locate_bracket_le (clampT T ttab nT) ttab nT hnT c0 c1
  have hle := locate_add_two_le (clampT T ttab nT) ttab nT hnT
  have hstrict := ht (locate (clampT T ttab nT) ttab nT) (by omega)
  have m : ∀ y : ℝ, ∀ c : ℕ → ℝ, freq 0 ≤ freq (locate y c nF) ∧ freq (locate y c nF) ≤ freq (nF - 1) := by
    intro y c
    have := locate_add_two_le y c nF hnF
    exact ⟨hf 0 _ (Nat.zero_le _) (by omega), hf _ _ (by omega) (by omega)⟩
  unfold lymanSample
  simp only
  exact lerp_mem' _ _ _ _ _ _ _ hstrict ba bb (m x _) (m x _)

/-- base-10 logarithm is monotone on positive numbers -/
theorem log10_le {a b : ℝ} (ha : 0 < a) (hab : a ≤ b) : Real.log a / Real.log 10 ≤ Real.log b / Real.log 10 :=
  div_le_div_of_nonneg_right (Real.log_le_log ha hab) (Real.log_pos (by norm_num)).le

theorem log10_lt {a b : ℝ} (ha : 0 < a) (hab : a < b) : Real.log a / Real.log 10 < Real.log b / Real.log 10 :=
  div_lt_div_of_pos_right (Real.log_lt_log ha hab) (Real.log_pos (by norm_num))

/-- **Planck sampler**, exponent: for `u` above the floor of the first bin the interpolated
log-frequency lies in the bin `locate` selected -/
theorem planckLogFreq_mem (x : ℝ) (cdf logcdf logfreq : ℕ → ℝ) (n : ℕ) (hn : 2 ≤ n)
    (hpos : ∀ i, 1 ≤ i → i < n → 0 < cdf i)
    (hlog : ∀ i, 1 ≤ i → i < n → logcdf i = Real.log (cdf i) / Real.log 10)
    (hfloor : logcdf 0 ≤ Real.log x / Real.log 10) (hfirst : logcdf 0 < logcdf 1)
    (hf : ∀ i j, i ≤ j → j < n → logfreq i ≤ logfreq j)
    (hx : 0 < x) (h0 : cdf 0 < x) (h1 : x ≤ cdf (n - 1)) :
    logfreq 0 ≤ planckLogFreq x cdf logcdf logfreq n ∧ planckLogFreq x cdf logcdf logfreq n ≤ logfreq (n - 1) := by
  obtain ⟨ha, hb⟩ := locate_bracket x cdf n hn h0 h1
  have hle := locate_add_two_le x cdf n hn
  -- the bracket in log space
  have hub : Real.log x / Real.log 10 ≤ logcdf (locate x cdf n + 1) := by
    rw [hlog _ (by omega) (by omega)]; exact log10_le hx hb
  have hlb : logcdf (locate x cdf n) ≤ Real.log x / Real.log 10 ∧ logcdf (locate x cdf n) < logcdf (locate x cdf n + 1) := by
    by_cases hz : locate x cdf n = 0
    · rw [hz]; exact ⟨hfloor, hfirst⟩
    · have hl := hlog (locate x cdf n) (by omega) (by omega)
      have hp := hpos (locate x cdf n) (by omega) (by omega)
      have := log10_lt hp ha
      rw [← hl] at this
      exact ⟨this.le, lt_of_lt_of_le this hub⟩
  unfold planckLogFreq
  simp only [log10_real]
  have hd : 0 < logcdf (locate x cdf n + 1) - logcdf (locate x cdf n) := by linarith [hlb.2]
  have w0 : 0 ≤ (Real.log x / Real.log 10 - logcdf (locate x cdf n)) / (logcdf (locate x cdf n + 1) - logcdf (locate x cdf n)) :=
    div_nonneg (by linarith [hlb.1]) hd.le
  have w1 : (Real.log x / Real.log 10 - logcdf (locate x cdf n)) / (logcdf (locate x cdf n + 1) - logcdf (locate x cdf n)) ≤ 1 := by
    rw [div_le_one hd]; linarith
  have fl := hf (locate x cdf n) (locate x cdf n + 1) (Nat.le_succ _) (by omega)
  have f0 := hf 0 (locate x cdf n) (Nat.zero_le _) (by omega)
  have f1 := hf (locate x cdf n + 1) (n - 1) (by omega) (by omega)
  constructor
  · nlinarith
  · nlinarith

/-- **Planck sampler**: the frequency lies inside `[10^logfreq 0, 10^logfreq (n-1)] × 13.6 eV` -/
theorem planckSample_mem (x : ℝ) (cdf logcdf logfreq : ℕ → ℝ) (n : ℕ) (hn : 2 ≤ n)
    (hpos : ∀ i, 1 ≤ i → i < n → 0 < cdf i)
    (hlog : ∀ i, 1 ≤ i → i < n → logcdf i = Real.log (cdf i) / Real.log 10)
    (hfloor : logcdf 0 ≤ Real.log x / Real.log 10) (hfirst : logcdf 0 < logcdf 1)
    (hf : ∀ i j, i ≤ j → j < n → logfreq i ≤ logfreq j)
    (hx : 0 < x) (h0 : cdf 0 < x) (h1 : x ≤ cdf (n - 1)) :
    (10 : ℝ) ^ logfreq 0 * 3.288465385e15 ≤ planckSample x cdf logcdf logfreq n ∧
    planckSample x cdf logcdf logfreq n ≤ (10 : ℝ) ^ logfreq (n - 1) * 3.288465385e15 := by
  obtain ⟨a, b⟩ := planckLogFreq_mem x cdf logcdf logfreq n hn hpos hlog hfloor hfirst hf hx h0 h1
  unfold planckSample
  simp only [pow_real]
  have h10 : (10.0 : ℝ) = 10 := by norm_num
  rw [h10]
  have hc : (0 : ℝ) ≤ 3.288465385e15 := by norm_num
  exact ⟨mul_le_mul_of_nonneg_right (Real.rpow_le_rpow_of_exponent_le (by norm_num) a) hc,
         mul_le_mul_of_nonneg_right (Real.rpow_le_rpow_of_exponent_le (by norm_num) b) hc⟩


/-- the Planck sampler inverts the table's cumulative distribution **interpolated linearly in
log–log** (the interpolation the table is meant for): `log₁₀ F(ν) = log₁₀ u` at the returned ν -/
theorem planckLogFreq_inverts (x : ℝ) (cdf logcdf logfreq : ℕ → ℝ) (n : ℕ) (hn : 2 ≤ n)
    (hpos : ∀ i, 1 ≤ i → i < n → 0 < cdf i)
    (hlog : ∀ i, 1 ≤ i → i < n → logcdf i = Real.log (cdf i) / Real.log 10)
    (hfirst : logcdf 0 < logcdf 1)
    (hf : ∀ i, i + 1 < n → logfreq i < logfreq (i + 1))
    (hx : 0 < x) (h0 : cdf 0 < x) (h1 : x ≤ cdf (n - 1)) :
    let i := locate x cdf n
    logcdf i + (planckLogFreq x cdf logcdf logfreq n - logfreq i) / (logfreq (i + 1) - logfreq i) *
      (logcdf (i + 1) - logcdf i) = Real.log x / Real.log 10 := by
  obtain ⟨ha, hb⟩ := locate_bracket x cdf n hn h0 h1
  have hle := locate_add_two_le x cdf n hn
  have hub : Real.log x / Real.log 10 ≤ logcdf (locate x cdf n + 1) := by
    rw [hlog _ (by omega) (by omega)]; exact log10_le hx hb
  have hlt : logcdf (locate x cdf n) < logcdf (locate x cdf n + 1) := by
    by_cases hz : locate x cdf n = 0
    · rw [hz]; exact hfirst
    · have hl := hlog (locate x cdf n) (by omega) (by omega)
      have := log10_lt (hpos (locate x cdf n) (by omega) (by omega)) ha
      rw [← hl] at this
      exact lt_of_lt_of_le this hub
  have hfi := hf (locate x cdf n) (by omega)
  intro i
  show logcdf (locate x cdf n) + (planckLogFreq x cdf logcdf logfreq n - logfreq (locate x cdf n)) /
    (logfreq (locate x cdf n + 1) - logfreq (locate x cdf n)) *
      (logcdf (locate x cdf n + 1) - logcdf (locate x cdf n)) = Real.log x / Real.log 10
  unfold planckLogFreq
  simp only [log10_real]
  have hc : logcdf (locate x cdf n + 1) - logcdf (locate x cdf n) ≠ 0 := (sub_pos.mpr hlt).ne'
  have hfz : logfreq (locate x cdf n + 1) - logfreq (locate x cdf n) ≠ 0 := (sub_pos.mpr hfi).ne'
  field_simp
  ring

/-- the returned Planck frequency is `10^(log frequency) · 13.6 eV/h` -/
theorem planckSample_eq (x : ℝ) (cdf logcdf logfreq : ℕ → ℝ) (n : ℕ) :
    planckSample x cdf logcdf logfreq n = (10 : ℝ) ^ planckLogFreq x cdf logcdf logfreq n * 3.288465385e15 := by
  unfold planckSample
  simp only [pow_real]
  norm_num

/-- what the Lyman continuum samplers return, exactly: the mix, with weight
`t = (T_c - T_i)/(T_{i+1} - T_i) ∈ [0, 1]`, of the lower edges of the frequency bins that contain `u`
in the cumulative tables of the two temperatures bracketing the clamped temperature -/
theorem lymanSample_quantile_mix (x T : ℝ) (ttab : ℕ → ℝ) (nT : ℕ) (freq : ℕ → ℝ) (cdf : ℕ → ℕ → ℝ) (nF : ℕ)
    (hnT : 2 ≤ nT) (ht : ∀ i, i + 1 < nT → ttab i < ttab (i + 1)) :
    let Tc := clampT T ttab nT
    let iT := locate Tc ttab nT
    let t := (Tc - ttab iT) / (ttab (iT + 1) - ttab iT)
    0 ≤ t ∧ t ≤ 1 ∧
    lymanSample x T ttab nT freq cdf nF =
      (1 - t) * freq (locate x (cdf iT) nF) + t * freq (locate x (cdf (iT + 1)) nF) := by
  have hmono : ∀ k, k < nT → ttab 0 ≤ ttab k := by
    intro k hk
    induction k with
    | zero => exact le_rfl
    | succ k ih => exact le_trans (ih (by omega)) (ht k hk).le
  obtain ⟨c0, c1⟩ := clampT_mem T ttab nT (hmono (nT - 1) (by omega))
  obtain ⟨ba, bb⟩ := locate_bracket_le (clampT T ttab nT) ttab nT hnT c0 c1
  have hle := locate_add_two_le (clampT T ttab nT) ttab nT hnT
  have hstrict := ht (locate (clampT T ttab nT) ttab nT) (by omega)
  have hd : 0 < ttab (locate (clampT T ttab nT) ttab nT + 1) - ttab (locate (clampT T ttab nT) ttab nT) := by linarith
  intro Tc iT t
  refine ⟨div_nonneg (by linarith) hd.le, by rw [div_le_one hd]; linarith, ?_⟩
  show lymanSample x T ttab nT freq cdf nF = _
  unfold lymanSample
  simp only
  show _ = (1 - (clampT T ttab nT - ttab (locate (clampT T ttab nT) ttab nT)) /
      (ttab (locate (clampT T ttab nT) ttab nT + 1) - ttab (locate (clampT T ttab nT) ttab nT))) * _ +
    (clampT T ttab nT - ttab (locate (clampT T ttab nT) ttab nT)) /
      (ttab (locate (clampT T ttab nT) ttab nT + 1) - ttab (locate (clampT T ttab nT) ttab nT)) * _
  field_simp
  ring

/-- uniform spectrum: `u ∈ [0, 1)` ↦ `[ν₀, 4 ν₀)` -/
theorem uniformSample_mem (x : ℝ) (h0 : 0 ≤ x) (h1 : x < 1) :
    (3.289e15 : ℝ) ≤ uniformSample x ∧ uniformSample x < 4 * 3.289e15 := by
  unfold uniformSample
  constructor <;> norm_num <;> nlinarith

end CMacVerif.Locate
