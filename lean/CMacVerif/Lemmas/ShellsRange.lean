import CMacVerif.Lemmas.Shells
/-! `set_max_range` returns the last block and `increase_range` finds the next block (C16);
restated in `Props/C16.lean`. -/
namespace CMacVerif.Shells

/-- `set_max_range` on a cubic bucket grid (`PointLocations` always builds `ncell_1D³`):
the returned offset lies inside the grid, is visited by the traversal, and every block inside
the grid is visited no later; the returned level is its level. -/
theorem max_range_is_last_aux (ax ay az s : Int)
    (hx : 0 ≤ ax ∧ ax < s) (hy : 0 ≤ ay ∧ ay < s) (hz : 0 ≤ az ∧ az < s) :
    Inside ax ay az s s s (setMaxRange ax ay az s s s) ∧
    ∃ N : Nat, iter N = setMaxRange ax ay az s s s ∧
      ∀ n : Nat, Inside ax ay az s s s (iter n) → n ≤ N := by
  have e := setMaxRange_eq ax ay az s
  have h1 := isMax_imax ax (s - ax - 1)
  have h2 := isMax_imax ay (s - ay - 1)
  have h3 := isMax_imax az (s - az - 1)
  have h4 := isMax_imax (imax ax (s - ax - 1)) (imax ay (s - ay - 1))
  have h5 := isMax_imax (imax (imax ax (s - ax - 1)) (imax ay (s - ay - 1))) (imax az (s - az - 1))
  have hin := choice_inside ax ay az s _ _ _ _ _ hx hy hz h1 h2 h3 h4 h5
  have hg := choice_good ax ay az s _ _ _ _ _ hx hy hz h1 h2 h3 h4 h5
  rw [← e] at hin hg
  obtain ⟨N, hN⟩ := iter_surjective _ hg
  refine ⟨hin, N, hN, fun n hn => ?_⟩
  by_contra hlt
  have := iter_strictMono (Nat.lt_of_not_le hlt)
  rw [hN, e] at this
  exact choice_last ax ay az s _ _ _ _ _ hx hy hz h1 h2 h3 h4 h5 (iter n) (good_iter n) hn this

/-- `increase_range`: from a block inside the grid that is not the last one, the skipping loop
stops (for every sufficiently large fuel) on the next block of the traversal that lies inside
the grid; the level grows by at most one. -/
theorem increase_range_next_aux (ax ay az s : Int)
    (hx : 0 ≤ ax ∧ ax < s) (hy : 0 ≤ ay ∧ ay < s) (hz : 0 ≤ az ∧ az < s) (k : Nat)
    (hne : ¬ ((iter k).rx = (setMaxRange ax ay az s s s).rx ∧ (iter k).ry = (setMaxRange ax ay az s s s).ry
      ∧ (iter k).rz = (setMaxRange ax ay az s s s).rz))
    (hk : Inside ax ay az s s s (iter k)) :
    ∃ k' : Nat, k < k' ∧ Inside ax ay az s s s (iter k') ∧
      (∀ j, k < j → j < k' → ¬ Inside ax ay az s s s (iter j)) ∧
      (iter k').level ≤ (iter k).level + 1 ∧
      ∀ fuel, k' - k ≤ fuel →
        increaseRange ax ay az s s s (setMaxRange ax ay az s s s) fuel (iter k) = .next (iter k') := by
  classical
  obtain ⟨hmin, N, hN, hlast⟩ := max_range_is_last_aux ax ay az s hx hy hz
  have hkN : k < N := by
    rcases Nat.lt_or_ge k N with h | h
    · exact h
    · have : k = N := le_antisymm (hlast k hk) h
      subst this; rw [hN] at hne; exact absurd ⟨rfl, rfl, rfl⟩ hne
  have hex : ∃ d, Inside ax ay az s s s (iter (k + 1 + d)) :=
    ⟨N - (k + 1), by rw [show k + 1 + (N - (k + 1)) = N by omega, hN]; exact hmin⟩
  let d := Nat.find hex
  have hd : Inside ax ay az s s s (iter (k + 1 + d)) := Nat.find_spec hex
  have hout : ∀ j, k + 1 ≤ j → j < k + 1 + d → ¬ Inside ax ay az s s s (iter j) := by
    intro j h1 h2 hj
    have := Nat.find_min hex (m := j - (k + 1)) (by omega)
    rw [show k + 1 + (j - (k + 1)) = j by omega] at this
    exact this hj
  refine ⟨k + 1 + d, by omega, hd, fun j h1 h2 => hout j (by omega) h2, ?_, ?_⟩
  · -- no level is skipped: every level up to the last contains a block inside the grid
    by_contra hcon
    have e := setMaxRange_eq ax ay az s
    have h1 := isMax_imax ax (s - ax - 1)
    have h2 := isMax_imax ay (s - ay - 1)
    have h3 := isMax_imax az (s - az - 1)
    have h4 := isMax_imax (imax ax (s - ax - 1)) (imax ay (s - ay - 1))
    have h5 := isMax_imax (imax (imax ax (s - ax - 1)) (imax ay (s - ay - 1))) (imax az (s - az - 1))
    have hle := inside_level_le ax ay az s _ _ _ _ _ hx hy hz h1 h2 h3 h4 h5 _ (good_iter (k + 1 + d)) hd
    have h0 : 0 ≤ (iter k).level := by
      have := good_iter k; unfold Good at this; rw [← this]; exact maxNorm_nonneg _ _ _
    obtain ⟨c, hcg, hcin, hcl⟩ := exists_inside_level ax ay az s _ _ _ _ _ hx hy hz h1 h2 h3 h4 h5
      ((iter k).level + 1) (by omega) (by omega)
    obtain ⟨j, hj⟩ := iter_surjective c hcg
    have hkj : k < j := by
      by_contra hh
      have := level_mono (Nat.le_of_not_lt hh); rw [hj, hcl] at this; omega
    have hjk : j < k + 1 + d := by
      by_contra hh
      have := level_mono (Nat.le_of_not_lt hh); rw [hj, hcl] at this; omega
    exact hout j (by omega) hjk (hj ▸ hcin)
  · intro fuel hf
    unfold increaseRange
    rw [if_neg hne]
    have := skipOutside_reaches ax ay az s s s d (k + 1) fuel hout hd (by omega)
    show (match skipOutside ax ay az s s s fuel (increaseIndices (iter k)) with
      | some s' => RangeStep.next s' | none => RangeStep.fuelOut) = _
    rw [show increaseIndices (iter k) = iter (k + 1) from rfl, this]


end CMacVerif.Shells
