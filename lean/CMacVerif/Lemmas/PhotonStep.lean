import CMacVerif.Lemmas.PhotonBasic
/-! Inversion lemmas for `Photon.step` (C01): what each enabled label requires and produces. -/
namespace CMacVerif.Photon

/-! ### references after updates of the task table / the active entries -/

def optKindBuf : Option Task → Option Nat
  | some tk => kindBuf tk.kind
  | none => none

theorem refBuf_tasks_upd {s s' : State} {t : Nat} {v : Option Task}
    (ht : s'.tasks = upd s.tasks t v) (ha : s'.active = s.active) (x : Ref) :
    refBuf s' x = if x = .task t then optKindBuf v else refBuf s x := by
  cases x with
  | task u =>
    simp only [refBuf, ht]
    by_cases e : u = t
    · subst e; simp only [upd_same, if_true]; cases v <;> rfl
    · rw [upd_other _ _ _ e]
      have : (Ref.task u = Ref.task t) = False := by simp [e]
      simp only [this, if_false]
  | act g i => simp [refBuf, ha]

theorem refBuf_active_upd {s s' : State} {g i : Nat} {v : Option Nat}
    (ht : s'.tasks = s.tasks) (ha : s'.active = upd2 s.active g i v) (x : Ref) :
    refBuf s' x = if x = .act g i then v else refBuf s x := by
  cases x with
  | task u => simp [refBuf, ht]
  | act g' i' =>
    simp only [refBuf, ha]
    by_cases e : g' = g ∧ i' = i
    · obtain ⟨e1, e2⟩ := e; subst e1; subst e2; simp
    · rw [upd2_other _ _ _ _ e]
      have : (Ref.act g' i' = Ref.act g i) = False := by
        simp only [Ref.act.injEq, eq_iff_iff, iff_false]; exact e
      simp only [this, if_false]

theorem refBuf_congr {s s' : State} (ht : s'.tasks = s.tasks) (ha : s'.active = s.active) (x : Ref) :
    refBuf s' x = refBuf s x := by
  cases x <;> simp [refBuf, ht, ha]

/-- the references as a function of the task table and the active entries only -/
def refBufF (tasks : Nat → Option Task) (active : Nat → Nat → Option Nat) : Ref → Option Nat
  | .task t => optKindBuf (tasks t)
  | .act g i => active g i

theorem refBuf_eq (s : State) (x : Ref) : refBuf s x = refBufF s.tasks s.active x := by
  cases x with
  | task t => simp only [refBuf, refBufF, optKindBuf]; cases s.tasks t <;> rfl
  | act g i => rfl

theorem refBufF_upd_tasks (tasks : Nat → Option Task) (active : Nat → Nat → Option Nat) (t : Nat) (v : Option Task)
    (x : Ref) : refBufF (upd tasks t v) active x = if x = .task t then optKindBuf v else refBufF tasks active x := by
  cases x with
  | task u =>
    simp only [refBufF]
    by_cases e : u = t
    · subst e; simp
    · rw [upd_other _ _ _ e]
      have : (Ref.task u = Ref.task t) = False := by simp [e]
      simp only [this, if_false]
  | act g i => simp [refBufF]

theorem refBufF_upd_active (tasks : Nat → Option Task) (active : Nat → Nat → Option Nat) (g i : Nat) (v : Option Nat)
    (x : Ref) : refBufF tasks (upd2 active g i v) x = if x = .act g i then v else refBufF tasks active x := by
  cases x with
  | task u => simp [refBufF]
  | act g' i' =>
    simp only [refBufF]
    by_cases e : g' = g ∧ i' = i
    · obtain ⟨e1, e2⟩ := e; subst e1; subst e2; simp
    · rw [upd2_other _ _ _ _ e]
      have : (Ref.act g' i' = Ref.act g i) = False := by
        simp only [Ref.act.injEq, eq_iff_iff, iff_false]; exact e
      simp only [this, if_false]

@[simp] theorem optKindBuf_none : optKindBuf none = none := rfl
@[simp] theorem optKindBuf_some (k : Kind) (st : TSt) : optKindBuf (some ⟨k, st⟩) = kindBuf k := rfl
@[simp] theorem kindBuf_trav (b : Nat) : kindBuf (.traverse b) = some b := rfl
@[simp] theorem kindBuf_reemit (b : Nat) : kindBuf (.reemit b) = some b := rfl
@[simp] theorem kindBuf_source (a : Nat) (l : List Nat) : kindBuf (.source a l) = none := rfl
@[simp] theorem kindBuf_cont (a n : Nat) (l : List Nat) : kindBuf (.contSource a n l) = none := rfl
@[simp] theorem kindBuf_flush (a : Nat) : kindBuf (.flush a) = none := rfl

/-- a task is replaced by one that refers to the same buffer (or both to none) -/
theorem own_task_same {cfg : Cfg} {s s' : State} (h : Own cfg s) {t : Nat} {v : Option Task}
    (hp : s'.pool = s.pool) (ha : s'.active = s.active) (ht : s'.tasks = upd s.tasks t v)
    (hv : optKindBuf v = refBuf s (.task t)) : Own cfg s' := by
  apply own_same h hp
  intro x
  rw [refBuf_tasks_upd ht ha]
  by_cases e : x = .task t
  · rw [if_pos e, hv, e]
  · rw [if_neg e]

/-! ### inversion of the simple labels -/

theorem step_launchBatch {cfg : Cfg} {s s' : State} {src t : Nat} (h : step cfg s (.launchBatch src t) = some s') :
    src < cfg.nsrc ∧ s.srcLeft src ≠ [] ∧ t < cfg.taskCap ∧ s.tasks t = none ∧
    s' = { s with srcLeft := upd s.srcLeft src ((s.srcLeft src).drop BUFSZ),
                  tasks := upd s.tasks t (some ⟨.source src ((s.srcLeft src).take BUFSZ), .queued⟩) } := by
  simp only [step] at h
  split_ifs at h with hg
  obtain ⟨h1, h2, h3⟩ := hg
  injection h with h
  have h3' := (taskFree_iff cfg s t).mp h3
  refine ⟨h1, ?_, h3'.1, h3'.2, h.symm⟩
  intro e; rw [e] at h2; simp at h2

theorem step_launchCont {cfg : Cfg} {s s' : State} {t : Nat} (h : step cfg s (.launchCont t) = some s') :
    s.contPool ≠ [] ∧ t < cfg.taskCap ∧ s.tasks t = none ∧ 0 < cfg.nblocks ∧
    s' = { s with contPool := s.contPool.drop BUFSZ, contBlock := s.contBlock + 1,
                  tasks := upd s.tasks t (some ⟨.contSource (s.contBlock % cfg.nblocks)
                    (s.contPool.take BUFSZ).length (s.contPool.take BUFSZ), .queued⟩) } := by
  simp only [step] at h
  split_ifs at h with hg
  obtain ⟨h1, h2, h3⟩ := hg
  injection h with h
  have h2' := (taskFree_iff cfg s t).mp h2
  refine ⟨?_, h2'.1, h2'.2, h3, h.symm⟩
  intro e; rw [e] at h1; simp at h1

theorem step_acquire {cfg : Cfg} {s s' : State} {t : Nat} (h : step cfg s (.acquire t) = some s') :
    ∃ k, s.tasks t = some ⟨k, .queued⟩ ∧ (∀ l, lockOf s.pool k = some l → lockHeld cfg s l = false) ∧
      s' = { s with tasks := upd s.tasks t (some ⟨k, .running⟩) } := by
  simp only [step] at h
  split at h
  · rename_i k hk
    refine ⟨k, hk, ?_⟩
    split at h
    · rename_i l hl
      split_ifs at h with hh
      injection h with h
      refine ⟨?_, h.symm⟩
      intro l' hl'; rw [hl] at hl'; injection hl' with hl'; subst hl'; simpa using hh
    · rename_i hl
      injection h with h
      exact ⟨(by intro l hl'; rw [hl] at hl'; cases hl'), h.symm⟩
  · cases h

theorem step_enqueue {cfg : Cfg} {s s' : State} {t : Nat} (h : step cfg s (.enqueue t) = some s') :
    ∃ k, s.tasks t = some ⟨k, .pending⟩ ∧ s' = { s with tasks := upd s.tasks t (some ⟨k, .queued⟩) } := by
  simp only [step] at h
  split at h
  · rename_i k hk; injection h with h; exact ⟨k, hk, h.symm⟩
  · cases h

theorem step_execSource {cfg : Cfg} {s s' : State} {t b t' : Nat} (h : step cfg s (.execSource t b t') = some s') :
    ∃ src ids, s.tasks t = some ⟨.source src ids, .running⟩ ∧ b < cfg.bufCap ∧ s.pool b = none ∧
      t' < cfg.taskCap ∧ s.tasks t' = none ∧
      s' = { s with pool := upd s.pool b (some ⟨cfg.srcSub src, 0, ids⟩),
                    tasks := upd (upd s.tasks t' (some ⟨.traverse b, .pending⟩)) t none } := by
  simp only [step] at h
  split at h
  · rename_i src ids hk
    split_ifs at h with hg
    injection h with h
    simp only [Bool.and_eq_true] at hg
    have h1 := (bufFree_iff cfg s b).mp hg.1
    have h2 := (taskFree_iff cfg s t').mp hg.2
    exact ⟨src, ids, hk, h1.1, h1.2, h2.1, h2.2, h.symm⟩
  · cases h

theorem step_contGen {cfg : Cfg} {s s' : State} {t g k : Nat} (h : step cfg s (.contGen t g k) = some s') :
    ∃ c n ids, s.tasks t = some ⟨.contSource c n ids, .running⟩ ∧ 0 < k ∧ k ≤ ids.length ∧ g < cfg.norig ∧
      c < cfg.nblocks ∧ (s.cont (c, g)).length + k ≤ BUFSZ ∧
      s' = { s with cont := updP s.cont (c, g) (s.cont (c, g) ++ ids.take k),
                    tasks := upd s.tasks t (some ⟨.contSource c n (ids.drop k), .running⟩) } := by
  simp only [step] at h
  split at h
  · rename_i c n ids hk
    split_ifs at h with hg
    injection h with h
    obtain ⟨h1, h2, h3, h4, h5⟩ := hg
    exact ⟨c, n, ids, hk, h1, h2, h3, h4, h5, h.symm⟩
  · cases h

theorem step_contOverflow {cfg : Cfg} {s s' : State} {t g b t' : Nat} (h : step cfg s (.contOverflow t g b t') = some s') :
    ∃ c n ids, s.tasks t = some ⟨.contSource c n ids, .running⟩ ∧ (s.cont (c, g)).length = BUFSZ ∧
      b < cfg.bufCap ∧ s.pool b = none ∧ t' < cfg.taskCap ∧ s.tasks t' = none ∧
      s' = { s with cont := updP s.cont (c, g) [],
                    pool := upd s.pool b (some ⟨g, 0, s.cont (c, g)⟩),
                    tasks := upd s.tasks t' (some ⟨.traverse b, .queued⟩) } := by
  simp only [step] at h
  split at h
  · rename_i c n ids hk
    split_ifs at h with hg
    injection h with h
    obtain ⟨h1, h2, h3⟩ := hg
    have h2' := (bufFree_iff cfg s b).mp h2
    have h3' := (taskFree_iff cfg s t').mp h3
    exact ⟨c, n, ids, hk, h1, h2'.1, h2'.2, h3'.1, h3'.2, h.symm⟩
  · cases h

theorem step_flushOne {cfg : Cfg} {s s' : State} {t g b t' : Nat} (h : step cfg s (.flushOne t g b t') = some s') :
    ∃ c, s.tasks t = some ⟨.flush c, .running⟩ ∧ s.cont (c, g) ≠ [] ∧ g < cfg.norig ∧
      b < cfg.bufCap ∧ s.pool b = none ∧ t' < cfg.taskCap ∧ s.tasks t' = none ∧
      s' = { s with cont := updP s.cont (c, g) [],
                    pool := upd s.pool b (some ⟨g, 0, s.cont (c, g)⟩),
                    tasks := upd s.tasks t' (some ⟨.traverse b, .queued⟩) } := by
  simp only [step] at h
  split at h
  · rename_i c hk
    split_ifs at h with hg
    injection h with h
    obtain ⟨h1, h2, h3, h4⟩ := hg
    have h3' := (bufFree_iff cfg s b).mp h3
    have h4' := (taskFree_iff cfg s t').mp h4
    refine ⟨c, hk, ?_, h2, h3'.1, h3'.2, h4'.1, h4'.2, h.symm⟩
    intro e; rw [e] at h1; simp at h1
  · cases h

theorem step_flushFinish {cfg : Cfg} {s s' : State} {t : Nat} (h : step cfg s (.flushFinish t) = some s') :
    ∃ c, s.tasks t = some ⟨.flush c, .running⟩ ∧ (∀ g, g < cfg.norig → s.cont (c, g) = []) ∧
      s' = { s with tasks := upd s.tasks t none } := by
  simp only [step] at h
  split at h
  · rename_i c hk
    split_ifs at h with hg
    injection h with h
    refine ⟨c, hk, ?_, h.symm⟩
    intro g hg'
    have := List.all_eq_true.mp hg g (List.mem_range.mpr hg')
    simpa using this
  · cases h

theorem step_execReemit {cfg : Cfg} {s s' : State} {t t' : Nat} {keep : List Bool}
    (h : step cfg s (.execReemit t keep t') = some s') :
    ∃ b buf, s.tasks t = some ⟨.reemit b, .running⟩ ∧ s.pool b = some buf ∧ keep.length = buf.ids.length ∧
      ((((buf.ids.zip keep).filter (·.2)).map (·.1) = [] ∧
        s' = { s with done := s.done ++ ((buf.ids.zip keep).filter (fun p => !p.2)).map (·.1),
                      pool := upd s.pool b none, tasks := upd s.tasks t none }) ∨
       (((buf.ids.zip keep).filter (·.2)).map (·.1) ≠ [] ∧ t' < cfg.taskCap ∧ s.tasks t' = none ∧
        s' = { s with done := s.done ++ ((buf.ids.zip keep).filter (fun p => !p.2)).map (·.1),
                      pool := upd s.pool b (some { buf with ids := ((buf.ids.zip keep).filter (·.2)).map (·.1) }),
                      tasks := upd (upd s.tasks t' (some ⟨.traverse b, .pending⟩)) t none })) := by
  simp only [step] at h
  split at h
  · rename_i b hk
    split at h
    · rename_i buf hb
      split_ifs at h with hl he hf
      · injection h with h
        exact ⟨b, buf, hk, hb, hl, Or.inl ⟨by simpa using he, h.symm⟩⟩
      · injection h with h
        have hf' := (taskFree_iff cfg s t').mp hf
        exact ⟨b, buf, hk, hb, hl, Or.inr ⟨by simpa using he, hf'.1, hf'.2, h.symm⟩⟩
    · cases h
  · cases h

theorem step_premature {cfg : Cfg} {s s' : State} {g t' : Nat} (h : step cfg s (.premature g t') = some s') :
    ∃ b, (s.largest g).1 ≠ NDIR ∧ 0 < (s.largest g).2 ∧ lockHeld cfg s (.sub g) = false ∧
      t' < cfg.taskCap ∧ s.tasks t' = none ∧ s.active g (s.largest g).1 = some b ∧
      s' = { s with active := upd2 s.active g (s.largest g).1 none,
                    tasks := upd s.tasks t' (some ⟨fullKind (s.largest g).1 b, .queued⟩),
                    largest := upd s.largest g (recomputeLargest
                      { s with active := upd2 s.active g (s.largest g).1 none,
                               tasks := upd s.tasks t' (some ⟨fullKind (s.largest g).1 b, .queued⟩) } g) } := by
  simp only [step] at h
  by_cases hg : ((s.largest g).1 ≠ NDIR ∧ 0 < (s.largest g).2 ∧ (!lockHeld cfg s (.sub g)) = true ∧ taskFree cfg s t' = true)
  · rw [if_pos hg] at h
    obtain ⟨h1, h2, h3, h4⟩ := hg
    split at h
    · rename_i b hb
      injection h with h
      have h4' := (taskFree_iff cfg s t').mp h4
      exact ⟨b, h1, h2, by simpa using h3, h4'.1, h4'.2, hb, h.symm⟩
    · cases h
  · rw [if_neg hg] at h; cases h

theorem step_checkTermination {cfg : Cfg} {s s' : State} (h : step cfg s .checkTermination = some s') :
    poolEmpty cfg s = true ∧ s.done.length = cfg.N ∧ s' = { s with run := false } := by
  simp only [step] at h
  split_ifs at h with hg
  injection h with h
  exact ⟨hg.1, hg.2, h.symm⟩

end CMacVerif.Photon
