import CMacVerif.Lemmas.CartesianRay
/-! `get_wall_intersection` of the Cartesian grid in exact arithmetic (C16). -/
namespace CMacVerif.Cartesian
open CMacVerif.GridNum

theorem fmin_real (a b : ℝ) : fmin a b = min a b := by
  unfold fmin; split_ifs with h
  · exact (min_eq_right h.le).symm
  · exact (min_eq_left (not_lt.mp h)).symm

theorem feq_real (a b : ℝ) : feq a b = true ↔ a = b := by
  unfold feq
  simp only [Bool.and_eq_true, Bool.not_eq_true', decide_eq_false_iff_not, not_lt]
  constructor
  · rintro ⟨h1, h2⟩; exact le_antisymm h2 h1
  · rintro rfl; exact ⟨le_refl _, le_refl _⟩

/-- one axis of `get_wall_intersection`: the candidate distance is non-negative and leads exactly
to the wall in the direction of travel -/
theorem wallDist_spec (big o d inv bottom top : ℝ) (h1 : bottom ≤ o) (h2 : o ≤ top) (hinv : d ≠ 0 → inv = 1 / d) :
    (0 < d → 0 ≤ wallDist big o d inv bottom top ∧ o + d * wallDist big o d inv bottom top = top) ∧
    (d < 0 → 0 ≤ wallDist big o d inv bottom top ∧ o + d * wallDist big o d inv bottom top = bottom) ∧
    (d = 0 → wallDist big o d inv bottom top = big) := by
  unfold wallDist
  simp only [zero_lit]
  refine ⟨fun hd => ?_, fun hd => ?_, fun hd => ?_⟩
  · rw [if_pos hd, hinv hd.ne']
    constructor
    · exact mul_nonneg (by linarith) (by positivity)
    · field_simp; ring
  · rw [if_neg (not_lt.mpr hd.le), if_pos hd, hinv hd.ne]
    have hd' : d ≠ 0 := hd.ne
    constructor
    · have e : (bottom - o) * (1 / d) = (o - bottom) * (1 / -d) := by
        field_simp; ring
      rw [e]
      have hnd : 0 < -d := by linarith
      have : 0 ≤ 1 / -d := by positivity
      exact mul_nonneg (by linarith) this
    · field_simp; ring
  · subst hd
    simp

/-- moving by `0 ≤ ds ≤ candidate` keeps the coordinate inside the cell -/
theorem axis_stays (big o d inv bottom top ds : ℝ) (h1 : bottom ≤ o) (h2 : o ≤ top) (hinv : d ≠ 0 → inv = 1 / d)
    (h0 : 0 ≤ ds) (hle : d ≠ 0 → ds ≤ wallDist big o d inv bottom top) :
    bottom ≤ o + d * ds ∧ o + d * ds ≤ top := by
  obtain ⟨hp, hn, _⟩ := wallDist_spec big o d inv bottom top h1 h2 hinv
  rcases lt_trichotomy d 0 with hd | hd | hd
  · obtain ⟨_, e⟩ := hn hd
    have := hle hd.ne
    constructor
    · have : d * wallDist big o d inv bottom top ≤ d * ds := mul_le_mul_of_nonpos_left this hd.le
      linarith
    · have : d * ds ≤ 0 := mul_nonpos_of_nonpos_of_nonneg hd.le h0
      linarith
  · rw [hd]; constructor <;> linarith
  · obtain ⟨_, e⟩ := hp hd
    have := hle hd.ne'
    constructor
    · have : 0 ≤ d * ds := mul_nonneg hd.le h0
      linarith
    · have : d * ds ≤ d * wallDist big o d inv bottom top := mul_le_mul_of_nonneg_left this hd.le
      linarith

/-- closed box membership -/
def ClosedIn (b : Box3 ℝ) (p : V3 ℝ) : Prop :=
  b.ax ≤ p.x ∧ p.x ≤ b.ax + b.sx ∧ b.ay ≤ p.y ∧ p.y ≤ b.ay + b.sy ∧ b.az ≤ p.z ∧ p.z ≤ b.az + b.sz

/-- `get_wall_intersection` in exact arithmetic: from a point of the closed cell, along a
non-zero direction, the distance is ≥ 0, the intersection point lies in the closed cell, and an
index offset ±1 on an axis means the point lies on the upper/lower wall of that axis in the
direction of travel; at least one offset is non-zero -/
theorem wallIntersection_spec (big : ℝ) (o d inv : V3 ℝ) (cell : Box3 ℝ) (ho : ClosedIn cell o)
    (hix : d.x ≠ 0 → inv.x = 1 / d.x) (hiy : d.y ≠ 0 → inv.y = 1 / d.y) (hiz : d.z ≠ 0 → inv.z = 1 / d.z)
    (hd : d.x ≠ 0 ∨ d.y ≠ 0 ∨ d.z ≠ 0)
    (hbx : d.x ≠ 0 → wallDist big o.x d.x inv.x cell.ax (cell.ax + cell.sx) < big)
    (hby : d.y ≠ 0 → wallDist big o.y d.y inv.y cell.ay (cell.ay + cell.sy) < big)
    (hbz : d.z ≠ 0 → wallDist big o.z d.z inv.z cell.az (cell.az + cell.sz) < big) :
    let w := wallIntersection big o d inv cell
    0 ≤ w.2.2 ∧ ClosedIn cell w.1 ∧
    (w.2.1.x = 1 → 0 < d.x ∧ w.1.x = cell.ax + cell.sx) ∧ (w.2.1.x = -1 → d.x < 0 ∧ w.1.x = cell.ax) ∧
    (w.2.1.y = 1 → 0 < d.y ∧ w.1.y = cell.ay + cell.sy) ∧ (w.2.1.y = -1 → d.y < 0 ∧ w.1.y = cell.ay) ∧
    (w.2.1.z = 1 → 0 < d.z ∧ w.1.z = cell.az + cell.sz) ∧ (w.2.1.z = -1 → d.z < 0 ∧ w.1.z = cell.az) ∧
    (w.2.1.x ≠ 0 ∨ w.2.1.y ≠ 0 ∨ w.2.1.z ≠ 0) := by
  intro w
  obtain ⟨x1, x2, y1, y2, z1, z2⟩ := ho
  set dx := wallDist big o.x d.x inv.x cell.ax (cell.ax + cell.sx) with hdx
  set dy := wallDist big o.y d.y inv.y cell.ay (cell.ay + cell.sy) with hdy
  set dz := wallDist big o.z d.z inv.z cell.az (cell.az + cell.sz) with hdz
  obtain ⟨xp, xn, xz⟩ := wallDist_spec big o.x d.x inv.x cell.ax (cell.ax + cell.sx) x1 x2 hix
  obtain ⟨yp, yn, yz⟩ := wallDist_spec big o.y d.y inv.y cell.ay (cell.ay + cell.sy) y1 y2 hiy
  obtain ⟨zp, zn, zz⟩ := wallDist_spec big o.z d.z inv.z cell.az (cell.az + cell.sz) z1 z2 hiz
  have hds : w.2.2 = min dx (min dy dz) := by
    show fmin dx (fmin dy dz) = _
    rw [fmin_real, fmin_real]
  have hwx : w.1.x = o.x + d.x * w.2.2 := rfl
  have hwy : w.1.y = o.y + d.y * w.2.2 := rfl
  have hwz : w.1.z = o.z + d.z * w.2.2 := rfl
  have hnx : w.2.1.x = nextIdx dx w.2.2 d.x := rfl
  have hny : w.2.1.y = nextIdx dy w.2.2 d.y := rfl
  have hnz : w.2.1.z = nextIdx dz w.2.2 d.z := rfl
  -- every candidate is ≥ 0; a candidate of a moving axis is < big; ds is below all of them
  have big0 : 0 ≤ big := by
    rcases hd with h | h | h
    · rcases lt_or_gt_of_ne h with h' | h'
      · exact le_trans (xn h').1 (hbx h).le
      · exact le_trans (xp h').1 (hbx h).le
    · rcases lt_or_gt_of_ne h with h' | h'
      · exact le_trans (yn h').1 (hby h).le
      · exact le_trans (yp h').1 (hby h).le
    · rcases lt_or_gt_of_ne h with h' | h'
      · exact le_trans (zn h').1 (hbz h).le
      · exact le_trans (zp h').1 (hbz h).le
  have cand0 : ∀ (dd cand : ℝ), (0 < dd → 0 ≤ cand) → (dd < 0 → 0 ≤ cand) → (dd = 0 → cand = big) → 0 ≤ cand := by
    intro dd cand a b c
    rcases lt_trichotomy dd 0 with h | h | h
    · exact b h
    · rw [c h]; exact big0
    · exact a h
  have dx0 : 0 ≤ dx := cand0 d.x dx (fun h => (xp h).1) (fun h => (xn h).1) xz
  have dy0 : 0 ≤ dy := cand0 d.y dy (fun h => (yp h).1) (fun h => (yn h).1) yz
  have dz0 : 0 ≤ dz := cand0 d.z dz (fun h => (zp h).1) (fun h => (zn h).1) zz
  have ds0 : 0 ≤ w.2.2 := by rw [hds]; exact le_min dx0 (le_min dy0 dz0)
  have lex : w.2.2 ≤ dx := by rw [hds]; exact min_le_left _ _
  have ley : w.2.2 ≤ dy := by rw [hds]; exact le_trans (min_le_right _ _) (min_le_left _ _)
  have lez : w.2.2 ≤ dz := by rw [hds]; exact le_trans (min_le_right _ _) (min_le_right _ _)
  have ltbig : w.2.2 < big := by
    rcases hd with h | h | h
    · exact lt_of_le_of_lt lex (hbx h)
    · exact lt_of_le_of_lt ley (hby h)
    · exact lt_of_le_of_lt lez (hbz h)
  obtain ⟨sx1, sx2⟩ := axis_stays big o.x d.x inv.x cell.ax (cell.ax + cell.sx) w.2.2 x1 x2 hix ds0 (fun _ => lex)
  obtain ⟨sy1, sy2⟩ := axis_stays big o.y d.y inv.y cell.ay (cell.ay + cell.sy) w.2.2 y1 y2 hiy ds0 (fun _ => ley)
  obtain ⟨sz1, sz2⟩ := axis_stays big o.z d.z inv.z cell.az (cell.az + cell.sz) w.2.2 z1 z2 hiz ds0 (fun _ => lez)
  -- the offset of one axis
  have axis : ∀ (dd cand oo bottom top : ℝ), (0 < dd → oo + dd * cand = top) → (dd < 0 → oo + dd * cand = bottom) →
      (dd = 0 → cand = big) →
      (nextIdx cand w.2.2 dd = 1 → 0 < dd ∧ oo + dd * w.2.2 = top) ∧
      (nextIdx cand w.2.2 dd = -1 → dd < 0 ∧ oo + dd * w.2.2 = bottom) := by
    intro dd cand oo bottom top a b c
    unfold nextIdx
    simp only [zero_lit]
    by_cases he : feq cand w.2.2 = true
    · have e := (feq_real _ _).1 he
      rw [if_pos he]
      by_cases hp : dd > 0
      · rw [if_pos hp]
        exact ⟨fun _ => ⟨hp, by rw [← e]; exact a hp⟩, fun h => by omega⟩
      · rw [if_neg hp]
        refine ⟨fun h => by omega, fun _ => ?_⟩
        rcases lt_or_eq_of_le (not_lt.mp hp) with h | h
        · exact ⟨h, by rw [← e]; exact b h⟩
        · exfalso; have := c h; rw [e] at this; linarith
    · rw [if_neg he]
      exact ⟨fun h => by omega, fun h => by omega⟩
  obtain ⟨ax1, ax2⟩ := axis d.x dx o.x cell.ax (cell.ax + cell.sx) (fun h => (xp h).2) (fun h => (xn h).2) xz
  obtain ⟨ay1, ay2⟩ := axis d.y dy o.y cell.ay (cell.ay + cell.sy) (fun h => (yp h).2) (fun h => (yn h).2) yz
  obtain ⟨az1, az2⟩ := axis d.z dz o.z cell.az (cell.az + cell.sz) (fun h => (zp h).2) (fun h => (zn h).2) zz
  refine ⟨ds0, ⟨sx1, sx2, sy1, sy2, sz1, sz2⟩, ?_, ?_, ?_, ?_, ?_, ?_, ?_⟩
  · rw [hnx, hwx]; exact ax1
  · rw [hnx, hwx]; exact ax2
  · rw [hny, hwy]; exact ay1
  · rw [hny, hwy]; exact ay2
  · rw [hnz, hwz]; exact az1
  · rw [hnz, hwz]; exact az2
  · -- the minimum is attained by one of the three candidates
    have hmin : w.2.2 = dx ∨ w.2.2 = dy ∨ w.2.2 = dz := by
      rw [hds]
      rcases min_choice dx (min dy dz) with h | h
      · exact Or.inl h
      · rw [h]; rcases min_choice dy dz with h' | h'
        · exact Or.inr (Or.inl h')
        · exact Or.inr (Or.inr h')
    have nz : ∀ (dd cand : ℝ), w.2.2 = cand → (dd = 0 → cand = big) → nextIdx cand w.2.2 dd ≠ 0 := by
      intro dd cand e c
      unfold nextIdx
      rw [if_pos ((feq_real _ _).2 e.symm)]
      split_ifs <;> omega
    rcases hmin with h | h | h
    · exact Or.inl (by rw [hnx]; exact nz d.x dx h xz)
    · exact Or.inr (Or.inl (by rw [hny]; exact nz d.y dy h yz))
    · exact Or.inr (Or.inr (by rw [hnz]; exact nz d.z dz h zz))
end CMacVerif.Cartesian
