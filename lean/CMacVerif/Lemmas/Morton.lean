import CMacVerif.Model.Morton
import Mathlib.Tactic.Ring
import Mathlib.Tactic.Linarith
/-! Helper lemmas for the Morton key model (C16). -/
namespace CMacVerif.Morton

theorem bitAt_le (v i : Nat) : bitAt v i ≤ 1 := by
  unfold bitAt; omega

theorem bitAt_zero (v : Nat) : bitAt v 0 = v % 2 := by simp [bitAt]

theorem bitAt_succ (v i : Nat) : bitAt (v / 2) i = bitAt v (i + 1) := by
  unfold bitAt
  rw [Nat.div_div_eq_div_mul, pow_succ, Nat.mul_comm]

theorem digit_le (x y z i : Nat) : digit x y z i ≤ 7 := by
  unfold digit
  have := bitAt_le x i; have := bitAt_le y i; have := bitAt_le z i
  omega

/-- the top group splits off: the MSB-first view of `spread` -/
theorem spread_succ_top (n : Nat) : ∀ x y z : Nat,
    spread (n + 1) x y z = digit x y z n * 8 ^ n + spread n x y z := by
  induction n with
  | zero => intro x y z; simp [spread, digit, bitAt_zero]
  | succ n ih =>
    intro x y z
    have h1 : spread (n + 2) x y z
        = (4 * (x % 2) + 2 * (y % 2) + z % 2) + 8 * spread (n + 1) (x / 2) (y / 2) (z / 2) := rfl
    have h2 : spread (n + 1) x y z
        = (4 * (x % 2) + 2 * (y % 2) + z % 2) + 8 * spread n (x / 2) (y / 2) (z / 2) := rfl
    rw [h1, ih, h2]
    have hd : digit (x / 2) (y / 2) (z / 2) n = digit x y z (n + 1) := by
      simp [digit, bitAt_succ]
    rw [hd, pow_succ]; ring

/-- the loop computes `spread` (with the already accumulated key shifted up) -/
theorem interleaveFrom_eq (n : Nat) : ∀ key x y z : Nat,
    interleaveFrom n key x y z = key * 8 ^ n + spread n x y z := by
  induction n with
  | zero => intro key x y z; simp [interleaveFrom, spread]
  | succ n ih =>
    intro key x y z
    rw [interleaveFrom, ih, spread_succ_top, pow_succ]; ring

theorem mortonKey_eq (x y z : Nat) : mortonKey x y z = spread 21 x y z := by
  simp [mortonKey, interleaveFrom_eq]

theorem spread_lt (n : Nat) : ∀ x y z : Nat, spread n x y z < 8 ^ n := by
  induction n with
  | zero => intro x y z; simp [spread]
  | succ n ih =>
    intro x y z
    have := ih (x / 2) (y / 2) (z / 2)
    simp only [spread, pow_succ]; omega

/-- de-interleaving recovers the low `n` bits of every coordinate -/
theorem unspread_spread (n : Nat) : ∀ x y z : Nat,
    unspread n (spread n x y z) = (x % 2 ^ n, y % 2 ^ n, z % 2 ^ n) := by
  induction n with
  | zero => intro x y z; simp [unspread, Nat.mod_one]
  | succ n ih =>
    intro x y z
    have hk : spread (n + 1) x y z
        = (4 * (x % 2) + 2 * (y % 2) + z % 2) + 8 * spread n (x / 2) (y / 2) (z / 2) := rfl
    have hdiv : spread (n + 1) x y z / 8 = spread n (x / 2) (y / 2) (z / 2) := by
      rw [hk]; omega
    have hmod : spread (n + 1) x y z % 8 = 4 * (x % 2) + 2 * (y % 2) + z % 2 := by
      rw [hk]; omega
    have hmod2 : spread (n + 1) x y z % 2 = z % 2 := by
      rw [hk]; omega
    simp only [unspread, hdiv, ih, hmod, hmod2]
    have ex : x % 2 ^ (n + 1) = x % 2 + 2 * (x / 2 % 2 ^ n) := by rw [pow_succ', Nat.mod_mul]
    have ey : y % 2 ^ (n + 1) = y % 2 + 2 * (y / 2 % 2 ^ n) := by rw [pow_succ', Nat.mod_mul]
    have ez : z % 2 ^ (n + 1) = z % 2 + 2 * (z / 2 % 2 ^ n) := by rw [pow_succ', Nat.mod_mul]
    rw [ex, ey, ez]
    refine Prod.ext ?_ (Prod.ext ?_ ?_) <;> simp only <;> omega

/-- strict monotonicity in the first coordinate -/
theorem spread_strict_x (n : Nat) : ∀ x x' y z : Nat, x < x' → x' < 2 ^ n →
    spread n x y z < spread n x' y z := by
  induction n with
  | zero => intro x x' y z h h'; simp at h'; omega
  | succ n ih =>
    intro x x' y z h h'
    simp only [spread]
    rw [pow_succ] at h'
    by_cases hh : x / 2 < x' / 2
    · have := ih (x / 2) (x' / 2) (y / 2) (z / 2) hh (by omega)
      omega
    · have e : x / 2 = x' / 2 := by omega
      rw [e]; omega

theorem spread_strict_y (n : Nat) : ∀ x y y' z : Nat, y < y' → y' < 2 ^ n →
    spread n x y z < spread n x y' z := by
  induction n with
  | zero => intro x y y' z h h'; simp at h'; omega
  | succ n ih =>
    intro x y y' z h h'
    simp only [spread]
    rw [pow_succ] at h'
    by_cases hh : y / 2 < y' / 2
    · have := ih (x / 2) (y / 2) (y' / 2) (z / 2) hh (by omega)
      omega
    · have e : y / 2 = y' / 2 := by omega
      rw [e]; omega

theorem spread_strict_z (n : Nat) : ∀ x y z z' : Nat, z < z' → z' < 2 ^ n →
    spread n x y z < spread n x y z' := by
  induction n with
  | zero => intro x y z z' h h'; simp at h'; omega
  | succ n ih =>
    intro x y z z' h h'
    simp only [spread]
    rw [pow_succ] at h'
    by_cases hh : z / 2 < z' / 2
    · have := ih (x / 2) (y / 2) (z / 2) (z' / 2) hh (by omega)
      omega
    · have e : z / 2 = z' / 2 := by omega
      rw [e]; omega

end CMacVerif.Morton
