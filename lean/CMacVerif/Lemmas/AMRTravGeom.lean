import CMacVerif.Lemmas.AMRTraverse
/-! Geometry of one step of the AMR traversal over `ℝ` (C16): the wall hit by
`get_wall_intersection`, axis by axis. -/
namespace CMacVerif.AMRT
open CMacVerif.GridNum CMacVerif.AMR

/-! ### axis-indexed accessors -/
def vget (p : V3 ℝ) (a : Nat) : ℝ := if a = 0 then p.x else if a = 1 then p.y else p.z
def blo (b : Box3 ℝ) (a : Nat) : ℝ := if a = 0 then b.ax else if a = 1 then b.ay else b.az
def bsd (b : Box3 ℝ) (a : Nat) : ℝ := if a = 0 then b.sx else if a = 1 then b.sy else b.sz

/-- closed box membership, axis by axis -/
def Closed (b : Box3 ℝ) (p : V3 ℝ) : Prop := ∀ a, a < 3 → blo b a ≤ vget p a ∧ vget p a ≤ blo b a + bsd b a

def PosB (b : Box3 ℝ) : Prop := ∀ a, a < 3 → 0 < bsd b a

/-- squared length of the direction -/
def dnorm2 (d : V3 ℝ) : ℝ := d.x * d.x + d.y * d.y + d.z * d.z

theorem vget_along (o d : V3 ℝ) (l : ℝ) (a : Nat) : vget (along o d l) a = vget o a + vget d a * l := by
  unfold vget along; split_ifs <;> rfl

theorem norm2_along (o d : V3 ℝ) (l : ℝ) : norm2Diff (along o d l) o = l * l * dnorm2 d := by
  unfold norm2Diff along dnorm2; ring

/-- parameter to the wall of axis `a` -/
noncomputable def wp (big : ℝ) (b : Box3 ℝ) (o d : V3 ℝ) (a : Nat) : ℝ :=
  wallParam big (vget o a) (vget d a) (blo b a) (blo b a + bsd b a)

theorem wp_spec (big : ℝ) (b : Box3 ℝ) (o d : V3 ℝ) (a : Nat) (h1 : blo b a ≤ vget o a)
    (h2 : vget o a ≤ blo b a + bsd b a) :
    (0 < vget d a → 0 ≤ wp big b o d a ∧ vget o a + vget d a * wp big b o d a = blo b a + bsd b a) ∧
    (vget d a < 0 → 0 ≤ wp big b o d a ∧ vget o a + vget d a * wp big b o d a = blo b a) ∧
    (vget d a = 0 → wp big b o d a = big) := by
  unfold wp wallParam
  simp only [zero_lit]
  refine ⟨fun hd => ?_, fun hd => ?_, fun hd => ?_⟩
  · rw [if_pos hd]
    exact ⟨div_nonneg (by linarith) hd.le, by field_simp; ring⟩
  · rw [if_neg (not_lt.mpr hd.le), if_pos hd]
    have hd' : vget d a ≠ 0 := hd.ne
    exact ⟨div_nonneg_of_nonpos (by linarith) hd.le, by field_simp; ring⟩
  · rw [hd]; simp

/-- the axis chosen by the comparisons of the squared distances has the smallest one -/
theorem chooseAxis_min (dx dy dz : ℝ) :
    (chooseAxis dx dy dz = 0 ∧ dx ≤ dy ∧ dx ≤ dz) ∨ (chooseAxis dx dy dz = 1 ∧ dy ≤ dx ∧ dy ≤ dz) ∨
    (chooseAxis dx dy dz = 2 ∧ dz ≤ dx ∧ dz ≤ dy) := by
  unfold chooseAxis
  by_cases h1 : dx < dy ∧ dx < dz
  · rw [if_pos h1]; exact Or.inl ⟨rfl, h1.1.le, h1.2.le⟩
  · rw [if_neg h1]
    by_cases h2 : dy < dx ∧ dy < dz
    · rw [if_pos h2]; exact Or.inr (Or.inl ⟨rfl, h2.1.le, h2.2.le⟩)
    · rw [if_neg h2]
      by_cases h3 : dz < dx ∧ dz < dy
      · rw [if_pos h3]; exact Or.inr (Or.inr ⟨rfl, h3.1.le, h3.2.le⟩)
      · rw [if_neg h3]
        by_cases h4 : (¬ dx < dy ∧ ¬ dy < dx) ∨ (¬ dx < dz ∧ ¬ dz < dx)
        · rw [if_pos h4]
          refine Or.inl ⟨rfl, ?_, ?_⟩
          · rcases h4 with ⟨a, b⟩ | ⟨a, b⟩
            · exact not_lt.mp b
            · by_contra hc; push Not at hc h1 h2 h3
              have e : dx = dz := le_antisymm (not_lt.mp b) (not_lt.mp a)
              have := h2 hc; rw [e] at hc; linarith
          · rcases h4 with ⟨a, b⟩ | ⟨a, b⟩
            · by_contra hc; push Not at hc h1 h2 h3
              have e : dx = dy := le_antisymm (not_lt.mp b) (not_lt.mp a)
              have := h3 hc; rw [e] at hc; linarith
            · exact not_lt.mp b
        · rw [if_neg h4]
          push Not at h1 h2 h3 h4
          refine Or.inr (Or.inl ⟨rfl, ?_, ?_⟩)
          · by_contra hc; push Not at hc
            have a1 := h1 hc
            have a2 := h4.2 a1
            have a3 := h3 a2
            linarith
          · by_contra hc; push Not at hc
            by_cases hx : dz < dx
            · exact absurd (h3 hx) (not_le.mpr hc)
            · push Not at hx
              by_cases hxy : dx < dy
              · have a1 := h1 hxy; have a2 := h4.2 a1; linarith
              · push Not at hxy
                have a1 := h4.1 hxy
                linarith

/-! ### the hit of `get_wall_intersection` -/

/-- squared distance to the wall of axis `a` as the code computes it -/
noncomputable def wd (big : ℝ) (b : Box3 ℝ) (o d : V3 ℝ) (a : Nat) : ℝ :=
  norm2Diff (along o d (wp big b o d a)) o

/-- the chosen axis -/
noncomputable def hitAxis (big : ℝ) (b : Box3 ℝ) (o d : V3 ℝ) : Nat :=
  chooseAxis (wd big b o d 0) (wd big b o d 1) (wd big b o d 2)

theorem hitAxis_lt (big : ℝ) (b : Box3 ℝ) (o d : V3 ℝ) : hitAxis big b o d < 3 := by
  unfold hitAxis
  rcases chooseAxis_min (wd big b o d 0) (wd big b o d 1) (wd big b o d 2) with h | h | h <;> rw [h.1] <;> decide

theorem hit_fields (big : ℝ) (G : AGrid ℝ) (o d : V3 ℝ) (r : Ref) :
    (wallIntersection big G o d r).axis = hitAxis big (refBox G r) o d ∧
    (wallIntersection big G o d r).wall = along o d (wp big (refBox G r) o d (hitAxis big (refBox G r) o d)) ∧
    (wallIntersection big G o d r).ds = Real.sqrt (wd big (refBox G r) o d (hitAxis big (refBox G r) o d)) ∧
    ((wallIntersection big G o d r).up = true ↔ ¬ vget d (hitAxis big (refBox G r) o d) < 0) := by
  have hc := hitAxis_lt big (refBox G r) o d
  have key : ∀ c, c = hitAxis big (refBox G r) o d →
      (wallIntersection big G o d r).axis = c ∧
      (wallIntersection big G o d r).wall = along o d (wp big (refBox G r) o d c) ∧
      (wallIntersection big G o d r).ds = Real.sqrt (wd big (refBox G r) o d c) ∧
      ((wallIntersection big G o d r).up = true ↔ ¬ vget d c < 0) := by
    intro c hcc
    have h3 : c < 3 := hcc ▸ hc
    unfold wallIntersection
    simp only
    have e : chooseAxis
        (norm2Diff (along o d (wallParam big o.x d.x (refBox G r).ax ((refBox G r).ax + (refBox G r).sx))) o)
        (norm2Diff (along o d (wallParam big o.y d.y (refBox G r).ay ((refBox G r).ay + (refBox G r).sy))) o)
        (norm2Diff (along o d (wallParam big o.z d.z (refBox G r).az ((refBox G r).az + (refBox G r).sz))) o) = c := hcc.symm
    rw [e]
    have hcases : c = 0 ∨ c = 1 ∨ c = 2 := by omega
    rcases hcases with rfl | rfl | rfl <;>
      (cases ngb G.g G.px G.py G.pz r _ <;>
        simp only [zero_lit] <;> refine ⟨?_, ?_, ?_, ?_⟩ <;> first | rfl | trivial | simp [vget])
  exact key _ rfl

theorem hitAxis_min (big : ℝ) (b : Box3 ℝ) (o d : V3 ℝ) (a : Nat) (ha : a < 3) :
    wd big b o d (hitAxis big b o d) ≤ wd big b o d a := by
  unfold hitAxis
  have ha' : a = 0 ∨ a = 1 ∨ a = 2 := by omega
  rcases chooseAxis_min (wd big b o d 0) (wd big b o d 1) (wd big b o d 2) with h | h | h <;> rw [h.1] <;>
    rcases ha' with rfl | rfl | rfl <;> first | exact le_refl _ | exact h.2.1 | exact h.2.2

theorem dnorm2_pos (d : V3 ℝ) (h : ∃ a, a < 3 ∧ vget d a ≠ 0) : 0 < dnorm2 d := by
  obtain ⟨a, ha, hne⟩ := h
  unfold dnorm2
  have hx := mul_self_nonneg d.x
  have hy := mul_self_nonneg d.y
  have hz := mul_self_nonneg d.z
  have ha' : a = 0 ∨ a = 1 ∨ a = 2 := by omega
  rcases ha' with rfl | rfl | rfl
  · have : 0 < d.x * d.x := mul_self_pos.mpr (by simpa [vget] using hne); linarith
  · have : 0 < d.y * d.y := mul_self_pos.mpr (by simpa [vget] using hne); linarith
  · have : 0 < d.z * d.z := mul_self_pos.mpr (by simpa [vget] using hne); linarith

/-- hypotheses on the ray: the direction is not zero and `DBL_MAX` exceeds the wall distances -/
structure HitOK (big : ℝ) (b : Box3 ℝ) (o d : V3 ℝ) : Prop where
  inside : Closed b o
  nonzero : ∃ a, a < 3 ∧ vget d a ≠ 0
  big : ∀ a, a < 3 → vget d a ≠ 0 → wp big b o d a < big

theorem wp_nonneg (big : ℝ) (b : Box3 ℝ) (o d : V3 ℝ) (h : HitOK big b o d) (a : Nat) (ha : a < 3) :
    0 ≤ wp big b o d a := by
  obtain ⟨hp, hn, hz⟩ := wp_spec big b o d a (h.inside a ha).1 (h.inside a ha).2
  have big0 : 0 ≤ big := by
    obtain ⟨m, hm, hne⟩ := h.nonzero
    obtain ⟨mp, mn, _⟩ := wp_spec big b o d m (h.inside m hm).1 (h.inside m hm).2
    rcases lt_or_gt_of_ne hne with h' | h'
    · exact le_trans (mn h').1 (h.big m hm hne).le
    · exact le_trans (mp h').1 (h.big m hm hne).le
  rcases lt_trichotomy (vget d a) 0 with h' | h' | h'
  · exact (hn h').1
  · rw [hz h']; exact big0
  · exact (hp h').1

/-- the geometric content of the hit: the chosen axis moves, its parameter is the smallest one,
the wall point lies in the closed cell, on the wall of the chosen axis in the direction of travel -/
theorem hit_geom (big : ℝ) (b : Box3 ℝ) (o d : V3 ℝ) (h : HitOK big b o d) :
    let c := hitAxis big b o d
    vget d c ≠ 0 ∧ 0 ≤ wp big b o d c ∧ (∀ a, a < 3 → wp big b o d c ≤ wp big b o d a) ∧
    Closed b (along o d (wp big b o d c)) ∧
    (0 < vget d c → vget (along o d (wp big b o d c)) c = blo b c + bsd b c) ∧
    (vget d c < 0 → vget (along o d (wp big b o d c)) c = blo b c) ∧
    Real.sqrt (wd big b o d c) = wp big b o d c * Real.sqrt (dnorm2 d) := by
  intro c
  have hc : c < 3 := hitAxis_lt big b o d
  have hN := dnorm2_pos d h.nonzero
  have hle : ∀ a, a < 3 → wp big b o d c ≤ wp big b o d a := by
    intro a ha
    have := hitAxis_min big b o d a ha
    unfold wd at this
    rw [norm2_along, norm2_along] at this
    have h2 : wp big b o d c * wp big b o d c ≤ wp big b o d a * wp big b o d a :=
      le_of_mul_le_mul_right this hN
    exact (mul_self_le_mul_self_iff (wp_nonneg big b o d h c hc) (wp_nonneg big b o d h a ha)).mpr h2
  have hmove : vget d c ≠ 0 := by
    intro h0
    obtain ⟨m, hm, hne⟩ := h.nonzero
    have e := (wp_spec big b o d c (h.inside c hc).1 (h.inside c hc).2).2.2 h0
    have := hle m hm
    have := h.big m hm hne
    linarith
  have h0 := wp_nonneg big b o d h c hc
  obtain ⟨cp, cn, _⟩ := wp_spec big b o d c (h.inside c hc).1 (h.inside c hc).2
  refine ⟨hmove, h0, hle, ?_, ?_, ?_, ?_⟩
  · intro a ha
    rw [vget_along]
    obtain ⟨ap, an, az⟩ := wp_spec big b o d a (h.inside a ha).1 (h.inside a ha).2
    obtain ⟨i1, i2⟩ := h.inside a ha
    rcases lt_trichotomy (vget d a) 0 with h' | h' | h'
    · obtain ⟨_, e⟩ := an h'
      have := mul_le_mul_of_nonpos_left (hle a ha) h'.le
      have := mul_nonpos_of_nonpos_of_nonneg h'.le h0
      constructor <;> linarith
    · rw [h']; constructor <;> linarith
    · obtain ⟨_, e⟩ := ap h'
      have := mul_le_mul_of_nonneg_left (hle a ha) h'.le
      have := mul_nonneg h'.le h0
      constructor <;> linarith
  · intro hp; rw [vget_along]; exact (cp hp).2
  · intro hn; rw [vget_along]; exact (cn hn).2
  · unfold wd
    rw [norm2_along, Real.sqrt_mul (mul_self_nonneg _), Real.sqrt_mul_self h0]

end CMacVerif.AMRT
