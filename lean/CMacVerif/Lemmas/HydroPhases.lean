import CMacVerif.Lemmas.HydroSchedule
/-! The phase-by-phase schedule of the hydro tasks is a linear extension of the task graph, and
executing it is `hydroStep` on the cells of the grid (C10). -/
namespace CMacVerif.HydroSchedule
open CMacVerif CMacVerif.RiemannVacuum CMacVerif.HydroGraph CMacVerif.HydroSweeps
  CMacVerif.HydroUpdate CMacVerif.HydroStep CMacVerif.HydroTasks

/-- the tasks of phase `k` in the order of `allTasks` -/
def phaseTasks (L : Layout) (k : Nat) : List Task :=
  (allTasks L).filter fun t => phase t.slot = k

/-- all gradient tasks, then all slope limiters, … , then all primitive updates -/
def phaseSched (L : Layout) : List Task := (List.range 6).flatMap (phaseTasks L)

theorem mem_phaseTasks {L : Layout} {k : Nat} {t : Task} :
    t ∈ phaseTasks L k ↔ exists_ L t = true ∧ phase t.slot = k := by
  simp [phaseTasks, mem_allTasks]

theorem phaseSched_linExt (L : Layout) : LinExt L (phaseSched L) where
  nodup := by
    unfold phaseSched
    refine nodup_flatMap_of_disjoint List.nodup_range
      (fun k _ => (allTasks_nodup L).filter _) ?_
    intro k _ k' _ t ht ht'
    rw [mem_phaseTasks] at ht ht'
    exact ht.2.symm.trans ht'.2
  all t := by
    simp only [phaseSched, List.mem_flatMap, List.mem_range, mem_phaseTasks]
    constructor
    · rintro ⟨k, _, h, _⟩; exact h
    · intro h; exact ⟨phase t.slot, by have := phase_le_five t.slot; omega, h, rfl⟩
  order := by
    unfold phaseSched
    rw [List.pairwise_flatMap]
    refine ⟨fun k _ => ?_, ?_⟩
    · refine List.Pairwise.imp_of_mem ?_ (List.pairwise_of_forall (R := fun _ _ => True) (by simp))
      intro a b ha hb _ hpar
      rw [mem_phaseTasks] at ha hb
      have := phase_lt_of_parent hpar
      omega
    · refine List.Pairwise.imp ?_ List.pairwise_lt_range
      intro k k' hlt a ha b hb hpar
      rw [mem_phaseTasks] at ha hb
      have := phase_lt_of_parent hpar
      omega

/-! ### executing one phase -/

variable (flux : FluxFn ℝ) (pr : Params ℝ) (limiter : HV ℝ → Grad ℝ) (predict : HV ℝ → Q ℝ)
  (L : Layout) (c : Cells)

theorem run_grad_tasks (ts : List Task) (h : ∀ t ∈ ts, phase t.slot = 0) (s : Grid (HV ℝ)) :
    runSchedule flux pr limiter predict L c ts s
      = runOps (gradPhys pr) s (ts.flatMap (taskOps L c)) := by
  induction ts generalizing s with
  | nil => rfl
  | cons t ts ih =>
    simp only [runSchedule, List.foldl_cons, List.flatMap_cons] at ih ⊢
    rw [ih (fun u hu => h u (List.mem_cons_of_mem _ hu)), execTask_grad _ _ _ _ _ _ t
      (h t List.mem_cons_self), runOps_append]

theorem run_flux_tasks (ts : List Task) (h : ∀ t ∈ ts, phase t.slot = 3) (s : Grid (HV ℝ)) :
    runSchedule flux pr limiter predict L c ts s
      = runOps (fluxPhys flux pr) s (ts.flatMap (taskOps L c)) := by
  induction ts generalizing s with
  | nil => rfl
  | cons t ts ih =>
    simp only [runSchedule, List.foldl_cons, List.flatMap_cons] at ih ⊢
    rw [ih (fun u hu => h u (List.mem_cons_of_mem _ hu)), execTask_flux _ _ _ _ _ _ t
      (h t List.mem_cons_self), runOps_append]

/-- the per-cell map of a task of phase 1, 2, 4 or 5 -/
noncomputable def phaseFn (k : Nat) : HV ℝ → HV ℝ :=
  if k = 1 then fun h => { h with grad := limiter h }
  else if k = 2 then fun h => { h with prim := predict h }
  else if k = 4 then fun h => updateConserved pr.dmax h pr.dt
  else fun h => { h with prim := setPrimitive pr.g pr.vmax pr.ovf pr.invVol h.cons }

theorem execTask_map (t : Task) (h : phase t.slot ≠ 0 ∧ phase t.slot ≠ 3) (s : Grid (HV ℝ)) :
    execTask flux pr limiter predict L c t s
      = mapSub c t.g (phaseFn pr limiter predict (phase t.slot)) s := by
  obtain ⟨g, sl⟩ := t
  rcases sl with _ | ax | ax | _ | _ | _ | ax | ax | _ | _ <;> simp [phase] at h <;>
    simp [execTask, phaseFn, phase]

/-- per-cell tasks of one phase on distinct subgrids: every cell that lies in the subgrid of one
of the tasks is mapped once -/
theorem run_map_tasks (k : Nat) (hk : k ≠ 0 ∧ k ≠ 3) (ts : List Task) (hn : ts.Nodup)
    (h : ∀ t ∈ ts, phase t.slot = k) (s : Grid (HV ℝ)) (x : Cell) :
    runSchedule flux pr limiter predict L c ts s x
      = if ∃ t ∈ ts, inSub c t.g x = true then phaseFn pr limiter predict k (s x) else s x := by
  induction ts generalizing s with
  | nil => simp [runSchedule]
  | cons t ts ih =>
    rw [List.nodup_cons] at hn
    have hpt : phase t.slot = k := h t List.mem_cons_self
    simp only [runSchedule, List.foldl_cons] at ih ⊢
    rw [ih hn.2 (fun u hu => h u (List.mem_cons_of_mem _ hu)),
      execTask_map _ _ _ _ _ _ t (by rw [hpt]; exact hk), hpt]
    by_cases hin : inSub c t.g x = true
    · have hnone : ¬ ∃ u ∈ ts, inSub c u.g x = true := by
        rintro ⟨u, hu, hux⟩
        have hg : u.g = t.g := inSub_unique hux hin
        have hs : u.slot = t.slot :=
          slot_eq_of_phase _ _ ((h u (List.mem_cons_of_mem _ hu)).trans hpt.symm)
            (by rw [h u (List.mem_cons_of_mem _ hu)]; exact hk)
        have : u = t := by
          obtain ⟨ug, us⟩ := u; obtain ⟨tg, tsl⟩ := t
          simp only at hg hs; subst hg hs; rfl
        exact hn.1 (this ▸ hu)
      rw [if_neg hnone, if_pos ⟨t, List.mem_cons_self, hin⟩]
      simp [mapSub, hin]
    · have hiff : (∃ u ∈ t :: ts, inSub c u.g x = true) ↔ ∃ u ∈ ts, inSub c u.g x = true := by
        constructor
        · rintro ⟨u, hu, hux⟩
          rcases List.mem_cons.mp hu with rfl | hu'
          · exact absurd hux hin
          · exact ⟨u, hu', hux⟩
        · rintro ⟨u, hu, hux⟩; exact ⟨u, List.mem_cons_of_mem _ hu, hux⟩
      simp only [hiff, mapSub, hin]
      rfl

/-- every cell of the global grid lies in the subgrid of the phase-`k` task of that subgrid -/
theorem exists_phase_task (hk : k = 1 ∨ k = 2 ∨ k = 4 ∨ k = 5) {x : Cell}
    (hx : valid (cellGrid L c) x = true) : ∃ t ∈ phaseTasks L k, inSub c t.g x = true := by
  obtain ⟨g, p, hg, hp, rfl⟩ := exists_gcell hx
  have hsg : (spine g k).g = g := by rcases hk with rfl | rfl | rfl | rfl <;> rfl
  refine ⟨spine g k, ?_, by rw [hsg]; exact inSub_gcell g hp⟩
  rw [mem_phaseTasks]
  rcases hk with rfl | rfl | rfl | rfl <;> simp [spine, exists_, slotExists, hg, phase]

/-! ### the calls of the sweep tasks of a phase are the calls of the layout -/

/-- everything that concerns subgrid `g` along `ax` -/
def piece (g : Sub) (ax : Axis) : List Op :=
  (innerLoc c ax).map (fun pq => Op.pair ax (gcell c g pq.1) (gcell c g pq.2)) ++ upOps L c ax g ++
    (if (ngbDown L ax g).isNone then downOps c ax g else [])

theorem flatMap_comm_perm {α β γ : Type} (l : List α) (m : List β) (f : α → β → List γ) :
    (l.flatMap fun a => m.flatMap fun b => f a b).Perm (m.flatMap fun b => l.flatMap fun a => f a b) := by
  induction l with
  | nil => simp
  | cons a l ih =>
    simp only [List.flatMap_cons]
    exact (List.Perm.append_left _ ih).trans (List.flatMap_append_perm m _ _)

theorem layoutOps_perm_pieces :
    (layoutOps L c).Perm ((allSubs L).flatMap fun g => axes.flatMap (piece L c g)) := by
  refine List.Perm.trans ?_ (flatMap_comm_perm axes (allSubs L) (fun ax g => piece L c g ax))
  unfold layoutOps
  refine List.Perm.flatMap_left _ (fun ax _ => ?_)
  simp only [allFaces, allGhosts, List.map_flatMap]
  refine ((List.flatMap_append_perm _ _ _).append_right _).trans
    ((List.flatMap_append_perm _ _ _).trans ?_)
  refine List.Perm.of_eq (List.flatMap_congr fun g _ => ?_)
  simp only [piece, subFaces, subGhosts, upOps, downOps, List.map_append, List.map_map,
    Function.comp_def, if_true, Bool.false_eq_true, if_false]
  cases hn : ngbUp L ax g <;> cases hd : (ngbDown L ax g).isNone <;> simp <;> rfl


theorem phase_ops_eq (k : Nat) :
    (phaseTasks L k).flatMap (taskOps L c) = (allSubs L).flatMap fun g =>
      ((allSlots.filter (slotExists L g)).filter (fun s => phase s = k)).flatMap
        (fun s => taskOps L c ⟨g, s⟩) := by
  unfold phaseTasks allTasks
  rw [List.filter_flatMap, List.flatMap_assoc]
  refine List.flatMap_congr fun g _ => ?_
  rw [List.filter_map, List.flatMap_map]
  rfl

theorem grad_slots_perm_pieces (g : Sub) :
    (((allSlots.filter (slotExists L g)).filter (fun s => phase s = 0)).flatMap
      (fun s => taskOps L c ⟨g, s⟩)).Perm (axes.flatMap (piece L c g)) := by
  rw [List.perm_iff_count]
  intro a
  cases hx : (ngbDown L .x g).isNone <;> cases hy : (ngbDown L .y g).isNone <;>
    cases hz : (ngbDown L .z g).isNone <;>
    simp [allSlots, slotExists, phase, taskOps, piece, axes, innerOps, hx, hy, hz,
      List.count_append] <;> omega

theorem flux_slots_perm_pieces (g : Sub) :
    (((allSlots.filter (slotExists L g)).filter (fun s => phase s = 3)).flatMap
      (fun s => taskOps L c ⟨g, s⟩)).Perm (axes.flatMap (piece L c g)) := by
  rw [List.perm_iff_count]
  intro a
  cases hx : (ngbDown L .x g).isNone <;> cases hy : (ngbDown L .y g).isNone <;>
    cases hz : (ngbDown L .z g).isNone <;>
    simp [allSlots, slotExists, phase, taskOps, piece, axes, innerOps, hx, hy, hz,
      List.count_append] <;> omega

/-- the calls of all gradient tasks (in task order) are a permutation of `layoutOps` -/
theorem grad_phase_ops_perm :
    ((phaseTasks L 0).flatMap (taskOps L c)).Perm (layoutOps L c) := by
  rw [phase_ops_eq]
  exact (List.Perm.flatMap_left _ (fun g _ => grad_slots_perm_pieces L c g)).trans
    (layoutOps_perm_pieces L c).symm

/-- … and so are the calls of all flux tasks -/
theorem flux_phase_ops_perm :
    ((phaseTasks L 3).flatMap (taskOps L c)).Perm (layoutOps L c) := by
  rw [phase_ops_eq]
  exact (List.Perm.flatMap_left _ (fun g _ => flux_slots_perm_pieces L c g)).trans
    (layoutOps_perm_pieces L c).symm


/-! ### the phase-by-phase schedule computes `hydroStep` on the cells of the grid -/

theorem ngbUp_valid' {G : Layout} {ax : Axis} {X Y : Loc} (hX : valid G X = true)
    (h : ngbUp G ax X = some Y) : valid G Y = true := by
  unfold ngbUp at h
  cases hu : up1 (len G ax) (per G ax) (coord X ax) with
  | none => rw [hu] at h; simp at h
  | some v =>
    rw [hu] at h
    simp only [Option.map_some, Option.some.injEq] at h
    subst h
    apply valid_setCoord hX
    unfold up1 at hu
    have := coord_lt hX ax
    split_ifs at hu with h1 h2
    · simp only [Option.some.injEq] at hu; omega
    · simp only [Option.some.injEq] at hu; omega

/-- every call of a layout touches cells of the global grid only -/
theorem layoutOps_cells_valid (hc : 0 < c.cx ∧ 0 < c.cy ∧ 0 < c.cz) :
    ∀ op ∈ layoutOps L c, ∀ x ∈ opCells op, valid (cellGrid L c) x = true := by
  have hcl : ∀ ax, 0 < clen c ax := fun ax => by cases ax <;> simp [clen, hc]
  intro op hop x hx
  simp only [layoutOps, List.mem_flatMap, List.mem_append, List.mem_map] at hop
  obtain ⟨ax, _, (⟨f, hf, rfl⟩ | ⟨X, hX, rfl⟩) | ⟨X, hX, rfl⟩⟩ := hop
  · have hf' : (f.1, f.2) ∈ allFaces L c ax := hf
    rw [mem_allFaces_iff L c ax (hcl ax), mem_gridFaces] at hf'
    simp only [opCells, List.mem_cons, List.not_mem_nil, or_false] at hx
    rcases hx with rfl | rfl
    · exact hf'.1
    · exact ngbUp_valid' hf'.1 hf'.2
  · rw [mem_allGhosts_iff L c ax true (hcl ax), mem_gridGhosts] at hX
    simp only [opCells, List.mem_cons, List.not_mem_nil, or_false] at hx
    subst hx; exact hX.1
  · rw [mem_allGhosts_iff L c ax false (hcl ax), mem_gridGhosts] at hX
    simp only [opCells, List.mem_cons, List.not_mem_nil, or_false] at hx
    subst hx; exact hX.1

theorem phaseSched_eq :
    phaseSched L = phaseTasks L 0 ++ (phaseTasks L 1 ++ (phaseTasks L 2 ++ (phaseTasks L 3 ++
      (phaseTasks L 4 ++ phaseTasks L 5)))) := by
  have : List.range 6 = [0, 1, 2, 3, 4, 5] := by decide
  simp [phaseSched, this]

theorem runSchedule_append (a b : List Task) (s : Grid (HV ℝ)) :
    runSchedule flux pr limiter predict L c (a ++ b) s
      = runSchedule flux pr limiter predict L c b (runSchedule flux pr limiter predict L c a s) := by
  simp only [runSchedule, List.foldl_append]

/-- a per-cell phase on states that agree on the cells of the grid -/
theorem map_phase_agree (hk : k = 1 ∨ k = 2 ∨ k = 4 ∨ k = 5) (s t : Grid (HV ℝ))
    (hst : ∀ x, valid (cellGrid L c) x = true → s x = t x) :
    ∀ x, valid (cellGrid L c) x = true →
      runSchedule flux pr limiter predict L c (phaseTasks L k) s x
        = mapCells (phaseFn pr limiter predict k) t x := by
  intro x hx
  rw [run_map_tasks flux pr limiter predict L c k (by omega) (phaseTasks L k)
    ((allTasks_nodup L).filter _) (fun t ht => (mem_phaseTasks.mp ht).2),
    if_pos (exists_phase_task L c hk hx), hst x hx]
  rfl

theorem phaseSched_computes_step (hc : 0 < c.cx ∧ 0 < c.cy ∧ 0 < c.cz) (s : Grid (HV ℝ)) :
    ∀ x, valid (cellGrid L c) x = true →
      runSchedule flux pr limiter predict L c (phaseSched L) s x
        = hydroStep flux pr limiter predict (layoutOps L c) (layoutOps L c) s x := by
  rw [phaseSched_eq]
  simp only [runSchedule_append]
  -- gradient phase: the same grid
  have e0 : runSchedule flux pr limiter predict L c (phaseTasks L 0) s
      = runOps (gradPhys pr) s (layoutOps L c) := by
    rw [run_grad_tasks flux pr limiter predict L c _ (fun t ht => (mem_phaseTasks.mp ht).2)]
    exact runOps_perm (gradAccum pr) (grad_phase_ops_perm L c) s
  rw [e0]
  set t1 := runOps (gradPhys pr) s (layoutOps L c) with ht1
  have a2 := map_phase_agree flux pr limiter predict L c (k := 1) (Or.inl rfl) t1 t1
    (fun _ _ => rfl)
  set s2 := runSchedule flux pr limiter predict L c (phaseTasks L 1) t1
  have a3 := map_phase_agree flux pr limiter predict L c (k := 2) (Or.inr (Or.inl rfl)) s2 _ a2
  set s3 := runSchedule flux pr limiter predict L c (phaseTasks L 2) s2
  set t3 := mapCells (phaseFn pr limiter predict 2) (mapCells (phaseFn pr limiter predict 1) t1)
  -- flux phase: agreement on the cells of the grid is preserved
  have a4 : ∀ x, valid (cellGrid L c) x = true →
      runSchedule flux pr limiter predict L c (phaseTasks L 3) s3 x
        = runOps (fluxPhys flux pr) t3 (layoutOps L c) x := by
    rw [run_flux_tasks flux pr limiter predict L c _ (fun t ht => (mem_phaseTasks.mp ht).2),
      runOps_perm (fluxAccum flux pr) (flux_phase_ops_perm L c) s3]
    exact (local_runOps (fluxPhys flux pr) (fun x => valid (cellGrid L c) x = true) _
      (layoutOps_cells_valid L c hc)).2 s3 t3 a3
  set s4 := runSchedule flux pr limiter predict L c (phaseTasks L 3) s3
  have a5 := map_phase_agree flux pr limiter predict L c (k := 4)
    (Or.inr (Or.inr (Or.inl rfl))) s4 _ a4
  set s5 := runSchedule flux pr limiter predict L c (phaseTasks L 4) s4
  have a6 := map_phase_agree flux pr limiter predict L c (k := 5)
    (Or.inr (Or.inr (Or.inr rfl))) s5 _ a5
  intro x hx
  rw [a6 x hx]
  simp only [hydroStep, hydroStepFlux, mapCells, phaseFn, t3, t1]
  simp


/-! ### one thread -/

/-- what holds of the tasks executed so far by one thread -/
structure OneThreadInv (L : Layout) (done : List Task) : Prop where
  nodup : done.Nodup
  exist : ∀ t ∈ done, exists_ L t = true
  order : done.Pairwise fun a b => b ∉ parents L a
  closed : ∀ t ∈ done, ∀ p ∈ parents L t, p ∈ done

theorem mem_ready {L : Layout} {done : List Task} {t : Task} :
    t ∈ ready L done ↔ exists_ L t = true ∧ t ∉ done ∧ ∀ p ∈ parents L t, p ∈ done := by
  simp [ready, mem_allTasks]

theorem oneThreadOrder_inv (L : Layout) (pick : List Task → Option Task)
    (hpick : ∀ l t, pick l = some t → t ∈ l) (n : Nat) (done : List Task)
    (h : OneThreadInv L done) : OneThreadInv L (oneThreadOrder L pick n done) := by
  induction n generalizing done with
  | zero => exact h
  | succ n ih =>
    unfold oneThreadOrder
    cases hp : pick (ready L done) with
    | none => exact h
    | some t =>
      have ht := mem_ready.mp (hpick _ _ hp)
      apply ih
      refine ⟨?_, ?_, ?_, ?_⟩
      · rw [List.nodup_append]
        refine ⟨h.nodup, List.nodup_singleton t, ?_⟩
        intro a ha b hb hab
        simp only [List.mem_singleton] at hb
        exact ht.2.1 (hb ▸ hab ▸ ha)
      · intro u hu
        rcases List.mem_append.mp hu with hu | hu
        · exact h.exist u hu
        · simp only [List.mem_singleton] at hu; exact hu ▸ ht.1
      · rw [List.pairwise_append]
        refine ⟨h.order, List.pairwise_singleton _ _, ?_⟩
        intro a ha b hb hpar
        simp only [List.mem_singleton] at hb
        subst hb
        exact ht.2.1 (h.closed a ha b hpar)
      · intro u hu p hp'
        rcases List.mem_append.mp hu with hu | hu
        · exact List.mem_append_left _ (h.closed u hu p hp')
        · simp only [List.mem_singleton] at hu
          subst hu
          exact List.mem_append_left _ (ht.2.2 p hp')

theorem oneThreadInv_nil (L : Layout) : OneThreadInv L [] :=
  ⟨List.nodup_nil, by simp, List.Pairwise.nil, by simp⟩

/-- a one-thread run that has executed as many tasks as there are is a linear extension -/
theorem linExt_of_oneThread {L : Layout} {done : List Task} (h : OneThreadInv L done)
    (hlen : done.length = (allTasks L).length) : LinExt L done := by
  have hsub : done ⊆ allTasks L := fun t ht => (mem_allTasks L t).mpr (h.exist t ht)
  have hperm : done.Perm (allTasks L) :=
    (List.subperm_of_subset h.nodup hsub).perm_of_length_le (by omega)
  exact ⟨h.nodup, fun t => ⟨fun ht => h.exist t ht,
    fun ht => hperm.symm.subset ((mem_allTasks L t).mpr ht)⟩, h.order⟩

end CMacVerif.HydroSchedule
