import CMacVerif.Lemmas.Cartesian
/-! Invariants of the `interact` loop of the Cartesian grid over `ℝ` (C16). -/
namespace CMacVerif.Cartesian
open CMacVerif.GridNum

theorem zero_lit : (0.0 : ℝ) = 0 := by norm_num

/-- total path length of the recorded segments -/
def pathSum (l : List (Int × ℝ)) : ℝ := (l.map Prod.snd).sum

/-- opacity of a cell for this photon: `n (σ_H x_H + σ_He x_He)` -/
def kappa (m : Medium ℝ) (c : Int) : ℝ := m.dens c * (m.sigH * m.xH c + m.sigHe * m.xHe c)

/-- optical depth used up along the recorded segments -/
def tauSum (m : Medium ℝ) (l : List (Int × ℝ)) : ℝ := (l.map fun e => kappa m e.1 * e.2).sum

theorem opticalDepth_eq (m : Medium ℝ) (c : Int) (ds : ℝ) : opticalDepth m c ds = kappa m c * ds := by
  unfold opticalDepth kappa; ring

/-! ### `is_inside` -/

theorem insideAxis_pos (per : Bool) (n : Int) (side : ℝ) (i : Int) (p : ℝ) :
    ∃ k : Int, (insideAxis per n side i p).2.2 = p + k * side ∧ (per = false → k = 0) := by
  unfold insideAxis
  cases per
  · exact ⟨0, by simp, fun _ => rfl⟩
  · simp only [Bool.not_true, Bool.false_eq_true, if_false]
    by_cases h1 : i < 0
    · by_cases h2 : n - 1 ≥ n
      · exact ⟨0, by simp [h1, h2], by simp⟩
      · exact ⟨1, by simp [h1, h2], by simp⟩
    · by_cases h2 : i ≥ n
      · exact ⟨-1, by simp [h1, h2]; ring, by simp⟩
      · exact ⟨0, by simp [h1, h2], by simp⟩

/-- the flag and the new index of one axis depend on the index only -/
def axisFlag (per : Bool) (n i : Int) : Bool := if !per then decide (i ≥ 0 ∧ i < n) else true
def axisIdx (per : Bool) (n i : Int) : Int :=
  if !per then i else (if (if i < 0 then n - 1 else i) ≥ n then 0 else (if i < 0 then n - 1 else i))

theorem insideAxis_flag (per : Bool) (n : Int) (side : ℝ) (i : Int) (p : ℝ) :
    (insideAxis per n side i p).1 = axisFlag per n i ∧ (insideAxis per n side i p).2.1 = axisIdx per n i := by
  unfold insideAxis axisFlag axisIdx; cases per <;> simp

theorem axis_idem (per : Bool) (n i : Int) (hn : 0 < n) :
    axisIdx per n (axisIdx per n i) = axisIdx per n i ∧ axisFlag per n (axisIdx per n i) = axisFlag per n i := by
  unfold axisIdx axisFlag
  cases per
  · simp
  · simp only [Bool.not_true, Bool.false_eq_true, if_false]
    split_ifs <;> first | omega | simp

/-- inside flag of the grid as a function of the index -/
def gridFlag (g : Grid ℝ) (i : I3) : Bool :=
  axisFlag g.px g.n.x i.x && axisFlag g.py g.n.y i.y && axisFlag g.pz g.n.z i.z
def gridIdx (g : Grid ℝ) (i : I3) : I3 :=
  ⟨axisIdx g.px g.n.x i.x, axisIdx g.py g.n.y i.y, axisIdx g.pz g.n.z i.z⟩

theorem isInside_flag (g : Grid ℝ) (i : I3) (p : V3 ℝ) :
    (isInside g i p).1 = gridFlag g i ∧ (isInside g i p).2.1 = gridIdx g i := by
  unfold isInside gridFlag gridIdx
  simp only [insideAxis_flag, and_self]

theorem grid_idem (g : Grid ℝ) (i : I3) (hx : 0 < g.n.x) (hy : 0 < g.n.y) (hz : 0 < g.n.z) :
    gridIdx g (gridIdx g i) = gridIdx g i ∧ gridFlag g (gridIdx g i) = gridFlag g i := by
  unfold gridIdx gridFlag
  simp only [(axis_idem g.px g.n.x i.x hx).1, (axis_idem g.py g.n.y i.y hy).1, (axis_idem g.pz g.n.z i.z hz).1,
    (axis_idem g.px g.n.x i.x hx).2, (axis_idem g.py g.n.y i.y hy).2, (axis_idem g.pz g.n.z i.z hz).2, and_self]

/-! ### the path invariant -/

/-- position = start + (path so far)·direction + whole box lengths on periodic axes -/
structure PathInv (g : Grid ℝ) (p0 d : V3 ℝ) (st : St ℝ) : Prop where
  s_eq : st.s = pathSum st.path
  hx : ∃ w : Int, st.pos.x = p0.x + d.x * st.s + w * g.box.sx ∧ (g.px = false → w = 0)
  hy : ∃ w : Int, st.pos.y = p0.y + d.y * st.s + w * g.box.sy ∧ (g.py = false → w = 0)
  hz : ∃ w : Int, st.pos.z = p0.z + d.z * st.s + w * g.box.sz ∧ (g.pz = false → w = 0)

theorem wrap_pathInv (g : Grid ℝ) (p0 d : V3 ℝ) (st : St ℝ) (h : PathInv g p0 d st) :
    PathInv g p0 d (wrapSt g st) := by
  obtain ⟨hs, ⟨wx, hx1, hx2⟩, ⟨wy, hy1, hy2⟩, ⟨wz, hz1, hz2⟩⟩ := h
  obtain ⟨kx, ex, fx⟩ := insideAxis_pos g.px g.n.x g.box.sx st.idx.x st.pos.x
  obtain ⟨ky, ey, fy⟩ := insideAxis_pos g.py g.n.y g.box.sy st.idx.y st.pos.y
  obtain ⟨kz, ez, fz⟩ := insideAxis_pos g.pz g.n.z g.box.sz st.idx.z st.pos.z
  refine ⟨hs, ⟨wx + kx, ?_, fun hp => by rw [hx2 hp, fx hp]; rfl⟩, ⟨wy + ky, ?_, fun hp => by rw [hy2 hp, fy hp]; rfl⟩,
    ⟨wz + kz, ?_, fun hp => by rw [hz2 hp, fz hp]; rfl⟩⟩
  · show (isInside g st.idx st.pos).2.2.x = _
    simp only [isInside]; rw [ex, hx1]; simp only [wrapSt]; push_cast; ring
  · show (isInside g st.idx st.pos).2.2.y = _
    simp only [isInside]; rw [ey, hy1]; simp only [wrapSt]; push_cast; ring
  · show (isInside g st.idx st.pos).2.2.z = _
    simp only [isInside]; rw [ez, hz1]; simp only [wrapSt]; push_cast; ring

/-- in the correcting branch the optical depth of the cell is not zero, hence `ds ≠ 0` -/
theorem corr_ds_ne (m : Medium ℝ) (c : Int) (ds od : ℝ) (hod : 0 < od)
    (h : od - opticalDepth m c ds < 0) : opticalDepth m c ds ≠ 0 ∧ ds ≠ 0 := by
  rw [opticalDepth_eq] at h ⊢
  have hne : kappa m c * ds ≠ 0 := by intro h0; rw [h0] at h; linarith
  exact ⟨hne, fun h0 => hne (by rw [h0]; ring)⟩

theorem body_pathInv (big : ℝ) (g : Grid ℝ) (m : Medium ℝ) (p0 d inv : V3 ℝ) (st : St ℝ)
    (hod : 0 < st.od) (h : PathInv g p0 d st) : PathInv g p0 d (body big g m d inv st) := by
  obtain ⟨hs, ⟨wx, hx1, hx2⟩, ⟨wy, hy1, hy2⟩, ⟨wz, hz1, hz2⟩⟩ := h
  unfold body
  simp only [zero_lit]
  set w := wallIntersection big st.pos d inv (cellBox g st.idx) with hw
  have wxe : w.1.x = st.pos.x + d.x * w.2.2 := rfl
  have wye : w.1.y = st.pos.y + d.y * w.2.2 := rfl
  have wze : w.1.z = st.pos.z + d.z * w.2.2 := rfl
  by_cases hc : st.od - opticalDepth m (longIndex g.n st.idx) w.2.2 < 0
  · rw [if_pos hc]
    obtain ⟨_, hds⟩ := corr_ds_ne m _ _ _ hod hc
    refine ⟨?_, ⟨wx, ?_, hx2⟩, ⟨wy, ?_, hy2⟩, ⟨wz, ?_, hz2⟩⟩
    · simp only [pathSum, List.map_cons, List.sum_cons]; rw [hs]; unfold pathSum; ring
    · simp only; rw [wxe, hx1]; field_simp; ring
    · simp only; rw [wye, hy1]; field_simp; ring
    · simp only; rw [wze, hz1]; field_simp; ring
  · rw [if_neg hc]
    refine ⟨?_, ⟨wx, ?_, hx2⟩, ⟨wy, ?_, hy2⟩, ⟨wz, ?_, hz2⟩⟩
    · simp only [pathSum, List.map_cons, List.sum_cons]; rw [hs]; unfold pathSum; ring
    · simp only; rw [wxe, hx1]; ring
    · simp only; rw [wye, hy1]; ring
    · simp only; rw [wze, hz1]; ring

theorem loop_pathInv (big : ℝ) (g : Grid ℝ) (m : Medium ℝ) (p0 d inv : V3 ℝ) (fuel : Nat) :
    ∀ st : St ℝ, PathInv g p0 d st → PathInv g p0 d (loop big g m d inv fuel st).1 := by
  induction fuel with
  | zero => intro st h; exact h
  | succ fuel ih =>
    intro st h
    simp only [loop]
    by_cases hc : ((isInside g st.idx st.pos).1 && decide (st.od > 0.0)) = true
    · rw [if_pos hc]
      have hod : 0 < st.od := by
        simp only [Bool.and_eq_true, decide_eq_true_eq, zero_lit] at hc; exact hc.2
      exact ih _ (body_pathInv big g m p0 d inv _ hod (wrap_pathInv g p0 d st h))
    · rw [if_neg hc]; exact wrap_pathInv g p0 d st h

/-! ### optical depth accounting -/

structure TauInv (g : Grid ℝ) (m : Medium ℝ) (tau0 : ℝ) (st : St ℝ) : Prop where
  nonneg : 0 ≤ st.od → tau0 - st.od = tauSum m st.path
  neg : st.od < 0 → tauSum m st.path = tau0 ∧ gridFlag g st.idx = true ∧ gridIdx g st.idx = st.idx
  last : st.last = none ↔ st.path = []

theorem wrap_tauInv (g : Grid ℝ) (m : Medium ℝ) (tau0 : ℝ) (st : St ℝ) (h : TauInv g m tau0 st) :
    TauInv g m tau0 (wrapSt g st) := by
  obtain ⟨h1, h2, h3⟩ := h
  refine ⟨h1, fun hneg => ?_, h3⟩
  obtain ⟨a, b, c⟩ := h2 hneg
  have e : (wrapSt g st).idx = st.idx := by
    show (isInside g st.idx st.pos).2.1 = st.idx
    rw [(isInside_flag g st.idx st.pos).2, c]
  refine ⟨a, ?_, ?_⟩ <;> rw [e] <;> assumption

theorem body_tauInv (big : ℝ) (g : Grid ℝ) (m : Medium ℝ) (tau0 : ℝ) (d inv : V3 ℝ) (st : St ℝ)
    (hod : 0 < st.od) (hflag : gridFlag g st.idx = true) (hidx : gridIdx g st.idx = st.idx)
    (h : TauInv g m tau0 st) : TauInv g m tau0 (body big g m d inv st) := by
  obtain ⟨h1, _, _⟩ := h
  have hsum := h1 hod.le
  unfold body
  simp only [zero_lit]
  set w := wallIntersection big st.pos d inv (cellBox g st.idx) with hw
  by_cases hc : st.od - opticalDepth m (longIndex g.n st.idx) w.2.2 < 0
  · rw [if_pos hc]
    obtain ⟨htau, hds⟩ := corr_ds_ne m _ _ _ hod hc
    refine ⟨fun hn => absurd hc (not_lt.mpr hn), fun _ => ⟨?_, hflag, hidx⟩, by simp⟩
    simp only [tauSum, List.map_cons, List.sum_cons]
    rw [opticalDepth_eq] at htau ⊢
    have : tauSum m st.path = (List.map (fun e => kappa m e.1 * e.2) st.path).sum := rfl
    rw [← this, ← hsum]
    have hk : kappa m (longIndex g.n st.idx) ≠ 0 := (mul_ne_zero_iff.mp htau).1
    field_simp
    ring
  · rw [if_neg hc]
    push Not at hc
    refine ⟨fun _ => ?_, fun hn => absurd hn (not_lt.mpr hc), by simp⟩
    simp only [tauSum, List.map_cons, List.sum_cons]
    have : tauSum m st.path = (List.map (fun e => kappa m e.1 * e.2) st.path).sum := rfl
    rw [← this, ← hsum, opticalDepth_eq]; ring

/-- what is known at loop exit -/
theorem loop_exit (big : ℝ) (g : Grid ℝ) (m : Medium ℝ) (tau0 : ℝ) (d inv : V3 ℝ)
    (hx : 0 < g.n.x) (hy : 0 < g.n.y) (hz : 0 < g.n.z) (fuel : Nat) :
    ∀ st : St ℝ, TauInv g m tau0 st → (loop big g m d inv fuel st).2 = true →
      ∃ se : St ℝ, (loop big g m d inv fuel st).1 = wrapSt g se ∧ TauInv g m tau0 se ∧
        ¬ (gridFlag g se.idx = true ∧ 0 < se.od) := by
  induction fuel with
  | zero => intro st _ h; simp [loop] at h
  | succ fuel ih =>
    intro st h hfin
    simp only [loop] at hfin ⊢
    by_cases hc : ((isInside g st.idx st.pos).1 && decide (st.od > 0.0)) = true
    · rw [if_pos hc] at hfin ⊢
      simp only [Bool.and_eq_true, decide_eq_true_eq, zero_lit] at hc
      have hfl : gridFlag g st.idx = true := by rw [← (isInside_flag g st.idx st.pos).1]; exact hc.1
      have hwi : (wrapSt g st).idx = gridIdx g st.idx := (isInside_flag g st.idx st.pos).2
      refine ih _ (body_tauInv big g m tau0 d inv _ hc.2 ?_ ?_ (wrap_tauInv g m tau0 st h)) hfin
      · rw [hwi, (grid_idem g st.idx hx hy hz).2]; exact hfl
      · rw [hwi, (grid_idem g st.idx hx hy hz).1]
    · rw [if_neg hc]
      refine ⟨st, rfl, h, ?_⟩
      simp only [Bool.and_eq_true, decide_eq_true_eq, zero_lit, (isInside_flag g st.idx st.pos).1] at hc
      exact hc

end CMacVerif.Cartesian
