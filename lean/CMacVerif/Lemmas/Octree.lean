import CMacVerif.Model.Octree
import CMacVerif.Lemmas.GridNum
import CMacVerif.Inst.Real
/-! The Octree searches return the brute-force answer under the covering hypothesis (C16). -/
set_option linter.unusedVariables false
namespace CMacVerif.Oct
open CMacVerif.GridNum

/-- indices of the positions stored below a node, in traversal order -/
def leavesOf {α : Type} : OT α → List Nat
  | .empty => []
  | .leaf i => [i]
  | .node _ _ kids => (List.finRange 8).foldl (fun acc i => acc ++ leavesOf (kids i)) []

theorem filter_foldl_append {β : Type} (p : Nat → Bool) (f : β → List Nat) (l : List β) : ∀ init : List Nat,
    (l.foldl (fun acc i => acc ++ f i) init).filter p = l.foldl (fun acc i => acc ++ (f i).filter p) (init.filter p) := by
  induction l with
  | nil => intro init; rfl
  | cons x xs ih => intro init; simp only [List.foldl_cons]; rw [ih, List.filter_append]

theorem mem_foldl_append {β : Type} (f : β → List Nat) (l : List β) (k : Nat) : ∀ init : List Nat,
    k ∈ l.foldl (fun acc i => acc ++ f i) init ↔ k ∈ init ∨ ∃ x ∈ l, k ∈ f x := by
  induction l with
  | nil => intro init; simp
  | cons x xs ih =>
    intro init
    simp only [List.foldl_cons, ih, List.mem_append, List.mem_cons]
    constructor
    · rintro ((h | h) | ⟨y, hy, hk⟩)
      · exact Or.inl h
      · exact Or.inr ⟨x, Or.inl rfl, h⟩
      · exact Or.inr ⟨y, Or.inr hy, hk⟩
    · rintro (h | ⟨y, (rfl | hy), hk⟩)
      · exact Or.inl (Or.inl h)
      · exact Or.inl (Or.inr hk)
      · exact Or.inr ⟨y, hy, hk⟩

/-- the covering hypotheses: below every node, the box distance is a lower bound of the distance
of every stored point, and the node's variable is an upper bound of the points' variables -/
inductive Covered (pd : Nat → ℝ) (bd : Box3 ℝ → ℝ) (h : Nat → ℝ) : OT ℝ → Prop
  | empty : Covered pd bd h .empty
  | leaf (i : Nat) : Covered pd bd h (.leaf i)
  | node (b : Box3 ℝ) (v : ℝ) (kids : Fin 8 → OT ℝ) :
      (∀ i ∈ leavesOf (OT.node b v kids), bd b ≤ pd i) → (∀ i ∈ leavesOf (OT.node b v kids), h i ≤ v) →
      (∀ k, Covered pd bd h (kids k)) → Covered pd bd h (.node b v kids)

/-- threshold of a point: its own variable (+ the search radius) -/
def limOf (h : Nat → ℝ) (radius : Option ℝ) (i : Nat) : ℝ := match radius with | some r => h i + r | none => h i

/-- the search returns exactly the stored points within their threshold, in traversal order -/
theorem search_eq_filter (pd : Nat → ℝ) (bd : Box3 ℝ → ℝ) (h : Nat → ℝ) (radius : Option ℝ)
    (hr : ∀ r, radius = some r → 0 ≤ r) (t : OT ℝ) (hc : Covered pd bd h t) :
    search pd bd h radius t = (leavesOf t).filter (fun i => decide (pd i ≤ limOf h radius i)) := by
  cases radius with
  | none =>
    induction hc with
    | empty => rfl
    | leaf i =>
      simp only [search, leavesOf, limOf]
      by_cases hle : pd i ≤ h i <;> simp [hle]
    | node b v kids hbox hvar hk ih =>
      simp only [search]
      by_cases hp : bd b > v
      · rw [if_pos hp]
        symm
        rw [List.filter_eq_nil_iff]
        intro i hi
        simp only [limOf]
        intro hle
        have h0 := of_decide_eq_true hle
        have h1 := hbox i hi
        have h2 := hvar i hi
        linarith
      · rw [if_neg hp]
        simp only [leavesOf]
        rw [filter_foldl_append]
        simp only [List.filter_nil]
        congr 1
        funext acc i
        rw [ih i]
  | some r =>
    have hr0 := hr r rfl
    induction hc with
    | empty => rfl
    | leaf i =>
      simp only [search, leavesOf, limOf]
      by_cases hle : pd i ≤ h i + r <;> simp [hle]
    | node b v kids hbox hvar hk ih =>
      simp only [search]
      by_cases hp : bd b > v + r
      · rw [if_pos hp]
        symm
        rw [List.filter_eq_nil_iff]
        intro i hi
        simp only [limOf]
        intro hle
        have h0 := of_decide_eq_true hle
        have h1 := hbox i hi
        have h2 := hvar i hi
        linarith
      · rw [if_neg hp]
        simp only [leavesOf]
        rw [filter_foldl_append]
        simp only [List.filter_nil]
        congr 1
        funext acc i
        rw [ih i]

/-! ### the geometric source of the covering hypothesis (open boundaries) -/

theorem boxDx_abs (v a s p : ℝ) (hs : 0 ≤ s) (h1 : a ≤ p) (h2 : p ≤ a + s) :
    boxDx v a s * boxDx v a s ≤ (p - v) * (p - v) := by
  unfold boxDx
  have z : (0.0 : ℝ) = 0 := by norm_num
  simp only [z]
  split_ifs with c1 c2
  · nlinarith
  · nlinarith [mul_self_nonneg (p - v)]
  · nlinarith

/-- a point in the closed box of a node is at least as far from the centre as the box -/
theorem boxDist_le (b : Box3 ℝ) (c p : V3 ℝ) (hs : 0 ≤ b.sx ∧ 0 ≤ b.sy ∧ 0 ≤ b.sz)
    (hp : b.ax ≤ p.x ∧ p.x ≤ b.ax + b.sx ∧ b.ay ≤ p.y ∧ p.y ≤ b.ay + b.sy ∧ b.az ≤ p.z ∧ p.z ≤ b.az + b.sz) :
    boxDist b c ≤ dist p c := by
  unfold boxDist dist
  apply Real.sqrt_le_sqrt
  have hx := boxDx_abs c.x b.ax b.sx p.x hs.1 hp.1 hp.2.1
  have hy := boxDx_abs c.y b.ay b.sy p.y hs.2.1 hp.2.2.1 hp.2.2.2.1
  have hz := boxDx_abs c.z b.az b.sz p.z hs.2.2 hp.2.2.2.2.1 hp.2.2.2.2.2
  linarith

end CMacVerif.Oct
