import CMacVerif.Model.Octree
import CMacVerif.Lemmas.GridNum
import CMacVerif.Inst.Real
/-! The Octree searches return the brute-force answer under the covering hypothesis (C16). -/
set_option linter.unusedVariables false
namespace CMacVerif.Oct
open CMacVerif.GridNum

/-- indices of the positions stored below a node, in traversal order -/
def leavesOf {α : Type} : OT α → List Nat
  | .empty => []
  | .leaf i => [i]
  | .node _ _ kids => (List.finRange 8).foldl (fun acc i => acc ++ leavesOf (kids i)) []

theorem filter_foldl_append {β : Type} (p : Nat → Bool) (f : β → List Nat) (l : List β) : ∀ init : List Nat,
    (l.foldl (fun acc i => acc ++ f i) init).filter p = l.foldl (fun acc i => acc ++ (f i).filter p) (init.filter p) := by
  induction l with
  | nil => intro init; rfl
  | cons x xs ih => intro init; simp only [List.foldl_cons]; rw [ih, List.filter_append]

theorem mem_foldl_append {β : Type} (f : β → List Nat) (l : List β) (k : Nat) : ∀ init : List Nat,
    k ∈ l.foldl (fun acc i => acc ++ f i) init ↔ k ∈ init ∨ ∃ x ∈ l, k ∈ f x := by
  induction l with
  | nil => intro init; simp
  | cons x xs ih =>
    intro init
    simp only [List.foldl_cons, ih, List.mem_append, List.mem_cons]
    constructor
    · rintro ((h | h) | ⟨y, hy, hk⟩)
      · exact Or.inl h
      · exact Or.inr ⟨x, Or.inl rfl, h⟩
      · exact Or.inr ⟨y, Or.inr hy, hk⟩
    · rintro (h | ⟨y, (rfl | hy), hk⟩)
      · exact Or.inl (Or.inl h)
      · exact Or.inl (Or.inr hk)
      · exact Or.inr ⟨y, hy, hk⟩

/-- the covering hypotheses: below every node, the box distance is a lower bound of the distance
of every stored point, and the node's variable is an upper bound of the points' variables -/
inductive Covered (pd : Nat → ℝ) (bd : Box3 ℝ → ℝ) (h : Nat → ℝ) : OT ℝ → Prop
  | empty : Covered pd bd h .empty
  | leaf (i : Nat) : Covered pd bd h (.leaf i)
  | node (b : Box3 ℝ) (v : ℝ) (kids : Fin 8 → OT ℝ) :
      (∀ i ∈ leavesOf (OT.node b v kids), bd b ≤ pd i) → (∀ i ∈ leavesOf (OT.node b v kids), h i ≤ v) →
      (∀ k, Covered pd bd h (kids k)) → Covered pd bd h (.node b v kids)

/-- threshold of a point: its own variable (+ the search radius) -/
def limOf (h : Nat → ℝ) (radius : Option ℝ) (i : Nat) : ℝ := match radius with | some r => h i + r | none => h i

/-- the search returns exactly the stored points within their threshold, in traversal order -/
theorem search_eq_filter (pd : Nat → ℝ) (bd : Box3 ℝ → ℝ) (h : Nat → ℝ) (radius : Option ℝ)
    (hr : ∀ r, radius = some r → 0 ≤ r) (t : OT ℝ) (hc : Covered pd bd h t) :
    search pd bd h radius t = (leavesOf t).filter (fun i => decide (pd i ≤ limOf h radius i)) := by
  cases radius with
  | none =>
    induction hc with
    | empty => rfl
    | leaf i =>
      simp only [search, leavesOf, limOf]
      by_cases hle : pd i ≤ h i <;> simp [hle]
    | node b v kids hbox hvar hk ih =>
      simp only [search]
      by_cases hp : bd b > v
      · rw [if_pos hp]
        symm
        rw [List.filter_eq_nil_iff]
        intro i hi
        simp only [limOf]
        intro hle
        have h0 := of_decide_eq_true hle
        have h1 := hbox i hi
        have h2 := hvar i hi
        linarith
      · rw [if_neg hp]
        simp only [leavesOf]
        rw [filter_foldl_append]
        simp only [List.filter_nil]
        congr 1
        funext acc i
        rw [ih i]
  | some r =>
    have hr0 := hr r rfl
    induction hc with
    | empty => rfl
    | leaf i =>
      simp only [search, leavesOf, limOf]
      by_cases hle : pd i ≤ h i + r <;> simp [hle]
    | node b v kids hbox hvar hk ih =>
      simp only [search]
      by_cases hp : bd b > v + r
      · rw [if_pos hp]
        symm
        rw [List.filter_eq_nil_iff]
        intro i hi
        simp only [limOf]
        intro hle
        have h0 := of_decide_eq_true hle
        have h1 := hbox i hi
        have h2 := hvar i hi
        linarith
      · rw [if_neg hp]
        simp only [leavesOf]
        rw [filter_foldl_append]
        simp only [List.filter_nil]
        congr 1
        funext acc i
        rw [ih i]

/-! ### the geometric source of the covering hypothesis (open boundaries) -/

theorem boxDx_abs (v a s p : ℝ) (hs : 0 ≤ s) (h1 : a ≤ p) (h2 : p ≤ a + s) :
    boxDx v a s * boxDx v a s ≤ (p - v) * (p - v) := by
  unfold boxDx
  have z : (0.0 : ℝ) = 0 := by norm_num
  simp only [z]
  split_ifs with c1 c2
  · nlinarith
  · nlinarith [mul_self_nonneg (p - v)]
  · nlinarith

/-- a point in the closed box of a node is at least as far from the centre as the box -/
theorem boxDist_le (b : Box3 ℝ) (c p : V3 ℝ) (hs : 0 ≤ b.sx ∧ 0 ≤ b.sy ∧ 0 ≤ b.sz)
    (hp : b.ax ≤ p.x ∧ p.x ≤ b.ax + b.sx ∧ b.ay ≤ p.y ∧ p.y ≤ b.ay + b.sy ∧ b.az ≤ p.z ∧ p.z ≤ b.az + b.sz) :
    boxDist b c ≤ dist p c := by
  unfold boxDist dist
  apply Real.sqrt_le_sqrt
  have hx := boxDx_abs c.x b.ax b.sx p.x hs.1 hp.1 hp.2.1
  have hy := boxDx_abs c.y b.ay b.sy p.y hs.2.1 hp.2.2.1 hp.2.2.2.1
  have hz := boxDx_abs c.z b.az b.sz p.z hs.2.2 hp.2.2.2.2.1 hp.2.2.2.2.2
  linarith


/-! ### the tree built by the constructor satisfies the covering hypotheses -/

theorem mem_leavesOf_node (b : Box3 ℝ) (v : ℝ) (kids : Fin 8 → OT ℝ) (i : Nat) :
    i ∈ leavesOf (OT.node b v kids) ↔ ∃ k, i ∈ leavesOf (kids k) := by
  simp only [leavesOf, mem_foldl_append, List.not_mem_nil, false_or, List.mem_finRange, true_and]

/-- box of child `k` (`k = 4 ix + 2 iy + iz`) -/
def kidBox (b : Box3 ℝ) (k : Nat) : Box3 ℝ :=
  ⟨b.ax + ((k / 4 : Nat) : ℝ) * (b.sx * 0.5), b.ay + ((k / 2 % 2 : Nat) : ℝ) * (b.sy * 0.5),
   b.az + ((k % 2 : Nat) : ℝ) * (b.sz * 0.5), b.sx * 0.5, b.sy * 0.5, b.sz * 0.5⟩

theorem childIdx_real (p a s : ℝ) (hs : 0 < s) (h1 : a ≤ p) (h2 : p < a + s) :
    (p < a + s * 0.5 → childIdx p a s = 0) ∧ (a + s * 0.5 ≤ p → childIdx p a s = 1) := by
  have hq : 0 ≤ 2.0 * (p - a) / s := by
    apply div_nonneg _ hs.le; norm_num; linarith
  unfold childIdx
  constructor
  · intro h
    rw [toNat_eq_iff _ hq]
    refine ⟨by simpa using hq, ?_⟩
    rw [div_lt_iff₀ hs]; norm_num at h ⊢; linarith
  · intro h
    rw [toNat_eq_iff _ hq]
    constructor
    · rw [le_div_iff₀ hs]; norm_num at h ⊢; linarith
    · rw [div_lt_iff₀ hs]; norm_num; linarith

theorem childIdx_cases (p a s : ℝ) (hs : 0 < s) (h1 : a ≤ p) (h2 : p < a + s) :
    (childIdx p a s = 0 ∧ p < a + s * 0.5) ∨ (childIdx p a s = 1 ∧ a + s * 0.5 ≤ p) := by
  have := childIdx_real p a s hs h1 h2
  rcases lt_or_ge p (a + s * 0.5) with h | h
  · exact Or.inl ⟨this.1 h, h⟩
  · exact Or.inr ⟨this.2 h, h⟩

theorem subBox_spec (b : Box3 ℝ) (p : V3 ℝ) (hb : PosBox b) (hp : InBox b p) :
    cellOf p b < 8 ∧ subBox b p = kidBox b (cellOf p b) ∧ InBox (subBox b p) p := by
  obtain ⟨hx1, hx2, hy1, hy2, hz1, hz2⟩ := hp
  obtain ⟨sx, sy, sz⟩ := hb
  unfold cellOf subBox kidBox InBox
  simp only [ofNat_real]
  rcases childIdx_cases p.x b.ax b.sx sx hx1 hx2 with ⟨ex, cx⟩ | ⟨ex, cx⟩ <;>
  rcases childIdx_cases p.y b.ay b.sy sy hy1 hy2 with ⟨ey, cy⟩ | ⟨ey, cy⟩ <;>
  rcases childIdx_cases p.z b.az b.sz sz hz1 hz2 with ⟨ez, cz⟩ | ⟨ez, cz⟩ <;>
  · rw [ex, ey, ez]
    norm_num at cx cy cz ⊢
    refine ⟨?_, ?_, ?_, ?_, ?_, ?_⟩ <;> linarith

theorem kidBox_pos (b : Box3 ℝ) (k : Nat) (hb : PosBox b) : PosBox (kidBox b k) := by
  obtain ⟨sx, sy, sz⟩ := hb
  unfold PosBox kidBox
  norm_num
  exact ⟨sx, sy, sz⟩

theorem kidBox_sub (b : Box3 ℝ) (k : Fin 8) (p : V3 ℝ) (hb : PosBox b) (hp : InBox (kidBox b k.val) p) :
    InBox b p := by
  obtain ⟨sx, sy, sz⟩ := hb
  unfold InBox kidBox at *
  fin_cases k <;>
  · norm_num at hp ⊢
    obtain ⟨h1, h2, h3, h4, h5, h6⟩ := hp
    refine ⟨?_, ?_, ?_, ?_, ?_, ?_⟩ <;> linarith

/-- the structural invariant of `add_position`: a node's box is the box that is passed down, a
child lives in its octant, a leaf's position lies in its box -/
def Boxed (pos : Nat → V3 ℝ) : OT ℝ → Box3 ℝ → Prop
  | .empty, _ => True
  | .leaf i, b => InBox b (pos i)
  | .node b' _ kids, b => b' = b ∧ ∀ k : Fin 8, Boxed pos (kids k) (kidBox b k.val)

theorem boxed_leaves (pos : Nat → V3 ℝ) : ∀ (t : OT ℝ) (b : Box3 ℝ), PosBox b → Boxed pos t b →
    ∀ i ∈ leavesOf t, InBox b (pos i) := by
  intro t
  induction t with
  | empty => intro b _ _ i hi; simp [leavesOf] at hi
  | leaf j => intro b _ h i hi; simp only [leavesOf, List.mem_singleton] at hi; subst hi; exact h
  | node b' v kids ih =>
    intro b hb h i hi
    obtain ⟨_, hk⟩ := h
    rw [mem_leavesOf_node] at hi
    obtain ⟨k, hik⟩ := hi
    exact kidBox_sub b k _ hb (ih k _ (kidBox_pos b k.val hb) (hk k) i hik)


theorem setKid_apply (kids : Fin 8 → OT ℝ) (k : Nat) (t : OT ℝ) (j : Fin 8) :
    setKid kids k t j = if j.val = k % 8 then t else kids j := rfl

/-- the common tail of `add_position`, given the children of the (possibly new) node -/
theorem addPos_step (pos : Nat → V3 ℝ) (index fuel : Nat) (box : Box3 ℝ) (hb : PosBox box)
    (hin : InBox box (pos index))
    (ih : ∀ (t : OT ℝ) (b : Box3 ℝ), PosBox b → Boxed pos t b → InBox b (pos index) →
      Boxed pos (addPos pos index fuel t b) b)
    (kids : Fin 8 → OT ℝ) (hk : ∀ k : Fin 8, Boxed pos (kids k) (kidBox box k.val)) :
    Boxed pos (OT.node box 0.0 (setKid kids (cellOf (pos index) box) (.leaf index))) box ∧
    ∀ child, getKid kids (cellOf (pos index) box) = child →
      Boxed pos (OT.node box 0.0 (setKid kids (cellOf (pos index) box)
          (addPos pos index fuel child (subBox box (pos index))))) box := by
  obtain ⟨hlt, hsub, hinsub⟩ := subBox_spec box (pos index) hb hin
  have hmod : cellOf (pos index) box % 8 = cellOf (pos index) box := Nat.mod_eq_of_lt hlt
  have hkid : Boxed pos (getKid kids (cellOf (pos index) box)) (kidBox box (cellOf (pos index) box)) := by
    have h0 := hk ⟨cellOf (pos index) box % 8, Nat.mod_lt _ (by decide)⟩
    have e : kidBox box (cellOf (pos index) box % 8) = kidBox box (cellOf (pos index) box) := by rw [hmod]
    rw [← e]; exact h0
  have key : ∀ new : OT ℝ, Boxed pos new (subBox box (pos index)) →
      Boxed pos (OT.node box 0.0 (setKid kids (cellOf (pos index) box) new)) box := by
    intro new hnew
    refine ⟨rfl, ?_⟩
    intro j
    rw [setKid_apply]
    split_ifs with hj
    · rw [hj, hmod, ← hsub]; exact hnew
    · exact hk j
  refine ⟨key _ hinsub, ?_⟩
  intro child hc
  apply key
  apply ih _ _ (by rw [hsub]; exact kidBox_pos _ _ hb) _ hinsub
  rw [← hc, hsub]; exact hkid

theorem addPos_boxed (pos : Nat → V3 ℝ) (index : Nat) : ∀ (fuel : Nat) (t : OT ℝ) (b : Box3 ℝ),
    PosBox b → Boxed pos t b → InBox b (pos index) → Boxed pos (addPos pos index fuel t b) b := by
  intro fuel
  induction fuel with
  | zero => intro t b _ h _; exact h
  | succ fuel ih =>
    intro t box hb ht hin
    cases t with
    | empty =>
      have st := addPos_step pos index fuel box hb hin ih (fun _ => OT.empty) (fun _ => trivial)
      simp only [addPos]
      split
      · exact st.1
      · exact st.2 _ rfl
    | leaf old =>
      have st := addPos_step pos index fuel box hb hin ih
        (setKid (fun _ => OT.empty) (cellOf (pos old) box) (.leaf old)) (by
          intro j
          rw [setKid_apply]
          obtain ⟨hlt, hsub, hinsub⟩ := subBox_spec box (pos old) hb ht
          split_ifs with hj
          · rw [hj, Nat.mod_eq_of_lt hlt, ← hsub]; exact hinsub
          · trivial)
      simp only [addPos]
      split
      · exact st.1
      · exact st.2 _ rfl
    | node b' v kids =>
      obtain ⟨rfl, hk⟩ := ht
      have st := addPos_step pos index fuel b' hb hin ih kids hk
      simp only [addPos]
      split
      · exact st.1
      · exact st.2 _ rfl


theorem fmax_ge (a b : ℝ) : a ≤ fmax a b ∧ b ≤ fmax a b := by
  unfold fmax; split_ifs with h
  · exact ⟨h.le, le_refl _⟩
  · exact ⟨le_refl _, not_lt.mp h⟩

/-- the accumulation loop of `set_variable`: the result bounds the start value and the value of
every existing child -/
theorem accVar_ge (kids : Fin 8 → OT ℝ) (r : Fin 8 → ℝ) (l : List (Fin 8)) : ∀ (a : Option ℝ) (x : ℝ),
    ((∃ y, a = some y ∧ x ≤ y) ∨ ∃ i ∈ l, kids i ≠ .empty ∧ x = r i) →
    ∃ v, l.foldl (accStep kids r) a = some v ∧ x ≤ v := by
  induction l with
  | nil =>
    intro a x hx
    rcases hx with ⟨y, hy, hxy⟩ | ⟨i, hi, _⟩
    · exact ⟨y, hy, hxy⟩
    · simp at hi
  | cons j js ih =>
    intro a x hx
    simp only [List.foldl_cons]
    apply ih
    rcases hx with ⟨y, rfl, hxy⟩ | ⟨i, hi, hne, hxi⟩
    · left
      unfold accStep
      split
      · exact ⟨y, rfl, hxy⟩
      · exact ⟨_, rfl, hxy.trans (fmax_ge _ _).1⟩
    · rcases List.mem_cons.mp hi with rfl | hi
      · left
        unfold accStep
        split
        · rename_i he; exact absurd he hne
        · cases a with
          | none => exact ⟨_, rfl, hxi.le⟩
          | some v => exact ⟨_, rfl, hxi.le.trans (fmax_ge _ _).2⟩
      · right; exact ⟨i, hi, hne, hxi⟩

theorem leavesOf_ne_empty (t : OT ℝ) (i : Nat) (hi : i ∈ leavesOf t) : t ≠ .empty := by
  intro h; subst h; simp [leavesOf] at hi

theorem setVar_leaves (h : Nat → ℝ) : ∀ t : OT ℝ, leavesOf (setVar h t).1 = leavesOf t := by
  intro t
  induction t with
  | empty => rfl
  | leaf j => rfl
  | node b v kids ih =>
    simp only [setVar, leavesOf]
    congr 1
    funext acc i
    rw [ih i]

theorem setVar_boxed (pos : Nat → V3 ℝ) (h : Nat → ℝ) : ∀ (t : OT ℝ) (b : Box3 ℝ),
    Boxed pos t b → Boxed pos (setVar h t).1 b := by
  intro t
  induction t with
  | empty => intro b hb; exact hb
  | leaf j => intro b hb; exact hb
  | node b' v kids ih =>
    intro b hb
    obtain ⟨e, hk⟩ := hb
    exact ⟨e, fun k => ih k _ (hk k)⟩

/-- the variable of a subtree bounds the variables of all its points -/
theorem setVar_ge (h : Nat → ℝ) : ∀ (t : OT ℝ), ∀ i ∈ leavesOf t, h i ≤ (setVar h t).2 := by
  intro t
  induction t with
  | empty => intro i hi; simp [leavesOf] at hi
  | leaf j => intro i hi; simp only [leavesOf, List.mem_singleton] at hi; subst hi; exact le_refl _
  | node b v kids ih =>
    intro i hi
    rw [mem_leavesOf_node] at hi
    obtain ⟨k, hik⟩ := hi
    obtain ⟨w, hw, hle⟩ := accVar_ge kids (fun i => (setVar h (kids i)).2) (List.finRange 8) none
      (setVar h (kids k)).2 (Or.inr ⟨k, List.mem_finRange k, leavesOf_ne_empty _ _ hik, rfl⟩)
    simp only [setVar, hw, accGet]
    exact (ih k i hik).trans hle

/-- the tree built by `add_position` + `set_variable` satisfies the covering hypotheses for the
Euclidean distances -/
theorem setVar_covered (pos : Nat → V3 ℝ) (h : Nat → ℝ) (c : V3 ℝ) : ∀ (t : OT ℝ) (b : Box3 ℝ),
    PosBox b → Boxed pos t b →
    Covered (fun i => dist (pos i) c) (fun b => boxDist b c) h (setVar h t).1 := by
  intro t
  induction t with
  | empty => intro b _ _; exact Covered.empty
  | leaf j => intro b _ _; exact Covered.leaf j
  | node b' v kids ih =>
    intro b hb hbx
    have hl := setVar_leaves h (OT.node b' v kids)
    have hv := setVar_ge h (OT.node b' v kids)
    have hin := boxed_leaves pos _ _ hb hbx
    obtain ⟨rfl, hk⟩ := hbx
    simp only [setVar] at hl hv ⊢
    refine Covered.node _ _ _ ?_ ?_ ?_
    · intro i hi
      rw [hl] at hi
      obtain ⟨h1, h2, h3, h4, h5, h6⟩ := hin i hi
      exact boxDist_le b' c (pos i) ⟨hb.1.le, hb.2.1.le, hb.2.2.le⟩ ⟨h1, h2.le, h3, h4.le, h5, h6.le⟩
    · intro i hi
      rw [hl] at hi
      exact hv i hi
    · intro k
      exact ih k _ (kidBox_pos _ _ hb) (hk k)


theorem mem_setKid (b : Box3 ℝ) (v : ℝ) (kids : Fin 8 → OT ℝ) (c : Nat) (new : OT ℝ) (i : Nat) :
    i ∈ leavesOf (OT.node b v (setKid kids c new)) ↔
      i ∈ leavesOf new ∨ ∃ k : Fin 8, k.val ≠ c % 8 ∧ i ∈ leavesOf (kids k) := by
  rw [mem_leavesOf_node]
  constructor
  · rintro ⟨k, hk⟩
    rw [setKid_apply] at hk
    split_ifs at hk with hj
    · exact Or.inl hk
    · exact Or.inr ⟨k, hj, hk⟩
  · rintro (hn | ⟨k, hj, hk⟩)
    · refine ⟨⟨c % 8, Nat.mod_lt _ (by decide)⟩, ?_⟩
      rw [setKid_apply, if_pos rfl]; exact hn
    · refine ⟨k, ?_⟩
      rw [setKid_apply, if_neg hj]; exact hk

theorem mem_kids_split (kids : Fin 8 → OT ℝ) (c : Nat) (i : Nat) :
    (∃ k, i ∈ leavesOf (kids k)) ↔
      i ∈ leavesOf (getKid kids c) ∨ ∃ k : Fin 8, k.val ≠ c % 8 ∧ i ∈ leavesOf (kids k) := by
  constructor
  · rintro ⟨k, hk⟩
    by_cases hj : k.val = c % 8
    · left
      have : k = ⟨c % 8, Nat.mod_lt _ (by decide)⟩ := Fin.ext hj
      rw [this] at hk; exact hk
    · exact Or.inr ⟨k, hj, hk⟩
  · rintro (hn | ⟨k, _, hk⟩)
    · exact ⟨_, hn⟩
    · exact ⟨k, hk⟩

/-- `add_position` adds at most the new index and loses nothing -/
theorem addPos_leaves (pos : Nat → V3 ℝ) (index : Nat) : ∀ (fuel : Nat) (t : OT ℝ) (box : Box3 ℝ) (i : Nat),
    (i ∈ leavesOf (addPos pos index fuel t box) → i ∈ leavesOf t ∨ i = index) ∧
    (i ∈ leavesOf t → i ∈ leavesOf (addPos pos index fuel t box)) := by
  intro fuel
  induction fuel with
  | zero => intro t box i; exact ⟨Or.inl, id⟩
  | succ fuel ih =>
    intro t box i
    have step : ∀ kids : Fin 8 → OT ℝ,
        (getKid kids (cellOf (pos index) box) = .empty →
          ((i ∈ leavesOf (OT.node box 0.0 (setKid kids (cellOf (pos index) box) (.leaf index))) →
            (∃ k, i ∈ leavesOf (kids k)) ∨ i = index) ∧
           ((∃ k, i ∈ leavesOf (kids k)) →
            i ∈ leavesOf (OT.node box 0.0 (setKid kids (cellOf (pos index) box) (.leaf index)))))) ∧
        (∀ b' : Box3 ℝ, ((i ∈ leavesOf (OT.node b' 0.0 (setKid kids (cellOf (pos index) box)
            (addPos pos index fuel (getKid kids (cellOf (pos index) box)) (subBox box (pos index))))) →
            (∃ k, i ∈ leavesOf (kids k)) ∨ i = index) ∧
           ((∃ k, i ∈ leavesOf (kids k)) →
            i ∈ leavesOf (OT.node b' 0.0 (setKid kids (cellOf (pos index) box)
            (addPos pos index fuel (getKid kids (cellOf (pos index) box)) (subBox box (pos index)))))))) := by
      intro kids
      constructor
      · intro he
        rw [mem_setKid, mem_kids_split kids (cellOf (pos index) box), he]
        simp only [leavesOf, List.mem_singleton, List.not_mem_nil, false_or]
        exact ⟨fun h => h.elim Or.inr Or.inl, Or.inr⟩
      · intro b'
        rw [mem_setKid, mem_kids_split kids (cellOf (pos index) box)]
        have := ih (getKid kids (cellOf (pos index) box)) (subBox box (pos index)) i
        constructor
        · rintro (h | h)
          · rcases this.1 h with h | h
            · exact Or.inl (Or.inl h)
            · exact Or.inr h
          · exact Or.inl (Or.inr h)
        · rintro (h | h)
          · exact Or.inl (this.2 h)
          · exact Or.inr h
    cases t with
    | empty =>
      have st := step (fun _ => OT.empty)
      simp only [addPos]
      split
      · rename_i he
        have := st.1 he
        simp only [leavesOf, List.not_mem_nil, exists_false, false_or] at this ⊢
        exact ⟨this.1, fun h => h.elim⟩
      · rename_i child hne
        exact absurd rfl hne
    | leaf old =>
      have st := step (setKid (fun _ => OT.empty) (cellOf (pos old) box) (.leaf old))
      have hL : (∃ k, i ∈ leavesOf (setKid (fun _ => (OT.empty : OT ℝ)) (cellOf (pos old) box) (.leaf old) k)) ↔
          i ∈ leavesOf (OT.leaf old : OT ℝ) := by
        rw [← mem_leavesOf_node box 0.0, mem_setKid]
        simp [leavesOf]
      simp only [addPos]
      rw [← hL]
      split
      · rename_i he; exact st.1 he
      · exact st.2 box
    | node b' v kids =>
      have st := step kids
      simp only [addPos]
      rw [mem_leavesOf_node]
      split
      · rename_i he; exact st.1 he
      · exact st.2 b'


theorem addPos_isNode (pos : Nat → V3 ℝ) (index fuel : Nat) (t : OT ℝ) (box : Box3 ℝ) :
    ∃ b v kids, addPos pos index (fuel + 1) t box = OT.node b v kids := by
  cases t <;> simp only [addPos] <;> split <;> exact ⟨_, _, _, rfl⟩

/-- the loop of the constructor keeps the invariant and stores only indices below `n` -/
theorem buildLoop_spec (pos : Nat → V3 ℝ) (n : Nat) (box : Box3 ℝ) (hb : PosBox box)
    (hin : ∀ i < n, InBox box (pos i)) : ∀ (l : List Nat), (∀ j ∈ l, j + 1 < n) → ∀ t : OT ℝ,
    (Boxed pos t box ∧ ∀ i ∈ leavesOf t, i < n) →
    (Boxed pos (l.foldl (fun t i => addPos pos (i + 1) 64 t box) t) box ∧
      ∀ i ∈ leavesOf (l.foldl (fun t i => addPos pos (i + 1) 64 t box) t), i < n) := by
  intro l
  induction l with
  | nil => intro _ t h; exact h
  | cons j js ih =>
    intro hl t h
    simp only [List.foldl_cons]
    apply ih (fun k hk => hl k (List.mem_cons_of_mem _ hk))
    have hj := hl j List.mem_cons_self
    refine ⟨addPos_boxed pos (j + 1) 64 t box hb h.1 (hin _ hj), ?_⟩
    intro i hi
    rcases (addPos_leaves pos (j + 1) 64 t box i).1 hi with h' | h'
    · exact h.2 i h'
    · rw [h']; exact hj

theorem foldl_isNode (pos : Nat → V3 ℝ) (box : Box3 ℝ) : ∀ (l : List Nat) (t : OT ℝ),
    (l ≠ [] ∨ ∃ b v kids, t = OT.node b v kids) →
    ∃ b v kids, l.foldl (fun t i => addPos pos (i + 1) 64 t box) t = OT.node b v kids := by
  intro l
  induction l with
  | nil => intro t h; rcases h with h | h; exact absurd rfl h; exact h
  | cons j js ih =>
    intro t _
    simp only [List.foldl_cons]
    exact ih _ (Or.inr (addPos_isNode pos (j + 1) 63 t box))

theorem setVar_isNode (h : Nat → ℝ) (t : OT ℝ) (ht : ∃ b v kids, t = OT.node b v kids) :
    ∃ b v kids, (setVar h t).1 = OT.node b v kids := by
  obtain ⟨b, v, kids, rfl⟩ := ht
  exact ⟨_, _, _, rfl⟩

/-- the constructed tree: covering hypotheses hold and only indices below `n` are stored (for
every `n`, incl. the one-position tree whose root is a leaf and the empty tree) -/
theorem build_spec (pos : Nat → V3 ℝ) (n : Nat) (box : Box3 ℝ) (h : Nat → ℝ) (c : V3 ℝ) (hb : PosBox box)
    (hin : ∀ i < n, InBox box (pos i)) :
    Covered (fun i => dist (pos i) c) (fun b => boxDist b c) h (build pos n box h) ∧
    (∀ i ∈ leavesOf (build pos n box h), i < n) := by
  unfold build
  by_cases hn : n = 0
  · rw [if_pos hn]
    exact ⟨Covered.empty, fun i hi => by simp [leavesOf] at hi⟩
  rw [if_neg hn]
  have hl : ∀ j ∈ List.range (n - 1), j + 1 < n := by
    intro j hj; rw [List.mem_range] at hj; omega
  have h0 : Boxed pos (OT.leaf 0 : OT ℝ) box ∧ ∀ i ∈ leavesOf (OT.leaf 0 : OT ℝ), i < n := by
    refine ⟨hin 0 (by omega), ?_⟩
    intro i hi; simp only [leavesOf, List.mem_singleton] at hi; omega
  have sp := buildLoop_spec pos n box hb hin _ hl _ h0
  refine ⟨setVar_covered pos h c _ box hb sp.1, ?_⟩
  intro i hi
  simp only [setVar_leaves] at hi
  exact sp.2 i hi

/-- the searches start below the root (at the root itself if it is a leaf): same statement for
`searchRoot` -/
theorem searchRoot_eq_filter (pd : Nat → ℝ) (bd : Box3 ℝ → ℝ) (h : Nat → ℝ) (radius : Option ℝ)
    (hr : ∀ r, radius = some r → 0 ≤ r) (t : OT ℝ) (hc : Covered pd bd h t) :
    searchRoot pd bd h radius t = (leavesOf t).filter (fun i => decide (pd i ≤ limOf h radius i)) := by
  cases hc with
  | empty => exact search_eq_filter pd bd h radius hr _ Covered.empty
  | leaf i => exact search_eq_filter pd bd h radius hr _ (Covered.leaf i)
  | node b v kids _ _ hk =>
    simp only [searchRoot, leavesOf]
    rw [filter_foldl_append]
    simp only [List.filter_nil]
    congr 1
    funext acc i
    rw [search_eq_filter pd bd h radius hr _ (hk i)]

end CMacVerif.Oct
