import CMacVerif.Model.ExactRiemann
import CMacVerif.Inst.Real
import Mathlib.Analysis.SpecialFunctions.Pow.Continuity
import Mathlib.Topology.Order.IntermediateValue
import Mathlib.Tactic.Linarith
import Mathlib.Tactic.FieldSimp
import Mathlib.Tactic.Ring
import Mathlib.Tactic.NormNum
import Mathlib.Tactic.Positivity
import Mathlib.Tactic.LinearCombination
/-!
Helper lemmas for C11: the model `Model/ExactRiemann.lean` instantiated at `ℝ`.
-/
namespace CMacVerif.ExactRiemann
open CMacVerif Set

@[simp] theorem sqrt_real (x : ℝ) : ArithFns.sqrt x = Real.sqrt x := rfl
@[simp] theorem pow_real (x y : ℝ) : ArithFns.pow x y = x ^ y := rfl
@[simp] theorem abs_real (x : ℝ) : ArithFns.abs x = |x| := rfl

/-! ### the constants of the constructor -/

/-- what the constructor establishes: `γ > 1` (it clamps to `1.00000001`) and the derived constants
are the named rational functions of `γ` -/
structure CRel (c : Consts ℝ) : Prop where
  g1 : 1 < c.gamma
  gp1d2g : c.gp1d2g = (c.gamma + 1) / (2 * c.gamma)
  gm1d2g : c.gm1d2g = (c.gamma - 1) / (2 * c.gamma)
  gm1dgp1 : c.gm1dgp1 = (c.gamma - 1) / (c.gamma + 1)
  tdgp1 : c.tdgp1 = 2 / (c.gamma + 1)
  tdgm1 : c.tdgm1 = 2 / (c.gamma - 1)
  gm1d2 : c.gm1d2 = (c.gamma - 1) / 2
  tgdgm1 : c.tgdgm1 = 2 * c.gamma / (c.gamma - 1)
  ginv : c.ginv = 1 / c.gamma

theorem mk_rel (g : ℝ) : CRel (mkConsts g) := by
  simp only [mkConsts]
  have h1 : (1:ℝ) < amax g 1.00000001 := by
    rw [amax_real]; exact lt_of_lt_of_le (by norm_num) (le_max_right _ _)
  have h0 : (0:ℝ) < amax g 1.00000001 := by linarith
  generalize amax g 1.00000001 = γ at *
  refine ⟨h1, ?_, ?_, ?_, ?_, ?_, ?_, ?_, ?_⟩ <;> norm_num <;> field_simp

namespace CRel
variable {c : Consts ℝ} (h : CRel c)
include h
theorem g0 : 0 < c.gamma := by have := h.g1; linarith
theorem gm1 : 0 < c.gamma - 1 := by have := h.g1; linarith
theorem gp1 : 0 < c.gamma + 1 := by have := h.g1; linarith
theorem gm1d2g_pos : 0 < c.gm1d2g := by
  rw [h.gm1d2g]; exact div_pos h.gm1 (by have := h.g0; linarith)
theorem gp1d2g_pos : 0 < c.gp1d2g := by
  rw [h.gp1d2g]; exact div_pos h.gp1 (by have := h.g0; linarith)
theorem gm1dgp1_pos : 0 < c.gm1dgp1 := by rw [h.gm1dgp1]; exact div_pos h.gm1 h.gp1
theorem tdgp1_pos : 0 < c.tdgp1 := by rw [h.tdgp1]; exact div_pos (by norm_num) h.gp1
theorem tdgm1_pos : 0 < c.tdgm1 := by rw [h.tdgm1]; exact div_pos (by norm_num) h.gm1
theorem tgdgm1_pos : 0 < c.tgdgm1 := by
  rw [h.tgdgm1]; exact div_pos (by have := h.g0; linarith) h.gm1
theorem ginv_pos : 0 < c.ginv := by rw [h.ginv]; exact div_pos (by norm_num) h.g0
end CRel

/-! ### the pressure function of one state -/

section fbSection
variable {c : Consts ℝ} {P A B Pinv afac : ℝ}

theorem fb_shock {p : ℝ} (hp : P < p) :
    fb c P A B Pinv afac p = (p - P) * Real.sqrt (A / (p + B)) := by
  simp only [fb, if_pos hp, sqrt_real]

theorem fb_raref {p : ℝ} (hp : p ≤ P) :
    fb c P A B Pinv afac p = afac * ((p * Pinv) ^ c.gm1d2g - 1) := by
  have : ¬ P < p := not_lt.mpr hp
  simp only [fb, if_neg this, pow_real]; norm_num

/-- the rarefaction formula vanishes at `p = P` (and so does the shock formula, trivially): the
two branches of `fb` agree there -/
theorem raref_at_P (c : Consts ℝ) (afac : ℝ) (hP : P * Pinv = 1) :
    afac * ((P * Pinv) ^ c.gm1d2g - 1) = 0 := by
  rw [hP, Real.one_rpow]; ring

theorem shock_at_P (P A B : ℝ) : (P - P) * Real.sqrt (A / (P + B)) = 0 := by simp

theorem fb_at_P (hP : P * Pinv = 1) : fb c P A B Pinv afac P = 0 := by
  rw [fb_raref (le_refl P)]; exact raref_at_P c afac hP

/-- `fb` as a sum of the shock formula at `max p P` and the rarefaction formula at `min p P` -/
theorem fb_eq_max_min (hP : P * Pinv = 1) (p : ℝ) :
    fb c P A B Pinv afac p = (max p P - P) * Real.sqrt (A / (max p P + B))
      + afac * ((min p P * Pinv) ^ c.gm1d2g - 1) := by
  rcases lt_or_ge P p with hp | hp
  · rw [fb_shock hp, max_eq_left hp.le, min_eq_right hp.le, raref_at_P c afac hP]; ring
  · rw [fb_raref hp, max_eq_right hp, min_eq_left hp]; simp

theorem fb_continuous (hc : CRel c) (hP : P * Pinv = 1) (hPpos : 0 < P) (hB : 0 ≤ B) :
    Continuous (fb c P A B Pinv afac) := by
  have hfun : fb c P A B Pinv afac = fun p => (max p P - P) * Real.sqrt (A / (max p P + B))
      + afac * ((min p P * Pinv) ^ c.gm1d2g - 1) := funext (fb_eq_max_min hP)
  rw [hfun]
  have hmax : Continuous fun p : ℝ => max p P := continuous_id.max continuous_const
  have hmin : Continuous fun p : ℝ => min p P := continuous_id.min continuous_const
  have hne : ∀ p : ℝ, max p P + B ≠ 0 := fun p => by
    have := le_max_right p P; linarith
  have h1 : Continuous fun p : ℝ => (max p P - P) * Real.sqrt (A / (max p P + B)) :=
    (hmax.sub continuous_const).mul
      (Real.continuous_sqrt.comp (continuous_const.div (hmax.add continuous_const) hne))
  have h2 : Continuous fun p : ℝ => afac * ((min p P * Pinv) ^ c.gm1d2g - 1) :=
    continuous_const.mul
      (((Real.continuous_rpow_const hc.gm1d2g_pos.le).comp (hmin.mul continuous_const)).sub
        continuous_const)
  exact h1.add h2

/-- the shock branch is strictly increasing -/
theorem shock_strict (hA : 0 < A) (hPB : 0 < P + B) {p q : ℝ} (hp : P < p) (hpq : p < q) :
    (p - P) * Real.sqrt (A / (p + B)) < (q - P) * Real.sqrt (A / (q + B)) := by
  have hpB : 0 < p + B := by linarith
  have hqB : 0 < q + B := by linarith
  have e : ∀ x : ℝ, P < x → (x - P) * Real.sqrt (A / (x + B))
      = Real.sqrt ((x - P) ^ 2 * (A / (x + B))) := fun x hx => by
    rw [Real.sqrt_mul (sq_nonneg _), Real.sqrt_sq (by linarith)]
  rw [e p hp, e q (by linarith)]
  apply Real.sqrt_lt_sqrt (by positivity)
  have key : (q - P) ^ 2 * (A / (q + B)) - (p - P) ^ 2 * (A / (p + B))
      = A * ((q - p) * ((p - P) * (q - P) + (P + B) * ((q - P) + (p - P))))
        / ((p + B) * (q + B)) := by
    field_simp; ring
  have hnum : 0 < A * ((q - p) * ((p - P) * (q - P) + (P + B) * ((q - P) + (p - P)))) := by
    have h1 : 0 < q - p := by linarith
    have h2 : 0 < p - P := by linarith
    have h3 : 0 < q - P := by linarith
    positivity
  have : 0 < (q - P) ^ 2 * (A / (q + B)) - (p - P) ^ 2 * (A / (p + B)) := by
    rw [key]; positivity
  linarith

theorem fb_pos_of_gt (hA : 0 < A) (hPB : 0 < P + B) {p : ℝ} (hp : P < p) :
    0 < fb c P A B Pinv afac p := by
  rw [fb_shock hp]
  have : 0 < A / (p + B) := div_pos hA (by linarith)
  exact mul_pos (by linarith) (Real.sqrt_pos.mpr this)

theorem fb_nonpos_of_le (hc : CRel c) (hPinv : 0 < Pinv) (hP : P * Pinv = 1) (hafac : 0 ≤ afac)
    {p : ℝ} (h0 : 0 ≤ p) (hp : p ≤ P) : fb c P A B Pinv afac p ≤ 0 := by
  rw [fb_raref hp]
  have h1 : (p * Pinv) ^ c.gm1d2g ≤ 1 := by
    apply Real.rpow_le_one (by positivity) _ hc.gm1d2g_pos.le
    calc p * Pinv ≤ P * Pinv := by gcongr
      _ = 1 := hP
  nlinarith

/-- `fb` is strictly increasing on `[0, ∞)` -/
theorem fb_strictMonoOn (hc : CRel c) (hA : 0 < A) (hB : 0 ≤ B) (hPpos : 0 < P) (hPinv : 0 < Pinv)
    (hP : P * Pinv = 1) (hafac : 0 < afac) :
    StrictMonoOn (fb c P A B Pinv afac) (Ici 0) := by
  intro p hp q _ hpq
  have hp0 : (0:ℝ) ≤ p := hp
  rcases le_or_gt q P with hq | hq
  · -- both on the rarefaction branch
    rw [fb_raref (by linarith), fb_raref hq]
    have : (p * Pinv) ^ c.gm1d2g < (q * Pinv) ^ c.gm1d2g :=
      Real.rpow_lt_rpow (by positivity) (by nlinarith) hc.gm1d2g_pos
    nlinarith
  · rcases le_or_gt p P with hpP | hpP
    · exact lt_of_le_of_lt (fb_nonpos_of_le hc hPinv hP hafac.le hp0 hpP)
        (fb_pos_of_gt hA (by linarith) hq)
    · rw [fb_shock hpP, fb_shock hq]
      exact shock_strict hA (by linarith) hpP hpq

end fbSection

/-! ### the pressure function `f` -/

section fSection
variable {c : Consts ℝ} {PL AL BL PLinv aLfac PR AR BR PRinv aRfac udiff : ℝ}

theorem f_continuous (hc : CRel c) (hL : PL * PLinv = 1) (hPL : 0 < PL) (hBL : 0 ≤ BL)
    (hR : PR * PRinv = 1) (hPR : 0 < PR) (hBR : 0 ≤ BR) :
    Continuous (f c PL AL BL PLinv aLfac PR AR BR PRinv aRfac udiff) := by
  have : f c PL AL BL PLinv aLfac PR AR BR PRinv aRfac udiff = fun p =>
      fb c PL AL BL PLinv aLfac p + fb c PR AR BR PRinv aRfac p + udiff := rfl
  rw [this]
  exact ((fb_continuous hc hL hPL hBL).add (fb_continuous hc hR hPR hBR)).add continuous_const

theorem f_strictMonoOn (hc : CRel c)
    (hAL : 0 < AL) (hBL : 0 ≤ BL) (hPL : 0 < PL) (hPLinv : 0 < PLinv) (hL : PL * PLinv = 1)
    (haL : 0 < aLfac)
    (hAR : 0 < AR) (hBR : 0 ≤ BR) (hPR : 0 < PR) (hPRinv : 0 < PRinv) (hR : PR * PRinv = 1)
    (haR : 0 < aRfac) :
    StrictMonoOn (f c PL AL BL PLinv aLfac PR AR BR PRinv aRfac udiff) (Ici 0) := by
  intro p hp q hq hpq
  have h1 := fb_strictMonoOn hc hAL hBL hPL hPLinv hL haL hp hq hpq
  have h2 := fb_strictMonoOn hc hAR hBR hPR hPRinv hR haR hp hq hpq
  simp only [f]; linarith

/-- `f(0) = u_R - u_L - 2a_L/(γ-1) - 2a_R/(γ-1)`: negative exactly when no vacuum is generated -/
theorem f_zero (hc : CRel c) (hPL : 0 < PL) (hPR : 0 < PR) :
    f c PL AL BL PLinv aLfac PR AR BR PRinv aRfac udiff 0 = udiff - aLfac - aRfac := by
  simp only [f]
  rw [fb_raref hPL.le, fb_raref hPR.le]
  simp only [zero_mul]
  rw [Real.zero_rpow hc.gm1d2g_pos.ne']; ring

end fSection

/-! ### Brent's method: the bracket invariant (for an arbitrary function `F`) -/

section brent
variable (F : ℝ → ℝ)

/-- invariant of the Brent loop: cached function values are correct, the end points carry a sign
change, `b` is the better end point, and `[a,b]` stays inside the interval `I` -/
structure BInv (I : Set ℝ) (s : BState ℝ) : Prop where
  fa_eq : s.fa = F s.a
  fb_eq : s.fb = F s.b
  sign : s.fa * s.fb ≤ 0
  best : |s.fb| ≤ |s.fa|
  inside : uIcc s.a s.b ⊆ I

theorem brentInit_inv (Plow Phigh : ℝ) (hs : F Plow * F Phigh ≤ 0) :
    BInv F (uIcc Plow Phigh) (brentInit Plow Phigh (F Plow) (F Phigh)) := by
  unfold brentInit
  simp only [abs_real]
  split_ifs with h
  · exact ⟨rfl, rfl, by linarith [mul_comm (F Plow) (F Phigh)], h.le, by rw [uIcc_comm]⟩
  · exact ⟨rfl, rfl, hs, not_lt.mp h, subset_rfl⟩

theorem brentSwap_inv {I : Set ℝ} {s : BState ℝ} (h1 : s.fa = F s.a) (h2 : s.fb = F s.b)
    (h3 : s.fa * s.fb ≤ 0) (h4 : uIcc s.a s.b ⊆ I) : BInv F I (brentSwap s) := by
  unfold brentSwap
  simp only [abs_real]
  split_ifs with h
  · exact ⟨h2, h1, by linarith [mul_comm s.fa s.fb], h.le, by rw [uIcc_comm]; exact h4⟩
  · exact ⟨h1, h2, h3, not_lt.mp h, h4⟩

theorem mem_uIcc_of_between {a b x : ℝ} (h : (a ≤ x ∧ x ≤ b) ∨ (b ≤ x ∧ x ≤ a)) : x ∈ uIcc a b :=
  mem_uIcc.mpr h

/-- the new abscissa lies between `a` and `b` -/
theorem brentS_mem (s : BState ℝ) : brentS s ∈ uIcc s.a s.b := by
  unfold brentS
  split_ifs with h
  · apply mem_uIcc_of_between
    rcases le_total s.a s.b with hab | hab
    · left; constructor <;> norm_num <;> linarith
    · right; constructor <;> norm_num <;> linarith
  · -- the candidate was accepted: it lies strictly between `(3a+b)/4` and `b`
    have h' : (brentTmp2 s < brentCand s ∧ brentCand s < s.b) ∨
        (brentCand s < brentTmp2 s ∧ s.b < brentCand s) := by
      by_contra hc
      exact h (Or.inl hc)
    have ht : brentTmp2 s = (3 * s.a + s.b) / 4 := by unfold brentTmp2; norm_num; ring
    rw [ht] at h'
    apply mem_uIcc_of_between
    rcases h' with ⟨h1, h2⟩ | ⟨h1, h2⟩
    · left; constructor <;> linarith
    · right; constructor <;> linarith

theorem brentStep_inv {I : Set ℝ} {s : BState ℝ} (hi : BInv F I s) (hc : brentCont s) :
    BInv F I (brentStep F s) := by
  obtain ⟨hfa, hfb, hsign, hbest, hin⟩ := hi
  have hx := brentS_mem s
  have hfb0 : s.fb ≠ 0 := by
    intro h0; apply hc.1; constructor <;> norm_num <;> rw [h0]
  have hfa0 : s.fa ≠ 0 := by
    intro h0; rw [h0, abs_zero] at hbest
    exact hfb0 (abs_eq_zero.mp (le_antisymm hbest (abs_nonneg _)))
  unfold brentStep
  apply brentSwap_inv
  all_goals unfold brentUpdate
  all_goals split_ifs with hlt
  · exact hfa
  · rfl
  · rfl
  · exact hfb
  · norm_num at hlt; exact hlt.le
  · -- `f a * f s ≥ 0`: `s` replaces `a`, the sign change stays between `s` and `b`
    norm_num at hlt
    simp only
    rcases lt_or_gt_of_ne hfa0 with ha | ha
    · have hb : 0 ≤ s.fb := by nlinarith
      have hs : F (brentS s) ≤ 0 := by nlinarith
      exact mul_nonpos_of_nonpos_of_nonneg hs hb
    · have hb : s.fb ≤ 0 := by nlinarith
      have hs : 0 ≤ F (brentS s) := by nlinarith
      exact mul_nonpos_of_nonneg_of_nonpos hs hb
  · exact (uIcc_subset_uIcc left_mem_uIcc hx).trans hin
  · exact (uIcc_subset_uIcc hx right_mem_uIcc).trans hin

theorem brentLoop_inv {I : Set ℝ} (n : ℕ) {s : BState ℝ} (hi : BInv F I s) :
    BInv F I (brentLoop F n s).1 ∧
      ((brentLoop F n s).2 = 0 ∨ ¬ brentCont (brentLoop F n s).1) := by
  induction n generalizing s with
  | zero => exact ⟨hi, Or.inl rfl⟩
  | succ n ih =>
    unfold brentLoop
    split_ifs with hc
    · exact ih (brentStep_inv F hi hc)
    · exact ⟨hi, Or.inr hc⟩

/-- leaving the loop through its condition: `f(b) = 0` or the tolerance is met -/
theorem brent_exit {s : BState ℝ} (h : ¬ brentCont s) :
    s.fb = 0 ∨ |s.a - s.b| ≤ 5e-9 * (s.a + s.b) := by
  unfold brentCont FEq at h
  simp only [abs_real] at h
  by_cases h0 : s.fb = 0
  · exact Or.inl h0
  · right
    by_contra hgt
    apply h
    refine ⟨fun hh => h0 ?_, ?_⟩
    · have e0 : (0.0:ℝ) = 0 := by norm_num
      rw [e0] at hh; exact le_antisymm hh.1 hh.2
    · norm_num at hgt ⊢
      exact hgt

/-- a sign change of a continuous function gives a root in between -/
theorem root_of_sign_change {a b : ℝ} (hF : ContinuousOn F (uIcc a b)) (hs : F a * F b ≤ 0) :
    ∃ r ∈ uIcc a b, F r = 0 := by
  have h0 : (0:ℝ) ∈ uIcc (F a) (F b) := by
    apply mem_uIcc.mpr
    rcases mul_nonpos_iff.mp hs with ⟨h1, h2⟩ | ⟨h1, h2⟩
    · exact Or.inr ⟨h2, h1⟩
    · exact Or.inl ⟨h1, h2⟩
  obtain ⟨r, hr, hr0⟩ := intermediate_value_uIcc hF h0
  exact ⟨r, hr, hr0⟩

theorem abs_sub_le_of_mem_uIcc {a b r : ℝ} (hr : r ∈ uIcc a b) : |b - r| ≤ |a - b| := by
  rcases mem_uIcc.mp hr with ⟨h1, h2⟩ | ⟨h1, h2⟩
  · rw [abs_of_nonneg (by linarith), abs_of_nonpos (by linarith)]; linarith
  · rw [abs_of_nonpos (by linarith), abs_of_nonneg (by linarith)]; linarith

end brent
/-! ### Newton phase and hand-over to Brent -/
section newton
variable (F F' : ℝ → ℝ)

/-- invariant of the Newton phase: cached values are correct and `f(Pstar) < 0` -/
structure NInv (s : NState ℝ) : Prop where
  fPstar_eq : s.fPstar = F s.Pstar
  fPguess_eq : s.fPguess = F s.Pguess
  neg : s.fPstar < 0

theorem newtonLoop_inv (n : ℕ) {s : NState ℝ} (hi : NInv F s) :
    NInv F (newtonLoop F F' n s).1 := by
  induction n generalizing s with
  | zero => exact hi
  | succ n ih =>
    unfold newtonLoop
    split_ifs with hc
    · apply ih
      refine ⟨hi.fPguess_eq, rfl, ?_⟩
      have := hc.2; norm_num at this; exact this
    · exact hi

theorem newtonPhase_inv (n : ℕ) (Pguess : ℝ) (h0 : F 0 < 0) :
    NInv F (newtonPhase F F' n Pguess).1 := by
  have e0 : (0.0:ℝ) = 0 := by norm_num
  have hi : NInv F (⟨0.0, F 0.0, Pguess, F Pguess⟩ : NState ℝ) := ⟨rfl, rfl, by rw [e0]; exact h0⟩
  unfold newtonPhase
  simp only
  split_ifs
  · exact newtonLoop_inv F F' n hi
  · exact hi

end newton
/-! ### shocks: Rankine–Hugoniot -/
section shock

/-- algebraic core: with mass flux `Q`, `Q² = ρ((γ+1)p + (γ-1)P)/2`, shock speed `u + σQ/ρ`,
post-shock velocity `u + σ(p-P)/Q` (`σ = ±1` for a right/left shock) and the post-shock density of
the sampler, the three jump conditions hold -/
theorem rh_core (γ ρ P p u σ Q : ℝ) (hγ : 1 < γ) (hP : 0 < P) (hp : 0 < p)
    (hQ : 0 < Q) (hσ : σ = 1 ∨ σ = -1) (hQ2 : Q ^ 2 = ρ * ((γ + 1) * p + (γ - 1) * P) / 2) :
    let S := u + σ * Q / ρ
    let us := u + σ * (p - P) / Q
    let ρs := ρ * (p / P + (γ - 1) / (γ + 1)) / ((γ - 1) / (γ + 1) * (p / P) + 1)
    ρs * (us - S) = ρ * (u - S) ∧
    ρs * (us - S) ^ 2 + p = ρ * (u - S) ^ 2 + P ∧
    (p * γ / (γ - 1) + ρs * (us - S) ^ 2 / 2) * (us - S)
      = (P * γ / (γ - 1) + ρ * (u - S) ^ 2 / 2) * (u - S) := by
  have hN : 0 < (γ + 1) * p + (γ - 1) * P := by
    have : 0 < γ - 1 := by linarith
    positivity
  have hD : 0 < (γ - 1) * p + (γ + 1) * P := by
    have : 0 < γ - 1 := by linarith
    positivity
  have hρ : ρ = 2 * Q ^ 2 / ((γ + 1) * p + (γ - 1) * P) := by
    field_simp; linarith
  have hg1 : γ - 1 ≠ 0 := by linarith
  have hg2 : γ + 1 ≠ 0 := by linarith
  have hD' : (γ - 1) / (γ + 1) * (p / P) + 1 ≠ 0 := by
    have : 0 < (γ - 1) / (γ + 1) * (p / P) := by
      have : 0 < γ - 1 := by linarith
      positivity
    linarith
  intro S us ρs
  have hσ2 : σ ^ 2 = 1 := by rcases hσ with rfl | rfl <;> norm_num
  obtain ⟨N, hNdef⟩ : ∃ N, N = (γ + 1) * p + (γ - 1) * P := ⟨_, rfl⟩
  obtain ⟨D, hDdef⟩ : ∃ D, D = (γ - 1) * p + (γ + 1) * P := ⟨_, rfl⟩
  rw [← hNdef] at hN hρ
  rw [← hDdef] at hD
  have hN' := hN.ne'
  have hD'' := hD.ne'
  have hQ' := hQ.ne'
  have e1 : ρs = 2 * Q ^ 2 / D := by
    have a1 : p / P + (γ - 1) / (γ + 1) = N / ((γ + 1) * P) := by rw [hNdef]; field_simp
    have a2 : (γ - 1) / (γ + 1) * (p / P) + 1 = D / ((γ + 1) * P) := by rw [hDdef]; field_simp
    simp only [ρs]
    rw [a1, a2, hρ]
    field_simp
  have e2 : u - S = -σ * N / (2 * Q) := by
    simp only [S]; rw [hρ]; field_simp; ring
  have e3 : us - S = -σ * D / (2 * Q) := by
    simp only [S, us]; rw [hρ, hNdef, hDdef]; field_simp; ring
  have hm : ρs * (us - S) = -σ * Q := by rw [e1, e3]; field_simp
  have hm0 : ρ * (u - S) = -σ * Q := by rw [e2, hρ]; field_simp
  have hk : ρs * (us - S) ^ 2 = D / 2 := by
    have h1 : ρs * (us - S) ^ 2 = (ρs * (us - S)) * (us - S) := by ring
    have h2 : -σ * Q * (-σ * D / (2 * Q)) = σ ^ 2 * D / 2 := by field_simp
    rw [h1, hm, e3, h2, hσ2]; ring
  have hk0 : ρ * (u - S) ^ 2 = N / 2 := by
    have h1 : ρ * (u - S) ^ 2 = (ρ * (u - S)) * (u - S) := by ring
    have h2 : -σ * Q * (-σ * N / (2 * Q)) = σ ^ 2 * N / 2 := by field_simp
    rw [h1, hm0, e2, h2, hσ2]; ring
  refine ⟨by rw [hm, hm0], ?_, ?_⟩
  · rw [hk, hk0, hNdef, hDdef]; ring
  · rw [hk, hk0, e2, e3, hNdef, hDdef]; field_simp; ring

end shock

/-! ### one non-vacuum state: sound speed, mass flux of a shock -/
section state
variable {c : Consts ℝ} {ρ P Pinv a : ℝ}

/-- what `solve` establishes for a state with `ρ, P > 0` -/
structure StateOK (c : Consts ℝ) (ρ P Pinv a : ℝ) : Prop where
  rho_pos : 0 < ρ
  P_pos : 0 < P
  Pinv_eq : P * Pinv = 1
  a_pos : 0 < a
  a_sq : a ^ 2 = c.gamma * P / ρ

theorem stateOK_of_solve (hc : CRel c) {ρ P : ℝ} (hρ : 0 < ρ) (hP : 0 < P) :
    StateOK c ρ P (1.0 / P) (soundspeed c (1.0 / ρ) P) := by
  have e1 : (1.0:ℝ) = 1 := by norm_num
  have hX : 0 < c.gamma * P * (1 / ρ) := by have := hc.g0; positivity
  refine ⟨hρ, hP, by rw [e1]; field_simp, ?_, ?_⟩
  · simp only [soundspeed, sqrt_real, e1]; exact Real.sqrt_pos.mpr hX
  · simp only [soundspeed, sqrt_real, e1]; rw [Real.sq_sqrt hX.le]; ring

theorem StateOK.Pinv_pos (h : StateOK c ρ P Pinv a) : 0 < Pinv := by
  have := h.Pinv_eq; have := h.P_pos
  by_contra hn
  have : P * Pinv ≤ 0 := mul_nonpos_of_nonneg_of_nonpos h.P_pos.le (not_lt.mp hn)
  linarith

theorem StateOK.Pinv_val (h : StateOK c ρ P Pinv a) : Pinv = 1 / P := by
  have := h.P_pos.ne'
  field_simp; linarith [h.Pinv_eq]

/-- the mass flux `Q` of a shock into the state: `Q = ρ a √(…)`, `Q² = ρ((γ+1)p+(γ-1)P)/2`,
`a √(…) = Q/ρ` (speed of the shock relative to the gas ahead), `√(A/(p+B)) = 1/Q` -/
theorem shock_flux (hc : CRel c) (h : StateOK c ρ P Pinv a) {p : ℝ} (hp : 0 < p) :
    ∃ Q : ℝ, 0 < Q ∧ Q ^ 2 = ρ * ((c.gamma + 1) * p + (c.gamma - 1) * P) / 2 ∧
      a * Real.sqrt (c.gp1d2g * (p * Pinv) + c.gm1d2g) = Q / ρ ∧
      Real.sqrt (c.tdgp1 * (1 / ρ) / (p + c.gm1dgp1 * P)) = 1 / Q := by
  obtain ⟨hρ, hP, hPi, ha, ha2⟩ := h
  have hPv : Pinv = 1 / P := StateOK.Pinv_val ⟨hρ, hP, hPi, ha, ha2⟩
  have hg0 := hc.g0; have hgm1 := hc.gm1; have hgp1 := hc.gp1
  have hX : 0 < c.gp1d2g * (p * Pinv) + c.gm1d2g := by
    have := hc.gp1d2g_pos; have := hc.gm1d2g_pos
    have : 0 < Pinv := by rw [hPv]; positivity
    positivity
  refine ⟨ρ * (a * Real.sqrt (c.gp1d2g * (p * Pinv) + c.gm1d2g)), ?_, ?_, ?_, ?_⟩
  · have := Real.sqrt_pos.mpr hX; positivity
  · rw [mul_pow, mul_pow, Real.sq_sqrt hX.le, ha2, hc.gp1d2g, hc.gm1d2g, hPv]
    field_simp
  · field_simp
  · have hQ : 0 < ρ * (a * Real.sqrt (c.gp1d2g * (p * Pinv) + c.gm1d2g)) := by
      have := Real.sqrt_pos.mpr hX; positivity
    have e : c.tdgp1 * (1 / ρ) / (p + c.gm1dgp1 * P)
        = (1 / (ρ * (a * Real.sqrt (c.gp1d2g * (p * Pinv) + c.gm1d2g)))) ^ 2 := by
      rw [div_pow, one_pow, mul_pow, mul_pow, Real.sq_sqrt hX.le, ha2, hc.gp1d2g, hc.gm1d2g,
        hc.tdgp1, hc.gm1dgp1, hPv]
      have : 0 < (c.gamma + 1) * p + (c.gamma - 1) * P := by positivity
      field_simp
    rw [e, Real.sqrt_sq (by positivity)]

end state

/-! ### rarefaction fans -/
section fan
variable {c : Consts ℝ} {ρ P Pinv a : ℝ}

/-- the unclamped `base` of the right / left fan formulas -/
noncomputable def baseR0 (c : Consts ℝ) (u a ξ : ℝ) : ℝ := c.tdgp1 - c.gm1dgp1 * (u - ξ) / a
noncomputable def baseL0 (c : Consts ℝ) (u a ξ : ℝ) : ℝ := c.tdgp1 + c.gm1dgp1 * (u - ξ) / a
/-- the `base` as coded: clamped at zero (`std::max(0., …)`) -/
noncomputable def baseR (c : Consts ℝ) (u a ξ : ℝ) : ℝ := amax 0.0 (baseR0 c u a ξ)
noncomputable def baseL (c : Consts ℝ) (u a ξ : ℝ) : ℝ := amax 0.0 (baseL0 c u a ξ)

theorem baseR_eq_max (c : Consts ℝ) (u a ξ : ℝ) : baseR c u a ξ = max 0 (baseR0 c u a ξ) := by
  unfold baseR; rw [amax_real]; norm_num
theorem baseL_eq_max (c : Consts ℝ) (u a ξ : ℝ) : baseL c u a ξ = max 0 (baseL0 c u a ξ) := by
  unfold baseL; rw [amax_real]; norm_num
theorem baseR_of_nonneg {c : Consts ℝ} {u a ξ : ℝ} (h : 0 ≤ baseR0 c u a ξ) :
    baseR c u a ξ = baseR0 c u a ξ := by rw [baseR_eq_max, max_eq_right h]
theorem baseL_of_nonneg {c : Consts ℝ} {u a ξ : ℝ} (h : 0 ≤ baseL0 c u a ξ) :
    baseL c u a ξ = baseL0 c u a ξ := by rw [baseL_eq_max, max_eq_right h]
theorem baseR_nonneg' (c : Consts ℝ) (u a ξ : ℝ) : 0 ≤ baseR c u a ξ := by
  rw [baseR_eq_max]; exact le_max_left _ _
theorem baseL_nonneg' (c : Consts ℝ) (u a ξ : ℝ) : 0 ≤ baseL c u a ξ := by
  rw [baseL_eq_max]; exact le_max_left _ _
theorem baseR0_of_pos {c : Consts ℝ} {u a ξ : ℝ} (h : 0 < baseR c u a ξ) :
    baseR c u a ξ = baseR0 c u a ξ := by
  rw [baseR_eq_max] at h ⊢
  rcases le_total 0 (baseR0 c u a ξ) with h1 | h1
  · exact max_eq_right h1
  · rw [max_eq_left h1] at h; exact absurd h (lt_irrefl 0)
theorem baseL0_of_pos {c : Consts ℝ} {u a ξ : ℝ} (h : 0 < baseL c u a ξ) :
    baseL c u a ξ = baseL0 c u a ξ := by
  rw [baseL_eq_max] at h ⊢
  rcases le_total 0 (baseL0 c u a ξ) with h1 | h1
  · exact max_eq_right h1
  · rw [max_eq_left h1] at h; exact absurd h (lt_irrefl 0)

theorem fanR_eq (u ξ : ℝ) (br : ℕ) : fanR c ρ u P a ξ br =
    ⟨ρ * baseR c u a ξ ^ c.tdgm1, c.tdgp1 * (-a + c.gm1d2 * u + ξ), P * baseR c u a ξ ^ c.tgdgm1, br⟩ :=
  rfl
theorem fanL_eq (u ξ : ℝ) (br : ℕ) : fanL c ρ u P a ξ br =
    ⟨ρ * baseL c u a ξ ^ c.tdgm1, c.tdgp1 * (a + c.gm1d2 * u + ξ), P * baseL c u a ξ ^ c.tgdgm1, br⟩ :=
  rfl

/-- exponent identities -/
theorem exp_tdgm1_gamma (hc : CRel c) : c.tdgm1 * c.gamma = c.tgdgm1 := by
  rw [hc.tdgm1, hc.tgdgm1]; have := hc.gm1.ne'; field_simp
theorem exp_diff (hc : CRel c) : c.tgdgm1 - c.tdgm1 = 2 := by
  rw [hc.tdgm1, hc.tgdgm1]; have := hc.gm1.ne'; field_simp
theorem exp_k_tdgm1 (hc : CRel c) : c.gm1d2g * c.tdgm1 = c.ginv := by
  rw [hc.tdgm1, hc.gm1d2g, hc.ginv]; have := hc.gm1.ne'; have := hc.g0.ne'; field_simp
theorem exp_k_tgdgm1 (hc : CRel c) : c.gm1d2g * c.tgdgm1 = 1 := by
  rw [hc.tgdgm1, hc.gm1d2g]; have := hc.gm1.ne'; have := hc.g0.ne'; field_simp
theorem exp_ginv_gamma (hc : CRel c) : c.ginv * c.gamma = 1 := by
  rw [hc.ginv]; have := hc.g0.ne'; field_simp

/-- isentropic relation for `ρ' = ρ bⁿ`, `P' = P b^{nγ}` (division-free: `P'ρ^γ = Pρ'^γ`) -/
theorem isentropic_of_base (hc : CRel c) (hρ : 0 ≤ ρ) {b : ℝ} (hb : 0 ≤ b) :
    (P * b ^ c.tgdgm1) * ρ ^ c.gamma = P * (ρ * b ^ c.tdgm1) ^ c.gamma := by
  rw [Real.mul_rpow hρ (Real.rpow_nonneg hb _), ← Real.rpow_mul hb, exp_tdgm1_gamma hc]; ring

/-- sound speed of `ρ' = ρ bⁿ`, `P' = P b^{nγ}` is `a b` -/
theorem soundspeed_of_base (hc : CRel c) (h : StateOK c ρ P Pinv a) {b : ℝ} (hb : 0 < b) :
    soundspeed c (1.0 / (ρ * b ^ c.tdgm1)) (P * b ^ c.tgdgm1) = a * b := by
  have e1 : (1.0:ℝ) = 1 := by norm_num
  have hbn : 0 < b ^ c.tdgm1 := Real.rpow_pos_of_pos hb _
  have hρ := h.rho_pos
  have e : c.gamma * (P * b ^ c.tgdgm1) * (1 / (ρ * b ^ c.tdgm1)) = (a * b) ^ 2 := by
    have hq : b ^ c.tgdgm1 / b ^ c.tdgm1 = b ^ 2 := by
      rw [← Real.rpow_sub hb, exp_diff hc, Real.rpow_two]
    rw [mul_pow, h.a_sq, ← hq]; field_simp
  simp only [soundspeed, sqrt_real, e1]
  rw [e, Real.sqrt_sq (by have := h.a_pos; positivity)]

/-! #### right rarefaction -/

theorem baseR_head (hc : CRel c) (ha : 0 < a) (u : ℝ) : baseR c u a (headR u a) = 1 := by
  have : baseR0 c u a (headR u a) = 1 := by
    unfold baseR0 headR
    rw [hc.tdgp1, hc.gm1dgp1]; have := hc.gp1.ne'; have := ha.ne'; field_simp; ring
  rw [baseR_of_nonneg (by rw [this]; norm_num), this]

/-- at the head of the right fan the fan formula returns the right state -/
theorem fanR_head (hc : CRel c) (ha : 0 < a) (u : ℝ) (br : ℕ) :
    fanR c ρ u P a (headR u a) br = ⟨ρ, u, P, br⟩ := by
  rw [fanR_eq, baseR_head hc ha, Real.one_rpow, Real.one_rpow]
  have : c.tdgp1 * (-a + c.gm1d2 * u + headR u a) = u := by
    unfold headR; rw [hc.tdgp1, hc.gm1d2]; have := hc.gp1.ne'; field_simp; ring
  rw [this]; simp

/-- `u* = u_R + f_R(p*)` on the rarefaction branch -/
def StarR (c : Consts ℝ) (u a Pinv ustar p : ℝ) : Prop :=
  ustar = u + c.tdgm1 * a * ((p * Pinv) ^ c.gm1d2g - 1)

theorem baseR0_tail (hc : CRel c) (ha : 0 < a) {u ustar p : ℝ} (hs : StarR c u a Pinv ustar p) :
    baseR0 c u a (tailR c a Pinv ustar p) = (p * Pinv) ^ c.gm1d2g := by
  unfold baseR0 tailR
  simp only [pow_real]
  rw [hs, hc.tdgp1, hc.gm1dgp1, hc.tdgm1]
  have := hc.gp1.ne'; have := hc.gm1.ne'; have := ha.ne'
  field_simp; ring

theorem baseR_tail (hc : CRel c) (ha : 0 < a) {u ustar p : ℝ} (hπ : 0 ≤ p * Pinv)
    (hs : StarR c u a Pinv ustar p) :
    baseR c u a (tailR c a Pinv ustar p) = (p * Pinv) ^ c.gm1d2g := by
  have h := baseR0_tail hc ha hs
  rw [baseR_of_nonneg (by rw [h]; exact Real.rpow_nonneg hπ _), h]

/-- at the tail of the right fan the fan formula returns the star state -/
theorem fanR_tail (hc : CRel c) (h : StateOK c ρ P Pinv a) {u ustar p : ℝ} (hp : 0 ≤ p)
    (hs : StarR c u a Pinv ustar p) (br : ℕ) :
    fanR c ρ u P a (tailR c a Pinv ustar p) br = starRarefaction c ρ Pinv ustar p br := by
  have hπ : 0 ≤ p * Pinv := mul_nonneg hp h.Pinv_pos.le
  rw [fanR_eq, baseR_tail hc h.a_pos hπ hs, ← Real.rpow_mul hπ, ← Real.rpow_mul hπ, exp_k_tdgm1 hc,
    exp_k_tgdgm1 hc, Real.rpow_one]
  have hu : c.tdgp1 * (-a + c.gm1d2 * u + tailR c a Pinv ustar p) = ustar := by
    unfold tailR; simp only [pow_real]
    rw [hs, hc.tdgp1, hc.gm1d2, hc.tdgm1]
    have := hc.gp1.ne'; have := hc.gm1.ne'
    field_simp; ring
  have hP : P * (p * Pinv) = p := by
    have := h.Pinv_eq; calc P * (p * Pinv) = p * (P * Pinv) := by ring
      _ = p := by rw [this]; ring
  rw [hu, hP]; rfl

theorem tailR_le_headR (hc : CRel c) (h : StateOK c ρ P Pinv a) {u ustar p : ℝ} (hp0 : 0 ≤ p)
    (hp : p ≤ P) (hs : StarR c u a Pinv ustar p) : tailR c a Pinv ustar p ≤ headR u a := by
  have hπ : 0 ≤ p * Pinv := mul_nonneg hp0 h.Pinv_pos.le
  have h1 : (p * Pinv) ^ c.gm1d2g ≤ 1 := by
    apply Real.rpow_le_one hπ _ hc.gm1d2g_pos.le
    calc p * Pinv ≤ P * Pinv := mul_le_mul_of_nonneg_right hp h.Pinv_pos.le
      _ = 1 := h.Pinv_eq
  unfold tailR headR; simp only [pow_real]; rw [hs]
  have h2 := mul_nonneg (mul_pos hc.tdgm1_pos h.a_pos).le (sub_nonneg.mpr h1)
  have h3 := mul_nonneg h.a_pos.le (sub_nonneg.mpr h1)
  linarith

/-- inside the right fan: `u - 2a/(γ-1)` is the right state's invariant and `u + a = ξ` -/
theorem fanR_invariant (hc : CRel c) (ha : 0 < a) (u : ℝ) {ξ : ℝ} (hb : 0 < baseR c u a ξ) :
    c.tdgp1 * (-a + c.gm1d2 * u + ξ) - c.tdgm1 * (a * baseR c u a ξ) = u - c.tdgm1 * a := by
  rw [baseR0_of_pos hb]
  unfold baseR0; rw [hc.tdgp1, hc.gm1d2, hc.tdgm1, hc.gm1dgp1]
  have := hc.gp1.ne'; have := hc.gm1.ne'; have := ha.ne'
  field_simp; ring

theorem fanR_characteristic (hc : CRel c) (ha : 0 < a) (u : ℝ) {ξ : ℝ} (hb : 0 < baseR c u a ξ) :
    c.tdgp1 * (-a + c.gm1d2 * u + ξ) + a * baseR c u a ξ = ξ := by
  rw [baseR0_of_pos hb]
  unfold baseR0; rw [hc.tdgp1, hc.gm1d2, hc.gm1dgp1]
  have := hc.gp1.ne'; have := ha.ne'
  field_simp; ring

/-- sound speed of the star state behind a rarefaction: `a (p/P)^{(γ-1)/2γ}` -/
theorem soundspeed_star (hc : CRel c) (h : StateOK c ρ P Pinv a) {p : ℝ} (hp : 0 < p) :
    soundspeed c (1.0 / (ρ * (p * Pinv) ^ c.ginv)) p = a * (p * Pinv) ^ c.gm1d2g := by
  have e1 : (1.0:ℝ) = 1 := by norm_num
  have hπ : 0 < p * Pinv := mul_pos hp h.Pinv_pos
  have hρ := h.rho_pos
  have hpi : 0 < (p * Pinv) ^ c.ginv := Real.rpow_pos_of_pos hπ _
  have hP : p = P * (p * Pinv) := by
    have := h.Pinv_eq; calc p = p * (P * Pinv) := by rw [this]; ring
      _ = P * (p * Pinv) := by ring
  have hq : (p * Pinv) / (p * Pinv) ^ c.ginv = ((p * Pinv) ^ c.gm1d2g) ^ 2 := by
    rw [← Real.rpow_natCast, ← Real.rpow_mul hπ.le]
    nth_rewrite 1 [← Real.rpow_one (p * Pinv)]
    rw [← Real.rpow_sub hπ]
    congr 1
    rw [hc.ginv, hc.gm1d2g]; have := hc.g0.ne'; field_simp; ring
  have e : c.gamma * p * (1 / (ρ * (p * Pinv) ^ c.ginv)) = (a * (p * Pinv) ^ c.gm1d2g) ^ 2 := by
    rw [mul_pow, h.a_sq, ← hq]
    nth_rewrite 1 [hP]
    field_simp
  simp only [soundspeed, sqrt_real, e1]
  rw [e, Real.sqrt_sq (by have := h.a_pos; have := Real.rpow_pos_of_pos hπ c.gm1d2g; positivity)]

/-- isentropic relation for the star state behind a rarefaction -/
theorem isentropic_star (hc : CRel c) (h : StateOK c ρ P Pinv a) {p : ℝ} (hp : 0 ≤ p) :
    p * ρ ^ c.gamma = P * (ρ * (p * Pinv) ^ c.ginv) ^ c.gamma := by
  have hπ : 0 ≤ p * Pinv := mul_nonneg hp h.Pinv_pos.le
  rw [Real.mul_rpow h.rho_pos.le (Real.rpow_nonneg hπ _), ← Real.rpow_mul hπ, exp_ginv_gamma hc,
    Real.rpow_one]
  have := h.Pinv_eq
  calc p * ρ ^ c.gamma = (P * Pinv) * p * ρ ^ c.gamma := by rw [this]; ring
    _ = P * (ρ ^ c.gamma * (p * Pinv)) := by ring

/-! #### left rarefaction (mirror image) -/

theorem baseL_head (hc : CRel c) (ha : 0 < a) (u : ℝ) : baseL c u a (headL u a) = 1 := by
  have : baseL0 c u a (headL u a) = 1 := by
    unfold baseL0 headL
    rw [hc.tdgp1, hc.gm1dgp1]; have := hc.gp1.ne'; have := ha.ne'; field_simp; ring
  rw [baseL_of_nonneg (by rw [this]; norm_num), this]

theorem fanL_head (hc : CRel c) (ha : 0 < a) (u : ℝ) (br : ℕ) :
    fanL c ρ u P a (headL u a) br = ⟨ρ, u, P, br⟩ := by
  rw [fanL_eq, baseL_head hc ha, Real.one_rpow, Real.one_rpow]
  have : c.tdgp1 * (a + c.gm1d2 * u + headL u a) = u := by
    unfold headL; rw [hc.tdgp1, hc.gm1d2]; have := hc.gp1.ne'; field_simp; ring
  rw [this]; simp

/-- `u* = u_L - f_L(p*)` on the rarefaction branch -/
def StarL (c : Consts ℝ) (u a Pinv ustar p : ℝ) : Prop :=
  ustar = u - c.tdgm1 * a * ((p * Pinv) ^ c.gm1d2g - 1)

theorem baseL0_tail (hc : CRel c) (ha : 0 < a) {u ustar p : ℝ} (hs : StarL c u a Pinv ustar p) :
    baseL0 c u a (tailL c a Pinv ustar p) = (p * Pinv) ^ c.gm1d2g := by
  unfold baseL0 tailL
  simp only [pow_real]
  rw [hs, hc.tdgp1, hc.gm1dgp1, hc.tdgm1]
  have := hc.gp1.ne'; have := hc.gm1.ne'; have := ha.ne'
  field_simp; ring

theorem baseL_tail (hc : CRel c) (ha : 0 < a) {u ustar p : ℝ} (hπ : 0 ≤ p * Pinv)
    (hs : StarL c u a Pinv ustar p) :
    baseL c u a (tailL c a Pinv ustar p) = (p * Pinv) ^ c.gm1d2g := by
  have h := baseL0_tail hc ha hs
  rw [baseL_of_nonneg (by rw [h]; exact Real.rpow_nonneg hπ _), h]

theorem fanL_tail (hc : CRel c) (h : StateOK c ρ P Pinv a) {u ustar p : ℝ} (hp : 0 ≤ p)
    (hs : StarL c u a Pinv ustar p) (br : ℕ) :
    fanL c ρ u P a (tailL c a Pinv ustar p) br = starRarefaction c ρ Pinv ustar p br := by
  have hπ : 0 ≤ p * Pinv := mul_nonneg hp h.Pinv_pos.le
  rw [fanL_eq, baseL_tail hc h.a_pos hπ hs, ← Real.rpow_mul hπ, ← Real.rpow_mul hπ, exp_k_tdgm1 hc,
    exp_k_tgdgm1 hc, Real.rpow_one]
  have hu : c.tdgp1 * (a + c.gm1d2 * u + tailL c a Pinv ustar p) = ustar := by
    unfold tailL; simp only [pow_real]
    rw [hs, hc.tdgp1, hc.gm1d2, hc.tdgm1]
    have := hc.gp1.ne'; have := hc.gm1.ne'
    field_simp; ring
  have hP : P * (p * Pinv) = p := by
    have := h.Pinv_eq; calc P * (p * Pinv) = p * (P * Pinv) := by ring
      _ = p := by rw [this]; ring
  rw [hu, hP]; rfl

theorem headL_le_tailL (hc : CRel c) (h : StateOK c ρ P Pinv a) {u ustar p : ℝ} (hp0 : 0 ≤ p)
    (hp : p ≤ P) (hs : StarL c u a Pinv ustar p) : headL u a ≤ tailL c a Pinv ustar p := by
  have hπ : 0 ≤ p * Pinv := mul_nonneg hp0 h.Pinv_pos.le
  have h1 : (p * Pinv) ^ c.gm1d2g ≤ 1 := by
    apply Real.rpow_le_one hπ _ hc.gm1d2g_pos.le
    calc p * Pinv ≤ P * Pinv := mul_le_mul_of_nonneg_right hp h.Pinv_pos.le
      _ = 1 := h.Pinv_eq
  unfold tailL headL; simp only [pow_real]; rw [hs]
  have h2 := mul_nonneg (mul_pos hc.tdgm1_pos h.a_pos).le (sub_nonneg.mpr h1)
  have h3 := mul_nonneg h.a_pos.le (sub_nonneg.mpr h1)
  linarith

theorem fanL_invariant (hc : CRel c) (ha : 0 < a) (u : ℝ) {ξ : ℝ} (hb : 0 < baseL c u a ξ) :
    c.tdgp1 * (a + c.gm1d2 * u + ξ) + c.tdgm1 * (a * baseL c u a ξ) = u + c.tdgm1 * a := by
  rw [baseL0_of_pos hb]
  unfold baseL0; rw [hc.tdgp1, hc.gm1d2, hc.tdgm1, hc.gm1dgp1]
  have := hc.gp1.ne'; have := hc.gm1.ne'; have := ha.ne'
  field_simp; ring

theorem fanL_characteristic (hc : CRel c) (ha : 0 < a) (u : ℝ) {ξ : ℝ} (hb : 0 < baseL c u a ξ) :
    c.tdgp1 * (a + c.gm1d2 * u + ξ) - a * baseL c u a ξ = ξ := by
  rw [baseL0_of_pos hb]
  unfold baseL0; rw [hc.tdgp1, hc.gm1d2, hc.gm1dgp1]
  have := hc.gp1.ne'; have := ha.ne'
  field_simp; ring

end fan
/-! ### the samplers of a rarefaction as continuous functions of the sampling speed -/
section continuity
variable {c : Consts ℝ} {ρ P Pinv a : ℝ}

theorem baseR_continuous (c : Consts ℝ) (u a : ℝ) : Continuous fun ξ => baseR c u a ξ := by
  simp only [baseR_eq_max]
  unfold baseR0
  exact continuous_const.max
    (continuous_const.sub ((continuous_const.mul (continuous_const.sub continuous_id)).div_const a))

theorem baseL_continuous (c : Consts ℝ) (u a : ℝ) : Continuous fun ξ => baseL c u a ξ := by
  simp only [baseL_eq_max]
  unfold baseL0
  exact continuous_const.max
    (continuous_const.add ((continuous_const.mul (continuous_const.sub continuous_id)).div_const a))

theorem fanR_continuous (hc : CRel c) (ρ u P a : ℝ) (br : ℕ) :
    Continuous (fun ξ => (fanR c ρ u P a ξ br).rho) ∧ Continuous (fun ξ => (fanR c ρ u P a ξ br).u) ∧
      Continuous (fun ξ => (fanR c ρ u P a ξ br).P) := by
  simp only [fanR_eq]
  refine ⟨?_, ?_, ?_⟩
  · exact continuous_const.mul
      ((Real.continuous_rpow_const hc.tdgm1_pos.le).comp (baseR_continuous c u a))
  · exact continuous_const.mul ((continuous_const.add continuous_const).add continuous_id)
  · exact continuous_const.mul
      ((Real.continuous_rpow_const hc.tgdgm1_pos.le).comp (baseR_continuous c u a))

theorem fanL_continuous (hc : CRel c) (ρ u P a : ℝ) (br : ℕ) :
    Continuous (fun ξ => (fanL c ρ u P a ξ br).rho) ∧ Continuous (fun ξ => (fanL c ρ u P a ξ br).u) ∧
      Continuous (fun ξ => (fanL c ρ u P a ξ br).P) := by
  simp only [fanL_eq]
  refine ⟨?_, ?_, ?_⟩
  · exact continuous_const.mul
      ((Real.continuous_rpow_const hc.tdgm1_pos.le).comp (baseL_continuous c u a))
  · exact continuous_const.mul ((continuous_const.add continuous_const).add continuous_id)
  · exact continuous_const.mul
      ((Real.continuous_rpow_const hc.tgdgm1_pos.le).comp (baseL_continuous c u a))

/-- clamp of the sampling speed to `[lo, hi]` -/
noncomputable def clamp (lo hi ξ : ℝ) : ℝ := max lo (min ξ hi)

theorem clamp_continuous (lo hi : ℝ) : Continuous (clamp lo hi) :=
  continuous_const.max (continuous_id.min continuous_const)

/-- the sampler of a right rarefaction = the fan formula at the speed clamped to `[tail, head]` -/
theorem sampleRightRarefaction_clamp (hc : CRel c) (h : StateOK c ρ P Pinv a) {u ustar p : ℝ}
    (hp0 : 0 ≤ p) (hp : p ≤ P) (hs : StarR c u a Pinv ustar p) (ξ : ℝ) :
    let r := sampleRightRarefaction c ρ u P a Pinv ustar p ξ
    let f := fanR c ρ u P a (clamp (tailR c a Pinv ustar p) (headR u a) ξ) 0
    r.rho = f.rho ∧ r.u = f.u ∧ r.P = f.P := by
  have hth := tailR_le_headR hc h hp0 hp hs
  unfold sampleRightRarefaction clamp
  split_ifs with h1 h2
  · rw [min_eq_left h1.le, max_eq_left h2.le, fanR_tail hc h hp0 hs]; exact ⟨rfl, rfl, rfl⟩
  · rw [min_eq_left h1.le, max_eq_right (not_lt.mp h2)]; exact ⟨rfl, rfl, rfl⟩
  · rw [min_eq_right (not_lt.mp h1), max_eq_right hth, fanR_head hc h.a_pos]; exact ⟨rfl, rfl, rfl⟩

theorem sampleLeftRarefaction_clamp (hc : CRel c) (h : StateOK c ρ P Pinv a) {u ustar p : ℝ}
    (hp0 : 0 ≤ p) (hp : p ≤ P) (hs : StarL c u a Pinv ustar p) (ξ : ℝ) :
    let r := sampleLeftRarefaction c ρ u P a Pinv ustar p ξ
    let f := fanL c ρ u P a (clamp (headL u a) (tailL c a Pinv ustar p) ξ) 0
    r.rho = f.rho ∧ r.u = f.u ∧ r.P = f.P := by
  have hth := headL_le_tailL hc h hp0 hp hs
  unfold sampleLeftRarefaction clamp
  split_ifs with h1 h2
  · rw [min_eq_left h2.le, max_eq_right h1.le]; exact ⟨rfl, rfl, rfl⟩
  · rw [min_eq_right (not_lt.mp h2), max_eq_right hth, fanL_tail hc h hp0 hs]; exact ⟨rfl, rfl, rfl⟩
  · have : min ξ (tailL c a Pinv ustar p) ≤ headL u a := (min_le_left _ _).trans (not_lt.mp h1)
    rw [max_eq_left this, fanL_head hc h.a_pos]; exact ⟨rfl, rfl, rfl⟩

end continuity
/-! ### vacuum regimes (the samplers of `Model/RiemannVacuum.lean`) -/
section vacuum

theorem tdgm1_eq (g : ℝ) : RiemannVacuum.tdgm1 (RiemannVacuum.effGamma g) = (mkConsts g).tdgm1 := rfl

variable {c : Consts ℝ}

theorem baseL_front (hc : CRel c) {a : ℝ} (ha : 0 < a) (u : ℝ) :
    baseL c u a (u + c.tdgm1 * a) = 0 := by
  have : baseL0 c u a (u + c.tdgm1 * a) = 0 := by
    unfold baseL0; rw [hc.tdgp1, hc.gm1dgp1, hc.tdgm1]
    have := hc.gp1.ne'; have := hc.gm1.ne'; have := ha.ne'
    field_simp; ring
  rw [baseL_of_nonneg (by rw [this]), this]

theorem baseR_front (hc : CRel c) {a : ℝ} (ha : 0 < a) (u : ℝ) :
    baseR c u a (u - c.tdgm1 * a) = 0 := by
  have : baseR0 c u a (u - c.tdgm1 * a) = 0 := by
    unfold baseR0; rw [hc.tdgp1, hc.gm1dgp1, hc.tdgm1]
    have := hc.gp1.ne'; have := hc.gm1.ne'; have := ha.ne'
    field_simp; ring
  rw [baseR_of_nonneg (by rw [this]), this]

/-- at the vacuum front the fan formula gives zero density and pressure -/
theorem fanL_front (hc : CRel c) {a : ℝ} (ha : 0 < a) (ρ u P : ℝ) (br : ℕ) :
    (fanL c ρ u P a (u + c.tdgm1 * a) br).rho = 0 ∧ (fanL c ρ u P a (u + c.tdgm1 * a) br).P = 0 := by
  rw [fanL_eq, baseL_front hc ha, Real.zero_rpow hc.tdgm1_pos.ne', Real.zero_rpow hc.tgdgm1_pos.ne']
  simp

theorem fanR_front (hc : CRel c) {a : ℝ} (ha : 0 < a) (ρ u P : ℝ) (br : ℕ) :
    (fanR c ρ u P a (u - c.tdgm1 * a) br).rho = 0 ∧ (fanR c ρ u P a (u - c.tdgm1 * a) br).P = 0 := by
  rw [fanR_eq, baseR_front hc ha, Real.zero_rpow hc.tdgm1_pos.ne', Real.zero_rpow hc.tgdgm1_pos.ne']
  simp

theorem baseL_nonneg (_hc : CRel c) {a : ℝ} (_ha : 0 < a) {u ξ : ℝ} (_hξ : ξ ≤ u + c.tdgm1 * a) :
    0 ≤ baseL c u a ξ := baseL_nonneg' c u a ξ

theorem baseR_nonneg (_hc : CRel c) {a : ℝ} (_ha : 0 < a) {u ξ : ℝ} (_hξ : u - c.tdgm1 * a ≤ ξ) :
    0 ≤ baseR c u a ξ := baseR_nonneg' c u a ξ

/-- C05's fans are the fan formulas of this model (same expressions, same constants, same clamp
of the base at zero) -/
theorem leftFan_eq (g ρ u P a ξ : ℝ) (t b : ℕ) (_hb : 0 ≤ baseL (mkConsts g) u a ξ) :
    (RiemannVacuum.leftFan (RiemannVacuum.effGamma g) ρ u P a ξ t).rho = (fanL (mkConsts g) ρ u P a ξ b).rho ∧
    (RiemannVacuum.leftFan (RiemannVacuum.effGamma g) ρ u P a ξ t).u = (fanL (mkConsts g) ρ u P a ξ b).u ∧
    (RiemannVacuum.leftFan (RiemannVacuum.effGamma g) ρ u P a ξ t).P = (fanL (mkConsts g) ρ u P a ξ b).P :=
  ⟨rfl, rfl, rfl⟩

theorem rightFan_eq (g ρ u P a ξ : ℝ) (t b : ℕ) (_hb : 0 ≤ baseR (mkConsts g) u a ξ) :
    (RiemannVacuum.rightFan (RiemannVacuum.effGamma g) ρ u P a ξ t).rho = (fanR (mkConsts g) ρ u P a ξ b).rho ∧
    (RiemannVacuum.rightFan (RiemannVacuum.effGamma g) ρ u P a ξ t).u = (fanR (mkConsts g) ρ u P a ξ b).u ∧
    (RiemannVacuum.rightFan (RiemannVacuum.effGamma g) ρ u P a ξ t).P = (fanR (mkConsts g) ρ u P a ξ b).P :=
  ⟨rfl, rfl, rfl⟩

theorem headL_le_front (hc : CRel c) {a : ℝ} (ha : 0 < a) (u : ℝ) : headL u a ≤ u + c.tdgm1 * a := by
  unfold headL; have := mul_pos hc.tdgm1_pos ha; linarith

theorem front_le_headR (hc : CRel c) {a : ℝ} (ha : 0 < a) (u : ℝ) : u - c.tdgm1 * a ≤ headR u a := by
  unfold headR; have := mul_pos hc.tdgm1_pos ha; linarith

/-- vacuum on the right of a gas: density and pressure are the fan formula at the clamped speed
(so they are continuous and vanish at the front); the velocity too, left of the front -/
theorem sampleRightVacuum_clamp (g ρ u P : ℝ) {a : ℝ} (ha : 0 < a) (ξ : ℝ) :
    let c := mkConsts g
    let r := RiemannVacuum.sampleRightVacuum (RiemannVacuum.effGamma g) ρ u P a ξ
    let f := fanL c ρ u P a (clamp (headL u a) (u + c.tdgm1 * a) ξ) 0
    r.rho = f.rho ∧ r.P = f.P ∧ (ξ < u + c.tdgm1 * a → r.u = f.u) := by
  intro c
  have hc : CRel c := mk_rel g
  have te : RiemannVacuum.tdgm1 (RiemannVacuum.effGamma g) = c.tdgm1 := rfl
  have hhf := headL_le_front hc ha u
  have e0 : (0.0:ℝ) = 0 := by norm_num
  unfold clamp
  by_cases h1 : u - a < ξ
  · by_cases h2 : ξ < u + c.tdgm1 * a
    · simp only [RiemannVacuum.sampleRightVacuum, te, if_pos h1, if_pos h2]
      rw [min_eq_left h2.le, max_eq_right (by unfold headL; exact h1.le)]
      have hf := leftFan_eq g ρ u P a ξ 12 0 (baseL_nonneg hc ha h2.le)
      exact ⟨hf.1, hf.2.2, fun _ => hf.2.1⟩
    · simp only [RiemannVacuum.sampleRightVacuum, te, if_pos h1, if_neg h2,
        RiemannVacuum.vacuumState]
      rw [min_eq_right (not_lt.mp h2), max_eq_right hhf]
      have := fanL_front hc ha ρ u P 0
      exact ⟨by rw [this.1, e0], by rw [this.2, e0], fun hlt => absurd hlt h2⟩
  · simp only [RiemannVacuum.sampleRightVacuum, if_neg h1]
    have : min ξ (u + c.tdgm1 * a) ≤ headL u a :=
      (min_le_left _ _).trans (by unfold headL; exact not_lt.mp h1)
    rw [max_eq_left this, fanL_head hc ha]
    exact ⟨rfl, rfl, fun _ => rfl⟩

theorem sampleLeftVacuum_clamp (g ρ u P : ℝ) {a : ℝ} (ha : 0 < a) (ξ : ℝ) :
    let c := mkConsts g
    let r := RiemannVacuum.sampleLeftVacuum (RiemannVacuum.effGamma g) ρ u P a ξ
    let f := fanR c ρ u P a (clamp (u - c.tdgm1 * a) (headR u a) ξ) 0
    r.rho = f.rho ∧ r.P = f.P ∧ (u - c.tdgm1 * a < ξ → r.u = f.u) := by
  intro c
  have hc : CRel c := mk_rel g
  have te : RiemannVacuum.tdgm1 (RiemannVacuum.effGamma g) = c.tdgm1 := rfl
  have hhf := front_le_headR hc ha u
  have e0 : (0.0:ℝ) = 0 := by norm_num
  unfold clamp
  by_cases h1 : ξ < u + a
  · by_cases h2 : u - c.tdgm1 * a < ξ
    · simp only [RiemannVacuum.sampleLeftVacuum, te, if_pos h1, if_pos h2]
      rw [min_eq_left (by unfold headR; exact h1.le), max_eq_right h2.le]
      have hf := rightFan_eq g ρ u P a ξ 22 0 (baseR_nonneg hc ha h2.le)
      exact ⟨hf.1, hf.2.2, fun _ => hf.2.1⟩
    · simp only [RiemannVacuum.sampleLeftVacuum, te, if_pos h1, if_neg h2,
        RiemannVacuum.vacuumState]
      have : min ξ (headR u a) ≤ u - c.tdgm1 * a := (min_le_left _ _).trans (not_lt.mp h2)
      rw [max_eq_left this]
      have := fanR_front hc ha ρ u P 0
      exact ⟨by rw [this.1, e0], by rw [this.2, e0], fun hlt => absurd hlt h2⟩
  · simp only [RiemannVacuum.sampleLeftVacuum, if_neg h1]
    rw [min_eq_right (by unfold headR; exact not_lt.mp h1), max_eq_right hhf, fanR_head hc ha]
    exact ⟨rfl, rfl, fun _ => rfl⟩

/-- vacuum generated between two gases (`S_L ≤ S_R`): density and pressure are the sum of the left
fan clamped to `[head_L, S_L]` and the right fan clamped to `[S_R, head_R]` -/
theorem sampleVacuumGeneration_clamp (g ρL uL PL ρR uR PR : ℝ) {aL aR : ℝ} (haL : 0 < aL)
    (haR : 0 < aR) (hgen : uL + (mkConsts g).tdgm1 * aL ≤ uR - (mkConsts g).tdgm1 * aR) (ξ : ℝ) :
    let c := mkConsts g
    let r := RiemannVacuum.sampleVacuumGeneration (RiemannVacuum.effGamma g) ρL uL PL aL ρR uR PR aR ξ
    let fl := fanL c ρL uL PL aL (clamp (headL uL aL) (uL + c.tdgm1 * aL) ξ) 0
    let fr := fanR c ρR uR PR aR (clamp (uR - c.tdgm1 * aR) (headR uR aR) ξ) 0
    r.rho = fl.rho + fr.rho ∧ r.P = fl.P + fr.P := by
  intro c
  have hc : CRel c := mk_rel g
  have te : RiemannVacuum.tdgm1 (RiemannVacuum.effGamma g) = c.tdgm1 := rfl
  have e0 : (0.0:ℝ) = 0 := by norm_num
  have hL := headL_le_front hc haL uL
  have hR := front_le_headR hc haR uR
  have zL := fanL_front hc haL ρL uL PL 0
  have zR := fanR_front hc haR ρR uR PR 0
  change uL + c.tdgm1 * aL ≤ uR - c.tdgm1 * aR at hgen
  show (RiemannVacuum.sampleVacuumGeneration (RiemannVacuum.effGamma g) ρL uL PL aL ρR uR PR aR ξ).rho
      = (fanL c ρL uL PL aL (clamp (headL uL aL) (uL + c.tdgm1 * aL) ξ) 0).rho
        + (fanR c ρR uR PR aR (clamp (uR - c.tdgm1 * aR) (headR uR aR) ξ) 0).rho ∧
    (RiemannVacuum.sampleVacuumGeneration (RiemannVacuum.effGamma g) ρL uL PL aL ρR uR PR aR ξ).P
      = (fanL c ρL uL PL aL (clamp (headL uL aL) (uL + c.tdgm1 * aL) ξ) 0).P
        + (fanR c ρR uR PR aR (clamp (uR - c.tdgm1 * aR) (headR uR aR) ξ) 0).P
  -- the clamped right fan vanishes left of `S_R`, the clamped left fan right of `S_L`
  have rightZero : ξ ≤ uR - c.tdgm1 * aR →
      clamp (uR - c.tdgm1 * aR) (headR uR aR) ξ = uR - c.tdgm1 * aR := fun h => by
    unfold clamp; exact max_eq_left ((min_le_left _ _).trans h)
  have leftZero : uL + c.tdgm1 * aL ≤ ξ →
      clamp (headL uL aL) (uL + c.tdgm1 * aL) ξ = uL + c.tdgm1 * aL := fun h => by
    unfold clamp; rw [min_eq_right h, max_eq_right hL]
  by_cases hv : ξ < uR - c.tdgm1 * aR ∧ uL + c.tdgm1 * aL < ξ
  · simp only [RiemannVacuum.sampleVacuumGeneration, te, if_pos hv, RiemannVacuum.vacuumState]
    rw [rightZero hv.1.le, leftZero hv.2.le, zL.1, zL.2, zR.1, zR.2, e0]; simp
  · by_cases h2 : uL + c.tdgm1 * aL < ξ
    · have h3 : uR - c.tdgm1 * aR ≤ ξ := not_lt.mp fun h => hv ⟨h, h2⟩
      rw [leftZero h2.le, zL.1, zL.2]
      by_cases h4 : ξ < uR + aR
      · simp only [RiemannVacuum.sampleVacuumGeneration, te, if_neg hv, if_pos h2, if_pos h4]
        have : clamp (uR - c.tdgm1 * aR) (headR uR aR) ξ = ξ := by
          unfold clamp; rw [min_eq_left (by unfold headR; exact h4.le), max_eq_right h3]
        have hf := rightFan_eq g ρR uR PR aR ξ 32 0 (baseR_nonneg hc haR h3)
        rw [this]; exact ⟨by rw [zero_add]; exact hf.1, by rw [zero_add]; exact hf.2.2⟩
      · simp only [RiemannVacuum.sampleVacuumGeneration, te, if_neg hv, if_pos h2, if_neg h4]
        have : clamp (uR - c.tdgm1 * aR) (headR uR aR) ξ = headR uR aR := by
          unfold clamp; rw [min_eq_right (by unfold headR; exact not_lt.mp h4), max_eq_right hR]
        rw [this, fanR_head hc haR]; simp
    · have h3 : ξ ≤ uR - c.tdgm1 * aR := (not_lt.mp h2).trans hgen
      rw [rightZero h3, zR.1, zR.2]
      by_cases h4 : uL - aL < ξ
      · simp only [RiemannVacuum.sampleVacuumGeneration, te, if_neg hv, if_neg h2, if_pos h4]
        have : clamp (headL uL aL) (uL + c.tdgm1 * aL) ξ = ξ := by
          unfold clamp; rw [min_eq_left (not_lt.mp h2), max_eq_right (by unfold headL; exact h4.le)]
        have hf := leftFan_eq g ρL uL PL aL ξ 34 0 (baseL_nonneg hc haL (not_lt.mp h2))
        rw [this]; exact ⟨by rw [add_zero]; exact hf.1, by rw [add_zero]; exact hf.2.2⟩
      · simp only [RiemannVacuum.sampleVacuumGeneration, te, if_neg hv, if_neg h2, if_neg h4]
        have : clamp (headL uL aL) (uL + c.tdgm1 * aL) ξ = headL uL aL := by
          unfold clamp
          exact max_eq_left ((min_le_left _ _).trans (by unfold headL; exact not_lt.mp h4))
        rw [this, fanL_head hc haL]; simp

end vacuum
/-! ### hand-over from Newton to Brent, and the pressure function of `solve` -/
section handover
variable (F : ℝ → ℝ)

/-- what the Brent branch of the hand-over guarantees -/
theorem handOver_brent (hF : Continuous F) (bf : ℕ) (r : NState ℝ × ℕ) (hi : NInv F r.1) :
    (handOver F bf r).err = false ∧
    ((handOver F bf r).path = 2 →
      ∃ a : ℝ, uIcc a (handOver F bf r).pstar ⊆ uIcc r.1.Pstar r.1.Pguess ∧
        (∃ p ∈ uIcc a (handOver F bf r).pstar, F p = 0 ∧ |(handOver F bf r).pstar - p| ≤ |a - (handOver F bf r).pstar|) ∧
        ((handOver F bf r).brentLeft = 0 ∨ F (handOver F bf r).pstar = 0 ∨
          |a - (handOver F bf r).pstar| ≤ 5e-9 * (a + (handOver F bf r).pstar))) := by
  obtain ⟨h1, h2, h3⟩ := hi
  unfold handOver
  by_cases hc : notConverged r.1 ∧ (0.0:ℝ) < r.1.fPguess
  · have hpos : (0:ℝ) < r.1.fPguess := by have := hc.2; norm_num at this; exact this
    have hprod : ¬ (0.0:ℝ) < r.1.fPstar * r.1.fPguess := by
      have : r.1.fPstar * r.1.fPguess < 0 := mul_neg_of_neg_of_pos h3 hpos
      norm_num; exact this.le
    simp only [if_pos hc, solveBrent, if_neg hprod]
    refine ⟨by first | rfl | trivial, fun _ => ?_⟩
    have hs : F r.1.Pstar * F r.1.Pguess ≤ 0 := by
      rw [← h1, ← h2]; exact (mul_neg_of_neg_of_pos h3 hpos).le
    have hinit := brentInit_inv F r.1.Pstar r.1.Pguess hs
    rw [← h1, ← h2] at hinit
    obtain ⟨hinv, hexit⟩ := brentLoop_inv F bf hinit
    set s := (brentLoop F bf (brentInit r.1.Pstar r.1.Pguess r.1.fPstar r.1.fPguess)) with hsdef
    have hsign : F s.1.a * F s.1.b ≤ 0 := by rw [← hinv.fa_eq, ← hinv.fb_eq]; exact hinv.sign
    obtain ⟨p, hp, hp0⟩ := root_of_sign_change F hF.continuousOn hsign
    refine ⟨s.1.a, hinv.inside, ⟨p, hp, hp0, abs_sub_le_of_mem_uIcc hp⟩, ?_⟩
    rcases hexit with h0 | hne
    · exact Or.inl h0
    · rcases brent_exit hne with hb | hb
      · exact Or.inr (Or.inl (by rw [← hinv.fb_eq]; exact hb))
      · exact Or.inr (Or.inr hb)
  · simp only [if_neg hc]
    exact ⟨by first | rfl | trivial, fun h => absurd h (by norm_num)⟩

/-- relative form of the tolerance exit: a root `p` between `a` and `b ≥ 0` with
`|a - b| ≤ 5e-9 (a + b)` is approximated by `b` to `1.00000001e-8` relative -/
theorem relative_accuracy {a b p : ℝ} (hp : p ∈ uIcc a b) (ha : 0 ≤ a) (hb : 0 ≤ b)
    (htol : |a - b| ≤ 5e-9 * (a + b)) : |b - p| ≤ 1.00000001e-8 * p := by
  rcases mem_uIcc.mp hp with ⟨h2, h3⟩ | ⟨h2, h3⟩
  · have e1 : |a - b| = b - a := by rw [abs_of_nonpos (by linarith)]; ring
    have e2 : |b - p| = b - p := abs_of_nonneg (by linarith)
    rw [e1] at htol; rw [e2]
    norm_num at htol ⊢
    linarith
  · have e1 : |a - b| = a - b := abs_of_nonneg (by linarith)
    have e2 : |b - p| = p - b := by rw [abs_of_nonpos (by linarith)]; ring
    rw [e1] at htol; rw [e2]
    norm_num at htol ⊢
    linarith

end handover

section pressure

/-- the pressure function `solve` iterates on (lines 911–952), as a function of `p` -/
noncomputable def pressureFn (c : Consts ℝ) (ρL uL PL ρR uR PR : ℝ) : ℝ → ℝ :=
  f c PL (c.tdgp1 * (1.0 / ρL)) (c.gm1dgp1 * PL) (1.0 / PL) (c.tdgm1 * soundspeed c (1.0 / ρL) PL)
    PR (c.tdgp1 * (1.0 / ρR)) (c.gm1dgp1 * PR) (1.0 / PR) (c.tdgm1 * soundspeed c (1.0 / ρR) PR)
    (uR - uL)

/-- its derivative as coded -/
noncomputable def pressureFn' (c : Consts ℝ) (ρL PL ρR PR : ℝ) : ℝ → ℝ :=
  fprime c PL (c.tdgp1 * (1.0 / ρL)) (c.gm1dgp1 * PL) (1.0 / PL)
    (1.0 / (ρL * soundspeed c (1.0 / ρL) PL))
    PR (c.tdgp1 * (1.0 / ρR)) (c.gm1dgp1 * PR) (1.0 / PR)
    (1.0 / (ρR * soundspeed c (1.0 / ρR) PR))

variable {c : Consts ℝ} {ρL uL PL ρR uR PR : ℝ}

theorem star_res (nf bf : ℕ) :
    (star c nf bf ρL uL PL ρR uR PR).res = findPstar (pressureFn c ρL uL PL ρR uR PR)
      (pressureFn' c ρL PL ρR PR) nf bf
      (guessP c PL (soundspeed c (1.0 / ρL) PL) (c.tdgp1 * (1.0 / ρL)) (c.gm1dgp1 * PL)
        PR (soundspeed c (1.0 / ρR) PR) (c.tdgp1 * (1.0 / ρR)) (c.gm1dgp1 * PR) (uR - uL)) := rfl

theorem star_pstar (nf bf : ℕ) :
    (star c nf bf ρL uL PL ρR uR PR).pstar = (star c nf bf ρL uL PL ρR uR PR).res.pstar := rfl

theorem one_div_pos' {x : ℝ} (hx : 0 < x) : (0:ℝ) < 1.0 / x := by
  have : (1.0:ℝ) = 1 := by norm_num
  rw [this]; positivity

theorem pressureFn_continuous (hc : CRel c) (hρL : 0 < ρL) (hPL : 0 < PL) (hρR : 0 < ρR)
    (hPR : 0 < PR) : Continuous (pressureFn c ρL uL PL ρR uR PR) := by
  have sL := stateOK_of_solve hc hρL hPL
  have sR := stateOK_of_solve hc hρR hPR
  exact f_continuous hc sL.Pinv_eq hPL (mul_nonneg hc.gm1dgp1_pos.le hPL.le) sR.Pinv_eq hPR
    (mul_nonneg hc.gm1dgp1_pos.le hPR.le)

theorem pressureFn_strictMonoOn (hc : CRel c) (hρL : 0 < ρL) (hPL : 0 < PL) (hρR : 0 < ρR)
    (hPR : 0 < PR) : StrictMonoOn (pressureFn c ρL uL PL ρR uR PR) (Ici 0) := by
  have sL := stateOK_of_solve hc hρL hPL
  have sR := stateOK_of_solve hc hρR hPR
  exact f_strictMonoOn hc (mul_pos hc.tdgp1_pos (one_div_pos' hρL))
    (mul_nonneg hc.gm1dgp1_pos.le hPL.le) hPL sL.Pinv_pos sL.Pinv_eq (mul_pos hc.tdgm1_pos sL.a_pos)
    (mul_pos hc.tdgp1_pos (one_div_pos' hρR))
    (mul_nonneg hc.gm1dgp1_pos.le hPR.le) hPR sR.Pinv_pos sR.Pinv_eq (mul_pos hc.tdgm1_pos sR.a_pos)

theorem pressureFn_zero (hc : CRel c) (hPL : 0 < PL) (hPR : 0 < PR) :
    pressureFn c ρL uL PL ρR uR PR 0 = (uR - uL) - c.tdgm1 * soundspeed c (1.0 / ρL) PL
      - c.tdgm1 * soundspeed c (1.0 / ρR) PR := f_zero hc hPL hPR

end pressure
section shockStates
variable {c : Consts ℝ} {ρ P Pinv a : ℝ}

/-- Rankine–Hugoniot for the star state behind a RIGHT shock as the sampler computes it:
`S = shockSpeedR`, `ρ* = shockDensity`, `u* = u + f_R(p)` (shock branch of `fb`) -/
theorem shock_right_RH (hc : CRel c) (h : StateOK c ρ P Pinv a) {A B afac p : ℝ} (u : ℝ)
    (hA : A = c.tdgp1 * (1 / ρ)) (hB : B = c.gm1dgp1 * P) (hp : P < p) :
    let S := shockSpeedR c u a Pinv p
    let us := u + fb c P A B Pinv afac p
    let ρs := shockDensity c ρ Pinv p
    ρs * (us - S) = ρ * (u - S) ∧
    ρs * (us - S) ^ 2 + p = ρ * (u - S) ^ 2 + P ∧
    (p * c.gamma / (c.gamma - 1) + ρs * (us - S) ^ 2 / 2) * (us - S)
      = (P * c.gamma / (c.gamma - 1) + ρ * (u - S) ^ 2 / 2) * (u - S) := by
  have hp0 : 0 < p := lt_trans h.P_pos hp
  obtain ⟨Q, hQ, hQ2, hS, hf⟩ := shock_flux hc h hp0
  have e1 : (1.0:ℝ) = 1 := by norm_num
  have hSeq : shockSpeedR c u a Pinv p = u + 1 * Q / ρ := by
    simp only [shockSpeedR, sqrt_real]; rw [hS]; ring
  have hus : u + fb c P A B Pinv afac p = u + 1 * (p - P) / Q := by
    rw [fb_shock hp, hA, hB, hf]; ring
  have hρs : shockDensity c ρ Pinv p
      = ρ * (p / P + (c.gamma - 1) / (c.gamma + 1)) / ((c.gamma - 1) / (c.gamma + 1) * (p / P) + 1) := by
    simp only [shockDensity, e1]; rw [h.Pinv_val, hc.gm1dgp1]; ring
  intro S us ρs
  simp only [S, us, ρs]
  rw [hSeq, hus, hρs]
  exact rh_core c.gamma ρ P p u 1 Q hc.g1 h.P_pos hp0 hQ (Or.inl rfl) hQ2

/-- the same for a LEFT shock: `S = shockSpeedL`, `u* = u - f_L(p)` -/
theorem shock_left_RH (hc : CRel c) (h : StateOK c ρ P Pinv a) {A B afac p : ℝ} (u : ℝ)
    (hA : A = c.tdgp1 * (1 / ρ)) (hB : B = c.gm1dgp1 * P) (hp : P < p) :
    let S := shockSpeedL c u a Pinv p
    let us := u - fb c P A B Pinv afac p
    let ρs := shockDensity c ρ Pinv p
    ρs * (us - S) = ρ * (u - S) ∧
    ρs * (us - S) ^ 2 + p = ρ * (u - S) ^ 2 + P ∧
    (p * c.gamma / (c.gamma - 1) + ρs * (us - S) ^ 2 / 2) * (us - S)
      = (P * c.gamma / (c.gamma - 1) + ρ * (u - S) ^ 2 / 2) * (u - S) := by
  have hp0 : 0 < p := lt_trans h.P_pos hp
  obtain ⟨Q, hQ, hQ2, hS, hf⟩ := shock_flux hc h hp0
  have e1 : (1.0:ℝ) = 1 := by norm_num
  have hSeq : shockSpeedL c u a Pinv p = u + (-1) * Q / ρ := by
    simp only [shockSpeedL, sqrt_real]; rw [hS]; ring
  have hus : u - fb c P A B Pinv afac p = u + (-1) * (p - P) / Q := by
    rw [fb_shock hp, hA, hB, hf]; ring
  have hρs : shockDensity c ρ Pinv p
      = ρ * (p / P + (c.gamma - 1) / (c.gamma + 1)) / ((c.gamma - 1) / (c.gamma + 1) * (p / P) + 1) := by
    simp only [shockDensity, e1]; rw [h.Pinv_val, hc.gm1dgp1]; ring
  intro S us ρs
  simp only [S, us, ρs]
  rw [hSeq, hus, hρs]
  exact rh_core c.gamma ρ P p u (-1) Q hc.g1 h.P_pos hp0 hQ (Or.inr rfl) hQ2

end shockStates
/-! ### the Newton iterates stay positive and increase (while `f < 0`) -/
section newtonPos

theorem fprimeb_pos {c : Consts ℝ} {P A B Pinv rhoainv p : ℝ} (hP : 0 < P)
    (hPinv : 0 < Pinv) (hA : 0 < A) (hB : 0 ≤ B) (hr : 0 < rhoainv) (hp : 0 < p) :
    0 < fprimeb c P A B Pinv rhoainv p := by
  unfold fprimeb
  split_ifs with h
  · have hpB : 0 < p + B := by linarith
    have e1 : (1.0:ℝ) = 1 := by norm_num
    have e2 : (0.5:ℝ) = 1 / 2 := by norm_num
    simp only [sqrt_real, e1, e2]
    have hC : 0 < 1 / (p + B) := by positivity
    have h1 : (p - P) * (1 / (p + B)) < 1 := by
      rw [mul_one_div, div_lt_one hpB]; linarith
    have h2 : 0 < 1 - 1 / 2 * (p - P) * (1 / (p + B)) := by nlinarith
    exact mul_pos h2 (Real.sqrt_pos.mpr (mul_pos hA hC))
  · simp only [pow_real]
    exact mul_pos (Real.rpow_pos_of_pos (mul_pos hp hPinv) _) hr

theorem pressureFn'_pos {c : Consts ℝ} (hc : CRel c) {ρL PL ρR PR : ℝ} (hρL : 0 < ρL)
    (hPL : 0 < PL) (hρR : 0 < ρR) (hPR : 0 < PR) {p : ℝ} (hp : 0 < p) :
    0 < pressureFn' c ρL PL ρR PR p := by
  have sL := stateOK_of_solve hc hρL hPL
  have sR := stateOK_of_solve hc hρR hPR
  unfold pressureFn' fprime
  have hL := fprimeb_pos (c := c) hPL sL.Pinv_pos (mul_pos hc.tdgp1_pos (one_div_pos' hρL))
    (mul_nonneg hc.gm1dgp1_pos.le hPL.le) (one_div_pos' (mul_pos hρL sL.a_pos)) hp
  have hR := fprimeb_pos (c := c) hPR sR.Pinv_pos (mul_pos hc.tdgp1_pos (one_div_pos' hρR))
    (mul_nonneg hc.gm1dgp1_pos.le hPR.le) (one_div_pos' (mul_pos hρR sR.a_pos)) hp
  linarith

/-- the initial guess is positive -/
theorem guessP_pos (c : Consts ℝ) {PL PR : ℝ} (hPL : 0 < PL) (hPR : 0 < PR)
    (aL AL BL aR AR BR udiff : ℝ) : 0 < guessP c PL aL AL BL PR aR AR BR udiff := by
  have hs : 0 < smallP PL PR := by unfold smallP; norm_num; linarith
  have hm : ∀ x : ℝ, 0 < amax (smallP PL PR) x := fun x => by
    rw [amax_real]; exact lt_of_lt_of_le hs (le_max_left _ _)
  unfold guessP guessPT
  simp only
  split_ifs <;> exact hm _

variable (F F' : ℝ → ℝ)

theorem newtonLoop_pos (hF' : ∀ p, 0 < p → 0 < F' p) (n : ℕ) {s : NState ℝ} (hi : NInv F s)
    (h0 : 0 ≤ s.Pstar) (h1 : s.Pstar < s.Pguess) :
    0 ≤ (newtonLoop F F' n s).1.Pstar ∧ (newtonLoop F F' n s).1.Pstar < (newtonLoop F F' n s).1.Pguess := by
  induction n generalizing s with
  | zero => exact ⟨h0, h1⟩
  | succ n ih =>
    unfold newtonLoop
    split_ifs with hc
    · have hneg : s.fPguess < 0 := by have := hc.2; norm_num at this; exact this
      have hpos : 0 < s.Pguess := lt_of_le_of_lt h0 h1
      have hq : s.fPguess / F' s.Pguess < 0 := div_neg_of_neg_of_pos hneg (hF' _ hpos)
      exact ih ⟨hi.fPguess_eq, rfl, hneg⟩ hpos.le (by simp only; linarith)
    · exact ⟨h0, h1⟩

theorem newtonPhase_pos (hF' : ∀ p, 0 < p → 0 < F' p) (n : ℕ) {Pguess : ℝ} (hg : 0 < Pguess)
    (hF0 : F 0 < 0) :
    0 ≤ (newtonPhase F F' n Pguess).1.Pstar ∧
      (newtonPhase F F' n Pguess).1.Pstar < (newtonPhase F F' n Pguess).1.Pguess := by
  have e0 : (0.0:ℝ) = 0 := by norm_num
  have hi : NInv F (⟨0.0, F 0.0, Pguess, F Pguess⟩ : NState ℝ) := ⟨rfl, rfl, by rw [e0]; exact hF0⟩
  unfold newtonPhase
  simp only
  split_ifs
  · exact newtonLoop_pos F F' hF' n hi (by simp [e0]) (by simpa [e0] using hg)
  · exact ⟨by simp [e0], by simpa [e0] using hg⟩

end newtonPos
/-! ### existence of the root of the pressure equation -/
section existence

/-- the shock branch is unbounded: `fb` exceeds any `d` at `p = P + t` for `t` large enough -/
theorem fb_large {c : Consts ℝ} {P A B Pinv afac : ℝ} (hP : 0 < P) (hA : 0 < A) (hB : 0 ≤ B)
    (d : ℝ) : ∃ t : ℝ, 0 < t ∧ ∀ t' : ℝ, t ≤ t' → d < fb c P A B Pinv afac (P + t') := by
  refine ⟨P + B + 2 * d ^ 2 / A + 1, by positivity, fun t ht => ?_⟩
  have ht0 : 0 < t := lt_of_lt_of_le (by positivity) ht
  have h1 : P + B ≤ t := by have : 0 ≤ 2 * d ^ 2 / A := by positivity
                            linarith
  have h2 : d ^ 2 < t * A / 2 := by
    have : 2 * d ^ 2 / A < t := by linarith
    rw [div_lt_iff₀ hA] at this
    linarith
  rw [fb_shock (by linarith)]
  have e : (P + t - P) * Real.sqrt (A / (P + t + B)) = Real.sqrt (t ^ 2 * (A / (P + t + B))) := by
    rw [Real.sqrt_mul (sq_nonneg _), Real.sqrt_sq ht0.le]; ring_nf
  rw [e]
  have hden : 0 < P + t + B := by linarith
  have h3 : t * A / 2 ≤ t ^ 2 * (A / (P + t + B)) := by
    rw [mul_div_assoc', le_div_iff₀ hden]
    nlinarith [mul_pos ht0 hA]
  calc d ≤ |d| := le_abs_self d
    _ = Real.sqrt (d ^ 2) := (Real.sqrt_sq_eq_abs d).symm
    _ < Real.sqrt (t * A / 2) := Real.sqrt_lt_sqrt (sq_nonneg d) h2
    _ ≤ Real.sqrt (t ^ 2 * (A / (P + t + B))) := Real.sqrt_le_sqrt h3

/-- without vacuum generation the pressure equation has a root `p > 0` -/
theorem pressureFn_root {c : Consts ℝ} (hc : CRel c) {ρL uL PL ρR uR PR : ℝ} (hρL : 0 < ρL)
    (hPL : 0 < PL) (hρR : 0 < ρR) (hPR : 0 < PR)
    (h0 : pressureFn c ρL uL PL ρR uR PR 0 < 0) :
    ∃ p : ℝ, 0 < p ∧ pressureFn c ρL uL PL ρR uR PR p = 0 := by
  have hcont := pressureFn_continuous (uL := uL) (uR := uR) hc hρL hPL hρR hPR
  have sR := stateOK_of_solve hc hρR hPR
  obtain ⟨t, ht, hbig⟩ := fb_large (c := c) (Pinv := 1.0 / PL)
    (afac := c.tdgm1 * soundspeed c (1.0 / ρL) PL) hPL
    (mul_pos hc.tdgp1_pos (one_div_pos' hρL)) (mul_nonneg hc.gm1dgp1_pos.le hPL.le) (-(uR - uL))
  -- a pressure above both `PL + t` and `PR`
  set q := PL + (t + PR) with hq
  have hqL := hbig (t + PR) (by linarith)
  have hqR : 0 < fb c PR (c.tdgp1 * (1.0 / ρR)) (c.gm1dgp1 * PR) (1.0 / PR)
      (c.tdgm1 * soundspeed c (1.0 / ρR) PR) q :=
    fb_pos_of_gt (mul_pos hc.tdgp1_pos (one_div_pos' hρR))
      (by have := mul_nonneg hc.gm1dgp1_pos.le hPR.le; linarith) (by rw [hq]; linarith)
  have hFq : 0 < pressureFn c ρL uL PL ρR uR PR q := by
    unfold pressureFn f; linarith
  have hq0 : 0 < q := by rw [hq]; linarith
  have hmem : (0:ℝ) ∈ Icc (pressureFn c ρL uL PL ρR uR PR 0) (pressureFn c ρL uL PL ρR uR PR q) :=
    ⟨h0.le, hFq.le⟩
  obtain ⟨p, hp, hp0⟩ := intermediate_value_Icc hq0.le hcont.continuousOn hmem
  refine ⟨p, lt_of_le_of_ne hp.1 (fun h => ?_), hp0⟩
  rw [← h] at hp0; linarith

end existence
end CMacVerif.ExactRiemann
