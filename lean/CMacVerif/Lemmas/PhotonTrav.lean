import CMacVerif.Lemmas.PhotonInv
/-! C01: the two composite labels -- `contFinish` (creates the flush tasks) and `execTraverse`
(loop over the 27 output directions) -- preserve the structural invariant and the weight. -/
namespace CMacVerif.Photon
open CMacVerif.Worker (sumOver sumOver_congr)

/-! ### states that only differ in fields the invariant does not look at -/

theorem inv_congr {cfg : Cfg} {s s' : State} (hi : Inv cfg s) (hp : s'.pool = s.pool) (ht : s'.tasks = s.tasks)
    (ha : s'.active = s.active) (hc : s'.cont = s.cont) : Inv cfg s' := by
  refine ⟨own_same hi.own hp (fun x => refBuf_congr ht ha x), ?_, contOK_same hi.ct hc⟩
  intro t tk h; rw [ht] at h; exact hi.tk t tk h

theorem weight_congr {cfg : Cfg} {s s' : State} (w : Nat → Nat) (hp : s'.pool = s.pool) (ht : s'.tasks = s.tasks)
    (hc : s'.cont = s.cont) (hs : s'.srcLeft = s.srcLeft) (hcp : s'.contPool = s.contPool) (hd : s'.done = s.done) :
    weight cfg w s' = weight cfg w s := by
  simp only [weight, hp, ht, hc, hs, hcp, hd]

/-- a new task that carries no packets and refers to no buffer -/
theorem inv_addTask {cfg : Cfg} {s : State} {t : Nat} {k : Kind} {st : TSt} (hi : Inv cfg s) (ht : t < cfg.taskCap)
    (hfree : s.tasks t = none) (hb : kindBuf k = none) (hw : ∀ w, kindW w k = 0) (hg : taskGood cfg ⟨k, st⟩) :
    Inv cfg { s with tasks := upd s.tasks t (some ⟨k, st⟩) } ∧
      ∀ w, weight cfg w { s with tasks := upd s.tasks t (some ⟨k, st⟩) } = weight cfg w s := by
  refine ⟨⟨?_, ?_, ?_⟩, ?_⟩
  · exact own_task_same hi.own rfl rfl rfl (by rw [refBuf_task_none hfree]; simp [hb])
  · apply taskOK_upd hi.tk rfl
    intro tk htk; injection htk with htk; subst htk; exact ⟨ht, hg⟩
  · exact contOK_same hi.ct rfl
  · intro w
    have e1 := sum_upd cfg.taskCap s.tasks t (some ⟨k, st⟩) (taskW w) ht
    rw [hfree] at e1
    simp only [taskW_none, taskW_some, hw w] at e1
    simp only [weight]
    omega

/-! ### contFinish -/

/-- what `addFlush` does to the task table: slots that were free now hold queued flush tasks -/
def FlushFrame (s s' : State) : Prop :=
  s'.pool = s.pool ∧ s'.active = s.active ∧ s'.cont = s.cont ∧ s'.srcLeft = s.srcLeft ∧ s'.contPool = s.contPool ∧
  s'.done = s.done ∧ s'.run = s.run ∧ s'.largest = s.largest ∧ s'.contLeft = s.contLeft ∧ s'.flushCount = s.flushCount ∧
  s'.contBlock = s.contBlock ∧
  ∀ u, s'.tasks u = s.tasks u ∨ (s.tasks u = none ∧ ∃ c, s'.tasks u = some ⟨.flush c, .queued⟩)

theorem addFlush_inv {cfg : Cfg} : ∀ (fl : List Nat) (s s' : State) (c : Nat), Inv cfg s → c + fl.length ≤ cfg.nblocks →
    addFlush cfg s c fl = some s' → Inv cfg s' ∧ (∀ w, weight cfg w s' = weight cfg w s) ∧ FlushFrame s s' := by
  intro fl
  induction fl with
  | nil =>
    intro s s' c hi _ h
    simp only [addFlush] at h; injection h with h; subst h
    exact ⟨hi, fun _ => rfl, rfl, rfl, rfl, rfl, rfl, rfl, rfl, rfl, rfl, rfl, rfl, fun _ => Or.inl rfl⟩
  | cons t ts ih =>
    intro s s' c hi hc h
    simp only [addFlush] at h
    split_ifs at h with hf
    have hf' := (taskFree_iff cfg s t).mp hf
    simp only [List.length_cons] at hc
    have hstep := inv_addTask (k := .flush c) (st := .queued) hi hf'.1 hf'.2 rfl (fun _ => rfl)
      (by simp only [taskGood]; omega)
    obtain ⟨hi2, hw2, hfr⟩ := ih _ s' (c + 1) hstep.1 (by omega) h
    refine ⟨hi2, fun w => by rw [hw2 w, hstep.2 w], ?_⟩
    obtain ⟨f1, f2, f3, f4, f5, f6, f7, f8, f9, f10, f11, f12⟩ := hfr
    refine ⟨f1, f2, f3, f4, f5, f6, f7, f8, f9, f10, f11, ?_⟩
    intro u
    rcases f12 u with e | ⟨e1, c', e2⟩
    · by_cases hu : u = t
      · subst hu
        right
        refine ⟨hf'.2, c, ?_⟩
        rw [e]; simp
      · left; rw [e]; exact upd_other _ _ _ hu
    · by_cases hu : u = t
      · subst hu; simp at e1
      · right
        refine ⟨?_, c', e2⟩
        rw [← e1]; exact (upd_other _ _ _ hu).symm

/-- explicit form of `contFinish` -/
theorem step_contFinish {cfg : Cfg} {s s' : State} {t : Nat} {fl : List Nat} (h : step cfg s (.contFinish t fl) = some s') :
    ∃ c n s2, s.tasks t = some ⟨.contSource c n [], .running⟩ ∧ n ≤ s.contLeft ∧
      (∀ g, g < cfg.norig → (s.cont (c, g)).length < BUFSZ) ∧
      s' = { s2 with tasks := upd s2.tasks t none } ∧
      ((s.contLeft - n = 0 ∧ s.flushCount = 0 ∧ fl.length = cfg.nblocks ∧
          addFlush cfg { s with contLeft := s.contLeft - n, flushCount := 1 } 0 fl = some s2) ∨
       (s.contLeft - n = 0 ∧ s.flushCount ≠ 0 ∧ s2 = { s with contLeft := s.contLeft - n, flushCount := s.flushCount + 1 }) ∨
       (s.contLeft - n ≠ 0 ∧ s2 = { s with contLeft := s.contLeft - n })) := by
  simp only [step] at h
  split at h
  · rename_i c n hk
    by_cases hg : ((List.range cfg.norig).all (fun g => decide ((s.cont (c, g)).length < BUFSZ)) = true ∧ n ≤ s.contLeft)
    · rw [if_pos hg] at h
      have hall : ∀ g, g < cfg.norig → (s.cont (c, g)).length < BUFSZ := by
        intro g hg'; have := List.all_eq_true.mp hg.1 g (List.mem_range.mpr hg'); simpa using this
      by_cases h0 : s.contLeft - n = 0
      · by_cases hf : s.flushCount = 0
        · by_cases hl : fl.length = cfg.nblocks
          · rw [if_pos h0, if_pos hf, if_pos hl] at h
            split at h
            · rename_i s2 hs2
              injection h with h
              exact ⟨c, n, s2, hk, hg.2, hall, h.symm, Or.inl ⟨h0, hf, hl, hs2⟩⟩
            · cases h
          · rw [if_pos h0, if_pos hf, if_neg hl] at h
            simp at h
        · rw [if_pos h0, if_neg hf] at h
          simp only at h
          injection h with h
          exact ⟨c, n, _, hk, hg.2, hall, h.symm, Or.inr (Or.inl ⟨h0, hf, rfl⟩)⟩
      · rw [if_neg h0] at h
        simp only at h
        injection h with h
        exact ⟨c, n, _, hk, hg.2, hall, h.symm, Or.inr (Or.inr ⟨h0, rfl⟩)⟩
    · rw [if_neg hg] at h; cases h
  · cases h

theorem inv_contFinish {cfg : Cfg} {s s' : State} {t : Nat} {fl : List Nat} (hi : Inv cfg s)
    (h : step cfg s (.contFinish t fl) = some s') : Inv cfg s' ∧ ∀ w, weight cfg w s' = weight cfg w s := by
  obtain ⟨c, n, s2, hk, _, _, rfl, hcase⟩ := step_contFinish h
  -- the intermediate state s2 satisfies the invariant, has the same weight and still holds the task t
  have key : Inv cfg s2 ∧ (∀ w, weight cfg w s2 = weight cfg w s) ∧ s2.tasks t = s.tasks t := by
    rcases hcase with ⟨_, _, hl, hadd⟩ | ⟨_, _, rfl⟩ | ⟨_, rfl⟩
    · have hi1 : Inv cfg { s with contLeft := s.contLeft - n, flushCount := 1 } := inv_congr hi rfl rfl rfl rfl
      obtain ⟨hi2, hw2, hfr⟩ := addFlush_inv fl _ s2 0 hi1 (by omega) hadd
      refine ⟨hi2, fun w => by rw [hw2 w]; exact weight_congr w rfl rfl rfl rfl rfl rfl, ?_⟩
      rcases hfr.2.2.2.2.2.2.2.2.2.2.2 t with e | ⟨e, _⟩
      · exact e
      · have : s.tasks t = none := e
        rw [hk] at this; cases this
    · exact ⟨inv_congr hi rfl rfl rfl rfl, fun w => weight_congr w rfl rfl rfl rfl rfl rfl, rfl⟩
    · exact ⟨inv_congr hi rfl rfl rfl rfl, fun w => weight_congr w rfl rfl rfl rfl rfl rfl, rfl⟩
  obtain ⟨hi2, hw2, ht2⟩ := key
  have hd := inv_dropTask (t := t) hi2 (by rw [ht2]; exact hk) rfl (fun _ => by simp)
  exact ⟨hd.1, fun w => by rw [hd.2 w, hw2 w]⟩

/-! ### one output direction of a traversal -/

theorem addPhotons_fst (old L : List Nat) : (addPhotons old L).1 = old ++ L.take (BUFSZ - old.length) := rfl
theorem addPhotons_snd (old L : List Nat) : (addPhotons old L).2 = L.drop (BUFSZ - old.length) := rfl

theorem addPhotons_wsum (w : Nat → Nat) (old L : List Nat) :
    wsum w (addPhotons old L).1 + wsum w (addPhotons old L).2 = wsum w old + wsum w L := by
  rw [addPhotons_fst, addPhotons_snd, wsum_append]
  have := wsum_take_drop w L (BUFSZ - old.length)
  omega

theorem addPhotons_len (old L : List Nat) (h : old.length ≤ BUFSZ) : (addPhotons old L).1.length ≤ BUFSZ := by
  rw [addPhotons_fst, List.length_append, List.length_take]
  have : min (BUFSZ - old.length) L.length ≤ BUFSZ - old.length := Nat.min_le_left _ _
  omega

/-- not full => everything fitted -/
theorem addPhotons_rest_nil (old L : List Nat) (h : old.length ≤ BUFSZ) (hn : (addPhotons old L).1.length ≠ BUFSZ) :
    (addPhotons old L).2 = [] := by
  rw [addPhotons_snd]
  apply List.drop_eq_nil_of_le
  rw [addPhotons_fst, List.length_append, List.length_take] at hn
  by_cases hle : L.length ≤ BUFSZ - old.length
  · exact hle
  · exfalso
    have : min (BUFSZ - old.length) L.length = BUFSZ - old.length := Nat.min_eq_left (by omega)
    omega

theorem addPhotons_rest_len (old L : List Nat) (h : old.length ≤ BUFSZ) (hL : L.length ≤ BUFSZ) :
    (addPhotons old L).2.length ≤ old.length := by
  rw [addPhotons_snd, List.length_drop]; omega

def stNF (s : State) (g i a : Nat) (b1 : Buf) : State :=
  { s with pool := upd s.pool a (some b1), active := upd2 s.active g i (some a) }
def stFE (s : State) (g i a : Nat) (b1 : Buf) (nt : Nat) (k : Kind) : State :=
  { s with pool := upd s.pool a (some b1), tasks := upd s.tasks nt (some ⟨k, .pending⟩), active := upd2 s.active g i none }
def stFR (s : State) (g i a : Nat) (b1 : Buf) (nb : Nat) (b2 : Buf) (nt : Nat) (k : Kind) : State :=
  { s with pool := upd (upd s.pool a (some b1)) nb (some b2), tasks := upd s.tasks nt (some ⟨k, .pending⟩),
           active := upd2 s.active g i (some nb) }

theorem fillDir_cases {cfg : Cfg} {g i a sub dir : Nat} {old L : List Nat} {r : DirRes} {s s1 : State}
    (h : fillDir cfg g i a sub dir old L r s = some s1) :
    ((addPhotons old L).1.length ≠ BUFSZ ∧ s1 = stNF s g i a ⟨sub, dir, (addPhotons old L).1⟩) ∨
    ((addPhotons old L).1.length = BUFSZ ∧ r.nb < cfg.bufCap ∧ r.nb ≠ a ∧ s.pool r.nb = none ∧
      r.nt < cfg.taskCap ∧ s.tasks r.nt = none ∧
      (((addPhotons old L).2 = [] ∧ s1 = stFE s g i a ⟨sub, dir, (addPhotons old L).1⟩ r.nt (fullKind i a)) ∨
       ((addPhotons old L).2 ≠ [] ∧
         s1 = stFR s g i a ⟨sub, dir, (addPhotons old L).1⟩ r.nb ⟨sub, dir, (addPhotons old L).2⟩ r.nt (fullKind i a)))) := by
  simp only [fillDir] at h
  split_ifs at h with hfull hfree hrest
  · -- full, rest empty
    injection h with h
    simp only [Bool.and_eq_true] at hfree
    have h1 := (bufFree_iff cfg _ r.nb).mp hfree.1
    have h2 := (taskFree_iff cfg _ r.nt).mp hfree.2
    have hne : r.nb ≠ a := by
      intro e; have := h1.2; simp only [e, upd_same] at this; cases this
    refine Or.inr ⟨hfull, h1.1, hne, ?_, h2.1, h2.2, Or.inl ⟨by simpa using hrest, ?_⟩⟩
    · have := h1.2; simp only at this; rwa [upd_other _ _ _ hne] at this
    · rw [← h]; rfl
  · injection h with h
    simp only [Bool.and_eq_true] at hfree
    have h1 := (bufFree_iff cfg _ r.nb).mp hfree.1
    have h2 := (taskFree_iff cfg _ r.nt).mp hfree.2
    have hne : r.nb ≠ a := by
      intro e; have := h1.2; simp only [e, upd_same] at this; cases this
    refine Or.inr ⟨hfull, h1.1, hne, ?_, h2.1, h2.2, Or.inr ⟨by simpa using hrest, ?_⟩⟩
    · have := h1.2; simp only at this; rwa [upd_other _ _ _ hne] at this
    · rw [← h]; rfl
  · injection h with h
    exact Or.inl ⟨hfull, by rw [← h]; rfl⟩

/-- the fields a traversal direction does not touch -/
def SameRest (s s' : State) : Prop :=
  s'.cont = s.cont ∧ s'.srcLeft = s.srcLeft ∧ s'.contPool = s.contPool ∧ s'.done = s.done ∧ s'.run = s.run ∧
  s'.largest = s.largest ∧ s'.contLeft = s.contLeft ∧ s'.flushCount = s.flushCount ∧ s'.contBlock = s.contBlock

theorem SameRest.refl (s : State) : SameRest s s := ⟨rfl, rfl, rfl, rfl, rfl, rfl, rfl, rfl, rfl⟩
theorem SameRest.trans {a b c : State} (h1 : SameRest a b) (h2 : SameRest b c) : SameRest a c := by
  obtain ⟨a1, a2, a3, a4, a5, a6, a7, a8, a9⟩ := h1
  obtain ⟨b1, b2, b3, b4, b5, b6, b7, b8, b9⟩ := h2
  exact ⟨b1.trans a1, b2.trans a2, b3.trans a3, b4.trans a4, b5.trans a5, b6.trans a6, b7.trans a7, b8.trans a8, b9.trans a9⟩

/-- the situation of the active buffer of direction i before the packets `L` are added -/
inductive ActiveCase (cfg : Cfg) (s : State) (g i a sub dir : Nat) (old : List Nat) : Prop where
  | existing (ha : s.active g i = some a) (hp : s.pool a = some ⟨sub, dir, old⟩)
  | fresh (ha : s.active g i = none) (hp : s.pool a = none) (hc : a < cfg.bufCap) (ho : old = [])

/-- invariant, weight and frame of `fillDir`; `t`/`b0` = the running traversal and its input buffer -/
theorem fillDir_inv {cfg : Cfg} {g i a sub dir : Nat} {old L : List Nat} {r : DirRes} {s s1 : State}
    (hi : Inv cfg s) (hL : L ≠ []) (hLlen : L.length ≤ BUFSZ) (hngb : (cfg.ngb g i).isSome = true)
    (hcase : ActiveCase cfg s g i a sub dir old)
    (h : fillDir cfg g i a sub dir old L r s = some s1) :
    Inv cfg s1 ∧ (∀ w, weight cfg w s1 = weight cfg w s + wsum w L) ∧ SameRest s s1 := by
  -- facts about the old contents
  have hold : old.length < BUFSZ ∧ (s.active g i = some a → old ≠ []) := by
    cases hcase with
    | existing ha hp =>
      obtain ⟨buf, hb, hok⟩ := hi.own.live (.act g i) a ha
      rw [hp] at hb; injection hb with hb; subst hb
      exact ⟨hok.2.1, fun _ => hok.1⟩
    | fresh ha hp hc ho => subst ho; exact ⟨by decide, fun e => by rw [ha] at e; cases e⟩
  have hacap : a < cfg.bufCap := by
    cases hcase with
    | existing ha hp => exact (hi.own.owned a _ hp).1
    | fresh ha hp hc ho => exact hc
  have hlen1 := addPhotons_len old L (Nat.le_of_lt hold.1)
  have hne1 : (addPhotons old L).1 ≠ [] := by
    rw [addPhotons_fst]
    intro e
    have e' := List.append_eq_nil_iff.mp e
    have hroom : 0 < BUFSZ - old.length := by omega
    have : L.take (BUFSZ - old.length) ≠ [] := by
      intro e2; rw [List.take_eq_nil_iff] at e2
      rcases e2 with e2 | e2
      · omega
      · exact hL e2
    exact this e'.2
  have hws := fun w => addPhotons_wsum w old L
  have hbufW : ∀ w, bufW w (s.pool a) = wsum w old := by
    intro w
    cases hcase with
    | existing ha hp => rw [hp]; rfl
    | fresh ha hp hc ho => rw [hp, ho]; rfl
  rcases fillDir_cases h with ⟨hnf, rfl⟩ | ⟨hfull, hnbc, hnba, hnbf, hntc, hntf, hsub⟩
  · ----- not full
    have hrest := addPhotons_rest_nil old L (Nat.le_of_lt hold.1) hnf
    have hokA : okFor cfg (.act g i) ⟨sub, dir, (addPhotons old L).1⟩ :=
      ⟨hne1, by show (addPhotons old L).1.length < BUFSZ; omega, hngb⟩
    refine ⟨⟨?_, ?_, contOK_same hi.ct rfl⟩, ?_, SameRest.refl _⟩
    · cases hcase with
      | existing ha hp =>
        refine own_refill hi.own (b := a) (by rw [hp]; rfl) rfl ?_ ?_
        · intro x; simp only [refBuf_eq, stNF]; rw [refBufF_upd_active]
          by_cases e : x = .act g i
          · subst e; simp only [if_true]; exact ha.symm
          · simp [e]
        · intro r' hr'
          have := hi.own.uniq r' (.act g i) a hr' ha
          subst this; exact hokA
      | fresh ha hp hc ho =>
        refine own_add hi.own (r := .act g i) hp hc hokA rfl ?_ ha
        intro x; simp only [refBuf_eq, stNF]; rw [refBufF_upd_active]
    · intro t tk htk; exact hi.tk t tk htk
    · intro w
      have e3 := sum_upd cfg.bufCap s.pool a (some ⟨sub, dir, (addPhotons old L).1⟩) (bufW w) hacap
      have e4 := hws w
      rw [hbufW w] at e3
      rw [hrest] at e4
      simp only [bufW_some, wsum_nil] at e3 e4
      simp only [weight, stNF]
      omega
  · ----- full
    have hkb := fullKind_buf i a
    rcases hsub with ⟨hrest, rfl⟩ | ⟨hrest, rfl⟩
    · --- the fresh buffer stays empty
      have hokT : okFor cfg (.task r.nt) ⟨sub, dir, (addPhotons old L).1⟩ := ⟨hne1, hlen1⟩
      refine ⟨⟨?_, ?_, contOK_same hi.ct rfl⟩, ?_, SameRest.refl _⟩
      · cases hcase with
        | existing ha hp =>
          -- the reference moves from the active entry to the new task, then the buffer is refilled
          let sA : State := { s with tasks := upd s.tasks r.nt (some ⟨fullKind i a, .pending⟩), active := upd2 s.active g i none }
          have hrA : ∀ x, refBuf sA x = if x = .task r.nt then some a else if x = .act g i then none else refBuf s x := by
            intro x; simp only [refBuf_eq]
            show refBufF (upd s.tasks r.nt _) (upd2 s.active g i none) x = _
            rw [refBufF_upd_active, refBufF_upd_tasks, optKindBuf_some, hkb]
            by_cases e1 : x = .task r.nt
            · subst e1; simp
            · simp [e1]
          have hA : Own cfg sA :=
            own_move hi.own (s' := sA) (ro := .act g i) (rn := .task r.nt) ha (refBuf_task_none hntf)
              (fun buf _ hok => ⟨hok.1, Nat.le_of_lt hok.2.1⟩) rfl hrA
          refine own_refill hA (b := a) (by show (s.pool a).isSome = true; rw [hp]; rfl) rfl (fun x => refBuf_congr rfl rfl x) ?_
          intro r' hr'
          have hrt : refBuf sA (.task r.nt) = some a := by rw [hrA]; simp
          have := hA.uniq r' (.task r.nt) a hr' hrt
          subst this; exact hokT
        | fresh ha hp hc ho =>
          refine own_add hi.own (r := .task r.nt) hp hc hokT rfl ?_ (refBuf_task_none hntf)
          intro x; simp only [refBuf_eq, stFE]; rw [refBufF_upd_active, refBufF_upd_tasks, optKindBuf_some, hkb]
          by_cases e1 : x = .task r.nt
          · subst e1; simp
          · by_cases e2 : x = .act g i
            · subst e2; simp only [e1, if_false, if_true]; rw [← refBuf_eq]; exact ha.symm
            · simp [e1, e2]
      · apply taskOK_upd hi.tk (t := r.nt) (v := some ⟨fullKind i a, .pending⟩) rfl
        intro tk htk; injection htk with htk; subst htk; exact ⟨hntc, fullKind_good cfg i a _⟩
      · intro w
        have e1 := sum_upd cfg.taskCap s.tasks r.nt (some ⟨fullKind i a, .pending⟩) (taskW w) hntc
        have e3 := sum_upd cfg.bufCap s.pool a (some ⟨sub, dir, (addPhotons old L).1⟩) (bufW w) hacap
        have e4 := hws w
        rw [hntf] at e1
        rw [hbufW w] at e3
        rw [hrest] at e4
        simp only [taskW_none, taskW_some, fullKind_w, bufW_some, wsum_nil] at e1 e3 e4
        simp only [weight, stFE]
        omega
    · --- the fresh buffer takes the rest: only possible with an existing active buffer
      cases hcase with
      | fresh ha hp hc ho =>
        exfalso; apply hrest
        rw [addPhotons_snd, ho]; exact List.drop_eq_nil_of_le (by simpa using hLlen)
      | existing ha hp =>
        have hokT : okFor cfg (.task r.nt) ⟨sub, dir, (addPhotons old L).1⟩ := ⟨hne1, hlen1⟩
        have hrl := addPhotons_rest_len old L (Nat.le_of_lt hold.1) hLlen
        have hokR : okFor cfg (.act g i) ⟨sub, dir, (addPhotons old L).2⟩ :=
          ⟨hrest, by show (addPhotons old L).2.length < BUFSZ; omega, hngb⟩
        let sA : State := { s with tasks := upd s.tasks r.nt (some ⟨fullKind i a, .pending⟩), active := upd2 s.active g i none }
        have hrA : ∀ x, refBuf sA x = if x = .task r.nt then some a else if x = .act g i then none else refBuf s x := by
          intro x; simp only [refBuf_eq]
          show refBufF (upd s.tasks r.nt _) (upd2 s.active g i none) x = _
          rw [refBufF_upd_active, refBufF_upd_tasks, optKindBuf_some, hkb]
          by_cases e1 : x = .task r.nt
          · subst e1; simp
          · simp [e1]
        have hA : Own cfg sA :=
          own_move hi.own (s' := sA) (ro := .act g i) (rn := .task r.nt) ha (refBuf_task_none hntf)
            (fun buf _ hok => ⟨hok.1, Nat.le_of_lt hok.2.1⟩) rfl hrA
        let sB : State := { sA with pool := upd sA.pool a (some ⟨sub, dir, (addPhotons old L).1⟩) }
        have hB : Own cfg sB := by
          refine own_refill hA (s' := sB) (b := a) (by show (s.pool a).isSome = true; rw [hp]; rfl) rfl (fun x => refBuf_congr rfl rfl x) ?_
          intro r' hr'
          have hrt : refBuf sA (.task r.nt) = some a := by rw [hrA]; simp
          have := hA.uniq r' (.task r.nt) a hr' hrt
          subst this; exact hokT
        refine ⟨⟨?_, ?_, contOK_same hi.ct rfl⟩, ?_, SameRest.refl _⟩
        · refine own_add hB (b := r.nb) (r := .act g i) ?_ hnbc hokR rfl ?_ ?_
          · show upd s.pool a _ r.nb = none
            rw [upd_other _ _ _ hnba]; exact hnbf
          · intro x; simp only [refBuf_eq]
            show refBufF (upd s.tasks r.nt _) (upd2 s.active g i (some r.nb)) x
              = if x = .act g i then some r.nb else refBufF (upd s.tasks r.nt _) (upd2 s.active g i none) x
            rw [refBufF_upd_active, refBufF_upd_active]
            by_cases e : x = .act g i <;> simp [e]
          · have : refBuf sB (.act g i) = refBuf sA (.act g i) := refBuf_congr rfl rfl _
            rw [this, hrA]; simp
        · apply taskOK_upd hi.tk (t := r.nt) (v := some ⟨fullKind i a, .pending⟩) rfl
          intro tk htk; injection htk with htk; subst htk; exact ⟨hntc, fullKind_good cfg i a _⟩
        · intro w
          have e1 := sum_upd cfg.taskCap s.tasks r.nt (some ⟨fullKind i a, .pending⟩) (taskW w) hntc
          have e2 := sum_upd cfg.bufCap (upd s.pool a (some ⟨sub, dir, (addPhotons old L).1⟩)) r.nb
            (some ⟨sub, dir, (addPhotons old L).2⟩) (bufW w) hnbc
          have e3 := sum_upd cfg.bufCap s.pool a (some ⟨sub, dir, (addPhotons old L).1⟩) (bufW w) hacap
          have e4 := hws w
          rw [hntf] at e1
          rw [upd_other _ _ _ hnba, hnbf] at e2
          rw [hbufW w] at e3
          simp only [taskW_none, taskW_some, fullKind_w, bufW_some, bufW_none] at e1 e2 e3
          simp only [weight, stFR]
          omega

/-- what one output direction changes (no invariant needed) -/
structure DirFrame (s s1 : State) (g i : Nat) : Prop where
  rest : SameRest s s1
  tasksKeep : ∀ u, s.tasks u ≠ none → s1.tasks u = s.tasks u
  tasksNew : ∀ u, s.tasks u = none → s1.tasks u = none ∨ ∃ k, s1.tasks u = some ⟨k, .pending⟩ ∧ (kindBuf k).isSome = true
  poolKeep : ∀ b, s.pool b ≠ none → s.active g i ≠ some b → s1.pool b = s.pool b
  poolSub : ∀ b bb, s.pool b = some bb → ∃ bb', s1.pool b = some bb' ∧ bb'.sub = bb.sub
  actKeep : ∀ g' j, ¬(g' = g ∧ j = i) → s1.active g' j = s.active g' j
  actOrigin : ∀ b, s1.active g i = some b → s.active g i = some b ∨ s.pool b = none

theorem DirFrame.refl (s : State) (g i : Nat) : DirFrame s s g i :=
  ⟨SameRest.refl s, fun _ _ => rfl, fun _ h => Or.inl h, fun _ _ _ => rfl, fun _ bb h => ⟨bb, h, rfl⟩,
   fun _ _ _ => rfl, fun _ h => Or.inl h⟩

theorem fillDir_frame {cfg : Cfg} {g i a sub dir : Nat} {old L : List Nat} {r : DirRes} {s s1 : State}
    (ha : (s.active g i = some a ∧ ∃ tb, s.pool a = some tb ∧ tb.sub = sub) ∨ (s.active g i = none ∧ s.pool a = none))
    (h : fillDir cfg g i a sub dir old L r s = some s1) : DirFrame s s1 g i := by
  have hpa : ∀ b, s.pool b ≠ none → s.active g i ≠ some b → b ≠ a := by
    intro b hb hnb e; subst e
    rcases ha with ⟨h1, _⟩ | ⟨_, h2⟩
    · exact hnb h1
    · exact hb h2
  have hsubA : ∀ bb, s.pool a = some bb → bb.sub = sub := by
    intro bb hbb
    rcases ha with ⟨_, tb, h1, h2⟩ | ⟨_, h2⟩
    · rw [h1] at hbb; injection hbb with hbb; subst hbb; exact h2
    · rw [h2] at hbb; cases hbb
  have hactA : s.active g i = some a ∨ s.pool a = none := by
    rcases ha with ⟨h1, _⟩ | ⟨_, h2⟩
    · exact Or.inl h1
    · exact Or.inr h2
  rcases fillDir_cases h with ⟨_, rfl⟩ | ⟨_, _, hnba, hnbf, _, hntf, hsub⟩
  · refine ⟨SameRest.refl _, fun _ _ => rfl, fun _ hu => Or.inl hu, ?_, ?_, ?_, ?_⟩
    · intro b hb hnb; simp only [stNF]; exact upd_other _ _ _ (hpa b hb hnb)
    · intro b bb hb; simp only [stNF]
      by_cases e : b = a
      · subst e; exact ⟨_, upd_same _ _ _, (hsubA bb hb).symm⟩
      · exact ⟨bb, by rw [upd_other _ _ _ e]; exact hb, rfl⟩
    · intro g' j hne; simp only [stNF]; exact upd2_other _ _ _ _ hne
    · intro b hb; simp only [stNF, upd2_same] at hb; injection hb with hb; subst hb; exact hactA
  · have htk : ∀ (st : State), st.tasks = upd s.tasks r.nt (some ⟨fullKind i a, .pending⟩) →
        (∀ u, s.tasks u ≠ none → st.tasks u = s.tasks u) ∧
        (∀ u, s.tasks u = none → st.tasks u = none ∨ ∃ k, st.tasks u = some ⟨k, .pending⟩ ∧ (kindBuf k).isSome = true) := by
      intro st hst
      refine ⟨?_, ?_⟩
      · intro u hu; rw [hst]
        have : u ≠ r.nt := by intro e; subst e; exact hu hntf
        exact upd_other _ _ _ this
      · intro u hu; rw [hst]
        by_cases e : u = r.nt
        · subst e; right; exact ⟨fullKind i a, upd_same _ _ _, by rw [fullKind_buf]; rfl⟩
        · left; rw [upd_other _ _ _ e]; exact hu
    rcases hsub with ⟨_, rfl⟩ | ⟨_, rfl⟩
    · refine ⟨SameRest.refl _, (htk _ rfl).1, (htk _ rfl).2, ?_, ?_, ?_, ?_⟩
      · intro b hb hnb; simp only [stFE]; exact upd_other _ _ _ (hpa b hb hnb)
      · intro b bb hb; simp only [stFE]
        by_cases e : b = a
        · subst e; exact ⟨_, upd_same _ _ _, (hsubA bb hb).symm⟩
        · exact ⟨bb, by rw [upd_other _ _ _ e]; exact hb, rfl⟩
      · intro g' j hne; simp only [stFE]; exact upd2_other _ _ _ _ hne
      · intro b hb; simp only [stFE, upd2_same] at hb; cases hb
    · refine ⟨SameRest.refl _, (htk _ rfl).1, (htk _ rfl).2, ?_, ?_, ?_, ?_⟩
      · intro b hb hnb; simp only [stFR]
        have h1 : b ≠ r.nb := by intro e; subst e; exact hb hnbf
        rw [upd_other _ _ _ h1]; exact upd_other _ _ _ (hpa b hb hnb)
      · intro b bb hb; simp only [stFR]
        have h1 : b ≠ r.nb := by intro e; subst e; rw [hnbf] at hb; cases hb
        rw [upd_other _ _ _ h1]
        by_cases e : b = a
        · subst e; exact ⟨_, upd_same _ _ _, (hsubA bb hb).symm⟩
        · exact ⟨bb, by rw [upd_other _ _ _ e]; exact hb, rfl⟩
      · intro g' j hne; simp only [stFR]; exact upd2_other _ _ _ _ hne
      · intro b hb; simp only [stFR, upd2_same] at hb; injection hb with hb; subst hb; exact Or.inr hnbf

theorem travDirState_frame {cfg : Cfg} {g i : Nat} {L : List Nat} {r : DirRes} {s s1 : State}
    (h : travDirState cfg g L r i s = some s1) : DirFrame s s1 g i := by
  simp only [travDirState] at h
  by_cases hL : L.isEmpty = true
  · rw [if_pos hL] at h; injection h with h; subst h; exact DirFrame.refl s g i
  · rw [if_neg hL] at h
    split at h
    · cases h
    · rename_i ng hng
      split at h
      · rename_i a ha
        split at h
        · rename_i tb htb
          exact fillDir_frame (Or.inl ⟨ha, tb, htb, rfl⟩) h
        · cases h
      · rename_i ha
        by_cases hf : bufFree cfg s r.na = true
        · rw [if_pos hf] at h
          have hf' := (bufFree_iff cfg s r.na).mp hf
          exact fillDir_frame (Or.inr ⟨ha, hf'.2⟩) h
        · rw [if_neg hf] at h; cases h

theorem travDirState_inv {cfg : Cfg} {g i : Nat} {L : List Nat} {r : DirRes} {s s1 : State}
    (hi : Inv cfg s) (hLlen : L.length ≤ BUFSZ) (h : travDirState cfg g L r i s = some s1) :
    Inv cfg s1 ∧ (∀ w, weight cfg w s1 = weight cfg w s + wsum w L) := by
  simp only [travDirState] at h
  by_cases hL : L.isEmpty = true
  · rw [if_pos hL] at h; injection h with h; subst h
    have : L = [] := by simpa using hL
    subst this
    exact ⟨hi, fun w => by simp⟩
  · rw [if_neg hL] at h
    have hLne : L ≠ [] := by simpa using hL
    split at h
    · cases h
    · rename_i ng hng
      have hngb : (cfg.ngb g i).isSome = true := by rw [hng]; rfl
      split at h
      · rename_i a ha
        split at h
        · rename_i tb htb
          have := fillDir_inv hi hLne hLlen hngb (ActiveCase.existing ha (by cases tb; exact htb)) h
          exact ⟨this.1, this.2.1⟩
        · cases h
      · rename_i ha
        by_cases hf : bufFree cfg s r.na = true
        · rw [if_pos hf] at h
          have hf' := (bufFree_iff cfg s r.na).mp hf
          have := fillDir_inv hi hLne hLlen hngb (ActiveCase.fresh ha hf'.2 hf'.1 rfl) h
          exact ⟨this.1, this.2.1⟩
        · rw [if_neg hf] at h; cases h

end CMacVerif.Photon
