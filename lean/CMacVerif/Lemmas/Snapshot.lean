import CMacVerif.Model.Snapshot
/-!
Lemmas for the index-level snapshot model of C20: mixed-radix encoding, the block loop of the
writer, arrays filled by computed index.
-/
namespace CMacVerif.Snapshot

/-! ## mixed radix -/

theorem lt_mul_add {a n b m : Nat} (ha : a < n) (hb : b < m) : a * m + b < n * m := by
  have h1 : (a + 1) * m ≤ n * m := Nat.mul_le_mul_right m ha
  rw [Nat.succ_mul] at h1
  omega

theorem one_lt {a b c n0 n1 n2 : Nat} (ha : a < n0) (hb : b < n1) (hc : c < n2) :
    a * n1 * n2 + b * n2 + c < n0 * n1 * n2 := by
  have h1 : b * n2 + c < n1 * n2 := lt_mul_add hb hc
  have h2 : a * (n1 * n2) + (b * n2 + c) < n0 * (n1 * n2) := lt_mul_add ha h1
  rw [Nat.mul_assoc, Nat.mul_assoc]
  omega

/-- decoding an encoded triple gives it back -/
theorem three_one {a b c n1 n2 : Nat} (hb : b < n1) (hc : c < n2) :
    three n1 n2 (a * n1 * n2 + b * n2 + c) = (a, b, c) := by
  have hpos : 0 < n1 * n2 := Nat.mul_pos (by omega) (by omega)
  have hlt : b * n2 + c < n1 * n2 := lt_mul_add hb hc
  have e : a * n1 * n2 + b * n2 + c = (n1 * n2) * a + (b * n2 + c) := by
    rw [Nat.mul_assoc, Nat.mul_comm a]; omega
  have ha : (a * n1 * n2 + b * n2 + c) / (n1 * n2) = a := by
    rw [e, Nat.mul_add_div hpos, Nat.div_eq_of_lt hlt]; omega
  have hrem : a * n1 * n2 + b * n2 + c - a * (n1 * n2) = b * n2 + c := by
    rw [e, Nat.mul_comm a]; omega
  have hb' : (b * n2 + c) / n2 = b := by
    have : b * n2 + c = n2 * b + c := by rw [Nat.mul_comm]
    rw [this, Nat.mul_add_div (by omega), Nat.div_eq_of_lt hc]; omega
  simp only [three, ha, hrem, hb']
  congr 2
  omega

/-- encoding a decoded index gives it back (for all radices) -/
theorem one_three (n1 n2 i : Nat) : one n1 n2 (three n1 n2 i) = i := by
  simp only [one, three]
  have h1 : i / (n1 * n2) * (n1 * n2) ≤ i := Nat.div_mul_le_self i (n1 * n2)
  have h2 : (i - i / (n1 * n2) * (n1 * n2)) / n2 * n2 ≤ i - i / (n1 * n2) * (n1 * n2) :=
    Nat.div_mul_le_self _ n2
  rw [Nat.mul_assoc]
  omega

theorem three_lt {n0 n1 n2 i : Nat} (hi : i < n0 * n1 * n2) (h1 : 0 < n1) (h2 : 0 < n2) :
    (three n1 n2 i).1 < n0 ∧ (three n1 n2 i).2.1 < n1 ∧ (three n1 n2 i).2.2 < n2 := by
  simp only [three]
  have hpos : 0 < n1 * n2 := Nat.mul_pos h1 h2
  have ha : i / (n1 * n2) < n0 := by
    rw [Nat.div_lt_iff_lt_mul hpos, ← Nat.mul_assoc]; exact hi
  have hr : i - i / (n1 * n2) * (n1 * n2) = i % (n1 * n2) := by
    have := Nat.div_add_mod i (n1 * n2)
    rw [Nat.mul_comm] at this
    omega
  have hrlt : i % (n1 * n2) < n1 * n2 := Nat.mod_lt _ hpos
  refine ⟨ha, ?_, ?_⟩
  · rw [hr, Nat.div_lt_iff_lt_mul h2]; exact hrlt
  · rw [hr]
    have := Nat.div_add_mod (i % (n1 * n2)) n2
    have hm : i % (n1 * n2) % n2 < n2 := Nat.mod_lt _ h2
    rw [Nat.mul_comm] at this
    omega

/-- integer coordinate → (subgrid, cell in subgrid) and back -/
theorem div_sub {x s : Nat} (hs : 0 < s) : x / s * s + (x - x / s * s) = x ∧ x - x / s * s < s := by
  have h := Nat.div_add_mod x s
  have hm := Nat.mod_lt x hs
  rw [Nat.mul_comm] at h
  omega

/-! ## the writer -/

theorem append_apply {α : Type} (ds : DS α) (offset len : Nat) (f : Nat → α) (k : Nat) :
    append ds offset len f k = if offset ≤ k ∧ k < offset + len then some (f (k - offset)) else ds k :=
  rfl

/-- after the first `j` blocks of a subgrid -/
theorem blocks_spec {α : Type} (B N : Nat) (vals : Nat → α) (bo : Nat) (ds : DS α) (j k : Nat) :
    (List.range j).foldl (fun ds iblock =>
        append ds (bo + iblock * B) (min (iblock * B + B) N - iblock * B)
          (fun i => vals (iblock * B + i))) ds k =
      if bo ≤ k ∧ k < bo + min (j * B) N then some (vals (k - bo)) else ds k := by
  induction j with
  | zero =>
    simp only [List.range_zero, List.foldl_nil]
    rw [if_neg (by omega)]
  | succ j ih =>
    rw [List.range_succ, List.foldl_append, List.foldl_cons, List.foldl_nil, append_apply, ih,
      Nat.succ_mul]
    by_cases h1 : bo + j * B ≤ k ∧ k < bo + j * B + (min (j * B + B) N - j * B)
    · rw [if_pos h1]
      have h2 : bo ≤ k ∧ k < bo + min (j * B + B) N := by omega
      rw [if_pos h2]
      congr 2
      omega
    · rw [if_neg h1]
      by_cases h3 : bo ≤ k ∧ k < bo + min (j * B) N
      · rw [if_pos h3]
        have h2 : bo ≤ k ∧ k < bo + min (j * B + B) N := by omega
        rw [if_pos h2]
      · rw [if_neg h3]
        have h2 : ¬ (bo ≤ k ∧ k < bo + min (j * B + B) N) := by omega
        rw [if_neg h2]

/-- **one subgrid**: whatever the block size `B > 0`, the cells of the subgrid end up at
`block_offset … block_offset + N - 1` in their own order, nothing else is touched -/
theorem writeSubgrid_spec {α : Type} (B N : Nat) (hB : 0 < B) (vals : Nat → α) (bo : Nat)
    (ds : DS α) (k : Nat) :
    writeSubgrid B N vals bo ds k = if bo ≤ k ∧ k < bo + N then some (vals (k - bo)) else ds k := by
  unfold writeSubgrid
  simp only []
  rw [blocks_spec]
  have hdm := Nat.div_add_mod N B
  have hml := Nat.mod_lt N hB
  have hcover : min ((N / B + if N % B > 0 then 1 else 0) * B) N = N := by
    have e : N / B * B = B * (N / B) := Nat.mul_comm _ _
    by_cases hr : N % B > 0
    · rw [if_pos hr, Nat.add_mul, Nat.one_mul]; omega
    · rw [if_neg hr, Nat.add_zero]; omega
  rw [hcover]

/-- state of the loop over the subgrids after `g` of them -/
theorem writeAll_spec {α : Type} (B N : Nat) (hB : 0 < B) (vals : Nat → Nat → α) (G : Nat) :
    (writeAll B N G vals).2 = G * N ∧
    (∀ g ci, g < G → ci < N → (writeAll B N G vals).1 (g * N + ci) = some (vals g ci)) ∧
    (∀ k, G * N ≤ k → (writeAll B N G vals).1 k = none) := by
  induction G with
  | zero => simp [writeAll]
  | succ G ih =>
    obtain ⟨h1, h2, h3⟩ := ih
    have hstep : writeAll B N (G + 1) vals =
        (writeSubgrid B N (vals G) (writeAll B N G vals).2 (writeAll B N G vals).1,
         (writeAll B N G vals).2 + N) := by
      simp only [writeAll, List.range_succ, List.foldl_append, List.foldl_cons, List.foldl_nil]
    rw [hstep, h1]
    refine ⟨by rw [Nat.succ_mul], ?_, ?_⟩
    · intro g ci hg hci
      simp only [writeSubgrid_spec B N hB]
      by_cases hgG : g = G
      · subst hgG
        have : g * N ≤ g * N + ci ∧ g * N + ci < g * N + N := by omega
        rw [if_pos this]
        congr 2
        omega
      · have hlt : g < G := by omega
        have hle : (g + 1) * N ≤ G * N := Nat.mul_le_mul_right N hlt
        rw [Nat.succ_mul] at hle
        have : ¬ (G * N ≤ g * N + ci ∧ g * N + ci < G * N + N) := by omega
        rw [if_neg this]
        exact h2 g ci hlt hci
    · intro k hk
      rw [Nat.succ_mul] at hk
      simp only [writeSubgrid_spec B N hB]
      have : ¬ (G * N ≤ k ∧ k < G * N + N) := by omega
      rw [if_neg this]
      exact h3 k (by omega)

/-! ## arrays filled by computed index -/

theorem get_setIfInBounds {α : Type} (arr : Array (Option α)) (j i : Nat) (v : Option α) :
    get (arr.setIfInBounds j v) i = if i = j ∧ i < arr.size then v else get arr i := by
  unfold get
  rw [Array.getElem?_setIfInBounds]
  by_cases hij : j = i
  · subst hij
    by_cases hlt : j < arr.size
    · simp [hlt]
    · simp [hlt]
  · have : ¬ (i = j ∧ i < arr.size) := fun h => hij h.1.symm
    simp [hij, this]

theorem get_replicate {α : Type} (n i : Nat) : get (Array.replicate n (none : Option α)) i = none := by
  unfold get
  by_cases h : i < n <;> simp [h]

theorem fill_size {α β : Type} (arr : Array (Option α)) (keys : List β) (key : β → Nat)
    (val : β → Option α) : (fill arr keys key val).size = arr.size := by
  induction keys generalizing arr with
  | nil => rfl
  | cons k ks ih => simp only [fill, List.foldl_cons] at ih ⊢; rw [ih]; simp

/-- when the value stored is a function `F` of the index it is stored at, the order of the stores
does not matter: every index that was hit holds `F index` -/
theorem get_fill {α β : Type} (arr : Array (Option α)) (keys : List β) (key : β → Nat)
    (val : β → Option α) (F : Nat → Option α) (h : ∀ k ∈ keys, val k = F (key k)) (i : Nat) :
    get (fill arr keys key val) i =
      if i < arr.size ∧ i ∈ keys.map key then F i else get arr i := by
  induction keys generalizing arr with
  | nil => simp [fill]
  | cons k ks ih =>
    have hk : val k = F (key k) := h k (by simp)
    have hks : ∀ k' ∈ ks, val k' = F (key k') := fun k' hk' => h k' (by simp [hk'])
    simp only [fill, List.foldl_cons] at ih ⊢
    rw [ih _ hks, get_setIfInBounds, Array.size_setIfInBounds]
    by_cases hi : i < arr.size
    · by_cases hmem : i ∈ ks.map key
      · have h2 : i ∈ (k :: ks).map key := by
          simp only [List.map_cons, List.mem_cons]; exact Or.inr hmem
        rw [if_pos ⟨hi, hmem⟩, if_pos ⟨hi, h2⟩]
      · rw [if_neg (fun h => hmem h.2)]
        by_cases hik : i = key k
        · have h2 : i ∈ (k :: ks).map key := by
            simp only [List.map_cons, List.mem_cons]; exact Or.inl hik
          rw [if_pos ⟨hik, hi⟩, if_pos ⟨hi, h2⟩, hk, hik]
        · have h2 : i ∉ (k :: ks).map key := by
            simp only [List.map_cons, List.mem_cons, not_or]; exact ⟨hik, hmem⟩
          rw [if_neg (fun h => hik h.1), if_neg (fun h => h2 h.2)]
    · rw [if_neg (fun h => hi h.1), if_neg (fun h => hi h.2), if_neg (fun h => hi h.1)]

theorem mem_triples (a b c : Nat) (t : Nat × Nat × Nat) :
    t ∈ triples a b c ↔ t.1 < a ∧ t.2.1 < b ∧ t.2.2 < c := by
  obtain ⟨x, y, z⟩ := t
  simp only [triples, List.mem_flatMap, List.mem_map, List.mem_range, Prod.mk.injEq]
  constructor
  · rintro ⟨ix, hix, iy, hiy, iz, hiz, rfl, rfl, rfl⟩
    exact ⟨hix, hiy, hiz⟩
  · rintro ⟨hx, hy, hz⟩
    exact ⟨x, hx, y, hy, z, hz, rfl, rfl, rfl⟩

/-! ## cells, subgrids -/

/-- a layout the code accepts: at least one cell per subgrid in every dimension -/
def Layout.ok (L : Layout) : Prop := 0 < L.sx ∧ 0 < L.sy ∧ 0 < L.sz

instance (L : Layout) : Decidable L.ok := by unfold Layout.ok; infer_instance

/-- cell inside the grid -/
def Layout.inGrid (L : Layout) (c : Nat × Nat × Nat) : Prop :=
  c.1 < L.nx ∧ c.2.1 < L.ny ∧ c.2.2 < L.nz

instance (L : Layout) (c : Nat × Nat × Nat) : Decidable (L.inGrid c) := by
  unfold Layout.inGrid; infer_instance

/-- subgrid one-index and in-subgrid one-index of a cell of the grid, as `operator()` computes them -/
def sgOf (L : Layout) (c : Nat × Nat × Nat) : Nat :=
  c.1 / L.sx * L.gy * L.gz + c.2.1 / L.sy * L.gz + c.2.2 / L.sz

def ciOf (L : Layout) (c : Nat × Nat × Nat) : Nat :=
  (c.1 - c.1 / L.sx * L.sx) * L.sy * L.sz + (c.2.1 - c.2.1 / L.sy * L.sy) * L.sz +
    (c.2.2 - c.2.2 / L.sz * L.sz)

theorem cell_decomp (L : Layout) (hL : L.ok) (c : Nat × Nat × Nat) (hc : L.inGrid c) :
    sgOf L c < L.G ∧ ciOf L c < L.N ∧ globalCell L (sgOf L c) (ciOf L c) = c := by
  obtain ⟨hx, hy, hz⟩ := hL
  obtain ⟨cx, cy, cz⟩ := c
  obtain ⟨h1, h2, h3⟩ := hc
  simp only [Layout.nx, Layout.ny, Layout.nz] at h1 h2 h3
  simp only [sgOf, ciOf]
  have dx := div_sub (x := cx) hx
  have dy := div_sub (x := cy) hy
  have dz := div_sub (x := cz) hz
  have gx : cx / L.sx < L.gx := by rw [Nat.div_lt_iff_lt_mul hx]; exact h1
  have gy : cy / L.sy < L.gy := by rw [Nat.div_lt_iff_lt_mul hy]; exact h2
  have gz : cz / L.sz < L.gz := by rw [Nat.div_lt_iff_lt_mul hz]; exact h3
  refine ⟨one_lt gx gy gz, one_lt dx.2 dy.2 dz.2, ?_⟩
  simp only [globalCell, three_one gy gz, three_one dy.2 dz.2]
  rw [dx.1, dy.1, dz.1]

theorem globalCell_inGrid (L : Layout) (hL : L.ok) (g ci : Nat) (hg : g < L.G) (hci : ci < L.N) :
    L.inGrid (globalCell L g ci) := by
  have hgy : 0 < L.gy := by
    rcases Nat.eq_zero_or_pos L.gy with h | h
    · simp [Layout.G, h] at hg
    · exact h
  have hgz : 0 < L.gz := by
    rcases Nat.eq_zero_or_pos L.gz with h | h
    · simp [Layout.G, h] at hg
    · exact h
  obtain ⟨a1, a2, a3⟩ := three_lt (n0 := L.gx) hg hgy hgz
  obtain ⟨b1, b2, b3⟩ := three_lt (n0 := L.sx) hci hL.2.1 hL.2.2
  exact ⟨lt_mul_add a1 b1, lt_mul_add a2 b2, lt_mul_add a3 b3⟩

end CMacVerif.Snapshot
