import CMacVerif.Model.Yaml
/-!
Helper lemmas for C20 (YAML dictionary round trip).

1. closed forms of the printer's vector loops (`popShrink` is a prefix of length ≥ `j`, …);
2. the parser on one printed entry (headers + key line);
3. `lcp` algebra;
4. `std::string` order: keys sharing a group prefix are contiguous;
5. the `std::map` as sorted list.
-/
namespace CMacVerif.Yaml

/-! ## 1. `lcp` -/

theorem lcp_nil_left (b : List Str) : lcp [] b = 0 := by
  cases b <;> rfl

theorem lcp_nil_right (a : List Str) : lcp a [] = 0 := by
  cases a <;> rfl

theorem lcp_le_left (a b : List Str) : lcp a b ≤ a.length := by
  induction a generalizing b with
  | nil => simp [lcp_nil_left]
  | cons x xs ih =>
    cases b with
    | nil => simp [lcp]
    | cons y ys =>
      simp only [lcp]
      split
      · have := ih ys; simp only [List.length_cons]; omega
      · simp

theorem lcp_le_right (a b : List Str) : lcp a b ≤ b.length := by
  induction a generalizing b with
  | nil => simp [lcp_nil_left]
  | cons x xs ih =>
    cases b with
    | nil => simp [lcp]
    | cons y ys =>
      simp only [lcp]
      split
      · have := ih ys; simp only [List.length_cons]; omega
      · simp

/-- characterisation: `t ≤ lcp a b` iff the first `t` entries exist and agree -/
theorem le_lcp_iff (t : Nat) (a b : List Str) :
    t ≤ lcp a b ↔ t ≤ a.length ∧ t ≤ b.length ∧ a.take t = b.take t := by
  induction a generalizing b t with
  | nil =>
    simp only [lcp_nil_left, Nat.le_zero_eq, List.length_nil, List.take_nil]
    constructor
    · rintro rfl; simp
    · rintro ⟨h, _, _⟩; exact h
  | cons x xs ih =>
    cases b with
    | nil =>
      simp only [lcp, Nat.le_zero_eq, List.length_nil, List.take_nil]
      constructor
      · rintro rfl; simp
      · rintro ⟨_, h, _⟩; exact h
    | cons y ys =>
      cases t with
      | zero => simp
      | succ t =>
        simp only [lcp, List.length_cons, List.take_succ_cons, List.cons.injEq]
        by_cases hxy : x = y
        · subst hxy
          simp only [if_true, Nat.add_le_add_iff_right, true_and]
          exact ih t ys
        · simp only [hxy, if_false, false_and, and_false, iff_false]
          omega

theorem lcp_take_eq (a b : List Str) : a.take (lcp a b) = b.take (lcp a b) :=
  ((le_lcp_iff _ a b).1 (Nat.le_refl _)).2.2

theorem lcp_self (a : List Str) : lcp a a = a.length := by
  apply Nat.le_antisymm (lcp_le_left a a)
  exact (le_lcp_iff _ a a).2 ⟨Nat.le_refl _, Nat.le_refl _, rfl⟩

/-- truncating the stack to at least the length of the key does not change the common prefix -/
theorem lcp_take_left (g kg : List Str) (n : Nat) (h : kg.length ≤ n) :
    lcp (g.take n) kg = lcp g kg := by
  apply Nat.le_antisymm
  · apply (le_lcp_iff _ _ _).2
    have h1 := (le_lcp_iff _ _ _).1 (Nat.le_refl (lcp (g.take n) kg))
    obtain ⟨ha, hb, hc⟩ := h1
    refine ⟨?_, hb, ?_⟩
    · simp only [List.length_take] at ha; omega
    · rw [← hc, List.take_take]
      congr 1
      omega
  · apply (le_lcp_iff _ _ _).2
    have h1 := (le_lcp_iff _ _ _).1 (Nat.le_refl (lcp g kg))
    obtain ⟨ha, hb, hc⟩ := h1
    refine ⟨?_, hb, ?_⟩
    · simp only [List.length_take]; omega
    · rw [← hc, List.take_take]
      congr 1
      omega

/-! ## 2. closed forms of the printer loops -/

theorem dropLast_eq_take' (g : List Str) : g.dropLast = g.take (g.length - 1) :=
  List.dropLast_eq_take

theorem popShrink_aux (j : Nat) (g : List Str) :
    ∃ m, (j ≤ m ∨ m = g.length) ∧ m ≤ g.length ∧ popShrink j g = g.take m := by
  induction j, g using popShrink.induct with
  | case1 j g hlt ih =>
    rw [popShrink, if_pos hlt]
    have hl : (g.dropLast).length = g.length - 1 := List.length_dropLast
    obtain ⟨m, h1, h2, h3⟩ := ih
    refine ⟨m, Or.inl (by omega), by omega, ?_⟩
    rw [h3, dropLast_eq_take', List.take_take]
    congr 1
    omega
  | case2 j g hge =>
    rw [popShrink, if_neg hge]
    exact ⟨g.length, Or.inr rfl, Nat.le_refl _, (List.take_length).symm⟩

/-- the shrinking-bound loop leaves a prefix of the stack of length at least `j`
(not exactly `j`: stale entries may remain) -/
theorem popShrink_spec (j : Nat) (g : List Str) (h : j ≤ g.length) :
    ∃ m, j ≤ m ∧ m ≤ g.length ∧ popShrink j g = g.take m := by
  obtain ⟨m, h1, h2, h3⟩ := popShrink_aux j g
  exact ⟨m, by omega, h2, h3⟩

theorem truncTo_eq (n : Nat) (g : List Str) : truncTo n g = g.take n := by
  induction g using truncTo.induct n with
  | case1 g hlt ih =>
    rw [truncTo, if_pos hlt, ih, dropLast_eq_take', List.take_take]
    congr 1
    omega
  | case2 g hge =>
    rw [truncTo, if_neg hge]
    exact (List.take_of_length_le (by omega)).symm

theorem popFixed_eq (j n : Nat) (g : List Str) :
    popFixed j n g = g.take (g.length - (n - j)) := by
  induction j, g using popFixed.induct n with
  | case1 j g hlt ih =>
    rw [popFixed, if_pos hlt, ih, dropLast_eq_take', List.take_take, List.length_take]
    congr 1
    omega
  | case2 j g hge =>
    rw [popFixed, if_neg hge]
    have : n - j = 0 := by omega
    simp [this]

/-- the header lines printed for the groups `ks`, first one at indentation `ind` -/
def headers (ind : Nat) : List Str → List Line
  | [] => []
  | k :: ks => ⟨ind, k, []⟩ :: headers (ind + 2) ks

theorem pushHeaders_eq (ind : Nat) (g ks : List Str) :
    pushHeaders ind g ks = (g ++ ks, headers ind ks, ind + 2 * ks.length) := by
  induction ks generalizing ind g with
  | nil => simp [pushHeaders, headers]
  | cons k ks ih =>
    simp only [pushHeaders, ih, headers, List.append_assoc, List.singleton_append, List.length_cons,
      Prod.mk.injEq, true_and]
    omega

/-- **one printer iteration**: with `i` the common prefix of stack and key groups, the new stack is
a prefix of the old one of length `m ≥ i` followed by the new groups; the lines are the headers of
the groups beyond `i` and the key line at depth `|kg|`. -/
theorem printEntry_spec (g : List Str) (key val : Str) :
    ∃ m, lcp g (splitKey key).1 ≤ m ∧ m ≤ g.length ∧
      printEntry g key val =
        (g.take m ++ (splitKey key).1.drop (lcp g (splitKey key).1),
         headers (2 * lcp g (splitKey key).1) ((splitKey key).1.drop (lcp g (splitKey key).1)) ++
           [⟨2 * (splitKey key).1.length, (splitKey key).2, val⟩]) := by
  unfold printEntry
  rcases hsk : splitKey key with ⟨kg, name⟩
  simp only
  have hi1 : lcp g kg ≤ g.length := lcp_le_left _ _
  have hi2 : lcp g kg ≤ kg.length := lcp_le_right _ _
  by_cases hlen : kg.length > g.length
  · rw [if_pos hlen]
    obtain ⟨m, h1, h2, h3⟩ := popShrink_spec (lcp g kg) g hi1
    refine ⟨m, h1, h2, ?_⟩
    simp only [pushHeaders_eq, h3, List.length_drop, Prod.mk.injEq, true_and]
    congr 3
    omega
  · rw [if_neg hlen]
    have hl : kg.length ≤ g.length := by omega
    refine ⟨lcp g kg, Nat.le_refl _, hi1, ?_⟩
    simp only [pushHeaders_eq, truncTo_eq, popFixed_eq, lcp_take_left g kg kg.length (Nat.le_refl _),
      List.length_take, List.take_take, List.length_drop, Prod.mk.injEq]
    refine ⟨?_, ?_⟩
    · congr 2
      omega
    · congr 3
      omega

/-! ## 3. the parser on printed lines -/

/-- `levels` after a key line at depth `n` of a file printed with two blanks per level -/
def evens : Nat → List Nat
  | 0 => []
  | n + 1 => evens n ++ [2 * (n + 1)]

@[simp] theorem evens_length (n : Nat) : (evens n).length = n := by
  induction n with
  | zero => rfl
  | succ n ih => simp [evens, ih]

theorem evens_getLast (n : Nat) : (evens (n + 1)).getLast? = some (2 * (n + 1)) := by
  simp [evens]

theorem evens_dropLast (n : Nat) : (evens (n + 1)).dropLast = evens n := by
  simp [evens]

theorem parseLines_append (s : PState) (a b : List Line) :
    parseLines s (a ++ b) = (parseLines s a).bind (fun s' => parseLines s' b) := by
  induction a generalizing s with
  | nil => simp [parseLines]
  | cons l ls ih =>
    simp only [List.cons_append, parseLines]
    cases parseLine s l with
    | none => simp
    | some s' => simp [ih]

theorem clearBoth_eq (lv : List Nat) (gn : List Str) (h : lv.length = gn.length) :
    clearBoth lv gn = ([], []) := by
  induction lv, gn using clearBoth.induct with
  | case1 lv gn hpos ih =>
    rw [clearBoth, dif_pos hpos]
    apply ih
    simp only [List.length_dropLast, h]
  | case2 lv gn hnp =>
    rw [clearBoth, dif_neg hnp]
    have h0 : lv.length = 0 := by omega
    have h1 : gn.length = 0 := by omega
    rw [List.length_eq_zero_iff] at h0 h1
    simp [h0, h1]

/-- dedenting from depth `n` to depth `i ≥ 1` -/
theorem popWhile_evens (i n : Nat) (gn : List Str) (hi : 1 ≤ i) (hin : i ≤ n) (hl : gn.length = n) :
    popWhile (2 * i) (evens n) gn = some (evens i, gn.take i) := by
  induction n generalizing gn with
  | zero => omega
  | succ n ih =>
    rw [popWhile]
    split
    · rename_i h; rw [evens_getLast] at h; simp at h
    · rename_i b hb
      rw [evens_getLast] at hb
      have hb' : b = 2 * (n + 1) := by simpa using hb.symm
      subst hb'
      by_cases hlt : 2 * i < 2 * (n + 1)
      · rw [if_pos hlt]
        have hne : gn.isEmpty = false := by
          cases gn with
          | nil => simp at hl
          | cons a l => rfl
        simp only [hne, Bool.false_eq_true, if_false, evens_dropLast]
        rw [ih gn.dropLast (by omega) (by simp [List.length_dropLast, hl])]
        simp only [dropLast_eq_take', List.take_take, hl, Option.some.injEq, Prod.mk.injEq, true_and]
        congr 1
        omega
      · rw [if_neg hlt]
        have : i = n + 1 := by omega
        subst this
        simp [← hl]

/-- parser state after a key line whose groups are `kg` (file printed by the printer) -/
def closed (kg : List Str) (D : Dict) : PState := ⟨kg, evens kg.length, D⟩

/-- first line of a printed entry when it is the key line: dedent to depth `i` -/
theorem parseLine_closed_entry (kgp : List Str) (D : Dict) (i : Nat) (name v : Str)
    (hi : i ≤ kgp.length) (hv : v ≠ []) :
    parseLine (closed kgp D) ⟨2 * i, name, v⟩ =
      some (closed (kgp.take i) (D.insert (joinKey (kgp.take i) name) v)) := by
  have hve : v.isEmpty = false := by cases v <;> simp_all
  unfold parseLine closed
  by_cases h0 : i = 0
  · subst h0
    simp [clearBoth_eq, hve, evens, joinKey]
  · have hpos : 2 * i > 0 := by omega
    simp only [hpos, if_true]
    obtain ⟨n, hn⟩ : ∃ n, kgp.length = n + 1 := ⟨kgp.length - 1, by omega⟩
    rw [hn, evens_getLast]
    have hngt : ¬ (2 * i > 2 * (n + 1)) := by omega
    simp only [hngt, if_false]
    rw [popWhile_evens i (n + 1) kgp (by omega) (by omega) hn]
    simp [hve, List.length_take, Nat.min_eq_left hi]

/-- first line of a printed entry when it is a group header -/
theorem parseLine_closed_header (kgp : List Str) (D : Dict) (i : Nat) (k : Str)
    (hi : i ≤ kgp.length) :
    parseLine (closed kgp D) ⟨2 * i, k, []⟩ = some ⟨kgp.take i ++ [k], evens i, D⟩ := by
  unfold parseLine closed
  by_cases h0 : i = 0
  · subst h0
    simp [clearBoth_eq, evens]
  · have hpos : 2 * i > 0 := by omega
    simp only [hpos, if_true]
    obtain ⟨n, hn⟩ : ∃ n, kgp.length = n + 1 := ⟨kgp.length - 1, by omega⟩
    rw [hn, evens_getLast]
    have hngt : ¬ (2 * i > 2 * (n + 1)) := by omega
    simp only [hngt, if_false]
    rw [popWhile_evens i (n + 1) kgp (by omega) (by omega) hn]
    simp [List.length_take, Nat.min_eq_left hi]

/-- a line one level deeper than the header just read -/
theorem parseLine_open (n : Nat) (pre : List Str) (hn : pre.length = n) (x : Str) (D : Dict)
    (key v : Str) :
    parseLine ⟨pre ++ [x], evens n, D⟩ ⟨2 * (n + 1), key, v⟩ =
      if v.isEmpty then some ⟨pre ++ [x] ++ [key], evens (n + 1), D⟩
      else some (closed (pre ++ [x]) (D.insert (joinKey (pre ++ [x]) key) v)) := by
  unfold parseLine closed
  have hpos : 2 * (n + 1) > 0 := by omega
  simp only [hpos, if_true]
  cases n with
  | zero =>
    have : pre = [] := List.length_eq_zero_iff.1 hn
    subst this
    simp [evens]
  | succ n =>
    rw [evens_getLast]
    have hgt : 2 * (n + 1 + 1) > 2 * (n + 1) := by omega
    simp [hgt, evens, hn]

/-- the remaining headers and the key line of one printed entry -/
theorem parseLines_open (n : Nat) (pre : List Str) (hn : pre.length = n) (x : Str) (ks : List Str)
    (D : Dict) (name v : Str) (hv : v ≠ []) :
    parseLines ⟨pre ++ [x], evens n, D⟩
        (headers (2 * (n + 1)) ks ++ [⟨2 * (n + 1 + ks.length), name, v⟩]) =
      some (closed (pre ++ [x] ++ ks) (D.insert (joinKey (pre ++ [x] ++ ks) name) v)) := by
  have hve : v.isEmpty = false := by cases v <;> simp_all
  induction ks generalizing n pre x with
  | nil =>
    simp [headers, parseLines, parseLine_open n pre hn, hve]
  | cons k ks ih =>
    simp only [headers, List.cons_append, parseLines, parseLine_open n pre hn, List.isEmpty_nil,
      if_true]
    have := ih (n + 1) (pre ++ [x]) (by simp [hn]) k
    have e1 : 2 * (n + 1) + 2 = 2 * (n + 1 + 1) := by omega
    have e2 : n + 1 + (ks.length + 1) = n + 1 + 1 + ks.length := by omega
    rw [List.length_cons, e1, e2, this]
    simp

/-- **the parser on one printed entry**: from the state after the previous key line (groups
`kgp`), the headers of `kg` beyond a common prefix `i` followed by the key line lead to the
state after a key line with groups `kg`, with the entry inserted under its full name. -/
theorem parseLines_entry (kgp kg : List Str) (D : Dict) (i : Nat) (name v : Str)
    (hi1 : i ≤ kgp.length) (hi2 : i ≤ kg.length) (hpre : kgp.take i = kg.take i) (hv : v ≠ []) :
    parseLines (closed kgp D) (headers (2 * i) (kg.drop i) ++ [⟨2 * kg.length, name, v⟩]) =
      some (closed kg (D.insert (joinKey kg name) v)) := by
  rcases hd : kg.drop i with _ | ⟨k, ks⟩
  · have hlen : kg.length ≤ i := by
      have := congrArg List.length hd
      simp only [List.length_drop, List.length_nil] at this
      omega
    have hik : i = kg.length := by omega
    have hkg : kgp.take i = kg := by rw [hpre, hik, List.take_length]
    simp only [headers, List.nil_append, parseLines]
    rw [← hik, parseLine_closed_entry kgp D i name v hi1 hv, hkg]
  · have hkg : kg = kg.take i ++ k :: ks := by rw [← hd, List.take_append_drop]
    have hlen : kg.length = i + 1 + ks.length := by
      have := congrArg List.length hkg
      simp only [List.length_append, List.length_take, List.length_cons, Nat.min_eq_left hi2] at this
      omega
    simp only [headers, List.cons_append, parseLines]
    rw [parseLine_closed_header kgp D i k hi1, hpre]
    have hl : (kg.take i).length = i := by simp [List.length_take, Nat.min_eq_left hi2]
    have := parseLines_open i (kg.take i) hl k ks D name v hv
    have e1 : 2 * i + 2 = 2 * (i + 1) := by omega
    dsimp only
    rw [e1, hlen, this]
    have hkg' : kg.take i ++ [k] ++ ks = kg := by
      rw [List.append_assoc, List.singleton_append]; exact hkg.symm
    rw [hkg']

/-! ## 4. keys: `splitKey` / `joinKey`, the `std::string` order, contiguity of group prefixes -/

/-- groups of a flat key -/
abbrev groups (k : Str) : List Str := (splitKey k).1

theorem splitKey_cons (c : Char) (s : Str) :
    splitKey (c :: s) =
      if c = ':' then ([] :: (splitKey s).1, (splitKey s).2)
      else match (splitKey s).1 with
        | [] => ([], c :: (splitKey s).2)
        | g :: gs' => ((c :: g) :: gs', (splitKey s).2) := by
  rw [splitKey]
  rcases splitKey s with ⟨gs, n⟩
  rfl

/-- the parser's concatenation undoes the printer's splitting, for every key -/
theorem joinKey_splitKey (k : Str) : joinKey (splitKey k).1 (splitKey k).2 = k := by
  induction k with
  | nil => rfl
  | cons c s ih =>
    rw [splitKey_cons]
    by_cases hc : c = ':'
    · simp only [hc, if_true, joinKey, List.foldr_cons, List.nil_append, List.cons.injEq, true_and]
      exact ih
    · simp only [hc, if_false]
      rcases h : (splitKey s).1 with _ | ⟨g, gs'⟩
      · rw [h] at ih
        simp only [joinKey, List.foldr_nil] at ih ⊢
        rw [ih]
      · rw [h] at ih
        simp only [joinKey, List.foldr_cons, List.cons_append, List.cons.injEq, true_and] at ih ⊢
        exact ih

/-- `g1:g2:…:gt:` -/
def prefixStr (gs : List Str) : Str := gs.foldr (fun g acc => g ++ ':' :: acc) []

theorem joinKey_append (xs ys : List Str) (n : Str) :
    joinKey (xs ++ ys) n = prefixStr xs ++ joinKey ys n := by
  induction xs with
  | nil => rfl
  | cons x xs ih =>
    simp only [joinKey, prefixStr, List.cons_append, List.foldr_cons, List.append_assoc] at ih ⊢
    rw [ih]

/-- a key whose groups start with `P` starts, as a string, with `P₁:P₂:…:` -/
theorem key_eq_prefix_append (k : Str) (t : Nat) :
    ∃ r, k = prefixStr ((groups k).take t) ++ r := by
  refine ⟨joinKey ((groups k).drop t) (splitKey k).2, ?_⟩
  rw [← joinKey_append, List.take_append_drop, joinKey_splitKey]

theorem splitKey_no_colon (k : Str) : ∀ g ∈ (splitKey k).1, ':' ∉ g := by
  induction k with
  | nil => simp [splitKey]
  | cons c s ih =>
    rw [splitKey_cons]
    by_cases hc : c = ':'
    · simp only [hc, if_true, List.mem_cons]
      rintro g (rfl | hg)
      · simp
      · exact ih g hg
    · simp only [hc, if_false]
      rcases h : (splitKey s).1 with _ | ⟨g0, gs'⟩
      · simp
      · rw [h] at ih
        simp only [List.mem_cons]
        rintro g (rfl | hg)
        · intro hmem
          rcases List.mem_cons.1 hmem with h1 | h1
          · exact hc h1.symm
          · exact ih g0 (by simp) h1
        · exact ih g (by simp [hg])

theorem splitKey_group_append (g : Str) (hg : ':' ∉ g) (r : Str) :
    splitKey (g ++ ':' :: r) = (g :: (splitKey r).1, (splitKey r).2) := by
  induction g with
  | nil => simp [splitKey_cons]
  | cons c g ih =>
    have hc : c ≠ ':' := fun h => hg (by simp [h])
    have hg' : ':' ∉ g := fun h => hg (by simp [h])
    rw [List.cons_append, splitKey_cons, ih hg']
    simp [hc]

/-- conversely, a string starting with `P₁:…:Pt:` (colon-free `Pᵢ`) has groups starting with `P` -/
theorem groups_prefix_append (P : List Str) (hP : ∀ g ∈ P, ':' ∉ g) (r : Str) :
    groups (prefixStr P ++ r) = P ++ groups r := by
  induction P with
  | nil => rfl
  | cons g P ih =>
    have h1 : ':' ∉ g := hP g (by simp)
    have h2 : ∀ g' ∈ P, ':' ∉ g' := fun g' hg' => hP g' (by simp [hg'])
    show (splitKey (prefixStr (g :: P) ++ r)).1 = _
    simp only [prefixStr, List.foldr_cons, List.append_assoc, List.cons_append]
    rw [splitKey_group_append g h1]
    simp only [List.cons.injEq, true_and]
    exact ih h2

theorem ltStr_irrefl (a : Str) : ltStr a a = false := by
  induction a with
  | nil => rfl
  | cons c s ih => simp [ltStr, ih]

theorem ltStr_asymm (a b : Str) (h : ltStr a b = true) : ltStr b a = false := by
  induction a generalizing b with
  | nil => cases b <;> simp_all [ltStr]
  | cons c s ih =>
    cases b with
    | nil => simp [ltStr] at h
    | cons d t =>
      simp only [ltStr] at h ⊢
      by_cases hcd : c = d
      · subst hcd
        simp only [if_true] at h ⊢
        exact ih t h
      · have hdc : ¬ d = c := fun e => hcd e.symm
        simp only [hcd, hdc, if_false, decide_eq_true_eq, decide_eq_false_iff_not] at h ⊢
        omega

/-- **strings between two strings with a common prefix share that prefix** -/
theorem ltStr_between_prefix (P x y b : Str) (h1 : ltStr (P ++ x) b = true)
    (h2 : ltStr b (P ++ y) = true) : ∃ r, b = P ++ r := by
  induction P generalizing b with
  | nil => exact ⟨b, rfl⟩
  | cons c P ih =>
    cases b with
    | nil => simp [ltStr] at h1
    | cons d t =>
      simp only [List.cons_append, ltStr] at h1 h2
      by_cases hcd : c = d
      · subst hcd
        simp only [if_true] at h1 h2
        obtain ⟨r, hr⟩ := ih t h1 h2
        exact ⟨r, by rw [hr]; rfl⟩
      · have hdc : ¬ d = c := fun e => hcd e.symm
        simp only [hcd, hdc, if_false, decide_eq_true_eq] at h1 h2
        omega

/-- in `std::map` order the common group prefix with a fixed key can only shrink:
`a < b < c` ⇒ `lcp(groups a, groups c) ≤ lcp(groups a, groups b)`
(keys sharing a group prefix are contiguous) -/
theorem lcp_groups_mono (a b c : Str) (hab : ltStr a b = true) (hbc : ltStr b c = true) :
    lcp (groups a) (groups c) ≤ lcp (groups a) (groups b) := by
  obtain ⟨h1, h2, h3⟩ := (le_lcp_iff _ _ _).1 (Nat.le_refl (lcp (groups a) (groups c)))
  generalize lcp (groups a) (groups c) = t at h1 h2 h3
  obtain ⟨ra, hra⟩ := key_eq_prefix_append a t
  obtain ⟨rc, hrc⟩ := key_eq_prefix_append c t
  rw [← h3] at hrc
  have hP : ∀ g ∈ (groups a).take t, ':' ∉ g :=
    fun g hg => splitKey_no_colon a g (List.mem_of_mem_take hg)
  rw [hra] at hab
  rw [hrc] at hbc
  obtain ⟨rb, hrb⟩ := ltStr_between_prefix _ _ _ _ hab hbc
  have hgb : groups b = (groups a).take t ++ groups rb := by
    rw [hrb]; exact groups_prefix_append _ hP rb
  apply (le_lcp_iff _ _ _).2
  refine ⟨h1, ?_, ?_⟩
  · rw [hgb, List.length_append, List.length_take, Nat.min_eq_left h1]; omega
  · rw [hgb, List.take_append_of_le_length (by rw [List.length_take, Nat.min_eq_left h1]; exact Nat.le_refl _),
      List.take_take, Nat.min_self]

/-! ## 5. the `std::map` as a sorted list -/

/-- contents of a `std::map`: strictly increasing keys -/
def Sorted (d : Dict) : Prop := d.Pairwise (fun a b => ltStr a.1 b.1 = true)

theorem insert_last (k v : Str) (D : Dict) (h : ∀ kv ∈ D, ltStr kv.1 k = true) :
    D.insert k v = D ++ [(k, v)] := by
  induction D with
  | nil => rfl
  | cons kv D ih =>
    rcases kv with ⟨k', v'⟩
    have h1 : ltStr k' k = true := h (k', v') (by simp)
    have hne : k ≠ k' := by
      rintro rfl
      rw [ltStr_irrefl] at h1
      exact Bool.noConfusion h1
    have h2 : ltStr k k' = false := ltStr_asymm _ _ h1
    simp only [Dict.insert, hne, if_false, h2, Bool.false_eq_true, List.cons_append,
      List.cons.injEq, true_and]
    exact ih (fun kv hkv => h kv (by simp [hkv]))

/-- inserting the entries of a sorted list in order rebuilds it -/
theorem foldl_insert_sorted (D rest : Dict) (h : Sorted (D ++ rest)) :
    rest.foldl (fun D kv => D.insert kv.1 kv.2) D = D ++ rest := by
  induction rest generalizing D with
  | nil => simp
  | cons kv rest ih =>
    simp only [List.foldl_cons]
    have hs := h
    unfold Sorted at hs
    rw [List.pairwise_append] at hs
    obtain ⟨_, _, h3⟩ := hs
    rw [insert_last kv.1 kv.2 D (fun x hx => h3 x hx kv (by simp))]
    have : D ++ [(kv.1, kv.2)] ++ rest = D ++ kv :: rest := by simp
    rw [ih (D ++ [(kv.1, kv.2)]) (by rw [this]; exact h), this]

/-! ## 6. the invariant of the printer's group stack -/

/-- the only property of the key order the round trip needs: going down the list, the common
group prefix with a fixed earlier key never grows again (group members are contiguous) -/
def Contig : List (List Str) → Prop
  | a :: b :: rest => (∀ c ∈ b :: rest, lcp a c ≤ lcp a b) ∧ Contig (b :: rest)
  | _ => True

theorem sorted_contig (k0 : Str) (d : Dict) (h : Sorted ((k0, v0) :: d)) :
    Contig (groups k0 :: d.map (fun kv => groups kv.1)) := by
  induction d generalizing k0 v0 with
  | nil => simp [Contig]
  | cons kv d ih =>
    unfold Sorted at h
    rw [List.pairwise_cons] at h
    obtain ⟨h1, h2⟩ := h
    simp only [List.map_cons, Contig]
    refine ⟨?_, ?_⟩
    · intro c hc
      rcases List.mem_cons.1 hc with rfl | hc
      · exact Nat.le_refl _
      · obtain ⟨kv', hkv', rfl⟩ := List.mem_map.1 hc
        rw [List.pairwise_cons] at h2
        exact lcp_groups_mono k0 kv.1 kv'.1 (h1 kv (by simp)) (h2.1 kv' hkv')
    · exact ih (v0 := kv.2) kv.1 h2

/-- **Main induction.**  `g` = the printer's stack (possibly with stale entries), `kgp` = groups
of the key printed last = the parser's group stack.  Invariant: no later key shares a longer
prefix with the stack than the last key does. -/
theorem parse_printAll (rest : Dict) (g kgp : List Str) (D : Dict)
    (hv : ∀ kv ∈ rest, kv.2 ≠ [])
    (hinv : ∀ kv ∈ rest, lcp g (groups kv.1) ≤ lcp g kgp)
    (hc : Contig (kgp :: rest.map (fun kv => groups kv.1))) :
    ∃ s, parseLines (closed kgp D) (printAll g rest) = some s ∧
      s.dict = rest.foldl (fun D kv => D.insert kv.1 kv.2) D := by
  induction rest generalizing g kgp D with
  | nil => exact ⟨closed kgp D, rfl, rfl⟩
  | cons kv rest ih =>
    rcases kv with ⟨k, v⟩
    obtain ⟨m, hm1, hm2, hpe⟩ := printEntry_spec g k v
    change lcp g (groups k) ≤ m at hm1
    have hpa : printAll g ((k, v) :: rest) =
        (headers (2 * lcp g (groups k)) ((groups k).drop (lcp g (groups k))) ++
            [⟨2 * (groups k).length, (splitKey k).2, v⟩]) ++
          printAll (g.take m ++ (groups k).drop (lcp g (groups k))) rest := by
      simp only [printAll, hpe]
    rw [hpa, parseLines_append]
    -- the common prefix of stack and key is also a common prefix with the parser's groups
    have hi : lcp g (groups k) ≤ lcp g kgp := hinv (k, v) (by simp)
    obtain ⟨hi1, hi2, hi3⟩ := (le_lcp_iff _ _ _).1 hi
    have hik : lcp g (groups k) ≤ (groups k).length := lcp_le_right _ _
    have hpre : kgp.take (lcp g (groups k)) = (groups k).take (lcp g (groups k)) := by
      rw [← hi3]; exact lcp_take_eq g (groups k)
    rw [parseLines_entry kgp (groups k) D _ (splitKey k).2 v hi2 hik hpre (hv (k, v) (by simp))]
    simp only [Option.bind_some, joinKey_splitKey, List.foldl_cons]
    simp only [List.map_cons, Contig] at hc
    apply ih
    · exact fun kv hkv => hv kv (by simp [hkv])
    · -- the invariant for the new stack
      intro kv' hkv'
      have hg'i : (g.take m ++ (groups k).drop (lcp g (groups k))).take (lcp g (groups k))
          = (groups k).take (lcp g (groups k)) := by
        rw [List.take_append_of_le_length (by rw [List.length_take]; omega), List.take_take,
          Nat.min_eq_left hm1]
        exact lcp_take_eq g (groups k)
      by_cases hmi : m = lcp g (groups k)
      · -- no stale entry: the stack is exactly the groups of the key
        have : g.take m ++ (groups k).drop (lcp g (groups k)) = groups k := by
          rw [hmi, lcp_take_eq g (groups k), List.take_append_drop]
        rw [this, lcp_self]
        exact lcp_le_left _ _
      · -- stale entries: a later key cannot agree with the stack beyond `i`
        have hlow : lcp g (groups k) ≤ lcp (g.take m ++ (groups k).drop (lcp g (groups k))) (groups k) := by
          apply (le_lcp_iff _ _ _).2
          refine ⟨?_, hik, hg'i⟩
          rw [List.length_append, List.length_take]; omega
        refine Nat.le_trans ?_ hlow
        apply Nat.le_of_not_lt
        intro hgt
        -- i+1 ≤ lcp g' kg''
        obtain ⟨_, hb2, hb3⟩ := (le_lcp_iff _ _ _).1 (Nat.succ_le_of_lt hgt)
        have htk : (g.take m ++ (groups k).drop (lcp g (groups k))).take (lcp g (groups k) + 1)
            = g.take (lcp g (groups k) + 1) := by
          rw [List.take_append_of_le_length (by rw [List.length_take]; omega), List.take_take]
          congr 1; omega
        rw [htk] at hb3
        -- so i+1 ≤ lcp g kg'' ≤ lcp g kgp
        have h1 : lcp g (groups k) + 1 ≤ lcp g (groups kv'.1) :=
          (le_lcp_iff _ _ _).2 ⟨by omega, hb2, hb3⟩
        have h2 : lcp g (groups k) + 1 ≤ lcp g kgp :=
          Nat.le_trans h1 (hinv kv' (by simp [hkv']))
        obtain ⟨_, hc2, hc3⟩ := (le_lcp_iff _ _ _).1 h2
        -- hence i+1 ≤ lcp kgp kg'' ≤ lcp kgp kg
        have h3 : lcp g (groups k) + 1 ≤ lcp kgp (groups kv'.1) :=
          (le_lcp_iff _ _ _).2 ⟨hc2, hb2, by rw [← hc3, hb3]⟩
        have h4 : lcp g (groups k) + 1 ≤ lcp kgp (groups k) :=
          Nat.le_trans h3 (hc.1 (groups kv'.1) (by
            simp only [List.mem_cons]; right
            exact List.mem_map.2 ⟨kv', hkv', rfl⟩))
        obtain ⟨_, hd2, hd3⟩ := (le_lcp_iff _ _ _).1 h4
        -- and i+1 ≤ lcp g kg = i
        have h5 : lcp g (groups k) + 1 ≤ lcp g (groups k) :=
          (le_lcp_iff _ _ _).2 ⟨by omega, hd2, by rw [hc3, hd3]⟩
        omega
    · exact hc.2

/-! ## 7. what the parser returns is a `std::map` with non-empty values -/

theorem ltStr_trans (a b c : Str) (h1 : ltStr a b = true) (h2 : ltStr b c = true) :
    ltStr a c = true := by
  induction a generalizing b c with
  | nil =>
    cases b with
    | nil => simp [ltStr] at h1
    | cons y ys => cases c <;> simp_all [ltStr]
  | cons x xs ih =>
    cases b with
    | nil => simp [ltStr] at h1
    | cons y ys =>
      cases c with
      | nil => simp [ltStr] at h2
      | cons z zs =>
        simp only [ltStr] at h1 h2 ⊢
        by_cases hxy : x = y
        · subst hxy
          by_cases hxz : x = z
          · subst hxz
            simp only [if_true] at h1 h2 ⊢
            exact ih ys zs h1 h2
          · simp only [hxz, if_false, if_true] at h1 h2 ⊢
            exact h2
        · by_cases hyz : y = z
          · subst hyz
            simp only [hxy, if_false, if_true] at h1 h2 ⊢
            exact h1
          · simp only [hxy, hyz, if_false, decide_eq_true_eq] at h1 h2
            have hxz : x ≠ z := by
              rintro rfl
              omega
            simp only [hxz, if_false, decide_eq_true_eq]
            omega

theorem ltStr_total (a b : Str) (hne : a ≠ b) (h : ltStr a b = false) : ltStr b a = true := by
  induction a generalizing b with
  | nil =>
    cases b with
    | nil => exact absurd rfl hne
    | cons y ys => simp [ltStr] at h
  | cons x xs ih =>
    cases b with
    | nil => rfl
    | cons y ys =>
      simp only [ltStr] at h ⊢
      by_cases hxy : x = y
      · subst hxy
        simp only [if_true] at h ⊢
        exact ih ys (fun e => hne (by rw [e])) h
      · have hyx : ¬ y = x := fun e => hxy e.symm
        simp only [hxy, hyx, if_false, decide_eq_false_iff_not, decide_eq_true_eq] at h ⊢
        have : x.toNat ≠ y.toNat := fun e => hxy (Char.toNat_inj.1 e)
        omega

theorem mem_insert (k v : Str) (D : Dict) (x : Str × Str) (hx : x ∈ D.insert k v) :
    x = (k, v) ∨ x ∈ D := by
  induction D with
  | nil => simpa [Dict.insert] using hx
  | cons kv D ih =>
    rcases kv with ⟨k', v'⟩
    simp only [Dict.insert] at hx
    split at hx
    · rcases List.mem_cons.1 hx with h | h
      · exact Or.inl h
      · exact Or.inr (List.mem_cons_of_mem _ h)
    · split at hx
      · rcases List.mem_cons.1 hx with h | h
        · exact Or.inl h
        · exact Or.inr h
      · rcases List.mem_cons.1 hx with h | h
        · exact Or.inr (by rw [h]; simp)
        · rcases ih h with h | h
          · exact Or.inl h
          · exact Or.inr (List.mem_cons_of_mem _ h)

theorem insert_sorted (k v : Str) (D : Dict) (h : Sorted D) : Sorted (D.insert k v) := by
  induction D with
  | nil => simp [Dict.insert, Sorted]
  | cons kv D ih =>
    rcases kv with ⟨k', v'⟩
    unfold Sorted at h ⊢
    rw [List.pairwise_cons] at h
    obtain ⟨h1, h2⟩ := h
    simp only [Dict.insert]
    split
    · rename_i hk
      subst hk
      rw [List.pairwise_cons]
      exact ⟨h1, h2⟩
    · rename_i hk
      split
      · rename_i hlt
        rw [List.pairwise_cons, List.pairwise_cons]
        refine ⟨?_, h1, h2⟩
        intro x hx
        rcases List.mem_cons.1 hx with rfl | hx
        · exact hlt
        · exact ltStr_trans _ _ _ hlt (h1 x hx)
      · rename_i hnlt
        rw [List.pairwise_cons]
        refine ⟨?_, ih h2⟩
        intro x hx
        rcases mem_insert k v D x hx with rfl | hx
        · exact ltStr_total k k' hk (by simpa using hnlt)
        · exact h1 x hx

/-- dictionaries the parser can produce -/
def WellFormed (d : Dict) : Prop := Sorted d ∧ ∀ kv ∈ d, kv.2 ≠ []

theorem insert_wellFormed (k v : Str) (hv : v ≠ []) (D : Dict) (h : WellFormed D) :
    WellFormed (D.insert k v) := by
  refine ⟨insert_sorted k v D h.1, ?_⟩
  intro x hx
  rcases mem_insert k v D x hx with rfl | hx
  · exact hv
  · exact h.2 x hx

/-- a line either leaves the dictionary alone (header) or stores its non-empty value -/
theorem parseLine_dict (s s' : PState) (l : Line) (h : parseLine s l = some s') :
    s'.dict = s.dict ∨ (l.value ≠ [] ∧ ∃ k, s'.dict = s.dict.insert k l.value) := by
  unfold parseLine at h
  by_cases hv : l.value.isEmpty = true
  · left
    simp only [hv, if_true] at h
    by_cases hi : l.indent > 0
    · simp only [hi, if_true] at h
      split at h
      · simp at h
      · split at h
        · simp at h
        · simp only [Option.some.injEq] at h
          rw [← h]
    · simp only [hi, if_false] at h
      by_cases hl : s.groupname.length ≠ s.levels.length
      · simp [hl] at h
      · simp only [hl, if_false, Option.some.injEq] at h
        rw [← h]
  · right
    have hne : l.value ≠ [] := by
      intro e; rw [e] at hv; simp at hv
    refine ⟨hne, ?_⟩
    have hv' : l.value.isEmpty = false := by simpa using hv
    simp only [hv', Bool.false_eq_true, if_false] at h
    by_cases hi : l.indent > 0
    · simp only [hi, if_true] at h
      split at h
      · simp at h
      · split at h
        · simp at h
        · simp only [Option.some.injEq] at h
          exact ⟨_, by rw [← h]⟩
    · simp only [hi, if_false] at h
      by_cases hl : s.groupname.length ≠ s.levels.length
      · simp [hl] at h
      · simp only [hl, if_false, Option.some.injEq] at h
        exact ⟨_, by rw [← h]⟩

theorem parseLine_wellFormed (s s' : PState) (l : Line) (h : parseLine s l = some s')
    (hw : WellFormed s.dict) : WellFormed s'.dict := by
  rcases parseLine_dict s s' l h with h | ⟨hv, k, h⟩
  · rw [h]; exact hw
  · rw [h]; exact insert_wellFormed _ _ hv _ hw

theorem parseLines_wellFormed (ls : List Line) (s s' : PState) (h : parseLines s ls = some s')
    (hw : WellFormed s.dict) : WellFormed s'.dict := by
  induction ls generalizing s with
  | nil => simp only [parseLines, Option.some.injEq] at h; subst h; exact hw
  | cons l ls ih =>
    simp only [parseLines] at h
    cases hl : parseLine s l with
    | none => rw [hl] at h; simp at h
    | some s1 =>
      rw [hl] at h
      exact ih s1 h (parseLine_wellFormed s s1 l hl hw)

theorem parse_wellFormed (ls : List Line) (d : Dict) (h : parse ls = some d) : WellFormed d := by
  unfold parse at h
  cases hp : parseLines {} ls with
  | none => rw [hp] at h; simp at h
  | some s =>
    rw [hp] at h
    simp only [Option.map_some, Option.some.injEq] at h
    subst h
    exact parseLines_wellFormed ls {} s hp ⟨by simp [Sorted], by simp⟩

end CMacVerif.Yaml
