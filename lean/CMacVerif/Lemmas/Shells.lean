import CMacVerif.Model.Shells
import Mathlib.Tactic.Linarith
import Mathlib.Data.Set.Finite.Basic
import Mathlib.Data.Set.Finite.Lattice
import Mathlib.Data.Finite.Prod
import Mathlib.Order.Interval.Set.Infinite
import Mathlib.Order.Interval.Finset.Defs
import Mathlib.Data.Int.Interval
/-! Helper lemmas for the shell enumeration of the bucket search (C16). -/
set_option linter.unusedSimpArgs false
namespace CMacVerif.Shells

theorem iabs_lt (x L : Int) : iabs x < L ↔ (-L < x ∧ x < L) := by
  unfold iabs; split_ifs <;> omega

theorem iabs_le (x L : Int) : iabs x ≤ L ↔ (-L ≤ x ∧ x ≤ L) := by
  unfold iabs; split_ifs <;> omega

theorem iabs_eq (x L : Int) : iabs x = L ↔ (0 ≤ L ∧ (x = L ∨ x = -L)) := by
  unfold iabs; split_ifs <;> omega

theorem iabs_nonneg (x : Int) : 0 ≤ iabs x := by
  unfold iabs; split_ifs <;> omega

theorem imax_eq (a b c : Int) : imax a b = c ↔ (a ≤ c ∧ b ≤ c ∧ (a = c ∨ b = c)) := by
  unfold imax; split_ifs <;> omega

theorem imax_le (a b c : Int) : imax a b ≤ c ↔ (a ≤ c ∧ b ≤ c) := by
  unfold imax; split_ifs <;> omega

theorem le_imax_left (a b : Int) : a ≤ imax a b := by unfold imax; split_ifs <;> omega
theorem le_imax_right (a b : Int) : b ≤ imax a b := by unfold imax; split_ifs <;> omega

/-- max-norm of an offset -/
def maxNorm (x y z : Int) : Int := imax (iabs x) (imax (iabs y) (iabs z))

theorem maxNorm_nonneg (x y z : Int) : 0 ≤ maxNorm x y z :=
  le_trans (iabs_nonneg x) (le_imax_left _ _)

/-- `maxNorm = L` in linear form -/
theorem maxNorm_eq (x y z L : Int) : maxNorm x y z = L ↔
    (0 ≤ L ∧ -L ≤ x ∧ x ≤ L ∧ -L ≤ y ∧ y ≤ L ∧ -L ≤ z ∧ z ≤ L ∧
      (x = L ∨ x = -L ∨ y = L ∨ y = -L ∨ z = L ∨ z = -L)) := by
  unfold maxNorm imax iabs; split_ifs <;> omega

/-- the iterator's level is the max-norm of its offset -/
def Good (s : Idx) : Prop := maxNorm s.rx s.ry s.rz = s.level

/-- order of the traversal: by level, then lexicographic in `(rx, ry, rz)` -/
def Lt (a b : Idx) : Prop :=
  a.level < b.level ∨ (a.level = b.level ∧ (a.rx < b.rx ∨ (a.rx = b.rx ∧ (a.ry < b.ry ∨
    (a.ry = b.ry ∧ a.rz < b.rz)))))

theorem Lt_irrefl (a : Idx) : ¬ Lt a a := by unfold Lt; omega

theorem Lt_trans {a b c : Idx} : Lt a b → Lt b c → Lt a c := by unfold Lt; omega

theorem Lt_total (a b : Idx) : Lt a b ∨ a = b ∨ Lt b a := by
  have : a = b ↔ (a.rx = b.rx ∧ a.ry = b.ry ∧ a.rz = b.rz ∧ a.level = b.level) := by
    cases a; cases b; simp
  rw [this]; unfold Lt; omega

theorem good_start : Good start := by
  unfold Good; rw [maxNorm_eq]; simp [start]

theorem good_inc (s : Idx) (h : Good s) : Good (increaseIndices s) := by
  unfold Good at *
  rw [maxNorm_eq] at h
  unfold increaseIndices
  simp only [iabs_lt]
  split_ifs <;> rw [maxNorm_eq] <;> simp only [or_true, true_or, and_true] <;> omega

theorem lt_inc (s : Idx) (h : Good s) : Lt s (increaseIndices s) := by
  unfold Good at h
  rw [maxNorm_eq] at h
  unfold increaseIndices Lt
  simp only [iabs_lt]
  split_ifs <;> (try simp only [true_and, and_true, true_or, or_true, false_or, or_false, lt_self_iff_false, false_and, and_false]) <;> omega

/-- nothing lies strictly between a state and its successor -/
theorem no_between (s c : Idx) (h : Good s) (hc : Good c) (hlt : Lt s c) :
    ¬ Lt c (increaseIndices s) := by
  unfold Good at h hc
  rw [maxNorm_eq] at h hc
  unfold Lt at hlt
  unfold increaseIndices Lt
  simp only [iabs_lt]
  split_ifs <;> (try simp only [true_and, and_true, true_or, or_true, false_or, or_false, lt_self_iff_false, false_and, and_false]) <;> omega

theorem good_iter (n : Nat) : Good (iter n) := by
  induction n with
  | zero => exact good_start
  | succ n ih => exact good_inc _ ih

theorem iter_lt_succ (n : Nat) : Lt (iter n) (iter (n + 1)) := lt_inc _ (good_iter n)

theorem iter_strictMono {m n : Nat} (h : m < n) : Lt (iter m) (iter n) := by
  induction n with
  | zero => omega
  | succ n ih =>
    rcases Nat.lt_succ_iff_lt_or_eq.mp h with h' | h'
    · exact Lt_trans (ih h') (iter_lt_succ n)
    · subst h'; exact iter_lt_succ m

theorem iter_injective {m n : Nat} (h : iter m = iter n) : m = n := by
  rcases Nat.lt_trichotomy m n with h' | h' | h'
  · exact absurd (h ▸ iter_strictMono h') (Lt_irrefl _)
  · exact h'
  · exact absurd (h ▸ iter_strictMono h') (Lt_irrefl _)

theorem level_mono {m n : Nat} (h : m ≤ n) : (iter m).level ≤ (iter n).level := by
  rcases Nat.lt_or_eq_of_le h with h' | h'
  · have := iter_strictMono h'; unfold Lt at this; omega
  · subst h'; exact le_refl _

/-- the start is the least good state -/
theorem start_least (c : Idx) (hc : Good c) : c = start ∨ Lt start c := by
  unfold Good at hc; rw [maxNorm_eq] at hc
  have : c = start ↔ (c.rx = 0 ∧ c.ry = 0 ∧ c.rz = 0 ∧ c.level = 0) := by
    cases c; simp [start]
  rw [this]; unfold Lt start; simp only; omega

/-- good states up to a level form a finite set -/
theorem finite_upto (L : Int) : {s : Idx | Good s ∧ s.level ≤ L}.Finite := by
  have hf : ((fun q : Int × Int × Int × Int => (⟨q.1, q.2.1, q.2.2.1, q.2.2.2⟩ : Idx)) ''
      (Set.Icc (-L) L ×ˢ Set.Icc (-L) L ×ˢ Set.Icc (-L) L ×ˢ Set.Icc 0 L)).Finite :=
    Set.Finite.image _ (Set.Finite.prod (Set.finite_Icc _ _) (Set.Finite.prod (Set.finite_Icc _ _)
      (Set.Finite.prod (Set.finite_Icc _ _) (Set.finite_Icc _ _))))
  refine hf.subset ?_
  rintro ⟨x, y, z, l⟩ ⟨hg, hl⟩
  unfold Good at hg; rw [maxNorm_eq] at hg
  simp only at hg hl
  refine ⟨(x, y, z, l), ?_, rfl⟩
  simp only [Set.mem_prod, Set.mem_Icc]
  omega

/-- the level grows without bound -/
theorem level_unbounded (L : Int) : ∃ n, L < (iter n).level := by
  by_contra hcon
  push Not at hcon
  have hinj : Function.Injective iter := fun _ _ h => iter_injective h
  have hinf : (Set.range iter).Infinite := Set.infinite_range_of_injective hinj
  apply hinf
  refine (finite_upto L).subset ?_
  rintro s ⟨n, rfl⟩
  exact ⟨good_iter n, hcon n⟩

/-- every good state is visited -/
theorem iter_surjective (c : Idx) (hc : Good c) : ∃ n, iter n = c := by
  classical
  have hex : ∃ n, Lt c (iter n) := by
    obtain ⟨n, hn⟩ := level_unbounded c.level
    exact ⟨n, Or.inl hn⟩
  have hm := Nat.find_spec hex
  have hmin := fun k => Nat.find_min hex (m := k)
  rcases hk : Nat.find hex with _ | k
  · rw [hk] at hm
    rcases start_least c hc with h | h
    · exact ⟨0, h.symm⟩
    · exact absurd (Lt_trans h hm) (Lt_irrefl _)
  · rw [hk] at hm
    have hnot : ¬ Lt c (iter k) := hmin k (by omega)
    rcases Lt_total (iter k) c with h | h | h
    · exact absurd hm (no_between _ _ (good_iter k) hc h)
    · exact ⟨k, h⟩
    · exact absurd h hnot

/-! ### `set_max_range` -/

/-- offset inside the grid (the `Prop` form of `isInside`) -/
def Inside (ax ay az sx sy sz : Int) (c : Idx) : Prop :=
  0 ≤ ax + c.rx ∧ ax + c.rx < sx ∧ 0 ≤ ay + c.ry ∧ ay + c.ry < sy ∧ 0 ≤ az + c.rz ∧ az + c.rz < sz

theorem isInside_iff (ax ay az sx sy sz : Int) (c : Idx) :
    isInside ax ay az sx sy sz c.rx c.ry c.rz = true ↔ Inside ax ay az sx sy sz c := by
  unfold isInside Inside; simp

/-- linear description of `m = imax a b` -/
def IsMax (a b m : Int) : Prop := a ≤ m ∧ b ≤ m ∧ (a = m ∨ b = m)

theorem isMax_imax (a b : Int) : IsMax a b (imax a b) := by
  unfold IsMax imax; split_ifs <;> omega

section choice
variable (ax ay az s lx ly lz lxy ml : Int)
  (hx : 0 ≤ ax ∧ ax < s) (hy : 0 ≤ ay ∧ ay < s) (hz : 0 ≤ az ∧ az < s)
  (h1 : IsMax ax (s - ax - 1) lx) (h2 : IsMax ay (s - ay - 1) ly) (h3 : IsMax az (s - az - 1) lz)
  (h4 : IsMax lx ly lxy) (h5 : IsMax lxy lz ml)
include hx hy hz h1 h2 h3 h4 h5

theorem choice_inside : Inside ax ay az s s s
    (maxRangeChoice (-ax) (-ay) (-az) (s - ax - 1) (s - ay - 1) (s - az - 1) lx ly lz ml) := by
  unfold IsMax at *
  unfold maxRangeChoice Inside
  split_ifs <;> simp only <;> omega

theorem choice_good : Good
    (maxRangeChoice (-ax) (-ay) (-az) (s - ax - 1) (s - ay - 1) (s - az - 1) lx ly lz ml) := by
  unfold IsMax at *
  unfold Good; rw [maxNorm_eq]
  unfold maxRangeChoice
  split_ifs <;> simp only <;> omega

theorem choice_last (c : Idx) (hc : Good c) (hin : Inside ax ay az s s s c) : ¬ Lt
    (maxRangeChoice (-ax) (-ay) (-az) (s - ax - 1) (s - ay - 1) (s - az - 1) lx ly lz ml) c := by
  unfold IsMax at *
  unfold Good at hc; rw [maxNorm_eq] at hc
  unfold Inside at hin
  unfold maxRangeChoice Lt
  split_ifs <;> simp only <;> omega

/-- every level up to the maximal one contains a block inside the grid -/
theorem exists_inside_level (L : Int) (h0 : 0 ≤ L) (hL : L ≤ ml) :
    ∃ c : Idx, Good c ∧ Inside ax ay az s s s c ∧ c.level = L := by
  unfold IsMax at *
  have hg : ∀ x y z : Int, Good ⟨x, y, z, L⟩ ↔ (0 ≤ L ∧ -L ≤ x ∧ x ≤ L ∧ -L ≤ y ∧ y ≤ L ∧ -L ≤ z ∧ z ≤ L ∧
      (x = L ∨ x = -L ∨ y = L ∨ y = -L ∨ z = L ∨ z = -L)) := fun x y z => maxNorm_eq x y z L
  by_cases c1 : L ≤ ax
  · exact ⟨⟨-L, 0, 0, L⟩, (hg _ _ _).2 (by omega), by unfold Inside; simp only; omega, rfl⟩
  by_cases c2 : L ≤ s - ax - 1
  · exact ⟨⟨L, 0, 0, L⟩, (hg _ _ _).2 (by omega), by unfold Inside; simp only; omega, rfl⟩
  by_cases c3 : L ≤ ay
  · exact ⟨⟨0, -L, 0, L⟩, (hg _ _ _).2 (by omega), by unfold Inside; simp only; omega, rfl⟩
  by_cases c4 : L ≤ s - ay - 1
  · exact ⟨⟨0, L, 0, L⟩, (hg _ _ _).2 (by omega), by unfold Inside; simp only; omega, rfl⟩
  by_cases c5 : L ≤ az
  · exact ⟨⟨0, 0, -L, L⟩, (hg _ _ _).2 (by omega), by unfold Inside; simp only; omega, rfl⟩
  · exact ⟨⟨0, 0, L, L⟩, (hg _ _ _).2 (by omega), by unfold Inside; simp only; omega, rfl⟩

/-- the level of the last block is the largest level with a block inside the grid -/
theorem inside_level_le (c : Idx) (hc : Good c) (hin : Inside ax ay az s s s c) : c.level ≤ ml := by
  unfold IsMax at *
  unfold Good at hc; rw [maxNorm_eq] at hc
  unfold Inside at hin
  omega
end choice

theorem setMaxRange_eq (ax ay az s : Int) : setMaxRange ax ay az s s s =
    maxRangeChoice (-ax) (-ay) (-az) (s - ax - 1) (s - ay - 1) (s - az - 1)
      (imax ax (s - ax - 1)) (imax ay (s - ay - 1)) (imax az (s - az - 1))
      (imax (imax (imax ax (s - ax - 1)) (imax ay (s - ay - 1))) (imax az (s - az - 1))) := by
  unfold setMaxRange; simp only [neg_neg]

theorem setMaxRange_level (ax ay az s : Int) : (setMaxRange ax ay az s s s).level =
    imax (imax (imax ax (s - ax - 1)) (imax ay (s - ay - 1))) (imax az (s - az - 1)) := by
  rw [setMaxRange_eq]; unfold maxRangeChoice; split_ifs <;> rfl

/-! ### the skipping loop of `increase_range` -/

theorem skipOutside_reaches (ax ay az sx sy sz : Int) (d : Nat) : ∀ (a fuel : Nat),
    (∀ j, a ≤ j → j < a + d → ¬ Inside ax ay az sx sy sz (iter j)) →
    Inside ax ay az sx sy sz (iter (a + d)) → d < fuel →
    skipOutside ax ay az sx sy sz fuel (iter a) = some (iter (a + d)) := by
  induction d with
  | zero =>
    intro a fuel _ hin hf
    obtain ⟨f, rfl⟩ : ∃ f, fuel = f + 1 := ⟨fuel - 1, by omega⟩
    simp only [skipOutside, Nat.add_zero] at *
    rw [(isInside_iff _ _ _ _ _ _ _).2 hin]; rfl
  | succ d ih =>
    intro a fuel hout hin hf
    obtain ⟨f, rfl⟩ : ∃ f, fuel = f + 1 := ⟨fuel - 1, by omega⟩
    have h0 : ¬ Inside ax ay az sx sy sz (iter a) := hout a (le_refl _) (by omega)
    have h0' : isInside ax ay az sx sy sz (iter a).rx (iter a).ry (iter a).rz = false := by
      rw [← Bool.not_eq_true, isInside_iff]; exact h0
    simp only [skipOutside, h0']
    have := ih (a + 1) f (fun j hj hj' => hout j (by omega) (by omega))
      (by rw [show a + 1 + d = a + (d + 1) by omega]; exact hin) (by omega)
    rw [show a + 1 + d = a + (d + 1) by omega] at this
    exact this

end CMacVerif.Shells
