import CMacVerif.Model.ExactFlux
import CMacVerif.Lemmas.RiemannVacuum
/-!
Symmetries of the *complete* exact Riemann solver (`Model/ExactFlux.lean` around C11's
`ExactRiemann.solve`) at `ℝ` (`ovf = 0`): Galilean covariance and mirror symmetry of the 1D
solution at every sampling speed, for every fuel of the two root-finding loops, and their
flux-level consequences for `ExactRiemannSolver::solve_for_flux`.
-/
namespace CMacVerif.ExactFlux
open CMacVerif CMacVerif.RiemannVacuum CMacVerif.ExactRiemann

@[simp] theorem _root_.CMacVerif.ExactRiemann.pow_real_eq (x y : ℝ) : ArithFns.pow x y = x ^ y := rfl
@[simp] theorem _root_.CMacVerif.ExactRiemann.sqrt_real_eq (x : ℝ) : ArithFns.sqrt x = Real.sqrt x := rfl

/-! ### flux assembly around an arbitrary 1D solver -/

/-- every 1D solver gives a Galilean covariant flux: the solver only sees face-frame velocities -/
theorem fluxWith_boost (G : ℝ) (S : ℝ → ℝ → ℝ → ℝ → ℝ → ℝ → Sample ℝ) (rhoL PL rhoR PR : ℝ)
    (uL uR n vf w : V3 ℝ) :
    fluxWith G S rhoL (uL.add w) PL rhoR (uR.add w) PR n (vf.add w)
      = (fluxWith G S rhoL uL PL rhoR uR PR n vf).boost w := by
  unfold fluxWith
  simp only [faceFrame_boost]
  exact fluxFromSample_boost ..

/-- a mirror-symmetric 1D solver gives a mirror-antisymmetric flux -/
theorem fluxWith_mirror (G : ℝ) (S : ℝ → ℝ → ℝ → ℝ → ℝ → ℝ → Sample ℝ) (rhoL PL rhoR PR : ℝ)
    (uL uR n vf : V3 ℝ)
    (hm : (S rhoR (-(faceFrame uL uR n vf).vR) PR rhoL (-(faceFrame uL uR n vf).vL) PL).MirrorOf
      (S rhoL (faceFrame uL uR n vf).vL PL rhoR (faceFrame uL uR n vf).vR PR))
    (hf : (S rhoL (faceFrame uL uR n vf).vL PL rhoR (faceFrame uL uR n vf).vR PR).FlagOk) :
    (fluxWith G S rhoR uR PR rhoL uL PL n.neg vf).NegOf (fluxWith G S rhoL uL PL rhoR uR PR n vf) := by
  unfold fluxWith
  simp only [faceFrame_mirror]
  exact fluxFromSample_mirror G _ _ _ n vf hm hf

/-! ### the constants of C11's model are the ones of `RiemannVacuum` -/

theorem c_tdgp1 (g : ℝ) : (mkConsts g).tdgp1 = tdgp1 (effGamma g) := rfl
theorem c_gm1d2 (g : ℝ) : (mkConsts g).gm1d2 = gm1d2 (effGamma g) := rfl
theorem c_tdgm1 (g : ℝ) : (mkConsts g).tdgm1 = tdgm1 (effGamma g) := rfl
theorem c_gm1dgp1 (g : ℝ) : (mkConsts g).gm1dgp1 = gm1dgp1 (effGamma g) := rfl

theorem c_fan_shift (g : ℝ) : (mkConsts g).tdgp1 * ((mkConsts g).gm1d2 + 1) = 1 := by
  rw [c_tdgp1, c_gm1d2]; exact tdgp1_mul_gm1d2 (effGamma_gt_one g)

/-! ### Galilean covariance of the iterative path -/

/-- a sampled state `Sol` seen from the boosted frame -/
noncomputable def _root_.CMacVerif.ExactRiemann.Sol.boost (w : ℝ) (s : Sol ℝ) : Sol ℝ :=
  ⟨s.rho, s.u + w, s.P, s.br⟩

/-- the pressure function, its derivative, the initial guess and hence the whole root finding
only see `u_R - u_L`: a common boost changes nothing but the star velocity -/
theorem star_galilean (c : Consts ℝ) (nf bf : ℕ) (rhoL uL PL rhoR uR PR w : ℝ) :
    ExactRiemann.star c nf bf rhoL (uL + w) PL rhoR (uR + w) PR
      = { ExactRiemann.star c nf bf rhoL uL PL rhoR uR PR with
          ustar := (ExactRiemann.star c nf bf rhoL uL PL rhoR uR PR).ustar + w } := by
  have hd : uR + w - (uL + w) = uR - uL := by ring
  unfold ExactRiemann.star
  simp only [hd]
  congr 1
  unfold ustarOf
  rw [show (0.5 : ℝ) = 1 / 2 by norm_num]
  ring

/-- `std::isinf` never holds for a real number -/
theorem not_isInf (x : ℝ) : ¬ IsInf x := by
  unfold IsInf; intro h; exact h.2 (le_refl _)

section samplers
variable (c : Consts ℝ)

theorem sampleRightShock_galilean (rho u P a Pi us p d w : ℝ) :
    sampleRightShock c rho (u + w) P a Pi (us + w) p (d + w)
      = (sampleRightShock c rho u P a Pi us p d).boost w := by
  have c1 : (d + w < shockSpeedR c (u + w) a Pi p) ↔ (d < shockSpeedR c u a Pi p) := by
    unfold shockSpeedR; constructor <;> intro h <;> linarith
  unfold sampleRightShock
  simp only [c1]
  split_ifs <;> rfl

theorem sampleLeftShock_galilean (rho u P a Pi us p d w : ℝ) :
    sampleLeftShock c rho (u + w) P a Pi (us + w) p (d + w)
      = (sampleLeftShock c rho u P a Pi us p d).boost w := by
  have c1 : (shockSpeedL c (u + w) a Pi p < d + w) ↔ (shockSpeedL c u a Pi p < d) := by
    unfold shockSpeedL; constructor <;> intro h <;> linarith
  unfold sampleLeftShock
  simp only [c1]
  split_ifs <;> rfl

theorem fanR_galilean (hc : c.tdgp1 * (c.gm1d2 + 1) = 1) (rho u P a d w : ℝ) (br : ℕ) :
    fanR c rho (u + w) P a (d + w) br = (fanR c rho u P a d br).boost w := by
  have hb : u + w - (d + w) = u - d := by ring
  unfold fanR Sol.boost
  simp only [hb]
  congr 1
  linear_combination w * hc

theorem fanL_galilean (hc : c.tdgp1 * (c.gm1d2 + 1) = 1) (rho u P a d w : ℝ) (br : ℕ) :
    fanL c rho (u + w) P a (d + w) br = (fanL c rho u P a d br).boost w := by
  have hb : u + w - (d + w) = u - d := by ring
  unfold fanL Sol.boost
  simp only [hb]
  congr 1
  linear_combination w * hc

theorem sampleRightRarefaction_galilean (hc : c.tdgp1 * (c.gm1d2 + 1) = 1)
    (rho u P a Pi us p d w : ℝ) :
    sampleRightRarefaction c rho (u + w) P a Pi (us + w) p (d + w)
      = (sampleRightRarefaction c rho u P a Pi us p d).boost w := by
  have c1 : (d + w < headR (u + w) a) ↔ (d < headR u a) := by
    unfold headR; constructor <;> intro h <;> linarith
  have c2 : (d + w < tailR c a Pi (us + w) p) ↔ (d < tailR c a Pi us p) := by
    unfold tailR; constructor <;> intro h <;> linarith
  unfold sampleRightRarefaction
  simp only [c1, c2]
  split_ifs
  · rfl
  · exact fanR_galilean c hc ..
  · rfl

theorem sampleLeftRarefaction_galilean (hc : c.tdgp1 * (c.gm1d2 + 1) = 1)
    (rho u P a Pi us p d w : ℝ) :
    sampleLeftRarefaction c rho (u + w) P a Pi (us + w) p (d + w)
      = (sampleLeftRarefaction c rho u P a Pi us p d).boost w := by
  have c1 : (headL (u + w) a < d + w) ↔ (headL u a < d) := by
    unfold headL; constructor <;> intro h <;> linarith
  have c2 : (d + w < tailL c a Pi (us + w) p) ↔ (d < tailL c a Pi us p) := by
    unfold tailL; constructor <;> intro h <;> linarith
  unfold sampleLeftRarefaction
  simp only [c1, c2]
  split_ifs
  · exact fanL_galilean c hc ..
  · rfl
  · rfl

theorem sampleRightState_galilean (hc : c.tdgp1 * (c.gm1d2 + 1) = 1) (rho u P a Pi us p d w : ℝ) :
    sampleRightState c rho (u + w) P a Pi (us + w) p (d + w)
      = (sampleRightState c rho u P a Pi us p d).boost w := by
  unfold sampleRightState
  split_ifs
  · exact sampleRightShock_galilean c ..
  · exact sampleRightRarefaction_galilean c hc ..

theorem sampleLeftState_galilean (hc : c.tdgp1 * (c.gm1d2 + 1) = 1) (rho u P a Pi us p d w : ℝ) :
    sampleLeftState c rho (u + w) P a Pi (us + w) p (d + w)
      = (sampleLeftState c rho u P a Pi us p d).boost w := by
  unfold sampleLeftState
  split_ifs
  · exact sampleLeftShock_galilean c ..
  · exact sampleLeftRarefaction_galilean c hc ..

end samplers

/-- sampling the star solution: the flag is unchanged, the state is boosted -/
theorem sampleStar_galilean (c : Consts ℝ) (hc : c.tdgp1 * (c.gm1d2 + 1) = 1) (s : ExactRiemann.Star ℝ)
    (rhoL uL PL rhoR uR PR d w : ℝ) :
    sampleStar c { s with ustar := s.ustar + w } rhoL (uL + w) PL rhoR (uR + w) PR (d + w)
      = ((sampleStar c s rhoL uL PL rhoR uR PR d).1,
         (sampleStar c s rhoL uL PL rhoR uR PR d).2.boost w) := by
  have c1 : (s.ustar + w < d + w) ↔ (s.ustar < d) := by constructor <;> intro h <;> linarith
  unfold sampleStar
  simp only [not_isInf, or_self, if_false, c1]
  split_ifs
  · simp only [sampleRightState_galilean c hc]
  · simp only [sampleLeftState_galilean c hc]

/-- the flag returned by the iterative path is ±1 -/
theorem sampleStar_flag (c : Consts ℝ) (s : ExactRiemann.Star ℝ) (rhoL uL PL rhoR uR PR d : ℝ) :
    (sampleStar c s rhoL uL PL rhoR uR PR d).1 = 1 ∨ (sampleStar c s rhoL uL PL rhoR uR PR d).1 = -1 := by
  unfold sampleStar
  simp only [not_isInf, or_self, if_false]
  split_ifs
  · exact Or.inl rfl
  · exact Or.inr rfl

/-- **Galilean covariance of `ExactRiemannSolver::solve`** (vacuum exits and iterative path,
every sampling speed, every fuel): boosting both gases and `x/t` by `w` leaves flag, density and
pressure unchanged and shifts the velocity by `w`. -/
theorem solve1D_galilean (g : ℝ) (nf bf : ℕ) (rhoL uL PL rhoR uR PR d w : ℝ) :
    solve1D 0 g nf bf rhoL (uL + w) PL rhoR (uR + w) PR (d + w)
      = (solve1D 0 g nf bf rhoL uL PL rhoR uR PR d).boost w := by
  unfold solve1D ExactRiemann.solve
  rw [solveIfVacuum_galilean]
  cases hv : solveIfVacuum 0 g rhoL uL PL rhoR uR PR d with
  | some v =>
    simp only [Option.map_some, Sample.boost]
  | none =>
    simp only [Option.map_none]
    rw [star_galilean, sampleStar_galilean _ (c_fan_shift g)]
    have hf := sampleStar_flag (mkConsts g) (ExactRiemann.star (mkConsts g) nf bf rhoL uL PL rhoR uR PR)
      rhoL uL PL rhoR uR PR d
    unfold Sample.boost Sol.boost
    simp only
    rcases hf with h | h <;> simp [h]

/-! ### identical states -/

theorem fb_at_P (c : Consts ℝ) {P : ℝ} (hP : P ≠ 0) (A B afac : ℝ) :
    fb c P A B (1.0 / P) afac P = 0 := by
  unfold fb
  rw [if_neg (lt_irrefl P)]
  have h : P * (1 / P) = 1 := by field_simp
  simp only [lit1, pow_real_eq, h, Real.one_rpow, sub_self, mul_zero]

/-- a guess that already is a root is returned unchanged, whatever the fuel -/
theorem findPstar_of_root (F F' : ℝ → ℝ) (nf bf : ℕ) (p : ℝ) (h : F p = 0) :
    (findPstar F F' nf bf p).pstar = p := by
  have hl : (newtonPhase F F' nf p).1 = ⟨0.0, F 0.0, p, F p⟩ := by
    unfold newtonPhase
    simp only [h, mul_zero, lit0, le_refl, if_true]
    cases nf with
    | zero => rfl
    | succ n =>
      unfold newtonLoop
      simp only [lit0, lt_irrefl, and_false, if_false]
  unfold findPstar handOver
  simp only [hl, h, lit0, lt_irrefl, and_false, if_false]

theorem guessPT_identical (c : Consts ℝ) {P : ℝ} (hP : 0 < P) (a A B : ℝ) :
    (guessPT c P a A B P a A B 0).1 = P := by
  have hs : smallP P P ≤ P := by
    unfold smallP; rw [show (5.0e-9 : ℝ) = 5 / 1000000000 by norm_num]; nlinarith
  have hppv : ppv P a P a 0 = P := by
    unfold ppv
    simp only [amax_real]
    rw [show (0.5 : ℝ) = 1 / 2 by norm_num, show (0.125 : ℝ) = 1 / 8 by norm_num]
    have : 1 / 2 * (P + P) - 1 / 8 * 0 * (P + P) * (a + a) = P := by ring
    rw [this]; exact max_eq_right hs
  unfold guessPT
  simp only [hppv, amax_real, amin_real, min_self, max_self, div_self hP.ne', le_refl, and_true]
  rw [if_pos (by rw [lit2]; norm_num)]
  exact max_eq_right hs

/-- two identical states: the root finder returns `P* = P` exactly (the initial guess is `P` and
`f(P) = 0`), `u* = u`, for every fuel -/
theorem star_identical (c : Consts ℝ) (nf bf : ℕ) {rho P : ℝ} (u : ℝ) (hP : 0 < P) :
    (ExactRiemann.star c nf bf rho u P rho u P).pstar = P ∧
    (ExactRiemann.star c nf bf rho u P rho u P).ustar = u := by
  have hF : ∀ A B afac, f c P A B (1.0 / P) afac P A B (1.0 / P) afac 0 P = 0 := by
    intro A B afac
    unfold f; rw [fb_at_P c hP.ne']; ring
  have hp : (ExactRiemann.star c nf bf rho u P rho u P).pstar = P := by
    unfold ExactRiemann.star
    simp only [sub_self, guessPT_identical c hP]
    exact findPstar_of_root _ _ nf bf P (hF _ _ _)
  refine ⟨hp, ?_⟩
  have hu : (ExactRiemann.star c nf bf rho u P rho u P).ustar
      = ustarOf u u (fb c P (c.tdgp1 * (1.0 / rho)) (c.gm1dgp1 * P) (1.0 / P)
          (c.tdgm1 * soundspeed c (1.0 / rho) P) (ExactRiemann.star c nf bf rho u P rho u P).pstar)
        (fb c P (c.tdgp1 * (1.0 / rho)) (c.gm1dgp1 * P) (1.0 / P)
          (c.tdgm1 * soundspeed c (1.0 / rho) P) (ExactRiemann.star c nf bf rho u P rho u P).pstar) := rfl
  rw [hu, hp, fb_at_P c hP.ne']
  unfold ustarOf
  rw [show (0.5 : ℝ) = 1 / 2 by norm_num]; ring

theorem sampleRightState_identical (c : Consts ℝ) {rho P : ℝ} (a u d : ℝ) (hP : 0 < P) :
    (sampleRightState c rho u P a (1.0 / P) u P d).rho = rho ∧
    (sampleRightState c rho u P a (1.0 / P) u P d).u = u ∧
    (sampleRightState c rho u P a (1.0 / P) u P d).P = P := by
  have h1 : P * (1.0 / P) = 1 := by rw [lit1]; field_simp
  have ht : tailR c a (1.0 / P) u P = headR u a := by
    unfold tailR headR; simp only [h1, pow_real_eq, Real.one_rpow, mul_one]
  unfold sampleRightState
  rw [if_neg (lt_irrefl P)]
  unfold sampleRightRarefaction
  simp only [ht]
  split_ifs
  · unfold starRarefaction
    simp only [h1, pow_real_eq, Real.one_rpow, mul_one, and_self]
  · exact ⟨rfl, rfl, rfl⟩

theorem sampleLeftState_identical (c : Consts ℝ) {rho P : ℝ} (a u d : ℝ) (hP : 0 < P) :
    (sampleLeftState c rho u P a (1.0 / P) u P d).rho = rho ∧
    (sampleLeftState c rho u P a (1.0 / P) u P d).u = u ∧
    (sampleLeftState c rho u P a (1.0 / P) u P d).P = P := by
  have h1 : P * (1.0 / P) = 1 := by rw [lit1]; field_simp
  have ht : tailL c a (1.0 / P) u P = headL u a := by
    unfold tailL headL; simp only [h1, pow_real_eq, Real.one_rpow, mul_one]
  unfold sampleLeftState
  rw [if_neg (lt_irrefl P)]
  unfold sampleLeftRarefaction
  simp only [ht]
  split_ifs with ha hb
  · exact absurd ha (not_lt.mpr hb.le)
  · unfold starRarefaction
    simp only [h1, pow_real_eq, Real.one_rpow, mul_one, and_self]
  · exact ⟨rfl, rfl, rfl⟩

/-- **identical states**: `ExactRiemannSolver::solve` returns that state (flag ±1) at every
sampling speed, for every fuel -/
theorem solve1D_identical (g : ℝ) (nf bf : ℕ) {rho P : ℝ} (u d : ℝ) (hr : 0 < rho) (hP : 0 < P) :
    (solve1D 0 g nf bf rho u P rho u P d).rho = rho ∧
    (solve1D 0 g nf bf rho u P rho u P d).u = u ∧
    (solve1D 0 g nf bf rho u P rho u P d).P = P ∧
    ((solve1D 0 g nf bf rho u P rho u P d).flag = 1 ∨
      (solve1D 0 g nf bf rho u P rho u P d).flag = -1) := by
  have hG := effGamma_gt_one g
  have hnv : isVacuum 0 rho rho P P = false := by
    have := isVacuum_iff rho P
    cases h : isVacuum 0 rho rho P P
    · rfl
    · rcases this.mp h with h | h
      · exact absurd h hr.ne'
      · exact absurd h hP.ne'
  have hnone : solveIfVacuum 0 g rho u P rho u P d = none := by
    unfold solveIfVacuum
    simp only [hnv, Bool.or_self, Bool.false_eq_true, if_false, sub_self]
    have ha : 0 < soundSpeed (effGamma g) (1.0 / rho) P := by
      unfold soundSpeed; rw [lit1]
      exact Real.sqrt_pos.mpr (by positivity)
    have ht := tdgm1_pos hG
    rw [if_neg (by nlinarith)]
  obtain ⟨hp, hu⟩ := star_identical (mkConsts g) nf bf (rho := rho) u hP
  unfold solve1D ExactRiemann.solve
  simp only [hnone]
  unfold sampleStar
  simp only [not_isInf, or_self, if_false, hp, hu]
  split_ifs
  · obtain ⟨a1, a2, a3⟩ := sampleRightState_identical (mkConsts g) (rho := rho)
      (ExactRiemann.star (mkConsts g) nf bf rho u P rho u P).aR u d hP
    exact ⟨a1, a2, a3, Or.inl rfl⟩
  · obtain ⟨a1, a2, a3⟩ := sampleLeftState_identical (mkConsts g) (rho := rho)
      (ExactRiemann.star (mkConsts g) nf bf rho u P rho u P).aL u d hP
    exact ⟨a1, a2, a3, Or.inr rfl⟩

/-! ### mirror symmetry of the iterative path -/

/-- `s` is the mirror image of `t`: same density and pressure, velocity reversed -/
def _root_.CMacVerif.ExactRiemann.Sol.MirrorOf (s t : Sol ℝ) : Prop :=
  s.rho = t.rho ∧ s.u = -t.u ∧ s.P = t.P

section mirrorSamplers
variable (c : Consts ℝ)

theorem sampleLeftShock_mirror (rho u P a Pi us p d : ℝ) :
    (sampleLeftShock c rho (-u) P a Pi (-us) p (-d)).MirrorOf
      (sampleRightShock c rho u P a Pi us p d) := by
  have c1 : (shockSpeedL c (-u) a Pi p < -d) ↔ (d < shockSpeedR c u a Pi p) := by
    unfold shockSpeedL shockSpeedR; constructor <;> intro h <;> linarith
  unfold sampleLeftShock sampleRightShock
  simp only [c1]
  split_ifs <;> exact ⟨rfl, rfl, rfl⟩

theorem sampleRightShock_mirror (rho u P a Pi us p d : ℝ) :
    (sampleRightShock c rho (-u) P a Pi (-us) p (-d)).MirrorOf
      (sampleLeftShock c rho u P a Pi us p d) := by
  have c1 : (-d < shockSpeedR c (-u) a Pi p) ↔ (shockSpeedL c u a Pi p < d) := by
    unfold shockSpeedL shockSpeedR; constructor <;> intro h <;> linarith
  unfold sampleLeftShock sampleRightShock
  simp only [c1]
  split_ifs <;> exact ⟨rfl, rfl, rfl⟩

theorem fanL_mirror (rho u P a d : ℝ) (b1 b2 : ℕ) :
    (fanL c rho (-u) P a (-d) b1).MirrorOf (fanR c rho u P a d b2) := by
  have hb : c.tdgp1 + c.gm1dgp1 * (-u - -d) / a = c.tdgp1 - c.gm1dgp1 * (u - d) / a := by ring
  unfold fanL fanR Sol.MirrorOf
  simp only [hb]
  refine ⟨trivial, ?_, trivial⟩
  ring

theorem fanR_mirror (rho u P a d : ℝ) (b1 b2 : ℕ) :
    (fanR c rho (-u) P a (-d) b1).MirrorOf (fanL c rho u P a d b2) := by
  have hb : c.tdgp1 - c.gm1dgp1 * (-u - -d) / a = c.tdgp1 + c.gm1dgp1 * (u - d) / a := by ring
  unfold fanL fanR Sol.MirrorOf
  simp only [hb]
  refine ⟨trivial, ?_, trivial⟩
  ring

/-- mirror symmetry of the rarefaction samplers, except exactly at the tail of the fan (there one
orientation evaluates the fan formula, the other the star state; they agree only as far as the
root finder has converged) -/
theorem sampleLeftRarefaction_mirror (rho u P a Pi us p d : ℝ) (hne : d ≠ tailR c a Pi us p) :
    (sampleLeftRarefaction c rho (-u) P a Pi (-us) p (-d)).MirrorOf
      (sampleRightRarefaction c rho u P a Pi us p d) := by
  have c1 : (headL (-u) a < -d) ↔ (d < headR u a) := by
    unfold headL headR; constructor <;> intro h <;> linarith
  have c2 : (-d < tailL c a Pi (-us) p) ↔ (tailR c a Pi us p < d) := by
    unfold tailL tailR; constructor <;> intro h <;> linarith
  unfold sampleLeftRarefaction sampleRightRarefaction
  simp only [c1, c2]
  split_ifs with h1 h2 h3 h3
  · exact absurd h2 (not_lt.mpr h3.le)
  · exact fanL_mirror c ..
  · exact ⟨rfl, rfl, rfl⟩
  · exact absurd (le_antisymm (not_lt.mp h2) (not_lt.mp h3)) hne
  · exact ⟨rfl, rfl, rfl⟩

theorem sampleRightRarefaction_mirror (rho u P a Pi us p d : ℝ) (hne : d ≠ tailL c a Pi us p) :
    (sampleRightRarefaction c rho (-u) P a Pi (-us) p (-d)).MirrorOf
      (sampleLeftRarefaction c rho u P a Pi us p d) := by
  have c1 : (-d < headR (-u) a) ↔ (headL u a < d) := by
    unfold headL headR; constructor <;> intro h <;> linarith
  have c2 : (-d < tailR c a Pi (-us) p) ↔ (tailL c a Pi us p < d) := by
    unfold tailL tailR; constructor <;> intro h <;> linarith
  unfold sampleLeftRarefaction sampleRightRarefaction
  simp only [c1, c2]
  split_ifs with h1 h2 h3 h3
  · exact absurd h2 (not_lt.mpr h3.le)
  · exact ⟨rfl, rfl, rfl⟩
  · exact fanR_mirror c ..
  · exact absurd (le_antisymm (not_lt.mp h3) (not_lt.mp h2)).symm hne
  · exact ⟨rfl, rfl, rfl⟩

end mirrorSamplers

theorem sampleLeftState_mirror (c : Consts ℝ) (rho u P a Pi us p d : ℝ)
    (hne : d ≠ tailR c a Pi us p) :
    (sampleLeftState c rho (-u) P a Pi (-us) p (-d)).MirrorOf
      (sampleRightState c rho u P a Pi us p d) := by
  unfold sampleLeftState sampleRightState
  split_ifs
  · exact sampleLeftShock_mirror c ..
  · exact sampleLeftRarefaction_mirror c _ _ _ _ _ _ _ _ hne

theorem sampleRightState_mirror (c : Consts ℝ) (rho u P a Pi us p d : ℝ)
    (hne : d ≠ tailL c a Pi us p) :
    (sampleRightState c rho (-u) P a Pi (-us) p (-d)).MirrorOf
      (sampleLeftState c rho u P a Pi us p d) := by
  unfold sampleLeftState sampleRightState
  split_ifs
  · exact sampleRightShock_mirror c ..
  · exact sampleRightRarefaction_mirror c _ _ _ _ _ _ _ _ hne

/-! the root finding is symmetric under the exchange of the two states -/

theorem f_swap (c : Consts ℝ) (PL AL BL PLi aLf PR AR BR PRi aRf ud : ℝ) :
    f c PR AR BR PRi aRf PL AL BL PLi aLf ud = f c PL AL BL PLi aLf PR AR BR PRi aRf ud := by
  funext p; unfold f; ring

theorem fprime_swap (c : Consts ℝ) (PL AL BL PLi rL PR AR BR PRi rR : ℝ) :
    fprime c PR AR BR PRi rR PL AL BL PLi rL = fprime c PL AL BL PLi rL PR AR BR PRi rR := by
  funext p; unfold fprime; ring

theorem guessPT_swap (c : Consts ℝ) (PL aL AL BL PR aR AR BR ud : ℝ) :
    (guessPT c PR aR AR BR PL aL AL BL ud).1 = (guessPT c PL aL AL BL PR aR AR BR ud).1 := by
  have h1 : ppv PR aR PL aL ud = ppv PL aL PR aR ud := by
    unfold ppv smallP; simp only [add_comm PR PL, add_comm aR aL]
  have h2 : smallP PR PL = smallP PL PR := by unfold smallP; rw [add_comm]
  have h3 : guessTR c PR aR PL aL ud = guessTR c PL aL PR aR ud := by
    unfold guessTR
    rw [add_comm aR aL, add_comm (aR * ArithFns.pow PR (-c.gm1d2g))]
  unfold guessPT
  simp only [h1, h2, h3, amin_real, amax_real, min_comm PR PL, max_comm PR PL, not_isInf, or_self,
    if_false]
  have h4 : (gb AR BR (ppv PL aL PR aR ud) * PR + gb AL BL (ppv PL aL PR aR ud) * PL - ud) /
      (gb AR BR (ppv PL aL PR aR ud) + gb AL BL (ppv PL aL PR aR ud))
      = (gb AL BL (ppv PL aL PR aR ud) * PL + gb AR BR (ppv PL aL PR aR ud) * PR - ud) /
      (gb AL BL (ppv PL aL PR aR ud) + gb AR BR (ppv PL aL PR aR ud)) := by
    rw [add_comm (gb AR BR _ * PR), add_comm (gb AR BR _)]
  rw [h4]

/-- exchanging the states and reversing the velocities: same `P*`, reversed `u*`, the sound
speeds and the two branches of the pressure function exchanged -/
theorem star_mirror (c : Consts ℝ) (nf bf : ℕ) (rhoL uL PL rhoR uR PR : ℝ) :
    (ExactRiemann.star c nf bf rhoR (-uR) PR rhoL (-uL) PL).pstar
      = (ExactRiemann.star c nf bf rhoL uL PL rhoR uR PR).pstar ∧
    (ExactRiemann.star c nf bf rhoR (-uR) PR rhoL (-uL) PL).ustar
      = -(ExactRiemann.star c nf bf rhoL uL PL rhoR uR PR).ustar ∧
    (ExactRiemann.star c nf bf rhoR (-uR) PR rhoL (-uL) PL).aL
      = (ExactRiemann.star c nf bf rhoL uL PL rhoR uR PR).aR ∧
    (ExactRiemann.star c nf bf rhoR (-uR) PR rhoL (-uL) PL).aR
      = (ExactRiemann.star c nf bf rhoL uL PL rhoR uR PR).aL := by
  have hd : -uL - -uR = uR - uL := by ring
  have hp : (ExactRiemann.star c nf bf rhoR (-uR) PR rhoL (-uL) PL).pstar
      = (ExactRiemann.star c nf bf rhoL uL PL rhoR uR PR).pstar := by
    unfold ExactRiemann.star
    simp only [hd, f_swap, fprime_swap, guessPT_swap]
  refine ⟨hp, ?_, rfl, rfl⟩
  have hu : ∀ (rL uL PL rR uR PR : ℝ), (ExactRiemann.star c nf bf rL uL PL rR uR PR).ustar
      = ustarOf uL uR
        (fb c PL (c.tdgp1 * (1.0 / rL)) (c.gm1dgp1 * PL) (1.0 / PL)
          (c.tdgm1 * soundspeed c (1.0 / rL) PL) (ExactRiemann.star c nf bf rL uL PL rR uR PR).pstar)
        (fb c PR (c.tdgp1 * (1.0 / rR)) (c.gm1dgp1 * PR) (1.0 / PR)
          (c.tdgm1 * soundspeed c (1.0 / rR) PR) (ExactRiemann.star c nf bf rL uL PL rR uR PR).pstar) :=
    fun _ _ _ _ _ _ => rfl
  rw [hu, hu, hp]
  unfold ustarOf
  rw [show (0.5 : ℝ) = 1 / 2 by norm_num]; ring

theorem sampleStar_mirror (c : Consts ℝ) (s s' : ExactRiemann.Star ℝ) (rhoL uL PL rhoR uR PR d : ℝ)
    (hp : s'.pstar = s.pstar) (hu : s'.ustar = -s.ustar) (haL : s'.aL = s.aR) (haR : s'.aR = s.aL)
    (h1 : d ≠ s.ustar) (h2 : d ≠ tailR c s.aR (1.0 / PR) s.ustar s.pstar)
    (h3 : d ≠ tailL c s.aL (1.0 / PL) s.ustar s.pstar) :
    (sampleStar c s' rhoR (-uR) PR rhoL (-uL) PL (-d)).1
      = -(sampleStar c s rhoL uL PL rhoR uR PR d).1 ∧
    (sampleStar c s' rhoR (-uR) PR rhoL (-uL) PL (-d)).2.MirrorOf
      (sampleStar c s rhoL uL PL rhoR uR PR d).2 := by
  have c1 : (-s.ustar < -d) ↔ (d < s.ustar) := by constructor <;> intro h <;> linarith
  unfold sampleStar
  simp only [not_isInf, or_self, if_false, hp, hu, haL, haR, c1]
  by_cases hlt : s.ustar < d
  · rw [if_pos hlt, if_neg (by linarith)]
    exact ⟨rfl, sampleLeftState_mirror c _ _ _ _ _ _ _ _ h2⟩
  · have : d < s.ustar := lt_of_le_of_ne (not_lt.mp hlt) h1
    rw [if_neg hlt, if_pos this]
    exact ⟨rfl, sampleRightState_mirror c _ _ _ _ _ _ _ _ h3⟩

/-- both `none`, or both `some` and mirror images of each other -/
def OptMirror : Option (Sample ℝ) → Option (Sample ℝ) → Prop
  | none, none => True
  | some a, some b => a.MirrorOf b
  | _, _ => False

theorem solveVacuum_mirror (G rhoL uL PL aL rhoR uR PR aR d : ℝ) (vL vR : Bool)
    (hne : vL = false → vR = false → (d < uR - tdgm1 G * aR ∨ uL + tdgm1 G * aL < d)) :
    (solveVacuum G rhoR (-uR) PR aR vR rhoL (-uL) PL aL vL (-d)).MirrorOf
      (solveVacuum G rhoL uL PL aL vL rhoR uR PR aR vR d) := by
  unfold solveVacuum
  cases vL <;> cases vR
  · simp only [Bool.and_self, Bool.false_eq_true, if_false]
    exact sampleVacuumGeneration_mirror G _ _ _ _ _ _ _ _ _ (hne rfl rfl)
  · simp only [Bool.and_true, Bool.and_false, Bool.false_eq_true, if_false, if_true]
    exact sampleLeftVacuum_mirror ..
  · simp only [Bool.and_true, Bool.and_false, Bool.false_eq_true, if_false, if_true]
    exact sampleRightVacuum_mirror ..
  · simp only [Bool.and_self, if_true]
    exact vacuumState_mirror ..

/-- mirror symmetry of the vacuum exits of `solve` (the only excluded point: both fan tails of a
generated vacuum exactly on `x/t`) -/
theorem solveIfVacuum_mirror (g rhoL uL PL rhoR uR PR d : ℝ)
    (hne : tdgm1 (effGamma g) * soundSpeed (effGamma g) (1.0 / rhoL) PL
        + tdgm1 (effGamma g) * soundSpeed (effGamma g) (1.0 / rhoR) PR ≤ uR - uL →
      (d < uR - tdgm1 (effGamma g) * soundSpeed (effGamma g) (1.0 / rhoR) PR ∨
        uL + tdgm1 (effGamma g) * soundSpeed (effGamma g) (1.0 / rhoL) PL < d)) :
    OptMirror (solveIfVacuum 0 g rhoR (-uR) PR rhoL (-uL) PL (-d))
      (solveIfVacuum 0 g rhoL uL PL rhoR uR PR d) := by
  have hd : -uL - -uR = uR - uL := by ring
  unfold solveIfVacuum
  simp only [hd]
  generalize isVacuum 0 rhoL rhoL PL PL = vL at *
  generalize isVacuum 0 rhoR rhoR PR PR = vR at *
  cases vL <;> cases vR
  · simp only [Bool.or_self, Bool.false_eq_true, if_false]
    rw [add_comm (tdgm1 (effGamma g) * soundSpeed (effGamma g) (1.0 / rhoR) PR)]
    split_ifs with h
    · exact solveVacuum_mirror _ _ _ _ _ _ _ _ _ _ false false (fun _ _ => hne h)
    · trivial
  · simp only [Bool.or_true, Bool.true_or, Bool.false_eq_true, if_true, if_false]
    exact solveVacuum_mirror _ _ _ _ _ _ _ _ _ _ false true (fun _ h => absurd h (by decide))
  · simp only [Bool.or_false, Bool.or_true, Bool.false_eq_true, if_true, if_false]
    exact solveVacuum_mirror _ _ _ _ _ _ _ _ _ _ true false (fun h => absurd h (by decide))
  · simp only [Bool.or_self, if_true]
    exact solveVacuum_mirror _ _ _ _ _ _ _ _ _ _ true true (fun h => absurd h (by decide))

/-- The sampling speed `d` does not sit *exactly* on one of the three points where the two
orientations of the problem evaluate different (adjoining) formulas: the contact `u*`, the tail of
a rarefaction fan next to the star region, or — in the vacuum-generation regime — both vacuum
fronts at once.  (At the contact the two sides have different densities: the 1D state is
genuinely two-valued there; at a fan tail fan formula and star state agree as far as the root
finder has converged.) -/
def MirrorTieFree (g : ℝ) (nf bf : ℕ) (rhoL uL PL rhoR uR PR d : ℝ) : Prop :=
  (tdgm1 (effGamma g) * soundSpeed (effGamma g) (1.0 / rhoL) PL
        + tdgm1 (effGamma g) * soundSpeed (effGamma g) (1.0 / rhoR) PR ≤ uR - uL →
      (d < uR - tdgm1 (effGamma g) * soundSpeed (effGamma g) (1.0 / rhoR) PR ∨
        uL + tdgm1 (effGamma g) * soundSpeed (effGamma g) (1.0 / rhoL) PL < d)) ∧
  d ≠ (ExactRiemann.star (mkConsts g) nf bf rhoL uL PL rhoR uR PR).ustar ∧
  d ≠ tailR (mkConsts g) (ExactRiemann.star (mkConsts g) nf bf rhoL uL PL rhoR uR PR).aR (1.0 / PR)
        (ExactRiemann.star (mkConsts g) nf bf rhoL uL PL rhoR uR PR).ustar
        (ExactRiemann.star (mkConsts g) nf bf rhoL uL PL rhoR uR PR).pstar ∧
  d ≠ tailL (mkConsts g) (ExactRiemann.star (mkConsts g) nf bf rhoL uL PL rhoR uR PR).aL (1.0 / PL)
        (ExactRiemann.star (mkConsts g) nf bf rhoL uL PL rhoR uR PR).ustar
        (ExactRiemann.star (mkConsts g) nf bf rhoL uL PL rhoR uR PR).pstar

/-- **mirror symmetry of `ExactRiemannSolver::solve`** (vacuum exits and iterative path, every
sampling speed off the ties, every fuel): exchanging the states, reversing the velocities and the
sampling speed gives the mirror image (same `ρ, P`, reversed velocity, negated flag). -/
theorem solve1D_mirror (g : ℝ) (nf bf : ℕ) (rhoL uL PL rhoR uR PR d : ℝ)
    (ht : MirrorTieFree g nf bf rhoL uL PL rhoR uR PR d) :
    (solve1D 0 g nf bf rhoR (-uR) PR rhoL (-uL) PL (-d)).MirrorOf
      (solve1D 0 g nf bf rhoL uL PL rhoR uR PR d) := by
  obtain ⟨t0, t1, t2, t3⟩ := ht
  have hv := solveIfVacuum_mirror g rhoL uL PL rhoR uR PR d t0
  unfold solve1D ExactRiemann.solve
  cases h1 : solveIfVacuum 0 g rhoL uL PL rhoR uR PR d with
  | some v =>
    cases h2 : solveIfVacuum 0 g rhoR (-uR) PR rhoL (-uL) PL (-d) with
    | some v' =>
      rw [h1, h2] at hv
      exact hv
    | none => rw [h1, h2] at hv; exact absurd hv (by simp [OptMirror])
  | none =>
    cases h2 : solveIfVacuum 0 g rhoR (-uR) PR rhoL (-uL) PL (-d) with
    | some v' => rw [h1, h2] at hv; exact absurd hv (by simp [OptMirror])
    | none =>
      obtain ⟨m1, m2, m3, m4⟩ := star_mirror (mkConsts g) nf bf rhoL uL PL rhoR uR PR
      obtain ⟨r1, r2, r3, r4⟩ := sampleStar_mirror (mkConsts g)
        (ExactRiemann.star (mkConsts g) nf bf rhoL uL PL rhoR uR PR)
        (ExactRiemann.star (mkConsts g) nf bf rhoR (-uR) PR rhoL (-uL) PL)
        rhoL uL PL rhoR uR PR d m1 m2 m3 m4 t1 t2 t3
      exact ⟨r2, r3, r4, r1⟩

/-- the flags `solve` returns -/
theorem solve1D_flag (g : ℝ) (nf bf : ℕ) (rhoL uL PL rhoR uR PR d : ℝ) :
    (solve1D 0 g nf bf rhoL uL PL rhoR uR PR d).FlagOk := by
  unfold solve1D ExactRiemann.solve Sample.FlagOk
  cases h1 : solveIfVacuum 0 g rhoL uL PL rhoR uR PR d with
  | some v =>
    simp only
    unfold solveIfVacuum at h1
    have key : ∀ a1 a2 b1 b2, (solveVacuum (effGamma g) rhoL uL PL a1 b1 rhoR uR PR a2 b2 d).FlagOk := by
      intro a1 a2 b1 b2
      unfold solveVacuum
      split_ifs
      · unfold vacuumState Sample.FlagOk; simp
      · exact sampleRightVacuum_flag ..
      · exact sampleLeftVacuum_flag ..
      · exact sampleVacuumGeneration_flag ..
    simp only at h1
    split_ifs at h1 <;> (cases h1; exact key _ _ _ _)
  | none =>
    simp only
    rcases sampleStar_flag (mkConsts g) (ExactRiemann.star (mkConsts g) nf bf rhoL uL PL rhoR uR PR)
      rhoL uL PL rhoR uR PR d with h | h
    · exact Or.inr (Or.inr h)
    · exact Or.inl h

/-! ### flux level -/

/-- on the inputs for which `solve` takes a vacuum exit the complete model is the vacuum model -/
theorem solveForFlux_vacuum (g : ℝ) (nf bf : ℕ) (rhoL PL rhoR PR : ℝ) (uL uR n vf : V3 ℝ)
    (F : Flux ℝ) (h : solveForFluxIfVacuum 0 g rhoL uL PL rhoR uR PR n vf = some F) :
    (solveForFlux 0 g nf bf rhoL uL PL rhoR uR PR n vf).m = F.m ∧
    (solveForFlux 0 g nf bf rhoL uL PL rhoR uR PR n vf).p = F.p ∧
    (solveForFlux 0 g nf bf rhoL uL PL rhoR uR PR n vf).e = F.e := by
  unfold solveForFluxIfVacuum at h
  unfold solveForFlux fluxWith solve1D ExactRiemann.solve
  simp only at h ⊢
  cases hv : solveIfVacuum 0 g rhoL (faceFrame uL uR n vf).vL PL rhoR (faceFrame uL uR n vf).vR PR 0.0 with
  | none => rw [hv] at h; exact absurd h (by simp)
  | some v =>
    rw [hv] at h
    simp only [Option.some.injEq] at h
    rw [← h]
    unfold fluxFromSample
    simp only
    split_ifs <;> exact ⟨rfl, rfl, rfl⟩

theorem solveForFlux_boost (g : ℝ) (nf bf : ℕ) (rhoL PL rhoR PR : ℝ) (uL uR n vf w : V3 ℝ) :
    solveForFlux 0 g nf bf rhoL (uL.add w) PL rhoR (uR.add w) PR n (vf.add w)
      = (solveForFlux 0 g nf bf rhoL uL PL rhoR uR PR n vf).boost w := by
  unfold solveForFlux; exact fluxWith_boost ..

theorem solveForFlux_mirror (g : ℝ) (nf bf : ℕ) (rhoL PL rhoR PR : ℝ) (uL uR n vf : V3 ℝ)
    (ht : MirrorTieFree g nf bf rhoL (faceFrame uL uR n vf).vL PL rhoR (faceFrame uL uR n vf).vR PR 0) :
    (solveForFlux 0 g nf bf rhoR uR PR rhoL uL PL n.neg vf).NegOf
      (solveForFlux 0 g nf bf rhoL uL PL rhoR uR PR n vf) := by
  unfold solveForFlux
  have hm := solve1D_mirror g nf bf rhoL (faceFrame uL uR n vf).vL PL rhoR (faceFrame uL uR n vf).vR PR 0 ht
  rw [neg_zero] at hm
  refine fluxWith_mirror _ _ _ _ _ _ _ _ _ _ ?_ ?_
  · simp only [lit0]; exact hm
  · exact solve1D_flag ..

/-- the driver's entry point is the model -/
theorem solveForFluxS_snd (ovf g : ℝ) (nf bf : ℕ) (rhoL PL rhoR PR : ℝ) (uL uR n vf : V3 ℝ) :
    (solveForFluxS ovf g nf bf rhoL uL PL rhoR uR PR n vf).2
      = solveForFlux ovf g nf bf rhoL uL PL rhoR uR PR n vf := rfl

/-! ### a contact at rest on the face -/

/-- a sampled state whose normal velocity vanishes in the frame of the face carries no mass, and
only the work of the pressure on the moving face as energy (unit normal) -/
theorem fluxFromSample_at_rest (G : ℝ) (s : Sample ℝ) (f : FaceFrame ℝ) (n vf : V3 ℝ)
    (hn : n.norm2 = 1) (hu : s.u = 0) (hfl : s.flag ≠ 0)
    (hvL : f.vL = f.uLface.dot n) (hvR : f.vR = f.uRface.dot n) :
    (fluxFromSample G s f n vf).m = 0 ∧
    (fluxFromSample G s f n vf).e = vf.dot (fluxFromSample G s f n vf).p := by
  have key : ∀ (uf : V3 ℝ) (v : ℝ), v = uf.dot n → (uf.add (n.smul (s.u - v))).dot n = 0 := by
    intro uf v hv
    rw [hu, hv]
    simp only [V3.dot, V3.add, V3.smul, V3.norm2] at hn ⊢
    linear_combination (-(uf.x * n.x + uf.y * n.y + uf.z * n.z)) * hn
  unfold fluxFromSample
  rw [if_pos hfl]
  by_cases h : s.flag = -1
  · simp only [h, if_true, key f.uLface f.vL hvL]
    unfold deboost
    simp only [V3.dot, V3.add, V3.smul, V3.norm2, lit05, mul_zero]
    constructor
    · trivial
    · ring
  · simp only [h, if_false, key f.uRface f.vR hvR]
    unfold deboost
    simp only [V3.dot, V3.add, V3.smul, V3.norm2, lit05, mul_zero]
    constructor
    · trivial
    · ring

/-- mirror-image states: the star velocity the exact solver computes is exactly 0, whatever
pressure the root finder returns -/
theorem star_mirror_states (c : Consts ℝ) (nf bf : ℕ) (rho v P : ℝ) :
    (ExactRiemann.star c nf bf rho v P rho (-v) P).ustar = 0 := by
  have h := (star_mirror c nf bf rho v P rho (-v) P).2.1
  rw [neg_neg] at h
  linarith

end CMacVerif.ExactFlux
