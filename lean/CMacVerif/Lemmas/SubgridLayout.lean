import CMacVerif.Model.SubgridLayout
import CMacVerif.Model.Handover
import Mathlib.Tactic.Ring
import Mathlib.Tactic.Linarith
import Mathlib.Algebra.Order.Ring.Nat
import Mathlib.Algebra.Order.Ring.Int
import Mathlib.Tactic.Positivity
import Mathlib.Tactic.NormNum
import Mathlib.Tactic.FieldSimp
import Mathlib.Tactic.NormNum.OfScientific
import Mathlib.Algebra.Field.Basic
import Mathlib.Algebra.Group.Basic
/-!
# Lemmas for C03 (subgrid layout, copies, fold)

Helper lemmas behind `Props/C03.lean`:
grid position <-> index (div/mod), the periodic wrap of one axis, the neighbour loop as a fold of
table writes, the prefix-sum structure of `_copies` / `_originals`, the arithmetic of the copy wiring,
and the fold walk.
-/
set_option linter.unnecessarySeqFocus false
set_option linter.unusedTactic false
set_option linter.unreachableTactic false
open CMacVerif.SubgridLayout CMacVerif.Handover CMacVerif.Gen.TravelDirections
namespace CMacVerif.SubgridLayout

/-! ## grid position, axis wrap, neighbour loop -/


theorem gridPosition_fst (L : Layout) (s : Nat) : (gridPosition L s).1 = s / (L.ny * L.nz) := rfl

theorem sub_div_mul (s P : Nat) : s - s / P * P = s % P := by
  have := Nat.div_add_mod s P
  have h2 : P * (s / P) = s / P * P := Nat.mul_comm _ _
  omega

theorem gridPosition_eq (L : Layout) (s : Nat) :
    gridPosition L s = (s / (L.ny * L.nz), s % (L.ny * L.nz) / L.nz, s % (L.ny * L.nz) % L.nz) := by
  unfold gridPosition
  simp only [Nat.mul_assoc, sub_div_mul]

theorem gridPosition_lt (L : Layout) (s : Nat) (hs : s < L.size) :
    (gridPosition L s).1 < L.nx ∧ (gridPosition L s).2.1 < L.ny ∧ (gridPosition L s).2.2 < L.nz := by
  rw [gridPosition_eq]
  unfold Layout.size at hs
  have hP : 0 < L.ny * L.nz := by
    rcases Nat.eq_zero_or_pos (L.ny * L.nz) with h | h
    · rw [Nat.mul_assoc, h] at hs; simp at hs
    · exact h
  have hnz : 0 < L.nz := Nat.pos_of_mul_pos_left hP  
  refine ⟨?_, ?_, ?_⟩
  · exact Nat.div_lt_of_lt_mul (by rw [Nat.mul_comm, ← Nat.mul_assoc]; exact hs)
  · exact Nat.div_lt_of_lt_mul (by rw [Nat.mul_comm L.nz]; exact Nat.mod_lt _ hP)
  · exact Nat.mod_lt _ hnz

theorem indexOf_gridPosition (L : Layout) (s : Nat) :
    indexOf L (gridPosition L s).1 (gridPosition L s).2.1 (gridPosition L s).2.2 = s := by
  rw [gridPosition_eq]; unfold indexOf
  have h1 := Nat.div_add_mod s (L.ny * L.nz)
  have h2 := Nat.div_add_mod (s % (L.ny * L.nz)) L.nz
  have e1 : s / (L.ny * L.nz) * L.ny * L.nz = L.ny * L.nz * (s / (L.ny * L.nz)) := by ring
  have e2 : s % (L.ny * L.nz) / L.nz * L.nz = L.nz * (s % (L.ny * L.nz) / L.nz) := by ring
  simp only [] 
  omega

theorem gridPosition_indexOf (L : Layout) (x y z : Nat) (hy : y < L.ny) (hz : z < L.nz) :
    gridPosition L (indexOf L x y z) = (x, y, z) := by
  rw [gridPosition_eq]; unfold indexOf
  have hP : 0 < L.ny * L.nz := Nat.mul_pos (by omega) (by omega)
  have hr : y * L.nz + z < L.ny * L.nz := by
    have : (y + 1) * L.nz ≤ L.ny * L.nz := Nat.mul_le_mul_right _ hy
    have e : (y + 1) * L.nz = y * L.nz + L.nz := by ring
    omega
  have e : x * L.ny * L.nz + y * L.nz + z = (y * L.nz + z) + L.ny * L.nz * x := by ring
  rw [e, Nat.add_mul_div_left _ _ hP, Nat.add_mul_mod_self_left, Nat.div_eq_of_lt hr, Nat.mod_eq_of_lt hr]
  have e2 : y * L.nz + z = z + L.nz * y := by ring
  rw [e2, Nat.add_mul_div_left _ _ (by omega), Nat.add_mul_mod_self_left, Nat.div_eq_of_lt hz, Nat.mod_eq_of_lt hz]
  simp

theorem indexOf_lt (L : Layout) (x y z : Nat) (hx : x < L.nx) (hy : y < L.ny) (hz : z < L.nz) :
    indexOf L x y z < L.size := by
  unfold indexOf Layout.size
  have h1 : (x + 1) * (L.ny * L.nz) ≤ L.nx * (L.ny * L.nz) := Nat.mul_le_mul_right _ hx
  have h2 : (y + 1) * L.nz ≤ L.ny * L.nz := Nat.mul_le_mul_right _ hy
  have e1 : (x + 1) * (L.ny * L.nz) = x * L.ny * L.nz + L.ny * L.nz := by ring
  have e2 : (y + 1) * L.nz = y * L.nz + L.nz := by ring
  have e3 : L.nx * L.ny * L.nz = L.nx * (L.ny * L.nz) := by ring
  omega


def geomAxis (p : Bool) (n : Nat) (c : Int) : Option Nat :=
  if 0 ≤ c ∧ c < (n : Int) then some c.toNat else if p then some (c % (n : Int)).toNat else none

theorem axisStep_false (n i : Nat) (a : Int) :
    axisStep false n i a = if 0 ≤ (i : Int) + a ∧ (i : Int) + a < (n : Int) then some ((i : Int) + a).toNat else none := by
  simp [axisStep, wrapAxis]

theorem axisStep_true (n i : Nat) (a : Int) :
    axisStep true n i a =
      if (i : Int) + a < 0 then (if (1 : Int) ≤ n then some (n - 1) else none)
      else if (n : Int) ≤ (i : Int) + a then (if (0 : Int) < n then some 0 else none)
      else some ((i : Int) + a).toNat := by
  simp only [axisStep, wrapAxis, if_true]
  split_ifs <;> first | rfl | omega | (congr 1; omega)

theorem neg_one_emod (n : Nat) (hn : 0 < n) : (-1 : Int) % (n : Int) = (n : Int) - 1 := by
  have h : (-1 : Int) / (n : Int) = -1 := Int.ediv_eq_neg_one_of_neg_of_le (by decide) (by omega)
  rw [Int.emod_def, h]; ring

theorem axisStep_geom (p : Bool) (n i : Nat) (a : Int) (hi : i < n) (ha : a = -1 ∨ a = 0 ∨ a = 1) :
    axisStep p n i a = geomAxis p n ((i : Int) + a) := by
  have hn : 0 < n := by omega
  rcases p with _ | _
  · rw [axisStep_false]; simp [geomAxis]
  · rw [axisStep_true]; unfold geomAxis
    by_cases h1 : (i : Int) + a < 0
    · have e : (i : Int) + a = -1 := by omega
      rw [e, neg_one_emod n hn]
      simp; omega
    · by_cases h2 : (n : Int) ≤ (i : Int) + a
      · have e : (i : Int) + a = (n : Int) := by omega
        rw [e, Int.emod_self]
        simp
        split_ifs <;> first | rfl | omega
      · simp [h1, h2]

theorem axisStep_lt (p : Bool) (n i : Nat) (a : Int) (x : Nat) (h : axisStep p n i a = some x) : x < n := by
  rcases p with _ | _
  · rw [axisStep_false] at h; split_ifs at h with hw; injection h with h; omega
  · rw [axisStep_true] at h; split_ifs at h <;> (injection h with h; omega)

theorem axisStep_mutual (p : Bool) (n i : Nat) (a : Int) (x : Nat) (hi : i < n)
    (ha : a = -1 ∨ a = 0 ∨ a = 1) (h : axisStep p n i a = some x) :
    axisStep p n x (-a) = some i := by
  rcases p with _ | _
  · rw [axisStep_false] at h ⊢
    split_ifs at h with hw; injection h with h
    split_ifs <;> first | (congr 1; omega)
  · rw [axisStep_true] at h ⊢
    split_ifs at h <;> injection h with h <;> (split_ifs <;> first | (congr 1; omega))


section fold
variable {β : Type} (key : β → Nat) (val : β → Option Nat)

def setStep (t : List (Option Nat)) (o : β) : List (Option Nat) :=
  match val o with
  | some j => t.set (key o) (some j)
  | none => t

theorem setStep_length (t : List (Option Nat)) (o : β) : (setStep key val t o).length = t.length := by
  unfold setStep; split <;> simp

theorem setStep_getD_ne (t : List (Option Nat)) (o : β) (k : Nat) (h : key o ≠ k) :
    (setStep key val t o).getD k none = t.getD k none := by
  unfold setStep; split
  · simp [List.getD_eq_getElem?_getD, List.getElem?_set_ne h]
  · rfl

theorem foldl_setStep_getD_notin (l : List β) (t : List (Option Nat)) (k : Nat) (h : k ∉ l.map key) :
    (l.foldl (setStep key val) t).getD k none = t.getD k none := by
  induction l generalizing t with
  | nil => rfl
  | cons b bs ih =>
    simp only [List.map_cons, List.mem_cons, not_or] at h
    rw [List.foldl_cons, ih _ h.2, setStep_getD_ne key val t b k (Ne.symm h.1)]

theorem foldl_setStep_length (l : List β) (t : List (Option Nat)) :
    (l.foldl (setStep key val) t).length = t.length := by
  induction l generalizing t with
  | nil => rfl
  | cons b bs ih => rw [List.foldl_cons, ih, setStep_length]

theorem foldl_setStep_getD (l : List β) (t : List (Option Nat)) (hnd : (l.map key).Nodup)
    (o : β) (ho : o ∈ l) (hk : key o < t.length) :
    (l.foldl (setStep key val) t).getD (key o) none = (val o).or (t.getD (key o) none) := by
  induction l generalizing t with
  | nil => cases ho
  | cons b bs ih =>
    rw [List.map_cons, List.nodup_cons] at hnd
    rw [List.foldl_cons]
    rcases List.mem_cons.mp ho with rfl | hin
    · rw [foldl_setStep_getD_notin key val bs _ _ hnd.1]
      unfold setStep
      cases hv : val o with
      | none => simp
      | some j => simp [List.getD_eq_getElem?_getD, hk]
    · have hne : key b ≠ key o := fun e => hnd.1 (e ▸ List.mem_map_of_mem hin)
      rw [ih _ hnd.2 hin (by rw [setStep_length]; exact hk), setStep_getD_ne key val t b _ hne]
end fold

/-! ### table facts used as lemmas -/
theorem outToIn_lt : ∀ d, d < 27 → outToInDir d < 27 := by decide
theorem offset_outToIn : ∀ d, d < 27 →
    offsetOf (outToInDir d) = (-(offsetOf d).1, -(offsetOf d).2.1, -(offsetOf d).2.2) := by decide
theorem dirOfOffset_offsetOf : ∀ d, d < 27 → dirOfOffset (offsetOf d) = d := by decide
theorem loopOffsets_nodup : (loopOffsets.map dirOfOffset).Nodup := by decide
theorem offsetOf_mem : ∀ d, d < 27 → offsetOf d ∈ loopOffsets := by decide
theorem loopOffsets_small : ∀ o ∈ loopOffsets,
    (o.1 = -1 ∨ o.1 = 0 ∨ o.1 = 1) ∧ (o.2.1 = -1 ∨ o.2.1 = 0 ∨ o.2.1 = 1) ∧ (o.2.2 = -1 ∨ o.2.2 = 0 ∨ o.2.2 = 1) := by decide
theorem offsetOf_small (d : Nat) (hd : d < 27) :
    ((offsetOf d).1 = -1 ∨ (offsetOf d).1 = 0 ∨ (offsetOf d).1 = 1) ∧ ((offsetOf d).2.1 = -1 ∨ (offsetOf d).2.1 = 0 ∨ (offsetOf d).2.1 = 1)
      ∧ ((offsetOf d).2.2 = -1 ∨ (offsetOf d).2.2 = 0 ∨ (offsetOf d).2.2 = 1) :=
  loopOffsets_small _ (offsetOf_mem d hd)
theorem dirOfOffset_lt : ∀ o ∈ loopOffsets, dirOfOffset o < 27 := by decide

/-! ### `get_output_direction` on the scaled offsets of `create_subgrid` -/
theorem scaled_low (a : Int) (m : Nat) (hm : 0 < m) (ha : a = -1 ∨ a = 0 ∨ a = 1) :
    decide (a * (m : Int) < 0) = decide (a < 0) := by
  have : (0 : Int) < m := by omega
  rcases ha with rfl | rfl | rfl <;> simp; omega

theorem scaled_high (a : Int) (m : Nat) (hm : 0 < m) (_ha : a = -1 ∨ a = 0 ∨ a = 1) :
    decide ((a * (m : Int)).tdiv (m : Int) > 0) = decide (a > 0) := by
  have : (m : Int) ≠ 0 := by omega
  rw [Int.mul_tdiv_cancel _ this]

theorem outputDirection_scaled (L : Layout) (hx : 0 < L.mx) (hy : 0 < L.my) (hz : 0 < L.mz)
    (o : Int × Int × Int) (ho : o ∈ loopOffsets) :
    (outputDirection L.cells (o.1 * L.mx, o.2.1 * L.my, o.2.2 * L.mz)).toNat = dirOfOffset o := by
  obtain ⟨h1, h2, h3⟩ := loopOffsets_small o ho
  unfold outputDirection dirOfOffset maskOf maskOfOffset Layout.cells
  simp only [scaled_low _ _ hx h1, scaled_low _ _ hy h2, scaled_low _ _ hz h3,
    scaled_high _ _ hx h1, scaled_high _ _ hy h2, scaled_high _ _ hz h3]

theorem foldl_ext_mem {α β : Type} (f g : α → β → α) (l : List β) (a : α)
    (H : ∀ a : α, ∀ b ∈ l, f a b = g a b) : l.foldl f a = l.foldl g a := by
  induction l generalizing a with
  | nil => rfl
  | cons b bs ih =>
    rw [List.foldl_cons, List.foldl_cons, H a b (List.mem_cons_self ..)]
    exact ih _ (fun a c hc => H a c (List.mem_cons_of_mem _ hc))

theorem getD_replicate_none (n d : Nat) : (List.replicate n (none : Option Nat)).getD d none = none := by
  rw [List.getD_eq_getElem?_getD, List.getElem?_replicate]; split <;> rfl

theorem createSubgrid_eq (L : Layout) (hx : 0 < L.mx) (hy : 0 < L.my) (hz : 0 < L.mz) (s : Nat) :
    createSubgrid L s = loopOffsets.foldl (setStep dirOfOffset (ngbAt L s)) (List.replicate 27 none) := by
  unfold createSubgrid
  apply foldl_ext_mem
  intro t o ho
  unfold setStep
  rw [outputDirection_scaled L hx hy hz o ho]
  cases ngbAt L s o <;> rfl

/-- the table entry of direction `d` is the body of the neighbour loop evaluated at the offset of `d` -/
theorem ngb_eq_ngbAt (L : Layout) (hx : 0 < L.mx) (hy : 0 < L.my) (hz : 0 < L.mz) (s d : Nat) (hd : d < 27) :
    ngb L s d = ngbAt L s (offsetOf d) := by
  unfold ngb
  rw [createSubgrid_eq L hx hy hz]
  have h := foldl_setStep_getD dirOfOffset (ngbAt L s) loopOffsets (List.replicate 27 none) loopOffsets_nodup
    (offsetOf d) (offsetOf_mem d hd) (by rw [dirOfOffset_offsetOf d hd]; simpa using hd)
  rw [dirOfOffset_offsetOf d hd] at h
  rw [h, getD_replicate_none]; cases ngbAt L s (offsetOf d) <;> rfl

theorem createSubgrid_length (L : Layout) (hx : 0 < L.mx) (hy : 0 < L.my) (hz : 0 < L.mz) (s : Nat) :
    (createSubgrid L s).length = 27 := by
  rw [createSubgrid_eq L hx hy hz, foldl_setStep_length]; simp

/-- the neighbour of `s` in direction `d` as geometry defines it: the subgrid at `pos s + offset d`,
taken modulo the layout on periodic axes; nothing if that falls outside on a non-periodic axis -/
def geomNeighbour (L : Layout) (s d : Nat) : Option Nat :=
  let p := gridPosition L s
  let o := offsetOf d
  combine L (geomAxis L.px L.nx ((p.1 : Int) + o.1)) (geomAxis L.py L.ny ((p.2.1 : Int) + o.2.1))
    (geomAxis L.pz L.nz ((p.2.2 : Int) + o.2.2))

theorem ngbAt_geom (L : Layout) (s d : Nat) (hs : s < L.size) (hd : d < 27) :
    ngbAt L s (offsetOf d) = geomNeighbour L s d := by
  obtain ⟨h1, h2, h3⟩ := gridPosition_lt L s hs
  obtain ⟨o1, o2, o3⟩ := offsetOf_small d hd
  unfold ngbAt geomNeighbour
  simp only [axisStep_geom _ _ _ _ h1 o1, axisStep_geom _ _ _ _ h2 o2, axisStep_geom _ _ _ _ h3 o3]

/-- what `ngbAt … = some t` means, axis by axis -/
theorem ngbAt_some (L : Layout) (s : Nat) (o : Int × Int × Int) (t : Nat) (h : ngbAt L s o = some t) :
    ∃ x y z, axisStep L.px L.nx (gridPosition L s).1 o.1 = some x ∧ axisStep L.py L.ny (gridPosition L s).2.1 o.2.1 = some y
      ∧ axisStep L.pz L.nz (gridPosition L s).2.2 o.2.2 = some z ∧ t = indexOf L x y z := by
  unfold ngbAt at h
  simp only [] at h
  cases hx : axisStep L.px L.nx (gridPosition L s).1 o.1 with
  | none => rw [hx] at h; simp [combine] at h
  | some x =>
    cases hy : axisStep L.py L.ny (gridPosition L s).2.1 o.2.1 with
    | none => rw [hx, hy] at h; simp [combine] at h
    | some y =>
      cases hz : axisStep L.pz L.nz (gridPosition L s).2.2 o.2.2 with
      | none => rw [hx, hy, hz] at h; simp [combine] at h
      | some z =>
        rw [hx, hy, hz] at h; simp only [combine] at h
        injection h with h
        exact ⟨x, y, z, rfl, rfl, rfl, h.symm⟩

theorem ngbAt_mutual (L : Layout) (s : Nat) (hs : s < L.size) (o : Int × Int × Int)
    (ho : (o.1 = -1 ∨ o.1 = 0 ∨ o.1 = 1) ∧ (o.2.1 = -1 ∨ o.2.1 = 0 ∨ o.2.1 = 1) ∧ (o.2.2 = -1 ∨ o.2.2 = 0 ∨ o.2.2 = 1))
    (t : Nat) (h : ngbAt L s o = some t) :
    t < L.size ∧ ngbAt L t (-o.1, -o.2.1, -o.2.2) = some s := by
  obtain ⟨x, y, z, hx, hy, hz, rfl⟩ := ngbAt_some L s o t h
  obtain ⟨h1, h2, h3⟩ := gridPosition_lt L s hs
  have lx := axisStep_lt _ _ _ _ _ hx
  have ly := axisStep_lt _ _ _ _ _ hy
  have lz := axisStep_lt _ _ _ _ _ hz
  refine ⟨indexOf_lt L x y z lx ly lz, ?_⟩
  unfold ngbAt
  rw [gridPosition_indexOf L x y z ly lz]
  simp only [axisStep_mutual _ _ _ _ _ h1 ho.1 hx, axisStep_mutual _ _ _ _ _ h2 ho.2.1 hy,
    axisStep_mutual _ _ _ _ _ h3 ho.2.2 hz, combine, indexOf_gridPosition]

/-! ## first loop of create_copies -/


/-- number of copies created for the first `t` subgrids -/
def pre (levels : List Nat) (t : Nat) : Nat := ((levels.take t).map (fun l => nCopies l - 1)).sum

theorem pre_zero (ls : List Nat) : pre ls 0 = 0 := by simp [pre]
theorem pre_cons_succ (l : Nat) (ls : List Nat) (t : Nat) : pre (l :: ls) (t + 1) = (nCopies l - 1) + pre ls t := by
  simp [pre]

theorem pre_succ (ls : List Nat) (t : Nat) (ht : t < ls.length) :
    pre ls (t + 1) = pre ls t + (nCopies (ls.getD t 0) - 1) := by
  induction ls generalizing t with
  | nil => simp at ht
  | cons l ls ih =>
    cases t with
    | zero => simp [pre]
    | succ t =>
      rw [pre_cons_succ, pre_cons_succ, ih t (by simpa using ht)]
      simp only [List.getD_cons_succ]; omega

theorem pre_mono (ls : List Nat) (a b : Nat) (h : a ≤ b) : pre ls a ≤ pre ls b := by
  induction ls generalizing a b with
  | nil => simp [pre]
  | cons l ls ih =>
    cases a with
    | zero => simp [pre]
    | succ a =>
      cases b with
      | zero => omega
      | succ b => rw [pre_cons_succ, pre_cons_succ]; have := ih a b (by omega); omega

theorem pre_ge_length (ls : List Nat) (t : Nat) (h : ls.length ≤ t) : pre ls t = pre ls ls.length := by
  unfold pre; rw [List.take_of_length_le h, List.take_of_length_le (Nat.le_refl _)]

theorem buildBlocks_length {β : Type} (g : Nat → Nat → β) (i : Nat) (ls : List Nat) :
    (buildBlocks g i ls).length = pre ls ls.length := by
  induction ls generalizing i with
  | nil => simp [buildBlocks, pre]
  | cons l ls ih =>
    simp only [buildBlocks, List.length_append, List.length_map, List.length_range', ih, List.length_cons, pre_cons_succ]

theorem buildBlocks_getElem? {β : Type} (g : Nat → Nat → β) (i : Nat) (ls : List Nat) (t c : Nat)
    (ht : t < ls.length) (hc : c < nCopies (ls.getD t 0) - 1) :
    (buildBlocks g i ls)[pre ls t + c]? = some (g (i + t) (1 + c)) := by
  induction ls generalizing i t with
  | nil => simp at ht
  | cons l ls ih =>
    cases t with
    | zero =>
      simp only [List.getD_cons_zero] at hc
      simp only [buildBlocks, pre_zero, Nat.zero_add, Nat.add_zero]
      rw [List.getElem?_append_left (by simpa using hc)]
      simp [hc]
    | succ t =>
      simp only [List.getD_cons_succ] at hc
      simp only [buildBlocks, pre_cons_succ]
      rw [List.getElem?_append_right (by simp; omega)]
      have e : nCopies l - 1 + pre ls t + c - (List.map (g i) (List.range' 1 (nCopies l - 1))).length = pre ls t + c := by
        simp; omega
      rw [e, ih (i + 1) t (by simpa using ht) hc]
      congr 2; omega

theorem buildCopies_length (size : Nat) (prev ls : List Nat) : (buildCopies size prev ls).length = ls.length := by
  induction ls generalizing size prev with
  | nil => rfl
  | cons l ls ih => simp [buildCopies, ih]

theorem tail_getD (prev : List Nat) (t d : Nat) : prev.tail.getD t d = prev.getD (t + 1) d := by
  cases prev <;> simp

theorem buildCopies_getD (size : Nat) (prev ls : List Nat) (t : Nat) (ht : t < ls.length) :
    (buildCopies size prev ls).getD t 0 =
      if nCopies (ls.getD t 0) > 1 then size + pre ls t else prev.getD t noCopy := by
  induction ls generalizing size prev t with
  | nil => simp at ht
  | cons l ls ih =>
    cases t with
    | zero =>
      simp only [buildCopies, List.getD_cons_zero, pre_zero, Nat.add_zero]
      cases prev <;> simp
    | succ t =>
      simp only [buildCopies, List.getD_cons_succ, pre_cons_succ]
      rw [ih _ _ t (by simpa using ht), tail_getD]
      split_ifs <;> omega

theorem nCopies_pos (l : Nat) : 0 < nCopies l := Nat.pow_pos (by decide)

/-! ## second loop of create_copies -/



theorem nCopies_add (a b : Nat) : nCopies (a + b) = nCopies a * nCopies b := by
  unfold nCopies; exact Nat.pow_add 2 a b

/-- arithmetic content of the second loop of `create_copies`: the entry of copy `k` of `s` for a
direction in which the original has the neighbour `t` is member `c` of the family of `t`, `c` in range -/
theorem copyEntry_spec (levels copies : List Nat) (orig : Nat → Nat → Option Nat) (s k d t : Nat)
    (hd : d ≠ 0) (ht : orig s d = some t) (hk1 : 1 ≤ k) (hk : k < nCopies (levels.getD s 0)) :
    ∃ c, c < nCopies (levels.getD t 0) ∧ copyEntry levels copies orig s k d = some (member copies t c) := by
  unfold copyEntry
  simp only [hd, ↓reduceIte, ht]
  by_cases heq : levels.getD t 0 = levels.getD s 0
  · simp only [heq, ↓reduceIte]
    refine ⟨k, hk, ?_⟩
    unfold member; rw [if_neg (by omega)]
  · simp only [heq, ↓reduceIte]
    by_cases hgt : levels.getD s 0 > levels.getD t 0
    · simp only [hgt, ↓reduceIte]
      have hsplit : nCopies (levels.getD s 0) = nCopies (levels.getD t 0) * 2 ^ (levels.getD s 0 - levels.getD t 0) := by
        have : levels.getD s 0 = levels.getD t 0 + (levels.getD s 0 - levels.getD t 0) := by omega
        conv_lhs => rw [this]
        exact nCopies_add _ _
      have hq : k / 2 ^ (levels.getD s 0 - levels.getD t 0) < nCopies (levels.getD t 0) :=
        Nat.div_lt_of_lt_mul (by rw [Nat.mul_comm, ← hsplit]; exact hk)
      by_cases hpos : k / 2 ^ (levels.getD s 0 - levels.getD t 0) > 0
      · simp only [hpos, ↓reduceIte]
        refine ⟨_, hq, ?_⟩
        unfold member; rw [if_neg (by omega)]
      · simp only [hpos, ↓reduceIte]
        exact ⟨0, nCopies_pos _, by simp [member]⟩
    · simp only [hgt, ↓reduceIte]
      have hlt : levels.getD s 0 < levels.getD t 0 := by omega
      have hsplit : nCopies (levels.getD t 0) = nCopies (levels.getD s 0) * 2 ^ (levels.getD t 0 - levels.getD s 0) := by
        have : levels.getD t 0 = levels.getD s 0 + (levels.getD t 0 - levels.getD s 0) := by omega
        conv_lhs => rw [this]
        exact nCopies_add _ _
      have hown : 0 < 2 ^ (levels.getD t 0 - levels.getD s 0) := Nat.pow_pos (by decide)
      refine ⟨(k - 1) * 2 ^ (levels.getD t 0 - levels.getD s 0) + 1, ?_, ?_⟩
      · rw [hsplit]
        have h1 : (k - 1 + 1) * 2 ^ (levels.getD t 0 - levels.getD s 0)
            ≤ (nCopies (levels.getD s 0) - 1) * 2 ^ (levels.getD t 0 - levels.getD s 0) :=
          Nat.mul_le_mul_right _ (by omega)
        have e1 : (k - 1 + 1) * 2 ^ (levels.getD t 0 - levels.getD s 0)
            = (k - 1) * 2 ^ (levels.getD t 0 - levels.getD s 0) + 2 ^ (levels.getD t 0 - levels.getD s 0) := by ring
        have h2 : (nCopies (levels.getD s 0) - 1 + 1) * 2 ^ (levels.getD t 0 - levels.getD s 0)
            = (nCopies (levels.getD s 0) - 1) * 2 ^ (levels.getD t 0 - levels.getD s 0) + 2 ^ (levels.getD t 0 - levels.getD s 0) := by ring
        have e3 : nCopies (levels.getD s 0) - 1 + 1 = nCopies (levels.getD s 0) := by have := nCopies_pos (levels.getD s 0); omega
        rw [e3] at h2
        omega
      · unfold member; rw [if_neg (by omega)]; congr 1

/-- neighbour in direction `d` of member `k` of the family of `s` (`k = 0`: the original) -/
def familyNgb (L : Layout) (levels copies : List Nat) (s k d : Nat) : Option Nat :=
  if k = 0 then ngb L s d else copyEntry levels copies (ngb L) s k d

theorem copyEntry_onto (L : Layout) (levels copies : List Nat) (s d t : Nat)
    (hd : d ≠ 0) (ht : ngb L s d = some t) (hle : levels.getD t 0 ≤ levels.getD s 0)
    (c : Nat) (hc : c < nCopies (levels.getD t 0)) :
    ∃ k, k < nCopies (levels.getD s 0) ∧ familyNgb L levels copies s k d = some (member copies t c) := by
  have hsplit : nCopies (levels.getD s 0) = nCopies (levels.getD t 0) * 2 ^ (levels.getD s 0 - levels.getD t 0) := by
    have : levels.getD s 0 = levels.getD t 0 + (levels.getD s 0 - levels.getD t 0) := by omega
    conv_lhs => rw [this]
    exact nCopies_add _ _
  have hpow : 0 < 2 ^ (levels.getD s 0 - levels.getD t 0) := Nat.pow_pos (by decide)
  refine ⟨c * 2 ^ (levels.getD s 0 - levels.getD t 0), ?_, ?_⟩
  · rw [hsplit]; exact Nat.mul_lt_mul_of_pos_right hc hpow
  · unfold familyNgb
    by_cases hc0 : c = 0
    · subst hc0; simp [ht, member]
    · have hkpos : c * 2 ^ (levels.getD s 0 - levels.getD t 0) ≠ 0 := Nat.mul_ne_zero hc0 (by omega)
      rw [if_neg hkpos]
      unfold copyEntry
      simp only [hd, ↓reduceIte, ht]
      by_cases heq : levels.getD t 0 = levels.getD s 0
      · simp only [heq, ↓reduceIte, Nat.sub_self, Nat.pow_zero, Nat.mul_one]
        unfold member; rw [if_neg hc0]
      · have hgt : levels.getD s 0 > levels.getD t 0 := by omega
        simp only [heq, ↓reduceIte, hgt, Nat.mul_div_cancel _ hpow]
        rw [if_pos (by omega)]
        unfold member; rw [if_neg hc0]

/-! ## the fold walk -/


theorem map_const_range' (a : Nat) (s n : Nat) : (List.range' s n).map (fun _ => a) = List.replicate n a := by
  induction n generalizing s with
  | zero => rfl
  | succ n ih => simp [List.range'_succ, List.replicate_succ, ih]

theorem buildOriginals_cons (i l : Nat) (ls : List Nat) :
    buildOriginals i (l :: ls) = List.replicate (nCopies l - 1) i ++ buildOriginals (i + 1) ls := by
  simp [buildOriginals, buildBlocks, map_const_range']

theorem buildOriginals_ge (i : Nat) (ls : List Nat) : ∀ x ∈ buildOriginals i ls, i ≤ x := by
  induction ls generalizing i with
  | nil => intro x hx; simp [buildOriginals, buildBlocks] at hx
  | cons l ls ih =>
    intro x hx
    rw [buildOriginals_cons, List.mem_append] at hx
    rcases hx with hx | hx
    · rw [List.mem_replicate] at hx; omega
    · have := ih (i + 1) x hx; omega

theorem buildOriginals_lt (i : Nat) (ls : List Nat) : ∀ x ∈ buildOriginals i ls, x < i + ls.length := by
  induction ls generalizing i with
  | nil => intro x hx; simp [buildOriginals, buildBlocks] at hx
  | cons l ls ih =>
    intro x hx
    rw [buildOriginals_cons, List.mem_append] at hx
    rcases hx with hx | hx
    · rw [List.mem_replicate] at hx; simp; omega
    · have := ih (i + 1) x hx; simp; omega

theorem takeWhile_none (l : List Nat) (i : Nat) (h : ∀ x ∈ l, x ≠ i) : l.takeWhile (· == i) = [] := by
  cases l with
  | nil => rfl
  | cons b bs =>
    have : b ≠ i := h b (List.mem_cons_self ..)
    simp [this]

theorem takeWhile_replicate_append (n i : Nat) (B : List Nat) (h : ∀ x ∈ B, x ≠ i) :
    (List.replicate n i ++ B).takeWhile (· == i) = List.replicate n i := by
  induction n with
  | zero => simpa using takeWhile_none B i h
  | succ n ih => simp [List.replicate_succ, ih]

theorem walk_none (O : List Nat) (i start : Nat) (h : ∀ x ∈ O, x ≠ i) : walk O i start = [] := by
  unfold walk
  rw [takeWhile_none _ i (fun x hx => h x (List.mem_of_mem_drop hx))]; rfl

theorem walk_block (A B : List Nat) (n i : Nat) (h : ∀ x ∈ B, x ≠ i) :
    walk (A ++ (List.replicate n i ++ B)) i A.length = List.range' A.length n := by
  unfold walk
  rw [List.drop_left, takeWhile_replicate_append n i B h, List.length_replicate]

theorem map_pair_range' (a N : Nat) (n s : Nat) :
    (List.range' s n).map (fun ci => (a, ci + N)) = (List.replicate n a).zip (List.range' (N + s) n) := by
  induction n generalizing s with
  | zero => rfl
  | succ n ih =>
    simp only [List.range'_succ, List.map_cons, List.replicate_succ, List.zip_cons_cons, ih]
    congr 2 <;> omega

theorem headD_mem_or (prevs : List Nat) : prevs.headD noCopy = noCopy ∨ prevs.headD noCopy ∈ prevs := by
  cases prevs <;> simp

/-- generalised form of `fold_once` (induction over the level list): `A` = the part of `_originals` that
belongs to subgrids before `i0` -/
theorem foldVisitsFrom_spec (N : Nat) (ls : List Nat) : ∀ (A : List Nat) (i0 : Nat) (prevs : List Nat),
    (∀ a ∈ A, a < i0) → (∀ p ∈ prevs, p = noCopy ∨ N ≤ p) →
    N + A.length + (buildOriginals i0 ls).length < noCopy →
    foldVisitsFrom N (A ++ buildOriginals i0 ls) i0 (buildCopies (N + A.length) prevs ls)
      = (buildOriginals i0 ls).zip (List.range' (N + A.length) (buildOriginals i0 ls).length) := by
  induction ls with
  | nil => intro A i0 prevs _ _ _; simp [buildOriginals, buildBlocks, buildCopies, foldVisitsFrom]
  | cons l ls ih =>
    intro A i0 prevs hA hprev hbound
    rw [buildOriginals_cons] at hbound ⊢
    have hrest : ∀ x ∈ buildOriginals (i0 + 1) ls, x ≠ i0 := fun x hx => by
      have := buildOriginals_ge (i0 + 1) ls x hx; omega
    simp only [buildCopies, foldVisitsFrom]
    -- the tail: induction hypothesis with A' = A ++ replicate … i0
    have hA' : ∀ a ∈ A ++ List.replicate (nCopies l - 1) i0, a < i0 + 1 := by
      intro a ha
      rcases List.mem_append.mp ha with h | h
      · have := hA a h; omega
      · rw [List.mem_replicate] at h; omega
    have hprev' : ∀ p ∈ prevs.tail, p = noCopy ∨ N ≤ p := fun p hp => hprev p (List.mem_of_mem_tail hp)
    have htail := ih (A ++ List.replicate (nCopies l - 1) i0) (i0 + 1) prevs.tail hA' hprev'
      (by simp only [List.length_append, List.length_replicate] at hbound ⊢; omega)
    simp only [List.length_append, List.length_replicate, List.append_assoc] at htail
    rw [← Nat.add_assoc] at htail
    rw [htail]
    -- the head
    have hhead : (if (if nCopies l > 1 then N + A.length else prevs.headD noCopy) ≠ noCopy then
          (walk (A ++ (List.replicate (nCopies l - 1) i0 ++ buildOriginals (i0 + 1) ls)) i0
            (subWrap (if nCopies l > 1 then N + A.length else prevs.headD noCopy) N)).map (fun ci => (i0, ci + N))
        else [])
        = (List.replicate (nCopies l - 1) i0).zip (List.range' (N + A.length) (nCopies l - 1)) := by
      by_cases hc : nCopies l > 1
      · simp only [hc, ↓reduceIte]
        have hne : N + A.length ≠ noCopy := by omega
        have hsub : subWrap (N + A.length) N = A.length := by unfold subWrap; rw [if_pos (by omega)]; omega
        rw [if_pos hne, hsub, walk_block A _ _ i0 hrest, map_pair_range']
      · have h1 : nCopies l - 1 = 0 := by have := (Nat.pow_pos (by decide) : 0 < nCopies l); omega
        simp only [hc, ↓reduceIte, h1, List.replicate_zero, List.nil_append, List.zip_nil_left]
        split_ifs with hne
        · have hnot : ∀ x ∈ A ++ buildOriginals (i0 + 1) ls, x ≠ i0 := by
            intro x hx
            rcases List.mem_append.mp hx with h | h
            · have := hA x h; omega
            · exact hrest x h
          rw [walk_none _ _ _ hnot]; rfl
        · rfl
    rw [hhead]
    simp only [List.length_append, List.length_replicate]
    have hr : List.range' (N + A.length) (nCopies l - 1 + (buildOriginals (i0 + 1) ls).length)
        = List.range' (N + A.length) (nCopies l - 1)
          ++ List.range' (N + A.length + (nCopies l - 1)) (buildOriginals (i0 + 1) ls).length := by
      rw [List.range'_append_1]
    rw [hr, List.zip_append (by simp)]


/-! ## the state after `create_copies` -/

theorem createCopies_copies (L : Layout) (prev levels : List Nat) :
    (createCopies L prev levels).copies = buildCopies L.size prev levels := rfl
theorem createCopies_originals (L : Layout) (prev levels : List Nat) :
    (createCopies L prev levels).originals = buildOriginals 0 levels := rfl
theorem createCopies_rows (L : Layout) (prev levels : List Nat) :
    (createCopies L prev levels).rows = (List.range L.size).map (createSubgrid L)
      ++ buildBlocks (copyRow levels (buildCopies L.size prev levels) (ngb L)) 0 levels := rfl

theorem createCopies_rows_length (L : Layout) (prev levels : List Nat) :
    (createCopies L prev levels).rows.length = L.size + pre levels levels.length := by
  rw [createCopies_rows]; simp [buildBlocks_length]

theorem two_le_nCopies_of (l c : Nat) (h1 : 1 ≤ c) (h : c < nCopies l) : nCopies l > 1 := by omega

/-- index of the `c`-th copy (`c ≥ 1`) of `t`: originals, then the copies of the subgrids before `t`, then `c - 1` -/
theorem member_eq (N : Nat) (prev levels : List Nat) (t c : Nat) (ht : t < levels.length)
    (h1 : 1 ≤ c) (hc : c < nCopies (levels.getD t 0)) :
    member (buildCopies N prev levels) t c = N + pre levels t + (c - 1) := by
  unfold member
  rw [if_neg (by omega), buildCopies_getD N prev levels t ht, if_pos (two_le_nCopies_of _ _ h1 hc)]
  omega

theorem pre_block_le (levels : List Nat) (t c : Nat) (ht : t < levels.length) (hc : c < nCopies (levels.getD t 0) - 1) :
    pre levels t + c < pre levels levels.length := by
  have h1 := pre_succ levels t ht
  have h2 := pre_mono levels (t + 1) levels.length (by omega)
  omega

theorem member_lt (N : Nat) (prev levels : List Nat) (t c : Nat) (ht : t < levels.length)
    (h1 : 1 ≤ c) (hc : c < nCopies (levels.getD t 0)) :
    member (buildCopies N prev levels) t c < N + pre levels levels.length := by
  rw [member_eq N prev levels t c ht h1 hc]
  have := pre_block_le levels t (c - 1) ht (by omega)
  omega

theorem originalOf_member (L : Layout) (prev levels : List Nat) (hlen : levels.length = L.size) (t c : Nat)
    (ht : t < L.size) (hc : c < nCopies (levels.getD t 0)) :
    originalOf (createCopies L prev levels) (member (createCopies L prev levels).copies t c) = t := by
  by_cases h0 : c = 0
  · subst h0
    unfold originalOf member
    rw [if_pos rfl, createCopies_copies, buildCopies_length, hlen, if_pos ht]
  · have h1 : 1 ≤ c := by omega
    rw [createCopies_copies, member_eq _ prev levels t c (by omega) h1 hc]
    unfold originalOf
    rw [createCopies_copies, buildCopies_length, hlen, if_neg (by omega), createCopies_originals]
    have e : L.size + pre levels t + (c - 1) - L.size = pre levels t + (c - 1) := by omega
    rw [e, List.getD_eq_getElem?_getD]
    unfold buildOriginals
    rw [buildBlocks_getElem? (fun i _ => i) 0 levels t (c - 1) (by omega) (by omega)]
    simp

theorem row_member (L : Layout) (prev levels : List Nat) (hlen : levels.length = L.size) (t c : Nat)
    (ht : t < L.size) (h1 : 1 ≤ c) (hc : c < nCopies (levels.getD t 0)) :
    (createCopies L prev levels).rows.getD (member (createCopies L prev levels).copies t c) []
      = copyRow levels (createCopies L prev levels).copies (ngb L) t c := by
  rw [createCopies_copies, member_eq _ prev levels t c (by omega) h1 hc, createCopies_rows,
    List.getD_eq_getElem?_getD, List.getElem?_append_right (by simp; omega)]
  have e : L.size + pre levels t + (c - 1) - (List.map (createSubgrid L) (List.range L.size)).length
      = pre levels t + (c - 1) := by simp; omega
  rw [e, buildBlocks_getElem? _ 0 levels t (c - 1) (by omega) (by omega)]
  have e2 : 1 + (c - 1) = c := by omega
  simp [e2]

theorem row_original (L : Layout) (prev levels : List Nat) (t : Nat) (ht : t < L.size) :
    (createCopies L prev levels).rows.getD t [] = createSubgrid L t := by
  rw [createCopies_rows, List.getD_eq_getElem?_getD, List.getElem?_append_left (by simpa using ht)]
  simp [ht]

theorem copyRow_getD (levels copies : List Nat) (orig : Nat → Nat → Option Nat) (i k d : Nat) (hd : d < 27) :
    (copyRow levels copies orig i k).getD d none = copyEntry levels copies orig i k d := by
  unfold copyRow
  rw [List.getD_eq_getElem?_getD, List.getElem?_map, List.getElem?_range hd]; rfl

/-- `ngb` only ever names original subgrids -/
theorem ngb_lt (L : Layout) (hx : 0 < L.mx) (hy : 0 < L.my) (hz : 0 < L.mz) (s d t : Nat)
    (hs : s < L.size) (hd : d < 27) (h : ngb L s d = some t) : t < L.size := by
  rw [ngb_eq_ngbAt L hx hy hz s d hd] at h
  exact (ngbAt_mutual L s hs _ (offsetOf_small d hd) t h).1


/-! ## hand-over: one axis -/

/-- which wall an entry classification of the tables `pin` / `idxClass` stands for: 0 = none (coordinate
untouched / index computed), 1 = lower wall, 2 = upper wall -/
def clsOfOffset (a : Int) : Nat := if a = 0 then 0 else if a < 0 then 1 else 2

/-- exit class of one component of the local cell index: -1 below the subgrid, 1 above, 0 inside -/
def exitClass (m : Nat) (idx : Int) : Int := if idx < 0 then -1 else if (m : Int) ≤ idx then 1 else 0

theorem tdiv_pos_iff (idx : Int) (m : Nat) (hm : 0 < m) : 0 < idx.tdiv (m : Int) ↔ (m : Int) ≤ idx := by
  rcases lt_or_ge idx 0 with hneg | hpos
  · have : idx.tdiv (m : Int) ≤ 0 := by
      have h1 : idx = -(-idx) := by omega
      rw [h1, Int.neg_tdiv]
      have := Int.tdiv_nonneg (a := -idx) (b := (m : Int)) (by omega) (by omega)
      omega
    omega
  · obtain ⟨k, rfl⟩ := Int.eq_ofNat_of_zero_le hpos
    have : (k : Int).tdiv (m : Int) = ((k / m : Nat) : Int) := by
      exact (Int.ofNat_tdiv k m).symm
    rw [this]
    have := Nat.div_pos_iff (a := k) (b := m)
    omega

theorem exitClass_low (m : Nat) (idx : Int) : decide (idx < 0) = decide (exitClass m idx < 0) := by
  unfold exitClass; split_ifs <;> simp <;> omega

theorem exitClass_high (m : Nat) (hm : 0 < m) (idx : Int) : decide (idx.tdiv (m : Int) > 0) = decide (exitClass m idx > 0) := by
  have h := tdiv_pos_iff idx m hm
  unfold exitClass; split_ifs <;> simp <;> omega

/-- `get_output_direction(three_index)` only looks at the exit class of every component -/
theorem outputDirection_exitClass (m : Nat × Nat × Nat) (h1 : 0 < m.1) (h2 : 0 < m.2.1) (h3 : 0 < m.2.2)
    (idx : Int × Int × Int) :
    outputDirection m idx = maskDir (maskOfOffset (exitClass m.1 idx.1, exitClass m.2.1 idx.2.1, exitClass m.2.2 idx.2.2)) := by
  unfold outputDirection maskOf maskOfOffset
  simp only [exitClass_low m.1 idx.1, exitClass_low m.2.1 idx.2.1, exitClass_low m.2.2 idx.2.2,
    exitClass_high m.1 h1 idx.1, exitClass_high m.2.1 h2 idx.2.1, exitClass_high m.2.2 h3 idx.2.2]

theorem exitClass_small (m : Nat) (idx : Int) : exitClass m idx = -1 ∨ exitClass m idx = 0 ∨ exitClass m idx = 1 := by
  unfold exitClass; split_ifs <;> simp

/-- One axis of the hand-over, cells.  A packet in subgrid coordinate `i` (of `n`, `m` cells each) whose local
cell index became `idx ∈ [-1, m]` continues in subgrid `j = axisStep …` with the start index the entry code
chooses (`computed` = the current index on an axis that is not crossed): that is the cell
`wrapAxis p (n m) (i m + idx)` of the undivided grid, i.e. the same global cell, taken modulo the grid on a
periodic axis.  If there is no neighbour the global index is outside the undivided grid as well. -/
theorem handover_cell_axis (p : Bool) (n m i : Nat) (idx : Int) (hi : i < n) (hm : 0 < m)
    (hidx : -1 ≤ idx ∧ idx ≤ m) :
    (∀ j, axisStep p n i (exitClass m idx) = some j →
        (j : Int) * m + startIndexAxis (clsOfOffset (-(exitClass m idx))) m idx = wrapAxis p (n * m) ((i : Int) * m + idx)
        ∧ 0 ≤ wrapAxis p (n * m) ((i : Int) * m + idx) ∧ wrapAxis p (n * m) ((i : Int) * m + idx) < ((n * m : Nat) : Int)) ∧
    (axisStep p n i (exitClass m idx) = none → p = false ∧ ((i : Int) * m + idx < 0 ∨ ((n * m : Nat) : Int) ≤ (i : Int) * m + idx)) := by
  have h0 : 0 ≤ (i : Int) * m := by positivity
  have hle : (i : Int) * m + m ≤ (n : Int) * m := by
    have : (((i + 1) * m : Nat) : Int) ≤ ((n * m : Nat) : Int) := by
      exact_mod_cast Nat.mul_le_mul_right m (show i + 1 ≤ n by omega)
    push_cast at this; linarith
  have hX0 : i = 0 → (i : Int) * m = 0 := by intro h; subst h; simp
  have hXn : i + 1 = n → (i : Int) * m + m = (n : Int) * m := by intro h; subst h; push_cast; ring
  have hJ : ∀ j : Nat, ((j : Int) = i - 1 → (j : Int) * m = (i : Int) * m - m) ∧ ((j : Int) = i + 1 → (j : Int) * m = (i : Int) * m + m)
      ∧ ((j : Int) = i → (j : Int) * m = (i : Int) * m) ∧ ((j : Int) = n - 1 → (j : Int) * m = (n : Int) * m - m)
      ∧ ((j : Int) = 0 → (j : Int) * m = 0) := by
    intro j
    refine ⟨?_, ?_, ?_, ?_, ?_⟩ <;> first | (intro h; rw [h]; ring) | (intro h; rw [h])
  have hcases : (idx = -1 ∧ exitClass m idx = -1) ∨ (0 ≤ idx ∧ idx < m ∧ exitClass m idx = 0) ∨ (idx = m ∧ exitClass m idx = 1) := by
    unfold exitClass; split_ifs <;> omega
  have hstart : startIndexAxis (clsOfOffset (-(-1 : Int))) m idx = (m : Int) - 1 ∧ startIndexAxis (clsOfOffset (-(0 : Int))) m idx = idx
      ∧ startIndexAxis (clsOfOffset (-(1 : Int))) m idx = 0 := by
    refine ⟨by simp [clsOfOffset, startIndexAxis], by simp [clsOfOffset, startIndexAxis], by simp [clsOfOffset, startIndexAxis]⟩
  constructor
  · intro j hj
    obtain ⟨j1, j2, j3, j4, j5⟩ := hJ j
    have hJ0 : 0 ≤ (j : Int) * m := by positivity
    have hJle : (j : Int) * m + m ≤ (n : Int) * m := by
      have hjn := axisStep_lt _ _ _ _ _ hj
      have : (((j + 1) * m : Nat) : Int) ≤ ((n * m : Nat) : Int) := by
        exact_mod_cast Nat.mul_le_mul_right m (show j + 1 ≤ n by omega)
      push_cast at this; linarith
    rcases hcases with ⟨hi1, he⟩ | ⟨hi1, hi2, he⟩ | ⟨hi1, he⟩ <;> rw [he] at hj ⊢
    · rw [hstart.1]
      rcases p with _ | _
      · rw [axisStep_false] at hj
        simp only [wrapAxis, Bool.false_eq_true, ↓reduceIte] at hj ⊢
        push_cast
        split_ifs at hj <;> (injection hj with hj) <;> (first
          | (exfalso; omega)
          | (rcases (by omega : (j : Int) = i - 1 ∨ (j : Int) = i + 1 ∨ (j : Int) = i ∨ (j : Int) = n - 1 ∨ (j : Int) = 0) with h | h | h | h | h
             · have := j1 h; omega
             · have := j2 h; omega
             · have := j3 h; omega
             · have := j4 h; omega
             · have := j5 h; omega))
      · rw [axisStep_true] at hj
        simp only [wrapAxis, ↓reduceIte] at hj ⊢
        push_cast
        split_ifs at hj ⊢ <;> (try injection hj with hj) <;> (first
          | (exfalso; omega)
          | (rcases (by omega : (j : Int) = i - 1 ∨ (j : Int) = i + 1 ∨ (j : Int) = i ∨ (j : Int) = n - 1 ∨ (j : Int) = 0) with h | h | h | h | h
             · have := j1 h; omega
             · have := j2 h; omega
             · have := j3 h; omega
             · have := j4 h; omega
             · have := j5 h; omega))
    · rw [hstart.2.1]
      rcases p with _ | _
      · rw [axisStep_false] at hj
        simp only [wrapAxis, Bool.false_eq_true, ↓reduceIte] at hj ⊢
        push_cast
        split_ifs at hj <;> (injection hj with hj) <;> (first
          | (exfalso; omega)
          | (rcases (by omega : (j : Int) = i - 1 ∨ (j : Int) = i + 1 ∨ (j : Int) = i ∨ (j : Int) = n - 1 ∨ (j : Int) = 0) with h | h | h | h | h
             · have := j1 h; omega
             · have := j2 h; omega
             · have := j3 h; omega
             · have := j4 h; omega
             · have := j5 h; omega))
      · rw [axisStep_true] at hj
        simp only [wrapAxis, ↓reduceIte] at hj ⊢
        push_cast
        split_ifs at hj ⊢ <;> (try injection hj with hj) <;> (first
          | (exfalso; omega)
          | (rcases (by omega : (j : Int) = i - 1 ∨ (j : Int) = i + 1 ∨ (j : Int) = i ∨ (j : Int) = n - 1 ∨ (j : Int) = 0) with h | h | h | h | h
             · have := j1 h; omega
             · have := j2 h; omega
             · have := j3 h; omega
             · have := j4 h; omega
             · have := j5 h; omega))
    · rw [hstart.2.2]
      rcases p with _ | _
      · rw [axisStep_false] at hj
        simp only [wrapAxis, Bool.false_eq_true, ↓reduceIte] at hj ⊢
        push_cast
        split_ifs at hj <;> (injection hj with hj) <;> (first
          | (exfalso; omega)
          | (rcases (by omega : (j : Int) = i - 1 ∨ (j : Int) = i + 1 ∨ (j : Int) = i ∨ (j : Int) = n - 1 ∨ (j : Int) = 0) with h | h | h | h | h
             · have := j1 h; omega
             · have := j2 h; omega
             · have := j3 h; omega
             · have := j4 h; omega
             · have := j5 h; omega))
      · rw [axisStep_true] at hj
        simp only [wrapAxis, ↓reduceIte] at hj ⊢
        push_cast
        split_ifs at hj ⊢ <;> (try injection hj with hj) <;> (first
          | (exfalso; omega)
          | (rcases (by omega : (j : Int) = i - 1 ∨ (j : Int) = i + 1 ∨ (j : Int) = i ∨ (j : Int) = n - 1 ∨ (j : Int) = 0) with h | h | h | h | h
             · have := j1 h; omega
             · have := j2 h; omega
             · have := j3 h; omega
             · have := j4 h; omega
             · have := j5 h; omega))
  · intro hn
    rcases hcases with ⟨hi1, he⟩ | ⟨hi1, hi2, he⟩ | ⟨hi1, he⟩ <;> rw [he] at hn <;> rcases p with _ | _
    all_goals first
      | (rw [axisStep_false] at hn; push_cast; refine ⟨rfl, ?_⟩; split_ifs at hn <;> omega)
      | (rw [axisStep_true] at hn; split_ifs at hn <;> omega)

section field
variable {K : Type} [Field K] [CharZero K]

/-- One axis of the hand-over, positions (exact arithmetic).  Box anchor `A`, subgrid side `S`, `m` cells of
size `h = S / m`.  The packet leaves the subgrid at coordinate `i` through a direction with offset `a` on
this axis, sitting on the wall it crosses (`hexit`); the neighbour is at coordinate `j`.  After
`position - anchor`, `update_photon_position(output_to_input_direction(d))`, `+ anchor` in the neighbour the
packet is at the same coordinate, shifted by the whole number `j - (i + a)` of subgrid sides (0 unless the
axis wrapped). -/
theorem handover_position_axis (p : Bool) (n m i j : Nat) (a : Int) (A S h xloc : K)
    (hi : i < n) (hm : 0 < m) (hh : h = S / m)
    (ha : a = -1 ∨ a = 0 ∨ a = 1)
    (hexit : (a = 1 → xloc = (m : K) * h) ∧ (a = -1 → xloc = 0))
    (hj : axisStep p n i a = some j) :
    (A + (j : K) * S) + updatePosAxis (clsOfOffset (-a)) (m : K) h (((A + (i : K) * S) + xloc) - (A + (j : K) * S))
      = ((A + (i : K) * S) + xloc) + (((j : Int) - ((i : Int) + a) : Int) : K) * S := by
  have hm' : (m : K) ≠ 0 := by exact_mod_cast (by omega : m ≠ 0)
  have hmh : (m : K) * h = S := by rw [hh]; field_simp
  rcases ha with rfl | rfl | rfl
  · simp only [clsOfOffset, updatePosAxis]
    norm_num
    rw [hexit.2 rfl, hmh]; push_cast; ring
  · simp only [clsOfOffset, updatePosAxis]
    norm_num
    have : j = i := by
      rcases p with _ | _
      · rw [axisStep_false] at hj; split_ifs at hj; injection hj with hj; omega
      · rw [axisStep_true] at hj; split_ifs at hj <;> first | omega | (injection hj with hj; omega)
    subst this
    have e : (((j : Int) - ((j : Int) + 0) : Int) : K) = 0 := by simp
    first
      | (rw [e]; ring)
      | (simp)
  · simp only [clsOfOffset, updatePosAxis]
    norm_num
    rw [hexit.1 rfl, hmh]; push_cast; ring
end field

/-- the shift of `handover_position_axis` is zero, or one whole layout length on a periodic axis -/
theorem wrap_amount (p : Bool) (n i j : Nat) (a : Int) (hi : i < n) (ha : a = -1 ∨ a = 0 ∨ a = 1)
    (hj : axisStep p n i a = some j) :
    (j : Int) - ((i : Int) + a) = 0 ∨ (p = true ∧ ((j : Int) - ((i : Int) + a) = n ∨ (j : Int) - ((i : Int) + a) = -(n : Int))) := by
  rcases p with _ | _
  · rw [axisStep_false] at hj; split_ifs at hj; injection hj with hj; left; omega
  · rw [axisStep_true] at hj
    split_ifs at hj <;> injection hj with hj <;> first | (left; omega) | (right; exact ⟨rfl, by omega⟩)


/-! ## hand-over: from one axis to the three axes of a layout -/

/-- the three axis equations behind `ngb L s d = some t` -/
theorem ngb_axes (L : Layout) (hx : 0 < L.mx) (hy : 0 < L.my) (hz : 0 < L.mz) (s d t : Nat)
    (hd : d < 27) (h : ngb L s d = some t) :
    axisStep L.px L.nx (gridPosition L s).1 (offsetOf d).1 = some (gridPosition L t).1 ∧
    axisStep L.py L.ny (gridPosition L s).2.1 (offsetOf d).2.1 = some (gridPosition L t).2.1 ∧
    axisStep L.pz L.nz (gridPosition L s).2.2 (offsetOf d).2.2 = some (gridPosition L t).2.2 := by
  rw [ngb_eq_ngbAt L hx hy hz s d hd] at h
  obtain ⟨x, y, z, h1, h2, h3, rfl⟩ := ngbAt_some L s _ t h
  rw [gridPosition_indexOf L x y z (axisStep_lt _ _ _ _ _ h2) (axisStep_lt _ _ _ _ _ h3)]
  exact ⟨h1, h2, h3⟩

/-- no neighbour: one axis has none -/
theorem ngb_none_axes (L : Layout) (hx : 0 < L.mx) (hy : 0 < L.my) (hz : 0 < L.mz) (s d : Nat)
    (hd : d < 27) (h : ngb L s d = none) :
    axisStep L.px L.nx (gridPosition L s).1 (offsetOf d).1 = none ∨
    axisStep L.py L.ny (gridPosition L s).2.1 (offsetOf d).2.1 = none ∨
    axisStep L.pz L.nz (gridPosition L s).2.2 (offsetOf d).2.2 = none := by
  rw [ngb_eq_ngbAt L hx hy hz s d hd] at h
  unfold ngbAt at h
  simp only [] at h
  cases h1 : axisStep L.px L.nx (gridPosition L s).1 (offsetOf d).1 with
  | none => left; rfl
  | some x =>
    cases h2 : axisStep L.py L.ny (gridPosition L s).2.1 (offsetOf d).2.1 with
    | none => right; left; rfl
    | some y =>
      cases h3 : axisStep L.pz L.nz (gridPosition L s).2.2 (offsetOf d).2.2 with
      | none => right; right; rfl
      | some z => rw [h1, h2, h3] at h; simp [combine] at h

theorem small_mem_loopOffsets (a b c : Int) (ha : a = -1 ∨ a = 0 ∨ a = 1) (hb : b = -1 ∨ b = 0 ∨ b = 1)
    (hc : c = -1 ∨ c = 0 ∨ c = 1) : (a, b, c) ∈ loopOffsets := by
  rcases ha with rfl | rfl | rfl <;> rcases hb with rfl | rfl | rfl <;> rcases hc with rfl | rfl | rfl <;> decide

theorem offsetOf_dirOfOffset : ∀ o ∈ loopOffsets, offsetOf (dirOfOffset o) = o := by decide

theorem maskDir_offset_nonneg : ∀ o ∈ loopOffsets, maskDir (maskOfOffset o) = ((dirOfOffset o : Nat) : Int) := by decide

theorem classes_agree_with_offset : ∀ d, d < 27 → ∀ ax, ax < 3 →
    pinAt d ax = clsOfOffset (comp (offsetOf d) ax) ∧ idxClassAt d ax = clsOfOffset (comp (offsetOf d) ax) := by decide


/-! ## chained runs: a stuttering simulation argument -/

section sim
variable {X M : Type} [AddCommMonoid M]

/-- run a deposit-producing step function with fuel: total of the deposits, and the last state -/
def runSum (step : X → Option (M × X)) : Nat → X → M × X
  | 0, x => (0, x)
  | f + 1, x =>
    match step x with
    | none => (0, x)
    | some (m, x') => (m + (runSum step f x').1, (runSum step f x').2)

/-- the run from `x` is over within `f` steps -/
def Halts (step : X → Option (M × X)) (f : Nat) (x : X) : Prop := step (runSum step f x).2 = none

theorem runSum_of_none (step : X → Option (M × X)) (f : Nat) (x : X) (h : step x = none) :
    runSum step f x = (0, x) := by
  cases f with
  | zero => rfl
  | succ f => simp [runSum, h]

theorem runSum_succ_some (step : X → Option (M × X)) (f : Nat) (x x' : X) (m : M) (h : step x = some (m, x')) :
    runSum step (f + 1) x = (m + (runSum step f x').1, (runSum step f x').2) := by
  simp only [runSum, h]

theorem runSum_succ_of_halts (step : X → Option (M × X)) (f : Nat) (x : X) (h : Halts step f x) :
    runSum step (f + 1) x = runSum step f x := by
  induction f generalizing x with
  | zero =>
    unfold Halts at h; simp only [runSum] at h
    simp [runSum, h]
  | succ f ih =>
    unfold Halts at h
    cases hs : step x with
    | none => simp [runSum, hs]
    | some v =>
      obtain ⟨m, x'⟩ := v
      have h' : Halts step f x' := by
        unfold Halts; rw [runSum_succ_some step f x x' m hs] at h; exact h
      rw [runSum_succ_some step (f + 1) x x' m hs, runSum_succ_some step f x x' m hs, ih x' h']

theorem halts_succ (step : X → Option (M × X)) (f : Nat) (x : X) (h : Halts step f x) : Halts step (f + 1) x := by
  unfold Halts; rw [runSum_succ_of_halts step f x h]; exact h

end sim

section commute
variable {A B M : Type} [AddCommMonoid M]

/-- **Single-step commutation** between a split run (`stepA`) and the run over the undivided grid (`stepB`)
under a state correspondence `R`: when the split run is over so is the other; a step of the split run is
either matched by a step of the other run with the same deposit, or deposits nothing and leaves the other
run where it is (a hand-over, or the zero-length step after re-entering on a cell wall). -/
structure StepCommutes (stepA : A → Option (M × A)) (stepB : B → Option (M × B)) (R : A → B → Prop) : Prop where
  halt : ∀ a b, R a b → stepA a = none → stepB b = none
  step : ∀ a b m a', R a b → stepA a = some (m, a') →
    (∃ b', stepB b = some (m, b') ∧ R a' b') ∨ (m = 0 ∧ R a' b)

theorem sim_totals (stepA : A → Option (M × A)) (stepB : B → Option (M × B)) (R : A → B → Prop)
    (hc : StepCommutes stepA stepB R) :
    ∀ (f : Nat) (a : A) (b : B), R a b → Halts stepA f a →
      (runSum stepA f a).1 = (runSum stepB f b).1 ∧ R (runSum stepA f a).2 (runSum stepB f b).2 ∧ Halts stepB f b := by
  intro f
  induction f with
  | zero =>
    intro a b hR hh
    unfold Halts at hh ⊢; simp only [runSum] at hh ⊢
    exact ⟨trivial, hR, hc.halt a b hR hh⟩
  | succ f ih =>
    intro a b hR hh
    cases hs : stepA a with
    | none =>
      have hb := hc.halt a b hR hs
      rw [runSum_of_none stepA _ a hs, runSum_of_none stepB _ b hb]
      exact ⟨rfl, hR, by unfold Halts; rw [runSum_of_none stepB _ b hb]; exact hb⟩
    | some v =>
      obtain ⟨m, a'⟩ := v
      have hh' : Halts stepA f a' := by
        unfold Halts at hh ⊢; rw [runSum_succ_some stepA f a a' m hs] at hh; exact hh
      rcases hc.step a b m a' hR hs with ⟨b', hb, hR'⟩ | ⟨hm0, hR'⟩
      · obtain ⟨i1, i2, i3⟩ := ih a' b' hR' hh'
        rw [runSum_succ_some stepA f a a' m hs, runSum_succ_some stepB f b b' m hb]
        refine ⟨by simp only [i1], i2, ?_⟩
        unfold Halts at i3 ⊢; rw [runSum_succ_some stepB f b b' m hb]; exact i3
      · obtain ⟨i1, i2, i3⟩ := ih a' b hR' hh'
        have i3' := halts_succ stepB f b i3
        rw [runSum_succ_of_halts stepB f b i3, runSum_succ_some stepA f a a' m hs]
        exact ⟨by simp only [hm0, zero_add, i1], i2, i3'⟩
end commute


/-! ## per-axis views -/

/-- per-axis views of a layout -/
def axN (L : Layout) : Nat → Nat | 0 => L.nx | 1 => L.ny | _ => L.nz
def axM (L : Layout) : Nat → Nat | 0 => L.mx | 1 => L.my | _ => L.mz
def axP (L : Layout) : Nat → Bool | 0 => L.px | 1 => L.py | _ => L.pz
def posAx (p : Nat × Nat × Nat) : Nat → Nat | 0 => p.1 | 1 => p.2.1 | _ => p.2.2
def compK {K : Type} (v : K × K × K) : Nat → K | 0 => v.1 | 1 => v.2.1 | _ => v.2.2

/-- the three axis equations of `ngb L s d = some t`, axis by axis -/
theorem ngb_axis (L : Layout) (hx : 0 < L.mx) (hy : 0 < L.my) (hz : 0 < L.mz) (s d t : Nat)
    (hd : d < 27) (h : ngb L s d = some t) (ax : Nat) (hax : ax < 3) :
    axisStep (axP L ax) (axN L ax) (posAx (gridPosition L s) ax) (comp (offsetOf d) ax) = some (posAx (gridPosition L t) ax) := by
  obtain ⟨h1, h2, h3⟩ := ngb_axes L hx hy hz s d t hd h
  rcases (by omega : ax = 0 ∨ ax = 1 ∨ ax = 2) with rfl | rfl | rfl <;> simp only [axP, axN, posAx, comp] <;> assumption

theorem posAx_lt (L : Layout) (s : Nat) (hs : s < L.size) (ax : Nat) (hax : ax < 3) :
    posAx (gridPosition L s) ax < axN L ax := by
  obtain ⟨h1, h2, h3⟩ := gridPosition_lt L s hs
  rcases (by omega : ax = 0 ∨ ax = 1 ∨ ax = 2) with rfl | rfl | rfl <;> simp only [axN, posAx] <;> assumption

theorem axM_pos (L : Layout) (hx : 0 < L.mx) (hy : 0 < L.my) (hz : 0 < L.mz) (ax : Nat) : 0 < axM L ax := by
  unfold axM; split <;> assumption

theorem comp_small (d : Nat) (hd : d < 27) (ax : Nat) :
    comp (offsetOf d) ax = -1 ∨ comp (offsetOf d) ax = 0 ∨ comp (offsetOf d) ax = 1 := by
  obtain ⟨h1, h2, h3⟩ := offsetOf_small d hd
  unfold comp; split <;> assumption

theorem comp_outToIn (d : Nat) (hd : d < 27) (ax : Nat) :
    comp (offsetOf (outToInDir d)) ax = -comp (offsetOf d) ax := by
  rw [offset_outToIn d hd]; unfold comp; split <;> rfl


theorem compK_updatePosition {K : Type} [Mul K] [OfScientific K] (d : Nat) (nF h pos : K × K × K) (ax : Nat) (hax : ax < 3) :
    compK (updatePosition d nF h pos) ax = updatePosAxis (pinAt d ax) (compK nF ax) (compK h ax) (compK pos ax) := by
  rcases (by omega : ax = 0 ∨ ax = 1 ∨ ax = 2) with rfl | rfl | rfl <;> rfl



/-! ## `get_neighbours` -/

theorem axisStep_zero (p : Bool) (n i : Nat) (hi : i < n) : axisStep p n i 0 = some i := by
  rcases p with _ | _
  · rw [axisStep_false, if_pos (by omega)]; simp
  · rw [axisStep_true, if_neg (by omega), if_neg (by omega)]; simp

theorem axisStep_neg (p : Bool) (n i : Nat) (hi : i < n) :
    axisStep p n i (-1) = if i > 0 then some (i - 1) else if p then some (n - 1) else none := by
  rcases p with _ | _
  · rw [axisStep_false]; split_ifs <;> first | rfl | omega | (congr 1; omega)
  · rw [axisStep_true]
    by_cases h0 : i = 0
    · subst h0; simp; omega
    · rw [if_neg (by omega), if_neg (by omega), if_pos (by omega)]; congr 1; omega

theorem axisStep_pos (p : Bool) (n i : Nat) (hi : i < n) :
    axisStep p n i 1 = if i + 1 < n then some (i + 1) else if p then some 0 else none := by
  rcases p with _ | _
  · rw [axisStep_false]; split_ifs <;> first | rfl | omega | (congr 1; omega)
  · rw [axisStep_true]
    by_cases h0 : i + 1 < n
    · rw [if_neg (by omega), if_neg (by omega), if_pos h0]; congr 1
    · rw [if_neg (by omega), if_pos (by omega), if_pos (by omega), if_neg h0]; rfl

theorem filterMap_eq_flatMap {α β : Type} (g : α → Option β) (l : List α) :
    l.filterMap g = l.flatMap fun x => (g x).toList := by
  induction l with
  | nil => rfl
  | cons a l ih => cases h : g a <;> simp [h, ih]

theorem ite_append (l : List Nat) (c : Prop) [Decidable c] (p : Bool) (v w : Nat) :
    (if c then l ++ [v] else if p = true then l ++ [w] else l)
      = l ++ (if c then some v else if p = true then some w else none).toList := by
  split_ifs <;> simp

/-- `get_neighbours` lists the face neighbours of the neighbour table, in the order
x-, x+, y-, y+, z-, z+ (`FACE_X_N, FACE_X_P, FACE_Y_N, FACE_Y_P, FACE_Z_N, FACE_Z_P`) -/
theorem getNeighbours_faces_aux (L : Layout) (hx : 0 < L.mx) (hy : 0 < L.my) (hz : 0 < L.mz) (s : Nat) (hs : s < L.size) :
    getNeighbours L s = [22, 21, 24, 23, 26, 25].filterMap (ngb L s) := by
  obtain ⟨h1, h2, h3⟩ := gridPosition_lt L s hs
  have o22 : offsetOf 22 = (-1, 0, 0) := by decide
  have o21 : offsetOf 21 = (1, 0, 0) := by decide
  have o24 : offsetOf 24 = (0, -1, 0) := by decide
  have o23 : offsetOf 23 = (0, 1, 0) := by decide
  have o26 : offsetOf 26 = (0, 0, -1) := by decide
  have o25 : offsetOf 25 = (0, 0, 1) := by decide
  rw [filterMap_eq_flatMap]
  simp only [List.flatMap_cons, List.flatMap_nil, List.append_nil]
  rw [ngb_eq_ngbAt L hx hy hz s 22 (by decide), ngb_eq_ngbAt L hx hy hz s 21 (by decide),
    ngb_eq_ngbAt L hx hy hz s 24 (by decide), ngb_eq_ngbAt L hx hy hz s 23 (by decide),
    ngb_eq_ngbAt L hx hy hz s 26 (by decide), ngb_eq_ngbAt L hx hy hz s 25 (by decide), o22, o21, o24, o23, o26, o25]
  unfold ngbAt getNeighbours
  simp only [axisStep_zero _ _ _ h1, axisStep_zero _ _ _ h2, axisStep_zero _ _ _ h3,
    axisStep_neg _ _ _ h1, axisStep_neg _ _ _ h2, axisStep_neg _ _ _ h3,
    axisStep_pos _ _ _ h1, axisStep_pos _ _ _ h2, axisStep_pos _ _ _ h3, ite_append, List.nil_append]
  generalize (gridPosition L s).1 = x at *
  generalize (gridPosition L s).2.1 = y at *
  generalize (gridPosition L s).2.2 = z at *
  have e1 : (if x > 0 then [(x - 1) * L.ny * L.nz + y * L.nz + z]
        else if L.px = true then [(L.nx - 1) * L.ny * L.nz + y * L.nz + z] else [])
      = (combine L (if x > 0 then some (x - 1) else if L.px = true then some (L.nx - 1) else none) (some y) (some z)).toList := by
    split_ifs <;> simp [combine, indexOf]
  have e2 : (if x + 1 < L.nx then some ((x + 1) * L.ny * L.nz + y * L.nz + z)
        else if L.px = true then some (y * L.nz + z) else none)
      = combine L (if x + 1 < L.nx then some (x + 1) else if L.px = true then some 0 else none) (some y) (some z) := by
    split_ifs <;> simp [combine, indexOf]
  have e3 : (if y > 0 then some (x * L.ny * L.nz + (y - 1) * L.nz + z)
        else if L.py = true then some (x * L.ny * L.nz + (L.ny - 1) * L.nz + z) else none)
      = combine L (some x) (if y > 0 then some (y - 1) else if L.py = true then some (L.ny - 1) else none) (some z) := by
    split_ifs <;> simp [combine, indexOf]
  have e4 : (if y + 1 < L.ny then some (x * L.ny * L.nz + (y + 1) * L.nz + z)
        else if L.py = true then some (x * L.ny * L.nz + z) else none)
      = combine L (some x) (if y + 1 < L.ny then some (y + 1) else if L.py = true then some 0 else none) (some z) := by
    split_ifs <;> simp [combine, indexOf]
  have e5 : (if z > 0 then some (x * L.ny * L.nz + y * L.nz + z - 1)
        else if L.pz = true then some (x * L.ny * L.nz + y * L.nz + L.nz - 1) else none)
      = combine L (some x) (some y) (if z > 0 then some (z - 1) else if L.pz = true then some (L.nz - 1) else none) := by
    split_ifs <;> simp [combine, indexOf] <;> omega
  have e6 : (if z + 1 < L.nz then some (x * L.ny * L.nz + y * L.nz + z + 1)
        else if L.pz = true then some (x * L.ny * L.nz + y * L.nz) else none)
      = combine L (some x) (some y) (if z + 1 < L.nz then some (z + 1) else if L.pz = true then some 0 else none) := by
    split_ifs <;> simp [combine, indexOf] <;> omega
  rw [e1, e2, e3, e4, e5, e6]
  simp only [List.append_assoc]


/-! ## the chained traversal as a deposit-producing step function -/

section split
variable {σ δ M : Type} [AddCommMonoid M]

/-- The chained traversal (`Model/Handover.lean`, `chainStep`: `interact` cell steps, and at an exit
`get_neighbour` / `output_to_input_direction` / re-entry) as a deposit-producing step function.  `val s dep`
is the contribution of a deposit made in subgrid `s` to the totals `M` — e.g. the function on global cells
that is `path·weight·σ` at the global cell of the deposit and zero elsewhere. -/
def splitStep (L : Layout) (localStep : Nat → σ → LocalStep σ δ) (enter : Nat → Nat → σ → σ) (val : Nat → δ → M) :
    ChainState σ → Option (M × ChainState σ) := fun x =>
  (chainStep L localStep enter x).map fun r =>
    ((match r.1 with
      | some (s, dep) => val s dep
      | none => 0), r.2)


/-- `splitStep` over an arbitrary neighbour table (originals and copies) -/
def splitStepN (nb : Nat → Nat → Option Nat) (localStep : Nat → σ → LocalStep σ δ) (enter : Nat → Nat → σ → σ)
    (val : Nat → δ → M) : ChainState σ → Option (M × ChainState σ) := fun x =>
  (chainStepN nb localStep enter x).map fun r =>
    ((match r.1 with
      | some (s, dep) => val s dep
      | none => 0), r.2)

end split


/-! ## cell level: fold and push -/

theorem updateIntensities_length (L : Layout) (o c : List Nat) : (updateIntensities L o c).length = o.length := by
  simp [updateIntensities]

theorem updateIntensities_getD (L : Layout) (o c : List Nat) (j : Nat) (hj : j < o.length) (ht : j < L.totNcell) :
    (updateIntensities L o c).getD j 0 = o.getD j 0 + c.getD j 0 := by
  unfold updateIntensities
  rw [List.getD_eq_getElem?_getD, List.getElem?_map, List.getElem?_range hj]
  simp [ht]

/-- adding several copies one after the other -/
theorem foldl_updateIntensities_getD (L : Layout) (adds : List (List Nat)) (base : List Nat) (j : Nat)
    (hj : j < base.length) (ht : j < L.totNcell) :
    (adds.foldl (updateIntensities L) base).getD j 0 = base.getD j 0 + (adds.map (fun a => a.getD j 0)).sum := by
  induction adds generalizing base with
  | nil => simp
  | cons a as ih =>
    rw [List.foldl_cons, ih _ (by rw [updateIntensities_length]; exact hj), updateIntensities_getD L base a j hj ht]
    simp [Nat.add_assoc]

theorem foldl_updateIntensities_length (L : Layout) (adds : List (List Nat)) (base : List Nat) :
    (adds.foldl (updateIntensities L) base).length = base.length := by
  induction adds generalizing base with
  | nil => rfl
  | cons a as ih => rw [List.foldl_cons, ih, updateIntensities_length]

theorem getD_set_list {β : Type} (l : List β) (i k : Nat) (v d : β) (hi : i < l.length) :
    (l.set i v).getD k d = if k = i then v else l.getD k d := by
  by_cases h : k = i
  · subst h; simp [List.getD_eq_getElem?_getD, hi]
  · simp [List.getD_eq_getElem?_getD, List.getElem?_set_ne (Ne.symm h), h]

/-- the fold over a list of (original, copy) visits whose originals are below `N` and whose copies are not:
every subgrid below `N` ends up as itself plus, one after the other, the copies of its visits; the others
are unchanged -/
theorem foldl_visits (L : Layout) (N : Nat) (vs : List (Nat × Nat)) :
    ∀ (cells : List (List Nat)), N ≤ cells.length → (∀ v ∈ vs, v.1 < N ∧ N ≤ v.2) → ∀ i,
    (vs.foldl (fun cs v => cs.set v.1 (updateIntensities L (cs.getD v.1 []) (cs.getD v.2 []))) cells).getD i []
      = if i < N then ((vs.filter (fun v => v.1 = i)).map (fun v => cells.getD v.2 [])).foldl (updateIntensities L) (cells.getD i [])
        else cells.getD i [] := by
  induction vs with
  | nil => intro cells _ _ i; simp
  | cons v vs ih =>
    intro cells hN hv i
    have hv0 := hv v (List.mem_cons_self ..)
    have hvs : ∀ w ∈ vs, w.1 < N ∧ N ≤ w.2 := fun w hw => hv w (List.mem_cons_of_mem _ hw)
    rw [List.foldl_cons, ih _ (by rw [List.length_set]; exact hN) hvs i]
    have hset : ∀ k, (cells.set v.1 (updateIntensities L (cells.getD v.1 []) (cells.getD v.2 []))).getD k []
        = if k = v.1 then updateIntensities L (cells.getD v.1 []) (cells.getD v.2 []) else cells.getD k [] :=
      fun k => getD_set_list cells v.1 k _ _ (by omega)
    have hcopy : ∀ w ∈ vs, (cells.set v.1 (updateIntensities L (cells.getD v.1 []) (cells.getD v.2 []))).getD w.2 []
        = cells.getD w.2 [] := by
      intro w hw
      rw [hset]; have := hvs w hw
      rw [if_neg (by omega)]
    have hmap : (vs.filter (fun w => w.1 = i)).map (fun w => (cells.set v.1 (updateIntensities L (cells.getD v.1 []) (cells.getD v.2 []))).getD w.2 [])
        = (vs.filter (fun w => w.1 = i)).map (fun w => cells.getD w.2 []) := by
      apply List.map_congr_left
      intro w hw
      exact hcopy w (List.mem_of_mem_filter hw)
    rw [hmap, hset]
    by_cases hi : i < N
    · rw [if_pos hi, if_pos hi]
      by_cases hiv : v.1 = i
      · rw [List.filter_cons_of_pos (by simpa using hiv), List.map_cons, List.foldl_cons, if_pos hiv.symm, hiv]
      · rw [List.filter_cons_of_neg (by simpa using hiv), if_neg (Ne.symm hiv)]
    · rw [if_neg hi, if_neg hi, if_neg (by omega)]

theorem updateNeutralFractions_eq (L : Layout) (copy orig : List Nat) (h1 : copy.length = L.totNcell)
    (h2 : orig.length = L.totNcell) : updateNeutralFractions L copy orig = orig := by
  apply List.ext_getElem
  · simp [updateNeutralFractions, h1, h2]
  · intro i hi1 hi2
    simp only [updateNeutralFractions, List.getElem_map, List.getElem_range]
    rw [if_pos (by rw [← h2]; exact hi2)]
    simp [List.getD_eq_getElem?_getD, hi2]

/-- pushing the state to the copies: every visited copy receives the state of its visit's original (which is
never modified), every other subgrid is unchanged -/
theorem foldl_push (L : Layout) (N : Nat) (vs : List (Nat × Nat)) :
    ∀ (cells : List (List Nat)), (∀ v ∈ vs, v.1 < N ∧ N ≤ v.2 ∧ v.2 < cells.length) → (vs.map Prod.snd).Nodup →
    (∀ v ∈ vs, (vs.foldl (fun cs v => cs.set v.2 (updateNeutralFractions L (cs.getD v.2 []) (cs.getD v.1 []))) cells).getD v.2 []
        = updateNeutralFractions L (cells.getD v.2 []) (cells.getD v.1 [])) ∧
    (∀ i, (∀ v ∈ vs, v.2 ≠ i) →
      (vs.foldl (fun cs v => cs.set v.2 (updateNeutralFractions L (cs.getD v.2 []) (cs.getD v.1 []))) cells).getD i [] = cells.getD i []) := by
  induction vs with
  | nil => intro cells _ _; exact ⟨fun v hv => absurd hv (List.not_mem_nil), fun i _ => rfl⟩
  | cons v vs ih =>
    intro cells hv hnd
    rw [List.map_cons, List.nodup_cons] at hnd
    have hv0 := hv v (List.mem_cons_self ..)
    have hset : ∀ k, (cells.set v.2 (updateNeutralFractions L (cells.getD v.2 []) (cells.getD v.1 []))).getD k []
        = if k = v.2 then updateNeutralFractions L (cells.getD v.2 []) (cells.getD v.1 []) else cells.getD k [] :=
      fun k => getD_set_list cells v.2 k _ _ hv0.2.2
    have hvs : ∀ w ∈ vs, w.1 < N ∧ N ≤ w.2 ∧ w.2 < (cells.set v.2 (updateNeutralFractions L (cells.getD v.2 []) (cells.getD v.1 []))).length :=
      fun w hw => by rw [List.length_set]; exact hv w (List.mem_cons_of_mem _ hw)
    obtain ⟨ih1, ih2⟩ := ih _ hvs hnd.2
    have hne : ∀ w ∈ vs, w.2 ≠ v.2 := fun w hw h => hnd.1 (h ▸ List.mem_map_of_mem hw)
    constructor
    · intro w hw
      rw [List.foldl_cons]
      rcases List.mem_cons.mp hw with rfl | hw'
      · rw [ih2 _ (fun u hu => hne u hu), hset, if_pos rfl]
      · have hw1 := hv w hw
        rw [ih1 w hw', hset, hset, if_neg (hne w hw'), if_neg (by omega)]
    · intro i hi
      rw [List.foldl_cons, ih2 i (fun u hu => hi u (List.mem_cons_of_mem _ hu)), hset,
        if_neg (fun h => hi v (List.mem_cons_self ..) h.symm)]

/-! ## the `_copies` table over a history of `create_copies` / `update_copies` -/

theorem buildCopies_inv (N : Nat) (ls : List Nat) : ∀ (size : Nat) (prev : List Nat), N ≤ size →
    (∀ p ∈ prev, p = noCopy ∨ N ≤ p) → ∀ p ∈ buildCopies size prev ls, p = noCopy ∨ N ≤ p := by
  induction ls with
  | nil => intro size prev _ _ p hp; simp [buildCopies] at hp
  | cons l ls ih =>
    intro size prev hs hprev p hp
    simp only [buildCopies, List.mem_cons] at hp
    rcases hp with rfl | hp
    · split_ifs
      · right; exact hs
      · cases prev with
        | nil => left; rfl
        | cons q qs => simpa using hprev q (List.mem_cons_self ..)
    · exact ih _ _ (by omega) (fun q hq => hprev q (List.mem_of_mem_tail hq)) p hp

/-- `_copies` after the constructor and any sequence of level assignments (`create_copies`, then `update_copies`) -/
def copiesAfter (L : Layout) (hist : List (List Nat)) : List Nat :=
  hist.foldl (fun prev lv => buildCopies L.size prev lv) (List.replicate L.size noCopy)

theorem copiesAfter_inv (L : Layout) (hist : List (List Nat)) :
    ∀ p ∈ copiesAfter L hist, p = noCopy ∨ L.size ≤ p := by
  unfold copiesAfter
  suffices h : ∀ (init : List Nat), (∀ p ∈ init, p = noCopy ∨ L.size ≤ p) →
      ∀ p ∈ hist.foldl (fun prev lv => buildCopies L.size prev lv) init, p = noCopy ∨ L.size ≤ p from
    h _ (fun p hp => Or.inl (List.eq_of_mem_replicate hp))
  induction hist with
  | nil => intro init h; exact h
  | cons lv hist ih =>
    intro init h
    rw [List.foldl_cons]
    exact ih _ (buildCopies_inv L.size lv L.size init (le_refl _) h)

end CMacVerif.SubgridLayout
