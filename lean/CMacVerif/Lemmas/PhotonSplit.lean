import CMacVerif.Model.PhotonProtocol
import Mathlib.Tactic.SplitIfs
/-! C01: the split of the requested packet number by `DistributedPhotonSource` (constructor and
`get_photon_batch`) is exact. -/
namespace CMacVerif.Photon

theorem sum_map_const_add (l : List Nat) (q : Nat) (f : Nat → Nat) :
    (l.map fun i => q + f i).sum = l.length * q + (l.map f).sum := by
  induction l with
  | nil => simp
  | cons a l ih => simp only [List.map_cons, List.sum_cons, List.length_cons, ih]; rw [Nat.add_mul]; omega

theorem sum_indicator_lt (n r : Nat) (h : r ≤ n) : ((List.range n).map fun i => if i < r then 1 else 0).sum = r := by
  induction n with
  | zero => simp at h; subst h; rfl
  | succ n ih =>
    rw [List.range_succ, List.map_append, List.sum_append]
    by_cases hr : r ≤ n
    · rw [ih hr]
      have : ¬ n < r := by omega
      simp [this]
    · have hrn : r = n + 1 := by omega
      subst hrn
      have h1 : ((List.range n).map fun i => if i < n + 1 then 1 else 0) = (List.range n).map fun _ => 1 := by
        apply List.map_congr_left
        intro i hi; have := List.mem_range.mp hi
        simp; omega
      rw [h1]
      have h2 : ∀ m : Nat, ((List.range m).map fun _ => 1).sum = m := by
        intro m
        induction m with
        | zero => rfl
        | succ m ihm => rw [List.range_succ, List.map_append, List.sum_append, ihm]; simp
      rw [h2 n]
      simp

/-- the copies of one source get `number_this_source` packets in total -/
theorem perCopy_sum (nThis ncopy : Nat) (h : 0 < ncopy) : (perCopy nThis ncopy).sum = nThis := by
  unfold perCopy
  rw [sum_map_const_add, sum_indicator_lt ncopy (nThis % ncopy) (Nat.le_of_lt (Nat.mod_lt _ h)), List.length_range]
  exact Nat.div_add_mod nThis ncopy

theorem perCopy_length (nThis ncopy : Nat) : (perCopy nThis ncopy).length = ncopy := by simp [perCopy]

def sumFst (l : List (Nat × Nat)) : Nat := (l.map (·.1)).sum

theorem splitLoop_spec : ∀ (srcs : List (Nat × Nat)) (tot ovh : List Nat),
    (∀ p ∈ srcs, 0 < p.2) → (∀ o ∈ ovh, o < tot.length) →
    (splitLoop srcs (tot, ovh)).1.sum = tot.sum + sumFst srcs ∧
    (∀ o ∈ (splitLoop srcs (tot, ovh)).2, o < (splitLoop srcs (tot, ovh)).1.length) ∧
    (splitLoop srcs (tot, ovh)).2.length = ovh.length + srcs.length ∧
    tot.length ≤ (splitLoop srcs (tot, ovh)).1.length := by
  intro srcs
  induction srcs with
  | nil => intro tot ovh _ ho; simp [splitLoop, sumFst]; exact ho
  | cons p rest ih =>
    intro tot ovh hp ho
    obtain ⟨nThis, ncopy⟩ := p
    have hc : 0 < ncopy := hp (nThis, ncopy) List.mem_cons_self
    simp only [splitLoop]
    have hlen : (tot ++ perCopy nThis ncopy).length = tot.length + ncopy := by
      rw [List.length_append, perCopy_length]
    have := ih (tot ++ perCopy nThis ncopy) (ovh ++ [tot.length + nThis % ncopy])
      (fun q hq => hp q (List.mem_cons_of_mem _ hq))
      (by
        intro o ho'
        rw [hlen]
        rcases List.mem_append.mp ho' with h1 | h1
        · have := ho o h1; omega
        · simp at h1; subst h1; have := Nat.mod_lt nThis hc; omega)
    obtain ⟨h1, h2, h3, h4⟩ := this
    refine ⟨?_, h2, ?_, ?_⟩
    · rw [h1, List.sum_append, perCopy_sum _ _ hc]
      simp only [sumFst, List.map_cons, List.sum_cons]; omega
    · rw [h3]; simp; omega
    · rw [hlen] at h4; omega

theorem bump_sum (l : List Nat) (k : Nat) (h : k < l.length) : (bump l k).sum = l.sum + 1 := by
  induction l generalizing k with
  | nil => simp at h
  | cons a l ih =>
    cases k with
    | zero => simp [bump, List.modify]; omega
    | succ k =>
      have := ih k (by simpa using h)
      simp only [bump, List.modify_succ_cons, List.sum_cons] at this ⊢
      omega

theorem bump_length (l : List Nat) (k : Nat) : (bump l k).length = l.length := by simp [bump]

theorem applyPicks_sum (ovh : List Nat) : ∀ (picks tot : List Nat), 0 < tot.length → (∀ o ∈ ovh, o < tot.length) →
    (applyPicks tot ovh picks).sum = tot.sum + picks.length := by
  intro picks
  induction picks with
  | nil => intro tot _ _; simp [applyPicks]
  | cons p ps ih =>
    intro tot ht ho
    simp only [applyPicks]
    have hidx : ovh.getD p 0 < tot.length := by
      by_cases hp : p < ovh.length
      · have : ovh.getD p 0 = ovh[p] := by simp [List.getD, hp]
        rw [this]; exact ho _ (List.getElem_mem hp)
      · have : ovh.getD p 0 = 0 := by simp [List.getD, hp]
        rw [this]; exact ht
    rw [ih _ (by rw [bump_length]; exact ht) (by intro o h; rw [bump_length]; exact ho o h), bump_sum _ _ hidx]
    simp; omega

/-- `get_photon_batch`: the batches of a source copy -/
theorem batches_spec (max : Nat) (hmax : 0 < max) : ∀ (fuel left : Nat), left ≤ fuel →
    (batches max fuel left).sum = left ∧ ∀ b ∈ batches max fuel left, 1 ≤ b ∧ b ≤ max := by
  intro fuel
  induction fuel with
  | zero => intro left h; have : left = 0 := by omega
            subst this; simp [batches]
  | succ fuel ih =>
    intro left h
    simp only [batches]
    split_ifs with h0
    · rcases h0 with h0 | h0
      · subst h0; simp
      · omega
    · have hl : 0 < left := by omega
      have hm : min max left ≤ left := Nat.min_le_right _ _
      have hm1 : 1 ≤ min max left := by
        rw [Nat.le_min]; exact ⟨hmax, hl⟩
      obtain ⟨h1, h2⟩ := ih (left - min max left) (by omega)
      refine ⟨?_, ?_⟩
      · simp only [List.sum_cons, h1]; omega
      · intro b hb
        rcases List.mem_cons.mp hb with e | e
        · subst e; exact ⟨hm1, Nat.min_le_left _ _⟩
        · exact h2 b e

end CMacVerif.Photon
