import CMacVerif.Lemmas.PhotonProgress
import CMacVerif.Lemmas.PhotonSplit
/-! C01: the state at the start of an iteration and the reachable states of protocol and worker loop. -/
namespace CMacVerif.Photon
open CMacVerif.Worker (sumOver sumOver_congr sumOver_le)

/-! ## The start of an iteration -/

theorem init_weight (cfg : Cfg) (w : Nat → Nat) (srcIds : Nat → List Nat) (contIds : List Nat) :
    weight cfg w (init srcIds contIds) = sumOver (List.range cfg.nsrc) (fun i => wsum w (srcIds i)) + wsum w contIds := by
  simp only [weight, init, wsum_nil, taskW_none, bufW_none, sumOver_zero']
  omega

theorem sumOver_flatten (w : Nat → Nat) (n : Nat) (f : Nat → List Nat) :
    sumOver (List.range n) (fun i => wsum w (f i)) = wsum w ((List.range n).map f).flatten := by
  induction (List.range n) with
  | nil => rfl
  | cons a l ih =>
    simp only [sumOver, List.map_cons, List.sum_cons, List.flatten_cons, wsum_append] at ih ⊢
    omega

theorem wsum_perm (w : Nat → Nat) {a b : List Nat} (h : a.Perm b) : wsum w a = wsum w b := by
  unfold wsum; exact (h.map w).sum_nat

theorem start_weight {cfg : Cfg} {srcIds : Nat → List Nat} {contIds : List Nat} (h : Start cfg srcIds contIds)
    (w : Nat → Nat) : weight cfg w (init srcIds contIds) = wsum w (List.range cfg.N) := by
  rw [init_weight, sumOver_flatten, ← wsum_append]
  exact wsum_perm w h

theorem start_total {cfg : Cfg} {srcIds : Nat → List Nat} {contIds : List Nat} (h : Start cfg srcIds contIds) :
    weight cfg (fun _ => 1) (init srcIds contIds) = cfg.N := by
  rw [start_weight h, wsum_one, List.length_range]

theorem count_range (N p : Nat) : (List.range N).count p = if p < N then 1 else 0 := by
  split_ifs with h
  · exact List.count_eq_one_of_mem List.nodup_range (List.mem_range.mpr h)
  · exact List.count_eq_zero.mpr (by simpa using h)

/-- reachable states -/
theorem reachable {cfg : Cfg} {srcIds : Nat → List Nat} {contIds : List Nat} (h0 : Start cfg srcIds contIds)
    {ls : List Label} {s : State} (hrun : run cfg (init srcIds contIds) ls = some s) :
    Reach cfg (init srcIds contIds) s :=
  reach_run (start_total h0) ls _ s (reach_init cfg srcIds contIds) hrun

theorem taskPackets_eq (t : Option Task) : taskW (fun _ => 1) t = taskPackets t := by
  cases t with
  | none => rfl
  | some tk => cases tk with | mk k st => cases k <;> simp [taskPackets, wsum_one]


/-- every execution of the threads is an execution of the protocol: all statements above hold in every
state the threads can reach.  `hloop`: the fixed loop condition, or (old condition) no continuous source -/
theorem loop_reachable {cfg : Cfg} {srcIds : Nat → List Nat} {contIds : List Nat} (h0 : Start cfg srcIds contIds)
    (hloop : cfg.loopFixed = true ∨ contIds = [])
    {ls : List LLabel} {s : LState} (hrun : lrun cfg (linit srcIds contIds) ls = some s) :
    LInv cfg (init srcIds contIds) s ∧ LOwn cfg s :=
  lrun_inv (start_total h0) ls _ s (linit_inv cfg srcIds contIds) (linit_own cfg srcIds contIds hloop) hrun

end CMacVerif.Photon
