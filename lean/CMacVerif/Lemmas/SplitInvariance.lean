import CMacVerif.Lemmas.RayMarch
import CMacVerif.Lemmas.SubgridLayout
set_option linter.unusedSectionVars false
set_option linter.unusedVariables false
set_option linter.unreachableTactic false
set_option linter.unusedTactic false
set_option linter.unnecessarySeqFocus false
/-!
# Split invariance: chained subgrid marches = march over the undivided grid (C03 with C02's model)

Instantiates the chained traversal of `Model/Handover.lean` with C02's `step` / `initSt`
(`Model/RayMarch.lean`) for every subgrid of a layout, and proves the single-step commutation
(`step_commutes`) against a reference run on the unfolded lattice of cells: a pass with exactly
corresponding indices is the pass of the reference run (translation invariance, `step_real`); after an
index was recomputed on a cell wall the split run makes one pass of length zero (`step_stutter`); a
hand-over (`raw_exit_some`, per axis `entry_axis`) re-establishes the correspondence in the neighbour,
wrapped by whole box lengths on periodic axes.  `split_invariance` applies this to the layout and to the
same grid as a single block.  Exact arithmetic over any linearly ordered field.
-/
namespace CMacVerif.Split
open CMacVerif.RayMarch
open CMacVerif.SubgridLayout (Layout gridPosition indexOf ngb outToInDir offsetOf comp clsOfOffset exitClass axisStep wrapAxis StepCommutes runSum Halts sim_totals)
open CMacVerif.Handover (LocalStep ChainState chainStep)

variable {K : Type} [Field K] [LinearOrder K] [IsStrictOrderedRing K]

/-! ## bridging the two generated table files (both regenerated from the same headers) -/

def axNum : Ax → Nat
  | .x => 0
  | .y => 1
  | .z => 2

theorem bridge_pin : ∀ d, d < 27 → ∀ a : Ax,
    pinKind d a = SubgridLayout.pinAt d (axNum a) ∧ idxKind d a = SubgridLayout.idxClassAt d (axNum a) := by
  intro d hd a
  revert d
  cases a <;> decide

theorem bridge_mask : ∀ m, m < 64 → RayMarch.maskDir m = SubgridLayout.maskDir m := by decide

theorem dirInside_eq : CMacVerif.Gen.TDC02.dirInside = 0 := by decide

/-! ## one axis -/

/-- wall distance `l[a]` for the cell with (integer) index `i` of size `h`, position `p`, direction `d` -/
def lAx (d h p : K) (i : Int) : K := wallDist d (1.0 / d) ((i : K) * h) (((i : K) + 1) * h) p

/-- translation invariance of the wall distance: shifting cell index and position by `k` cells changes nothing -/
theorem lAx_shift (d h p : K) (i k : Int) : lAx d h (p + (k : K) * h) (i + k) = lAx d h p i := by
  unfold lAx
  rcases lt_trichotomy d 0 with hn | hz | hp
  · rw [wallDist_neg hn, wallDist_neg hn]; push_cast; ring
  · subst hz; rw [wallDist_zero, wallDist_zero]
  · rw [wallDist_pos hp, wallDist_pos hp]; push_cast; ring

theorem lAx_zero_of_low {d h p : K} {i : Int} (hd : d < 0) (hp : p = (i : K) * h) : lAx d h p i = 0 := by
  unfold lAx; rw [wallDist_neg hd, hp]; simp

theorem lAx_pos_of_inside {d h p : K} {i : Int} (hd : d ≠ 0)
    (h1 : (i : K) * h ≤ p) (h2 : p ≤ ((i : K) + 1) * h)
    (hup : 0 < d → p < ((i : K) + 1) * h) (hlo : d < 0 → (i : K) * h < p) : 0 < lAx d h p i := by
  unfold lAx
  rcases lt_or_gt_of_ne hd with hn | hp
  · rw [wallDist_neg hn]; exact div_pos_of_neg_of_neg (by have := hlo hn; linarith) hn
  · rw [wallDist_pos hp]; exact div_pos (by have := hup hp; linarith) hp

/-- strictness after a "leave" pass on one axis: the new position is strictly before the wall the
packet travels to (for `d ≥ 0`) and strictly above the lower wall of the new cell (for `d < 0`) -/
theorem axis_leave_strict {h d p lam : K} {i : Int} (hh : 0 < h)
    (h1 : (i : K) * h ≤ p) (h2 : p ≤ ((i : K) + 1) * h)
    (hgood : 0 ≤ d → p < ((i : K) + 1) * h)
    (h0 : 0 ≤ lam) (hle : lam ≤ lAx d h p i) (hne : d = 0 → lAx d h p i ≠ lam) :
    (0 ≤ d → p + lam * d < ((bumpAxis d (lAx d h p i) lam i : Int) : K) * h + h) ∧
    (d < 0 → ((bumpAxis d (lAx d h p i) lam i : Int) : K) * h < p + lam * d) := by
  rw [bumpAxis_eq]
  rcases lt_trichotomy d 0 with hn | hz | hp
  · have hw := wallDist_mul hn.ne ((i : K) * h) (((i : K) + 1) * h) p
    unfold wall at hw; rw [if_neg (not_lt.mpr hn.le)] at hw
    change lAx d h p i * d = _ at hw
    refine ⟨fun h => absurd hn (not_lt.mpr h), fun _ => ?_⟩
    by_cases heq : lAx d h p i = lam
    · rw [if_pos heq, if_neg (not_lt.mpr hn.le)]
      have : p + lam * d = (i : K) * h := by rw [← heq]; linarith
      rw [this]; push_cast; linarith
    · rw [if_neg heq]
      have hlt : lam < lAx d h p i := lt_of_le_of_ne hle (Ne.symm heq)
      nlinarith
  · subst hz
    refine ⟨fun _ => ?_, fun h => absurd h (lt_irrefl _)⟩
    rw [if_neg (hne rfl)]
    have := hgood (le_refl _)
    simp only [mul_zero, add_zero]; linarith
  · have hw := wallDist_mul hp.ne' ((i : K) * h) (((i : K) + 1) * h) p
    unfold wall at hw; rw [if_pos hp] at hw
    change lAx d h p i * d = _ at hw
    refine ⟨fun _ => ?_, fun h => absurd hp (not_lt.mpr h.le)⟩
    by_cases heq : lAx d h p i = lam
    · rw [if_pos heq, if_pos hp]
      have : p + lam * d = ((i : K) + 1) * h := by rw [← heq]; linarith
      rw [this]; push_cast; linarith
    · rw [if_neg heq]
      have hlt : lam < lAx d h p i := lt_of_le_of_ne hle (Ne.symm heq)
      nlinarith


/-! ## the split run: `MarchModel` instance built from C02's `step` / `initSt` -/

/-- geometry of the whole grid in exact arithmetic: box anchor and cell size (the creator computes the
subgrid side as box side / number of subgrids and the cell size as subgrid side / cells per subgrid: in
exact arithmetic every subgrid has the same cell size `h`) -/
structure Geom (K : Type) where
  A : V3 K
  h : V3 K

def mV (L : Layout) : V3 Nat := ⟨L.mx, L.my, L.mz⟩
def nV (L : Layout) : V3 Nat := ⟨L.nx, L.ny, L.nz⟩
def pV (L : Layout) : V3 Bool := ⟨L.px, L.py, L.pz⟩
/-- cells of the whole grid per axis -/
def NV (L : Layout) : V3 Nat := ⟨L.nx * L.mx, L.ny * L.my, L.nz * L.mz⟩
def posV (L : Layout) (s : Nat) : V3 Nat := ⟨(gridPosition L s).1, (gridPosition L s).2.1, (gridPosition L s).2.2⟩
/-- global index of the first cell of subgrid `s` on axis `a` -/
def off (L : Layout) (s : Nat) (a : Ax) : Int := ((posV L s).get a : Int) * ((mV L).get a : Int)

/-- the `DensitySubGrid` of subgrid `s` (what `create_subgrid` constructs) -/
def blockOf (g : Geom K) (L : Layout) (s : Nat) : Block K :=
  { anchor := V3.of fun a => g.A.get a + (off L s a : K) * g.h.get a
    cs := g.h
    inv := V3.of fun a => 1 / g.h.get a
    n := mV L }

/-- local one-index → local three-index -/
def decode (m : V3 Nat) (c : Nat) : V3 Int :=
  ⟨((c / (m.y * m.z) : Nat) : Int), (((c % (m.y * m.z)) / m.z : Nat) : Int), (((c % (m.y * m.z)) % m.z : Nat) : Int)⟩

/-- cell contents of subgrid `s`: the global field (a function of the global three-index) seen through
the local one-index -/
def cellsOf (field : Int × Int × Int → Cell K) (L : Layout) (s : Nat) : Nat → Cell K := fun c =>
  field ((decode (mV L) c).x + off L s .x, (decode (mV L) c).y + off L s .y, (decode (mV L) c).z + off L s .z)

/-- the newest visit of a loop state (every pass of the loop body records one) -/
def lastVisit (ph : Photon K) (s : St K) : Visit K :=
  match s.out with
  | v :: _ => v
  | [] => visit ph s.idx 0 0.0

/-- what `interact` writes back into the packet when the loop is over -/
def writeBack (b : Block K) (ph : Photon K) (s : St K) : Photon K :=
  { ph with pos := V3.of fun a => s.pos.get a + b.anchor.get a, tau := ph.tau - s.tauDone }

/-- one pass of the `interact` loop in subgrid `s`, and what follows when the loop condition fails
afterwards (`tau_done >= tau_target`: absorbed; index outside: exit through `get_output_direction`) -/
def localStep (g : Geom K) (field : Int × Int × Int → Cell K) (L : Layout) (s : Nat)
    (x : Photon K × St K) : LocalStep (Photon K × St K) (Visit K) :=
  let b := blockOf g L s
  let st' := step b (cellsOf field L s) x.1 x.2
  let v := lastVisit x.1 st'
  if x.1.tau ≤ st'.tauDone then .absorbed v (writeBack b x.1 st', st')
  else if inside b.n st'.idx then .move v (x.1, st')
  else .exit v (RayMarch.outputDirection b.n st'.idx).toNat (writeBack b x.1 st', st')

/-- the beginning of `interact` in the neighbour: `position - anchor`, `update_photon_position`, `get_start_index` -/
def enterStep (g : Geom K) (L : Layout) (t inDir : Nat) (x : Photon K × St K) : Photon K × St K :=
  (x.1, initSt (blockOf g L t) x.1 inDir)

/-- `get_subgrid(position)`: `floor((x - anchor) / subgrid_side)` per axis -/
def subgridOf (g : Geom K) (L : Layout) (p : V3 K) : Nat :=
  let c : Ax → Nat := fun a =>
    floorUpTo ((nV L).get a) ((p.get a - g.A.get a) / (ofNat ((mV L).get a) * g.h.get a))
  indexOf L (c .x) (c .y) (c .z)

abbrev Totals := Int × Int × Int → K

/-- contribution of a visit in subgrid `s` to the per-cell path totals: its path, at its global cell -/
def valOf (L : Layout) (s : Nat) (v : Visit K) : Int × Int × Int → K :=
  Pi.single (v.idx.x + off L s .x, v.idx.y + off L s .y, v.idx.z + off L s .z) v.path

/-! ## the reference run: the same march on the unfolded (periodically continued) lattice of cells,
without subgrids, without repositioning, without index recomputation -/

structure Env (K : Type) where
  h : V3 K
  N : V3 Nat
  per : V3 Bool
  field : Int × Int × Int → Cell K
  pk : Photon K

structure CS (K : Type) where
  X : V3 K         -- position relative to the box anchor (unfolded)
  G : V3 Int       -- cell index (unfolded)
  td : K           -- optical depth done

inductive CState (K : Type) where
  | run (c : CS K)
  | absorbed (c : CS K)
  | escaped (c : CS K)

def key (N : V3 Nat) (G : V3 Int) : Int × Int × Int := (G.x % (N.x : Int), G.y % (N.y : Int), G.z % (N.z : Int))

def cl (e : Env K) (c : CS K) (a : Ax) : K := lAx (e.pk.dir.get a) (e.h.get a) (c.X.get a) (c.G.get a)
def clmin (e : Env K) (c : CS K) : K := lmin3 (V3.of (cl e c))
def ctau (e : Env K) (c : CS K) : K := opticalDepth (e.field (key e.N c.G)) e.pk (clmin e c)

/-- the index left the grid on a non-periodic axis -/
def cOut (e : Env K) (c : CS K) (a : Ax) : Bool :=
  !e.per.get a && (decide (c.G.get a < 0) || decide ((e.N.get a : Int) ≤ c.G.get a))

def cLeave (e : Env K) (c : CS K) : CS K :=
  { X := V3.of fun a => c.X.get a + clmin e c * e.pk.dir.get a
    G := V3.of fun a => bumpAxis (e.pk.dir.get a) (cl e c a) (clmin e c) (c.G.get a)
    td := c.td + ctau e c }

def cStopPath (e : Env K) (c : CS K) : K := clmin e c * (1.0 - (c.td + ctau e c - e.pk.tau) / ctau e c)

def cStop (e : Env K) (c : CS K) : CS K :=
  { X := V3.of fun a => c.X.get a + cStopPath e c * e.pk.dir.get a, G := c.G, td := c.td + ctau e c }

def cstep (e : Env K) : CState K → Option ((Int × Int × Int → K) × CState K)
  | .run c =>
    if e.pk.tau ≤ c.td + ctau e c then
      some (Pi.single (key e.N c.G) (cStopPath e c), .absorbed (cStop e c))
    else
      some (Pi.single (key e.N c.G) (clmin e c),
        if cOut e (cLeave e c) .x || cOut e (cLeave e c) .y || cOut e (cLeave e c) .z
        then .escaped (cLeave e c) else .run (cLeave e c))
  | _ => none


/-! ## standing assumptions and the state correspondence -/

/-- what the theorem assumes about grid, cell contents and packet (C02's `Valid`, for every subgrid) -/
structure Ok (g : Geom K) (L : Layout) (field : Int × Int × Int → Cell K) (pk : Photon K) : Prop where
  h_pos : ∀ a, 0 < g.h.get a
  m_pos : ∀ a, 0 < (mV L).get a
  moving : ∃ a, pk.dir.get a ≠ 0
  big : ∀ a, pk.dir.get a ≠ 0 → g.h.get a < dblMax * |pk.dir.get a|
  kappa_nonneg : ∀ k, 0 ≤ kappa (field k) pk
  tau_pos : 0 < pk.tau

def envOf (g : Geom K) (L : Layout) (field : Int × Int × Int → Cell K) (pk : Photon K) : Env K :=
  { h := g.h, N := NV L, per := pV L, field := field, pk := pk }

/-- index correspondence on one axis: exact, or the split run is one cell ahead (it recomputed the index
from a coordinate that lies exactly on a cell wall while moving in the negative direction) -/
def AxRel (d h pos : K) (idx sh G : Int) : Prop :=
  G = idx + sh ∨ (G + 1 = idx + sh ∧ d < 0 ∧ pos = (idx : K) * h)

def Ahead (d h pos : K) (idx sh G : Int) : Prop := G + 1 = idx + sh ∧ d < 0 ∧ pos = (idx : K) * h

structure RelWith (g : Geom K) (e : Env K) (L : Layout) (s : Nat) (ph : Photon K) (st : St K) (c : CS K)
    (sh : V3 Int) : Prop where
  slt : s < L.size
  shift : ∀ a, ∃ w : Int, sh.get a = off L s a + w * (e.N.get a : Int) ∧ (e.per.get a = false → w = 0)
  dir : ph.dir = e.pk.dir
  sigH : ph.sigH = e.pk.sigH
  sigHe : ph.sigHe = e.pk.sigHe
  tau : ph.tau - st.tauDone = e.pk.tau - c.td
  run : st.tauDone < ph.tau
  td0 : 0 ≤ st.tauDone
  pos : ∀ a, c.X.get a = st.pos.get a + (sh.get a : K) * e.h.get a
  idx : ∀ a, AxRel (ph.dir.get a) (e.h.get a) (st.pos.get a) (st.idx.get a) (sh.get a) (c.G.get a)
  inr : InRange (mV L) st.idx
  cgood : ∀ a, (c.G.get a : K) * e.h.get a ≤ c.X.get a ∧ c.X.get a ≤ ((c.G.get a : K) + 1) * e.h.get a
    ∧ (0 ≤ e.pk.dir.get a → c.X.get a < ((c.G.get a : K) + 1) * e.h.get a)
    ∧ (e.pk.dir.get a < 0 → (c.G.get a : K) * e.h.get a < c.X.get a)
  cin : ∀ a, e.per.get a = false → 0 ≤ c.G.get a ∧ c.G.get a < (e.N.get a : Int)
  fresh : (∃ a, st.pos.get a = top (blockOf g L s) a) →
    ∀ b, Ahead (ph.dir.get b) (e.h.get b) (st.pos.get b) (st.idx.get b) (sh.get b) (c.G.get b) → 1 ≤ st.idx.get b

def Rel (g : Geom K) (e : Env K) (L : Layout) (s : Nat) (ph : Photon K) (st : St K) (c : CS K) : Prop :=
  ∃ sh, RelWith g e L s ph st c sh

section basics
variable (g : Geom K) (L : Layout) (field : Int × Int × Int → Cell K) (pk : Photon K)

@[simp] theorem blockOf_cs (s : Nat) : (blockOf g L s).cs = g.h := rfl
@[simp] theorem blockOf_n (s : Nat) : (blockOf g L s).n = mV L := rfl
@[simp] theorem envOf_h : (envOf g L field pk).h = g.h := rfl
@[simp] theorem envOf_N : (envOf g L field pk).N = NV L := rfl
@[simp] theorem envOf_per : (envOf g L field pk).per = pV L := rfl
@[simp] theorem envOf_field : (envOf g L field pk).field = field := rfl
@[simp] theorem envOf_pk : (envOf g L field pk).pk = pk := rfl

theorem kappa_congr (c : Cell K) (ph : Photon K) (h1 : ph.sigH = pk.sigH) (h2 : ph.sigHe = pk.sigHe) :
    kappa c ph = kappa c pk := by unfold kappa; rw [h1, h2]

theorem opticalDepth_congr (c : Cell K) (ph : Photon K) (h1 : ph.sigH = pk.sigH) (h2 : ph.sigHe = pk.sigHe) (x : K) :
    opticalDepth c ph x = opticalDepth c pk x := by unfold opticalDepth; rw [h1, h2]

/-- C02's standing assumptions hold in every subgrid for a packet in progress -/
theorem valid_of (hok : Ok g L field pk) (s : Nat) (ph : Photon K) (hd : ph.dir = pk.dir)
    (h1 : ph.sigH = pk.sigH) (h2 : ph.sigHe = pk.sigHe) (ht : 0 < ph.tau) :
    Valid (blockOf g L s) (cellsOf field L s) ph where
  cs_pos := hok.h_pos
  n_pos := hok.m_pos
  moving := by rw [hd]; exact hok.moving
  big := by rw [hd]; exact hok.big
  kappa_nonneg := fun c => by
    unfold cellsOf; rw [kappa_congr pk _ ph h1 h2]; exact hok.kappa_nonneg _
  tau_pos := ht
end basics


/-! ## cell lookup -/

theorem decode_oneIndex (m : V3 Nat) (i : V3 Int) (hr : InRange m i) :
    decode m (oneIndex m i).toNat = i := by
  have hx := hr .x; have hy := hr .y; have hz := hr .z
  simp only [V3.get] at hx hy hz
  obtain ⟨x, hxe⟩ := Int.eq_ofNat_of_zero_le hx.1
  obtain ⟨y, hye⟩ := Int.eq_ofNat_of_zero_le hy.1
  obtain ⟨z, hze⟩ := Int.eq_ofNat_of_zero_le hz.1
  have hyl : y < m.y := by omega
  have hzl : z < m.z := by omega
  let Lm : Layout := ⟨1, m.y, m.z, 1, 1, 1, false, false, false⟩
  have hone : (oneIndex m i).toNat = indexOf Lm x y z := by
    unfold oneIndex indexOf
    rw [hxe, hye, hze]
    have : ((x : Int) * ((m.y : Int) * (m.z : Int)) + (y : Int) * (m.z : Int) + (z : Int))
        = ((x * m.y * m.z + y * m.z + z : Nat) : Int) := by push_cast; ring
    rw [this, Int.toNat_natCast]
  have hg := SubgridLayout.gridPosition_indexOf Lm x y z hyl hzl
  rw [SubgridLayout.gridPosition_eq] at hg
  have h1 : indexOf Lm x y z / (m.y * m.z) = x := congrArg Prod.fst hg
  have h2 : indexOf Lm x y z % (m.y * m.z) / m.z = y := congrArg (fun p => p.2.1) hg
  have h3 : indexOf Lm x y z % (m.y * m.z) % m.z = z := congrArg (fun p => p.2.2) hg
  unfold decode
  rw [hone, h1, h2, h3]
  cases i
  simp only [V3.mk.injEq]
  simp only at hxe hye hze
  exact ⟨hxe.symm, hye.symm, hze.symm⟩

theorem cellsOf_oneIndex (field : Int × Int × Int → Cell K) (L : Layout) (s : Nat) (i : V3 Int)
    (hr : InRange (mV L) i) :
    cellsOf field L s (oneIndex (mV L) i).toNat = field (i.x + off L s .x, i.y + off L s .y, i.z + off L s .z) := by
  unfold cellsOf; rw [decode_oneIndex _ _ hr]

/-- the physical cell of an unfolded index that differs from an in-range global index by whole box lengths -/
theorem emod_shift (x w : Int) (N : Nat) (h0 : 0 ≤ x) (h1 : x < (N : Int)) : (x + w * (N : Int)) % (N : Int) = x := by
  rw [Int.add_mul_emod_self_right, Int.emod_eq_of_lt h0 h1]


/-! ## what the correspondence says about the local state -/

theorem V3.ext_get {β : Type} {u v : V3 β} (h : ∀ a, u.get a = v.get a) : u = v := by
  cases u; cases v
  have hx := h .x; have hy := h .y; have hz := h .z
  simp only [V3.get] at hx hy hz
  simp [hx, hy, hz]

section local_facts
variable {g : Geom K} {L : Layout} {field : Int × Int × Int → Cell K} {pk : Photon K}
variable {s : Nat} {ph : Photon K} {st : St K} {c : CS K} {sh : V3 Int}

theorem posV_lt (hs : s < L.size) (a : Ax) : (posV L s).get a < (nV L).get a := by
  obtain ⟨h1, h2, h3⟩ := SubgridLayout.gridPosition_lt L s hs
  cases a <;> simpa [posV, nV, V3.get]

theorem off_range (hs : s < L.size) (a : Ax) (i : Int) (h0 : 0 ≤ i) (h1 : i < ((mV L).get a : Int)) :
    0 ≤ i + off L s a ∧ i + off L s a < ((NV L).get a : Int) := by
  have hp := posV_lt (L := L) hs a
  have hN : ((NV L).get a : Int) = ((nV L).get a : Int) * ((mV L).get a : Int) := by
    cases a <;> simp [NV, nV, mV, V3.get]
  unfold off
  have h2 : 0 ≤ ((posV L s).get a : Int) * ((mV L).get a : Int) := by positivity
  have h3 : ((posV L s).get a : Int) * ((mV L).get a : Int) + ((mV L).get a : Int)
      ≤ ((nV L).get a : Int) * ((mV L).get a : Int) := by
    have : ((posV L s).get a : Int) + 1 ≤ ((nV L).get a : Int) := by exact_mod_cast hp
    nlinarith
  rw [hN]; constructor <;> omega

variable (hok : Ok g L field pk) (hR : RelWith g (envOf g L field pk) L s ph st c sh)
include hok hR

theorem rel_valid : Valid (blockOf g L s) (cellsOf field L s) ph :=
  valid_of g L field pk hok s ph hR.dir hR.sigH hR.sigHe (lt_of_le_of_lt hR.td0 hR.run)

theorem rel_inCell : InCell (blockOf g L s) st := by
  intro a
  have hh := hok.h_pos a
  have hp := hR.pos a
  have hg := hR.cgood a
  simp only [envOf_h, envOf_pk, blockOf_cs] at hp hg ⊢
  rcases hR.idx a with he | ⟨he, hd, hpos⟩
  · rw [he] at hg; push_cast at hg
    constructor <;> nlinarith [hg.1, hg.2.1]
  · simp only [envOf_h] at hpos
    rw [hpos]; constructor <;> nlinarith

theorem rel_good (a : Ax) (hd : 0 ≤ ph.dir.get a) :
    st.pos.get a < ((st.idx.get a : K) + 1) * g.h.get a := by
  have hp := hR.pos a
  have hg := hR.cgood a
  simp only [envOf_h, envOf_pk] at hp hg
  rcases hR.idx a with he | ⟨_, hd', _⟩
  · rw [he] at hg; push_cast at hg
    have hdir : ph.dir = pk.dir := hR.dir
    have := hg.2.2.1 (by rw [← hdir]; exact hd)
    nlinarith
  · exact absurd hd' (not_lt.mpr hd)

theorem rel_l (a : Ax) : (geo (blockOf g L s) (cellsOf field L s) ph st).l.get a
    = lAx (ph.dir.get a) (g.h.get a) (st.pos.get a) (st.idx.get a) := by
  rw [geo_l' _ _ _ _ hR.inr a]; rfl

theorem rel_l_exact (a : Ax) (he : c.G.get a = st.idx.get a + sh.get a) :
    (geo (blockOf g L s) (cellsOf field L s) ph st).l.get a = cl (envOf g L field pk) c a := by
  rw [rel_l hok hR a]
  unfold cl
  simp only [envOf_h, envOf_pk]
  have hp := hR.pos a
  simp only [envOf_h] at hp
  rw [hp, he, lAx_shift, hR.dir]; rfl

theorem rel_l_ahead (a : Ax)
    (ha : Ahead (ph.dir.get a) (g.h.get a) (st.pos.get a) (st.idx.get a) (sh.get a) (c.G.get a)) :
    (geo (blockOf g L s) (cellsOf field L s) ph st).l.get a = 0 := by
  rw [rel_l hok hR a]; exact lAx_zero_of_low ha.2.1 ha.2.2

end local_facts

/-! ## a pass of the loop body when all indices correspond exactly: it is the pass of the reference run -/

section exact
variable {g : Geom K} {L : Layout} {field : Int × Int × Int → Cell K} {pk : Photon K}
variable {s : Nat} {ph : Photon K} {st : St K} {c : CS K} {sh : V3 Int}
variable (hok : Ok g L field pk) (hR : RelWith g (envOf g L field pk) L s ph st c sh)
variable (hall : ∀ a, c.G.get a = st.idx.get a + sh.get a)
include hok hR hall

theorem exact_key : key (NV L) c.G = (st.idx.x + off L s .x, st.idx.y + off L s .y, st.idx.z + off L s .z) := by
  have hax : ∀ a, c.G.get a % ((NV L).get a : Int) = st.idx.get a + off L s a := by
    intro a
    obtain ⟨w, hw, _⟩ := hR.shift a
    simp only [envOf_N] at hw
    have hr := off_range (L := L) hR.slt a (st.idx.get a) (hR.inr a).1 (hR.inr a).2
    rw [hall a, hw, ← add_assoc, emod_shift _ _ _ hr.1 hr.2]
  have hx := hax .x; have hy := hax .y; have hz := hax .z
  simp only [V3.get] at hx hy hz
  unfold key; rw [hx, hy, hz]

theorem exact_l : (geo (blockOf g L s) (cellsOf field L s) ph st).l = V3.of (cl (envOf g L field pk) c) :=
  V3.ext_get fun a => by rw [rel_l_exact hok hR a (hall a), V3.get_of]

theorem exact_lmin : (geo (blockOf g L s) (cellsOf field L s) ph st).lmin = clmin (envOf g L field pk) c := by
  rw [geo_lmin, exact_l hok hR hall]; rfl

theorem exact_tau : (geo (blockOf g L s) (cellsOf field L s) ph st).tau = ctau (envOf g L field pk) c := by
  rw [geo_tau, exact_lmin hok hR hall]
  unfold ctau
  rw [opticalDepth_eq]
  simp only [blockOf_n, envOf_N, envOf_field, envOf_pk]
  rw [cellsOf_oneIndex _ _ _ _ hR.inr, exact_key hok hR hall, kappa_congr pk _ ph hR.sigH hR.sigHe]

theorem exact_reach : ph.tau ≤ (geo (blockOf g L s) (cellsOf field L s) ph st).td ↔
    pk.tau ≤ c.td + ctau (envOf g L field pk) c := by
  rw [geo_td, exact_tau hok hR hall]
  have := hR.tau
  simp only [envOf_pk] at this
  constructor <;> intro h <;> linarith

end exact

section exact_step
variable {g : Geom K} {L : Layout} {field : Int × Int × Int → Cell K} {pk : Photon K}
variable {s : Nat} {ph : Photon K} {st : St K} {c : CS K} {sh : V3 Int}
variable (hok : Ok g L field pk) (hR : RelWith g (envOf g L field pk) L s ph st c sh)
variable (hall : ∀ a, c.G.get a = st.idx.get a + sh.get a)
include hok hR hall

/-- with exact indices every moving axis has a positive wall distance: the pass has positive length -/
theorem exact_lmin_pos : 0 < (geo (blockOf g L s) (cellsOf field L s) ph st).lmin := by
  have hv := rel_valid hok hR
  have hc := rel_inCell hok hR
  obtain ⟨_, _, _, ⟨a, hda, hla⟩, _⟩ := lmin_facts _ _ _ _ hv hR.inr hc
  rw [← hla, rel_l hok hR a]
  have hca := hc a
  simp only [blockOf_cs] at hca
  refine lAx_pos_of_inside hda hca.1 hca.2 (fun hd => rel_good hok hR a hd.le) (fun hd => ?_)
  have hp := hR.pos a
  have hg := (hR.cgood a).2.2.2
  simp only [envOf_h, envOf_pk] at hp hg
  have hdir : ph.dir = pk.dir := hR.dir
  have := hg (by rw [← hdir]; exact hd)
  rw [hall a] at this; push_cast at this
  nlinarith

theorem exact_stop (hreach : pk.tau ≤ c.td + ctau (envOf g L field pk) c) :
    step (blockOf g L s) (cellsOf field L s) ph st
        = stop ph st (geo (blockOf g L s) (cellsOf field L s) ph st)
    ∧ stopPath ph (geo (blockOf g L s) (cellsOf field L s) ph st) = cStopPath (envOf g L field pk) c
    ∧ (∀ a, (stop ph st (geo (blockOf g L s) (cellsOf field L s) ph st)).pos.get a + (sh.get a : K) * g.h.get a
        = (cStop (envOf g L field pk) c).X.get a)
    ∧ (stop ph st (geo (blockOf g L s) (cellsOf field L s) ph st)).tauDone - ph.tau = (c.td + ctau (envOf g L field pk) c) - pk.tau := by
  have hreach' := (exact_reach hok hR hall).mpr hreach
  have hv := rel_valid hok hR
  have hc := rel_inCell hok hR
  have htau := hR.tau
  simp only [envOf_pk] at htau
  have hsp : stopPath ph (geo (blockOf g L s) (cellsOf field L s) ph st) = cStopPath (envOf g L field pk) c := by
    unfold stopPath cStopPath
    rw [geo_td, exact_tau hok hR hall, exact_lmin hok hR hall]
    simp only [envOf_pk]
    have : st.tauDone + ctau (envOf g L field pk) c - ph.tau = c.td + ctau (envOf g L field pk) c - pk.tau := by linarith
    rw [this]
  refine ⟨by unfold step; rw [if_pos hreach'], hsp, fun a => ?_, ?_⟩
  · rw [(stop_axis _ _ _ _ hv hR.inr hc hR.run hreach' a).1, hsp]
    have hp := hR.pos a
    simp only [envOf_h] at hp
    have hdir : ph.dir = pk.dir := hR.dir
    simp only [cStop, V3.get_of, envOf_pk, hp, hdir]; ring
  · rw [stop_tau, geo_td, exact_tau hok hR hall]; linarith

theorem exact_leave (hreach : ¬ pk.tau ≤ c.td + ctau (envOf g L field pk) c) :
    step (blockOf g L s) (cellsOf field L s) ph st
        = leave ph st (geo (blockOf g L s) (cellsOf field L s) ph st)
    ∧ (∀ a, (cLeave (envOf g L field pk) c).X.get a
        = (leave ph st (geo (blockOf g L s) (cellsOf field L s) ph st)).pos.get a + (sh.get a : K) * g.h.get a)
    ∧ (∀ a, (cLeave (envOf g L field pk) c).G.get a
        = (leave ph st (geo (blockOf g L s) (cellsOf field L s) ph st)).idx.get a + sh.get a)
    ∧ (leave ph st (geo (blockOf g L s) (cellsOf field L s) ph st)).tauDone - st.tauDone = ctau (envOf g L field pk) c := by
  have hreach' : ¬ ph.tau ≤ (geo (blockOf g L s) (cellsOf field L s) ph st).td :=
    fun h => hreach ((exact_reach hok hR hall).mp h)
  have hv := rel_valid hok hR
  have hc := rel_inCell hok hR
  have hdir : ph.dir = pk.dir := hR.dir
  refine ⟨by unfold step; rw [if_neg hreach'], fun a => ?_, fun a => ?_, ?_⟩
  · rw [(leave_axis _ _ _ _ hv hR.inr hc a).1, exact_lmin hok hR hall]
    have hp := hR.pos a
    simp only [envOf_h] at hp
    simp only [cLeave, V3.get_of, envOf_pk, hp, hdir]; ring
  · rw [(leave_axis _ _ _ _ hv hR.inr hc a).2.1, exact_lmin hok hR hall, rel_l_exact hok hR a (hall a)]
    simp only [cLeave, V3.get_of, envOf_pk, hdir, bumpAxis_eq, hall a]
    split_ifs <;> ring
  · show (geo (blockOf g L s) (cellsOf field L s) ph st).td - st.tauDone = _
    rw [geo_td, exact_tau hok hR hall]; ring

end exact_step

/-! ## the zero-length pass after an index was recomputed on a cell wall -/

section stutter
variable {g : Geom K} {L : Layout} {field : Int × Int × Int → Cell K} {pk : Photon K}
variable {s : Nat} {ph : Photon K} {st : St K} {c : CS K} {sh : V3 Int}
variable (hok : Ok g L field pk) (hR : RelWith g (envOf g L field pk) L s ph st c sh)
include hok hR

theorem stutter_step (a0 : Ax) (ha0 : ¬ c.G.get a0 = st.idx.get a0 + sh.get a0) :
    step (blockOf g L s) (cellsOf field L s) ph st
        = leave ph st (geo (blockOf g L s) (cellsOf field L s) ph st)
    ∧ (geo (blockOf g L s) (cellsOf field L s) ph st).lmin = 0
    ∧ (∀ a, (leave ph st (geo (blockOf g L s) (cellsOf field L s) ph st)).pos.get a = st.pos.get a)
    ∧ (∀ a, c.G.get a = (leave ph st (geo (blockOf g L s) (cellsOf field L s) ph st)).idx.get a + sh.get a)
    ∧ (leave ph st (geo (blockOf g L s) (cellsOf field L s) ph st)).tauDone = st.tauDone := by
  have hv := rel_valid hok hR
  have hc := rel_inCell hok hR
  obtain ⟨h0, _, hle, _, hst⟩ := lmin_facts _ _ _ _ hv hR.inr hc
  have hah : ∀ a, ¬ c.G.get a = st.idx.get a + sh.get a →
      Ahead (ph.dir.get a) (g.h.get a) (st.pos.get a) (st.idx.get a) (sh.get a) (c.G.get a) := by
    intro a hne
    rcases hR.idx a with he | ha
    · exact absurd he hne
    · exact ha
  have hl0 : (geo (blockOf g L s) (cellsOf field L s) ph st).lmin = 0 := by
    have := hle a0
    rw [rel_l_ahead hok hR a0 (hah a0 ha0)] at this
    exact le_antisymm this h0
  have htau : (geo (blockOf g L s) (cellsOf field L s) ph st).td = st.tauDone := by
    rw [geo_td, geo_tau, hl0]; ring
  have hnr : ¬ ph.tau ≤ (geo (blockOf g L s) (cellsOf field L s) ph st).td := by
    rw [htau]; exact not_le.mpr hR.run
  refine ⟨by unfold step; rw [if_neg hnr], hl0, fun a => ?_, fun a => ?_, htau⟩
  · rw [(leave_axis _ _ _ _ hv hR.inr hc a).1, hl0]; ring
  · rw [(leave_axis _ _ _ _ hv hR.inr hc a).2.1, hl0, bumpAxis_eq]
    by_cases he : c.G.get a = st.idx.get a + sh.get a
    · -- an exact axis is not bumped: its wall distance is positive (or the axis is static)
      have hne : (geo (blockOf g L s) (cellsOf field L s) ph st).l.get a ≠ 0 := by
        by_cases hd : ph.dir.get a = 0
        · have := hst a hd; rwa [hl0] at this
        · rw [rel_l hok hR a]
          have hca := hc a
          simp only [blockOf_cs] at hca
          refine (lAx_pos_of_inside hd hca.1 hca.2 (fun hd' => rel_good hok hR a hd'.le) (fun hd' => ?_)).ne'
          have hp := hR.pos a
          have hg := (hR.cgood a).2.2.2
          simp only [envOf_h, envOf_pk] at hp hg
          have hdir : ph.dir = pk.dir := hR.dir
          have := hg (by rw [← hdir]; exact hd')
          rw [he] at this; push_cast at this
          nlinarith
      rw [if_neg hne]; exact he
    · have ha := hah a he
      rw [rel_l_ahead hok hR a ha, if_pos rfl, if_neg (not_lt.mpr ha.2.1.le)]
      have := ha.1; omega

end stutter

/-! ## re-entry into the neighbour, one axis -/

/-- two integers whose half-open cells of size `h` both contain `x` are equal -/
theorem cell_unique {h x : K} (hh : 0 < h) {k i : Int} (hk1 : (k : K) * h ≤ x) (hk2 : x < ((k : K) + 1) * h)
    (hi1 : (i : K) * h ≤ x) (hi2 : x < ((i : K) + 1) * h) : k = i := by
  have h1 : (k : K) < (i : K) + 1 := by
    have : (k : K) * h < ((i : K) + 1) * h := lt_of_le_of_lt hk1 hi2
    exact lt_of_mul_lt_mul_right this hh.le
  have h2 : (i : K) < (k : K) + 1 := by
    have : (i : K) * h < ((k : K) + 1) * h := lt_of_le_of_lt hi1 hk2
    exact lt_of_mul_lt_mul_right this hh.le
  have h1' : k < i + 1 := by exact_mod_cast h1
  have h2' : i < k + 1 := by exact_mod_cast h2
  omega

/-- One axis of the hand-over.  `pos' idx'` is the local state after the pass that left the subgrid at
coordinate `i` (range, closed cell, on the block face where the index is outside), in exact correspondence
`X = pos' + sh h`, `G = idx' + sh` with the reference state; the neighbour sits at coordinate `j`.
`posN idxN` are what `initSt` computes in the neighbour (pinned to a wall where the exit class says so,
otherwise the coordinate is kept and its index recomputed).  Then the new local state corresponds to the
same reference state with the shift of the neighbour, exactly or one cell ahead. -/
theorem entry_axis {h d X pos' : K} {G sh idx' : Int} {m n i j N : Nat} {p : Bool}
    (hN : N = n * m) (hh : 0 < h) (hm : 0 < m) (hi : i < n)
    (hrange : -1 ≤ idx' ∧ idx' ≤ (m : Int))
    (hcell : (idx' : K) * h ≤ pos' ∧ pos' ≤ ((idx' : K) + 1) * h)
    (hout : (idx' < 0 → d < 0 ∧ pos' = 0) ∧ ((m : Int) ≤ idx' → 0 < d ∧ pos' = (m : K) * h))
    (hX : X = pos' + (sh : K) * h) (hG : G = idx' + sh)
    (hshift : ∃ w : Int, sh = (i : Int) * m + w * N ∧ (p = false → w = 0))
    (cgood : (0 ≤ d → X < ((G : K) + 1) * h) ∧ (d < 0 → (G : K) * h < X))
    (hlt : 0 ≤ idx' → idx' < (m : Int) → pos' < (m : K) * h)
    (hj : axisStep p n i (exitClass m idx') = some j)
    (posN : K) (idxN : Int)
    (hposN : posN = match clsOfOffset (-(exitClass m idx')) with
      | 0 => pos' + (((i : Int) * m - (j : Int) * m : Int) : K) * h
      | 1 => 0
      | _ => (m : K) * h)
    (hidxN : idxN = match clsOfOffset (-(exitClass m idx')) with
      | 0 => clampIdx ((floorUpTo m ((pos' + (((i : Int) * m - (j : Int) * m : Int) : K) * h) * (1 / h)) : Nat) : Int)
          ((m : Int) - 1)
      | 1 => 0
      | _ => (m : Int) - 1) :
    ∃ sh' : Int, (∃ w : Int, sh' = (j : Int) * m + w * N ∧ (p = false → w = 0))
      ∧ X = posN + (sh' : K) * h ∧ AxRel d h posN idxN sh' G
      ∧ (0 ≤ idxN ∧ idxN < (m : Int))
      ∧ (Ahead d h posN idxN sh' G → 1 ≤ idxN)
      ∧ (posN = (m : K) * h → clsOfOffset (-(exitClass m idx')) = 2) := by
  obtain ⟨w, hw, hwp⟩ := hshift
  have hNm : (N : Int) = (n : Int) * (m : Int) := by rw [hN]; push_cast; ring
  have hmK : (0 : K) < (m : K) := by exact_mod_cast hm
  have hm1 : (1 : Int) ≤ m := by exact_mod_cast hm
  have hsm := SubgridLayout.exitClass_small m idx'
  have hwrap := SubgridLayout.wrap_amount p n i j _ hi hsm hj
  by_cases hlow : idx' < 0
  · -- left through the lower face: enters through the upper face of the neighbour
    have he : exitClass m idx' = -1 := by unfold exitClass; rw [if_pos hlow]
    have hidx : idx' = -1 := by omega
    obtain ⟨hd, hp0⟩ := hout.1 hlow
    have hcls : clsOfOffset (-(exitClass m idx')) = 2 := by rw [he]; decide
    rw [hcls] at hposN hidxN
    rw [he] at hwrap
    simp only at hposN hidxN
    refine ⟨sh - m, ?_, ?_, Or.inl ?_, ⟨by rw [hidxN]; linarith [hm1], by rw [hidxN]; linarith⟩, ?_, fun _ => by rw [he]; decide⟩
    · rcases hwrap with h0 | ⟨hp, h1 | h1⟩
      · refine ⟨w, ?_, hwp⟩
        have : (j : Int) = i + -1 := by linarith
        rw [hw, this]; ring
      · refine ⟨w - 1, ?_, fun hf => by rw [hp] at hf; cases hf⟩
        rw [hw, hNm]; have : (j : Int) = i + -1 + n := by linarith
        rw [this]; ring
      · refine ⟨w + 1, ?_, fun hf => by rw [hp] at hf; cases hf⟩
        rw [hw, hNm]; have : (j : Int) = i + -1 - n := by linarith
        rw [this]; ring
    · rw [hX, hp0, hposN]; push_cast; ring
    · rw [hG, hidxN, hidx]; ring
    · rintro ⟨h1, _, _⟩; rw [hG, hidxN, hidx] at h1; omega
  · by_cases hhigh : (m : Int) ≤ idx'
    · have he : exitClass m idx' = 1 := by unfold exitClass; rw [if_neg hlow, if_pos hhigh]
      have hidx : idx' = m := by omega
      obtain ⟨hd, hp0⟩ := hout.2 hhigh
      have hcls : clsOfOffset (-(exitClass m idx')) = 1 := by rw [he]; decide
      rw [hcls] at hposN hidxN
      rw [he] at hwrap
      simp only at hposN hidxN
      refine ⟨sh + m, ?_, ?_, Or.inl ?_, ⟨by rw [hidxN], by rw [hidxN]; omega⟩, ?_, fun hpm => ?_⟩
      · rcases hwrap with h0 | ⟨hp, h1 | h1⟩
        · refine ⟨w, ?_, hwp⟩
          have : (j : Int) = i + 1 := by linarith
          rw [hw, this]; ring
        · refine ⟨w - 1, ?_, fun hf => by rw [hp] at hf; cases hf⟩
          rw [hw, hNm]; have : (j : Int) = i + 1 + n := by linarith
          rw [this]; ring
        · refine ⟨w + 1, ?_, fun hf => by rw [hp] at hf; cases hf⟩
          rw [hw, hNm]; have : (j : Int) = i + 1 - n := by linarith
          rw [this]; ring
      · rw [hX, hp0, hposN]; push_cast; ring
      · rw [hG, hidxN, hidx]; ring
      · rintro ⟨h1, _, _⟩; rw [hG, hidxN, hidx] at h1; omega
      · exfalso; rw [hposN] at hpm; nlinarith
    · -- the axis is not crossed: coordinate kept, index recomputed
      have he : exitClass m idx' = 0 := by unfold exitClass; rw [if_neg hlow, if_neg hhigh]
      have h0i : 0 ≤ idx' := by omega
      have hmi : idx' < (m : Int) := by omega
      have hcls : clsOfOffset (-(exitClass m idx')) = 0 := by rw [he]; decide
      rw [hcls] at hposN hidxN
      rw [he] at hj
      have hji : j = i := by
        have := SubgridLayout.axisStep_zero p n i hi
        rw [this] at hj; injection hj with hj; exact hj.symm
      subst hji
      simp only [sub_self, Int.cast_zero, zero_mul, add_zero] at hposN hidxN
      have hpl := hlt h0i hmi
      have hx0 : 0 ≤ pos' * (1 / h) := by
        have : 0 ≤ pos' := le_trans (mul_nonneg (by exact_mod_cast h0i) hh.le) hcell.1
        exact mul_nonneg this (by positivity)
      have hxm : pos' * (1 / h) < (m : K) := by
        rw [mul_one_div, div_lt_iff₀ hh]; exact hpl
      obtain ⟨f1, f2, f3⟩ := floorUpTo_spec m (pos' * (1 / h)) hx0
      have f4 : pos' * (1 / h) < ((floorUpTo m (pos' * (1 / h)) : Nat) : K) + 1 := by
        rcases f3 with f3 | f3
        · exact f3
        · rw [f3] at f1; linarith
      have f5 : floorUpTo m (pos' * (1 / h)) < m := by
        have : ((floorUpTo m (pos' * (1 / h)) : Nat) : K) < (m : K) := lt_of_le_of_lt f1 hxm
        exact_mod_cast this
      -- the position is strictly below the upper boundary: the clamp of the index is inactive
      have hcl : clampIdx ((floorUpTo m (pos' * (1 / h)) : Nat) : Int) ((m : Int) - 1)
          = ((floorUpTo m (pos' * (1 / h)) : Nat) : Int) := by
        unfold clampIdx; rw [if_neg (by omega)]
      rw [hcl] at hidxN
      obtain ⟨k, hk⟩ : ∃ k, k = floorUpTo m (pos' * (1 / h)) := ⟨_, rfl⟩
      rw [← hk] at f1 f4 f5 hidxN
      have hk1 : ((k : Int) : K) * h ≤ pos' := by
        have := mul_le_mul_of_nonneg_right f1 hh.le
        rw [mul_one_div, div_mul_cancel₀ _ hh.ne'] at this
        push_cast; exact this
      have hk2 : pos' < (((k : Int) : K) + 1) * h := by
        have := mul_lt_mul_of_pos_right f4 hh
        rw [mul_one_div, div_mul_cancel₀ _ hh.ne'] at this
        push_cast; exact this
      -- the reference cell, seen in local coordinates
      have hg1 : 0 ≤ d → pos' < ((idx' : K) + 1) * h := fun hd => by
        have := cgood.1 hd; rw [hX, hG] at this; push_cast at this; nlinarith
      have hg2 : d < 0 → (idx' : K) * h < pos' := fun hd => by
        have := cgood.2 hd; rw [hX, hG] at this; push_cast at this; nlinarith
      refine ⟨sh, ⟨w, hw, hwp⟩, by rw [hposN]; exact hX, ?_, ⟨by rw [hidxN]; omega, by rw [hidxN]; exact_mod_cast f5⟩, ?_,
        fun hpm => by exfalso; rw [hposN] at hpm; linarith⟩
      · by_cases hup : pos' < ((idx' : K) + 1) * h
        · left
          have : (k : Int) = idx' := cell_unique hh hk1 hk2 hcell.1 hup
          rw [hG, hidxN, this]
        · right
          have heq : pos' = ((idx' : K) + 1) * h := le_antisymm hcell.2 (not_lt.mp hup)
          have hd : d < 0 := by
            by_contra hnd; exact hup (hg1 (not_lt.mp hnd))
          have hk' : (k : Int) = idx' + 1 := by
            refine cell_unique hh hk1 hk2 ?_ ?_
            · push_cast; rw [heq]
            · push_cast; rw [heq]; linarith
          refine ⟨by rw [hG, hidxN, hk']; ring, hd, ?_⟩
          rw [hposN, hidxN, hk', heq]; push_cast; ring
      · rintro ⟨h1, _, _⟩
        rw [hG, hidxN] at h1
        omega


/-! ## exit direction of the local index, in terms of C03's tables -/

theorem bridge_maskTab : CMacVerif.Gen.TDC02.maskTab = CMacVerif.Gen.TravelDirections.maskTable := by decide

theorem outputDirection_bridge (n : V3 Nat) (i : V3 Int) :
    RayMarch.outputDirection n i = SubgridLayout.outputDirection (n.x, n.y, n.z) (i.x, i.y, i.z) := by
  unfold RayMarch.outputDirection SubgridLayout.outputDirection RayMarch.maskDir SubgridLayout.maskDir
  rw [bridge_maskTab]; rfl

def tup (i : V3 Int) : Int × Int × Int := (i.x, i.y, i.z)

theorem comp_tup (i : V3 Int) (a : Ax) : comp (tup i) (axNum a) = i.get a := by cases a <;> rfl
theorem axM_get (L : Layout) (a : Ax) : SubgridLayout.axM L (axNum a) = (mV L).get a := by cases a <;> rfl
theorem axN_get (L : Layout) (a : Ax) : SubgridLayout.axN L (axNum a) = (nV L).get a := by cases a <;> rfl
theorem axP_get (L : Layout) (a : Ax) : SubgridLayout.axP L (axNum a) = (pV L).get a := by cases a <;> rfl
theorem posAx_get (L : Layout) (s : Nat) (a : Ax) :
    SubgridLayout.posAx (gridPosition L s) (axNum a) = (posV L s).get a := by cases a <;> rfl
theorem axNum_lt (a : Ax) : axNum a < 3 := by cases a <;> decide

/-- the direction `get_output_direction` returns for a local index at most one cell outside: a valid
direction whose offset is the exit class of every component -/
theorem exit_dir_facts (L : Layout) (hx : 0 < L.mx) (hy : 0 < L.my) (hz : 0 < L.mz) (i : V3 Int) :
    (RayMarch.outputDirection (mV L) i).toNat < 27 ∧
    ∀ a, comp (offsetOf (RayMarch.outputDirection (mV L) i).toNat) (axNum a) = exitClass ((mV L).get a) (i.get a) := by
  rw [outputDirection_bridge]
  set o : Int × Int × Int := (exitClass L.mx i.x, exitClass L.my i.y, exitClass L.mz i.z) with ho
  have homem : o ∈ SubgridLayout.loopOffsets :=
    SubgridLayout.small_mem_loopOffsets _ _ _ (SubgridLayout.exitClass_small _ _) (SubgridLayout.exitClass_small _ _)
      (SubgridLayout.exitClass_small _ _)
  have hd_eq : (SubgridLayout.outputDirection ((mV L).x, (mV L).y, (mV L).z) (i.x, i.y, i.z)).toNat
      = SubgridLayout.dirOfOffset o := by
    rw [SubgridLayout.outputDirection_exitClass _ hx hy hz]
    show (SubgridLayout.maskDir (SubgridLayout.maskOfOffset o)).toNat = _
    rw [SubgridLayout.maskDir_offset_nonneg o homem]; simp
  rw [hd_eq]
  refine ⟨SubgridLayout.dirOfOffset_lt o homem, fun a => ?_⟩
  rw [SubgridLayout.offsetOf_dirOfOffset o homem]
  cases a <;> rfl

/-- entry classification of the neighbour for the input direction `output_to_input_direction(d)` -/
theorem entry_kinds (d : Nat) (hd : d < 27) (a : Ax) :
    pinKind (outToInDir d) a = clsOfOffset (-(comp (offsetOf d) (axNum a)))
    ∧ idxKind (outToInDir d) a = clsOfOffset (-(comp (offsetOf d) (axNum a))) := by
  have hb := bridge_pin _ (SubgridLayout.outToIn_lt d hd) a
  have hc := SubgridLayout.classes_agree_with_offset _ (SubgridLayout.outToIn_lt d hd) (axNum a) (axNum_lt a)
  rw [hb.1, hb.2, hc.1, hc.2, SubgridLayout.comp_outToIn d hd]
  exact ⟨rfl, rfl⟩


/-! ## after a pass: stay, hand over, or leave the box -/

/-- the local state right after a "leave" pass (index possibly one cell outside the subgrid), in exact
correspondence with a reference state -/
structure RawRel (g : Geom K) (e : Env K) (L : Layout) (s : Nat) (ph : Photon K) (st : St K) (c : CS K)
    (sh : V3 Int) : Prop where
  slt : s < L.size
  shift : ∀ a, ∃ w : Int, sh.get a = off L s a + w * (e.N.get a : Int) ∧ (e.per.get a = false → w = 0)
  dir : ph.dir = e.pk.dir
  sigH : ph.sigH = e.pk.sigH
  sigHe : ph.sigHe = e.pk.sigHe
  tau : ph.tau - st.tauDone = e.pk.tau - c.td
  run : st.tauDone < ph.tau
  td0 : 0 ≤ st.tauDone
  pos : ∀ a, c.X.get a = st.pos.get a + (sh.get a : K) * e.h.get a
  idx : ∀ a, c.G.get a = st.idx.get a + sh.get a
  range : Range (blockOf g L s) st
  cell : InCell (blockOf g L s) st
  out : OutFaces (blockOf g L s) ph st
  cgood : ∀ a, (c.G.get a : K) * e.h.get a ≤ c.X.get a ∧ c.X.get a ≤ ((c.G.get a : K) + 1) * e.h.get a
    ∧ (0 ≤ e.pk.dir.get a → c.X.get a < ((c.G.get a : K) + 1) * e.h.get a)
    ∧ (e.pk.dir.get a < 0 → (c.G.get a : K) * e.h.get a < c.X.get a)

theorem NV_get (L : Layout) (a : Ax) : (NV L).get a = (nV L).get a * (mV L).get a := by cases a <;> rfl

theorem initSt_pos (b : Block K) (ph : Photon K) (inDir : Nat) (a : Ax) :
    (initSt b ph inDir).pos.get a = pinAxis b inDir (relPos b ph.pos) a := by
  show (pinPos b inDir (relPos b ph.pos)).get a = _
  unfold pinPos; rw [V3.get_of]

theorem initSt_idx (b : Block K) (ph : Photon K) (inDir : Nat) (a : Ax) :
    (initSt b ph inDir).idx.get a = startIdxAxis b inDir (pinPos b inDir (relPos b ph.pos)) a := by
  show (startIdx b inDir _).get a = _
  unfold startIdx; rw [V3.get_of]

theorem initSt_tau (b : Block K) (ph : Photon K) (inDir : Nat) : (initSt b ph inDir).tauDone = 0 := by
  show (0.0 : K) = 0; exact lit0

section post
variable {g : Geom K} {L : Layout} {field : Int × Int × Int → Cell K} {pk : Photon K}
variable {s : Nat} {ph : Photon K} {st : St K} {c : CS K} {sh : V3 Int}
variable (hok : Ok g L field pk) (hW : RawRel g (envOf g L field pk) L s ph st c sh)
include hok hW

/-- the index is still inside the subgrid: the run continues there -/
theorem raw_move (hin : InRange (mV L) st.idx) : RelWith g (envOf g L field pk) L s ph st c sh where
  slt := hW.slt
  shift := hW.shift
  dir := hW.dir
  sigH := hW.sigH
  sigHe := hW.sigHe
  tau := hW.tau
  run := hW.run
  td0 := hW.td0
  pos := hW.pos
  idx := fun a => Or.inl (hW.idx a)
  inr := hin
  cgood := hW.cgood
  cin := fun a hp => by
    obtain ⟨w, hw, hw0⟩ := hW.shift a
    have := hw0 hp
    subst this
    simp only [envOf_N] at hw ⊢
    have hr := off_range (L := L) hW.slt a (st.idx.get a) (hin a).1 (hin a).2
    rw [hW.idx a, hw]; constructor <;> omega
  fresh := fun _ b hb => by
    have := hW.idx b
    have h1 := hb.1
    omega

end post
theorem cOut_true_iff (e : Env K) (c : CS K) (a : Ax) :
    cOut e c a = true ↔ e.per.get a = false ∧ (c.G.get a < 0 ∨ (e.N.get a : Int) ≤ c.G.get a) := by
  unfold cOut; cases e.per.get a <;> simp

theorem cOut_false_iff (e : Env K) (c : CS K) (a : Ax) :
    cOut e c a = false ↔ (e.per.get a = false → 0 ≤ c.G.get a ∧ c.G.get a < (e.N.get a : Int)) := by
  unfold cOut; cases e.per.get a <;> simp

section post2
variable {g : Geom K} {L : Layout} {field : Int × Int × Int → Cell K} {pk : Photon K}
variable {s : Nat} {ph : Photon K} {st : St K} {c : CS K} {sh : V3 Int}
variable (hok : Ok g L field pk) (hW : RawRel g (envOf g L field pk) L s ph st c sh)
include hok hW

theorem m_pos' : 0 < L.mx ∧ 0 < L.my ∧ 0 < L.mz := ⟨hok.m_pos .x, hok.m_pos .y, hok.m_pos .z⟩

/-- no neighbour in the exit direction: the reference run leaves the box on a non-periodic axis -/
theorem raw_exit_none
    (hn : ngb L s (RayMarch.outputDirection (mV L) st.idx).toNat = none) :
    ∃ a, cOut (envOf g L field pk) c a = true := by
  obtain ⟨hx, hy, hz⟩ := m_pos' hok hW
  obtain ⟨hd, hcomp⟩ := exit_dir_facts L hx hy hz st.idx
  have hax : ∃ a : Ax, axisStep ((pV L).get a) ((nV L).get a) ((posV L s).get a)
      (exitClass ((mV L).get a) (st.idx.get a)) = none := by
    rcases SubgridLayout.ngb_none_axes L hx hy hz s _ hd hn with h | h | h
    · exact ⟨.x, by rw [← hcomp .x]; exact h⟩
    · exact ⟨.y, by rw [← hcomp .y]; exact h⟩
    · exact ⟨.z, by rw [← hcomp .z]; exact h⟩
  obtain ⟨a, ha⟩ := hax
  refine ⟨a, ?_⟩
  have hr := hW.range a
  simp only [blockOf_n] at hr
  obtain ⟨hp, hout⟩ := (SubgridLayout.handover_cell_axis _ _ _ _ (st.idx.get a) (posV_lt hW.slt a) (hok.m_pos a) hr).2 ha
  obtain ⟨w, hw, hw0⟩ := hW.shift a
  simp only [envOf_per, envOf_N] at hw hw0
  have hw' := hw0 hp
  subst hw'
  have hG : c.G.get a = st.idx.get a + off L s a := by rw [hW.idx a, hw]; ring
  have hN : (((NV L).get a : Nat) : Int) = (((nV L).get a * (mV L).get a : Nat) : Int) := by rw [NV_get]
  rw [cOut_true_iff]
  refine ⟨hp, ?_⟩
  simp only [envOf_N]
  rw [hG, hN]
  unfold off
  rcases hout with h | h
  · left; linarith
  · right; linarith

omit hok hW in
theorem cls_cases (x : Int) : clsOfOffset x = 0 ∨ clsOfOffset x = 1 ∨ clsOfOffset x = 2 := by
  unfold clsOfOffset; split_ifs <;> simp

omit hok hW in
/-- what `initSt` computes on one axis, by entry class -/
theorem initSt_axis0 (b : Block K) (ph : Photon K) (inDir : Nat) (a : Ax)
    (hp : pinKind inDir a = 0) (hi : idxKind inDir a = 0) :
    (initSt b ph inDir).pos.get a = ph.pos.get a - b.anchor.get a
    ∧ (initSt b ph inDir).idx.get a
        = clampIdx ((floorUpTo (b.n.get a) ((ph.pos.get a - b.anchor.get a) * b.inv.get a) : Nat) : Int)
            ((b.n.get a : Int) - 1) := by
  rw [initSt_pos, initSt_idx]
  unfold pinAxis startIdxAxis
  rw [hp, hi]
  simp only [pinPos, V3.get_of, pinAxis, hp, relPos]
  trivial

omit hok hW in
theorem initSt_axis1 (b : Block K) (ph : Photon K) (inDir : Nat) (a : Ax)
    (hp : pinKind inDir a = 1) (hi : idxKind inDir a = 1) :
    (initSt b ph inDir).pos.get a = 0 ∧ (initSt b ph inDir).idx.get a = 0 := by
  rw [initSt_pos, initSt_idx]
  unfold pinAxis startIdxAxis
  rw [hp, hi]
  exact ⟨lit0, rfl⟩

omit hok hW in
theorem initSt_axis2 (b : Block K) (ph : Photon K) (inDir : Nat) (a : Ax)
    (hp : pinKind inDir a = 2) (hi : idxKind inDir a = 2) :
    (initSt b ph inDir).pos.get a = top b a ∧ (initSt b ph inDir).idx.get a = (b.n.get a : Int) - 1 := by
  rw [initSt_pos, initSt_idx]
  unfold pinAxis startIdxAxis
  rw [hp, hi]
  exact ⟨rfl, rfl⟩

/-- a neighbour in the exit direction: the reference run stays inside the box, and the state the
neighbour's `interact` starts from corresponds to the same reference state -/
theorem raw_exit_some (t : Nat)
    (hlt : ∀ a, 0 ≤ st.idx.get a → st.idx.get a < ((mV L).get a : Int) → st.pos.get a < top (blockOf g L s) a)
    (ht : ngb L s (RayMarch.outputDirection (mV L) st.idx).toNat = some t) :
    (∀ a, cOut (envOf g L field pk) c a = false) ∧
    Rel g (envOf g L field pk) L t (writeBack (blockOf g L s) ph st)
      (initSt (blockOf g L t) (writeBack (blockOf g L s) ph st)
        (outToInDir (RayMarch.outputDirection (mV L) st.idx).toNat)) c := by
  obtain ⟨hx, hy, hz⟩ := m_pos' hok hW
  obtain ⟨hd, hcomp⟩ := exit_dir_facts L hx hy hz st.idx
  generalize hdd : (RayMarch.outputDirection (mV L) st.idx).toNat = d at hd hcomp ht ⊢
  have htl : t < L.size := SubgridLayout.ngb_lt L hx hy hz s d t hW.slt hd ht
  have hdir : ph.dir = pk.dir := hW.dir
  have key : ∀ a, ∃ sh' : Int,
      (∃ w : Int, sh' = off L t a + w * ((NV L).get a : Int) ∧ ((pV L).get a = false → w = 0))
      ∧ c.X.get a = (initSt (blockOf g L t) (writeBack (blockOf g L s) ph st) (outToInDir d)).pos.get a + (sh' : K) * g.h.get a
      ∧ AxRel (ph.dir.get a) (g.h.get a) ((initSt (blockOf g L t) (writeBack (blockOf g L s) ph st) (outToInDir d)).pos.get a)
          ((initSt (blockOf g L t) (writeBack (blockOf g L s) ph st) (outToInDir d)).idx.get a) sh' (c.G.get a)
      ∧ (0 ≤ (initSt (blockOf g L t) (writeBack (blockOf g L s) ph st) (outToInDir d)).idx.get a
          ∧ (initSt (blockOf g L t) (writeBack (blockOf g L s) ph st) (outToInDir d)).idx.get a < ((mV L).get a : Int))
      ∧ (Ahead (ph.dir.get a) (g.h.get a) ((initSt (blockOf g L t) (writeBack (blockOf g L s) ph st) (outToInDir d)).pos.get a)
          ((initSt (blockOf g L t) (writeBack (blockOf g L s) ph st) (outToInDir d)).idx.get a) sh' (c.G.get a)
          → 1 ≤ (initSt (blockOf g L t) (writeBack (blockOf g L s) ph st) (outToInDir d)).idx.get a) := by
    intro a
    have hj := SubgridLayout.ngb_axis L hx hy hz s d t hd ht (axNum a) (axNum_lt a)
    rw [axP_get, axN_get, posAx_get, posAx_get, hcomp a] at hj
    have hk := entry_kinds d hd a
    rw [hcomp a] at hk
    have hrange := hW.range a
    have hcell := hW.cell a
    have hout := hW.out a
    have hpos := hW.pos a
    have hcg := hW.cgood a
    obtain ⟨w, hw, hw0⟩ := hW.shift a
    simp only [blockOf_n, blockOf_cs, top_eq, envOf_h, envOf_N, envOf_per, envOf_pk] at hrange hcell hout hpos hcg hw hw0
    have hrel : (writeBack (blockOf g L s) ph st).pos.get a - (blockOf g L t).anchor.get a
        = st.pos.get a + ((((posV L s).get a : Int) * ((mV L).get a : Int) - ((posV L t).get a : Int) * ((mV L).get a : Int) : Int) : K) * g.h.get a := by
      simp only [writeBack, blockOf, V3.get_of, off]; push_cast; ring
    obtain ⟨sh', h1, h2, h3, h4, h5, _⟩ := entry_axis (NV_get L a) (hok.h_pos a) (hok.m_pos a) (posV_lt hW.slt a)
      hrange hcell hout hpos (hW.idx a) ⟨w, hw, hw0⟩
      ⟨fun h0 => hcg.2.2.1 (by rw [← hdir]; exact h0), fun h0 => hcg.2.2.2 (by rw [← hdir]; exact h0)⟩
      (by have := hlt a; rw [top_eq] at this; exact this) hj
      ((initSt (blockOf g L t) (writeBack (blockOf g L s) ph st) (outToInDir d)).pos.get a)
      ((initSt (blockOf g L t) (writeBack (blockOf g L s) ph st) (outToInDir d)).idx.get a)
      (by
        rcases cls_cases (-(exitClass ((mV L).get a) (st.idx.get a))) with hc | hc | hc <;> rw [hc] at hk ⊢
        · rw [(initSt_axis0 _ _ _ a hk.1 hk.2).1]; exact hrel
        · exact (initSt_axis1 _ _ _ a hk.1 hk.2).1
        · rw [(initSt_axis2 _ _ _ a hk.1 hk.2).1, top_eq]; rfl)
      (by
        rcases cls_cases (-(exitClass ((mV L).get a) (st.idx.get a))) with hc | hc | hc <;> rw [hc] at hk ⊢
        · rw [(initSt_axis0 _ _ _ a hk.1 hk.2).2, hrel]; simp only [blockOf, V3.get_of]
        · exact (initSt_axis1 _ _ _ a hk.1 hk.2).2
        · exact (initSt_axis2 _ _ _ a hk.1 hk.2).2)
    exact ⟨sh', h1, h2, h3, h4, h5⟩
  choose shN k1 k2 k3 k4 k5 using key
  have hcin : ∀ a, (pV L).get a = false → 0 ≤ c.G.get a ∧ c.G.get a < ((NV L).get a : Int) := by
    intro a hp
    obtain ⟨w, hw, hw0⟩ := k1 a
    have hw' := hw0 hp; subst hw'
    have h4 := k4 a
    have hr := off_range (L := L) htl a _ h4.1 h4.2
    rcases k3 a with he | ha
    · rw [he, hw]; constructor <;> omega
    · have h5 := k5 a ha
      have hr' := off_range (L := L) htl a (((initSt (blockOf g L t) (writeBack (blockOf g L s) ph st) (outToInDir d)).idx.get a) - 1)
        (by omega) (by omega)
      have := ha.1
      rw [hw] at this
      constructor <;> omega
  refine ⟨fun a => ?_, V3.of shN, ?_⟩
  · rw [cOut_false_iff]; simp only [envOf_per, envOf_N]; exact hcin a
  · have htau := hW.tau
    refine
      { slt := htl
        shift := fun a => by simp only [V3.get_of, envOf_N, envOf_per]; exact k1 a
        dir := hW.dir
        sigH := hW.sigH
        sigHe := hW.sigHe
        tau := by rw [initSt_tau]; simp only [writeBack]; linarith
        run := by rw [initSt_tau]; simp only [writeBack]; linarith [hW.run]
        td0 := by rw [initSt_tau]
        pos := fun a => by simp only [V3.get_of, envOf_h]; exact k2 a
        idx := fun a => by simp only [V3.get_of, envOf_h]; exact k3 a
        inr := fun a => k4 a
        cgood := hW.cgood
        cin := fun a hp => by simp only [envOf_per, envOf_N] at hp ⊢; exact hcin a hp
        fresh := fun _ b hb => by simp only [V3.get_of, envOf_h] at hb; exact k5 b hb }

end post2
/-! ## the chained run as a deposit-producing step function, and the correspondence of chain states -/

abbrev AState (K : Type) := ChainState (Photon K × St K)

def aStep (g : Geom K) (field : Int × Int × Int → Cell K) (L : Layout) :
    AState K → Option ((Int × Int × Int → K) × AState K) :=
  SubgridLayout.splitStep L (localStep g field L) (enterStep g L) (valOf L)

theorem aStep_inGrid (g : Geom K) (field : Int × Int × Int → Cell K) (L : Layout) (s : Nat) (x : Photon K × St K) :
    aStep g field L (.inGrid s x) =
      match localStep g field L s x with
      | .move dep st' => some (valOf L s dep, .inGrid s st')
      | .absorbed dep st' => some (valOf L s dep, .absorbedIn s st')
      | .exit dep d st' =>
        match ngb L s d with
        | none => some (valOf L s dep, .escaped s d st')
        | some t => some (valOf L s dep, .inGrid t (enterStep g L t (outToInDir d) st')) := by
  unfold aStep SubgridLayout.splitStep chainStep
  cases h : localStep g field L s x with
  | move dep st' => simp only [h, Option.map_some]
  | absorbed dep st' => simp only [h, Option.map_some]
  | exit dep d st' => cases hn : ngb L s d <;> simp only [h, hn, Option.map_some]

/-- final states: same remaining optical depth, same point up to whole box lengths on periodic axes -/
def RFin (g : Geom K) (e : Env K) (x : Photon K × St K) (c : CS K) : Prop :=
  x.1.tau = e.pk.tau - c.td ∧
  ∀ a, ∃ w : Int, x.1.pos.get a - g.A.get a = c.X.get a + (w : K) * ((e.N.get a : K) * e.h.get a)
    ∧ (e.per.get a = false → w = 0)

def R (g : Geom K) (e : Env K) (L : Layout) : AState K → CState K → Prop
  | .inGrid s x, .run c => Rel g e L s x.1 x.2 c
  | .absorbedIn _ x, .absorbed c => RFin g e x c
  | .escaped _ _ x, .escaped c => RFin g e x c
  | _, _ => False

theorem cOut_any (e : Env K) (c : CS K) :
    (cOut e c .x || cOut e c .y || cOut e c .z) = true ↔ ∃ a, cOut e c a = true := by
  constructor
  · intro h
    simp only [Bool.or_eq_true] at h
    rcases h with (h | h) | h
    · exact ⟨.x, h⟩
    · exact ⟨.y, h⟩
    · exact ⟨.z, h⟩
  · rintro ⟨a, h⟩
    cases a <;> simp [h]

/-- position and remaining optical depth written back into the packet, against the reference state -/
theorem rfin_of {g : Geom K} {L : Layout} {field : Int × Int × Int → Cell K} {pk : Photon K}
    {s : Nat} {ph : Photon K} {st : St K} {c : CS K} {sh : V3 Int}
    (hshift : ∀ a, ∃ w : Int, sh.get a = off L s a + w * ((NV L).get a : Int) ∧ ((pV L).get a = false → w = 0))
    (hpos : ∀ a, c.X.get a = st.pos.get a + (sh.get a : K) * g.h.get a)
    (htau : ph.tau - st.tauDone = pk.tau - c.td) :
    RFin g (envOf g L field pk) (writeBack (blockOf g L s) ph st, st) c := by
  refine ⟨by simp only [writeBack, envOf_pk]; exact htau, fun a => ?_⟩
  obtain ⟨w, hw, hw0⟩ := hshift a
  refine ⟨-w, ?_, fun hp => by simp only [envOf_per] at hp; rw [hw0 hp]; rfl⟩
  simp only [writeBack, blockOf, V3.get_of, envOf_N, envOf_h]
  rw [hpos a, hw]; push_cast; ring


section lstep
variable (g : Geom K) (field : Int × Int × Int → Cell K) (L : Layout) (s : Nat) (ph : Photon K) (st : St K)

theorem localStep_absorbed
    (h : ph.tau ≤ (step (blockOf g L s) (cellsOf field L s) ph st).tauDone) :
    localStep g field L s (ph, st) =
      .absorbed (lastVisit ph (step (blockOf g L s) (cellsOf field L s) ph st))
        (writeBack (blockOf g L s) ph (step (blockOf g L s) (cellsOf field L s) ph st),
          step (blockOf g L s) (cellsOf field L s) ph st) := by
  unfold localStep; simp only [h, if_true]

theorem localStep_move
    (h1 : ¬ ph.tau ≤ (step (blockOf g L s) (cellsOf field L s) ph st).tauDone)
    (h2 : inside (mV L) (step (blockOf g L s) (cellsOf field L s) ph st).idx = true) :
    localStep g field L s (ph, st) =
      .move (lastVisit ph (step (blockOf g L s) (cellsOf field L s) ph st))
        (ph, step (blockOf g L s) (cellsOf field L s) ph st) := by
  unfold localStep; simp only [h1, if_false, blockOf_n, h2, if_true]

theorem localStep_exit
    (h1 : ¬ ph.tau ≤ (step (blockOf g L s) (cellsOf field L s) ph st).tauDone)
    (h2 : ¬ inside (mV L) (step (blockOf g L s) (cellsOf field L s) ph st).idx = true) :
    localStep g field L s (ph, st) =
      .exit (lastVisit ph (step (blockOf g L s) (cellsOf field L s) ph st))
        (RayMarch.outputDirection (mV L) (step (blockOf g L s) (cellsOf field L s) ph st).idx).toNat
        (writeBack (blockOf g L s) ph (step (blockOf g L s) (cellsOf field L s) ph st),
          step (blockOf g L s) (cellsOf field L s) ph st) := by
  unfold localStep; simp only [h1, if_false, blockOf_n, h2]; rfl

end lstep

theorem lastVisit_cons (ph : Photon K) (s : St K) (v : Visit K) (rest : List (Visit K)) (h : s.out = v :: rest) :
    lastVisit ph s = v := by unfold lastVisit; rw [h]


/-- an axis on which the next pass of the split run has length zero: the packet moves down and sits on the
lower wall of its index cell -/
def Pend (h : V3 K) (x : Photon K × St K) (a : Ax) : Prop :=
  x.1.dir.get a < 0 ∧ x.2.pos.get a = (x.2.idx.get a : K) * h.get a

open Classical in
/-- how many zero-length passes the chained run can make in a row from a state: 2 if a pending axis is in the
first cell (the zero-length pass leaves the subgrid), else 1 if some axis is pending, else 0 -/
noncomputable def rank (g : Geom K) : AState K → Nat
  | .inGrid _ x => if ∃ a, Pend g.h x a ∧ x.2.idx.get a = 0 then 2 else if ∃ a, Pend g.h x a then 1 else 0
  | _ => 0

open Classical in
theorem rank_inGrid_def (g : Geom K) (s : Nat) (x : Photon K × St K) :
    rank g (.inGrid s x)
      = if ∃ a, Pend g.h x a ∧ x.2.idx.get a = 0 then 2 else if ∃ a, Pend g.h x a then 1 else 0 := rfl

theorem rank_inGrid_le (g : Geom K) (s : Nat) (x : Photon K × St K) (h : ¬ ∃ a, Pend g.h x a ∧ x.2.idx.get a = 0) :
    rank g (.inGrid s x) ≤ 1 := by
  rw [rank_inGrid_def, if_neg h]; split_ifs <;> omega

theorem rank_inGrid_zero (g : Geom K) (s : Nat) (x : Photon K × St K) (h : ¬ ∃ a, Pend g.h x a) :
    rank g (.inGrid s x) = 0 := by
  rw [rank_inGrid_def, if_neg (fun ⟨a, ha, _⟩ => h ⟨a, ha⟩), if_neg h]

theorem rank_inGrid_pos (g : Geom K) (s : Nat) (x : Photon K × St K) (a : Ax) (h : Pend g.h x a) :
    1 ≤ rank g (.inGrid s x) := by
  rw [rank_inGrid_def]; split_ifs with h1 h2
  · omega
  · omega
  · exact absurd ⟨a, h⟩ h2

theorem rank_inGrid_two (g : Geom K) (s : Nat) (x : Photon K × St K) (a : Ax) (h : Pend g.h x a) (h0 : x.2.idx.get a = 0) :
    rank g (.inGrid s x) = 2 := by
  rw [rank_inGrid_def, if_pos ⟨a, h, h0⟩]

/-- under the correspondence, a pending axis is exactly an axis on which the split run is one cell ahead -/
theorem pend_ahead {g : Geom K} {L : Layout} {field : Int × Int × Int → Cell K} {pk : Photon K}
    {s : Nat} {ph : Photon K} {st : St K} {c : CS K} {sh : V3 Int}
    (hok : Ok g L field pk) (hR : RelWith g (envOf g L field pk) L s ph st c sh) (a : Ax)
    (hp : Pend g.h (ph, st) a) :
    Ahead (ph.dir.get a) (g.h.get a) (st.pos.get a) (st.idx.get a) (sh.get a) (c.G.get a) := by
  rcases hR.idx a with he | ha
  · exfalso
    have hpos := hR.pos a
    have hg := (hR.cgood a).2.2.2
    simp only [envOf_h, envOf_pk] at hpos hg
    have hdir : ph.dir = pk.dir := hR.dir
    have := hg (by rw [← hdir]; exact hp.1)
    rw [he, hpos, hp.2] at this; push_cast at this
    linarith
  · exact ha

theorem valOf_zero (L : Layout) (s : Nat) (v : Visit K) (h : v.path = 0) : valOf L s v = 0 := by
  unfold valOf; rw [h]; exact Pi.single_zero _

theorem cstep_stop (e : Env K) (c : CS K) (h : e.pk.tau ≤ c.td + ctau e c) :
    cstep e (.run c) = some (Pi.single (key e.N c.G) (cStopPath e c), .absorbed (cStop e c)) := by
  simp only [cstep, if_pos h]

theorem cstep_leave (e : Env K) (c : CS K) (h : ¬ e.pk.tau ≤ c.td + ctau e c) :
    cstep e (.run c) = some (Pi.single (key e.N c.G) (clmin e c),
      if (cOut e (cLeave e c) .x || cOut e (cLeave e c) .y || cOut e (cLeave e c) .z) = true
      then .escaped (cLeave e c) else .run (cLeave e c)) := by
  simp only [cstep, if_neg h]

section steps
variable {g : Geom K} {L : Layout} {field : Int × Int × Int → Cell K} {pk : Photon K}
variable {s : Nat} {ph : Photon K} {st : St K} {c : CS K} {sh : V3 Int}
variable (hok : Ok g L field pk) (hR : RelWith g (envOf g L field pk) L s ph st c sh)
include hok hR

/-- the split run is one cell ahead on some axis: its next pass has length zero, deposits nothing and
re-establishes the exact correspondence — the reference run does not move -/
theorem step_stutter (a0 : Ax) (ha0 : ¬ c.G.get a0 = st.idx.get a0 + sh.get a0) :
    ∃ a', aStep g field L (.inGrid s (ph, st)) = some (0, a') ∧ R g (envOf g L field pk) L a' (.run c)
      ∧ rank g a' < rank g (.inGrid s (ph, st)) := by
  obtain ⟨hst, hl0, hpos, hidx, htd⟩ := stutter_step hok hR a0 ha0
  have hah0 : Ahead (ph.dir.get a0) (g.h.get a0) (st.pos.get a0) (st.idx.get a0) (sh.get a0) (c.G.get a0) := by
    rcases hR.idx a0 with he | ha
    · exact absurd he ha0
    · exact ha
  have hpend0 : Pend g.h (ph, st) a0 := ⟨hah0.2.1, hah0.2.2⟩
  have hv := rel_valid hok hR
  have hc := rel_inCell hok hR
  obtain ⟨hc', hr', ho', _, _⟩ := leave_spec _ _ _ _ hv hR.inr hc
  have hout := leave_out (blockOf g L s) (cellsOf field L s) ph st
  rw [← hst] at hpos hidx htd hc' hr' ho' hout
  obtain ⟨st', hst'⟩ : ∃ st', st' = step (blockOf g L s) (cellsOf field L s) ph st := ⟨_, rfl⟩
  rw [← hst'] at hpos hidx htd hc' hr' ho' hout
  have hW : RawRel g (envOf g L field pk) L s ph st' c sh :=
    { slt := hR.slt, shift := hR.shift, dir := hR.dir, sigH := hR.sigH, sigHe := hR.sigHe
      tau := by rw [htd]; exact hR.tau
      run := by rw [htd]; exact hR.run
      td0 := by rw [htd]; exact hR.td0
      pos := fun a => by rw [hpos a]; exact hR.pos a
      idx := hidx, range := hr', cell := hc', out := ho', cgood := hR.cgood }
  have hv0 : valOf L s (lastVisit ph st') = 0 := by
    refine valOf_zero L s _ ?_
    rw [lastVisit_cons ph st' _ _ hout]; exact hl0
  have h1 : ¬ ph.tau ≤ st'.tauDone := by rw [htd]; exact not_le.mpr hR.run
  rw [aStep_inGrid]
  by_cases hin : inside (mV L) st'.idx = true
  · rw [localStep_move g field L s ph st (by rw [← hst']; exact h1) (by rw [← hst']; exact hin), ← hst']
    simp only []
    rw [hv0]
    have hrel := raw_move hok hW ((inside_iff _ _).mp hin)
    refine ⟨_, rfl, ⟨sh, hrel⟩, ?_⟩
    rw [rank_inGrid_zero g s (ph, st') (fun ⟨a, ha⟩ => by
      have := pend_ahead hok hrel a ha
      have h2 := hW.idx a
      have h3 := this.1
      omega)]
    exact rank_inGrid_pos g s (ph, st) a0 hpend0
  · rw [localStep_exit g field L s ph st (by rw [← hst']; exact h1) (by rw [← hst']; exact hin), ← hst']
    simp only []
    rw [hv0]
    cases hn : ngb L s (RayMarch.outputDirection (mV L) st'.idx).toNat with
    | none =>
      exfalso
      obtain ⟨a, ha⟩ := raw_exit_none hok hW hn
      rw [cOut_true_iff] at ha
      have := hR.cin a ha.1
      omega
    | some t =>
      simp only []
      -- the zero-length pass left the subgrid: some pending axis was in the first cell
      have hexit : ∃ b, Pend g.h (ph, st) b ∧ st.idx.get b = 0 ∧ st'.idx.get b = -1 := by
        by_contra hno
        apply hin
        rw [inside_iff]
        intro b
        have hb := hidx b
        have hrb := hR.inr b
        rcases hR.idx b with he | hah
        · have : st'.idx.get b = st.idx.get b := by omega
          rw [this]; exact hrb
        · have h3 := hah.1
          have hne : st.idx.get b ≠ 0 := fun h0 => hno ⟨b, ⟨hah.2.1, hah.2.2⟩, h0, by omega⟩
          constructor <;> omega
      obtain ⟨b0, hpb, hb0, hb1⟩ := hexit
      have hlt : ∀ a, 0 ≤ st'.idx.get a → st'.idx.get a < ((mV L).get a : Int) →
          st'.pos.get a < top (blockOf g L s) a := ?_
      obtain ⟨_, sh', hrel⟩ := raw_exit_some hok hW t hlt hn
      refine ⟨_, rfl, ⟨sh', hrel⟩, ?_⟩
      · rw [rank_inGrid_two g s (ph, st) b0 hpb hb0]
        refine Nat.lt_succ_of_le (rank_inGrid_le g t _ ?_)
        rintro ⟨a, hpa, ha0'⟩
        have hok' := hok
        have hah := pend_ahead hok hrel a hpa
        -- the exit axis is pinned to the upper face of the neighbour
        obtain ⟨hx, hy, hz⟩ := m_pos' hok hW
        obtain ⟨hd, hcomp⟩ := exit_dir_facts L hx hy hz st'.idx
        have hk := entry_kinds _ hd b0
        rw [hcomp b0, hb1] at hk
        have hcls : clsOfOffset (-(exitClass ((mV L).get b0) (-1))) = 2 := by
          unfold exitClass; simp [clsOfOffset]
        rw [hcls] at hk
        have htop := (initSt_axis2 (blockOf g L t) (writeBack (blockOf g L s) ph st')
          (outToInDir (RayMarch.outputDirection (mV L) st'.idx).toNat) b0 hk.1 hk.2).1
        have := hrel.fresh ⟨b0, htop⟩ a hah
        simp only [enterStep] at ha0'
        omega
      -- no axis of the local state is on the upper block face
      intro a h0 hm
      by_contra hge
      have hca := hc' a
      simp only [blockOf_cs] at hca
      have htop : st'.pos.get a = top (blockOf g L s) a := by
        rw [top_eq] at hge ⊢
        simp only [blockOf_n, blockOf_cs] at hge ⊢
        have hh := hok.h_pos a
        have : ((st'.idx.get a : K) + 1) ≤ ((mV L).get a : K) := by
          have : st'.idx.get a + 1 ≤ ((mV L).get a : Int) := by omega
          exact_mod_cast this
        have : ((st'.idx.get a : K) + 1) * g.h.get a ≤ ((mV L).get a : K) * g.h.get a :=
          mul_le_mul_of_nonneg_right this hh.le
        exact le_antisymm (le_trans hca.2 this) (not_lt.mp hge)
      have hfr := hR.fresh ⟨a, by rw [← hpos a]; exact htop⟩
      apply hin
      rw [inside_iff]
      intro b
      have hb := hidx b
      rcases hR.idx b with he | hah
      · have : st'.idx.get b = st.idx.get b := by omega
        rw [this]; exact hR.inr b
      · have h1b := hfr b hah
        have := hah.1
        have hrb := hR.inr b
        constructor <;> omega

/-- all indices correspond exactly: the pass of the split run is the pass of the reference run — same
branch, same path length deposited in the same physical cell — and what follows (stay / hand over /
leave the box / absorbed) corresponds as well -/
theorem step_real (hall : ∀ a, c.G.get a = st.idx.get a + sh.get a) :
    ∃ m a' b', aStep g field L (.inGrid s (ph, st)) = some (m, a')
      ∧ cstep (envOf g L field pk) (.run c) = some (m, b') ∧ R g (envOf g L field pk) L a' b' := by
  have hv := rel_valid hok hR
  have hc := rel_inCell hok hR
  have hkey := exact_key hok hR hall
  have hdir : ph.dir = pk.dir := hR.dir
  rw [aStep_inGrid]
  by_cases hreach : pk.tau ≤ c.td + ctau (envOf g L field pk) c
  · -- target optical depth reached in this cell
    obtain ⟨hst, hsp, hpos, htau⟩ := exact_stop hok hR hall hreach
    have hout := stop_out (blockOf g L s) (cellsOf field L s) ph st
    have htd : ph.tau ≤ (stop ph st (geo (blockOf g L s) (cellsOf field L s) ph st)).tauDone := by
      rw [stop_tau]; exact (exact_reach hok hR hall).mpr hreach
    rw [← hst] at hout htd hpos htau
    obtain ⟨st', hst'⟩ : ∃ st', st' = step (blockOf g L s) (cellsOf field L s) ph st := ⟨_, rfl⟩
    rw [← hst'] at hout htd hpos htau
    rw [localStep_absorbed g field L s ph st (by rw [← hst']; exact htd), ← hst']
    simp only []
    refine ⟨_, _, .absorbed (cStop (envOf g L field pk) c), rfl, ?_, ?_⟩
    · rw [cstep_stop _ _ hreach, lastVisit_cons ph st' _ _ hout]
      simp only [valOf, visit, envOf_N, hkey, hsp]
    · refine rfin_of (by simpa using hR.shift) (fun a => (hpos a).symm) ?_
      show ph.tau - st'.tauDone = pk.tau - (c.td + ctau (envOf g L field pk) c)
      linarith
  · -- the packet leaves the cell
    obtain ⟨hst, hX, hG, htd⟩ := exact_leave hok hR hall hreach
    obtain ⟨h0, _, hle, _, hne⟩ := lmin_facts _ _ _ _ hv hR.inr hc
    have hlpos := exact_lmin_pos hok hR hall
    obtain ⟨hc', hr', ho', _, _⟩ := leave_spec _ _ _ _ hv hR.inr hc
    have hout := leave_out (blockOf g L s) (cellsOf field L s) ph st
    have hax1 : ∀ a, (leave ph st (geo (blockOf g L s) (cellsOf field L s) ph st)).pos.get a
        = st.pos.get a + (geo (blockOf g L s) (cellsOf field L s) ph st).lmin * ph.dir.get a :=
      fun a => (leave_axis _ _ _ _ hv hR.inr hc a).1
    have hax2 : ∀ a, (leave ph st (geo (blockOf g L s) (cellsOf field L s) ph st)).idx.get a
        = bumpAxis (ph.dir.get a) ((geo (blockOf g L s) (cellsOf field L s) ph st).l.get a)
            (geo (blockOf g L s) (cellsOf field L s) ph st).lmin (st.idx.get a) :=
      fun a => (leave_axis _ _ _ _ hv hR.inr hc a).2.1
    have hrun : ¬ ph.tau ≤ (leave ph st (geo (blockOf g L s) (cellsOf field L s) ph st)).tauDone :=
      fun h => hreach ((exact_reach hok hR hall).mp h)
    have hlm := exact_lmin hok hR hall
    have htaug := exact_tau hok hR hall
    have htau0 : 0 ≤ ctau (envOf g L field pk) c := by
      rw [← htaug, geo_tau]; exact mul_nonneg (hv.kappa_nonneg _) h0
    -- strictness of the new position in its new cell, in local terms
    have hstrict : ∀ a,
        (0 ≤ ph.dir.get a → (leave ph st (geo (blockOf g L s) (cellsOf field L s) ph st)).pos.get a
          < (((leave ph st (geo (blockOf g L s) (cellsOf field L s) ph st)).idx.get a : K) + 1) * g.h.get a)
        ∧ (ph.dir.get a < 0 → ((leave ph st (geo (blockOf g L s) (cellsOf field L s) ph st)).idx.get a : K) * g.h.get a
          < (leave ph st (geo (blockOf g L s) (cellsOf field L s) ph st)).pos.get a) := by
      intro a
      have hca := hc a
      simp only [blockOf_cs] at hca
      have hl := rel_l hok hR a
      have := axis_leave_strict (hok.h_pos a) hca.1 hca.2 (rel_good hok hR a) h0
        (by rw [← hl]; exact hle a) (fun hd => by rw [← hl]; exact hne a hd)
      rw [hax1 a, hax2 a, hl]
      constructor
      · intro hd; have := this.1 hd; linarith
      · exact this.2
    rw [← hst] at hout hrun hX hG htd hc' hr' ho' hstrict hax1
    obtain ⟨st', hst'⟩ : ∃ st', st' = step (blockOf g L s) (cellsOf field L s) ph st := ⟨_, rfl⟩
    rw [← hst'] at hout hrun hX hG htd hc' hr' ho' hstrict hax1
    have hW : RawRel g (envOf g L field pk) L s ph st' (cLeave (envOf g L field pk) c) sh :=
      { slt := hR.slt, shift := hR.shift, dir := hR.dir, sigH := hR.sigH, sigHe := hR.sigHe
        tau := by
          have := hR.tau
          show ph.tau - st'.tauDone = (envOf g L field pk).pk.tau - (c.td + ctau (envOf g L field pk) c)
          linarith
        run := not_le.mp hrun
        td0 := by have := hR.td0; linarith
        pos := fun a => by simp only [envOf_h]; exact hX a
        idx := hG, range := hr', cell := hc', out := ho'
        cgood := fun a => by
          have hca := hc' a
          have hs := hstrict a
          simp only [blockOf_cs, envOf_h, envOf_pk] at hca ⊢
          rw [hX a, hG a]; push_cast
          refine ⟨by nlinarith [hca.1], by nlinarith [hca.2], fun hd => ?_, fun hd => ?_⟩
          · have := hs.1 (by rw [hdir]; exact hd); nlinarith
          · have := hs.2 (by rw [hdir]; exact hd); nlinarith }
    have hv1 : valOf L s (lastVisit ph st')
        = Pi.single (key (NV L) c.G) (clmin (envOf g L field pk) c) := by
      rw [lastVisit_cons ph st' _ _ hout]
      simp only [valOf, visit, hkey, hlm]
    have hcs : cstep (envOf g L field pk) (.run c) = some (Pi.single (key (NV L) c.G) (clmin (envOf g L field pk) c),
        if (cOut (envOf g L field pk) (cLeave (envOf g L field pk) c) .x || cOut (envOf g L field pk) (cLeave (envOf g L field pk) c) .y
          || cOut (envOf g L field pk) (cLeave (envOf g L field pk) c) .z) = true
        then .escaped (cLeave (envOf g L field pk) c) else .run (cLeave (envOf g L field pk) c)) :=
      cstep_leave _ _ hreach
    by_cases hin : inside (mV L) st'.idx = true
    · rw [localStep_move g field L s ph st (by rw [← hst']; exact hrun) (by rw [← hst']; exact hin), ← hst']
      simp only []
      have hrel := raw_move hok hW ((inside_iff _ _).mp hin)
      have hno : ¬ (cOut (envOf g L field pk) (cLeave (envOf g L field pk) c) .x || cOut (envOf g L field pk) (cLeave (envOf g L field pk) c) .y
          || cOut (envOf g L field pk) (cLeave (envOf g L field pk) c) .z) = true := by
        rw [cOut_any]; rintro ⟨a, ha⟩
        rw [cOut_true_iff] at ha
        have := hrel.cin a ha.1; omega
      rw [if_neg hno] at hcs
      exact ⟨_, _, .run (cLeave (envOf g L field pk) c), rfl, by rw [hcs, hv1], sh, hrel⟩
    · rw [localStep_exit g field L s ph st (by rw [← hst']; exact hrun) (by rw [← hst']; exact hin), ← hst']
      simp only []
      cases hn : ngb L s (RayMarch.outputDirection (mV L) st'.idx).toNat with
      | none =>
        simp only []
        have hany := (cOut_any _ _).mpr (raw_exit_none hok hW hn)
        rw [if_pos hany] at hcs
        refine ⟨_, _, .escaped (cLeave (envOf g L field pk) c), rfl, by rw [hcs, hv1], ?_⟩
        exact rfin_of (by simpa using hR.shift) (fun a => by have := hW.pos a; simpa using this) hW.tau
      | some t =>
        simp only []
        have hlt : ∀ a, 0 ≤ st'.idx.get a → st'.idx.get a < ((mV L).get a : Int) →
            st'.pos.get a < top (blockOf g L s) a := by
          intro a h0' hm
          rw [top_eq]; simp only [blockOf_n, blockOf_cs]
          have hh := hok.h_pos a
          have hle' : ((st'.idx.get a : K) + 1) * g.h.get a ≤ ((mV L).get a : K) * g.h.get a := by
            have : st'.idx.get a + 1 ≤ ((mV L).get a : Int) := by omega
            have : ((st'.idx.get a : K) + 1) ≤ ((mV L).get a : K) := by exact_mod_cast this
            exact mul_le_mul_of_nonneg_right this hh.le
          rcases le_or_gt 0 (ph.dir.get a) with hd | hd
          · exact lt_of_lt_of_le ((hstrict a).1 hd) hle'
          · have hca := hc a
            simp only [blockOf_cs] at hca
            have hp' := hax1 a
            have hi' : ((st.idx.get a : K) + 1) * g.h.get a ≤ ((mV L).get a : K) * g.h.get a := by
              have : st.idx.get a + 1 ≤ ((mV L).get a : Int) := by have := (hR.inr a).2; omega
              have : ((st.idx.get a : K) + 1) ≤ ((mV L).get a : K) := by exact_mod_cast this
              exact mul_le_mul_of_nonneg_right this hh.le
            rw [hp']
            nlinarith
        obtain ⟨hno', hrel⟩ := raw_exit_some hok hW t hlt hn
        have hno : ¬ (cOut (envOf g L field pk) (cLeave (envOf g L field pk) c) .x || cOut (envOf g L field pk) (cLeave (envOf g L field pk) c) .y
            || cOut (envOf g L field pk) (cLeave (envOf g L field pk) c) .z) = true := by
          rw [cOut_any]; rintro ⟨a, ha⟩
          rw [hno' a] at ha; cases ha
        rw [if_neg hno] at hcs
        exact ⟨_, _, .run (cLeave (envOf g L field pk) c), rfl, by rw [hcs, hv1], hrel⟩

end steps
theorem aStep_absorbed (g : Geom K) (field : Int × Int × Int → Cell K) (L : Layout) (s : Nat) (x : Photon K × St K) :
    aStep g field L (.absorbedIn s x) = none := rfl
theorem aStep_escaped (g : Geom K) (field : Int × Int × Int → Cell K) (L : Layout) (s d : Nat) (x : Photon K × St K) :
    aStep g field L (.escaped s d x) = none := rfl

theorem aStep_inGrid_ne_none (g : Geom K) (field : Int × Int × Int → Cell K) (L : Layout) (s : Nat) (x : Photon K × St K) :
    aStep g field L (.inGrid s x) ≠ none := by
  rw [aStep_inGrid]
  cases localStep g field L s x with
  | move dep st' => simp
  | absorbed dep st' => simp
  | exit dep d st' => cases hn : ngb L s d <;> simp [hn]

/-- **Single-step commutation, proved**: the chained run through the subgrids of `L` (C02's `step`,
`initSt`, C03's hand-over) against the reference run on the unfolded lattice of cells. -/
theorem step_commutes {g : Geom K} {L : Layout} {field : Int × Int × Int → Cell K} {pk : Photon K}
    (hok : Ok g L field pk) :
    StepCommutes (aStep g field L) (cstep (envOf g L field pk)) (R g (envOf g L field pk) L) where
  halt := by
    intro a b hR ha
    cases a with
    | inGrid s x => exact absurd ha (aStep_inGrid_ne_none g field L s x)
    | absorbedIn s x => cases b <;> first | rfl | exact absurd hR (by simp [R])
    | escaped s d x => cases b <;> first | rfl | exact absurd hR (by simp [R])
  step := by
    intro a b m a' hR ha
    cases a with
    | inGrid s x =>
      cases b with
      | run c =>
        obtain ⟨ph, st⟩ := x
        obtain ⟨sh, hRW⟩ : Rel g (envOf g L field pk) L s ph st c := hR
        by_cases hall : ∀ a, c.G.get a = st.idx.get a + sh.get a
        · obtain ⟨m0, a0, b0, h1, h2, h3⟩ := step_real hok hRW hall
          rw [h1] at ha
          injection ha with ha
          injection ha with hm ha'
          subst hm; subst ha'
          exact Or.inl ⟨b0, h2, h3⟩
        · simp only [not_forall] at hall
          obtain ⟨a0, ha0⟩ := hall
          obtain ⟨a1, h1, h2, _⟩ := step_stutter hok hRW a0 ha0
          rw [h1] at ha
          injection ha with ha
          injection ha with hm ha'
          subst hm; subst ha'
          exact Or.inr ⟨rfl, h2⟩
      | absorbed c => exact absurd hR (by simp [R])
      | escaped c => exact absurd hR (by simp [R])
    | absorbedIn s x => rw [aStep_absorbed] at ha; cases ha
    | escaped s d x => rw [aStep_escaped] at ha; cases ha

/-! ## the start of both runs -/

/-- recomputing the index of a kept coordinate: exact, or one cell ahead on a wall while moving down -/
theorem floor_axis {h d X pos' : K} {G sh : Int} {m : Nat} (hh : 0 < h)
    (hX : X = pos' + (sh : K) * h)
    (hcell : (G : K) * h ≤ X ∧ X ≤ ((G : K) + 1) * h)
    (cgood : (0 ≤ d → X < ((G : K) + 1) * h) ∧ (d < 0 → (G : K) * h < X))
    (h0 : 0 ≤ pos') (hlt : pos' < (m : K) * h) :
    AxRel d h pos' ((floorUpTo m (pos' * (1 / h)) : Nat) : Int) sh G
    ∧ (0 ≤ ((floorUpTo m (pos' * (1 / h)) : Nat) : Int) ∧ ((floorUpTo m (pos' * (1 / h)) : Nat) : Int) < (m : Int)) := by
  have hx0 : 0 ≤ pos' * (1 / h) := mul_nonneg h0 (by positivity)
  have hxm : pos' * (1 / h) < (m : K) := by rw [mul_one_div, div_lt_iff₀ hh]; exact hlt
  obtain ⟨f1, f2, f3⟩ := floorUpTo_spec m (pos' * (1 / h)) hx0
  have f4 : pos' * (1 / h) < ((floorUpTo m (pos' * (1 / h)) : Nat) : K) + 1 := by
    rcases f3 with f3 | f3
    · exact f3
    · rw [f3] at f1; linarith
  have f5 : floorUpTo m (pos' * (1 / h)) < m := by
    have : ((floorUpTo m (pos' * (1 / h)) : Nat) : K) < (m : K) := lt_of_le_of_lt f1 hxm
    exact_mod_cast this
  obtain ⟨k, hk⟩ : ∃ k, k = floorUpTo m (pos' * (1 / h)) := ⟨_, rfl⟩
  rw [← hk] at f1 f4 f5 ⊢
  have hk1 : ((k : Int) : K) * h ≤ pos' := by
    have := mul_le_mul_of_nonneg_right f1 hh.le
    rw [mul_one_div, div_mul_cancel₀ _ hh.ne'] at this
    push_cast; exact this
  have hk2 : pos' < (((k : Int) : K) + 1) * h := by
    have := mul_lt_mul_of_pos_right f4 hh
    rw [mul_one_div, div_mul_cancel₀ _ hh.ne'] at this
    push_cast; exact this
  -- the reference cell in local coordinates: index G - sh
  have hc1 : ((G - sh : Int) : K) * h ≤ pos' := by
    have := hcell.1; rw [hX] at this; push_cast; nlinarith
  have hc2 : pos' ≤ (((G - sh : Int) : K) + 1) * h := by
    have := hcell.2; rw [hX] at this; push_cast; nlinarith
  refine ⟨?_, by omega, by exact_mod_cast f5⟩
  by_cases hup : pos' < (((G - sh : Int) : K) + 1) * h
  · left
    have : (k : Int) = G - sh := cell_unique hh hk1 hk2 hc1 hup
    omega
  · right
    have heq : pos' = (((G - sh : Int) : K) + 1) * h := le_antisymm hc2 (not_lt.mp hup)
    have hd : d < 0 := by
      by_contra hnd
      have := cgood.1 (not_lt.mp hnd)
      rw [hX] at this
      apply hup; push_cast; nlinarith
    have hk' : (k : Int) = G - sh + 1 := by
      refine cell_unique hh hk1 hk2 ?_ ?_
      · push_cast; rw [heq]; push_cast; linarith
      · push_cast; rw [heq]; push_cast; linarith
    refine ⟨by omega, hd, ?_⟩
    rw [hk', heq]; push_cast; ring


/-- start position relative to the box anchor -/
def X0 (g : Geom K) (pk : Photon K) (a : Ax) : K := pk.pos.get a - g.A.get a

/-- the packet starts inside the (half-open) box, and not on the lower box face of an axis along which it
moves downwards -/
structure StartInside (g : Geom K) (L : Layout) (pk : Photon K) : Prop where
  lo : ∀ a, 0 ≤ X0 g pk a
  hi : ∀ a, X0 g pk a < ((NV L).get a : K) * g.h.get a
  down : ∀ a, pk.dir.get a < 0 → 0 < X0 g pk a

/-- start cell of the reference run: the cell that owns the start position (half-open), one lower when
the position lies on a cell wall and the packet moves downwards -/
def G0 (g : Geom K) (e : Env K) (a : Ax) : Int :=
  if e.pk.dir.get a < 0 ∧
      X0 g e.pk a = ((floorUpTo (e.N.get a) (X0 g e.pk a * (1 / e.h.get a)) : Nat) : K) * e.h.get a
  then ((floorUpTo (e.N.get a) (X0 g e.pk a * (1 / e.h.get a)) : Nat) : Int) - 1
  else ((floorUpTo (e.N.get a) (X0 g e.pk a * (1 / e.h.get a)) : Nat) : Int)

def cstart (g : Geom K) (e : Env K) : CState K := .run ⟨V3.of (X0 g e.pk), V3.of (G0 g e), 0⟩

/-- start of the chained run: `get_subgrid(position)`, then `interact(photon, INSIDE)` begins -/
def startOf (g : Geom K) (L : Layout) (pk : Photon K) : AState K :=
  .inGrid (subgridOf g L pk.pos) (pk, initSt (blockOf g L (subgridOf g L pk.pos)) pk 0)

theorem kinds_inside : ∀ a : Ax, pinKind 0 a = 0 ∧ idxKind 0 a = 0 := by
  intro a; cases a <;> decide

/-- an integer cell of size `h` that owns `x` (half-open) from `floorUpTo` -/
theorem floorUpTo_cell {h x : K} {n : Nat} (hh : 0 < h) (h0 : 0 ≤ x) (hlt : x < (n : K) * h) :
    ((floorUpTo n (x * (1 / h)) : Nat) : K) * h ≤ x ∧ x < (((floorUpTo n (x * (1 / h)) : Nat) : K) + 1) * h
      ∧ floorUpTo n (x * (1 / h)) < n := by
  have hx0 : 0 ≤ x * (1 / h) := mul_nonneg h0 (by positivity)
  have hxm : x * (1 / h) < (n : K) := by rw [mul_one_div, div_lt_iff₀ hh]; exact hlt
  obtain ⟨f1, f2, f3⟩ := floorUpTo_spec n (x * (1 / h)) hx0
  have f4 : x * (1 / h) < ((floorUpTo n (x * (1 / h)) : Nat) : K) + 1 := by
    rcases f3 with f3 | f3
    · exact f3
    · rw [f3] at f1; linarith
  have e : x * (1 / h) * h = x := by field_simp
  refine ⟨?_, ?_, ?_⟩
  · have := mul_le_mul_of_nonneg_right f1 hh.le
    rwa [e] at this
  · have := mul_lt_mul_of_pos_right f4 hh
    rwa [e] at this
  · have : ((floorUpTo n (x * (1 / h)) : Nat) : K) < (n : K) := lt_of_le_of_lt f1 hxm
    exact_mod_cast this

theorem G0_spec (g : Geom K) (e : Env K) (a : Ax) (hh : 0 < e.h.get a) (h0 : 0 ≤ X0 g e.pk a)
    (hlt : X0 g e.pk a < (e.N.get a : K) * e.h.get a) (hdown : e.pk.dir.get a < 0 → 0 < X0 g e.pk a) :
    ((G0 g e a : Int) : K) * e.h.get a ≤ X0 g e.pk a
      ∧ X0 g e.pk a ≤ ((G0 g e a : K) + 1) * e.h.get a
      ∧ (0 ≤ e.pk.dir.get a → X0 g e.pk a < ((G0 g e a : K) + 1) * e.h.get a)
      ∧ (e.pk.dir.get a < 0 → (G0 g e a : K) * e.h.get a < X0 g e.pk a)
      ∧ 0 ≤ G0 g e a ∧ G0 g e a < (e.N.get a : Int) := by
  obtain ⟨c1, c2, c3⟩ := floorUpTo_cell (n := e.N.get a) hh h0 hlt
  unfold G0
  by_cases hcond : e.pk.dir.get a < 0 ∧
      X0 g e.pk a = ((floorUpTo (e.N.get a) (X0 g e.pk a * (1 / e.h.get a)) : Nat) : K) * e.h.get a
  · rw [if_pos hcond]
    have hk1 : 1 ≤ floorUpTo (e.N.get a) (X0 g e.pk a * (1 / e.h.get a)) := by
      by_contra hlt'
      have : floorUpTo (e.N.get a) (X0 g e.pk a * (1 / e.h.get a)) = 0 := by omega
      have hx := hcond.2; rw [this] at hx
      have := hdown hcond.1
      simp at hx; linarith
    push_cast
    refine ⟨by nlinarith, by nlinarith [hcond.2], fun hd => absurd hcond.1 (not_lt.mpr hd), fun _ => by nlinarith [hcond.2],
      by omega, by omega⟩
  · rw [if_neg hcond]
    push_cast
    refine ⟨c1, c2.le, fun _ => c2, fun hd => ?_, by omega, by exact_mod_cast c3⟩
    exact lt_of_le_of_ne c1 (fun h => hcond ⟨hd, h.symm⟩)

theorem start_rel {g : Geom K} {L : Layout} {field : Int × Int × Int → Cell K} {pk : Photon K}
    (hok : Ok g L field pk) (hn : ∀ a, 0 < (nV L).get a) (hs : StartInside g L pk) :
    R g (envOf g L field pk) L (startOf g L pk) (cstart g (envOf g L field pk)) := by
  -- coordinates of the start subgrid
  let cc : Ax → Nat := fun a =>
    floorUpTo ((nV L).get a) ((pk.pos.get a - g.A.get a) / (ofNat ((mV L).get a) * g.h.get a))
  have hcc : ∀ a, cc a < (nV L).get a ∧ ((cc a : K) * ((mV L).get a : K)) * g.h.get a ≤ X0 g pk a
      ∧ X0 g pk a < (((cc a : K) + 1) * ((mV L).get a : K)) * g.h.get a := by
    intro a
    have hh := hok.h_pos a
    have hm : (0 : K) < ((mV L).get a : K) := by exact_mod_cast hok.m_pos a
    have hmh : 0 < ((mV L).get a : K) * g.h.get a := mul_pos hm hh
    have hN : ((NV L).get a : K) = ((nV L).get a : K) * ((mV L).get a : K) := by rw [NV_get]; push_cast; ring
    have := floorUpTo_cell (n := (nV L).get a) hmh (hs.lo a) (by have := hs.hi a; rw [hN] at this; linarith)
    have e : X0 g pk a * (1 / (((mV L).get a : K) * g.h.get a))
        = (pk.pos.get a - g.A.get a) / (ofNat ((mV L).get a) * g.h.get a) := by
      rw [ofNat_eq]; unfold X0; rw [mul_one_div]
    rw [e] at this
    exact ⟨this.2.2, by linarith [this.1], by linarith [this.2.1]⟩
  have hs0 : subgridOf g L pk.pos = indexOf L (cc .x) (cc .y) (cc .z) := rfl
  have hgp := SubgridLayout.gridPosition_indexOf L (cc .x) (cc .y) (cc .z) (hcc .y).1 (hcc .z).1
  have hslt : subgridOf g L pk.pos < L.size :=
    SubgridLayout.indexOf_lt L _ _ _ (hcc .x).1 (hcc .y).1 (hcc .z).1
  have hposV : ∀ a, (posV L (subgridOf g L pk.pos)).get a = cc a := by
    intro a
    rw [hs0]; unfold posV; rw [hgp]; cases a <;> rfl
  have hoff : ∀ a, (off L (subgridOf g L pk.pos) a : K) = (cc a : K) * ((mV L).get a : K) := by
    intro a; unfold off; rw [hposV a]; push_cast; ring
  -- local position and index computed by initSt
  have hin := fun a => initSt_axis0 (blockOf g L (subgridOf g L pk.pos)) pk 0 a (kinds_inside a).1 (kinds_inside a).2
  have hloc : ∀ a, (initSt (blockOf g L (subgridOf g L pk.pos)) pk 0).pos.get a
      = X0 g pk a - (off L (subgridOf g L pk.pos) a : K) * g.h.get a := by
    intro a; rw [(hin a).1]; simp only [blockOf, V3.get_of, X0]; ring
  have hloc0 : ∀ a, 0 ≤ X0 g pk a - (off L (subgridOf g L pk.pos) a : K) * g.h.get a := by
    intro a; rw [hoff a]; linarith [(hcc a).2.1]
  have hloc1 : ∀ a, X0 g pk a - (off L (subgridOf g L pk.pos) a : K) * g.h.get a < ((mV L).get a : K) * g.h.get a := by
    intro a; rw [hoff a]; nlinarith [(hcc a).2.2]
  -- the reference start cell
  have hG : ∀ a, ((G0 g (envOf g L field pk) a : Int) : K) * g.h.get a ≤ X0 g pk a
      ∧ X0 g pk a ≤ ((G0 g (envOf g L field pk) a : K) + 1) * g.h.get a
      ∧ (0 ≤ pk.dir.get a → X0 g pk a < ((G0 g (envOf g L field pk) a : K) + 1) * g.h.get a)
      ∧ (pk.dir.get a < 0 → (G0 g (envOf g L field pk) a : K) * g.h.get a < X0 g pk a)
      ∧ 0 ≤ G0 g (envOf g L field pk) a ∧ G0 g (envOf g L field pk) a < ((NV L).get a : Int) :=
    fun a => G0_spec g (envOf g L field pk) a (hok.h_pos a) (hs.lo a) (hs.hi a) (hs.down a)
  have hfl : ∀ a, _ := fun a =>
    floor_axis (d := pk.dir.get a) (G := G0 g (envOf g L field pk) a) (sh := off L (subgridOf g L pk.pos) a)
      (m := (mV L).get a) (hok.h_pos a) (X := X0 g pk a)
      (pos' := X0 g pk a - (off L (subgridOf g L pk.pos) a : K) * g.h.get a) (by ring)
      ⟨(hG a).1, (hG a).2.1⟩ ⟨(hG a).2.2.1, (hG a).2.2.2.1⟩ (hloc0 a) (hloc1 a)
  have hidx : ∀ a, (initSt (blockOf g L (subgridOf g L pk.pos)) pk 0).idx.get a
      = ((floorUpTo ((mV L).get a)
          ((X0 g pk a - (off L (subgridOf g L pk.pos) a : K) * g.h.get a) * (1 / g.h.get a)) : Nat) : Int) := by
    intro a
    rw [(hin a).2]
    simp only [blockOf, V3.get_of, X0]
    -- the start is strictly below the upper boundary of its subgrid: the clamp is inactive
    have hlt := (floorUpTo_cell (n := (mV L).get a) (hok.h_pos a) (hloc0 a) (hloc1 a)).2.2
    have key : ∀ (m : Nat) (x y : K), x = y → floorUpTo m y < m →
        clampIdx ((floorUpTo m x : Nat) : Int) ((m : Int) - 1) = ((floorUpTo m y : Nat) : Int) := by
      intro m x y h hl; subst h; unfold clampIdx; rw [if_neg (by omega)]
    refine key _ _ _ ?_ hlt
    ring
  show Rel g (envOf g L field pk) L (subgridOf g L pk.pos) pk _ _
  refine ⟨V3.of (off L (subgridOf g L pk.pos)), ?_⟩
  exact
    { slt := hslt
      shift := fun a => ⟨0, by simp, fun _ => rfl⟩
      dir := rfl, sigH := rfl, sigHe := rfl
      tau := by rw [initSt_tau]; rfl
      run := by rw [initSt_tau]; exact hok.tau_pos
      td0 := by rw [initSt_tau]
      pos := fun a => by simp only [V3.get_of, envOf_h, envOf_pk]; rw [hloc a]; ring
      idx := fun a => by
        simp only [V3.get_of, envOf_h, envOf_pk]
        rw [hloc a, hidx a]; exact (hfl a).1
      inr := fun a => by rw [hidx a]; exact (hfl a).2
      cgood := fun a => by simp only [V3.get_of, envOf_h, envOf_pk]; exact ⟨(hG a).1, (hG a).2.1, (hG a).2.2.1, (hG a).2.2.2.1⟩
      cin := fun a _ => by simp only [V3.get_of, envOf_N]; exact ⟨(hG a).2.2.2.2.1, (hG a).2.2.2.2.2⟩
      fresh := fun ⟨a, ha⟩ => by
        exfalso
        rw [hloc a, top_eq] at ha
        simp only [blockOf_n, blockOf_cs] at ha
        have := hloc1 a; linarith }


/-! ## split invariance -/

/-- the same grid as a single block -/
def whole (L : Layout) : Layout := ⟨1, 1, 1, L.nx * L.mx, L.ny * L.my, L.nz * L.mz, L.px, L.py, L.pz⟩

theorem NV_whole (L : Layout) : NV (whole L) = NV L := by simp [NV, whole]

theorem envOf_whole (g : Geom K) (L : Layout) (field : Int × Int × Int → Cell K) (pk : Photon K) :
    envOf g (whole L) field pk = envOf g L field pk := by
  unfold envOf; rw [NV_whole]; rfl

theorem ok_whole {g : Geom K} {L : Layout} {field : Int × Int × Int → Cell K} {pk : Photon K}
    (hok : Ok g L field pk) (hn : ∀ a, 0 < (nV L).get a) : Ok g (whole L) field pk where
  h_pos := hok.h_pos
  m_pos := fun a => by
    have h1 := hok.m_pos a; have h2 := hn a
    cases a <;> simp only [mV, nV, whole, V3.get] at h1 h2 ⊢ <;> exact Nat.mul_pos h2 h1
  moving := hok.moving
  big := hok.big
  kappa_nonneg := hok.kappa_nonneg
  tau_pos := hok.tau_pos

theorem startInside_whole {g : Geom K} {L : Layout} {pk : Photon K} (hs : StartInside g L pk) :
    StartInside g (whole L) pk :=
  ⟨hs.lo, fun a => by rw [NV_whole]; exact hs.hi a, hs.down⟩

section runs
variable {X M : Type} [AddCommMonoid M]

theorem runSum_of_halts_le (step : X → Option (M × X)) (f : Nat) (x : X) (h : Halts step f x) :
    ∀ k, runSum step (f + k) x = runSum step f x ∧ Halts step (f + k) x := by
  intro k
  induction k with
  | zero => exact ⟨rfl, h⟩
  | succ k ih =>
    refine ⟨?_, ?_⟩
    · rw [← Nat.add_assoc, SubgridLayout.runSum_succ_of_halts step (f + k) x ih.2, ih.1]
    · rw [← Nat.add_assoc]; exact SubgridLayout.halts_succ step (f + k) x ih.2

/-- two halted runs of the same deterministic step function from the same state have the same result -/
theorem runSum_halts_eq (step : X → Option (M × X)) (f f' : Nat) (x : X)
    (h : Halts step f x) (h' : Halts step f' x) : runSum step f x = runSum step f' x := by
  rcases Nat.le_total f f' with hle | hle
  · obtain ⟨k, rfl⟩ := Nat.exists_eq_add_of_le hle
    exact ((runSum_of_halts_le step f x h k).1).symm
  · obtain ⟨k, rfl⟩ := Nat.exists_eq_add_of_le hle
    exact (runSum_of_halts_le step f' x h' k).1
end runs

/-- two packets as written back by `interact`: same remaining optical depth, same point of the box up to
whole box lengths on periodic axes -/
def SamePoint (e : Env K) (x y : Photon K × St K) : Prop :=
  x.1.tau = y.1.tau ∧
  ∀ a, ∃ w : Int, x.1.pos.get a - y.1.pos.get a = (w : K) * ((e.N.get a : K) * e.h.get a) ∧ (e.per.get a = false → w = 0)

/-- how two finished chained runs compare: both absorbed or both escaped, at the same point -/
def FinalAgree (e : Env K) : AState K → AState K → Prop
  | .absorbedIn _ x, .absorbedIn _ y => SamePoint e x y
  | .escaped _ _ x, .escaped _ _ y => SamePoint e x y
  | _, _ => False

theorem samePoint_of_rfin {g : Geom K} {e : Env K} {x y : Photon K × St K} {c : CS K}
    (hx : RFin g e x c) (hy : RFin g e y c) : SamePoint e x y := by
  refine ⟨by rw [hx.1, hy.1], fun a => ?_⟩
  obtain ⟨w1, h1, p1⟩ := hx.2 a
  obtain ⟨w2, h2, p2⟩ := hy.2 a
  refine ⟨w1 - w2, ?_, fun hp => by rw [p1 hp, p2 hp]; rfl⟩
  have : x.1.pos.get a - y.1.pos.get a = (x.1.pos.get a - g.A.get a) - (y.1.pos.get a - g.A.get a) := by ring
  rw [this, h1, h2]; push_cast; ring

/-- **split invariance.**  Exact arithmetic (any linearly ordered field).  Grid of `nx·mx × ny·my × nz·mz`
cells of size `h`, any cell contents with non-negative opacity, any periodicity; a packet that starts inside
the box (`StartInside`) with a direction that is not zero and satisfies C02's `DBL_MAX` sentinel condition.
Whenever the chained run through the subgrids of `L` (C02's `step` / `initSt` in every subgrid, C03's
hand-over `get_neighbour` / `output_to_input_direction`) and the run through the same grid as one single
block are both over, they have deposited the same total path length in every cell of the grid and ended
the same way: both absorbed or both escaped, with the same remaining optical depth, at the same point. -/
theorem split_invariance {g : Geom K} {L : Layout} {field : Int × Int × Int → Cell K} {pk : Photon K}
    (hok : Ok g L field pk) (hn : ∀ a, 0 < (nV L).get a) (hs : StartInside g L pk) (f f' : Nat)
    (hA : Halts (aStep g field L) f (startOf g L pk))
    (hB : Halts (aStep g field (whole L)) f' (startOf g (whole L) pk)) :
    (runSum (aStep g field L) f (startOf g L pk)).1
        = (runSum (aStep g field (whole L)) f' (startOf g (whole L) pk)).1
    ∧ FinalAgree (envOf g L field pk) (runSum (aStep g field L) f (startOf g L pk)).2
        (runSum (aStep g field (whole L)) f' (startOf g (whole L) pk)).2 := by
  have hokW := ok_whole hok hn
  have hnW : ∀ a, 0 < (nV (whole L)).get a := fun a => by cases a <;> simp [nV, whole, V3.get]
  obtain ⟨a1, a2, a3⟩ := sim_totals _ _ _ (step_commutes hok) f _ _ (start_rel hok hn hs) hA
  obtain ⟨b1, b2, b3⟩ := sim_totals _ _ _ (step_commutes hokW) f' _ _ (start_rel hokW hnW (startInside_whole hs)) hB
  rw [envOf_whole] at b1 b2 b3
  have heq := runSum_halts_eq _ f f' _ a3 b3
  refine ⟨by rw [a1, b1, heq], ?_⟩
  rw [← heq] at b2
  -- both final states correspond to the same final state of the reference run
  have hA' : aStep g field L (runSum (aStep g field L) f (startOf g L pk)).2 = none := hA
  have hB' : aStep g field (whole L) (runSum (aStep g field (whole L)) f' (startOf g (whole L) pk)).2 = none := hB
  generalize (runSum (aStep g field L) f (startOf g L pk)).2 = fa at a2 hA' ⊢
  generalize (runSum (aStep g field (whole L)) f' (startOf g (whole L) pk)).2 = fb at b2 hB' ⊢
  generalize (runSum (cstep (envOf g L field pk)) f (cstart g (envOf g L field pk))).2 = fc at a2 b2
  cases fa with
  | inGrid s x => exact absurd hA' (aStep_inGrid_ne_none g field L s x)
  | absorbedIn s x =>
    cases fc with
    | run c => exact absurd a2 (by simp [R])
    | escaped c => exact absurd a2 (by simp [R])
    | absorbed c =>
      cases fb with
      | inGrid t y => exact absurd b2 (by simp [R])
      | escaped t d y => exact absurd b2 (by simp [R])
      | absorbedIn t y => exact samePoint_of_rfin a2 (by simpa [R] using b2)
  | escaped s d x =>
    cases fc with
    | run c => exact absurd a2 (by simp [R])
    | absorbed c => exact absurd a2 (by simp [R])
    | escaped c =>
      cases fb with
      | inGrid t y => exact absurd b2 (by simp [R])
      | absorbedIn t y => exact absurd b2 (by simp [R])
      | escaped t d y => exact samePoint_of_rfin a2 (by simpa [R] using b2)

/-! ## termination transfer: when the reference run is over, so is the chained run -/

section reverse
variable {A B M : Type} [AddCommMonoid M]

theorem halts_step (step : A → Option (M × A)) (f : Nat) (x x' : A) (m : M) (h : step x = some (m, x'))
    (hh : Halts step f x') : Halts step (f + 1) x := by
  unfold Halts at hh ⊢
  rw [SubgridLayout.runSum_succ_some step f x x' m h]; exact hh

theorem halts_step_inv (step : A → Option (M × A)) (f : Nat) (x x' : A) (m : M) (h : step x = some (m, x'))
    (hh : Halts step (f + 1) x) : Halts step f x' := by
  unfold Halts at hh ⊢
  rw [SubgridLayout.runSum_succ_some step f x x' m h] at hh; exact hh

/-- a simulation whose unmatched (zero-deposit) steps strictly decrease a rank transfers termination
backwards: if the simulated run `B` is over, the simulating run `A` is over as well -/
theorem sim_reverse (stepA : A → Option (M × A)) (stepB : B → Option (M × B)) (R : A → B → Prop) (μ : A → Nat)
    (halt' : ∀ a b, R a b → stepB b = none → stepA a = none)
    (hstep : ∀ a b m a', R a b → stepA a = some (m, a') →
      (∃ b', stepB b = some (m, b') ∧ R a' b') ∨ (m = 0 ∧ R a' b ∧ μ a' < μ a)) :
    ∀ (g n : Nat) (a : A) (b : B), μ a ≤ n → R a b → Halts stepB g b → ∃ f, Halts stepA f a := by
  intro g
  induction g with
  | zero =>
    intro n a b _ hR hh
    exact ⟨0, halt' a b hR hh⟩
  | succ g ihg =>
    intro n
    induction n with
    | zero =>
      intro a b hμ hR hh
      cases hs : stepA a with
      | none => exact ⟨0, hs⟩
      | some v =>
        obtain ⟨m, a'⟩ := v
        rcases hstep a b m a' hR hs with ⟨b', hb, hR'⟩ | ⟨_, _, hlt⟩
        · obtain ⟨f, hf⟩ := ihg (μ a') a' b' (le_refl _) hR' (halts_step_inv stepB g b b' m hb hh)
          exact ⟨f + 1, halts_step stepA f a a' m hs hf⟩
        · omega
    | succ n ihn =>
      intro a b hμ hR hh
      cases hs : stepA a with
      | none => exact ⟨0, hs⟩
      | some v =>
        obtain ⟨m, a'⟩ := v
        rcases hstep a b m a' hR hs with ⟨b', hb, hR'⟩ | ⟨_, hR', hlt⟩
        · obtain ⟨f, hf⟩ := ihg (μ a') a' b' (le_refl _) hR' (halts_step_inv stepB g b b' m hb hh)
          exact ⟨f + 1, halts_step stepA f a a' m hs hf⟩
        · obtain ⟨f, hf⟩ := ihn a' b (by omega) hR' hh
          exact ⟨f + 1, halts_step stepA f a a' m hs hf⟩
end reverse

theorem halts_transfer {g : Geom K} {L : Layout} {field : Int × Int × Int → Cell K} {pk : Photon K}
    (hok : Ok g L field pk) (a : AState K) (b : CState K) (hR : R g (envOf g L field pk) L a b) (f : Nat)
    (hh : Halts (cstep (envOf g L field pk)) f b) : ∃ f', Halts (aStep g field L) f' a := by
  refine sim_reverse (aStep g field L) (cstep (envOf g L field pk)) (R g (envOf g L field pk) L) (rank g)
    ?_ ?_ f (rank g a) a b (le_refl _) hR hh
  · intro a b hR hb
    cases a with
    | inGrid s x =>
      cases b with
      | run c => simp [cstep] at hb; split_ifs at hb
      | absorbed c => exact absurd hR (by simp [R])
      | escaped c => exact absurd hR (by simp [R])
    | absorbedIn s x => rfl
    | escaped s d x => rfl
  · intro a b m a' hR ha
    cases a with
    | inGrid s x =>
      cases b with
      | run c =>
        obtain ⟨ph, st⟩ := x
        obtain ⟨sh, hRW⟩ : Rel g (envOf g L field pk) L s ph st c := hR
        by_cases hall : ∀ a, c.G.get a = st.idx.get a + sh.get a
        · obtain ⟨m0, a0, b0, h1, h2, h3⟩ := step_real hok hRW hall
          rw [h1] at ha
          injection ha with ha
          injection ha with hm ha'
          subst hm; subst ha'
          exact Or.inl ⟨b0, h2, h3⟩
        · simp only [not_forall] at hall
          obtain ⟨a0, ha0⟩ := hall
          obtain ⟨a1, h1, h2, h3⟩ := step_stutter hok hRW a0 ha0
          rw [h1] at ha
          injection ha with ha
          injection ha with hm ha'
          subst hm; subst ha'
          exact Or.inr ⟨rfl, h2, h3⟩
      | absorbed c => exact absurd hR (by simp [R])
      | escaped c => exact absurd hR (by simp [R])
    | absorbedIn s x => rw [aStep_absorbed] at ha; cases ha
    | escaped s d x => rw [aStep_escaped] at ha; cases ha

/-- **split invariance, with termination transfer.**  If the chained run through the subgrids of `L` is over
within `f` steps, the run through the same grid as one block is over as well (after some number `f'` of steps,
in general not the same), with the same per-cell totals and the same end. -/
theorem split_invariance_halts {g : Geom K} {L : Layout} {field : Int × Int × Int → Cell K} {pk : Photon K}
    (hok : Ok g L field pk) (hn : ∀ a, 0 < (nV L).get a) (hs : StartInside g L pk) (f : Nat)
    (hA : Halts (aStep g field L) f (startOf g L pk)) :
    ∃ f', Halts (aStep g field (whole L)) f' (startOf g (whole L) pk)
      ∧ (runSum (aStep g field L) f (startOf g L pk)).1
          = (runSum (aStep g field (whole L)) f' (startOf g (whole L) pk)).1
      ∧ FinalAgree (envOf g L field pk) (runSum (aStep g field L) f (startOf g L pk)).2
          (runSum (aStep g field (whole L)) f' (startOf g (whole L) pk)).2 := by
  have hokW := ok_whole hok hn
  have hnW : ∀ a, 0 < (nV (whole L)).get a := fun a => by cases a <;> simp [nV, whole, V3.get]
  obtain ⟨_, _, a3⟩ := sim_totals _ _ _ (step_commutes hok) f _ _ (start_rel hok hn hs) hA
  have hRW := start_rel hokW hnW (startInside_whole hs)
  rw [envOf_whole] at hRW
  have a3' : Halts (cstep (envOf g (whole L) field pk)) f (cstart g (envOf g (whole L) field pk)) := by
    rw [envOf_whole]; exact a3
  obtain ⟨f', hB⟩ := halts_transfer hokW _ _ (start_rel hokW hnW (startInside_whole hs)) f a3'
  exact ⟨f', hB, split_invariance hok hn hs f f' hA hB⟩

end CMacVerif.Split
