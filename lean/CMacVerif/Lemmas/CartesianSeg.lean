import CMacVerif.Lemmas.CartesianWall
/-! Every path segment of the Cartesian `interact` loop lies in the cell it is credited to (C16):
position-in-cell invariant through wall crossings and periodic wraps. -/
namespace CMacVerif.Cartesian
open CMacVerif.GridNum

/-- one axis of the periodic wrap: a position in the closed interval of index `i ∈ [-1, n]`
ends, after the wrap (or the range test), in the closed interval of an index in range -/
theorem wrap_axis (per : Bool) (n : Int) (hn : 0 < n) (a S p : ℝ) (i : Int)
    (hi : -1 ≤ i ∧ i ≤ n) (hflag : axisFlag per n i = true)
    (h1 : a + S / (n : ℝ) * (i : ℝ) ≤ p) (h2 : p ≤ a + S / (n : ℝ) * (i : ℝ) + S / (n : ℝ)) :
    0 ≤ (insideAxis per n S i p).2.1 ∧ (insideAxis per n S i p).2.1 < n ∧
    a + S / (n : ℝ) * (((insideAxis per n S i p).2.1 : Int) : ℝ) ≤ (insideAxis per n S i p).2.2 ∧
    (insideAxis per n S i p).2.2 ≤ a + S / (n : ℝ) * (((insideAxis per n S i p).2.1 : Int) : ℝ) + S / (n : ℝ) := by
  have hn' : (n : ℝ) ≠ 0 := by exact_mod_cast hn.ne'
  have hcn : S / (n : ℝ) * (n : ℝ) = S := by field_simp
  unfold insideAxis
  cases per
  · simp only [axisFlag, Bool.not_false, if_true, decide_eq_true_eq] at hflag
    simp only [Bool.not_false, if_true]
    exact ⟨hflag.1, hflag.2, h1, h2⟩
  · simp only [Bool.not_true, Bool.false_eq_true, if_false]
    by_cases c1 : i < 0
    · have e : i = -1 := by omega
      subst e
      have c2 : ¬ (n - 1 ≥ n) := by omega
      simp only [c1, if_true, c2, if_false]
      refine ⟨by omega, by omega, ?_, ?_⟩
      · push_cast at h1 ⊢; nlinarith
      · push_cast at h2 ⊢; nlinarith
    · by_cases c2 : i ≥ n
      · have e : i = n := by omega
        subst e
        simp only [c1, if_false, c2, if_true]
        refine ⟨le_refl _, hn, ?_, ?_⟩
        · push_cast; nlinarith
        · push_cast; nlinarith
      · simp only [c1, if_false, c2]
        exact ⟨by omega, by omega, h1, h2⟩
end CMacVerif.Cartesian

namespace CMacVerif.Cartesian
open CMacVerif.GridNum

def Near (n i : I3) : Prop := -1 ≤ i.x ∧ i.x ≤ n.x ∧ -1 ≤ i.y ∧ i.y ≤ n.y ∧ -1 ≤ i.z ∧ i.z ≤ n.z
def InRange' (n i : I3) : Prop := 0 ≤ i.x ∧ i.x < n.x ∧ 0 ≤ i.y ∧ i.y < n.y ∧ 0 ≤ i.z ∧ i.z < n.z

/-- the grid was built by the constructor: `_cellside = side / ncell`, at least one cell per axis -/
structure GridOK (g : Grid ℝ) : Prop where
  nx : 0 < g.n.x
  ny : 0 < g.n.y
  nz : 0 < g.n.z
  sx : 0 < g.box.sx
  sy : 0 < g.box.sy
  sz : 0 < g.box.sz
  csx : g.cs.x = g.box.sx / (g.n.x : ℝ)
  csy : g.cs.y = g.box.sy / (g.n.y : ℝ)
  csz : g.cs.z = g.box.sz / (g.n.z : ℝ)

structure SegInv (g : Grid ℝ) (st : St ℝ) : Prop where
  inCell : ClosedIn (cellBox g st.idx) st.pos
  near : Near g.n st.idx
  pathNonneg : ∀ e ∈ st.path, 0 ≤ e.2 ∧ 0 ≤ e.1 ∧ e.1 < g.n.x * g.n.y * g.n.z

theorem wrap_seg (g : Grid ℝ) (hg : GridOK g) (st : St ℝ) (h : SegInv g st) (hf : gridFlag g st.idx = true) :
    SegInv g (wrapSt g st) ∧ InRange' g.n (wrapSt g st).idx := by
  obtain ⟨⟨c1, c2, c3, c4, c5, c6⟩, ⟨n1, n2, n3, n4, n5, n6⟩, hp⟩ := h
  simp only [gridFlag, Bool.and_eq_true] at hf
  obtain ⟨⟨fx, fy⟩, fz⟩ := hf
  simp only [cellBox, ofInt_real, hg.csx, hg.csy, hg.csz] at c1 c2 c3 c4 c5 c6
  obtain ⟨a1, a2, a3, a4⟩ := wrap_axis g.px g.n.x hg.nx g.box.ax g.box.sx st.pos.x st.idx.x ⟨n1, n2⟩ fx c1 c2
  obtain ⟨b1, b2, b3, b4⟩ := wrap_axis g.py g.n.y hg.ny g.box.ay g.box.sy st.pos.y st.idx.y ⟨n3, n4⟩ fy c3 c4
  obtain ⟨d1, d2, d3, d4⟩ := wrap_axis g.pz g.n.z hg.nz g.box.az g.box.sz st.pos.z st.idx.z ⟨n5, n6⟩ fz c5 c6
  refine ⟨⟨?_, ?_, hp⟩, ?_⟩
  · show ClosedIn (cellBox g (isInside g st.idx st.pos).2.1) (isInside g st.idx st.pos).2.2
    simp only [ClosedIn, cellBox, ofInt_real, hg.csx, hg.csy, hg.csz, isInside]
    exact ⟨a3, a4, b3, b4, d3, d4⟩
  · show Near g.n (isInside g st.idx st.pos).2.1
    simp only [Near, isInside]; omega
  · show InRange' g.n (isInside g st.idx st.pos).2.1
    simp only [InRange', isInside]; exact ⟨a1, a2, b1, b2, d1, d2⟩

theorem nextIdx_range (a b c : ℝ) : nextIdx a b c = 0 ∨ nextIdx a b c = 1 ∨ nextIdx a b c = -1 := by
  unfold nextIdx; split_ifs <;> simp

/-- the hypotheses about the ray under which the wall intersection is the geometric one -/
structure RayOK (big : ℝ) (g : Grid ℝ) (d inv : V3 ℝ) : Prop where
  ix : d.x ≠ 0 → inv.x = 1 / d.x
  iy : d.y ≠ 0 → inv.y = 1 / d.y
  iz : d.z ≠ 0 → inv.z = 1 / d.z
  nonzero : d.x ≠ 0 ∨ d.y ≠ 0 ∨ d.z ≠ 0
  /-- `DBL_MAX` exceeds every wall distance that can occur -/
  big : ∀ (i : I3) (o : V3 ℝ), ClosedIn (cellBox g i) o →
    (d.x ≠ 0 → wallDist big o.x d.x inv.x (cellBox g i).ax ((cellBox g i).ax + (cellBox g i).sx) < big) ∧
    (d.y ≠ 0 → wallDist big o.y d.y inv.y (cellBox g i).ay ((cellBox g i).ay + (cellBox g i).sy) < big) ∧
    (d.z ≠ 0 → wallDist big o.z d.z inv.z (cellBox g i).az ((cellBox g i).az + (cellBox g i).sz) < big)

theorem body_seg (big : ℝ) (g : Grid ℝ) (hg : GridOK g) (m : Medium ℝ) (d inv : V3 ℝ) (hr : RayOK big g d inv)
    (st : St ℝ) (h : SegInv g st) (hin : InRange' g.n st.idx) (hod : 0 < st.od) :
    SegInv g (body big g m d inv st) := by
  obtain ⟨hc, _, hp⟩ := h
  obtain ⟨bx, by', bz⟩ := hr.big st.idx st.pos hc
  have spec := wallIntersection_spec big st.pos d inv (cellBox g st.idx) hc hr.ix hr.iy hr.iz hr.nonzero bx by' bz
  simp only at spec
  set w := wallIntersection big st.pos d inv (cellBox g st.idx) with hw
  obtain ⟨ds0, ⟨w1, w2, w3, w4, w5, w6⟩, x1, x2, y1, y2, z1, z2, _⟩ := spec
  have csx0 : 0 < g.cs.x := by rw [hg.csx]; exact div_pos hg.sx (by exact_mod_cast hg.nx)
  have csy0 : 0 < g.cs.y := by rw [hg.csy]; exact div_pos hg.sy (by exact_mod_cast hg.ny)
  have csz0 : 0 < g.cs.z := by rw [hg.csz]; exact div_pos hg.sz (by exact_mod_cast hg.nz)
  obtain ⟨r1, r2, r3, r4, r5, r6⟩ := hin
  have hcell := longIndex_range g.n st.idx ⟨r1, r2⟩ ⟨r3, r4⟩ ⟨r5, r6⟩
  unfold body
  simp only [zero_lit]
  rw [← hw]
  by_cases hcor : st.od - opticalDepth m (longIndex g.n st.idx) w.2.2 < 0
  · rw [if_pos hcor]
    obtain ⟨htau, hds⟩ := corr_ds_ne m _ _ _ hod hcor
    -- fraction of the step that is travelled: t = od / tau ∈ (0, 1)
    set tau := opticalDepth m (longIndex g.n st.idx) w.2.2 with htaudef
    have htau_pos : 0 < tau := by linarith
    have hfrac : (w.2.2 + w.2.2 * (st.od - tau) / tau) / w.2.2 = st.od / tau := by field_simp; ring
    have ht0 : 0 ≤ st.od / tau := (div_pos hod htau_pos).le
    have ht1 : st.od / tau ≤ 1 := by rw [div_le_one htau_pos]; linarith
    have hds' : w.2.2 + w.2.2 * (st.od - tau) / tau = w.2.2 * (st.od / tau) := by field_simp; ring
    have conv : ∀ (p q lo hi : ℝ), lo ≤ p → p ≤ hi → lo ≤ q → q ≤ hi →
        lo ≤ p + (q - p) * (w.2.2 + w.2.2 * (st.od - tau) / tau) / w.2.2 ∧
        p + (q - p) * (w.2.2 + w.2.2 * (st.od - tau) / tau) / w.2.2 ≤ hi := by
      intro p q lo hi a1 a2 a3 a4
      have e : p + (q - p) * (w.2.2 + w.2.2 * (st.od - tau) / tau) / w.2.2 = p + (q - p) * (st.od / tau) := by
        rw [mul_div_assoc, hfrac]
      rw [e]
      constructor <;> nlinarith
    obtain ⟨c1, c2, c3, c4, c5, c6⟩ := hc
    refine ⟨?_, ?_, ?_⟩
    · exact ⟨(conv _ _ _ _ c1 c2 w1 w2).1, (conv _ _ _ _ c1 c2 w1 w2).2, (conv _ _ _ _ c3 c4 w3 w4).1,
        (conv _ _ _ _ c3 c4 w3 w4).2, (conv _ _ _ _ c5 c6 w5 w6).1, (conv _ _ _ _ c5 c6 w5 w6).2⟩
    · simp only [Near]; omega
    · intro e he
      simp only [List.mem_cons] at he
      rcases he with rfl | he
      · simp only; rw [hds']; exact ⟨mul_nonneg ds0 ht0, hcell⟩
      · exact hp e he
  · rw [if_neg hcor]
    have nxr := nextIdx_range (wallDist big st.pos.x d.x inv.x (cellBox g st.idx).ax ((cellBox g st.idx).ax + (cellBox g st.idx).sx)) w.2.2 d.x
    have nyr := nextIdx_range (wallDist big st.pos.y d.y inv.y (cellBox g st.idx).ay ((cellBox g st.idx).ay + (cellBox g st.idx).sy)) w.2.2 d.y
    have nzr := nextIdx_range (wallDist big st.pos.z d.z inv.z (cellBox g st.idx).az ((cellBox g st.idx).az + (cellBox g st.idx).sz)) w.2.2 d.z
    have enx : w.2.1.x = nextIdx (wallDist big st.pos.x d.x inv.x (cellBox g st.idx).ax ((cellBox g st.idx).ax + (cellBox g st.idx).sx)) w.2.2 d.x := rfl
    have eny : w.2.1.y = nextIdx (wallDist big st.pos.y d.y inv.y (cellBox g st.idx).ay ((cellBox g st.idx).ay + (cellBox g st.idx).sy)) w.2.2 d.y := rfl
    have enz : w.2.1.z = nextIdx (wallDist big st.pos.z d.z inv.z (cellBox g st.idx).az ((cellBox g st.idx).az + (cellBox g st.idx).sz)) w.2.2 d.z := rfl
    rw [← enx] at nxr; rw [← eny] at nyr; rw [← enz] at nzr
    -- one axis: the wall point lies in the closed interval of the neighbouring index
    have axis : ∀ (a cs v : ℝ) (i k : Int), 0 < cs → a + cs * (i : ℝ) ≤ v → v ≤ a + cs * (i : ℝ) + cs →
        (k = 1 → v = a + cs * (i : ℝ) + cs) → (k = -1 → v = a + cs * (i : ℝ)) → (k = 0 ∨ k = 1 ∨ k = -1) →
        a + cs * ((i + k : Int) : ℝ) ≤ v ∧ v ≤ a + cs * ((i + k : Int) : ℝ) + cs := by
      intro a cs v i k hcs l1 l2 k1 k2 kr
      rcases kr with rfl | rfl | rfl
      · simpa using ⟨l1, l2⟩
      · have := k1 rfl; push_cast; constructor <;> nlinarith
      · have := k2 rfl; push_cast; constructor <;> nlinarith
    simp only [cellBox, ofInt_real] at w1 w2 w3 w4 w5 w6 x1 x2 y1 y2 z1 z2
    obtain ⟨ex1, ex2⟩ := axis g.box.ax g.cs.x w.1.x st.idx.x w.2.1.x csx0 w1 w2 (fun h => (x1 h).2) (fun h => (x2 h).2) nxr
    obtain ⟨ey1, ey2⟩ := axis g.box.ay g.cs.y w.1.y st.idx.y w.2.1.y csy0 w3 w4 (fun h => (y1 h).2) (fun h => (y2 h).2) nyr
    obtain ⟨ez1, ez2⟩ := axis g.box.az g.cs.z w.1.z st.idx.z w.2.1.z csz0 w5 w6 (fun h => (z1 h).2) (fun h => (z2 h).2) nzr
    refine ⟨?_, ?_, ?_⟩
    · simp only [ClosedIn, cellBox, ofInt_real]
      exact ⟨ex1, ex2, ey1, ey2, ez1, ez2⟩
    · simp only [Near]; omega
    · intro e he
      simp only [List.mem_cons] at he
      rcases he with rfl | he
      · exact ⟨ds0, hcell⟩
      · exact hp e he

theorem loop_seg (big : ℝ) (g : Grid ℝ) (hg : GridOK g) (m : Medium ℝ) (d inv : V3 ℝ) (hr : RayOK big g d inv)
    (fuel : Nat) : ∀ st : St ℝ, SegInv g st →
      (∀ e ∈ (loop big g m d inv fuel st).1.path, 0 ≤ e.2 ∧ 0 ≤ e.1 ∧ e.1 < g.n.x * g.n.y * g.n.z) ∧
      ((loop big g m d inv fuel st).2 = true →
        ∃ se : St ℝ, (loop big g m d inv fuel st).1 = wrapSt g se ∧ SegInv g se) := by
  induction fuel with
  | zero => intro st h; exact ⟨h.pathNonneg, fun hf => by simp [loop] at hf⟩
  | succ fuel ih =>
    intro st h
    simp only [loop]
    by_cases hc : ((isInside g st.idx st.pos).1 && decide (st.od > 0.0)) = true
    · rw [if_pos hc]
      simp only [Bool.and_eq_true, decide_eq_true_eq, zero_lit] at hc
      have hfl : gridFlag g st.idx = true := by rw [← (isInside_flag g st.idx st.pos).1]; exact hc.1
      obtain ⟨hs, hin⟩ := wrap_seg g hg st h hfl
      exact ih _ (body_seg big g hg m d inv hr _ hs hin hc.2)
    · rw [if_neg hc]; exact ⟨h.pathNonneg, fun _ => ⟨st, rfl, h⟩⟩
end CMacVerif.Cartesian
