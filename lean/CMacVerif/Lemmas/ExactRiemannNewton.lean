import CMacVerif.Lemmas.ExactRiemann
import Mathlib.Analysis.Convex.SpecificFunctions.Basic
/-!
Lemmas for C11, extension round: Newton's method on an increasing concave function.

Part 1 is abstract: for `(F, F')` with `F' > 0`, the tangent inequality
`F q ≤ F p + F' p (q - p)` (concavity, with `F'` the slope of a supporting line) and
`p ↦ p F' p` non-decreasing, one Newton step from `x` with `F x < 0` lands left of every root,
and when the step is small relative to `x` the distance to the root is of second order.
Part 2 is the Newton loop of the model; part 3 proves the three hypotheses for the pressure
function `f` and the derivative `fprime` as coded.
-/
namespace CMacVerif.ExactRiemann
open CMacVerif Set

/-! ### 1. one Newton step on an increasing concave function -/

/-- what the Newton analysis needs of `(F, F')` on `p > 0` -/
structure NewtonHyp (F F' : ℝ → ℝ) : Prop where
  pos : ∀ p, 0 < p → 0 < F' p
  tangent : ∀ p q, 0 < p → 0 ≤ q → F q ≤ F p + F' p * (q - p)
  pmono : ∀ p q, 0 < p → p ≤ q → p * F' p ≤ q * F' q

section step
variable {F F' : ℝ → ℝ}

/-- the Newton iterate from a point with `F x < 0` moves right and stays on the side `F ≤ 0` -/
theorem newton_step_left (h : NewtonHyp F F') {x : ℝ} (hx : 0 < x) (hF : F x < 0) :
    x < x - F x / F' x ∧ F (x - F x / F' x) ≤ 0 := by
  have hp := h.pos x hx
  have hs : 0 < -(F x / F' x) := by
    rw [neg_pos]; exact div_neg_of_neg_of_pos hF hp
  refine ⟨by linarith, ?_⟩
  have ht := h.tangent x (x - F x / F' x) hx (by linarith)
  have : F' x * (x - F x / F' x - x) = -F x := by field_simp; ring
  linarith

/-- every root lies at or beyond the Newton iterate, and `(r - x)(x - s) ≤ s x` for the step `s` -/
theorem newton_root_bound (h : NewtonHyp F F') {x r : ℝ} (hx : 0 < x) (hF : F x < 0)
    (hr : 0 < r) (hr0 : F r = 0) :
    x - F x / F' x ≤ r ∧ (r - x) * (x - (-(F x / F' x))) ≤ -(F x / F' x) * x := by
  have hp := h.pos x hx
  have hpr := h.pos r hr
  -- tangent at x evaluated at the root: the root is beyond the iterate
  have t1 := h.tangent x r hx hr.le
  rw [hr0] at t1
  have hxr : x < r := by
    by_contra hn
    have : F' x * (r - x) ≤ 0 := mul_nonpos_of_nonneg_of_nonpos hp.le (by linarith)
    linarith
  have e1 : F x / F' x * F' x = F x := by field_simp
  have hstep : -(F x / F' x) ≤ r - x := by
    have : -(F x / F' x) * F' x ≤ (r - x) * F' x := by rw [neg_mul, e1]; linarith
    exact le_of_mul_le_mul_right this hp
  refine ⟨by linarith, ?_⟩
  -- tangent at the root evaluated at x: -F x ≥ F' r (r - x)
  have t2 := h.tangent r x hr hx.le
  rw [hr0] at t2
  have hm := h.pmono x r hx hxr.le
  -- s F'(x) = -F x ≥ F'(r) (r-x);  x F'(x) ≤ r F'(r)
  set s := -(F x / F' x) with hs
  have hsF : s * F' x = -F x := by rw [hs, neg_mul, e1]
  have hs0 : 0 ≤ s := by rw [hs, neg_nonneg]; exact (div_neg_of_neg_of_pos hF hp).le
  -- multiply: F'(r) (r-x) x ≤ s F'(x) x ≤ s r F'(r)
  have a1 : F' r * ((r - x) * x) ≤ F' r * (s * r) := by
    have b1 : F' r * (r - x) ≤ s * F' x := by rw [hsF]; linarith
    have b2 : F' r * (r - x) * x ≤ s * F' x * x := mul_le_mul_of_nonneg_right b1 hx.le
    have b3 : s * (x * F' x) ≤ s * (r * F' r) := mul_le_mul_of_nonneg_left hm hs0
    nlinarith
  have a2 : (r - x) * x ≤ s * r := le_of_mul_le_mul_left a1 hpr
  -- (r-x)(x-s) ≤ s x  ⇔  (r-x) x ≤ s x + s (r-x) = s r
  nlinarith

/-- a Newton step that passes the exit test of `solve` (`|x - x'| ≤ 5e-9 (x + x')`) ends within
`1.00000002e-8` of its own length — `1.1e-16` relative — below the root -/
theorem newton_exit_accuracy (h : NewtonHyp F F') {x r : ℝ} (hx : 0 < x) (hF : F x < 0)
    (hr : 0 < r) (hr0 : F r = 0)
    (hexit : |x - (x - F x / F' x)| ≤ 5e-9 * (x + (x - F x / F' x))) :
    0 ≤ r - (x - F x / F' x) ∧
    r - (x - F x / F' x) ≤ 1.00000002e-8 * ((x - F x / F' x) - x) ∧
    r - (x - F x / F' x) ≤ 1.1e-16 * r := by
  obtain ⟨h1, h2⟩ := newton_root_bound h hx hF hr hr0
  obtain ⟨h3, _⟩ := newton_step_left h hx hF
  set s := -(F x / F' x) with hs
  have hxs : x - F x / F' x = x + s := by rw [hs]; ring
  rw [hxs] at h1 h3 hexit ⊢
  have hs0 : 0 < s := by linarith
  have habs : |x - (x + s)| = s := by
    rw [show x - (x + s) = -s by ring, abs_neg, abs_of_pos hs0]
  rw [habs] at hexit
  -- s ≤ 2ε/(1-ε) x
  have hsx : s ≤ 1.00000001e-8 * x := by norm_num at hexit ⊢; linarith
  have hpos : 0 < x - s := by norm_num at hsx; linarith
  -- (d - s)(x - s) ≤ s², and s ≤ κ (x - s)
  have hk : s ≤ 1.00000002e-8 * (x - s) := by norm_num at hsx ⊢; linarith
  have hd : (r - (x + s)) * (x - s) ≤ s * s := by nlinarith
  have hd2 : (r - (x + s)) * (x - s) ≤ (1.00000002e-8 * s) * (x - s) := by
    have : s * s ≤ s * (1.00000002e-8 * (x - s)) := mul_le_mul_of_nonneg_left hk hs0.le
    nlinarith
  have hfin : r - (x + s) ≤ 1.00000002e-8 * s := le_of_mul_le_mul_right hd2 hpos
  refine ⟨by linarith, by rw [show x + s - x = s by ring]; exact hfin, ?_⟩
  -- s ≤ 1.00000001e-8 x ≤ 1.00000001e-8 r
  have : x ≤ r := by linarith
  norm_num at hfin hsx ⊢
  nlinarith

end step
/-! ### 2. the Newton loop of `solve` -/
section loop
variable (F F' : ℝ → ℝ)

/-- after at least one pass `(Pstar, Pguess)` is `(x, Newton iterate of x)` -/
def NRel (s : NState ℝ) : Prop :=
  s.Pstar = 0 ∨ (0 < s.Pstar ∧ s.Pguess = s.Pstar - s.fPstar / F' s.Pstar)

theorem newtonLoop_rel (hF' : ∀ p, 0 < p → 0 < F' p) (n : ℕ) {s : NState ℝ} (hi : NInv F s)
    (h0 : 0 ≤ s.Pstar) (h1 : s.Pstar < s.Pguess) (hr : NRel F' s) :
    NRel F' (newtonLoop F F' n s).1 := by
  induction n generalizing s with
  | zero => exact hr
  | succ n ih =>
    unfold newtonLoop
    split_ifs with hc
    · have hneg : s.fPguess < 0 := by have := hc.2; norm_num at this; exact this
      have hpos : 0 < s.Pguess := lt_of_le_of_lt h0 h1
      have hq : s.fPguess / F' s.Pguess < 0 := div_neg_of_neg_of_pos hneg (hF' _ hpos)
      exact ih ⟨hi.fPguess_eq, rfl, hneg⟩ hpos.le (by simp only; linarith) (Or.inr ⟨hpos, rfl⟩)
    · exact hr

/-- leaving the loop with fuel to spare = its condition is false -/
theorem newtonLoop_exit (n : ℕ) (s : NState ℝ) (hleft : (newtonLoop F F' n s).2 ≠ 0) :
    ¬ (notConverged (newtonLoop F F' n s).1 ∧ (newtonLoop F F' n s).1.fPguess < 0.0) := by
  induction n generalizing s with
  | zero => exact absurd rfl hleft
  | succ n ih =>
    unfold newtonLoop at hleft ⊢
    split_ifs at hleft ⊢ with hc
    · exact ih _ hleft
    · exact hc

/-- everything the Newton phase establishes about the state it hands over -/
theorem newtonPhase_facts (hF' : ∀ p, 0 < p → 0 < F' p) (n : ℕ) {Pguess : ℝ} (hg : 0 < Pguess)
    (hF0 : F 0 < 0) (hleft : (newtonPhase F F' n Pguess).2 ≠ 0) :
    NRel F' (newtonPhase F F' n Pguess).1 ∧
    ¬ (notConverged (newtonPhase F F' n Pguess).1 ∧ (newtonPhase F F' n Pguess).1.fPguess < 0.0) := by
  have e0 : (0.0:ℝ) = 0 := by norm_num
  have hi : NInv F (⟨0.0, F 0.0, Pguess, F Pguess⟩ : NState ℝ) := ⟨rfl, rfl, by rw [e0]; exact hF0⟩
  unfold newtonPhase at hleft ⊢
  simp only at hleft ⊢
  split_ifs at hleft ⊢ with hsgn
  · exact ⟨newtonLoop_rel F F' hF' n hi (by simp [e0]) (by simpa [e0] using hg) (Or.inl e0),
      newtonLoop_exit F F' n _ hleft⟩
  · refine ⟨Or.inl e0, fun hc => ?_⟩
    -- no Newton pass: `F 0 · F guess < 0` with `F 0 < 0`, so `F guess > 0`
    have h1 : F 0.0 * F Pguess < 0 := by
      have := not_le.mp hsgn; rw [e0] at this ⊢; simpa [e0] using this
    have h2 : F Pguess < 0 := by have := hc.2; rw [e0] at this; exact this
    rw [e0] at h1
    nlinarith

/-- a root of `F` is unique among `p > 0` (from the tangent inequality alone) -/
theorem root_unique_of_tangent {F F' : ℝ → ℝ} (h : NewtonHyp F F') {p r : ℝ} (hp : 0 < p)
    (hr : 0 < r) (hp0 : F p = 0) (hr0 : F r = 0) : p = r := by
  have t1 := h.tangent r p hr hp.le
  have t2 := h.tangent p r hp hr.le
  rw [hp0, hr0] at t1 t2
  have a1 : 0 ≤ p - r := by
    by_contra hn
    have := mul_neg_of_pos_of_neg (h.pos r hr) (not_le.mp hn); linarith
  have a2 : 0 ≤ r - p := by
    by_contra hn
    have := mul_neg_of_pos_of_neg (h.pos p hp) (not_le.mp hn); linarith
  linarith

/-- the Newton exit of `solve` (path 1: the last Newton iterate is returned): the returned pressure
is at most `1.1e-16` (relative) below the root, never above it -/
theorem handOver_newton (h : NewtonHyp F F') (bf : ℕ) (r : NState ℝ × ℕ) (hi : NInv F r.1)
    (h0 : 0 ≤ r.1.Pstar) (h1 : r.1.Pstar < r.1.Pguess) (hrel : NRel F' r.1)
    (hexit : ¬ (notConverged r.1 ∧ r.1.fPguess < 0.0))
    {root : ℝ} (hroot : 0 < root) (hroot0 : F root = 0)
    (hpath : (handOver F bf r).path = 1) :
    0 ≤ root - (handOver F bf r).pstar ∧ root - (handOver F bf r).pstar ≤ 1.1e-16 * root := by
  have e0 : (0.0:ℝ) = 0 := by norm_num
  have hg : 0 < r.1.Pguess := lt_of_le_of_lt h0 h1
  unfold handOver at hpath ⊢
  by_cases hc : notConverged r.1 ∧ (0.0:ℝ) < r.1.fPguess
  · -- Brent path: path = 2
    exfalso
    simp only [if_pos hc] at hpath
    split at hpath <;> simp at hpath
  · simp only [if_neg hc]
    by_cases hnc : notConverged r.1
    · -- not converged, so neither `f < 0` nor `f > 0`: an exact root
      have hz : F r.1.Pguess = 0 := by
        rw [← hi.fPguess_eq]
        have a : ¬ r.1.fPguess < 0 := fun hh => hexit ⟨hnc, by rw [e0]; exact hh⟩
        have b : ¬ 0 < r.1.fPguess := fun hh => hc ⟨hnc, by rw [e0]; exact hh⟩
        linarith [not_lt.mp a, not_lt.mp b]
      have := root_unique_of_tangent h hg hroot hz hroot0
      rw [this]; constructor <;> norm_num; exact hroot.le
    · -- converged: the last step was a Newton step of relative length ≤ 5e-9 (sum)
      have hconv : |r.1.Pstar - r.1.Pguess| ≤ 5e-9 * (r.1.Pstar + r.1.Pguess) := by
        unfold notConverged at hnc; simp only [abs_real] at hnc
        norm_num at hnc ⊢; exact hnc
      rcases hrel with hz | ⟨hx, hN⟩
      · exfalso
        rw [hz, zero_sub, abs_neg, abs_of_pos hg, zero_add] at hconv
        norm_num at hconv; linarith
      · have hFx : F r.1.Pstar < 0 := by rw [← hi.fPstar_eq]; exact hi.neg
        rw [hi.fPstar_eq] at hN
        rw [hN] at hconv ⊢
        obtain ⟨a, _, c⟩ := newton_exit_accuracy h hx hFx hroot hroot0 hconv
        exact ⟨a, c⟩

end loop
/-! ### 3. the pressure function satisfies the hypotheses of the Newton analysis -/
section side

/-- the quantities `solve` derives for one state (lines 883–929) -/
structure SideOK (c : Consts ℝ) (ρ P Pinv a A B afac rhoainv : ℝ) : Prop where
  st : StateOK c ρ P Pinv a
  hA : A = c.tdgp1 * (1 / ρ)
  hB : B = c.gm1dgp1 * P
  hafac : afac = c.tdgm1 * a
  hr : rhoainv = 1 / (ρ * a)

variable {c : Consts ℝ} {ρ P Pinv a A B afac rhoainv : ℝ}

theorem SideOK.k_add_beta (hc : CRel c) : c.gm1d2g - 1 = -c.gp1d2g := by
  rw [hc.gm1d2g, hc.gp1d2g]; have := hc.g0.ne'; field_simp; ring

theorem SideOK.k_le_one (hc : CRel c) : c.gm1d2g ≤ 1 := by
  have := SideOK.k_add_beta hc; have := hc.gp1d2g_pos; linarith

/-- `afac · (γ-1)/(2γ) = P/(ρa)`: the coded derivative of the rarefaction branch is the derivative -/
theorem SideOK.afac_k (hc : CRel c) (h : SideOK c ρ P Pinv a A B afac rhoainv) :
    afac * c.gm1d2g = rhoainv * P := by
  have ha := h.st.a_pos.ne'; have hρ := h.st.rho_pos.ne'; have hP := h.st.P_pos.ne'
  have hg := hc.g0.ne'; have hg1 := hc.gm1.ne'
  have ha2 := h.st.a_sq
  rw [h.hafac, h.hr, hc.tdgm1, hc.gm1d2g]
  field_simp
  rw [ha2]; field_simp

/-- tangent inequality of the rarefaction branch (Bernoulli's inequality for the exponent
`(γ-1)/(2γ) ∈ (0,1)`) -/
theorem raref_tangent (hc : CRel c) (h : SideOK c ρ P Pinv a A B afac rhoainv) {p q : ℝ}
    (hp : 0 < p) (hq : 0 ≤ q) :
    afac * ((q * Pinv) ^ c.gm1d2g - 1) ≤ afac * ((p * Pinv) ^ c.gm1d2g - 1)
      + (p * Pinv) ^ (-c.gp1d2g) * rhoainv * (q - p) := by
  have hPi := h.st.Pinv_pos
  have hx : 0 < p * Pinv := mul_pos hp hPi
  have hy : 0 ≤ q * Pinv := mul_nonneg hq hPi.le
  have haf : 0 < afac := by rw [h.hafac]; exact mul_pos hc.tdgm1_pos h.st.a_pos
  set x := p * Pinv with hxdef
  set y := q * Pinv with hydef
  have hb := rpow_one_add_le_one_add_mul_self (s := y / x - 1)
    (by have : 0 ≤ y / x := div_nonneg hy hx.le
        linarith) hc.gm1d2g_pos.le (SideOK.k_le_one hc)
  rw [show 1 + (y / x - 1) = y / x by ring, Real.div_rpow hy hx.le] at hb
  have hxk : 0 < x ^ c.gm1d2g := Real.rpow_pos_of_pos hx _
  have hb2 : y ^ c.gm1d2g ≤ x ^ c.gm1d2g * (1 + c.gm1d2g * (y / x - 1)) := by
    rw [div_le_iff₀ hxk] at hb; linarith
  have hneg : x ^ (-c.gp1d2g) = x ^ c.gm1d2g / x := by
    rw [← SideOK.k_add_beta hc, Real.rpow_sub_one hx.ne']
  have hqp : q - p = (y - x) * P := by
    rw [hydef, hxdef]
    have := h.st.Pinv_eq
    calc q - p = (q - p) * (P * Pinv) := by rw [this]; ring
      _ = (q * Pinv - p * Pinv) * P := by ring
  rw [hneg, hqp]
  have hk := SideOK.afac_k hc h
  have e : x ^ c.gm1d2g / x * rhoainv * ((y - x) * P)
      = afac * (x ^ c.gm1d2g * (c.gm1d2g * (y / x - 1))) := by
    have : rhoainv * P = afac * c.gm1d2g := hk.symm
    calc x ^ c.gm1d2g / x * rhoainv * ((y - x) * P)
        = x ^ c.gm1d2g / x * (y - x) * (rhoainv * P) := by ring
      _ = x ^ c.gm1d2g / x * (y - x) * (afac * c.gm1d2g) := by rw [this]
      _ = afac * (x ^ c.gm1d2g * (c.gm1d2g * (y / x - 1))) := by field_simp
  rw [e]
  have := mul_le_mul_of_nonneg_left hb2 haf.le
  nlinarith

/-- the coded derivative of the rarefaction branch decreases, and `p ·` it increases -/
theorem raref_slope_mono (hc : CRel c) (h : SideOK c ρ P Pinv a A B afac rhoainv) {p q : ℝ}
    (hp : 0 < p) (hpq : p ≤ q) :
    (q * Pinv) ^ (-c.gp1d2g) * rhoainv ≤ (p * Pinv) ^ (-c.gp1d2g) * rhoainv ∧
    p * ((p * Pinv) ^ (-c.gp1d2g) * rhoainv) ≤ q * ((q * Pinv) ^ (-c.gp1d2g) * rhoainv) := by
  have hPi := h.st.Pinv_pos
  have hx : 0 < p * Pinv := mul_pos hp hPi
  have hxy : p * Pinv ≤ q * Pinv := mul_le_mul_of_nonneg_right hpq hPi.le
  have hy : 0 < q * Pinv := lt_of_lt_of_le hx hxy
  have hr : 0 < rhoainv := by
    rw [h.hr]; have := h.st.rho_pos; have := h.st.a_pos; positivity
  constructor
  · exact mul_le_mul_of_nonneg_right
      (Real.rpow_le_rpow_of_nonpos hx hxy (by have := hc.gp1d2g_pos; linarith)) hr.le
  · -- p x^{-β} = P x^{k}
    have e : ∀ z : ℝ, 0 < z → z * ((z * Pinv) ^ (-c.gp1d2g) * rhoainv)
        = P * rhoainv * (z * Pinv) ^ c.gm1d2g := fun z hz => by
      have hzP : 0 < z * Pinv := mul_pos hz hPi
      rw [← SideOK.k_add_beta hc, Real.rpow_sub_one hzP.ne']
      have := h.st.Pinv_eq
      have hPv := h.st.Pinv_val
      have hP := h.st.P_pos.ne'
      rw [hPv]; field_simp
    rw [e p hp, e q (lt_of_lt_of_le hp hpq)]
    exact mul_le_mul_of_nonneg_left (Real.rpow_le_rpow hx.le hxy hc.gm1d2g_pos.le)
      (by have := h.st.P_pos; positivity)

end side

/-! #### the shock branch, in the variable `t = √(p + B)` -/
section shockT

/-- tangent inequality, antitone slope and monotone `p · slope` of
`σ (t² - D)/t` with slope `σ (t² + D)/(2t³)` (w.r.t. `p = t² - B`) -/
theorem shockT_tangent {σ D t r : ℝ} (hσ : 0 ≤ σ) (hD : 0 ≤ D) (ht : 0 < t) (hr : 0 < r) :
    σ * (r ^ 2 - D) / r ≤ σ * (t ^ 2 - D) / t + σ * (t ^ 2 + D) / (2 * t ^ 3) * (r ^ 2 - t ^ 2) := by
  have key : σ * (t ^ 2 - D) / t + σ * (t ^ 2 + D) / (2 * t ^ 3) * (r ^ 2 - t ^ 2)
      - σ * (r ^ 2 - D) / r
      = σ * ((r - t) ^ 2 * (t ^ 2 * r + D * (r + 2 * t))) / (2 * t ^ 3 * r) := by
    field_simp; ring
  have : 0 ≤ σ * ((r - t) ^ 2 * (t ^ 2 * r + D * (r + 2 * t))) / (2 * t ^ 3 * r) := by positivity
  linarith

theorem shockT_antitone {σ D t r : ℝ} (hσ : 0 ≤ σ) (hD : 0 ≤ D) (ht : 0 < t) (htr : t ≤ r) :
    σ * (r ^ 2 + D) / (2 * r ^ 3) ≤ σ * (t ^ 2 + D) / (2 * t ^ 3) := by
  have hr : 0 < r := lt_of_lt_of_le ht htr
  have key : σ * (t ^ 2 + D) / (2 * t ^ 3) - σ * (r ^ 2 + D) / (2 * r ^ 3)
      = σ * ((r - t) * (r ^ 2 * t ^ 2 + D * (r ^ 2 + r * t + t ^ 2))) / (2 * t ^ 3 * r ^ 3) := by
    field_simp; ring
  have h0 : 0 ≤ r - t := by linarith
  have : 0 ≤ σ * ((r - t) * (r ^ 2 * t ^ 2 + D * (r ^ 2 + r * t + t ^ 2))) / (2 * t ^ 3 * r ^ 3) := by
    positivity
  linarith

theorem shockT_pmono {σ B D t r : ℝ} (hσ : 0 ≤ σ) (hB : 0 ≤ B) (hBD : B ≤ D) (ht : 0 < t)
    (hDt : D ≤ t ^ 2) (htr : t ≤ r) :
    (t ^ 2 - B) * (σ * (t ^ 2 + D) / (2 * t ^ 3)) ≤ (r ^ 2 - B) * (σ * (r ^ 2 + D) / (2 * r ^ 3)) := by
  have hr : 0 < r := lt_of_lt_of_le ht htr
  have key : (r ^ 2 - B) * (σ * (r ^ 2 + D) / (2 * r ^ 3)) - (t ^ 2 - B) * (σ * (t ^ 2 + D) / (2 * t ^ 3))
      = σ * ((r - t) * (t ^ 2 * r ^ 2 * (t * r - (D - B)) + B * D * (r ^ 2 + r * t + t ^ 2)))
        / (2 * t ^ 3 * r ^ 3) := by
    field_simp; ring
  have h0 : 0 ≤ r - t := by linarith
  have h1 : 0 ≤ t * r - (D - B) := by nlinarith
  have hD : 0 ≤ D := le_trans hB hBD
  have : 0 ≤ σ * ((r - t) * (t ^ 2 * r ^ 2 * (t * r - (D - B)) + B * D * (r ^ 2 + r * t + t ^ 2)))
      / (2 * t ^ 3 * r ^ 3) := by positivity
  linarith

end shockT

/-- the two branches as named functions of `p` -/
noncomputable def hS (P A B p : ℝ) : ℝ := (p - P) * Real.sqrt (A / (p + B))
noncomputable def hS' (P A B p : ℝ) : ℝ :=
  (1 - 1 / 2 * (p - P) * (1 / (p + B))) * Real.sqrt (A * (1 / (p + B)))

/-- the shock formulas in `t = √(p+B)` -/
theorem shock_forms {P A B p : ℝ} (hA : 0 ≤ A) (hpB : 0 < p + B) :
    0 < Real.sqrt (p + B) ∧ Real.sqrt (p + B) ^ 2 = p + B ∧
    hS P A B p = Real.sqrt A * (Real.sqrt (p + B) ^ 2 - (P + B)) / Real.sqrt (p + B) ∧
    hS' P A B p = Real.sqrt A * (Real.sqrt (p + B) ^ 2 + (P + B)) / (2 * Real.sqrt (p + B) ^ 3) := by
  have ht : 0 < Real.sqrt (p + B) := Real.sqrt_pos.mpr hpB
  have ht2 : Real.sqrt (p + B) ^ 2 = p + B := Real.sq_sqrt hpB.le
  refine ⟨ht, ht2, ?_, ?_⟩
  · unfold hS; rw [Real.sqrt_div hA, ht2]; ring
  · unfold hS'
    have hi : Real.sqrt (1 / (p + B)) = 1 / Real.sqrt (p + B) := by
      rw [one_div, Real.sqrt_inv, one_div]
    rw [Real.sqrt_mul hA, hi]
    have h3 : Real.sqrt (p + B) ^ 3 = (p + B) * Real.sqrt (p + B) := by
      rw [pow_succ, ht2]
    rw [h3]
    have e : p - P = (p + B) - (P + B) := by ring
    rw [ht2, e]; field_simp; ring

section fbNewton
variable {c : Consts ℝ} {ρ P Pinv a A B afac rhoainv : ℝ}

theorem hS_tangent {P A B : ℝ} (hA : 0 ≤ A) (hB : 0 ≤ B) (hP : 0 < P) {p q : ℝ} (hp : P ≤ p)
    (hq : P ≤ q) : hS P A B q ≤ hS P A B p + hS' P A B p * (q - p) := by
  obtain ⟨ht, ht2, f1, f2⟩ := shock_forms (P := P) hA (show 0 < p + B by linarith)
  obtain ⟨hr, hr2, g1, _⟩ := shock_forms (P := P) hA (show 0 < q + B by linarith)
  rw [f1, f2, g1, show q - p = Real.sqrt (q + B) ^ 2 - Real.sqrt (p + B) ^ 2 by rw [ht2, hr2]; ring]
  exact shockT_tangent (Real.sqrt_nonneg A) (by linarith) ht hr

theorem hS'_mono {P A B : ℝ} (hA : 0 ≤ A) (hB : 0 ≤ B) (hP : 0 < P) {p q : ℝ} (hp : P ≤ p)
    (hpq : p ≤ q) :
    hS' P A B q ≤ hS' P A B p ∧ p * hS' P A B p ≤ q * hS' P A B q := by
  obtain ⟨ht, ht2, _, f2⟩ := shock_forms (P := P) hA (show 0 < p + B by linarith)
  obtain ⟨hr, hr2, _, g2⟩ := shock_forms (P := P) hA (show 0 < q + B by linarith)
  have htr : Real.sqrt (p + B) ≤ Real.sqrt (q + B) := Real.sqrt_le_sqrt (by linarith)
  rw [f2, g2]
  refine ⟨shockT_antitone (Real.sqrt_nonneg A) (by linarith) ht htr, ?_⟩
  have e1 : Real.sqrt (p + B) ^ 2 - B = p := by rw [ht2]; ring
  have e2 : Real.sqrt (q + B) ^ 2 - B = q := by rw [hr2]; ring
  have key := shockT_pmono (D := P + B) (Real.sqrt_nonneg A) hB (by linarith) ht
    (by rw [ht2]; linarith) htr
  rw [e1, e2] at key
  exact key

theorem hS_at_P (P A B : ℝ) : hS P A B P = 0 := by unfold hS; simp

/-- at `p = P` the coded derivative of the shock branch equals the one of the rarefaction
branch: `√(A/(P+B)) = 1/(ρa)` -/
theorem hS'_at_P (hc : CRel c) (h : SideOK c ρ P Pinv a A B afac rhoainv) :
    hS' P A B P = rhoainv := by
  have hρ := h.st.rho_pos; have ha := h.st.a_pos; have hP := h.st.P_pos
  have hg := hc.g0; have hgp := hc.gp1
  unfold hS'
  rw [sub_self, mul_zero, zero_mul, sub_zero, one_mul]
  have e : A * (1 / (P + B)) = (1 / (ρ * a)) ^ 2 := by
    have hg' := hg.ne'; have hgp' := hgp.ne'; have hρ' := hρ.ne'; have hP' := hP.ne'
    have hden : P + (c.gamma - 1) / (c.gamma + 1) * P = 2 * c.gamma * P / (c.gamma + 1) := by
      field_simp; ring
    rw [h.hA, h.hB, hc.tdgp1, hc.gm1dgp1, hden, div_pow, one_pow, mul_pow, h.st.a_sq]
    field_simp
  rw [e, Real.sqrt_sq (by positivity), h.hr]

theorem fb_eq_hS {p : ℝ} (hp : P < p) : fb c P A B Pinv afac p = hS P A B p := fb_shock hp

theorem fprimeb_shock {p : ℝ} (hp : P < p) : fprimeb c P A B Pinv rhoainv p = hS' P A B p := by
  have e1 : (1.0:ℝ) = 1 := by norm_num
  have e2 : (0.5:ℝ) = 1 / 2 := by norm_num
  simp only [fprimeb, if_pos hp, sqrt_real, e1, e2, hS']

theorem fprimeb_raref {p : ℝ} (hp : p ≤ P) :
    fprimeb c P A B Pinv rhoainv p = (p * Pinv) ^ (-c.gp1d2g) * rhoainv := by
  simp only [fprimeb, if_neg (not_lt.mpr hp), pow_real]

theorem fprimeb_at_P (h : SideOK c ρ P Pinv a A B afac rhoainv) :
    fprimeb c P A B Pinv rhoainv P = rhoainv := by
  rw [fprimeb_raref (le_refl P), h.st.Pinv_eq, Real.one_rpow, one_mul]

/-- tangent inequality for `fb` with the coded derivative `fprimeb` (all four branch
combinations): `fb` is concave and `fprimeb` is the slope of a supporting line -/
theorem fb_tangent (hc : CRel c) (h : SideOK c ρ P Pinv a A B afac rhoainv) {p q : ℝ}
    (hp : 0 < p) (hq : 0 ≤ q) :
    fb c P A B Pinv afac q ≤ fb c P A B Pinv afac p + fprimeb c P A B Pinv rhoainv p * (q - p) := by
  have hPpos := h.st.P_pos
  have hA : 0 ≤ A := by rw [h.hA]; have := hc.tdgp1_pos; have := h.st.rho_pos; positivity
  have hB : 0 ≤ B := by rw [h.hB]; exact mul_nonneg hc.gm1dgp1_pos.le hPpos.le
  have hJ := hS'_at_P hc h
  have hJ' := fprimeb_at_P (c := c) h
  have hg0 : fb c P A B Pinv afac P = 0 := fb_at_P h.st.Pinv_eq
  rcases le_or_gt p P with hpP | hpP <;> rcases le_or_gt q P with hqP | hqP
  · rw [fb_raref hqP, fb_raref hpP, fprimeb_raref hpP]; exact raref_tangent hc h hp hq
  · -- p on the rarefaction branch, q on the shock branch
    have t1 := hS_tangent hA hB hPpos (le_refl P) hqP.le
    rw [hS_at_P, hJ] at t1
    have t2 := raref_tangent hc h hp hPpos.le
    rw [← fb_raref (c := c) (A := A) (B := B) (le_refl P), hg0, ← fb_raref (c := c) (A := A) (B := B) hpP,
      ← fprimeb_raref (c := c) (A := A) (B := B) hpP] at t2
    have t3 := (raref_slope_mono hc h hp hpP).1
    rw [← fprimeb_raref (c := c) (A := A) (B := B) hpP, ← fprimeb_raref (c := c) (A := A) (B := B) (le_refl P),
      hJ'] at t3
    rw [fb_eq_hS hqP]
    have : rhoainv * (q - P) ≤ fprimeb c P A B Pinv rhoainv p * (q - P) :=
      mul_le_mul_of_nonneg_right t3 (by linarith)
    nlinarith
  · -- p on the shock branch, q on the rarefaction branch
    have t1 := raref_tangent hc h hPpos hq
    rw [← fb_raref (c := c) (A := A) (B := B) hqP, ← fb_raref (c := c) (A := A) (B := B) (le_refl P), hg0,
      ← fprimeb_raref (c := c) (A := A) (B := B) (le_refl P), hJ'] at t1
    have t2 := hS_tangent hA hB hPpos hpP.le (le_refl P)
    rw [hS_at_P] at t2
    have t3 := (hS'_mono hA hB hPpos (le_refl P) hpP.le).1
    rw [hJ] at t3
    rw [fb_eq_hS hpP, fprimeb_shock hpP]
    have : rhoainv * (q - P) ≤ hS' P A B p * (q - P) :=
      mul_le_mul_of_nonpos_right t3 (by linarith)
    nlinarith
  · rw [fb_eq_hS hqP, fb_eq_hS hpP, fprimeb_shock hpP]
    exact hS_tangent hA hB hPpos hpP.le hqP.le

/-- `p · fprimeb p` is non-decreasing -/
theorem fprimeb_pmono (hc : CRel c) (h : SideOK c ρ P Pinv a A B afac rhoainv) {p q : ℝ}
    (hp : 0 < p) (hpq : p ≤ q) :
    p * fprimeb c P A B Pinv rhoainv p ≤ q * fprimeb c P A B Pinv rhoainv q := by
  have hPpos := h.st.P_pos
  have hA : 0 ≤ A := by rw [h.hA]; have := hc.tdgp1_pos; have := h.st.rho_pos; positivity
  have hB : 0 ≤ B := by rw [h.hB]; exact mul_nonneg hc.gm1dgp1_pos.le hPpos.le
  have hJ := hS'_at_P hc h
  have hJ' := fprimeb_at_P (c := c) h
  rcases le_or_gt q P with hqP | hqP
  · rw [fprimeb_raref (le_trans hpq hqP), fprimeb_raref hqP]
    exact (raref_slope_mono hc h hp hpq).2
  · rcases le_or_gt p P with hpP | hpP
    · have t1 := (raref_slope_mono hc h hp hpP).2
      rw [← fprimeb_raref (c := c) (A := A) (B := B) hpP, ← fprimeb_raref (c := c) (A := A) (B := B) (le_refl P),
        hJ'] at t1
      have t2 := (hS'_mono hA hB hPpos (le_refl P) hqP.le).2
      rw [hJ] at t2
      rw [fprimeb_shock hqP]; linarith
    · rw [fprimeb_shock hpP, fprimeb_shock hqP]
      exact (hS'_mono hA hB hPpos hpP.le hpq).2

end fbNewton

/-- the pressure function of `solve` and its coded derivative satisfy the hypotheses of the
Newton analysis: `f' > 0`, `f` concave with `fprime` as slope, `p f'(p)` non-decreasing -/
theorem pressureFn_newtonHyp {c : Consts ℝ} (hc : CRel c) {ρL uL PL ρR uR PR : ℝ} (hρL : 0 < ρL)
    (hPL : 0 < PL) (hρR : 0 < ρR) (hPR : 0 < PR) :
    NewtonHyp (pressureFn c ρL uL PL ρR uR PR) (pressureFn' c ρL PL ρR PR) := by
  have e1 : (1.0:ℝ) = 1 := by norm_num
  have sL : SideOK c ρL PL (1.0 / PL) (soundspeed c (1.0 / ρL) PL) (c.tdgp1 * (1.0 / ρL))
      (c.gm1dgp1 * PL) (c.tdgm1 * soundspeed c (1.0 / ρL) PL)
      (1.0 / (ρL * soundspeed c (1.0 / ρL) PL)) :=
    ⟨stateOK_of_solve hc hρL hPL, by rw [e1], rfl, rfl, by rw [e1]⟩
  have sR : SideOK c ρR PR (1.0 / PR) (soundspeed c (1.0 / ρR) PR) (c.tdgp1 * (1.0 / ρR))
      (c.gm1dgp1 * PR) (c.tdgm1 * soundspeed c (1.0 / ρR) PR)
      (1.0 / (ρR * soundspeed c (1.0 / ρR) PR)) :=
    ⟨stateOK_of_solve hc hρR hPR, by rw [e1], rfl, rfl, by rw [e1]⟩
  refine ⟨fun p hp => pressureFn'_pos hc hρL hPL hρR hPR hp, fun p q hp hq => ?_, fun p q hp hpq => ?_⟩
  · have tL := fb_tangent hc sL hp hq
    have tR := fb_tangent hc sR hp hq
    unfold pressureFn pressureFn' f fprime
    linarith
  · have mL := fprimeb_pmono hc sL hp hpq
    have mR := fprimeb_pmono hc sR hp hpq
    unfold pressureFn' fprime
    linarith


/-! ### bookkeeping of `handOver` -/
theorem handOver_newtonLeft (F : ℝ → ℝ) (bf : ℕ) (r : NState ℝ × ℕ) :
    (handOver F bf r).newtonLeft = r.2 := by
  unfold handOver
  by_cases hc : notConverged r.1 ∧ (0.0:ℝ) < r.1.fPguess
  · simp only [if_pos hc]; split <;> rfl
  · simp only [if_neg hc]

theorem handOver_path (F : ℝ → ℝ) (bf : ℕ) (r : NState ℝ × ℕ) :
    (handOver F bf r).path = 1 ∨ (handOver F bf r).path = 2 := by
  unfold handOver
  by_cases hc : notConverged r.1 ∧ (0.0:ℝ) < r.1.fPguess
  · right; simp only [if_pos hc]; split <;> rfl
  · left; simp only [if_neg hc]

/-! ### the dispatch at the top of `solve` -/
section dispatch

theorem isVacuum_real (ρ P : ℝ) (hρ : 0 ≤ ρ) (hP : 0 ≤ P) :
    RiemannVacuum.isVacuum (0:ℝ) ρ ρ P P = false ↔ 0 < ρ ∧ 0 < P := by
  have e0 : (0.0:ℝ) = 0 := by norm_num
  simp only [RiemannVacuum.isVacuum, RiemannVacuum.isZero, RiemannVacuum.invOverflows, e0, neg_zero,
    Bool.or_eq_false_iff, Bool.and_eq_false_imp, decide_eq_true_eq, decide_eq_false_iff_not, not_le]
  constructor
  · rintro ⟨⟨⟨h1, _⟩, h3⟩, _⟩
    exact ⟨lt_of_le_of_ne hρ (fun h => by rw [← h] at h1; exact lt_irrefl _ (h1 (le_refl _))),
      lt_of_le_of_ne hP (fun h => by rw [← h] at h3; exact lt_irrefl _ (h3 (le_refl _)))⟩
  · rintro ⟨h1, h2⟩
    refine ⟨⟨⟨?_, ?_⟩, ?_⟩, ?_⟩ <;> intro h <;> linarith

/-- `solve` runs its iterative part exactly for two non-vacuum states that do not generate vacuum
(`ovf = 0`: over the reals `1/x` is "infinite" only at `x = 0`) -/
theorem solveIfVacuum_none_iff (g ρL uL PL ρR uR PR ξ : ℝ) (hρL : 0 ≤ ρL) (hPL : 0 ≤ PL)
    (hρR : 0 ≤ ρR) (hPR : 0 ≤ PR) :
    RiemannVacuum.solveIfVacuum 0 g ρL uL PL ρR uR PR ξ = none ↔
      0 < ρL ∧ 0 < PL ∧ 0 < ρR ∧ 0 < PR ∧
      ¬ ((mkConsts g).tdgm1 * soundspeed (mkConsts g) (1.0 / ρL) PL
          + (mkConsts g).tdgm1 * soundspeed (mkConsts g) (1.0 / ρR) PR ≤ uR - uL) := by
  have hL := isVacuum_real ρL PL hρL hPL
  have hR := isVacuum_real ρR PR hρR hPR
  have hcond : (RiemannVacuum.tdgm1 (RiemannVacuum.effGamma g)
        * RiemannVacuum.soundSpeed (RiemannVacuum.effGamma g) (1.0 / ρL) PL
      + RiemannVacuum.tdgm1 (RiemannVacuum.effGamma g)
        * RiemannVacuum.soundSpeed (RiemannVacuum.effGamma g) (1.0 / ρR) PR ≤ uR - uL) ↔
      ((mkConsts g).tdgm1 * soundspeed (mkConsts g) (1.0 / ρL) PL
          + (mkConsts g).tdgm1 * soundspeed (mkConsts g) (1.0 / ρR) PR ≤ uR - uL) := Iff.rfl
  unfold RiemannVacuum.solveIfVacuum
  simp only
  cases hvL : RiemannVacuum.isVacuum (0:ℝ) ρL ρL PL PL <;>
    cases hvR : RiemannVacuum.isVacuum (0:ℝ) ρR ρR PR PR
  · obtain ⟨a1, a2⟩ := hL.mp hvL
    obtain ⟨b1, b2⟩ := hR.mp hvR
    simp only [Bool.or_self, Bool.false_eq_true, if_false]
    by_cases hc : RiemannVacuum.tdgm1 (RiemannVacuum.effGamma g)
        * RiemannVacuum.soundSpeed (RiemannVacuum.effGamma g) (1.0 / ρL) PL
      + RiemannVacuum.tdgm1 (RiemannVacuum.effGamma g)
        * RiemannVacuum.soundSpeed (RiemannVacuum.effGamma g) (1.0 / ρR) PR ≤ uR - uL
    · rw [if_pos hc]
      exact ⟨fun h => by simp at h, fun h => absurd (hcond.mp hc) h.2.2.2.2⟩
    · rw [if_neg hc]
      exact ⟨fun _ => ⟨a1, a2, b1, b2, fun h => hc (hcond.mpr h)⟩, fun _ => rfl⟩
  · have : ¬ (0 < ρR ∧ 0 < PR) := fun h => by rw [hR.mpr h] at hvR; simp at hvR
    simp only [Bool.or_true, if_true]
    exact ⟨fun h => by simp at h, fun h => absurd ⟨h.2.2.1, h.2.2.2.1⟩ this⟩
  · have : ¬ (0 < ρL ∧ 0 < PL) := fun h => by rw [hL.mpr h] at hvL; simp at hvL
    simp only [Bool.true_or, if_true]
    exact ⟨fun h => by simp at h, fun h => absurd ⟨h.1, h.2.1⟩ this⟩
  · have : ¬ (0 < ρL ∧ 0 < PL) := fun h => by rw [hL.mpr h] at hvL; simp at hvL
    simp only [Bool.or_self, if_true]
    exact ⟨fun h => by simp at h, fun h => absurd ⟨h.1, h.2.1⟩ this⟩

/-- in that case `solve` is `sampleStar` applied to `star`: the functions the theorems are about -/
theorem solve_iterative (g ρL uL PL ρR uR PR ξ : ℝ) (nf bf : ℕ)
    (h : RiemannVacuum.solveIfVacuum 0 g ρL uL PL ρR uR PR ξ = none) :
    solve 0 g nf bf ρL uL PL ρR uR PR ξ =
      ((sampleStar (mkConsts g) (star (mkConsts g) nf bf ρL uL PL ρR uR PR) ρL uL PL ρR uR PR ξ).1,
       (sampleStar (mkConsts g) (star (mkConsts g) nf bf ρL uL PL ρR uR PR) ρL uL PL ρR uR PR ξ).2,
       some (star (mkConsts g) nf bf ρL uL PL ρR uR PR)) := by
  unfold solve; rw [h]

end dispatch

/-! ### identical states -/
section identical

theorem guessP_identical (c : Consts ℝ) {P : ℝ} (hP : 0 < P) (a A B : ℝ) :
    guessP c P a A B P a A B 0 = P := by
  have hs : smallP P P ≤ P := by unfold smallP; norm_num; linarith
  have hppv : ppv P a P a 0 = P := by
    unfold ppv; simp only [amax_real]
    have : (0.5:ℝ) * (P + P) - 0.125 * 0 * (P + P) * (a + a) = P := by norm_num; ring
    rw [this]; exact max_eq_right hs
  have hmin : amin P P = P := by rw [amin_real]; exact min_self P
  have hmax : amax P P = P := by rw [amax_real]; exact max_self P
  unfold guessP guessPT
  simp only [hppv, hmin, hmax]
  have hq : P / P ≤ (2.0:ℝ) ∧ P ≤ P ∧ P ≤ P := by
    refine ⟨?_, le_refl _, le_refl _⟩
    rw [div_self hP.ne']; norm_num
  rw [if_pos hq]
  show amax (smallP P P) P = P
  rw [amax_real]; exact max_eq_right hs

/-- the root finding on a function with `F guess = 0`: no Newton pass, no Brent,
the guess is returned (path 1) -/
theorem findPstar_of_root (F F' : ℝ → ℝ) (n bf : ℕ) {P : ℝ} (hFP : F P = 0) :
    (findPstar F F' (n + 1) bf P).pstar = P ∧ (findPstar F F' (n + 1) bf P).path = 1 ∧
    (findPstar F F' (n + 1) bf P).newtonLeft = n + 1 := by
  have e0 : (0.0:ℝ) = 0 := by norm_num
  have hph : newtonPhase F F' (n + 1) P = (⟨0.0, F 0.0, P, F P⟩, n + 1) := by
    unfold newtonPhase
    simp only
    split_ifs with h
    · unfold newtonLoop
      have : ¬ (notConverged (⟨0.0, F 0.0, P, F P⟩ : NState ℝ) ∧ F P < 0.0) := by
        rintro ⟨_, h2⟩; rw [hFP, e0] at h2; exact lt_irrefl _ h2
      rw [if_neg this]
    · rfl
  unfold findPstar
  rw [hph]
  unfold handOver
  have : ¬ (notConverged (⟨0.0, F 0.0, P, F P⟩ : NState ℝ) ∧ (0.0:ℝ) < F P) := by
    rintro ⟨_, h2⟩; rw [hFP, e0] at h2; exact lt_irrefl _ h2
  simp only [if_neg this, and_self]

end identical

end CMacVerif.ExactRiemann
