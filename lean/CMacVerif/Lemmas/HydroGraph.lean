import CMacVerif.Model.HydroGraph
import Mathlib.Tactic.SplitIfs
/-! Lemmas about the hydro task graph of an arbitrary layout (C07). -/
namespace CMacVerif.HydroGraph

theorem up1_down1 {n : Nat} {p : Bool} {i j : Nat} (hi : i < n) (h : up1 n p i = some j) :
    j < n ∧ down1 n p j = some i := by
  unfold up1 at h
  unfold down1
  split_ifs at h with h1 h2
  · injection h with h; subst h
    refine ⟨h1, ?_⟩
    simp
  · injection h with h; subst h
    refine ⟨by omega, ?_⟩
    have : i = n - 1 := by omega
    simp [h2, this]

theorem down1_up1 {n : Nat} {p : Bool} {i j : Nat} (hi : i < n) (h : down1 n p i = some j) :
    j < n ∧ up1 n p j = some i := by
  unfold down1 at h
  unfold up1
  split_ifs at h with h1 h2
  · injection h with h; subst h
    refine ⟨by omega, ?_⟩
    have : i - 1 + 1 = i := by omega
    simp [this, hi]
  · injection h with h; subst h
    have hi0 : i = 0 := by omega
    subst hi0
    refine ⟨by omega, ?_⟩
    have : ¬ (n - 1 + 1 < n) := by omega
    simp [this, h2]

theorem valid_iff (L : Layout) (g : Sub) :
    valid L g = true ↔ g.1 < L.nx ∧ g.2.1 < L.ny ∧ g.2.2 < L.nz := by
  simp [valid, and_assoc]

theorem coord_lt {L : Layout} {g : Sub} (h : valid L g = true) (ax : Axis) : coord g ax < len L ax := by
  rw [valid_iff] at h
  cases ax <;> simp [coord, len, h]

theorem coord_setCoord (g : Sub) (ax : Axis) (v : Nat) : coord (setCoord g ax v) ax = v := by
  cases ax <;> rfl

theorem setCoord_coord (g : Sub) (ax : Axis) : setCoord g ax (coord g ax) = g := by
  cases ax <;> rfl

theorem setCoord_setCoord (g : Sub) (ax : Axis) (v w : Nat) :
    setCoord (setCoord g ax v) ax w = setCoord g ax w := by
  cases ax <;> rfl

theorem valid_setCoord {L : Layout} {g : Sub} (h : valid L g = true) (ax : Axis) {v : Nat}
    (hv : v < len L ax) : valid L (setCoord g ax v) = true := by
  rw [valid_iff] at h ⊢
  cases ax <;> simp_all [setCoord, len]

/-- neighbour relations across a face are mutual, for every layout and periodicity
(including axes with one or two subgrids) -/
theorem ngbUp_ngbDown {L : Layout} {ax : Axis} {g n : Sub} (hg : valid L g = true)
    (h : ngbUp L ax g = some n) : valid L n = true ∧ ngbDown L ax n = some g := by
  unfold ngbUp at h
  cases hu : up1 (len L ax) (per L ax) (coord g ax) with
  | none => rw [hu] at h; cases h
  | some j =>
    rw [hu] at h; simp only [Option.map_some] at h
    injection h with h; subst h
    obtain ⟨hj, hd⟩ := up1_down1 (coord_lt hg ax) hu
    refine ⟨valid_setCoord hg ax hj, ?_⟩
    unfold ngbDown
    rw [coord_setCoord, hd]
    simp only [Option.map_some, setCoord_setCoord, setCoord_coord]

theorem ngbDown_ngbUp {L : Layout} {ax : Axis} {g n : Sub} (hg : valid L g = true)
    (h : ngbDown L ax g = some n) : valid L n = true ∧ ngbUp L ax n = some g := by
  unfold ngbDown at h
  cases hu : down1 (len L ax) (per L ax) (coord g ax) with
  | none => rw [hu] at h; cases h
  | some j =>
    rw [hu] at h; simp only [Option.map_some] at h
    injection h with h; subst h
    obtain ⟨hj, hd⟩ := down1_up1 (coord_lt hg ax) hu
    refine ⟨valid_setCoord hg ax hj, ?_⟩
    unfold ngbUp
    rw [coord_setCoord, hd]
    simp only [Option.map_some, setCoord_setCoord, setCoord_coord]

/-- `ngbUp ax g = some n ↔ ngbDown ax n = some g` for valid subgrids -/
theorem ngb_mutual {L : Layout} {ax : Axis} {g n : Sub} (hg : valid L g = true) (hn : valid L n = true) :
    ngbUp L ax g = some n ↔ ngbDown L ax n = some g :=
  ⟨fun h => (ngbUp_ngbDown hg h).2, fun h => (ngbDown_ngbUp hn h).2⟩

end CMacVerif.HydroGraph
