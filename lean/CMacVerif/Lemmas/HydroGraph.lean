import CMacVerif.Model.HydroGraph
import Mathlib.Tactic.SplitIfs
import Mathlib.Data.List.Nodup
import Mathlib.Data.List.Range
/-! Lemmas about the hydro task graph of an arbitrary layout (C07). -/
namespace CMacVerif.HydroGraph

theorem up1_down1 {n : Nat} {p : Bool} {i j : Nat} (hi : i < n) (h : up1 n p i = some j) :
    j < n ∧ down1 n p j = some i := by
  unfold up1 at h
  unfold down1
  split_ifs at h with h1 h2
  · injection h with h; subst h
    refine ⟨h1, ?_⟩
    simp
  · injection h with h; subst h
    refine ⟨by omega, ?_⟩
    have : i = n - 1 := by omega
    simp [h2, this]

theorem down1_up1 {n : Nat} {p : Bool} {i j : Nat} (hi : i < n) (h : down1 n p i = some j) :
    j < n ∧ up1 n p j = some i := by
  unfold down1 at h
  unfold up1
  split_ifs at h with h1 h2
  · injection h with h; subst h
    refine ⟨by omega, ?_⟩
    have : i - 1 + 1 = i := by omega
    simp [this, hi]
  · injection h with h; subst h
    have hi0 : i = 0 := by omega
    subst hi0
    refine ⟨by omega, ?_⟩
    have : ¬ (n - 1 + 1 < n) := by omega
    simp [this, h2]

theorem valid_iff (L : Layout) (g : Sub) :
    valid L g = true ↔ g.1 < L.nx ∧ g.2.1 < L.ny ∧ g.2.2 < L.nz := by
  simp [valid, and_assoc]

theorem coord_lt {L : Layout} {g : Sub} (h : valid L g = true) (ax : Axis) : coord g ax < len L ax := by
  rw [valid_iff] at h
  cases ax <;> simp [coord, len, h]

theorem coord_setCoord (g : Sub) (ax : Axis) (v : Nat) : coord (setCoord g ax v) ax = v := by
  cases ax <;> rfl

theorem setCoord_coord (g : Sub) (ax : Axis) : setCoord g ax (coord g ax) = g := by
  cases ax <;> rfl

theorem setCoord_setCoord (g : Sub) (ax : Axis) (v w : Nat) :
    setCoord (setCoord g ax v) ax w = setCoord g ax w := by
  cases ax <;> rfl

theorem valid_setCoord {L : Layout} {g : Sub} (h : valid L g = true) (ax : Axis) {v : Nat}
    (hv : v < len L ax) : valid L (setCoord g ax v) = true := by
  rw [valid_iff] at h ⊢
  cases ax <;> simp_all [setCoord, len]

/-- neighbour relations across a face are mutual, for every layout and periodicity
(including axes with one or two subgrids) -/
theorem ngbUp_ngbDown {L : Layout} {ax : Axis} {g n : Sub} (hg : valid L g = true)
    (h : ngbUp L ax g = some n) : valid L n = true ∧ ngbDown L ax n = some g := by
  unfold ngbUp at h
  cases hu : up1 (len L ax) (per L ax) (coord g ax) with
  | none => rw [hu] at h; cases h
  | some j =>
    rw [hu] at h; simp only [Option.map_some] at h
    injection h with h; subst h
    obtain ⟨hj, hd⟩ := up1_down1 (coord_lt hg ax) hu
    refine ⟨valid_setCoord hg ax hj, ?_⟩
    unfold ngbDown
    rw [coord_setCoord, hd]
    simp only [Option.map_some, setCoord_setCoord, setCoord_coord]

theorem ngbDown_ngbUp {L : Layout} {ax : Axis} {g n : Sub} (hg : valid L g = true)
    (h : ngbDown L ax g = some n) : valid L n = true ∧ ngbUp L ax n = some g := by
  unfold ngbDown at h
  cases hu : down1 (len L ax) (per L ax) (coord g ax) with
  | none => rw [hu] at h; cases h
  | some j =>
    rw [hu] at h; simp only [Option.map_some] at h
    injection h with h; subst h
    obtain ⟨hj, hd⟩ := down1_up1 (coord_lt hg ax) hu
    refine ⟨valid_setCoord hg ax hj, ?_⟩
    unfold ngbUp
    rw [coord_setCoord, hd]
    simp only [Option.map_some, setCoord_setCoord, setCoord_coord]

/-- `ngbUp ax g = some n ↔ ngbDown ax n = some g` for valid subgrids -/
theorem ngb_mutual {L : Layout} {ax : Axis} {g n : Sub} (hg : valid L g = true) (hn : valid L n = true) :
    ngbUp L ax g = some n ↔ ngbDown L ax n = some g :=
  ⟨fun h => (ngbUp_ngbDown hg h).2, fun h => (ngbDown_ngbUp hn h).2⟩

theorem count_optTask (o : Option Sub) (s : Slot) (c : Task) :
    (optTask o s).count c = if o = some c.g ∧ s = c.slot then 1 else 0 := by
  obtain ⟨g', sc⟩ := c
  cases o with
  | none => simp [optTask]
  | some n =>
    simp only [optTask, List.count_cons, List.count_nil, beq_iff_eq, Task.mk.injEq, Option.some.injEq]
    simp

theorem gradDownTask_eq (L : Layout) (ax : Axis) (g' : Sub) (t : Task) :
    gradDownTask L ax g' = t ↔
      (ngbDown L ax g' = none ∧ t = ⟨g', .gradDown ax⟩) ∨ (∃ m, ngbDown L ax g' = some m ∧ t = ⟨m, .gradUp ax⟩) := by
  unfold gradDownTask
  cases h : ngbDown L ax g' with
  | none => simp [eq_comm]
  | some m => simp [eq_comm]

theorem fluxDownTask_eq (L : Layout) (ax : Axis) (g' : Sub) (t : Task) :
    fluxDownTask L ax g' = t ↔
      (ngbDown L ax g' = none ∧ t = ⟨g', .fluxDown ax⟩) ∨ (∃ m, ngbDown L ax g' = some m ∧ t = ⟨m, .fluxUp ax⟩) := by
  unfold fluxDownTask
  cases h : ngbDown L ax g' with
  | none => simp [eq_comm]
  | some m => simp [eq_comm]

set_option maxHeartbeats 800000 in
theorem consistent (L : Layout) (p c : Task) (hp : exists_ L p = true) (hc : exists_ L c = true) :
    (children L p).count c = (parents L c).count p := by
  obtain ⟨g, sp⟩ := p
  obtain ⟨g', sc⟩ := c
  simp only [exists_, Bool.and_eq_true] at hp hc
  obtain ⟨hg, hpe⟩ := hp
  obtain ⟨hg', hce⟩ := hc
  have hm := fun a => @ngb_mutual L a g g' hg hg'
  have hm' := fun a => @ngb_mutual L a g' g hg' hg
  rcases sp with _ | ax | ax | _ | _ | _ | ax | ax | _ | _ <;>
  rcases sc with _ | ax' | ax' | _ | _ | _ | ax' | ax' | _ | _ <;>
    simp only [children, parents, List.count_cons, List.count_nil, beq_iff_eq, count_optTask,
      gradDownTask_eq, fluxDownTask_eq,
      Task.mk.injEq, reduceCtorEq, and_false, and_true, false_and, if_false, Nat.add_zero, Nat.zero_add,
      or_false, false_or, exists_false, Slot.gradUp.injEq, Slot.gradDown.injEq, Slot.fluxUp.injEq, Slot.fluxDown.injEq] <;>
    first
      | rfl
      | skip
  all_goals (try cases ax)
  all_goals (try cases ax')
  all_goals (simp only [slotExists, Option.isNone_iff_eq_none] at hpe hce)
  all_goals (first
    | (simp [hm, hm', hpe, hce, eq_comm]; done)
    | (simp only [hm, hm', hpe, hce, eq_comm, reduceCtorEq, and_false, and_true, exists_false, if_false,
        Nat.add_zero, Nat.zero_add, exists_eq_right, exists_eq_left, true_and]; done)
    | (by_cases hgg : g = g'
       · subst hgg; simp [hpe, hce]
       · have hgg' : ¬ g' = g := fun e => hgg e.symm
         simp [hgg, hgg']))

end CMacVerif.HydroGraph


namespace CMacVerif.HydroGraph

theorem mem_allSubs (L : Layout) (g : Sub) : g ∈ allSubs L ↔ valid L g = true := by
  obtain ⟨a, b, c⟩ := g
  simp only [allSubs, List.mem_flatMap, List.mem_range, List.mem_map, Prod.mk.injEq, valid_iff]
  constructor
  · rintro ⟨a', ha, b', hb, c', hc, rfl, rfl, rfl⟩; exact ⟨ha, hb, hc⟩
  · rintro ⟨ha, hb, hc⟩; exact ⟨a, ha, b, hb, c, hc, rfl, rfl, rfl⟩

theorem allSubs_nodup (L : Layout) : (allSubs L).Nodup := by
  unfold allSubs
  rw [List.nodup_flatMap]
  refine ⟨?_, ?_⟩
  · intro a _
    rw [List.nodup_flatMap]
    refine ⟨?_, ?_⟩
    · intro b _
      exact (List.nodup_range).map (fun c c' h => by simpa using h)
    · apply List.Nodup.pairwise_of_forall_ne List.nodup_range
      intro b _ b' _ hne
      simp only [Function.onFun, List.disjoint_left, List.mem_map, List.mem_range]
      rintro g ⟨c, _, rfl⟩ ⟨c', _, h⟩
      simp only [Prod.mk.injEq] at h
      exact hne h.2.1.symm
  · apply List.Nodup.pairwise_of_forall_ne List.nodup_range
    intro a _ a' _ hne
    simp only [Function.onFun, List.disjoint_left, List.mem_flatMap, List.mem_map, List.mem_range]
    rintro g ⟨b, _, c, _, rfl⟩ ⟨b', _, c', _, h⟩
    simp only [Prod.mk.injEq] at h
    exact hne h.1.symm

theorem allSlots_nodup : allSlots.Nodup := by decide

theorem mem_allSlots (s : Slot) : s ∈ allSlots := by
  rcases s with _ | ax | ax | _ | _ | _ | ax | ax | _ | _ <;> (try cases ax) <;> decide

theorem mem_allTasks (L : Layout) (t : Task) : t ∈ allTasks L ↔ exists_ L t = true := by
  obtain ⟨g, s⟩ := t
  simp only [allTasks, List.mem_flatMap, List.mem_map, List.mem_filter, Task.mk.injEq, exists_,
    Bool.and_eq_true, mem_allSubs]
  constructor
  · rintro ⟨g', hg', s', ⟨_, hs'⟩, rfl, rfl⟩; exact ⟨hg', hs'⟩
  · rintro ⟨hg, hs⟩; exact ⟨g, hg, s, ⟨mem_allSlots s, hs⟩, rfl, rfl⟩

theorem allTasks_nodup (L : Layout) : (allTasks L).Nodup := by
  unfold allTasks
  rw [List.nodup_flatMap]
  refine ⟨?_, ?_⟩
  · intro g _
    exact (allSlots_nodup.filter _).map (fun s s' h => by simpa using h)
  · apply List.Nodup.pairwise_of_forall_ne (allSubs_nodup L)
    intro g _ g' _ hne
    simp only [Function.onFun, List.disjoint_left, List.mem_map, List.mem_filter]
    rintro t ⟨s, _, rfl⟩ ⟨s', _, h⟩
    simp only [Task.mk.injEq] at h
    exact hne h.1.symm

end CMacVerif.HydroGraph
