import CMacVerif.Model.Cartesian
import CMacVerif.Lemmas.GridNum
import Mathlib.Tactic.Ring
import Mathlib.Tactic.FieldSimp
import Mathlib.Tactic.Linarith
/-! Helper lemmas for the Cartesian grid model over `ℝ` (C16). -/
namespace CMacVerif.Cartesian
open CMacVerif.GridNum

/-! ### the index map on one axis -/

/-- one axis of `get_cell_indices` / `get_cell` in exact arithmetic: the index of a position in
`[a, a+S)` is in range and the cell's interval contains the position -/
theorem axis_index (n : Int) (hn : 0 < n) (a S p : ℝ) (hS : 0 < S) (h1 : a ≤ p) (h2 : p < a + S) :
    let cs := S / (OfInt.ofInt n : ℝ)
    let i := Trunc.toInt ((p - a) * (1.0 / cs))
    0 ≤ i ∧ i < n ∧ a + cs * (OfInt.ofInt i : ℝ) ≤ p ∧ p < a + cs * (OfInt.ofInt i : ℝ) + cs := by
  intro cs i
  have hn' : (0 : ℝ) < (n : ℝ) := by exact_mod_cast hn
  have hcs : 0 < cs := div_pos hS hn'
  have hx : (p - a) * (1.0 / cs) = (p - a) * n / S := by
    simp only [cs, ofInt_real]; norm_num; field_simp
  have hq : 0 ≤ (p - a) * (1.0 / cs) := by
    rw [hx]; exact div_nonneg (mul_nonneg (by linarith) hn'.le) hS.le
  have hi : i = ⌊(p - a) * (1.0 / cs)⌋ := toInt_real_nonneg _ hq
  have hf1 : ((i : Int) : ℝ) ≤ (p - a) * n / S := by rw [hi, ← hx]; exact Int.floor_le _
  have hf2 : (p - a) * n / S < (i : ℝ) + 1 := by rw [hi, ← hx]; exact Int.lt_floor_add_one _
  rw [le_div_iff₀ hS] at hf1
  rw [div_lt_iff₀ hS] at hf2
  have hi0 : 0 ≤ i := by rw [hi]; exact Int.floor_nonneg.mpr hq
  refine ⟨hi0, ?_, ?_, ?_⟩
  · have : (i : ℝ) < n := by
      by_contra hcon
      push Not at hcon
      have : (n : ℝ) * S ≤ (i : ℝ) * S := mul_le_mul_of_nonneg_right hcon hS.le
      nlinarith
    exact_mod_cast this
  · simp only [ofInt_real, cs]
    have : S / (n : ℝ) * (i : ℝ) = (i : ℝ) * S / n := by ring
    rw [this, ← sub_nonneg]
    have : p - (a + (i : ℝ) * S / n) = ((p - a) * n - i * S) / n := by field_simp; ring
    rw [this]; exact div_nonneg (by linarith) hn'.le
  · simp only [ofInt_real, cs]
    rw [← sub_pos]
    have : a + S / (n : ℝ) * (i : ℝ) + S / n - p = (((i : ℝ) + 1) * S - (p - a) * n) / n := by
      field_simp; ring
    rw [this]; exact div_pos (by linarith) hn'

/-- a position lies in the interval of one index only -/
theorem axis_unique (n : Int) (hn : 0 < n) (a S p : ℝ) (hS : 0 < S) (i j : Int)
    (hi1 : a + S / (n : ℝ) * (i : ℝ) ≤ p) (hi2 : p < a + S / (n : ℝ) * (i : ℝ) + S / n)
    (hj1 : a + S / (n : ℝ) * (j : ℝ) ≤ p) (hj2 : p < a + S / (n : ℝ) * (j : ℝ) + S / n) : i = j := by
  have hn' : (0 : ℝ) < (n : ℝ) := by exact_mod_cast hn
  have hcs : 0 < S / (n : ℝ) := div_pos hS hn'
  have h1 : (i : ℝ) < (j : ℝ) + 1 := by
    by_contra hcon
    push Not at hcon
    have := mul_le_mul_of_nonneg_left hcon hcs.le
    nlinarith
  have h2 : (j : ℝ) < (i : ℝ) + 1 := by
    by_contra hcon
    push Not at hcon
    have := mul_le_mul_of_nonneg_left hcon hcs.le
    nlinarith
  have h1' : i < j + 1 := by exact_mod_cast h1
  have h2' : j < i + 1 := by exact_mod_cast h2
  omega

/-! ### long index -/

theorem longIndex_roundtrip (n i : I3) (hy : 0 < n.y) (hz : 0 < n.z)
    (h1 : 0 ≤ i.y ∧ i.y < n.y) (h2 : 0 ≤ i.z ∧ i.z < n.z) :
    indicesOf n (longIndex n i) = i := by
  have hyz : 0 < n.y * n.z := Int.mul_pos hy hz
  have hr0 : 0 ≤ i.y * n.z + i.z := by have := Int.mul_nonneg h1.1 hz.le; omega
  have hr1 : i.y * n.z + i.z < n.y * n.z := by
    have : (i.y + 1) * n.z ≤ n.y * n.z := Int.mul_le_mul_of_nonneg_right (by omega) hz.le
    have e : (i.y + 1) * n.z = i.y * n.z + n.z := by ring
    omega
  have e1 : longIndex n i / (n.y * n.z) = i.x := by
    unfold longIndex
    rw [show i.x * (n.y * n.z) + i.y * n.z + i.z = (i.y * n.z + i.z) + i.x * (n.y * n.z) by ring,
      Int.add_mul_ediv_right _ _ hyz.ne', Int.ediv_eq_zero_of_lt hr0 hr1]; simp
  have e2 : (longIndex n i - i.x * n.y * n.z) / n.z = i.y := by
    unfold longIndex
    rw [show i.x * (n.y * n.z) + i.y * n.z + i.z - i.x * n.y * n.z = i.z + i.y * n.z by ring,
      Int.add_mul_ediv_right _ _ hz.ne', Int.ediv_eq_zero_of_lt h2.1 h2.2]; simp
  unfold indicesOf
  simp only [e1, e2]
  cases i with
  | mk x y z => simp only [longIndex]; congr 1; ring

theorem longIndex_range (n i : I3) (hx : 0 ≤ i.x ∧ i.x < n.x) (hy : 0 ≤ i.y ∧ i.y < n.y)
    (hz : 0 ≤ i.z ∧ i.z < n.z) : 0 ≤ longIndex n i ∧ longIndex n i < n.x * n.y * n.z := by
  unfold longIndex
  have hny : 0 < n.y := by omega
  have hnz : 0 < n.z := by omega
  have hyz : 0 < n.y * n.z := Int.mul_pos hny hnz
  have a1 : 0 ≤ i.x * (n.y * n.z) := Int.mul_nonneg hx.1 hyz.le
  have a2 : 0 ≤ i.y * n.z := Int.mul_nonneg hy.1 hnz.le
  have b1 : (i.x + 1) * (n.y * n.z) ≤ n.x * (n.y * n.z) :=
    Int.mul_le_mul_of_nonneg_right (by omega) hyz.le
  have b2 : (i.y + 1) * n.z ≤ n.y * n.z := Int.mul_le_mul_of_nonneg_right (by omega) hnz.le
  have e1 : (i.x + 1) * (n.y * n.z) = i.x * (n.y * n.z) + n.y * n.z := by ring
  have e2 : (i.y + 1) * n.z = i.y * n.z + n.z := by ring
  have e3 : n.x * n.y * n.z = n.x * (n.y * n.z) := by ring
  constructor
  · omega
  · rw [e3]; omega

/-! ### neighbours -/

/-- one axis: the neighbour relation is mutual and stays in range -/
theorem ngbAxis_mutual (periodic : Bool) (n i j : Int) (up : Bool) (hi : 0 ≤ i ∧ i < n)
    (h : ngbAxis periodic n i up = some j) :
    0 ≤ j ∧ j < n ∧ ngbAxis periodic n j (!up) = some i := by
  unfold ngbAxis at *
  cases up <;> cases periodic <;> simp only [Bool.not_true, Bool.not_false, Bool.false_eq_true,
    if_true, if_false, ite_true, ite_false] at h ⊢ <;> split_ifs at h ⊢ <;>
    first | (simp at h; omega) | (simp at h ⊢; omega) | (simp at h) | omega

/-! ### the clamp of `get_cell_indices` (every numeric type) -/
section clamp
variable {α : Type} [LE α] [DecidableLE α]

theorem clampTop_inactive (n i : Int) (p top : α) (h : i < n) : clampTop n i p top = i := by
  unfold clampTop; rw [if_neg]; intro hc; omega

/-- whatever the rounding of the product was: a raw index in `[0, n]` of a position not above the
top face becomes an index of an existing cell -/
theorem clampTop_range (n i : Int) (p top : α) (hn : 0 < n) (h0 : 0 ≤ i) (h1 : i ≤ n) (hp : p ≤ top) :
    0 ≤ clampTop n i p top ∧ clampTop n i p top < n := by
  unfold clampTop
  by_cases h : i = n
  · rw [if_pos ⟨h, hp⟩]; omega
  · rw [if_neg (fun hc => h hc.1)]; omega
end clamp

end CMacVerif.Cartesian
