import CMacVerif.Lemmas.AtomicsRun
/-!
C08 lemmas, part 10: the class-level contract of `Task`'s dependency setters and
`lock_dependency` (sequential: one thread, nobody interferes).
-/
namespace CMacVerif.Atomics

/-- would `lock_dependency` of task `t` succeed on the lock flags `locks` (nobody interferes)? -/
def tryAll (cfg : Cfg) (locks : LockId → Bool) (t : Nat) : Bool :=
  match cfg.deps t with
  | (none, _) => true
  | (some a, none) => !locks (.dep a)
  | (some a, some b) => !locks (.dep a) && !(upd locks (.dep a) true (.dep b))

/-- lock flags after a successful `lock_dependency` -/
def lockedBy (cfg : Cfg) (locks : LockId → Bool) (t : Nat) : LockId → Bool :=
  match cfg.deps t with
  | (none, _) => locks
  | (some a, none) => upd locks (.dep a) true
  | (some a, some b) => upd (upd locks (.dep a) true) (.dep b) true

/-- a direct `Task::lock_dependency()` call that nobody interferes with: it terminates, returns
`tryAll`, leaves the lock flags untouched when it fails and sets exactly `_dependency[0..1]`
when it succeeds -/
theorem lock_dependency_solo (cfg : Cfg) (s : State) (tid t : Nat) (th : Thread)
    (hth : s.threads[tid]? = some th) (hpc : th.pc = .tlStart .alone t) :
    Solo cfg tid s (fun s' => ∃ th', s'.threads[tid]? = some th' ∧ th'.pc = .idle ∧
      th'.res = .taskLocked t (tryAll cfg s.mem.locks t) :: th.res ∧
      (∀ L, s'.mem.locks L = if tryAll cfg s.mem.locks t then lockedBy cfg s.mem.locks t L else s.mem.locks L) ∧
      th'.tasks = if tryAll cfg s.mem.locks t then t :: th.tasks else th.tasks) := by
  rcases hd : cfg.deps t with ⟨_ | a, d1⟩
  · have e1 : exec cfg s.mem th = (s.mem, ret { th with tasks := t :: th.tasks } (.taskLocked t true)) := by
      unfold exec; rw [hpc]; simp [hd, tlSucc, ret]
    have h1 := solo_exec hth e1
    refine Solo.next (Solo.now ⟨_, h1.1, rfl, by simp [ret, tryAll, hd], fun L => ?_, by simp [ret, tryAll, hd]⟩)
    simp [tryAll, lockedBy, hd, h1.2]
  · have e1 : exec cfg s.mem th = (s.mem, { th with pc := .tl0 .alone t }) := by
      unfold exec; rw [hpc]; simp [hd]
    have h1 := solo_exec hth e1
    apply Solo.next
    cases hla : s.mem.locks (.dep a)
    · cases d1 with
      | none =>
        have e2 : exec cfg (step cfg s tid).mem { th with pc := .tl0 .alone t }
            = ({ s.mem with locks := upd s.mem.locks (.dep a) true },
               ret { th with tasks := t :: th.tasks } (.taskLocked t true)) := by
          unfold exec; simp [hd, h1.2, hla, tlSucc, ret]
        have h2 := solo_exec h1.1 e2
        refine Solo.next (Solo.now ⟨_, h2.1, rfl, by simp [ret, tryAll, hd, hla], fun L => ?_, by simp [ret, tryAll, hd, hla]⟩)
        simp [tryAll, lockedBy, hd, hla, h2.2]
      | some b =>
        have e2 : exec cfg (step cfg s tid).mem { th with pc := .tl0 .alone t }
            = ({ s.mem with locks := upd s.mem.locks (.dep a) true }, { th with pc := .tl1 .alone t }) := by
          unfold exec; simp [hd, h1.2, hla]
        have h2 := solo_exec h1.1 e2
        apply Solo.next
        cases hlb : upd s.mem.locks (.dep a) true (.dep b)
        · have e3 : exec cfg (step cfg (step cfg s tid) tid).mem { th with pc := .tl1 .alone t }
              = ({ s.mem with locks := upd (upd s.mem.locks (.dep a) true) (.dep b) true },
                 ret { th with tasks := t :: th.tasks } (.taskLocked t true)) := by
            unfold exec; simp [hd, h2.2, hlb, tlSucc, ret]
          have h3 := solo_exec h2.1 e3
          refine Solo.next (Solo.now ⟨_, h3.1, rfl, by simp [ret, tryAll, hd, hla, hlb], fun L => ?_, by simp [ret, tryAll, hd, hla, hlb]⟩)
          simp [tryAll, lockedBy, hd, hla, hlb, h3.2]
        · have e3 : exec cfg (step cfg (step cfg s tid) tid).mem { th with pc := .tl1 .alone t }
              = ({ s.mem with locks := upd s.mem.locks (.dep a) true }, { th with pc := .tlBack .alone t }) := by
            unfold exec; simp [hd, h2.2, hlb]
          have h3 := solo_exec h2.1 e3
          apply Solo.next
          have e4 : exec cfg (step cfg (step cfg (step cfg s tid) tid) tid).mem { th with pc := .tlBack .alone t }
              = ({ s.mem with locks := upd (upd s.mem.locks (.dep a) true) (.dep a) false },
                 ret th (.taskLocked t false)) := by
            unfold exec; simp [hd, h3.2, tlFail, ret]
          have h4 := solo_exec h3.1 e4
          refine Solo.next (Solo.now ⟨_, h4.1, rfl, by simp [ret, tryAll, hd, hla, hlb], fun L => ?_, by simp [ret, tryAll, hd, hla, hlb]⟩)
          simp only [tryAll, hd, hla, hlb, h4.2, upd_apply]
          split
          · rename_i h; rw [h, hla]; simp
          · simp
    · have e2 : exec cfg (step cfg s tid).mem { th with pc := .tl0 .alone t }
          = (s.mem, ret th (.taskLocked t false)) := by
        unfold exec; simp [hd, h1.2, hla, tlFail, ret]
      have h2 := solo_exec h1.1 e2
      refine Solo.next (Solo.now ⟨_, h2.1, rfl, by cases d1 <;> simp [ret, tryAll, hd, hla], fun L => ?_, by cases d1 <;> simp [ret, tryAll, hd, hla]⟩)
      cases d1 <;> simp [tryAll, hd, hla, h2.2]

end CMacVerif.Atomics
