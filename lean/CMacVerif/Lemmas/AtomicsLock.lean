import CMacVerif.Lemmas.Atomics
import Mathlib.Tactic.SplitIfs
/-!
C08 lemmas, part 2: the lock invariant.  For every `ThreadLock` L (resource locks and queue
locks): the number of holders, counted over all threads — locks in user hands, locks held
through a task whose `lock_dependency` succeeded, and the transient program counters between
a successful CAS and the matching unlock — equals `[locks L]`.
-/
namespace CMacVerif.Atomics

/-- locks a task holds once `lock_dependency` returned true -/
def depsHold (cfg : Cfg) (t : Nat) (L : LockId) : Nat :=
  match cfg.deps t with
  | (some a, some b) => ind (L = .dep a) + ind (L = .dep b)
  | (some a, none) => ind (L = .dep a)
  | (none, _) => 0

/-- the first dependency only -/
def dep0Hold (cfg : Cfg) (t : Nat) (L : LockId) : Nat :=
  match cfg.deps t with
  | (some a, _) => ind (L = .dep a)
  | (none, _) => 0

def ctxHold : Ctx → LockId → Nat
  | .alone, _ => 0
  | .pop q _, L => ind (L = .queue q)

/-- locks held because of where the thread is in its current call -/
def pcHoldL (cfg : Cfg) : PC → LockId → Nat
  | .unlockL k, L => ind (L = .dep k)
  | .tlStart c _, L => ctxHold c L
  | .tl0 c _, L => ctxHold c L
  | .tl1 c t, L => ctxHold c L + dep0Hold cfg t L
  | .tlBack c t, L => ctxHold c L + dep0Hold cfg t L
  | .tuStart t, L => depsHold cfg t L
  | .tu1 t, L => depsHold cfg t L
  | .tu0 t, L => dep0Hold cfg t L
  | .addBody q _ _, L => ind (L = .queue q)
  | .addUnlock q _ _, L => ind (L = .queue q)
  | .popInit q, L => ind (L = .queue q)
  | .popScan q _, L => ind (L = .queue q)
  | .popUnlock q _, L => ind (L = .queue q)
  | .popRemove q _ t, L => ind (L = .queue q) + depsHold cfg t L
  | .idle, _ | .getCheck _, _ | .getInc _, _ | .getCas _ _, _ | .getCount _ _, _ | .getMax _ _ _, _ | .getMaxCas _ _ _ _, _ | .cMax _ _, _ | .cMaxCas _ _ _, _ | .cLoadMx _, _ | .loadTaken, _
  | .getTotal _ _, _ | .apFill _ _, _ | .apPlace _ _, _ | .crashed _, _ | .freeReset _, _ | .freeYield _, _
  | .freeUnlock _, _ | .freeDec _, _ | .lockSpin _, _ | .lockTry _, _ | .addLock _ _ _, _ | .numInc _ _ _, _ | .relDec _ _ _, _ | .retire _, _ | .setUnf _ _, _ | .loadNum, _
  | .popLock _ _, _ | .qsz _, _ | .cInc _, _ | .cDec _, _ | .cPostInc _, _ | .cPreAdd _ _, _
  | .cPostAdd _ _, _ | .cPreSub _ _, _ | .cLoad _, _ | .cAwait _ _, _ | .lfLoad _ _, _ | .lfCas _ _ _, _ => 0

def heldHold (held : List Nat) : LockId → Nat
  | .dep k => held.count k
  | .queue _ => 0

def tasksHold (cfg : Cfg) (ts : List Nat) (L : LockId) : Nat := (ts.map (depsHold cfg · L)).sum

/-- how many times thread `th` holds lock `L` -/
def holdL (cfg : Cfg) (L : LockId) (th : Thread) : Nat :=
  heldHold th.held L + tasksHold cfg th.tasks L + pcHoldL cfg th.pc L

/-- the lock invariant -/
def LockInv (cfg : Cfg) (s : State) : Prop :=
  ∀ L, sumT (holdL cfg L) s.threads = (s.mem.locks L).toNat

theorem heldHold_cons (held : List Nat) (k : Nat) (L : LockId) :
    heldHold (k :: held) L = heldHold held L + ind (L = .dep k) := by
  cases L with
  | dep k' => simp [heldHold, ind, List.count_cons]; split <;> simp_all <;> omega
  | queue q => simp [heldHold, ind]

theorem heldHold_erase (held : List Nat) (k : Nat) (L : LockId) (h : k ∈ held) :
    heldHold (held.erase k) L + ind (L = .dep k) = heldHold held L := by
  cases L with
  | dep k' =>
    have := count_erase_add held k k' h
    simp only [heldHold, ind, LockId.dep.injEq]; omega
  | queue q => simp [heldHold, ind]

theorem tasksHold_cons (cfg : Cfg) (ts : List Nat) (t : Nat) (L : LockId) :
    tasksHold cfg (t :: ts) L = depsHold cfg t L + tasksHold cfg ts L := by
  simp [tasksHold]

theorem tasksHold_erase (cfg : Cfg) (ts : List Nat) (t : Nat) (L : LockId) (h : t ∈ ts) :
    tasksHold cfg (ts.erase t) L + depsHold cfg t L = tasksHold cfg ts L :=
  sum_map_erase (depsHold cfg · L) ts t h

/-- dispatching the next call does not change what the thread holds -/
theorem holdL_dispatch (cfg : Cfg) (L : LockId) (th : Thread) (c : Cmd) (hpc : th.pc = .idle) :
    holdL cfg L (dispatch cfg th c) = holdL cfg L th := by
  cases c
  case release =>
    simp only [dispatch]
    (repeat' split) <;> simp [holdL, hpc, pcHoldL, ret]
  all_goals (simp only [dispatch, holdL, hpc, pcHoldL, ret, ctxHold]; try rfl)
  all_goals
    split <;> simp only [pcHoldL, Nat.add_zero]
  · rename_i j k hk
    have := heldHold_erase th.held k L (pick_mem _ _ _ hk); omega
  · rename_i j t hk
    have := tasksHold_erase cfg th.tasks t L (pick_mem _ _ _ hk); omega

theorem toNat_upd {α : Type} [DecidableEq α] (f : α → Bool) (a x : α) (b : Bool) :
    (upd f a b x).toNat = if x = a then b.toNat else (f x).toNat := by
  unfold upd; split <;> rfl

local macro "fin" : tactic =>
  `(tactic| ((try simp only [toNat_upd, ind, Bool.toNat_true, Bool.toNat_false] at *); (try split_ifs at *) <;> (try simp_all) <;> omega))

local macro "unf" : tactic =>
  `(tactic| try simp only [holdL, tlFail, tlSucc, ret, getDone, pcHoldL, ctxHold, tasksHold_cons, heldHold_cons, depsHold, dep0Hold, *] at *)

local macro "lockcase" : tactic => `(tactic| ((try simp only) <;> (repeat' split) <;> unf <;> fin))

theorem exec_holdL (cfg : Cfg) (m : Mem) (th : Thread) (L : LockId)
    (h : holdL cfg L th ≤ (m.locks L).toNat) :
    (m.locks L).toNat + holdL cfg L (exec cfg m th).2
      = ((exec cfg m th).1.locks L).toNat + holdL cfg L th := by
  have hle := Bool.toNat_le (m.locks L)
  unfold exec
  cases hpc : th.pc
  case idle =>
    simp only
    split
    · simp
    · rename_i c rest hp
      simp only
      rw [holdL_dispatch cfg L _ c (by simp [hpc])]
      simp [holdL, hpc]
  case tlStart c t =>
    rcases hd : cfg.deps t with ⟨_ | a, _ | b⟩ <;> cases c <;> simp only [hd] <;> lockcase
  case tl0 c t =>
    rcases hd : cfg.deps t with ⟨_ | a, _ | b⟩ <;> cases c <;> simp only [hd] <;> lockcase
  case tl1 c t =>
    rcases hd : cfg.deps t with ⟨_ | a, _ | b⟩ <;> cases c <;> simp only [hd] <;> lockcase
  case tlBack c t =>
    rcases hd : cfg.deps t with ⟨_ | a, _ | b⟩ <;> cases c <;> simp only [hd] <;> lockcase
  case tuStart t =>
    rcases hd : cfg.deps t with ⟨_ | a, _ | b⟩ <;> simp only [hd] <;> lockcase
  case tu1 t =>
    rcases hd : cfg.deps t with ⟨_ | a, _ | b⟩ <;> simp only [hd] <;> lockcase
  case tu0 t =>
    rcases hd : cfg.deps t with ⟨_ | a, _ | b⟩ <;> simp only [hd] <;> lockcase
  case popRemove q j t =>
    rcases hd : cfg.deps t with ⟨_ | a, _ | b⟩ <;> lockcase
  case getTotal i r => cases r <;> lockcase
  all_goals lockcase

/-- the lock invariant is preserved by every transition of every thread -/
theorem lockInv_step (cfg : Cfg) (s : State) (tid : Nat) (h : LockInv cfg s) :
    LockInv cfg (step cfg s tid) := by
  cases hth : s.threads[tid]? with
  | none => rw [step_none cfg s tid hth]; exact h
  | some th =>
    rw [step_some cfg s tid th hth]
    intro L
    have hfr := sumT_set (holdL cfg L) s.threads tid th (exec cfg s.mem th).2 hth
    have hle := le_sumT (holdL cfg L) s.threads tid th hth
    have hL := h L
    have hloc := exec_holdL cfg s.mem th L (by omega)
    simp only
    omega

theorem lockInv_init (cfg : Cfg) (progs : List (List Cmd)) : LockInv cfg (init progs) := by
  intro L
  simp only [init]
  rw [sumT_eq_zero]
  · rfl
  · intro th hth
    simp only [List.mem_map] at hth
    obtain ⟨p, _, rfl⟩ := hth
    cases L <;> simp [holdL, heldHold, tasksHold, pcHoldL]

theorem lockInv_run (cfg : Cfg) (progs : List (List Cmd)) (sched : List Nat) :
    LockInv cfg (run cfg (init progs) sched) :=
  run_inv cfg (LockInv cfg) (fun s tid h => lockInv_step cfg s tid h) _ sched (lockInv_init cfg progs)

end CMacVerif.Atomics
