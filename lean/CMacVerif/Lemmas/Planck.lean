import CMacVerif.Model.Planck
import CMacVerif.Lemmas.Samplers
import Mathlib.Analysis.SpecialFunctions.Log.Base
/-!
# C18 — the tables built by the constructor of `PlanckPhotonSourceSpectrum` over ℝ

For every black-body temperature `T > 0` (and positive `h`, `k`): frequencies increase from 1 to 4,
every trapezoid increment is positive, so the cumulative table increases strictly from 0 to 1;
no increment exceeds 32 × the first one, so `cdf 1 ≥ 1/(32 (N-1))`, far above the `1e-10` floor
of the logarithmic table.  These are exactly the hypotheses of `planckSample_mem`.
-/
set_option linter.unusedSectionVars false
namespace CMacVerif.Planck
open CMacVerif CMacVerif.Locate

/-! ### the driver's linear-time tabulation equals the model's tables (any arithmetic) -/
section
variable {α : Type} [Add α] [Sub α] [Mul α] [Div α] [Neg α] [LT α] [LE α]
  [DecidableLT α] [DecidableLE α] [OfScientific α] [ArithFns α]

theorem pCumArr_size (ofNat : Nat → α) (hP kB T : α) (N i : Nat) : (pCumArr ofNat hP kB T N i).size = i + 1 := by
  induction i with
  | zero => rfl
  | succ i ih => simp [pCumArr, ih]

theorem pCumArr_getD (ofNat : Nat → α) (hP kB T : α) (N i j : Nat) (h : j ≤ i) :
    (pCumArr ofNat hP kB T N i).getD j 0.0 = pCum ofNat hP kB T N j := by
  induction i generalizing j with
  | zero =>
    have : j = 0 := by omega
    subst this; rfl
  | succ i ih =>
    have hs := pCumArr_size ofNat hP kB T N i
    by_cases hj : j ≤ i
    · have := ih j hj
      simp only [pCumArr]
      rw [← this]
      simp [Array.getD, Array.getElem_push, hs, Nat.lt_succ_of_le hj]
      intro h'; omega
    · have : j = i + 1 := by omega
      subst this
      simp only [pCumArr, pCum]
      rw [← ih i (Nat.le_refl i)]
      simp [Array.getD, Array.getElem_push, hs]

/-- the linear-time tables are the tables of the model, in every arithmetic -/
theorem pCdfFast_eq (ofNat : Nat → α) (hP kB T : α) (N i : Nat) (hi : i ≤ N - 1) :
    pCdfFast (pCumArr ofNat hP kB T N (N - 1)) N i = pCdf ofNat hP kB T N i := by
  unfold pCdfFast pCdf
  rw [pCumArr_getD ofNat hP kB T N (N - 1) i hi, pCumArr_getD ofNat hP kB T N (N - 1) (N - 1) (Nat.le_refl _)]

theorem pLogCdfFast_eq (ofNat : Nat → α) (hP kB T : α) (N i : Nat) (hi : i ≤ N - 1) :
    pLogCdfFast (pCumArr ofNat hP kB T N (N - 1)) N i = pLogCdf ofNat hP kB T N i := by
  unfold pLogCdfFast pLogCdf
  rw [pCdfFast_eq ofNat hP kB T N i hi]
end


/-- the loop counter as a real number -/
abbrev rc : ℕ → ℝ := fun n => (n : ℝ)

section
variable (hP kB T : ℝ) (N : ℕ)

theorem pFreq_eq (i : ℕ) : pFreq rc N i = 1 + (i : ℝ) * 3 / ((N : ℝ) - 1) := by
  unfold pFreq rc; norm_num

theorem pFreq_zero : pFreq rc N 0 = 1 := by rw [pFreq_eq]; simp

variable {N}

theorem pFreq_lt (hN : 2 ≤ N) {i j : ℕ} (h : i < j) : pFreq rc N i < pFreq rc N j := by
  rw [pFreq_eq, pFreq_eq]
  have hd : (0 : ℝ) < (N : ℝ) - 1 := by
    have : (2 : ℝ) ≤ N := by exact_mod_cast hN
    linarith
  have : (i : ℝ) < j := by exact_mod_cast h
  have : (i : ℝ) * 3 / ((N : ℝ) - 1) < (j : ℝ) * 3 / ((N : ℝ) - 1) :=
    div_lt_div_of_pos_right (by linarith) hd
  linarith

theorem pFreq_le (hN : 2 ≤ N) {i j : ℕ} (h : i ≤ j) : pFreq rc N i ≤ pFreq rc N j := by
  rcases Nat.lt_or_eq_of_le h with h | h
  · exact (pFreq_lt hN h).le
  · rw [h]

theorem pFreq_ge_one (hN : 2 ≤ N) (i : ℕ) : 1 ≤ pFreq rc N i := by
  rw [← pFreq_zero N]; exact pFreq_le hN (Nat.zero_le _)

theorem pFreq_last (hN : 2 ≤ N) : pFreq rc N (N - 1) = 4 := by
  rw [pFreq_eq]
  have h1 : ((N - 1 : ℕ) : ℝ) = (N : ℝ) - 1 := by
    rw [Nat.cast_sub (by omega)]; norm_num
  have hd : (N : ℝ) - 1 ≠ 0 := by
    have : (2 : ℝ) ≤ N := by exact_mod_cast hN
    linarith
  rw [h1]; field_simp; norm_num

theorem pFreq_le_four (hN : 2 ≤ N) {i : ℕ} (h : i ≤ N - 1) : pFreq rc N i ≤ 4 := by
  rw [← pFreq_last hN]; exact pFreq_le hN h

/-- frequency step of the table -/
theorem pFreq_step (_hN : 2 ≤ N) {i : ℕ} (hi : 1 ≤ i) :
    pFreq rc N i - pFreq rc N (i - 1) = 3 / ((N : ℝ) - 1) := by
  rw [pFreq_eq, pFreq_eq]
  have h1 : ((i - 1 : ℕ) : ℝ) = (i : ℝ) - 1 := by rw [Nat.cast_sub hi]; norm_num
  rw [h1]; ring

variable {hP kB T}

/-- `exp(h f ν_min / (k T)) - 1` -/
noncomputable def bose (hP kB T f : ℝ) : ℝ := Real.exp (hP * f * 3.289e15 / (kB * T)) - 1

theorem bose_pos (hh : 0 < hP) (hk : 0 < kB) (hT : 0 < T) {f : ℝ} (hf : 0 < f) : 0 < bose hP kB T f := by
  unfold bose
  have : 0 < hP * f * 3.289e15 / (kB * T) := by positivity
  linarith [Real.add_one_lt_exp this.ne']

theorem bose_mono (hh : 0 < hP) (hk : 0 < kB) (hT : 0 < T) {f g : ℝ} (hfg : f ≤ g) :
    bose hP kB T f ≤ bose hP kB T g := by
  unfold bose
  have : hP * f * 3.289e15 / (kB * T) ≤ hP * g * 3.289e15 / (kB * T) := by
    apply div_le_div_of_nonneg_right _ (by positivity)
    have : hP * f ≤ hP * g := mul_le_mul_of_nonneg_left hfg hh.le
    nlinarith
  linarith [Real.exp_le_exp.mpr this]

/-- photon-number density `L(f)/f` as the code computes it -/
theorem lum_div_eq {f : ℝ} (hf : 0 < f) : pLum hP kB T f / f = f * f / bose hP kB T f := by
  unfold pLum bose
  simp only [exp_real]
  have e1 : (1.0 : ℝ) = 1 := by norm_num
  rw [e1]
  field_simp

theorem lum_div_pos (hh : 0 < hP) (hk : 0 < kB) (hT : 0 < T) {f : ℝ} (hf : 0 < f) : 0 < pLum hP kB T f / f := by
  rw [lum_div_eq hf]; exact div_pos (mul_pos hf hf) (bose_pos hh hk hT hf)

theorem lum_div_le (hh : 0 < hP) (hk : 0 < kB) (hT : 0 < T) {f : ℝ} (h1 : 1 ≤ f) (h4 : f ≤ 4) :
    pLum hP kB T f / f ≤ 16 / bose hP kB T 1 := by
  rw [lum_div_eq (by linarith)]
  exact div_le_div₀ (by norm_num) (by nlinarith) (bose_pos hh hk hT one_pos) (bose_mono hh hk hT h1)

theorem lum_div_one : pLum hP kB T 1 / 1 = 1 / bose hP kB T 1 := by
  rw [lum_div_eq one_pos]; norm_num

theorem pInc_eq (i : ℕ) : pInc rc hP kB T N i =
    0.5 * (pLum hP kB T (pFreq rc N i) / pFreq rc N i + pLum hP kB T (pFreq rc N (i - 1)) / pFreq rc N (i - 1)) *
      (pFreq rc N i - pFreq rc N (i - 1)) := rfl

theorem step_pos (hN : 2 ≤ N) : (0 : ℝ) < 3 / ((N : ℝ) - 1) := by
  have : (2 : ℝ) ≤ N := by exact_mod_cast hN
  exact div_pos (by norm_num) (by linarith)

theorem pInc_pos (hh : 0 < hP) (hk : 0 < kB) (hT : 0 < T) (hN : 2 ≤ N) {i : ℕ} (hi : 1 ≤ i) :
    0 < pInc rc hP kB T N i := by
  rw [pInc_eq, pFreq_step hN hi]
  have a := lum_div_pos hh hk hT (lt_of_lt_of_le one_pos (pFreq_ge_one hN i))
  have b := lum_div_pos hh hk hT (lt_of_lt_of_le one_pos (pFreq_ge_one hN (i - 1)))
  have := step_pos hN
  have h05 : (0 : ℝ) < 0.5 := by norm_num
  positivity

theorem pInc_le (hh : 0 < hP) (hk : 0 < kB) (hT : 0 < T) (hN : 2 ≤ N) {i : ℕ} (hi : 1 ≤ i) (hiN : i ≤ N - 1) :
    pInc rc hP kB T N i ≤ 16 / bose hP kB T 1 * (3 / ((N : ℝ) - 1)) := by
  rw [pInc_eq, pFreq_step hN hi]
  have a := lum_div_le hh hk hT (pFreq_ge_one hN i) (pFreq_le_four hN hiN)
  have b := lum_div_le hh hk hT (pFreq_ge_one hN (i - 1)) (pFreq_le_four hN (by omega : i - 1 ≤ N - 1))
  have := step_pos hN
  have h05 : (0.5 : ℝ) = 1 / 2 := by norm_num
  rw [h05]
  nlinarith

theorem pInc_one_ge (hh : 0 < hP) (hk : 0 < kB) (hT : 0 < T) (hN : 2 ≤ N) :
    0.5 * (1 / bose hP kB T 1) * (3 / ((N : ℝ) - 1)) ≤ pInc rc hP kB T N 1 := by
  rw [pInc_eq, pFreq_step hN le_rfl]
  have a := lum_div_pos hh hk hT (lt_of_lt_of_le one_pos (pFreq_ge_one hN 1))
  have e : pFreq rc N (1 - 1) = 1 := pFreq_zero N
  rw [e, lum_div_one]
  have := step_pos hN
  have h05 : (0.5 : ℝ) = 1 / 2 := by norm_num
  rw [h05]
  nlinarith

/-- no increment exceeds 32 times the first one -/
theorem pInc_le_first (hh : 0 < hP) (hk : 0 < kB) (hT : 0 < T) (hN : 2 ≤ N) {i : ℕ} (hi : 1 ≤ i) (hiN : i ≤ N - 1) :
    pInc rc hP kB T N i ≤ 32 * pInc rc hP kB T N 1 := by
  have a := pInc_le hh hk hT hN hi hiN
  have b := pInc_one_ge hh hk hT hN
  have hb := bose_pos hh hk hT one_pos
  have e : 16 / bose hP kB T 1 * (3 / ((N : ℝ) - 1)) = 32 * (0.5 * (1 / bose hP kB T 1) * (3 / ((N : ℝ) - 1))) := by
    ring
  linarith

theorem pCum_zero : pCum rc hP kB T N 0 = 0 := by
  unfold pCum; norm_num

theorem pCum_succ (i : ℕ) : pCum rc hP kB T N (i + 1) = pCum rc hP kB T N i + pInc rc hP kB T N (i + 1) := rfl

theorem pCum_lt_succ (hh : 0 < hP) (hk : 0 < kB) (hT : 0 < T) (hN : 2 ≤ N) (i : ℕ) :
    pCum rc hP kB T N i < pCum rc hP kB T N (i + 1) := by
  rw [pCum_succ]; linarith [pInc_pos hh hk hT hN (Nat.le_add_left 1 i)]

theorem pCum_mono (hh : 0 < hP) (hk : 0 < kB) (hT : 0 < T) (hN : 2 ≤ N) {i j : ℕ} (h : i ≤ j) :
    pCum rc hP kB T N i ≤ pCum rc hP kB T N j := by
  induction j with
  | zero => rw [Nat.le_zero.mp h]
  | succ j ih =>
    rcases Nat.lt_or_eq_of_le h with h' | h'
    · exact le_trans (ih (by omega)) (pCum_lt_succ hh hk hT hN j).le
    · rw [h']

theorem pCum_strict (hh : 0 < hP) (hk : 0 < kB) (hT : 0 < T) (hN : 2 ≤ N) {i j : ℕ} (h : i < j) :
    pCum rc hP kB T N i < pCum rc hP kB T N j :=
  lt_of_lt_of_le (pCum_lt_succ hh hk hT hN i) (pCum_mono hh hk hT hN h)

theorem pCum_pos (hh : 0 < hP) (hk : 0 < kB) (hT : 0 < T) (hN : 2 ≤ N) {i : ℕ} (hi : 1 ≤ i) :
    0 < pCum rc hP kB T N i := by
  have := pCum_strict hh hk hT hN (show 0 < i by omega)
  rwa [pCum_zero] at this

theorem pCum_le (hh : 0 < hP) (hk : 0 < kB) (hT : 0 < T) (hN : 2 ≤ N) {i : ℕ} (hiN : i ≤ N - 1) :
    pCum rc hP kB T N i ≤ 32 * (i : ℝ) * pInc rc hP kB T N 1 := by
  induction i with
  | zero => rw [pCum_zero]; simp
  | succ i ih =>
    rw [pCum_succ]
    have a := ih (by omega)
    have b := pInc_le_first hh hk hT hN (Nat.le_add_left 1 i) hiN
    push_cast
    linarith

/-! ### the normalised tables -/

theorem pCdf_zero : pCdf rc hP kB T N 0 = 0 := by
  unfold pCdf; simp; norm_num

theorem pCdf_of_pos {i : ℕ} (hi : 1 ≤ i) :
    pCdf rc hP kB T N i = pCum rc hP kB T N i / pCum rc hP kB T N (N - 1) := by
  unfold pCdf; rw [if_neg (by omega)]

theorem pCdf_last (hh : 0 < hP) (hk : 0 < kB) (hT : 0 < T) (hN : 2 ≤ N) : pCdf rc hP kB T N (N - 1) = 1 := by
  rw [pCdf_of_pos (by omega)]
  exact div_self (pCum_pos hh hk hT hN (by omega)).ne'

theorem pCdf_pos (hh : 0 < hP) (hk : 0 < kB) (hT : 0 < T) (hN : 2 ≤ N) {i : ℕ} (hi : 1 ≤ i) :
    0 < pCdf rc hP kB T N i := by
  rw [pCdf_of_pos hi]
  exact div_pos (pCum_pos hh hk hT hN hi) (pCum_pos hh hk hT hN (by omega))

theorem pCdf_mono (hh : 0 < hP) (hk : 0 < kB) (hT : 0 < T) (hN : 2 ≤ N) {i j : ℕ} (h : i ≤ j) :
    pCdf rc hP kB T N i ≤ pCdf rc hP kB T N j := by
  by_cases hi : i = 0
  · subst hi
    rw [pCdf_zero]
    by_cases hj : j = 0
    · subst hj; rw [pCdf_zero]
    · exact (pCdf_pos hh hk hT hN (by omega)).le
  · rw [pCdf_of_pos (by omega), pCdf_of_pos (by omega)]
    exact div_le_div_of_nonneg_right (pCum_mono hh hk hT hN h) (pCum_pos hh hk hT hN (by omega)).le

/-- the first bin holds at least `1 / (32 (N-1))` of the photons, whatever the temperature -/
theorem pCdf_one_ge (hh : 0 < hP) (hk : 0 < kB) (hT : 0 < T) (hN : 2 ≤ N) :
    1 / (32 * ((N : ℝ) - 1)) ≤ pCdf rc hP kB T N 1 := by
  rw [pCdf_of_pos le_rfl]
  have h1 : pCum rc hP kB T N 1 = pInc rc hP kB T N 1 := by rw [pCum_succ, pCum_zero, zero_add]
  have tot := pCum_le hh hk hT hN (le_refl (N - 1))
  have hc : ((N - 1 : ℕ) : ℝ) = (N : ℝ) - 1 := by rw [Nat.cast_sub (by omega)]; norm_num
  rw [hc] at tot
  have p1 := pInc_pos hh hk hT hN (le_refl 1)
  have ptot := pCum_pos hh hk hT hN (show 1 ≤ N - 1 by omega)
  have hd : (0 : ℝ) < (N : ℝ) - 1 := by
    have : (2 : ℝ) ≤ N := by exact_mod_cast hN
    linarith
  rw [h1, div_le_div_iff₀ (by positivity) ptot]
  nlinarith

theorem pLogFreq_zero : pLogFreq rc N 0 = 0 := by
  unfold pLogFreq; simp; norm_num

theorem pLogFreq_of_pos {i : ℕ} (hi : 1 ≤ i) : pLogFreq rc N i = Real.log (pFreq rc N i) / Real.log 10 := by
  unfold pLogFreq; rw [if_neg (by omega)]; rfl

theorem pLogFreq_mono (hN : 2 ≤ N) {i j : ℕ} (h : i ≤ j) : pLogFreq rc N i ≤ pLogFreq rc N j := by
  have l10 : 0 < Real.log 10 := Real.log_pos (by norm_num)
  by_cases hj : j = 0
  · have : i = 0 := by omega
    subst hj; subst this; exact le_rfl
  · rw [pLogFreq_of_pos (show 1 ≤ j by omega)]
    by_cases hi : i = 0
    · subst hi
      rw [pLogFreq_zero]
      exact div_nonneg (Real.log_nonneg (pFreq_ge_one hN j)) l10.le
    · rw [pLogFreq_of_pos (show 1 ≤ i by omega)]
      exact log10_le (lt_of_lt_of_le one_pos (pFreq_ge_one hN i)) (pFreq_le hN h)

theorem pLogFreq_last (hN : 2 ≤ N) : (10 : ℝ) ^ pLogFreq rc N (N - 1) = 4 := by
  rw [pLogFreq_of_pos (by omega), pFreq_last hN]
  have : Real.log 4 / Real.log 10 = Real.logb 10 4 := rfl
  rw [this, Real.rpow_logb (by norm_num) (by norm_num) (by norm_num)]

theorem pLogCdf_zero : pLogCdf rc hP kB T N 0 = -10 := by
  unfold pLogCdf; simp; norm_num

theorem pLogCdf_of_pos {i : ℕ} (hi : 1 ≤ i) :
    pLogCdf rc hP kB T N i = Real.log (pCdf rc hP kB T N i) / Real.log 10 := by
  unfold pLogCdf; rw [if_neg (by omega)]; rfl

/-- `log₁₀ x > -10` for `x > 1e-10` -/
theorem neg_ten_lt_log10 {x : ℝ} (hx : (1e-10 : ℝ) < x) : -10 < Real.log x / Real.log 10 := by
  have l10 : 0 < Real.log 10 := Real.log_pos (by norm_num)
  rw [lt_div_iff₀ l10]
  have e : (1e-10 : ℝ) = ((10 : ℝ) ^ 10)⁻¹ := by norm_num
  have h : Real.log (1e-10 : ℝ) = -10 * Real.log 10 := by
    rw [e, Real.log_inv, Real.log_pow]; push_cast; ring
  rw [← h]
  exact Real.log_lt_log (by norm_num) hx

theorem neg_ten_le_log10 {x : ℝ} (hx : (1e-10 : ℝ) ≤ x) : -10 ≤ Real.log x / Real.log 10 := by
  rcases lt_or_eq_of_le hx with h | h
  · exact (neg_ten_lt_log10 h).le
  · have l10 : 0 < Real.log 10 := Real.log_pos (by norm_num)
    rw [← h, le_div_iff₀ l10]
    have e : (1e-10 : ℝ) = ((10 : ℝ) ^ 10)⁻¹ := by norm_num
    rw [e, Real.log_inv, Real.log_pow]; push_cast; linarith

/-- the floor of the logarithmic table lies below its second entry -/
theorem pLogCdf_first (hh : 0 < hP) (hk : 0 < kB) (hT : 0 < T) (hN : 2 ≤ N) (hNb : N ≤ 100000000) :
    pLogCdf rc hP kB T N 0 < pLogCdf rc hP kB T N 1 := by
  rw [pLogCdf_zero, pLogCdf_of_pos le_rfl]
  apply neg_ten_lt_log10
  refine lt_of_lt_of_le ?_ (pCdf_one_ge hh hk hT hN)
  have h2 : (2 : ℝ) ≤ N := by exact_mod_cast hN
  have hb : (N : ℝ) ≤ 100000000 := by exact_mod_cast hNb
  rw [lt_div_iff₀ (by linarith)]
  norm_num
  nlinarith

end
end CMacVerif.Planck
