import CMacVerif.Model.Verner
import CMacVerif.Inst.Real
import CMacVerif.Lemmas.Samplers
import Mathlib.Tactic.SplitIfs
import Mathlib.Tactic.NormNum
import Mathlib.Tactic.Positivity
import Mathlib.Tactic.Ring
import Mathlib.Tactic.FieldSimp
/-!
# C18 — lemmas about the Verner cross-section model over ℝ
-/
namespace CMacVerif.Verner
open CMacVerif CMacVerif.Gen.Verner CMacVerif.Locate

theorem zero_lit : (0.0 : ℝ) = 0 := by norm_num
theorem one_lit : (1.0 : ℝ) = 1 := by norm_num

theorem eVtoHz_pos : 0 < (eVtoHz : ℝ) := by
  unfold eVtoHz electronvolt planck; norm_num

/-- what the proofs need of a data row: thresholds, energy scales and `y_a` positive, `σ₀ ≥ 0`
(and, not needed by the proofs but part of the published parameter ranges: `P > 0`, `y_w ≥ 0`) -/
def RowAWF (a : RawA ℝ) : Prop := 0 < a.E_th ∧ 0 < a.E_0 ∧ 0 ≤ a.sigma_0 ∧ 0 < a.y_a ∧ 0 < a.P ∧ 0 ≤ a.y_w
def RowBWF (b : RawB ℝ) : Prop := 0 < b.E_0 ∧ 0 ≤ b.sigma_0 ∧ 0 < b.y_a ∧ 0 < b.P

/-- well-formedness of the rows one `get_cross_section_verner(nz, ne, is, ·)` call reads -/
def ShellWF (nz ne is : ℕ) : Prop := RowAWF (dataA nz ne is) ∧ RowBWF (dataB nz ne)

/-- threshold frequency (Hz) of a shell as the constructor stores it -/
noncomputable def shellThreshold (nz ne is : ℕ) : ℝ := (prepA (dataA (α := ℝ) nz ne is)).E_th

theorem shellThreshold_pos {nz ne is : ℕ} (h : RowAWF (dataA nz ne is)) : 0 < shellThreshold nz ne is := by
  unfold shellThreshold prepA; exact mul_pos h.1 eVtoHz_pos

theorem xsBranch_below_iff (nz ne is : ℕ) (e : ℝ) :
    xsBranch nz ne is e = .below ↔ e < shellThreshold nz ne is := by
  unfold xsBranch shellThreshold
  split_ifs <;> simp [*]

theorem csv_below (nz ne is : ℕ) (e : ℝ) (h : e < shellThreshold nz ne is) :
    crossSectionVerner nz ne is e = 0 := by
  unfold crossSectionVerner
  rw [(xsBranch_below_iff nz ne is e).mpr h]
  exact zero_lit

theorem fitA_nonneg (r : RawA ℝ) (e : ℝ) (hs : 0 ≤ r.sigma_0) (hE : 0 < r.E_0) (he : 0 ≤ e) :
    0 ≤ fitA (prepA r) e := by
  unfold fitA prepA
  simp only [pow_real, sqrt_real, one_lit]
  have hy : 0 ≤ e * (1 / (r.E_0 * eVtoHz)) := mul_nonneg he (by have := eVtoHz_pos; positivity)
  have h22 : (0 : ℝ) ≤ 1.0e-22 := by norm_num
  exact mul_nonneg (mul_nonneg h22 hs)
    (mul_nonneg (mul_nonneg (add_nonneg (mul_self_nonneg _) (mul_self_nonneg _)) (Real.rpow_nonneg hy _))
      (Real.rpow_nonneg (add_nonneg zero_le_one (Real.sqrt_nonneg _)) _))

theorem fitB_nonneg (r : RawB ℝ) (e : ℝ) (hs : 0 ≤ r.sigma_0) : 0 ≤ fitB (prepB r) e := by
  unfold fitB prepB
  simp only [pow_real, sqrt_real, one_lit]
  have h22 : (0 : ℝ) ≤ 1.0e-22 := by norm_num
  exact mul_nonneg (mul_nonneg h22 hs)
    (mul_nonneg (mul_nonneg (add_nonneg (mul_self_nonneg _) (mul_self_nonneg _)) (Real.rpow_nonneg (Real.sqrt_nonneg _) _))
      (Real.rpow_nonneg (add_nonneg zero_le_one (Real.sqrt_nonneg _)) _))

theorem csv_nonneg (nz ne is : ℕ) (e : ℝ) (h : ShellWF nz ne is) : 0 ≤ crossSectionVerner nz ne is e := by
  by_cases hb : e < shellThreshold nz ne is
  · rw [csv_below nz ne is e hb]
  · have he : 0 ≤ e := le_trans (shellThreshold_pos h.1).le (not_lt.mp hb)
    unfold crossSectionVerner
    cases xsBranch nz ne is e with
    | below => simp only; rw [zero_lit]
    | gtNout => simp only; rw [zero_lit]
    | gap => simp only; rw [zero_lit]
    | fitA => simp only; exact fitA_nonneg _ e h.1.2.2.1 h.1.2.1 he
    | fitB => simp only; exact fitB_nonneg _ e h.2.2.1

/-- `a + b + …` from the left is the sum -/
theorem foldl_add_eq (xs : List ℝ) (x : ℝ) : xs.foldl (· + ·) x = x + xs.sum := by
  induction xs generalizing x with
  | nil => simp
  | cons y ys ih => simp [List.foldl, ih, add_assoc]

theorem sumLeft_eq_sum (l : List ℝ) : sumLeft l = l.sum := by
  cases l with
  | nil => simp [sumLeft, zero_lit]
  | cons x xs => simp [sumLeft, foldl_add_eq]

/-- every shell a tracked ion sums over is in the generated list of used shells -/
theorem ionShells_subset (ion : Ion) : ∀ s ∈ ionShellsSpec ion, s ∈ usedShellsSpec := by
  cases ion <;> decide

/-! ## the published fitting formulae, written out -/

/-- Verner & Yakovlev (1995), eq. (1):  σ(E) = σ₀ F(E/E₀) Mb,
`F(y) = [(y-1)² + y_w²] · y^(0.5 P - 5.5 - l) · (1 + √(y / y_a))^(-P)`; `E` in eV, result in m² -/
noncomputable def publishedA (r : RawA ℝ) (E : ℝ) : ℝ :=
  r.sigma_0 * 1e-22 *
    ((((E / r.E_0) - 1) ^ 2 + r.y_w ^ 2) * (E / r.E_0) ^ (0.5 * r.P - 5.5 - r.l) *
      (1 + Real.sqrt ((E / r.E_0) / r.y_a)) ^ (-r.P))

/-- Verner, Ferland, Korista & Yakovlev (1996), eq. (1):  σ(E) = σ₀ F(y) Mb, `x = E/E₀ - y₀`,
`y = √(x² + y₁²)`, `F(y) = [(x-1)² + y_w²] · y^(0.5 P - 5.5) · (1 + √(y / y_a))^(-P)` -/
noncomputable def publishedB (r : RawB ℝ) (E : ℝ) : ℝ :=
  r.sigma_0 * 1e-22 *
    ((((E / r.E_0 - r.y_0) - 1) ^ 2 + r.y_w ^ 2) *
      (Real.sqrt ((E / r.E_0 - r.y_0) ^ 2 + r.y_1 ^ 2)) ^ (0.5 * r.P - 5.5) *
      (1 + Real.sqrt (Real.sqrt ((E / r.E_0 - r.y_0) ^ 2 + r.y_1 ^ 2) / r.y_a)) ^ (-r.P))

theorem scaled_energy (e E0 : ℝ) : e * (1.0 / (E0 * (eVtoHz : ℝ))) = e / eVtoHz / E0 := by
  rw [one_lit, mul_one_div, div_div, mul_comm]

theorem fitA_eq_published (r : RawA ℝ) (e : ℝ) : fitA (prepA r) e = publishedA r (e / eVtoHz) := by
  unfold fitA prepA publishedA
  simp only [pow_real, sqrt_real, scaled_energy]
  rw [one_lit, mul_one_div]
  ring_nf

theorem fitB_eq_published (r : RawB ℝ) (e : ℝ) : fitB (prepB r) e = publishedB r (e / eVtoHz) := by
  unfold fitB prepB publishedB
  simp only [pow_real, sqrt_real, scaled_energy]
  rw [one_lit, mul_one_div]
  ring_nf

end CMacVerif.Verner
