import CMacVerif.Lemmas.AMRTravLoop
/-! The neighbour pointers built by `set_ngbs` are geometric (C16): for every cell and every face
the stored neighbour is a cell of the same or a coarser level (coarser only if it is a leaf)
whose near wall is the wall of the cell (modulo one box length across a periodic boundary) and
which covers that wall.  This discharges the hypothesis `NgbGeo` of the traversal lemmas. -/
set_option linter.unusedSimpArgs false
set_option linter.unusedVariables false
namespace CMacVerif.AMRT
open CMacVerif.GridNum CMacVerif.AMR

/-! ### boxes of children, axis by axis -/

theorem childBit_le (c a : Nat) : childBit c a ≤ 1 := by
  unfold childBit; split_ifs <;> omega

theorem childBit_setBit (c a b a' : Nat) (ha : a < 3) (ha' : a' < 3) (hb : b ≤ 1) :
    childBit (setBit c a b) a' = if a' = a then b else childBit c a' := by
  have h1 : a = 0 ∨ a = 1 ∨ a = 2 := by omega
  have h2 : a' = 0 ∨ a' = 1 ∨ a' = 2 := by omega
  rcases h1 with rfl | rfl | rfl <;> rcases h2 with rfl | rfl | rfl <;> simp [childBit, setBit] <;> omega

theorem child_box_axis (B : Box3 ℝ) (c a : Nat) (ha : a < 3) :
    blo (childBox B (c / 4 % 2) (c / 2 % 2) (c % 2)) a = blo B a + (childBit c a : ℝ) * (bsd B a * 0.5) ∧
    bsd (childBox B (c / 4 % 2) (c / 2 % 2) (c % 2)) a = bsd B a * 0.5 := by
  have h1 : a = 0 ∨ a = 1 ∨ a = 2 := by omega
  rcases h1 with rfl | rfl | rfl <;> simp [blo, bsd, childBox, childBit, ofNat_real]

theorem snoc_box_axis (G : AGrid ℝ) (r : Ref) (c a : Nat) (ha : a < 3) :
    blo (refBox G (r.snoc c)) a = blo (refBox G r) a + (childBit c a : ℝ) * (bsd (refBox G r) a * 0.5) ∧
    bsd (refBox G (r.snoc c)) a = bsd (refBox G r) a * 0.5 := by
  rw [refBox_snoc]; exact child_box_axis _ c a ha

theorem snoc_len (r : Ref) (c : Nat) : (r.snoc c).path.length = r.path.length + 1 := by
  simp [Ref.snoc]

/-! ### the relation kept by `set_ngbs` -/

structure NRel (G : AGrid ℝ) (cur n : Ref) (f : Face) : Prop where
  valid : ∃ t, cellAt G.g n = some t
  ingrid : InGrid G n
  lvl : n.path.length ≤ cur.path.length
  coarse : n.path.length < cur.path.length → cellAt G.g n = some .leaf
  rel : FaceRel G (refBox G cur) (refBox G n) f.axis f.up
  same : n.path.length = cur.path.length → ∀ a, a < 3 →
    bsd (refBox G n) a = bsd (refBox G cur) a ∧ (a ≠ f.axis → blo (refBox G n) a = blo (refBox G cur) a)

theorem face_axis_lt (f : Face) : f.axis < 3 := by cases f <;> simp [Face.axis]

/-- one level of `AMRGridCell::set_ngbs` -/
theorem childNgb_rel (G : AGrid ℝ) (cur : Ref) (ch : Fin 8 → Tree) (hcur : cellAt G.g cur = some (.node ch)) (hcg : InGrid G cur)
    (hB : PosB (refBox G cur)) (pn : Face → Option Ref) (hpn : ∀ f n, pn f = some n → NRel G cur n f)
    (c : Nat) (f : Face) (n : Ref) (h : childNgb G.g cur pn c f = some n) : NRel G (cur.snoc c) n f := by
  have ha := face_axis_lt f
  set a := f.axis with haeq
  set b := childBit c a with hb
  have hb1 : b ≤ 1 := childBit_le c a
  have hsd : ∀ a', a' < 3 → 0 < bsd (refBox G cur) a' := hB
  unfold childNgb at h
  simp only [← haeq, ← hb] at h
  by_cases hsib : (b = 0 ∧ f.up = true) ∨ (b = 1 ∧ f.up = false)
  · -- the sibling inside the parent
    rw [if_pos hsib] at h
    simp only [Option.some.injEq] at h
    subst h
    have hbit : ∀ a', a' < 3 → childBit (setBit c a (1 - b)) a' = if a' = a then 1 - b else childBit c a' :=
      fun a' ha' => childBit_setBit c a (1 - b) a' ha ha' (by omega)
    refine ⟨⟨_, cellAt_snoc G cur _ ch hcur⟩, hcg, by rw [snoc_len, snoc_len], fun hlt => by rw [snoc_len, snoc_len] at hlt; omega,
      ?_, ?_⟩
    · refine ⟨0, Or.inl rfl, ?_, ?_, ?_⟩
      · intro hup
        obtain ⟨e1, e2⟩ := snoc_box_axis G cur (setBit c a (1 - b)) a ha
        obtain ⟨e3, e4⟩ := snoc_box_axis G cur c a ha
        rw [e1, e3, e4, hbit a ha, if_pos rfl]
        have hb0 : b = 0 := by rcases hsib with ⟨h0, _⟩ | ⟨_, h1⟩; exact h0; rw [hup] at h1; simp at h1
        rw [← hb, hb0]; norm_num
      · intro hup
        obtain ⟨e1, e2⟩ := snoc_box_axis G cur (setBit c a (1 - b)) a ha
        obtain ⟨e3, e4⟩ := snoc_box_axis G cur c a ha
        rw [e1, e2, e3, hbit a ha, if_pos rfl]
        have hb0 : b = 1 := by rcases hsib with ⟨_, h0⟩ | ⟨h1, _⟩; rw [hup] at h0; simp at h0; exact h1
        rw [← hb, hb0]; norm_num
      · intro a' ha' hne
        obtain ⟨e1, e2⟩ := snoc_box_axis G cur (setBit c a (1 - b)) a' ha'
        obtain ⟨e3, e4⟩ := snoc_box_axis G cur c a' ha'
        rw [e1, e2, e3, e4, hbit a' ha', if_neg hne]
        exact ⟨le_refl _, le_refl _⟩
    · intro _ a' ha'
      obtain ⟨e1, e2⟩ := snoc_box_axis G cur (setBit c a (1 - b)) a' ha'
      obtain ⟨e3, e4⟩ := snoc_box_axis G cur c a' ha'
      refine ⟨by rw [e2, e4], fun hne => ?_⟩
      rw [e1, e3, hbit a' ha', if_neg hne]
  · -- across the parent's wall: the parent's neighbour or its mirrored child
    rw [if_neg hsib] at h
    have hside : (b = 1 ∧ f.up = true) ∨ (b = 0 ∧ f.up = false) := by
      have : b = 0 ∨ b = 1 := by omega
      cases hu : f.up <;> rcases this with h0 | h0 <;> simp [h0, hu] at hsib ⊢
    cases hp : pn f with
    | none => rw [hp] at h; simp at h
    | some n0 =>
      rw [hp] at h
      simp only at h
      obtain ⟨⟨t0, ht0⟩, hn0g, hlvl, hcoarse, ⟨σ, hσ, r1, r2, rcov⟩, hsame⟩ := hpn f n0 hp
      simp only [← haeq] at r1 r2 rcov hσ hsame
      -- the child's wall on the axis is the parent's wall
      obtain ⟨c1, c2⟩ := snoc_box_axis G cur c a ha
      have hwall_up : f.up = true → blo (refBox G (cur.snoc c)) a + bsd (refBox G (cur.snoc c)) a
          = blo (refBox G cur) a + bsd (refBox G cur) a := by
        intro hu
        have hb0 : b = 1 := by rcases hside with ⟨h0, _⟩ | ⟨_, h1⟩; exact h0; rw [hu] at h1; simp at h1
        rw [c1, c2, ← hb, hb0]; norm_num; ring
      have hwall_dn : f.up = false → blo (refBox G (cur.snoc c)) a = blo (refBox G cur) a := by
        intro hu
        have hb0 : b = 0 := by rcases hside with ⟨_, h0⟩ | ⟨h1, _⟩; rw [hu] at h0; simp at h0; exact h1
        rw [c1, ← hb, hb0]; norm_num
      -- the child lies inside the parent on the other axes
      have hinside : ∀ a', a' < 3 → blo (refBox G cur) a' ≤ blo (refBox G (cur.snoc c)) a' ∧
          blo (refBox G (cur.snoc c)) a' + bsd (refBox G (cur.snoc c)) a' ≤ blo (refBox G cur) a' + bsd (refBox G cur) a' := by
        intro a' ha'
        obtain ⟨e1, e2⟩ := snoc_box_axis G cur c a' ha'
        have hs := hsd a' ha'
        have hbit : childBit c a' = 0 ∨ childBit c a' = 1 := by have := childBit_le c a'; omega
        rw [e1, e2]
        rcases hbit with h0 | h0 <;> rw [h0] <;> refine ⟨?_, ?_⟩ <;> norm_num <;> try linarith
      by_cases hsingle : isSingle G.g n0 = true
      · rw [if_pos hsingle] at h
        simp only [Option.some.injEq] at h
        subst h
        have hleaf : cellAt G.g n0 = some .leaf := by
          unfold isSingle at hsingle
          rw [ht0] at hsingle ⊢
          cases t0 with
          | leaf => rfl
          | node _ => simp at hsingle
        refine ⟨⟨_, ht0⟩, hn0g, by rw [snoc_len]; omega, fun _ => hleaf, ?_, fun heq => by rw [snoc_len] at heq; omega⟩
        refine ⟨σ, hσ, ?_, ?_, ?_⟩
        · intro hu; rw [r1 hu, ← hwall_up hu]
        · intro hu; rw [r2 hu, hwall_dn hu]
        · intro a' ha' hne
          obtain ⟨q1, q2⟩ := rcov a' ha' hne
          obtain ⟨i1, i2⟩ := hinside a' ha'
          exact ⟨le_trans q1 i1, le_trans i2 q2⟩
      · rw [if_neg hsingle] at h
        simp only [Option.some.injEq] at h
        subst h
        -- not a single cell: same level as the parent, and it has children
        have hnode : ∃ ch0, cellAt G.g n0 = some (.node ch0) := by
          unfold isSingle at hsingle
          rw [ht0] at hsingle
          cases t0 with
          | leaf => simp at hsingle
          | node ch0 => exact ⟨ch0, ht0⟩
        obtain ⟨ch0, hch0⟩ := hnode
        have hlev : n0.path.length = cur.path.length := by
          rcases Nat.lt_or_ge n0.path.length cur.path.length with hlt | hge
          · have := hcoarse hlt; rw [hch0] at this; simp at this
          · omega
        have hsm := hsame hlev
        have hbit : ∀ a', a' < 3 → childBit (setBit c a (1 - b)) a' = if a' = a then 1 - b else childBit c a' :=
          fun a' ha' => childBit_setBit c a (1 - b) a' ha ha' (by omega)
        refine ⟨⟨_, cellAt_snoc G n0 _ ch0 hch0⟩, hn0g, by rw [snoc_len, snoc_len]; omega,
          fun hlt => by rw [snoc_len, snoc_len] at hlt; omega, ?_, ?_⟩
        · refine ⟨σ, hσ, ?_, ?_, ?_⟩
          · intro hu
            obtain ⟨e1, e2⟩ := snoc_box_axis G n0 (setBit c a (1 - b)) a ha
            have hb0 : b = 1 := by rcases hside with ⟨h0, _⟩ | ⟨_, h1⟩; exact h0; rw [hu] at h1; simp at h1
            rw [e1, hbit a ha, if_pos rfl, hb0, r1 hu, hwall_up hu]; norm_num
          · intro hu
            obtain ⟨e1, e2⟩ := snoc_box_axis G n0 (setBit c a (1 - b)) a ha
            have hb0 : b = 0 := by rcases hside with ⟨_, h0⟩ | ⟨h1, _⟩; rw [hu] at h0; simp at h0; exact h1
            have := r2 hu
            rw [e1, e2, hbit a ha, if_pos rfl, hb0, hwall_dn hu]; norm_num; linarith
          · intro a' ha' hne
            obtain ⟨e1, e2⟩ := snoc_box_axis G n0 (setBit c a (1 - b)) a' ha'
            obtain ⟨e3, e4⟩ := snoc_box_axis G cur c a' ha'
            obtain ⟨s1, s2⟩ := hsm a' ha'
            rw [e1, e2, e3, e4, hbit a' ha', if_neg hne, s1, s2 hne]
            exact ⟨le_refl _, le_refl _⟩
        · intro _ a' ha'
          obtain ⟨e1, e2⟩ := snoc_box_axis G n0 (setBit c a (1 - b)) a' ha'
          obtain ⟨e3, e4⟩ := snoc_box_axis G cur c a' ha'
          obtain ⟨s1, s2⟩ := hsm a' ha'
          refine ⟨by rw [e2, e4, s1], fun hne => ?_⟩
          rw [e1, e3, hbit a' ha', if_neg hne, s1, s2 hne]

/-! ### along the path, and the top level -/

theorem treeAt_nil (t : Tree) : treeAt t [] = some t := by cases t <;> rfl

theorem treeAt_prefix_node (t : Tree) : ∀ (π : List Nat) (c : Nat) (rest : List Nat) (s : Tree),
    treeAt t (π ++ c :: rest) = some s → ∃ ch, treeAt t π = some (.node ch) := by
  induction t with
  | leaf =>
    intro π c rest s h
    cases π with
    | nil => simp [treeAt] at h
    | cons i r => simp [treeAt] at h
  | node ch ih =>
    intro π c rest s h
    cases π with
    | nil => exact ⟨ch, rfl⟩
    | cons i r => simp only [List.cons_append, treeAt] at h ⊢; exact ih _ r c rest s h

theorem posB_refBox (G : AGrid ℝ) (hb : PosBox G.box) (hx : 0 < G.g.nx) (hy : 0 < G.g.ny) (hz : 0 < G.g.nz)
    (r : Ref) : PosB (refBox G r) := by
  have hbx : (0 : ℝ) < G.g.nx := by exact_mod_cast hx
  have hby : (0 : ℝ) < G.g.ny := by exact_mod_cast hy
  have hbz : (0 : ℝ) < G.g.nz := by exact_mod_cast hz
  apply posB_boxOfPath
  intro a ha
  have ha' : a = 0 ∨ a = 1 ∨ a = 2 := by omega
  rcases ha' with rfl | rfl | rfl <;> simp [bsd, blockBox, ofNat_real]
  · exact div_pos hb.1 hbx
  · exact div_pos hb.2.1 hby
  · exact div_pos hb.2.2 hbz

theorem ngbsAlong_rel (G : AGrid ℝ) (hb : PosBox G.box) (hx : 0 < G.g.nx) (hy : 0 < G.g.ny) (hz : 0 < G.g.nz) :
    ∀ (path : List Nat) (cur : Ref) (pn : Face → Option Ref),
      (∃ s, cellAt G.g ⟨cur.bx, cur.by', cur.bz, cur.path ++ path⟩ = some s) → InGrid G cur →
      (∀ f n, pn f = some n → NRel G cur n f) →
      ∀ f n, ngbsAlong G.g path cur pn f = some n → NRel G ⟨cur.bx, cur.by', cur.bz, cur.path ++ path⟩ n f := by
  intro path
  induction path with
  | nil =>
    intro cur pn _ _ hpn f n h
    simp only [ngbsAlong] at h
    have e : (⟨cur.bx, cur.by', cur.bz, cur.path ++ []⟩ : Ref) = cur := by cases cur; simp
    rw [e]; exact hpn f n h
  | cons c rest ih =>
    intro cur pn hvalid hcg hpn f n h
    obtain ⟨s, hs⟩ := hvalid
    obtain ⟨ch, hch⟩ := treeAt_prefix_node _ cur.path c rest s hs
    have hcur : cellAt G.g cur = some (.node ch) := hch
    simp only [ngbsAlong] at h
    have e : (⟨cur.bx, cur.by', cur.bz, cur.path ++ c :: rest⟩ : Ref)
        = ⟨(cur.snoc c).bx, (cur.snoc c).by', (cur.snoc c).bz, (cur.snoc c).path ++ rest⟩ := by
      simp [Ref.snoc]
    rw [e]
    refine ih (cur.snoc c) _ ⟨s, by rw [← e]; exact hs⟩ hcg ?_ f n h
    intro f' n' h'
    exact childNgb_rel G cur ch hcur hcg (posB_refBox G hb hx hy hz cur) pn hpn c f' n' h'

theorem blockBox_axis (G : AGrid ℝ) (i j k : Nat) (a : Nat) (ha : a < 3) :
    blo (blockBox G.g G.box i j k) a = blo G.box a + ((if a = 0 then i else if a = 1 then j else k : Nat) : ℝ)
        * (bsd G.box a / ((if a = 0 then G.g.nx else if a = 1 then G.g.ny else G.g.nz : Nat) : ℝ)) ∧
    bsd (blockBox G.g G.box i j k) a = bsd G.box a / ((if a = 0 then G.g.nx else if a = 1 then G.g.ny else G.g.nz : Nat) : ℝ) := by
  have ha' : a = 0 ∨ a = 1 ∨ a = 2 := by omega
  rcases ha' with rfl | rfl | rfl <;> simp [blo, bsd, blockBox, ofNat_real]

theorem faceRel_of (G : AGrid ℝ) (B M : Box3 ℝ) (a : Nat) (ha : a < 3) (up : Bool) (σ : ℝ) (hσ : ShiftOK G a up σ)
    (hsd : ∀ a', a' < 3 → bsd M a' = bsd B a') (hlo : ∀ a', a' < 3 → a' ≠ a → blo M a' = blo B a')
    (hax : blo M a = blo B a + (if up = true then bsd B a else -bsd B a) + σ) : FaceRel G B M a up := by
  refine ⟨σ, hσ, fun hu => ?_, fun hu => ?_, fun a' ha' hne => ?_⟩
  · rw [hax, if_pos hu]
  · have : up ≠ true := by rw [hu]; simp
    rw [hax, if_neg this, hsd a ha]; ring
  · rw [hlo a' ha' hne, hsd a' ha']; exact ⟨le_refl _, le_refl _⟩

/-- `AMRGrid::set_ngbs`: the neighbours of the top level blocks -/
theorem topNgb_rel (G : AGrid ℝ) (hx : 0 < G.g.nx) (hy : 0 < G.g.ny) (hz : 0 < G.g.nz)
    (bx by' bz : Nat) (hbx : bx < G.g.nx) (hby : by' < G.g.ny) (hbz : bz < G.g.nz) (f : Face) (n : Ref)
    (h : topNgb G.g G.px G.py G.pz bx by' bz f = some n) : NRel G ⟨bx, by', bz, []⟩ n f := by
  have hnx : (G.g.nx : ℝ) ≠ 0 := by exact_mod_cast hx.ne'
  have hny : (G.g.ny : ℝ) ≠ 0 := by exact_mod_cast hy.ne'
  have hnz : (G.g.nz : ℝ) ≠ 0 := by exact_mod_cast hz.ne'
  have mk : ∀ (m : Ref), m.path = [] → InGrid G m → FaceRel G (refBox G ⟨bx, by', bz, []⟩) (refBox G m) f.axis f.up →
      (∀ a, a < 3 → bsd (refBox G m) a = bsd (refBox G ⟨bx, by', bz, []⟩) a ∧
        (a ≠ f.axis → blo (refBox G m) a = blo (refBox G ⟨bx, by', bz, []⟩) a)) → NRel G ⟨bx, by', bz, []⟩ m f := by
    intro m hm hmg hrel hsame
    refine ⟨⟨_, by unfold cellAt; rw [hm]; exact treeAt_nil _⟩, hmg, by rw [hm], fun hlt => by rw [hm] at hlt; simp at hlt, hrel,
      fun _ => hsame⟩
  -- a block that differs from this one along one axis only
  have blk : ∀ (i j k : Nat) (a : Nat) (up : Bool) (σ : ℝ), InGrid G ⟨i, j, k, []⟩ → a < 3 → ShiftOK G a up σ →
      (∀ a', a' < 3 → a' ≠ a → blo (blockBox G.g G.box i j k) a' = blo (blockBox G.g G.box bx by' bz) a') →
      blo (blockBox G.g G.box i j k) a = blo (blockBox G.g G.box bx by' bz) a
        + (if up = true then bsd (blockBox G.g G.box bx by' bz) a else -bsd (blockBox G.g G.box bx by' bz) a) + σ →
      f.axis = a → f.up = up → NRel G ⟨bx, by', bz, []⟩ ⟨i, j, k, []⟩ f := by
    intro i j k a up σ hig ha hσ hlo hax hfa hfu
    have hsd : ∀ a', a' < 3 → bsd (blockBox G.g G.box i j k) a' = bsd (blockBox G.g G.box bx by' bz) a' := by
      intro a' ha'
      rw [(blockBox_axis G i j k a' ha').2, (blockBox_axis G bx by' bz a' ha').2]
    refine mk _ rfl hig ?_ (fun a' ha' => ⟨hsd a' ha', fun hne => hlo a' ha' (by rw [← hfa]; exact hne)⟩)
    rw [hfa, hfu]
    exact faceRel_of G _ _ a ha up σ hσ hsd hlo hax
  have offx : ∀ i a', a' < 3 → a' ≠ 0 → blo (blockBox G.g G.box i by' bz) a' = blo (blockBox G.g G.box bx by' bz) a' := by
    intro i a' ha' hne
    have : a' = 1 ∨ a' = 2 := by omega
    rcases this with rfl | rfl <;> simp [blo, blockBox]
  have offy : ∀ j a', a' < 3 → a' ≠ 1 → blo (blockBox G.g G.box bx j bz) a' = blo (blockBox G.g G.box bx by' bz) a' := by
    intro j a' ha' hne
    have : a' = 0 ∨ a' = 2 := by omega
    rcases this with rfl | rfl <;> simp [blo, blockBox]
  have offz : ∀ k a', a' < 3 → a' ≠ 2 → blo (blockBox G.g G.box bx by' k) a' = blo (blockBox G.g G.box bx by' bz) a' := by
    intro k a' ha' hne
    have : a' = 0 ∨ a' = 1 := by omega
    rcases this with rfl | rfl <;> simp [blo, blockBox]
  cases f <;> simp only [topNgb] at h
  all_goals
    split_ifs at h with c1 c2 <;> simp only [Option.some.injEq] at h <;> try (exact absurd h (by simp))
  all_goals subst h
  -- left
  · refine blk _ _ _ 0 false 0 (by unfold InGrid; simp only; omega) (by decide) (Or.inl rfl) (offx _) ?_ rfl rfl
    have : ((bx - 1 : Nat) : ℝ) = (bx : ℝ) - 1 := by rw [Nat.cast_sub (by omega)]; simp
    simp [blo, bsd, blockBox, ofNat_real, this]; ring
  · refine blk _ _ _ 0 false (bsd G.box 0) (by unfold InGrid; simp only; omega) (by decide) (Or.inr (Or.inr ⟨by simpa [per] using c2, rfl, rfl⟩)) (offx _) ?_ rfl rfl
    have hb0 : bx = 0 := by omega
    have : ((G.g.nx - 1 : Nat) : ℝ) = (G.g.nx : ℝ) - 1 := by rw [Nat.cast_sub (by omega)]; simp
    subst hb0
    simp [blo, bsd, blockBox, ofNat_real, this]; field_simp; ring
  -- right
  · refine blk _ _ _ 0 true 0 (by unfold InGrid; simp only; omega) (by decide) (Or.inl rfl) (offx _) ?_ rfl rfl
    simp [blo, bsd, blockBox, ofNat_real]; ring
  · refine blk _ _ _ 0 true (-(bsd G.box 0)) (by unfold InGrid; simp only; omega) (by decide) (Or.inr (Or.inl ⟨by simpa [per] using c2, rfl, rfl⟩)) (offx _) ?_ rfl rfl
    have hb0 : (bx : ℝ) = (G.g.nx : ℝ) - 1 := by
      have : bx = G.g.nx - 1 := by omega
      rw [this, Nat.cast_sub (by omega)]; simp
    simp [blo, bsd, blockBox, ofNat_real, hb0]; field_simp; ring
  -- front
  · refine blk _ _ _ 1 false 0 (by unfold InGrid; simp only; omega) (by decide) (Or.inl rfl) (offy _) ?_ rfl rfl
    have : ((by' - 1 : Nat) : ℝ) = (by' : ℝ) - 1 := by rw [Nat.cast_sub (by omega)]; simp
    simp [blo, bsd, blockBox, ofNat_real, this]; ring
  · refine blk _ _ _ 1 false (bsd G.box 1) (by unfold InGrid; simp only; omega) (by decide) (Or.inr (Or.inr ⟨by simpa [per] using c2, rfl, rfl⟩)) (offy _) ?_ rfl rfl
    have hb0 : by' = 0 := by omega
    have : ((G.g.ny - 1 : Nat) : ℝ) = (G.g.ny : ℝ) - 1 := by rw [Nat.cast_sub (by omega)]; simp
    subst hb0
    simp [blo, bsd, blockBox, ofNat_real, this]; field_simp; ring
  -- back
  · refine blk _ _ _ 1 true 0 (by unfold InGrid; simp only; omega) (by decide) (Or.inl rfl) (offy _) ?_ rfl rfl
    simp [blo, bsd, blockBox, ofNat_real]; ring
  · refine blk _ _ _ 1 true (-(bsd G.box 1)) (by unfold InGrid; simp only; omega) (by decide) (Or.inr (Or.inl ⟨by simpa [per] using c2, rfl, rfl⟩)) (offy _) ?_ rfl rfl
    have hb0 : (by' : ℝ) = (G.g.ny : ℝ) - 1 := by
      have : by' = G.g.ny - 1 := by omega
      rw [this, Nat.cast_sub (by omega)]; simp
    simp [blo, bsd, blockBox, ofNat_real, hb0]; field_simp; ring
  -- bottom
  · refine blk _ _ _ 2 false 0 (by unfold InGrid; simp only; omega) (by decide) (Or.inl rfl) (offz _) ?_ rfl rfl
    have : ((bz - 1 : Nat) : ℝ) = (bz : ℝ) - 1 := by rw [Nat.cast_sub (by omega)]; simp
    simp [blo, bsd, blockBox, ofNat_real, this]; ring
  · refine blk _ _ _ 2 false (bsd G.box 2) (by unfold InGrid; simp only; omega) (by decide) (Or.inr (Or.inr ⟨by simpa [per] using c2, rfl, rfl⟩)) (offz _) ?_ rfl rfl
    have hb0 : bz = 0 := by omega
    have : ((G.g.nz - 1 : Nat) : ℝ) = (G.g.nz : ℝ) - 1 := by rw [Nat.cast_sub (by omega)]; simp
    subst hb0
    simp [blo, bsd, blockBox, ofNat_real, this]; field_simp; ring
  -- top
  · refine blk _ _ _ 2 true 0 (by unfold InGrid; simp only; omega) (by decide) (Or.inl rfl) (offz _) ?_ rfl rfl
    simp [blo, bsd, blockBox, ofNat_real]; ring
  · refine blk _ _ _ 2 true (-(bsd G.box 2)) (by unfold InGrid; simp only; omega) (by decide) (Or.inr (Or.inl ⟨by simpa [per] using c2, rfl, rfl⟩)) (offz _) ?_ rfl rfl
    have hb0 : (bz : ℝ) = (G.g.nz : ℝ) - 1 := by
      have : bz = G.g.nz - 1 := by omega
      rw [this, Nat.cast_sub (by omega)]; simp
    simp [blo, bsd, blockBox, ofNat_real, hb0]; field_simp; ring

/-- the neighbour pointers of every leaf are geometric: `NgbGeo` holds -/
theorem ngb_geo (G : AGrid ℝ) (hb : PosBox G.box) (hx : 0 < G.g.nx) (hy : 0 < G.g.ny) (hz : 0 < G.g.nz)
    (hnarrow : ∀ r', cellAt G.g r' = some .leaf → ∀ a, a < 3 → per G a = true → bsd (refBox G r') a < bsd G.box a)
    (r : Ref) (hleaf : cellAt G.g r = some .leaf) (hg : InGrid G r) : NgbGeo G r := by
  intro f n h
  unfold ngb at h
  have e : (⟨r.bx, r.by', r.bz, ([] : List Nat) ++ r.path⟩ : Ref) = r := by cases r; simp
  have hrel := ngbsAlong_rel G hb hx hy hz r.path ⟨r.bx, r.by', r.bz, []⟩ _
    ⟨_, by show cellAt G.g ⟨r.bx, r.by', r.bz, [] ++ r.path⟩ = _; rw [e]; exact hleaf⟩ hg
    (fun f' n' h' => topNgb_rel G hx hy hz r.bx r.by' r.bz hg.1 hg.2.1 hg.2.2 f' n' h') f n h
  rw [e] at hrel
  refine ⟨hrel.valid, hrel.ingrid, posB_refBox G hb hx hy hz n, hrel.rel, fun hper => ?_⟩
  have ha := face_axis_lt f
  rcases Nat.lt_or_ge n.path.length r.path.length with hlt | hge
  · exact hnarrow n (hrel.coarse hlt) _ ha hper
  · have heq : n.path.length = r.path.length := le_antisymm hrel.lvl hge
    rw [(hrel.same heq _ ha).1]
    exact hnarrow r hleaf _ ha hper

/-- the hypotheses of the traversal theorems from facts about the grid and the ray -/
theorem travOK_of (big : ℝ) (G : AGrid ℝ) (d : V3 ℝ) (hb : PosBox G.box) (hx : 0 < G.g.nx) (hy : 0 < G.g.ny)
    (hz : 0 < G.g.nz) (hd : ∃ a, a < 3 ∧ vget d a ≠ 0)
    (hnarrow : ∀ r', cellAt G.g r' = some .leaf → ∀ a, a < 3 → per G a = true → bsd (refBox G r') a < bsd G.box a)
    (hbig : ∀ r o, cellAt G.g r = some .leaf → Closed (refBox G r) o → ∀ a, a < 3 → vget d a ≠ 0 →
      wp big (refBox G r) o d a < big) : TravOK big G d :=
  ⟨hd, fun r hl hg => ngb_geo G hb hx hy hz hnarrow r hl hg, hnarrow, hbig⟩

end CMacVerif.AMRT
