import CMacVerif.Model.Units
import Mathlib.Tactic.NormNum
import Mathlib.Tactic.FieldSimp
import Mathlib.Tactic.Ring
import Mathlib.Data.Rat.Defs
import Mathlib.Algebra.Order.Field.Basic
/-!
Helper lemmas for the unit algebra of C20, over `ℚ` (exact arithmetic on the exact values of the
table's doubles).
-/
namespace CMacVerif.Units
open CMacVerif.Gen.Units

theorem lit_one : (1.0 : ℚ) = 1 := by norm_num

namespace Unit

theorem ext' {a b : Unit ℚ} (h0 : a.value = b.value) (h1 : a.length = b.length)
    (h2 : a.time = b.time) (h3 : a.mass = b.mass) (h4 : a.temperature = b.temperature)
    (h5 : a.current = b.current) (h6 : a.angle = b.angle) : a = b := by
  cases a; cases b; simp_all

theorem mulLoop_eq (v : ℚ) (n : ℕ) (acc : ℚ) : mulLoop v n acc = acc * v ^ n := by
  induction n generalizing acc with
  | zero => simp [mulLoop]
  | succ n ih => rw [mulLoop, ih, pow_succ]; ring

theorem divLoop_eq (v : ℚ) (n : ℕ) (acc : ℚ) : divLoop v n acc = acc / v ^ n := by
  induction n generalizing acc with
  | zero => simp [divLoop]
  | succ n ih => rw [divLoop, ih, pow_succ, div_div, mul_comm]

/-- positive exponent: the `n`-th power -/
theorem powValue_pos (v : ℚ) (n : ℕ) (hn : 1 ≤ n) : powValue v (n : ℤ) = v ^ n := by
  have h0 : ¬ ((n : ℤ) = 0) := by omega
  have h : (n : ℤ) > 0 := by omega
  rw [powValue, if_neg h0, if_pos h, mulLoop_eq, Int.toNat_natCast]
  obtain ⟨m, rfl⟩ : ∃ m, n = m + 1 := ⟨n - 1, by omega⟩
  rw [Nat.add_sub_cancel, pow_succ]; ring

/-- negative exponent: one over the `n`-th power -/
theorem powValue_neg (v : ℚ) (n : ℕ) (hn : 1 ≤ n) : powValue v (-(n : ℤ)) = 1 / v ^ n := by
  have h0 : ¬ (-(n : ℤ) = 0) := by omega
  have h : ¬ (-(n : ℤ) > 0) := by omega
  rw [powValue, if_neg h0, if_neg h, divLoop_eq, neg_neg, Int.toNat_natCast, lit_one]

/-- exponent 0: the dimensionless number 1 -/
theorem powValue_zero (v : ℚ) : powValue v 0 = 1 := by
  simp [powValue, lit_one]

/-- for every integer exponent the value is the integer power -/
theorem powValue_zpow (v : ℚ) (p : ℤ) : powValue v p = v ^ p := by
  rcases Int.lt_trichotomy p 0 with h | h | h
  · obtain ⟨n, rfl⟩ : ∃ n : ℕ, p = -(n : ℤ) := ⟨p.natAbs, by omega⟩
    have hn : 1 ≤ n := by omega
    rw [powValue_neg v n hn, zpow_neg, zpow_natCast, one_div]
  · subst h
    rw [powValue_zero, zpow_zero]
  · obtain ⟨n, rfl⟩ : ∃ n : ℕ, p = (n : ℤ) := ⟨p.toNat, by omega⟩
    have hn : 1 ≤ n := by omega
    rw [powValue_pos v n hn, zpow_natCast]

theorem mul_assoc' (a b c : Unit ℚ) : (a.mul b).mul c = a.mul (b.mul c) := by
  apply ext' <;> simp [mul, mul_assoc, add_assoc]

end Unit

/-- folding further tokens onto `a * b` = `a *` (folding them onto `b`) — exact arithmetic only -/
theorem mulToks_mul (a b : Unit ℚ) (ts : List Tok) :
    mulToks (a.mul b) ts = (mulToks b ts).map (fun u => a.mul u) := by
  induction ts generalizing b with
  | nil => simp [mulToks]
  | cons t ts ih =>
    simp only [mulToks]
    cases evalTok (α := ℚ) t with
    | none => simp
    | some u2 => simp only []; rw [Unit.mul_assoc', ih]

theorem mulToks_append (u : Unit ℚ) (ts1 ts2 : List Tok) :
    mulToks u (ts1 ++ ts2) = (mulToks u ts1).bind (fun u' => mulToks u' ts2) := by
  induction ts1 generalizing u with
  | nil => simp [mulToks]
  | cons t ts ih =>
    simp only [List.cons_append, mulToks]
    cases evalTok (α := ℚ) t with
    | none => simp
    | some u2 => simp only []; rw [ih]

/-! ### SI unit names: every part has table value 1 -/

def tokIsOne (t : Tok) : Bool :=
  match lookup t.name table with
  | some e => e.val.num == 1 && e.val.den == 1
  | none => false

def nameIsOne (n : Str) : Bool :=
  match scanUnits n with
  | some ts => ts.all tokIsOne
  | none => false

theorem powValue_one (p : ℤ) : Unit.powValue (1 : ℚ) p = 1 := by
  rw [Unit.powValue_zpow, one_zpow]

theorem evalTok_one (t : Tok) (h : tokIsOne t = true) :
    ∃ u : Unit ℚ, evalTok t = some u ∧ u.value = 1 := by
  unfold tokIsOne at h
  unfold evalTok getSingleUnit
  cases hl : lookup t.name table with
  | none => rw [hl] at h; simp at h
  | some e =>
    rw [hl] at h
    simp only [Bool.and_eq_true, beq_iff_eq] at h
    have hv : (ofEntry e : Unit ℚ).value = 1 := by
      simp [ofEntry, OfDbl.ofDbl, h.1, h.2]
    cases t.pow with
    | none => exact ⟨_, rfl, hv⟩
    | some p =>
      refine ⟨_, rfl, ?_⟩
      simp only [Unit.pow, hv]
      exact powValue_one p

theorem mulToks_one (u : Unit ℚ) (hu : u.value = 1) (ts : List Tok) (h : ts.all tokIsOne = true) :
    ∃ u' : Unit ℚ, mulToks u ts = some u' ∧ u'.value = 1 := by
  induction ts generalizing u with
  | nil => exact ⟨u, rfl, hu⟩
  | cons t ts ih =>
    simp only [List.all_cons, Bool.and_eq_true] at h
    obtain ⟨u2, h2, hv2⟩ := evalTok_one t h.1
    simp only [mulToks, h2]
    exact ih (u.mul u2) (by simp [Unit.mul, hu, hv2]) h.2

theorem getUnit_one (n : Str) (h : nameIsOne n = true) :
    ∃ u : Unit ℚ, getUnit n = some u ∧ u.value = 1 := by
  unfold nameIsOne at h
  unfold getUnit
  cases hs : scanUnits n with
  | none => rw [hs] at h; simp at h
  | some ts =>
    rw [hs] at h
    simp only at h ⊢
    cases ts with
    | nil =>
      -- scanUnits never returns an empty token list
      unfold scanUnits at hs
      split at hs <;> simp_all
    | cons t ts =>
      simp only [List.all_cons, Bool.and_eq_true] at h
      obtain ⟨u, h1, hv⟩ := evalTok_one t h.1
      simp only [getUnitToks, h1]
      exact mulToks_one u hv ts h.2

theorem nth?_mem {β : Type} (l : List β) (i : ℕ) (hi : i < l.length) : ∃ x ∈ l, nth? l i = some x := by
  induction l generalizing i with
  | nil => simp at hi
  | cons a l ih =>
    cases i with
    | zero => exact ⟨a, by simp, rfl⟩
    | succ i =>
      obtain ⟨x, hx, h⟩ := ih i (by simpa using hi)
      exact ⟨x, by simp [hx], h⟩

/-! ### the SI units used by `try_conversion` -/

theorem si_freq : (getSIUnit qFrequency : Option (Unit ℚ)) = some ⟨1, 0, -1, 0, 0, 0, 0⟩ := by
  have h : scanUnits ['H','z'] = some [⟨['H','z'], none⟩] := by decide
  simp [getSIUnit, qFrequency, nth?, siNames, getUnit, h, getUnitToks, mulToks, evalTok,
    getSingleUnit, lookup, table, ofEntry, OfDbl.ofDbl]

theorem si_energy : (getSIUnit qEnergy : Option (Unit ℚ)) = some ⟨1, 2, -2, 1, 0, 0, 0⟩ := by
  have h : scanUnits ['J'] = some [⟨['J'], none⟩] := by decide
  simp [getSIUnit, qEnergy, nth?, siNames, getUnit, h, getUnitToks, mulToks, evalTok,
    getSingleUnit, lookup, table, ofEntry, OfDbl.ofDbl]

theorem si_length : (getSIUnit qLength : Option (Unit ℚ)) = some ⟨1, 1, 0, 0, 0, 0, 0⟩ := by
  have h : scanUnits ['m'] = some [⟨['m'], none⟩] := by decide
  simp [getSIUnit, qLength, nth?, siNames, getUnit, h, getUnitToks, mulToks, evalTok,
    getSingleUnit, lookup, table, ofEntry, OfDbl.ofDbl]

theorem planck_ne : (OfDbl.ofDbl planck : ℚ) ≠ 0 := by
  simp [OfDbl.ofDbl, planck]

theorem light_ne : (OfDbl.ofDbl lightspeed : ℚ) ≠ 0 := by
  simp [OfDbl.ofDbl, lightspeed]

end CMacVerif.Units
