import CMacVerif.Lemmas.PhotonCont
/-! C01: the worker loop of the threads on top of the protocol (both variants of the loop condition,
termination test as two separate reads).  Invariant: every running task is held by exactly one thread
that will execute it, every pending task sits in the `tasks_to_add[]` of a thread that will enqueue it,
and for every queued flush task there is a thread that is still going to poll the shared queue. -/
namespace CMacVerif.Photon

/-! ### the loop invariant -/

def Obliged (th : Th) : Prop := (∃ u, th = .exec u) ∨ th = .post ∨ (∃ u, th = .top (some u))

structure LInv (cfg : Cfg) (s0 : State) (s : LState) : Prop where
  reach : Reach cfg s0 s.p
  /-- a running task is held by a thread that is executing it or is about to -/
  holder : ∀ t k, s.p.tasks t = some ⟨k, .running⟩ → ∃ i, s.th i = .exec t ∨ s.th i = .top (some t)
  /-- a pending task is in the `tasks_to_add[]` of a thread that is adding its tasks -/
  owner : ∀ t k, s.p.tasks t = some ⟨k, .pending⟩ → ∃ i, s.th i = .post ∧ t ∈ s.mine i
  /-- for a queued flush task some thread will poll the shared queue again -/
  oblig : ∀ t c, s.p.tasks t = some ⟨.flush c, .queued⟩ → ∃ i, Obliged (s.th i)
  exitFlag : ∀ i, s.th i = .exited → s.p.run = false

theorem run_stays_false {cfg : Cfg} {s s' : State} (l : Label) (h : step cfg s l = some s') (hr : s.run = false) :
    s'.run = false := by
  rcases (step_done_run l h).2 with e | ⟨e, _, _⟩
  · rw [e]; exact hr
  · exact e

theorem lockHeld_running {cfg : Cfg} {s : State} {l : Lock} (h : lockHeld cfg s l = true) :
    ∃ u k, s.tasks u = some ⟨k, .running⟩ := by
  simp only [lockHeld, List.any_eq_true] at h
  obtain ⟨u, _, hu⟩ := h
  split at hu
  · rename_i k hk; exact ⟨u, k, hk⟩
  · cases hu

theorem poll_cases {cfg : Cfg} {p p' : State} {got : Option Nat} (h : poll cfg p got = some p') :
    (got = none ∧ p' = p ∧ flushAvailable cfg p = false) ∨ (∃ t, got = some t ∧ step cfg p (.acquire t) = some p') := by
  cases got with
  | none =>
    simp only [poll] at h
    split_ifs at h with hf
    injection h with h
    exact Or.inl ⟨rfl, h.symm, by simpa using hf⟩
  | some t => exact Or.inr ⟨t, rfl, h⟩

/-- a poll by thread i that is in a state `old`; `new got` is its next state -/
theorem linv_poll {cfg : Cfg} {s0 : State} {s : LState} {i : Nat} {got : Option Nat} {p' : State} {nxt : Option Nat → Th}
    (hN : weight cfg (fun _ => 1) s0 = cfg.N) (hi : LInv cfg s0 s) (hp : poll cfg s.p got = some p')
    (hold : (∀ u, s.th i ≠ .exec u) ∧ (∀ u, s.th i ≠ .top (some u)))
    (hmine : s.th i = .post → s.mine i = [])
    (hnx : ∀ t, nxt (some t) = .exec t ∨ nxt (some t) = .top (some t))
    (hnn : nxt none ≠ .exited) :
    LInv cfg s0 { s with p := p', th := upd s.th i (nxt got) } := by
  have hother : ∀ j, j ≠ i → upd s.th i (nxt got) j = s.th j := fun j hj => upd_other _ _ _ hj
  rcases poll_cases hp with ⟨rfl, rfl, hfa⟩ | ⟨t, rfl, hacq⟩
  · -- NO_TASK
    refine ⟨hi.reach, ?_, ?_, ?_, ?_⟩
    all_goals dsimp only
    · intro t k ht
      obtain ⟨j, hj⟩ := hi.holder t k ht
      have : j ≠ i := by
        intro e; subst e
        rcases hj with hj | hj
        · exact hold.1 t hj
        · exact hold.2 t hj
      exact ⟨j, by rw [hother j this]; exact hj⟩
    · intro t k ht
      obtain ⟨j, hj1, hj2⟩ := hi.owner t k ht
      have : j ≠ i := by
        intro e; subst e
        rw [hmine hj1] at hj2; cases hj2
      exact ⟨j, by rw [hother j this]; exact hj1, hj2⟩
    · intro t c ht
      -- the lock of the flush task is held by a running task; its holder will poll again
      have hlk : lockHeld cfg s.p (.block c) = true := by
        have hcap := (hi.reach.inv.tk t _ ht).1
        simp only [flushAvailable] at hfa
        have := List.any_eq_false.mp hfa t (List.mem_range.mpr hcap)
        simp only [ht] at this
        simpa using this
      obtain ⟨u, k, hu⟩ := lockHeld_running hlk
      obtain ⟨j, hj⟩ := hi.holder u k hu
      have : j ≠ i := by
        intro e; subst e
        rcases hj with hj | hj
        · exact hold.1 u hj
        · exact hold.2 u hj
      refine ⟨j, ?_⟩
      rw [hother j this]
      rcases hj with hj | hj
      · exact Or.inl ⟨u, hj⟩
      · exact Or.inr (Or.inr ⟨u, hj⟩)
    · intro j hj
      by_cases e : j = i
      · subst e; simp only [upd_same] at hj; exact absurd hj hnn
      · rw [hother j e] at hj; exact hi.exitFlag j hj
  · -- a task was obtained
    obtain ⟨k, hk, _, rfl⟩ := step_acquire hacq
    have hreach := reach_step (.acquire t) hN hi.reach hacq
    refine ⟨hreach, ?_, ?_, ?_, ?_⟩
    all_goals dsimp only
    · intro u k' hu
      by_cases e : u = t
      · subst e
        refine ⟨i, ?_⟩
        simp only [upd_same]
        exact hnx u
      · simp only [upd_other _ _ _ e] at hu
        obtain ⟨j, hj⟩ := hi.holder u k' hu
        have : j ≠ i := by
          intro e; subst e
          rcases hj with hj | hj
          · exact hold.1 u hj
          · exact hold.2 u hj
        exact ⟨j, by rw [hother j this]; exact hj⟩
    · intro u k' hu
      have e : u ≠ t := by
        intro e; subst e; simp only [upd_same] at hu; injection hu with hu; injection hu with _ hu; cases hu
      simp only [upd_other _ _ _ e] at hu
      obtain ⟨j, hj1, hj2⟩ := hi.owner u k' hu
      have : j ≠ i := by
        intro e; subst e
        rw [hmine hj1] at hj2; cases hj2
      exact ⟨j, by rw [hother j this]; exact hj1, hj2⟩
    · intro u c hu
      have e : u ≠ t := by
        intro e; subst e; simp only [upd_same] at hu; injection hu with hu; injection hu with _ hu; cases hu
      simp only [upd_other _ _ _ e] at hu
      obtain ⟨j, hj⟩ := hi.oblig u c hu
      by_cases ej : j = i
      · subst ej
        refine ⟨j, ?_⟩
        simp only [upd_same]
        rcases hnx t with h1 | h1
        · exact Or.inl ⟨t, h1⟩
        · exact Or.inr (Or.inr ⟨t, h1⟩)
      · exact ⟨j, by rw [hother j ej]; exact hj⟩
    · intro j hj
      by_cases e : j = i
      · subst e; simp only [upd_same] at hj
        rcases hnx t with h1 | h1 <;> (rw [h1] at hj; cases hj)
      · rw [hother j e] at hj; exact hi.exitFlag j hj

/-- protocol steps that leave the thread states alone and add at most queued, non-flush tasks -/
theorem linv_other {cfg : Cfg} {s0 : State} {s : LState} {l : Label} {p' : State}
    (hN : weight cfg (fun _ => 1) s0 = cfg.N) (hi : LInv cfg s0 s) (h : step cfg s.p l = some p')
    (hl : (∃ a b, l = .launchBatch a b) ∨ (∃ a, l = .launchCont a) ∨ (∃ a b, l = .premature a b)) :
    LInv cfg s0 { s with p := p' } := by
  have hd := other_tasks h hl
  refine ⟨reach_step l hN hi.reach h, ?_, ?_, ?_, ?_⟩
  all_goals dsimp only
  · intro t k ht
    rcases hd t with e | ⟨_, k', e, _⟩
    · rw [e] at ht; exact hi.holder t k ht
    · rw [e] at ht; injection ht with ht; injection ht with _ ht; cases ht
  · intro t k ht
    rcases hd t with e | ⟨_, k', e, _⟩
    · rw [e] at ht; exact hi.owner t k ht
    · rw [e] at ht; injection ht with ht; injection ht with _ ht; cases ht
  · intro t c ht
    rcases hd t with e | ⟨_, k', e, hnf⟩
    · rw [e] at ht; exact hi.oblig t c ht
    · rw [e] at ht; injection ht with ht; injection ht with ht _; exact absurd ht (hnf c)
  · intro j hj; exact run_stays_false l h (hi.exitFlag j hj)

theorem mem_erase_ne {a b : Nat} {l : List Nat} (h : a ∈ l) (hne : a ≠ b) : a ∈ l.erase b :=
  (List.mem_erase_of_ne hne).mpr h

/-! ### which thread holds which task -/

/-- the task a thread holds (took from a queue and has not finished) -/
def held : Th → Option Nat
  | .exec t => some t
  | .top (some t) => some t
  | _ => none

/-- every held task is a running task and is held by one thread only -/
def OwnP (th : Nat → Th) (tasks : Nat → Option Task) : Prop :=
  ∀ i t, held (th i) = some t → (∃ k, tasks t = some ⟨k, .running⟩) ∧ ∀ j, held (th j) = some t → j = i

structure LOwn (cfg : Cfg) (s : LState) : Prop where
  own : OwnP s.th s.p.tasks
  /-- the old loop `while (global_run_flag)` is only used without a continuous source -/
  nocont : cfg.loopFixed = false → NoCont s.p

theorem held_move {th : Nat → Th} {tasks tasks' : Nat → Option Task} {i : Nat} {v : Th} (ho : OwnP th tasks)
    (hkeep : ∀ j u, j ≠ i → held (th j) = some u → ∃ k, tasks' u = some ⟨k, .running⟩)
    (hv : ∀ t, held v = some t → (∃ k, tasks' t = some ⟨k, .running⟩) ∧ ∀ j, j ≠ i → held (th j) ≠ some t) :
    OwnP (upd th i v) tasks' := by
  intro j u hj
  by_cases e : j = i
  · subst e
    rw [upd_same] at hj
    refine ⟨(hv u hj).1, ?_⟩
    intro j' hj'
    by_cases e' : j' = j
    · exact e'
    · rw [upd_other _ _ _ e'] at hj'
      exact absurd hj' ((hv u hj).2 j' e')
  · rw [upd_other _ _ _ e] at hj
    refine ⟨hkeep j u e hj, ?_⟩
    intro j' hj'
    by_cases e' : j' = i
    · subst e'
      rw [upd_same] at hj'
      exact absurd hj ((hv u hj').2 j e)
    · rw [upd_other _ _ _ e'] at hj'
      exact (ho j u hj).2 j' hj'

theorem held_same_th {th : Nat → Th} {tasks tasks' : Nat → Option Task} (ho : OwnP th tasks)
    (hkeep : ∀ j u, held (th j) = some u → ∃ k, tasks' u = some ⟨k, .running⟩) : OwnP th tasks' :=
  fun j u hj => ⟨hkeep j u hj, (ho j u hj).2⟩

/-- a poll by a thread that holds nothing -/
theorem held_poll {cfg : Cfg} {s : LState} {i : Nat} {got : Option Nat} {p' : State} {nxt : Option Nat → Th}
    (ho : OwnP s.th s.p.tasks) (hp : poll cfg s.p got = some p') (hidle : held (s.th i) = none)
    (hnx : ∀ t, held (nxt (some t)) = some t) (hnn : held (nxt none) = none) :
    OwnP (upd s.th i (nxt got)) p'.tasks := by
  rcases poll_cases hp with ⟨rfl, rfl, _⟩ | ⟨t, rfl, hacq⟩
  · apply held_move ho
    · intro j u _ hj; exact (ho j u hj).1
    · intro t ht; rw [hnn] at ht; cases ht
  · obtain ⟨k, hk, _, rfl⟩ := step_acquire hacq
    have hnot : ∀ j, held (s.th j) ≠ some t := by
      intro j hj
      obtain ⟨k', hk'⟩ := (ho j t hj).1
      rw [hk] at hk'; injection hk' with hk'; injection hk' with _ hk'; cases hk'
    apply held_move ho
    · intro j u _ hj
      have hne : u ≠ t := by intro e; subst e; exact hnot j hj
      obtain ⟨k', hk'⟩ := (ho j u hj).1
      exact ⟨k', by show upd s.p.tasks t _ u = _; rw [upd_other _ _ _ hne]; exact hk'⟩
    · intro t' ht'
      rw [hnx t] at ht'; injection ht' with ht'; subst ht'
      exact ⟨⟨k, by show upd s.p.tasks t _ t = _; rw [upd_same]⟩, fun j _ => hnot j⟩

theorem noCont_congr {s s' : State} (hn : NoCont s) (h1 : s'.contPool = s.contPool) (h2 : s'.tasks = s.tasks) : NoCont s' :=
  ⟨by rw [h1]; exact hn.1, fun t => by rw [h2]; exact hn.2 t⟩

theorem poll_noCont {cfg : Cfg} {p p' : State} {got : Option Nat} (hp : poll cfg p got = some p') (hn : NoCont p) : NoCont p' := by
  rcases poll_cases hp with ⟨_, rfl, _⟩ | ⟨t, _, hacq⟩
  · exact hn
  · exact noCont_step _ hacq hn

theorem lstep_own {cfg : Cfg} {s s' : LState} (l : LLabel) (ho : LOwn cfg s) (h : lstep cfg s l = some s') : LOwn cfg s' := by
  have hstepP : ∀ (lb : Label) (p' : State), step cfg s.p lb = some p' → (cfg.loopFixed = false → NoCont p') :=
    fun lb p' hp hf => noCont_step lb hp (ho.nocont hf)
  cases l with
  | main l =>
    simp only [lstep] at h
    split at h
    · rename_i a b
      split at h
      · rename_i p' hp; injection h with h; subst h
        refine ⟨held_same_th ho.own ?_, hstepP _ p' hp⟩
        intro j u hj
        obtain ⟨k, hk⟩ := (ho.own j u hj).1
        rcases other_tasks hp (Or.inl ⟨a, b, rfl⟩) u with e | ⟨e, _⟩
        · exact ⟨k, by rw [e]; exact hk⟩
        · rw [hk] at e; cases e
      · cases h
    · rename_i a
      split at h
      · rename_i p' hp; injection h with h; subst h
        refine ⟨held_same_th ho.own ?_, hstepP _ p' hp⟩
        intro j u hj
        obtain ⟨k, hk⟩ := (ho.own j u hj).1
        rcases other_tasks hp (Or.inr (Or.inl ⟨a, rfl⟩)) u with e | ⟨e, _⟩
        · exact ⟨k, by rw [e]; exact hk⟩
        · rw [hk] at e; cases e
      · cases h
    · cases h
  | startPoll i got =>
    simp only [lstep] at h
    split at h
    · rename_i hth
      split at h
      · rename_i p' hp; injection h with h; subst h
        exact ⟨held_poll (nxt := fun g => .top g) ho.own hp (by rw [hth]; rfl) (fun _ => rfl) rfl,
          fun hf => poll_noCont hp (ho.nocont hf)⟩
      · cases h
    · cases h
  | topExit i =>
    simp only [lstep] at h
    split at h
    · split_ifs at h
      injection h with h; subst h
      refine ⟨held_move ho.own (fun j u _ hj => (ho.own j u hj).1) (fun t ht => by cases ht), ho.nocont⟩
    · split_ifs at h
      injection h with h; subst h
      refine ⟨held_move ho.own (fun j u _ hj => (ho.own j u hj).1) (fun t ht => by cases ht), ho.nocont⟩
    · cases h
  | topGo i =>
    simp only [lstep] at h
    split at h
    · rename_i t hth
      split_ifs at h
      injection h with h; subst h
      have hi' : held (s.th i) = some t := by rw [hth]; rfl
      refine ⟨held_move ho.own (fun j u _ hj => (ho.own j u hj).1) ?_, ho.nocont⟩
      intro t' ht'
      have : t' = t := by simp only [held] at ht'; injection ht' with ht'; exact ht'.symm
      subst this
      exact ⟨(ho.own i t' hi').1, fun j hj hjt => hj ((ho.own i t' hi').2 j hjt)⟩
    · cases h
  | topPoll i got =>
    simp only [lstep] at h
    split at h
    · rename_i hth
      split_ifs at h
      split at h
      · rename_i p' hp; injection h with h; subst h
        exact ⟨held_poll (nxt := fun g => match g with | some t => .exec t | none => .check) ho.own hp (by rw [hth]; rfl)
          (fun _ => rfl) rfl, fun hf => poll_noCont hp (ho.nocont hf)⟩
      · cases h
    · cases h
  | prem i g t' =>
    simp only [lstep] at h
    split at h
    · split_ifs at h
      split at h
      · rename_i p' hp; injection h with h; subst h
        refine ⟨held_same_th ho.own ?_, hstepP _ p' hp⟩
        intro j u hj
        obtain ⟨k, hk⟩ := (ho.own j u hj).1
        rcases other_tasks hp (Or.inr (Or.inr ⟨g, t', rfl⟩)) u with e | ⟨e, _⟩
        · exact ⟨k, by rw [e]; exact hk⟩
        · rw [hk] at e; cases e
      · cases h
    · cases h
  | work i l =>
    simp only [lstep] at h
    split at h
    · rename_i t t0 fin hth hw
      by_cases htt : t = t0
      swap
      · rw [if_neg htt] at h; cases h
      rw [if_pos htt] at h
      subst htt
      split at h
      · rename_i p' hp
        injection h with h; subst h
        obtain ⟨_, hfin, hnfin, hdelta⟩ := commit_tasks hp hw
        have hi' : held (s.th i) = some t := by rw [hth]; rfl
        have hkeepOther : ∀ j u, j ≠ i → held (s.th j) = some u → ∃ k, p'.tasks u = some ⟨k, .running⟩ := by
          intro j u hj hju
          have hne : u ≠ t := by intro e; subst e; exact hj ((ho.own i u hi').2 j hju)
          obtain ⟨k, hk⟩ := (ho.own j u hju).1
          cases hdelta u hne with
          | same hs => exact ⟨k, by rw [hs]; exact hk⟩
          | new h0 k' st h1 hst hp' => rw [hk] at h0; cases h0
        refine ⟨?_, hstepP _ p' hp⟩
        cases fin with
        | true =>
          simp only [if_true]
          exact held_move ho.own hkeepOther (fun t' ht' => by cases ht')
        | false =>
          simp only [Bool.false_eq_true, if_false]
          apply held_same_th ho.own
          intro j u hju
          by_cases e : j = i
          · subst e
            rw [hi'] at hju; injection hju with hju; subst hju
            exact hnfin rfl
          · exact hkeepOther j u e hju
      · cases h
    · cases h
  | enq i t =>
    simp only [lstep] at h
    split at h
    · split_ifs at h
      split at h
      · rename_i p' hp
        injection h with h; subst h
        obtain ⟨k, hk, rfl⟩ := step_enqueue hp
        refine ⟨held_same_th ho.own ?_, fun hf => noCont_step _ hp (ho.nocont hf)⟩
        intro j u hj
        obtain ⟨k', hk'⟩ := (ho.own j u hj).1
        have hne : u ≠ t := by
          intro e; subst e; rw [hk] at hk'; injection hk' with hk'; injection hk' with _ hk'; cases hk'
        exact ⟨k', by show upd s.p.tasks t _ u = _; rw [upd_other _ _ _ hne]; exact hk'⟩
      · cases h
    · cases h
  | innerPoll i got =>
    simp only [lstep] at h
    split at h
    · rename_i hth
      split_ifs at h
      split at h
      · rename_i p' hp; injection h with h; subst h
        exact ⟨held_poll (nxt := fun g => match g with | some t => .exec t | none => .check) ho.own hp (by rw [hth]; rfl)
          (fun _ => rfl) rfl, fun hf => poll_noCont hp (ho.nocont hf)⟩
      · cases h
    · cases h
  | checkEmpty i =>
    simp only [lstep] at h
    split at h
    · split_ifs at h
      injection h with h; subst h
      exact ⟨held_move ho.own (fun j u _ hj => (ho.own j u hj).1) (fun t ht => by cases ht), ho.nocont⟩
    · cases h
  | checkYes i =>
    simp only [lstep] at h
    split at h
    · split_ifs at h
      injection h with h; subst h
      exact ⟨held_move ho.own (fun j u _ hj => (ho.own j u hj).1) (fun t ht => by cases ht),
        fun hf => noCont_congr (ho.nocont hf) rfl rfl⟩
    · cases h
  | checkNo i got =>
    simp only [lstep] at h
    split at h
    · rename_i hth
      split_ifs at h
      split at h
      · rename_i p' hp; injection h with h; subst h
        exact ⟨held_poll (nxt := fun g => .top g) ho.own hp (by rw [hth]; rfl) (fun _ => rfl) rfl,
          fun hf => poll_noCont hp (ho.nocont hf)⟩
      · cases h
    · rename_i hth
      split_ifs at h
      split at h
      · rename_i p' hp; injection h with h; subst h
        exact ⟨held_poll (nxt := fun g => .top g) ho.own hp (by rw [hth]; rfl) (fun _ => rfl) rfl,
          fun hf => poll_noCont hp (ho.nocont hf)⟩
      · cases h
    · cases h

/-- a thread that holds nothing and owes nothing moves on; the protocol state keeps its task table -/
theorem linv_idle {cfg : Cfg} {s0 : State} {s : LState} {i : Nat} {v : Th} {p' : State} (hi : LInv cfg s0 s)
    (hidle : ¬ Obliged (s.th i)) (hr : Reach cfg s0 p') (ht : p'.tasks = s.p.tasks)
    (hrun : s.p.run = false → p'.run = false) (hv : v = .exited → p'.run = false) :
    LInv cfg s0 { s with p := p', th := upd s.th i v } := by
  have hother : ∀ j, j ≠ i → upd s.th i v j = s.th j := fun j hj => upd_other _ _ _ hj
  have hni : ∀ j, Obliged (s.th j) → j ≠ i := by intro j hj e; subst e; exact hidle hj
  refine ⟨hr, ?_, ?_, ?_, ?_⟩
  all_goals dsimp only
  · intro t k htk
    rw [ht] at htk
    obtain ⟨j, hj⟩ := hi.holder t k htk
    have hne := hni j (by rcases hj with hj | hj; exact Or.inl ⟨t, hj⟩; exact Or.inr (Or.inr ⟨t, hj⟩))
    exact ⟨j, by rw [hother j hne]; exact hj⟩
  · intro t k htk
    rw [ht] at htk
    obtain ⟨j, hj1, hj2⟩ := hi.owner t k htk
    have hne := hni j (Or.inr (Or.inl hj1))
    exact ⟨j, by rw [hother j hne]; exact hj1, hj2⟩
  · intro t c htk
    rw [ht] at htk
    obtain ⟨j, hj⟩ := hi.oblig t c htk
    exact ⟨j, by rw [hother j (hni j hj)]; exact hj⟩
  · intro j hj
    by_cases e : j = i
    · subst e; rw [upd_same] at hj; exact hv hj
    · rw [hother j e] at hj; exact hrun (hi.exitFlag j hj)

theorem reach_setflag {cfg : Cfg} {s0 s : State} (hN : weight cfg (fun _ => 1) s0 = cfg.N) (hr : Reach cfg s0 s)
    (hd : s.done.length = cfg.N) : Reach cfg s0 { s with run := false } :=
  ⟨inv_congr hr.inv rfl rfl rfl rfl, fun w => by rw [← hr.wt w]; exact weight_congr w rfl rfl rfl rfl rfl rfl,
   fun _ => by rw [hN]; exact hd⟩

theorem lstep_inv {cfg : Cfg} {s0 : State} {s s' : LState} (l : LLabel) (hN : weight cfg (fun _ => 1) s0 = cfg.N)
    (hi : LInv cfg s0 s) (ho : LOwn cfg s) (h : lstep cfg s l = some s') : LInv cfg s0 s' := by
  cases l with
  | main l =>
    simp only [lstep] at h
    split at h
    · rename_i a b
      split at h
      · rename_i p' hp; injection h with h; subst h
        exact linv_other hN hi hp (Or.inl ⟨a, b, rfl⟩)
      · cases h
    · rename_i a
      split at h
      · rename_i p' hp; injection h with h; subst h
        exact linv_other hN hi hp (Or.inr (Or.inl ⟨a, rfl⟩))
      · cases h
    · cases h
  | startPoll i got =>
    simp only [lstep] at h
    split at h
    · rename_i hth
      split at h
      · rename_i p' hp; injection h with h; subst h
        exact linv_poll (nxt := fun g => .top g) hN hi hp ⟨(by intro u e; rw [hth] at e; cases e), (by intro u e; rw [hth] at e; cases e)⟩
          (by intro e; rw [hth] at e; cases e) (fun t => Or.inr rfl) (by intro e; cases e)
      · cases h
    · cases h
  | topExit i =>
    simp only [lstep] at h
    split at h
    · rename_i hth
      split_ifs at h with hr
      injection h with h; subst h
      exact linv_idle hi (by rw [hth]; rintro (⟨u, e⟩ | e | ⟨u, e⟩) <;> cases e) hi.reach rfl id (fun _ => by simpa using hr)
    · rename_i t hth
      -- `while (global_run_flag)` with a task in hand: impossible without a continuous source
      split_ifs at h with hc
      exfalso
      have hf : cfg.loopFixed = false := by
        cases hfx : cfg.loopFixed with
        | true => rw [hfx] at hc; simp at hc
        | false => rfl
      have hrun : s.p.run = false := by
        cases hrx : s.p.run with
        | true => rw [hrx] at hc; simp at hc
        | false => rfl
      obtain ⟨k, hk⟩ := (ho.own i t (by rw [hth]; rfl)).1
      have had := reach_allDone hi.reach (hi.reach.flag hrun)
      have hs := (ho.nocont hf).2 t
      rw [hk] at hs
      rcases had.tasks t _ hk with ⟨c, hc'⟩ | ⟨c, n, hc', _⟩
      · simp only at hc'; subst hc'; simp at hs
      · simp only at hc'; subst hc'; simp at hs
    · cases h
  | topGo i =>
    simp only [lstep] at h
    split at h
    · rename_i t hth
      split_ifs at h
      injection h with h; subst h
      have hother : ∀ j, j ≠ i → upd s.th i (.exec t) j = s.th j := fun j hj => upd_other _ _ _ hj
      refine ⟨hi.reach, ?_, ?_, ?_, ?_⟩
      all_goals dsimp only
      · intro u k hu
        obtain ⟨j, hj⟩ := hi.holder u k hu
        by_cases e : j = i
        · subst e
          rw [hth] at hj
          rcases hj with hj | hj
          · cases hj
          · injection hj with hj; injection hj with hj; subst hj
            exact ⟨j, Or.inl (upd_same _ _ _)⟩
        · exact ⟨j, by rw [hother j e]; exact hj⟩
      · intro u k hu
        obtain ⟨j, hj1, hj2⟩ := hi.owner u k hu
        have e : j ≠ i := by intro e; subst e; rw [hth] at hj1; cases hj1
        exact ⟨j, by rw [hother j e]; exact hj1, hj2⟩
      · intro u c hu
        obtain ⟨j, hj⟩ := hi.oblig u c hu
        by_cases e : j = i
        · subst e; exact ⟨j, Or.inl ⟨t, upd_same _ _ _⟩⟩
        · exact ⟨j, by rw [hother j e]; exact hj⟩
      · intro j hj
        by_cases e : j = i
        · subst e; simp only [upd_same] at hj; cases hj
        · rw [hother j e] at hj; exact hi.exitFlag j hj
    · cases h
  | topPoll i got =>
    simp only [lstep] at h
    split at h
    · rename_i hth
      split_ifs at h with hr
      split at h
      · rename_i p' hp; injection h with h; subst h
        exact linv_poll (nxt := fun g => match g with | some t => .exec t | none => .check) hN hi hp
          ⟨(by intro u e; rw [hth] at e; cases e), (by intro u e; rw [hth] at e; cases e)⟩
          (by intro e; rw [hth] at e; cases e) (fun t => Or.inl rfl) (by intro e; cases e)
      · cases h
    · cases h
  | prem i g t' =>
    simp only [lstep] at h
    split at h
    · split_ifs at h with hr
      split at h
      · rename_i p' hp; injection h with h; subst h
        exact linv_other hN hi hp (Or.inr (Or.inr ⟨g, t', rfl⟩))
      · cases h
    · cases h
  | work i l =>
    simp only [lstep] at h
    split at h
    · rename_i t t0 fin hth hw
      by_cases htt : t = t0
      swap
      · rw [if_neg htt] at h; cases h
      rw [if_pos htt] at h
      subst htt
      split at h
      · rename_i p' hp
        injection h with h; subst h
        obtain ⟨⟨k0, hk0⟩, hfin, hnfin, hdelta⟩ := commit_tasks hp hw
        have hreach := reach_step l hN hi.reach hp
        have hthi : ∀ j, j ≠ i → (if fin = true then upd s.th i Th.post else s.th) j = s.th j := by
          intro j hj; split_ifs
          · exact upd_other _ _ _ hj
          · rfl
        have hthii : (if fin = true then upd s.th i Th.post else s.th) i = if fin = true then Th.post else Th.exec t := by
          split_ifs
          · exact upd_same _ _ _
          · exact hth
        refine ⟨hreach, ?_, ?_, ?_, ?_⟩
        all_goals dsimp only
        · intro u k hu
          by_cases e : u = t
          · subst e
            cases fin with
            | true => rw [hfin rfl] at hu; cases hu
            | false => exact ⟨i, Or.inl (by simpa using hth)⟩
          · cases hdelta u e with
            | same hs =>
              rw [hs] at hu
              obtain ⟨j, hj⟩ := hi.holder u k hu
              have hne : j ≠ i := by
                intro e'; subst e'; rw [hth] at hj
                rcases hj with hj | hj
                · injection hj with hj; exact e hj.symm
                · cases hj
              exact ⟨j, by rw [hthi j hne]; exact hj⟩
            | new h0 k' st h1 hst hp' =>
              rw [h1] at hu; injection hu with hu; injection hu with _ hu; exact absurd hu hst
        · intro u k hu
          have hucap := (hreach.inv.tk u _ hu).1
          by_cases hold : isPending s.p u = true
          · -- was pending before: same owner (not thread i, which was executing)
            have : ∃ k', s.p.tasks u = some ⟨k', .pending⟩ := by
              simp only [isPending] at hold
              split at hold
              · rename_i k' hk'; exact ⟨k', hk'⟩
              · cases hold
            obtain ⟨k', hk'⟩ := this
            obtain ⟨j, hj1, hj2⟩ := hi.owner u k' hk'
            have hne : j ≠ i := by intro e'; subst e'; rw [hth] at hj1; cases hj1
            refine ⟨j, by rw [hthi j hne]; exact hj1, ?_⟩
            rw [upd_other _ _ _ hne]; exact hj2
          · -- newly pending: created by this commit, which therefore ends the task
            have hne : u ≠ t := by
              intro e; subst e
              cases fin with
              | true => rw [hfin rfl] at hu; cases hu
              | false => obtain ⟨k2, hk2⟩ := hnfin rfl; rw [hk2] at hu; injection hu with hu; injection hu with _ hu; cases hu
            have hfinT : fin = true := by
              cases hdelta u hne with
              | same hs =>
                exfalso; apply hold
                simp only [isPending, ← hs, hu]
              | new h0 k' st h1 hst hp' =>
                rw [h1] at hu; injection hu with hu; injection hu with _ hu
                exact hp' hu
            refine ⟨i, by rw [hthii, hfinT]; rfl, ?_⟩
            simp only [upd_same]
            apply List.mem_append_right
            rw [List.mem_filter]
            refine ⟨List.mem_range.mpr hucap, ?_⟩
            have hnow : isPending p' u = true := by simp [isPending, hu]
            simp only [hnow, Bool.true_and, Bool.not_eq_true']
            simpa using hold
        · intro u c hu
          -- the committing thread itself is obliged (it executes, or adds its tasks and polls)
          refine ⟨i, ?_⟩
          rw [hthii]
          cases fin with
          | true => exact Or.inr (Or.inl rfl)
          | false => exact Or.inl ⟨t, rfl⟩
        · intro j hj
          have hne : j ≠ i := by
            intro e; subst e; rw [hthii] at hj
            split_ifs at hj <;> cases hj
          rw [hthi j hne] at hj
          exact run_stays_false l hp (hi.exitFlag j hj)
      · cases h
    · cases h
  | enq i t =>
    simp only [lstep] at h
    split at h
    · rename_i hth
      split_ifs at h with hm
      split at h
      · rename_i p' hp
        injection h with h; subst h
        obtain ⟨k, hk, rfl⟩ := step_enqueue hp
        have hreach := reach_step (.enqueue t) hN hi.reach hp
        refine ⟨hreach, ?_, ?_, ?_, ?_⟩
        all_goals dsimp only
        · intro u k' hu
          have e : u ≠ t := by
            intro e; subst e; simp only [upd_same] at hu; injection hu with hu; injection hu with _ hu; cases hu
          simp only [upd_other _ _ _ e] at hu
          exact hi.holder u k' hu
        · intro u k' hu
          have e : u ≠ t := by
            intro e; subst e; simp only [upd_same] at hu; injection hu with hu; injection hu with _ hu; cases hu
          simp only [upd_other _ _ _ e] at hu
          obtain ⟨j, hj1, hj2⟩ := hi.owner u k' hu
          refine ⟨j, hj1, ?_⟩
          by_cases ej : j = i
          · subst ej; simp only [upd_same]; exact mem_erase_ne hj2 e
          · simp only [upd_other _ _ _ ej]; exact hj2
        · intro u c hu
          by_cases e : u = t
          · exact ⟨i, Or.inr (Or.inl hth)⟩
          · simp only [upd_other _ _ _ e] at hu
            exact hi.oblig u c hu
        · intro j hj; exact hi.exitFlag j hj
      · cases h
    · cases h
  | innerPoll i got =>
    simp only [lstep] at h
    split at h
    · rename_i hth
      split_ifs at h with hm
      split at h
      · rename_i p' hp; injection h with h; subst h
        exact linv_poll (nxt := fun g => match g with | some t => .exec t | none => .check) hN hi hp
          ⟨(by intro u e; rw [hth] at e; cases e), (by intro u e; rw [hth] at e; cases e)⟩
          (by intro _; simpa using hm) (fun t => Or.inl rfl) (by intro e; cases e)
      · cases h
    · cases h
  | checkEmpty i =>
    simp only [lstep] at h
    split at h
    · rename_i hth
      split_ifs at h
      injection h with h; subst h
      exact linv_idle hi (by rw [hth]; rintro (⟨u, e⟩ | e | ⟨u, e⟩) <;> cases e) hi.reach rfl id (fun e => by cases e)
    · cases h
  | checkYes i =>
    simp only [lstep] at h
    split at h
    · rename_i hth
      split_ifs at h with hd
      injection h with h; subst h
      exact linv_idle hi (by rw [hth]; rintro (⟨u, e⟩ | e | ⟨u, e⟩) <;> cases e) (reach_setflag hN hi.reach hd) rfl
        (fun _ => rfl) (fun _ => rfl)
    · cases h
  | checkNo i got =>
    simp only [lstep] at h
    split at h
    · rename_i hth
      split_ifs at h with hc
      split at h
      · rename_i p' hp; injection h with h; subst h
        exact linv_poll (nxt := fun g => .top g) hN hi hp
          ⟨(by intro u e; rw [hth] at e; cases e), (by intro u e; rw [hth] at e; cases e)⟩
          (by intro e; rw [hth] at e; cases e) (fun t => Or.inr rfl) (by intro e; cases e)
      · cases h
    · rename_i hth
      split_ifs at h with hc
      split at h
      · rename_i p' hp; injection h with h; subst h
        exact linv_poll (nxt := fun g => .top g) hN hi hp
          ⟨(by intro u e; rw [hth] at e; cases e), (by intro u e; rw [hth] at e; cases e)⟩
          (by intro e; rw [hth] at e; cases e) (fun t => Or.inr rfl) (by intro e; cases e)
      · cases h
    · cases h

theorem lrun_inv {cfg : Cfg} {s0 : State} (hN : weight cfg (fun _ => 1) s0 = cfg.N) :
    ∀ (ls : List LLabel) (s s' : LState), LInv cfg s0 s → LOwn cfg s → lrun cfg s ls = some s' → LInv cfg s0 s' ∧ LOwn cfg s' := by
  intro ls
  induction ls with
  | nil => intro s s' hi ho h; simp only [lrun] at h; injection h with h; subst h; exact ⟨hi, ho⟩
  | cons l ls ih =>
    intro s s' hi ho h
    simp only [lrun] at h
    split at h
    · cases h
    · rename_i s1 hs1
      exact ih s1 s' (lstep_inv l hN hi ho hs1) (lstep_own l ho hs1) h

theorem linit_inv (cfg : Cfg) (srcIds : Nat → List Nat) (contIds : List Nat) :
    LInv cfg (init srcIds contIds) (linit srcIds contIds) := by
  refine ⟨reach_init cfg srcIds contIds, ?_, ?_, ?_, ?_⟩
  · intro t k h; simp [linit, init] at h
  · intro t k h; simp [linit, init] at h
  · intro t c h; simp [linit, init] at h
  · intro i h; simp [linit] at h

/-- at the start no thread holds anything; the old loop condition is only admitted without a continuous source -/
theorem linit_own (cfg : Cfg) (srcIds : Nat → List Nat) (contIds : List Nat) (hloop : cfg.loopFixed = true ∨ contIds = []) :
    LOwn cfg (linit srcIds contIds) := by
  refine ⟨fun i t h => by simp [linit, held] at h, ?_⟩
  intro hf
  rcases hloop with e | e
  · rw [e] at hf; cases hf
  · subst e; exact noCont_init srcIds

end CMacVerif.Photon
