import CMacVerif.Model.PhotonProtocol
import CMacVerif.Lemmas.Worker
import Mathlib.Tactic.SplitIfs
import Mathlib.Data.List.ProdSigma
import Mathlib.Data.List.Nodup
/-! Basic lemmas for the photon protocol (C01): weighted sums of packet lists, point updates,
references to buffers and the four ways a commit changes them (add / move / remove / refill). -/
namespace CMacVerif.Photon
open CMacVerif.Worker (sumOver sumOver_update sumOver_congr sumOver_le sumOver_zero sumOver_pos)

/-! ### weighted size of a packet list: `w = fun _ => 1` gives the length, `w = indicator of p` the
number of occurrences of packet p -/

def wsum (w : Nat → Nat) (l : List Nat) : Nat := (l.map w).sum

@[simp] theorem wsum_nil (w : Nat → Nat) : wsum w [] = 0 := rfl
@[simp] theorem wsum_cons (w : Nat → Nat) (a : Nat) (l : List Nat) : wsum w (a :: l) = w a + wsum w l := by
  simp [wsum]
@[simp] theorem wsum_append (w : Nat → Nat) (a b : List Nat) : wsum w (a ++ b) = wsum w a + wsum w b := by
  simp [wsum]

theorem wsum_take_drop (w : Nat → Nat) (l : List Nat) (k : Nat) : wsum w (l.take k) + wsum w (l.drop k) = wsum w l := by
  rw [← wsum_append, List.take_append_drop]

theorem wsum_one (l : List Nat) : wsum (fun _ => 1) l = l.length := by
  induction l with
  | nil => rfl
  | cons a l ih => simp [ih]; omega

theorem wsum_count (p : Nat) (l : List Nat) : wsum (fun x => if x = p then 1 else 0) l = l.count p := by
  induction l with
  | nil => rfl
  | cons a l ih =>
    simp only [wsum_cons, ih, List.count_cons]
    by_cases h : a = p
    · subst h; simp; omega
    · simp [h]

/-- splitting a list of (packet, tag) pairs by a predicate on the tag -/
theorem wsum_filter_split {β : Type} (w : Nat → Nat) (pk : List (Nat × β)) (p : Nat × β → Bool) :
    wsum w ((pk.filter p).map (·.1)) + wsum w ((pk.filter fun x => !p x).map (·.1)) = wsum w (pk.map (·.1)) := by
  induction pk with
  | nil => rfl
  | cons a l ih =>
    by_cases h : p a = true
    · simp [List.filter_cons, h] at ih ⊢
      omega
    · have h' : p a = false := by simpa using h
      simp [List.filter_cons, h'] at ih ⊢
      omega

theorem map_fst_zip {β : Type} (a : List Nat) (b : List β) (h : b.length = a.length) : (a.zip b).map (·.1) = a := by
  induction a generalizing b with
  | nil => simp
  | cons x a ih =>
    cases b with
    | nil => simp at h
    | cons y b => simp only [List.zip_cons_cons, List.map_cons]; rw [ih b (by simpa using h)]

/-! ### point updates -/

@[simp] theorem upd_same {α : Type} (f : Nat → α) (k : Nat) (a : α) : upd f k a k = a := by simp [upd]
theorem upd_other {α : Type} (f : Nat → α) (k : Nat) (a : α) {x : Nat} (h : x ≠ k) : upd f k a x = f x := by
  simp [upd, h]
@[simp] theorem upd2_same {α : Type} (f : Nat → Nat → α) (k i : Nat) (a : α) : upd2 f k i a k i = a := by simp [upd2]
theorem upd2_other {α : Type} (f : Nat → Nat → α) (k i : Nat) (a : α) {x y : Nat} (h : ¬(x = k ∧ y = i)) :
    upd2 f k i a x y = f x y := by simp [upd2, h]
@[simp] theorem updP_same {α : Type} (f : Nat × Nat → α) (k : Nat × Nat) (a : α) : updP f k a k = a := by simp [updP]
theorem updP_other {α : Type} (f : Nat × Nat → α) (k : Nat × Nat) (a : α) {x : Nat × Nat} (h : x ≠ k) :
    updP f k a x = f x := by simp [updP, h]

/-- a sum over `range n` after a point update inside the range -/
theorem sum_upd {α : Type} (n : Nat) (f : Nat → α) (k : Nat) (a : α) (g : α → Nat) (hk : k < n) :
    sumOver (List.range n) (fun x => g (upd f k a x)) + g (f k) = sumOver (List.range n) (fun x => g (f x)) + g a := by
  have := sumOver_update (List.nodup_range (n := n)) (List.mem_range.mpr hk) (f := fun x => g (f x))
    (f' := fun x => g (upd f k a x)) (by intro x _ hx; simp [upd_other _ _ _ hx])
  simpa using this

theorem sum_upd_out {α : Type} (n : Nat) (f : Nat → α) (k : Nat) (a : α) (g : α → Nat) (hk : ¬ k < n) :
    sumOver (List.range n) (fun x => g (upd f k a x)) = sumOver (List.range n) (fun x => g (f x)) := by
  apply sumOver_congr
  intro x hx
  have : x ≠ k := by intro e; subst e; exact hk (List.mem_range.mp hx)
  rw [upd_other _ _ _ this]

/-- the index set of the continuous buffers -/
def pairsU (cfg : Cfg) : List (Nat × Nat) := (List.range cfg.nblocks) ×ˢ (List.range cfg.norig)

theorem pairsU_nodup (cfg : Cfg) : (pairsU cfg).Nodup := List.Nodup.product List.nodup_range List.nodup_range

theorem mem_pairsU (cfg : Cfg) (c g : Nat) : (c, g) ∈ pairsU cfg ↔ c < cfg.nblocks ∧ g < cfg.norig := by
  simp [pairsU, List.mem_product]

theorem sum_updP (cfg : Cfg) (f : Nat × Nat → List Nat) (k : Nat × Nat) (a : List Nat) (g : List Nat → Nat)
    (hk : k ∈ pairsU cfg) :
    sumOver (pairsU cfg) (fun x => g (updP f k a x)) + g (f k) = sumOver (pairsU cfg) (fun x => g (f x)) + g a := by
  have := sumOver_update (pairsU_nodup cfg) hk (f := fun x => g (f x))
    (f' := fun x => g (updP f k a x)) (by intro x _ hx; simp [updP_other _ _ _ hx])
  simpa using this

/-! ### weight of a state -/

def kindW (w : Nat → Nat) : Kind → Nat
  | .source _ ids => wsum w ids
  | .contSource _ _ ids => wsum w ids
  | _ => 0

def taskW (w : Nat → Nat) : Option Task → Nat
  | some t => kindW w t.kind
  | none => 0

def bufW (w : Nat → Nat) : Option Buf → Nat
  | some b => wsum w b.ids
  | none => 0

/-- total weight of all packets that exist in the state (terminated ones included) -/
def weight (cfg : Cfg) (w : Nat → Nat) (s : State) : Nat :=
  wsum w s.done + sumOver (List.range cfg.nsrc) (fun i => wsum w (s.srcLeft i)) + wsum w s.contPool
    + sumOver (List.range cfg.taskCap) (fun t => taskW w (s.tasks t))
    + sumOver (List.range cfg.bufCap) (fun b => bufW w (s.pool b))
    + sumOver (pairsU cfg) (fun k => wsum w (s.cont k))

/-! ### references to buffers -/

inductive Ref where
  | task (t : Nat)
  | act (g i : Nat)
deriving DecidableEq

def kindBuf : Kind → Option Nat
  | .traverse b => some b
  | .reemit b => some b
  | _ => none

def refBuf (s : State) : Ref → Option Nat
  | .task t => match s.tasks t with | some tk => kindBuf tk.kind | none => none
  | .act g i => s.active g i

/-- what a reference requires of the buffer it points to -/
def okFor (cfg : Cfg) : Ref → Buf → Prop
  | .task _, buf => buf.ids ≠ [] ∧ buf.ids.length ≤ BUFSZ
  | .act g i, buf => buf.ids ≠ [] ∧ buf.ids.length < BUFSZ ∧ (cfg.ngb g i).isSome = true

/-- ownership: every buffer in use has exactly one reference (a task or an active-buffer entry),
references only point to buffers in use, with contents that fit -/
structure Own (cfg : Cfg) (s : State) : Prop where
  uniq : ∀ r1 r2 b, refBuf s r1 = some b → refBuf s r2 = some b → r1 = r2
  live : ∀ r b, refBuf s r = some b → ∃ buf, s.pool b = some buf ∧ okFor cfg r buf
  owned : ∀ b buf, s.pool b = some buf → b < cfg.bufCap ∧ ∃ r, refBuf s r = some b

theorem own_same {cfg : Cfg} {s s' : State} (h : Own cfg s) (hp : s'.pool = s.pool)
    (hr : ∀ x, refBuf s' x = refBuf s x) : Own cfg s' := by
  refine ⟨?_, ?_, ?_⟩
  · intro r1 r2 b h1 h2; rw [hr] at h1 h2; exact h.uniq r1 r2 b h1 h2
  · intro r b h1; rw [hr] at h1; rw [hp]; exact h.live r b h1
  · intro b buf h1; rw [hp] at h1
    obtain ⟨hb, r, hr'⟩ := h.owned b buf h1
    exact ⟨hb, r, by rw [hr]; exact hr'⟩

/-- a new buffer `b` with a new reference `r` -/
theorem own_add {cfg : Cfg} {s s' : State} (h : Own cfg s) {b : Nat} {r : Ref} {buf : Buf}
    (hfree : s.pool b = none) (hb : b < cfg.bufCap) (hok : okFor cfg r buf)
    (hp : s'.pool = upd s.pool b (some buf))
    (hr : ∀ x, refBuf s' x = if x = r then some b else refBuf s x)
    (hrn : refBuf s r = none) : Own cfg s' := by
  have hnob : ∀ x, refBuf s x ≠ some b := by
    intro x hx; obtain ⟨_, hq, _⟩ := h.live x b hx; rw [hfree] at hq; cases hq
  refine ⟨?_, ?_, ?_⟩
  · intro r1 r2 b' h1 h2
    rw [hr] at h1 h2
    by_cases e1 : r1 = r <;> by_cases e2 : r2 = r
    · rw [e1, e2]
    · rw [if_pos e1] at h1; rw [if_neg e2] at h2; injection h1 with h1; subst h1; exact absurd h2 (hnob r2)
    · rw [if_neg e1] at h1; rw [if_pos e2] at h2; injection h2 with h2; subst h2; exact absurd h1 (hnob r1)
    · rw [if_neg e1] at h1; rw [if_neg e2] at h2; exact h.uniq r1 r2 b' h1 h2
  · intro x b' hx
    rw [hr] at hx; rw [hp]
    by_cases e : x = r
    · rw [if_pos e] at hx; injection hx with hx; subst hx; subst e
      exact ⟨buf, by simp, hok⟩
    · rw [if_neg e] at hx
      have hne : b' ≠ b := by intro e'; subst e'; exact hnob x hx
      rw [upd_other _ _ _ hne]; exact h.live x b' hx
  · intro b' buf' hb'
    rw [hp] at hb'
    by_cases e : b' = b
    · subst e; exact ⟨hb, r, by rw [hr]; simp⟩
    · rw [upd_other _ _ _ e] at hb'
      obtain ⟨hlt, x, hx⟩ := h.owned b' buf' hb'
      refine ⟨hlt, x, ?_⟩
      rw [hr]
      have : x ≠ r := by intro e'; subst e'; rw [hrn] at hx; cases hx
      rw [if_neg this]; exact hx

/-- the reference to `b` moves from `ro` to `rn` -/
theorem own_move {cfg : Cfg} {s s' : State} (h : Own cfg s) {b : Nat} {ro rn : Ref}
    (hro : refBuf s ro = some b) (hrn : refBuf s rn = none)
    (hok : ∀ buf, s.pool b = some buf → okFor cfg ro buf → okFor cfg rn buf)
    (hp : s'.pool = s.pool)
    (hr : ∀ x, refBuf s' x = if x = rn then some b else if x = ro then none else refBuf s x) : Own cfg s' := by
  have hne : rn ≠ ro := by intro e; rw [e, hro] at hrn; cases hrn
  refine ⟨?_, ?_, ?_⟩
  · intro r1 r2 b' h1 h2
    rw [hr] at h1 h2
    by_cases e1 : r1 = rn <;> by_cases e2 : r2 = rn
    · rw [e1, e2]
    · rw [if_pos e1] at h1; rw [if_neg e2] at h2; injection h1 with h1; subst h1
      by_cases e3 : r2 = ro
      · rw [if_pos e3] at h2; cases h2
      · rw [if_neg e3] at h2; exact absurd (h.uniq r2 ro _ h2 hro) e3
    · rw [if_neg e1] at h1; rw [if_pos e2] at h2; injection h2 with h2; subst h2
      by_cases e3 : r1 = ro
      · rw [if_pos e3] at h1; cases h1
      · rw [if_neg e3] at h1; exact absurd (h.uniq r1 ro _ h1 hro) e3
    · rw [if_neg e1] at h1; rw [if_neg e2] at h2
      by_cases e3 : r1 = ro
      · rw [if_pos e3] at h1; cases h1
      · by_cases e4 : r2 = ro
        · rw [if_pos e4] at h2; cases h2
        · rw [if_neg e3] at h1; rw [if_neg e4] at h2; exact h.uniq r1 r2 b' h1 h2
  · intro x b' hx
    rw [hr] at hx; rw [hp]
    by_cases e : x = rn
    · rw [if_pos e] at hx; injection hx with hx; subst hx; subst e
      obtain ⟨buf, hq, hk⟩ := h.live ro _ hro
      exact ⟨buf, hq, hok buf hq hk⟩
    · rw [if_neg e] at hx
      by_cases e3 : x = ro
      · rw [if_pos e3] at hx; cases hx
      · rw [if_neg e3] at hx; exact h.live x b' hx
  · intro b' buf' hb'
    rw [hp] at hb'
    obtain ⟨hlt, x, hx⟩ := h.owned b' buf' hb'
    refine ⟨hlt, ?_⟩
    by_cases e : b' = b
    · subst e; exact ⟨rn, by rw [hr]; simp⟩
    · refine ⟨x, ?_⟩
      rw [hr]
      have h1 : x ≠ rn := by intro e'; subst e'; rw [hrn] at hx; cases hx
      have h2 : x ≠ ro := by intro e'; subst e'; rw [hro] at hx; injection hx with hx; exact e hx.symm
      rw [if_neg h1, if_neg h2]; exact hx

/-- buffer `b` and its reference `r` disappear -/
theorem own_remove {cfg : Cfg} {s s' : State} (h : Own cfg s) {b : Nat} {r : Ref}
    (hrb : refBuf s r = some b) (hp : s'.pool = upd s.pool b none)
    (hr : ∀ x, refBuf s' x = if x = r then none else refBuf s x) : Own cfg s' := by
  refine ⟨?_, ?_, ?_⟩
  · intro r1 r2 b' h1 h2
    rw [hr] at h1 h2
    by_cases e1 : r1 = r
    · rw [if_pos e1] at h1; cases h1
    · by_cases e2 : r2 = r
      · rw [if_pos e2] at h2; cases h2
      · rw [if_neg e1] at h1; rw [if_neg e2] at h2; exact h.uniq r1 r2 b' h1 h2
  · intro x b' hx
    rw [hr] at hx; rw [hp]
    by_cases e : x = r
    · rw [if_pos e] at hx; cases hx
    · rw [if_neg e] at hx
      have hne : b' ≠ b := by intro e'; subst e'; exact e (h.uniq x r _ hx hrb)
      rw [upd_other _ _ _ hne]; exact h.live x b' hx
  · intro b' buf' hb'
    rw [hp] at hb'
    by_cases e : b' = b
    · subst e; simp at hb'
    · rw [upd_other _ _ _ e] at hb'
      obtain ⟨hlt, x, hx⟩ := h.owned b' buf' hb'
      refine ⟨hlt, x, ?_⟩
      rw [hr]
      have : x ≠ r := by intro e'; subst e'; rw [hrb] at hx; injection hx with hx; exact e hx.symm
      rw [if_neg this]; exact hx

/-- the contents of the buffer `b` (in use) change, references stay -/
theorem own_refill {cfg : Cfg} {s s' : State} (h : Own cfg s) {b : Nat} {buf' : Buf}
    (hin : (s.pool b).isSome = true) (hp : s'.pool = upd s.pool b (some buf'))
    (hr : ∀ x, refBuf s' x = refBuf s x)
    (hok : ∀ r, refBuf s r = some b → okFor cfg r buf') : Own cfg s' := by
  refine ⟨?_, ?_, ?_⟩
  · intro r1 r2 b' h1 h2; rw [hr] at h1 h2; exact h.uniq r1 r2 b' h1 h2
  · intro x b' hx
    rw [hr] at hx; rw [hp]
    by_cases e : b' = b
    · subst e; exact ⟨buf', by simp, hok x hx⟩
    · rw [upd_other _ _ _ e]; exact h.live x b' hx
  · intro b' buf'' hb'
    rw [hp] at hb'
    by_cases e : b' = b
    · subst e
      cases hq : s.pool b' with
      | none => rw [hq] at hin; cases hin
      | some bb =>
        obtain ⟨hlt, x, hx⟩ := h.owned b' bb hq
        exact ⟨hlt, x, by rw [hr]; exact hx⟩
    · rw [upd_other _ _ _ e] at hb'
      obtain ⟨hlt, x, hx⟩ := h.owned b' buf'' hb'
      exact ⟨hlt, x, by rw [hr]; exact hx⟩

/-! ### references after an update of the task table -/

theorem refBuf_task (s : State) (t : Nat) : refBuf s (.task t) = match s.tasks t with | some tk => kindBuf tk.kind | none => none := rfl
theorem refBuf_act (s : State) (g i : Nat) : refBuf s (.act g i) = s.active g i := rfl

/-- the free-slot tests -/
theorem bufFree_iff (cfg : Cfg) (s : State) (b : Nat) : bufFree cfg s b = true ↔ b < cfg.bufCap ∧ s.pool b = none := by
  simp [bufFree, Option.isNone_iff_eq_none]
theorem taskFree_iff (cfg : Cfg) (s : State) (t : Nat) : taskFree cfg s t = true ↔ t < cfg.taskCap ∧ s.tasks t = none := by
  simp [taskFree, Option.isNone_iff_eq_none]

end CMacVerif.Photon
