import CMacVerif.Model.Rotation
import Mathlib.Tactic.SplitIfs
/-! helper lemmas for C14 -/
namespace CMacVerif.Rotation

/-- effect of the whole shifting loop started at `m` -/
def shifted (fs : FS) (m : Nat) : FS := fun name =>
  match name with
  | .dump => fs .dump
  | .back j => if j = 0 then (if m = 0 then fs (.back 0) else none)
               else if j ≤ m then fs (.back (j - 1)) else fs (.back j)

theorem shifted_zero (fs : FS) : shifted fs 0 = fs := by
  funext name; cases name with
  | dump => rfl
  | back j => simp only [shifted]; split_ifs with h1 h2 <;> first | rfl | (subst h1; rfl) | omega

theorem shift_exec (m : Nat) : ∀ (fs : FS) (rest : List Op),
    (∀ j, j < m → fs (.back j) ≠ none) →
    execAll fs (shiftOps m ++ rest) = execAll (shifted fs m) rest := by
  induction m with
  | zero => intro fs rest _; simp [shiftOps, shifted_zero]
  | succ m ih =>
    intro fs rest h
    have hm := h m (Nat.lt_succ_self m)
    obtain ⟨c, hc⟩ := Option.ne_none_iff_exists'.mp hm
    simp only [shiftOps, List.cons_append, execAll, exec, hc]
    rw [ih]
    · congr 1
      funext name; cases name with
      | dump => simp only [shifted, FS.set, reduceCtorEq, if_false]
      | back j =>
        simp only [shifted, FS.set, Name.back.injEq]
        split_ifs <;> first | rfl | omega | contradiction | (subst_vars; simp only [Nat.add_sub_cancel, hc])
    · intro j hj
      simp only [FS.set, Name.back.injEq]
      split_ifs <;> first | omega | exact h j (by omega)

/-- while the shifting loop runs, the main dump file is never touched -/
theorem shift_prefixes (m : Nat) : ∀ (fs : FS) (rest : List Op),
    (∀ j, j < m → fs (.back j) ≠ none) →
    ∀ fs' ∈ prefixes fs (shiftOps m ++ rest),
      fs' .dump = fs .dump ∨ fs' ∈ prefixes (shifted fs m) rest := by
  induction m with
  | zero => intro fs rest _ fs' hfs'; right; simpa [shiftOps, shifted_zero] using hfs'
  | succ m ih =>
    intro fs rest h fs' hfs'
    have hm := h m (Nat.lt_succ_self m)
    obtain ⟨c, hc⟩ := Option.ne_none_iff_exists'.mp hm
    simp only [shiftOps, List.cons_append, prefixes, exec, hc, List.mem_cons] at hfs'
    rcases hfs' with rfl | hfs'
    · left; rfl
    · have h1 : ∀ j, j < m → ((fs.set (.back (m + 1)) (some c)).set (.back m) none) (.back j) ≠ none := by
        intro j hj
        simp only [FS.set, Name.back.injEq]
        split_ifs <;> first | omega | exact h j (by omega)
      rcases ih _ rest h1 fs' hfs' with hd | hp
      · left; rw [hd]; simp [FS.set]
      · right
        have e : shifted ((fs.set (.back (m + 1)) (some c)).set (.back m) none) m = shifted fs (m + 1) := by
          funext name; cases name with
          | dump => simp only [shifted, FS.set, reduceCtorEq, if_false]
          | back j =>
            simp only [shifted, FS.set, Name.back.injEq]
            split_ifs <;> first | rfl | omega | contradiction | (subst_vars; simp only [Nat.add_sub_cancel, hc])
        rw [← e]; exact hp

end CMacVerif.Rotation
