import CMacVerif.Model.RiemannVacuum
import CMacVerif.Inst.Real
import Mathlib.Tactic.Linarith
import Mathlib.Tactic.Ring
import Mathlib.Tactic.FieldSimp
import Mathlib.Tactic.NormNum
import Mathlib.Tactic.Positivity
/-!
Facts about the vacuum samplers of the exact Riemann solver at `ℝ`
(`Model/RiemannVacuum.lean` instantiated with Mathlib's real numbers, `ovf = 0`).
-/
namespace CMacVerif.RiemannVacuum

/-! ### literals and constructor constants -/

theorem lit0 : (0.0 : ℝ) = 0 := by norm_num
theorem lit1 : (1.0 : ℝ) = 1 := by norm_num
theorem lit2 : (2.0 : ℝ) = 2 := by norm_num
theorem lit05 : (0.5 : ℝ) = 1 / 2 := by norm_num
theorem lit025 : (0.25 : ℝ) = 1 / 4 := by norm_num

/-- the clamp in the constructor makes the effective adiabatic index > 1 for every argument -/
theorem effGamma_gt_one (g : ℝ) : 1 < effGamma g := by
  unfold effGamma amax; split_ifs with h
  · norm_num
  · have : (1.00000001 : ℝ) ≤ g := not_lt.mp h
    have h2 : (1 : ℝ) < 1.00000001 := by norm_num
    linarith

theorem effGamma_eq (g : ℝ) (h : (1.00000001 : ℝ) ≤ g) : effGamma g = g := by
  unfold effGamma amax; rw [if_neg (not_lt.mpr h)]

theorem effGamma_le_two (g : ℝ) (h : g ≤ 2) : effGamma g ≤ 2 := by
  unfold effGamma amax; split_ifs
  · norm_num
  · exact h

theorem tdgm1_pos {G : ℝ} (hG : 1 < G) : 0 < tdgm1 G := by
  unfold tdgm1; rw [lit2, lit1]; exact div_pos (by norm_num) (by linarith)

theorem tdgp1_pos {G : ℝ} (hG : 1 < G) : 0 < tdgp1 G := by
  unfold tdgp1; rw [lit2, lit1]; exact div_pos (by norm_num) (by linarith)

theorem gm1dgp1_pos {G : ℝ} (hG : 1 < G) : 0 < gm1dgp1 G := by
  unfold gm1dgp1; rw [lit1]; exact div_pos (by linarith) (by linarith)

/-- `(γ-1)/(γ+1) · 2/(γ-1) = 2/(γ+1)` -/
theorem gm1dgp1_mul_tdgm1 {G : ℝ} (hG : 1 < G) : gm1dgp1 G * tdgm1 G = tdgp1 G := by
  unfold gm1dgp1 tdgm1 tdgp1; rw [lit2, lit1]
  have h1 : G - 1 ≠ 0 := by intro h; linarith
  have h2 : G + 1 ≠ 0 := by intro h; linarith
  field_simp

/-- `2/(γ+1) · ((γ-1)/2 + 1) = 1`: a boost of the gas and of `x/t` boosts the fan velocity -/
theorem tdgp1_mul_gm1d2 {G : ℝ} (hG : 1 < G) : tdgp1 G * (gm1d2 G + 1) = 1 := by
  unfold tdgp1 gm1d2; rw [lit2, lit1, lit05]
  have h2 : G + 1 ≠ 0 := by intro h; linarith
  field_simp; ring

/-- `2/(γ+1) + (γ-1)/(γ+1) = 1` -/
theorem tdgp1_add_gm1dgp1 {G : ℝ} (hG : 1 < G) : tdgp1 G + gm1dgp1 G = 1 := by
  unfold tdgp1 gm1dgp1; rw [lit2, lit1]
  have h2 : G + 1 ≠ 0 := by intro h; linarith
  field_simp; ring

/-! ### the vacuum tests at `ℝ` (`ovf = 0`) -/

theorem isZero_iff (x : ℝ) : isZero x = true ↔ x = 0 := by
  unfold isZero; rw [lit0]
  simp only [Bool.and_eq_true, decide_eq_true_eq]
  exact ⟨fun h => le_antisymm h.1 h.2, fun h => by rw [h]; exact ⟨le_refl _, le_refl _⟩⟩

theorem invOverflows_iff (x : ℝ) : invOverflows 0 x = true ↔ x = 0 := by
  unfold invOverflows
  simp only [Bool.and_eq_true, decide_eq_true_eq, neg_zero]
  exact ⟨fun h => le_antisymm h.2 h.1, fun h => by rw [h]; exact ⟨le_refl _, le_refl _⟩⟩

/-- with exact reals a state is "vacuum" iff its density or its pressure is zero -/
theorem isVacuum_iff (rho P : ℝ) : isVacuum 0 rho rho P P = true ↔ (rho = 0 ∨ P = 0) := by
  unfold isVacuum
  simp only [Bool.or_eq_true, isZero_iff, invOverflows_iff]
  tauto

/-! ### the fans: positivity of the base, head, tail, boost -/

/-- inside the left fan (`x/t` below the tail speed `u + 2a/(γ-1)`, above the head `u - a`) the
sound speed is positive and the base of the power is non-negative -/
theorem leftFan_base_nonneg {G uL aL dxdt : ℝ} (hG : 1 < G) (h1 : uL - aL < dxdt)
    (h2 : dxdt ≤ uL + tdgm1 G * aL) :
    0 < aL ∧ 0 ≤ tdgp1 G + gm1dgp1 G * (uL - dxdt) / aL := by
  have ht := tdgm1_pos hG
  have ha : 0 < aL := by nlinarith
  refine ⟨ha, ?_⟩
  have hx : -(tdgm1 G) ≤ (uL - dxdt) / aL := by
    rw [le_div_iff₀ ha]; linarith
  have hg := gm1dgp1_pos hG
  have e := gm1dgp1_mul_tdgm1 hG
  have : gm1dgp1 G * (uL - dxdt) / aL = gm1dgp1 G * ((uL - dxdt) / aL) := by ring
  rw [this]
  nlinarith

theorem rightFan_base_nonneg {G uR aR dxdt : ℝ} (hG : 1 < G) (h1 : dxdt < uR + aR)
    (h2 : uR - tdgm1 G * aR ≤ dxdt) :
    0 < aR ∧ 0 ≤ tdgp1 G - gm1dgp1 G * (uR - dxdt) / aR := by
  have ht := tdgm1_pos hG
  have ha : 0 < aR := by nlinarith
  refine ⟨ha, ?_⟩
  have hx : (uR - dxdt) / aR ≤ tdgm1 G := by
    rw [div_le_iff₀ ha]; linarith
  have hg := gm1dgp1_pos hG
  have e := gm1dgp1_mul_tdgm1 hG
  have : gm1dgp1 G * (uR - dxdt) / aR = gm1dgp1 G * ((uR - dxdt) / aR) := by ring
  rw [this]
  nlinarith


@[simp] theorem pow_real (x y : ℝ) : ArithFns.pow x y = x ^ y := rfl
@[simp] theorem sqrt_real (x : ℝ) : ArithFns.sqrt x = Real.sqrt x := rfl

theorem tgdgm1_pos {G : ℝ} (hG : 1 < G) : 0 < tgdgm1 G := by
  unfold tgdgm1; rw [lit2]; exact div_pos (by nlinarith) (by rw [lit1]; linarith)

/-! ### the clamp `base = std::max(0., …)` of fix 52f78a3 -/

theorem amax0_nonneg (x : ℝ) : 0 ≤ amax (0.0 : ℝ) x := by
  rw [amax_real, lit0]; exact le_max_left _ _

theorem amax0_of_nonneg {x : ℝ} (h : 0 ≤ x) : amax (0.0 : ℝ) x = x := by
  rw [amax_real, lit0]; exact max_eq_right h

theorem amax0_one : amax (0.0 : ℝ) 1 = 1 := amax0_of_nonneg zero_le_one
theorem amax0_zero : amax (0.0 : ℝ) 0 = 0 := amax0_of_nonneg (le_refl _)

/-! ### sampled states are physical (`vacuum_sample_physical`) -/

theorem leftFan_physical {G rhoL uL PL aL dxdt : ℝ} (tag : Nat) (_hG : 1 < G) (hr : 0 ≤ rhoL)
    (hP : 0 ≤ PL) (_h1 : uL - aL < dxdt) (_h2 : dxdt ≤ uL + tdgm1 G * aL) :
    0 ≤ (leftFan G rhoL uL PL aL dxdt tag).rho ∧ 0 ≤ (leftFan G rhoL uL PL aL dxdt tag).P := by
  have hb := amax0_nonneg (tdgp1 G + gm1dgp1 G * (uL - dxdt) / aL)
  unfold leftFan; simp only [pow_real]
  exact ⟨mul_nonneg hr (Real.rpow_nonneg hb _), mul_nonneg hP (Real.rpow_nonneg hb _)⟩

theorem rightFan_physical {G rhoR uR PR aR dxdt : ℝ} (tag : Nat) (_hG : 1 < G) (hr : 0 ≤ rhoR)
    (hP : 0 ≤ PR) (_h1 : dxdt < uR + aR) (_h2 : uR - tdgm1 G * aR ≤ dxdt) :
    0 ≤ (rightFan G rhoR uR PR aR dxdt tag).rho ∧ 0 ≤ (rightFan G rhoR uR PR aR dxdt tag).P := by
  have hb := amax0_nonneg (tdgp1 G - gm1dgp1 G * (uR - dxdt) / aR)
  unfold rightFan; simp only [pow_real]
  exact ⟨mul_nonneg hr (Real.rpow_nonneg hb _), mul_nonneg hP (Real.rpow_nonneg hb _)⟩

theorem vacuumState_physical (tag : Nat) :
    0 ≤ (vacuumState tag : Sample ℝ).rho ∧ 0 ≤ (vacuumState tag : Sample ℝ).P := by
  unfold vacuumState; simp only [lit0]; exact ⟨le_refl _, le_refl _⟩

theorem sampleRightVacuum_physical {G rhoL uL PL aL dxdt : ℝ} (hG : 1 < G) (hr : 0 ≤ rhoL)
    (hP : 0 ≤ PL) :
    0 ≤ (sampleRightVacuum G rhoL uL PL aL dxdt).rho ∧ 0 ≤ (sampleRightVacuum G rhoL uL PL aL dxdt).P := by
  unfold sampleRightVacuum
  simp only
  split_ifs with h1 h2
  · exact leftFan_physical _ hG hr hP h1 h2.le
  · exact vacuumState_physical _
  · exact ⟨hr, hP⟩

theorem sampleLeftVacuum_physical {G rhoR uR PR aR dxdt : ℝ} (hG : 1 < G) (hr : 0 ≤ rhoR)
    (hP : 0 ≤ PR) :
    0 ≤ (sampleLeftVacuum G rhoR uR PR aR dxdt).rho ∧ 0 ≤ (sampleLeftVacuum G rhoR uR PR aR dxdt).P := by
  unfold sampleLeftVacuum
  simp only
  split_ifs with h1 h2
  · exact rightFan_physical _ hG hr hP h1 h2.le
  · exact vacuumState_physical _
  · exact ⟨hr, hP⟩

theorem sampleVacuumGeneration_physical {G rhoL uL PL aL rhoR uR PR aR dxdt : ℝ} (hG : 1 < G)
    (hrL : 0 ≤ rhoL) (hPL : 0 ≤ PL) (hrR : 0 ≤ rhoR) (hPR : 0 ≤ PR) :
    0 ≤ (sampleVacuumGeneration G rhoL uL PL aL rhoR uR PR aR dxdt).rho ∧
      0 ≤ (sampleVacuumGeneration G rhoL uL PL aL rhoR uR PR aR dxdt).P := by
  unfold sampleVacuumGeneration
  simp only
  split_ifs with h0 h1 h2 h3
  · exact vacuumState_physical _
  · refine rightFan_physical _ hG hrR hPR h2 ?_
    by_contra hc
    exact h0 ⟨not_le.mp hc, h1⟩
  · exact ⟨hrR, hPR⟩
  · exact leftFan_physical _ hG hrL hPL h3 (not_lt.mp h1)
  · exact ⟨hrL, hPL⟩

/-! ### Galilean covariance of the samplers (`vacuum_galilean`) -/

/-- the same state seen from a frame moving with `-w`: density and pressure unchanged, velocity
shifted (the vacuum state, flag 0, carries the conventional velocity 0 in every frame) -/
def Sample.boost (w : ℝ) (s : Sample ℝ) : Sample ℝ :=
  ⟨s.rho, if s.flag = 0 then s.u else s.u + w, s.P, s.flag, s.tag⟩

theorem leftFan_galilean {G : ℝ} (hG : 1 < G) (rhoL uL PL aL dxdt w : ℝ) (tag : Nat) :
    leftFan G rhoL (uL + w) PL aL (dxdt + w) tag = (leftFan G rhoL uL PL aL dxdt tag).boost w := by
  have e := tdgp1_mul_gm1d2 hG
  have hb : uL + w - (dxdt + w) = uL - dxdt := by ring
  unfold leftFan Sample.boost
  ext
  · simp only [hb]
  · simp only; rw [if_neg (by decide)]; linear_combination w * e
  · simp only [hb]
  · rfl
  · rfl

theorem rightFan_galilean {G : ℝ} (hG : 1 < G) (rhoR uR PR aR dxdt w : ℝ) (tag : Nat) :
    rightFan G rhoR (uR + w) PR aR (dxdt + w) tag = (rightFan G rhoR uR PR aR dxdt tag).boost w := by
  have e := tdgp1_mul_gm1d2 hG
  have hb : uR + w - (dxdt + w) = uR - dxdt := by ring
  unfold rightFan Sample.boost
  ext
  · simp only [hb]
  · simp only; rw [if_neg (by decide)]; linear_combination w * e
  · simp only [hb]
  · rfl
  · rfl

theorem vacuumState_boost (w : ℝ) (tag : Nat) :
    (vacuumState tag : Sample ℝ).boost w = vacuumState tag := by
  unfold vacuumState Sample.boost; simp

theorem sampleRightVacuum_galilean {G : ℝ} (hG : 1 < G) (rhoL uL PL aL dxdt w : ℝ) :
    sampleRightVacuum G rhoL (uL + w) PL aL (dxdt + w)
      = (sampleRightVacuum G rhoL uL PL aL dxdt).boost w := by
  have c1 : (uL + w - aL < dxdt + w) ↔ (uL - aL < dxdt) := by constructor <;> intro h <;> linarith
  have c2 : (dxdt + w < uL + w + tdgm1 G * aL) ↔ (dxdt < uL + tdgm1 G * aL) := by
    constructor <;> intro h <;> linarith
  unfold sampleRightVacuum
  simp only [c1, c2]
  split_ifs
  · exact leftFan_galilean hG ..
  · exact (vacuumState_boost w _).symm
  · simp [Sample.boost]

theorem sampleLeftVacuum_galilean {G : ℝ} (hG : 1 < G) (rhoR uR PR aR dxdt w : ℝ) :
    sampleLeftVacuum G rhoR (uR + w) PR aR (dxdt + w)
      = (sampleLeftVacuum G rhoR uR PR aR dxdt).boost w := by
  have c1 : (dxdt + w < uR + w + aR) ↔ (dxdt < uR + aR) := by constructor <;> intro h <;> linarith
  have c2 : (uR + w - tdgm1 G * aR < dxdt + w) ↔ (uR - tdgm1 G * aR < dxdt) := by
    constructor <;> intro h <;> linarith
  unfold sampleLeftVacuum
  simp only [c1, c2]
  split_ifs
  · exact rightFan_galilean hG ..
  · exact (vacuumState_boost w _).symm
  · simp [Sample.boost]

theorem sampleVacuumGeneration_galilean {G : ℝ} (hG : 1 < G)
    (rhoL uL PL aL rhoR uR PR aR dxdt w : ℝ) :
    sampleVacuumGeneration G rhoL (uL + w) PL aL rhoR (uR + w) PR aR (dxdt + w)
      = (sampleVacuumGeneration G rhoL uL PL aL rhoR uR PR aR dxdt).boost w := by
  have c1 : (dxdt + w < uR + w + aR) ↔ (dxdt < uR + aR) := by constructor <;> intro h <;> linarith
  have c2 : (uL + w - aL < dxdt + w) ↔ (uL - aL < dxdt) := by constructor <;> intro h <;> linarith
  have c3 : (dxdt + w < uR + w - tdgm1 G * aR) ↔ (dxdt < uR - tdgm1 G * aR) := by
    constructor <;> intro h <;> linarith
  have c4 : (uL + w + tdgm1 G * aL < dxdt + w) ↔ (uL + tdgm1 G * aL < dxdt) := by
    constructor <;> intro h <;> linarith
  unfold sampleVacuumGeneration
  simp only [c1, c2, c3, c4]
  split_ifs
  · exact (vacuumState_boost w _).symm
  · exact rightFan_galilean hG ..
  · simp [Sample.boost]
  · exact leftFan_galilean hG ..
  · simp [Sample.boost]

/-! ### the fan joins the undisturbed state at its head and the vacuum at its tail -/

theorem leftFan_head {G : ℝ} (hG : 1 < G) (rhoL uL PL aL : ℝ) (ha : aL ≠ 0) (tag : Nat) :
    leftFan G rhoL uL PL aL (uL - aL) tag = ⟨rhoL, uL, PL, -1, tag⟩ := by
  have e := tdgp1_mul_gm1d2 hG
  have e2 := tdgp1_add_gm1dgp1 hG
  have hb : tdgp1 G + gm1dgp1 G * (uL - (uL - aL)) / aL = 1 := by
    rw [← e2]; field_simp; ring
  unfold leftFan
  ext
  · simp only [hb, amax0_one, pow_real, Real.one_rpow, mul_one]
  · simp only; linear_combination uL * e
  · simp only [hb, amax0_one, pow_real, Real.one_rpow, mul_one]
  · rfl
  · rfl

theorem rightFan_head {G : ℝ} (hG : 1 < G) (rhoR uR PR aR : ℝ) (ha : aR ≠ 0) (tag : Nat) :
    rightFan G rhoR uR PR aR (uR + aR) tag = ⟨rhoR, uR, PR, 1, tag⟩ := by
  have e := tdgp1_mul_gm1d2 hG
  have e2 := tdgp1_add_gm1dgp1 hG
  have hb : tdgp1 G - gm1dgp1 G * (uR - (uR + aR)) / aR = 1 := by
    rw [← e2]; field_simp; ring
  unfold rightFan
  ext
  · simp only [hb, amax0_one, pow_real, Real.one_rpow, mul_one]
  · simp only; linear_combination uR * e
  · simp only [hb, amax0_one, pow_real, Real.one_rpow, mul_one]
  · rfl
  · rfl

/-- at the tail `x/t = u + 2a/(γ-1)` density and pressure of the fan are zero -/
theorem leftFan_tail {G : ℝ} (hG : 1 < G) (rhoL uL PL aL : ℝ) (ha : aL ≠ 0) (tag : Nat) :
    (leftFan G rhoL uL PL aL (uL + tdgm1 G * aL) tag).rho = 0 ∧
      (leftFan G rhoL uL PL aL (uL + tdgm1 G * aL) tag).P = 0 := by
  have e := gm1dgp1_mul_tdgm1 hG
  have hb : tdgp1 G + gm1dgp1 G * (uL - (uL + tdgm1 G * aL)) / aL = 0 := by
    rw [← e]; field_simp; ring
  unfold leftFan
  simp only [hb, amax0_zero, pow_real]
  rw [Real.zero_rpow (tdgm1_pos hG).ne', Real.zero_rpow (tgdgm1_pos hG).ne']
  simp

theorem rightFan_tail {G : ℝ} (hG : 1 < G) (rhoR uR PR aR : ℝ) (ha : aR ≠ 0) (tag : Nat) :
    (rightFan G rhoR uR PR aR (uR - tdgm1 G * aR) tag).rho = 0 ∧
      (rightFan G rhoR uR PR aR (uR - tdgm1 G * aR) tag).P = 0 := by
  have e := gm1dgp1_mul_tdgm1 hG
  have hb : tdgp1 G - gm1dgp1 G * (uR - (uR - tdgm1 G * aR)) / aR = 0 := by
    rw [← e]; field_simp; ring
  unfold rightFan
  simp only [hb, amax0_zero, pow_real]
  rw [Real.zero_rpow (tdgm1_pos hG).ne', Real.zero_rpow (tgdgm1_pos hG).ne']
  simp


/-! ### `solve_vacuum` and the head of `solve` -/

theorem solveVacuum_physical {G rhoL uL PL aL rhoR uR PR aR dxdt : ℝ} (vL vR : Bool) (hG : 1 < G)
    (hrL : 0 ≤ rhoL) (hPL : 0 ≤ PL) (hrR : 0 ≤ rhoR) (hPR : 0 ≤ PR) :
    0 ≤ (solveVacuum G rhoL uL PL aL vL rhoR uR PR aR vR dxdt).rho ∧
      0 ≤ (solveVacuum G rhoL uL PL aL vL rhoR uR PR aR vR dxdt).P := by
  unfold solveVacuum
  split_ifs
  · exact vacuumState_physical _
  · exact sampleRightVacuum_physical hG hrL hPL
  · exact sampleLeftVacuum_physical hG hrR hPR
  · exact sampleVacuumGeneration_physical hG hrL hPL hrR hPR

/-- every state returned by a vacuum exit of `ExactRiemannSolver::solve` has `ρ ≥ 0`, `P ≥ 0` -/
theorem solveIfVacuum_physical {g rhoL uL PL rhoR uR PR dxdt : ℝ} {s : Sample ℝ}
    (hrL : 0 ≤ rhoL) (hPL : 0 ≤ PL) (hrR : 0 ≤ rhoR) (hPR : 0 ≤ PR)
    (hs : solveIfVacuum 0 g rhoL uL PL rhoR uR PR dxdt = some s) : 0 ≤ s.rho ∧ 0 ≤ s.P := by
  have hG := effGamma_gt_one g
  unfold solveIfVacuum at hs
  simp only at hs
  split_ifs at hs <;>
    first
      | (cases hs; done)
      | (cases hs; exact solveVacuum_physical _ _ hG hrL hPL hrR hPR)

theorem solveVacuum_galilean {G : ℝ} (hG : 1 < G) (rhoL uL PL aL rhoR uR PR aR dxdt w : ℝ)
    (vL vR : Bool) :
    solveVacuum G rhoL (uL + w) PL aL vL rhoR (uR + w) PR aR vR (dxdt + w)
      = (solveVacuum G rhoL uL PL aL vL rhoR uR PR aR vR dxdt).boost w := by
  unfold solveVacuum
  split_ifs
  · exact (vacuumState_boost w _).symm
  · exact sampleRightVacuum_galilean hG ..
  · exact sampleLeftVacuum_galilean hG ..
  · exact sampleVacuumGeneration_galilean hG ..

/-- Galilean covariance of the vacuum exits of `solve`: boosting both gases and the sampling
speed `x/t` by `w` leaves density and pressure unchanged and shifts the velocity by `w` -/
theorem solveIfVacuum_galilean (g rhoL uL PL rhoR uR PR dxdt w : ℝ) :
    solveIfVacuum 0 g rhoL (uL + w) PL rhoR (uR + w) PR (dxdt + w)
      = (solveIfVacuum 0 g rhoL uL PL rhoR uR PR dxdt).map (Sample.boost w) := by
  have hG := effGamma_gt_one g
  have hd : uR + w - (uL + w) = uR - uL := by ring
  unfold solveIfVacuum
  simp only [hd]
  split_ifs <;>
    first
      | rfl
      | (simp only [Option.map_some]; rw [solveVacuum_galilean hG])

/-! ### mirror symmetry of the samplers -/

/-- `s` is the mirror image of `t`: same density and pressure, velocity and flag negated -/
def Sample.MirrorOf (s t : Sample ℝ) : Prop :=
  s.rho = t.rho ∧ s.u = -t.u ∧ s.P = t.P ∧ s.flag = -t.flag

theorem rightFan_mirror (G rho u P a dxdt : ℝ) (t1 t2 : Nat) :
    (rightFan G rho (-u) P a (-dxdt) t1).MirrorOf (leftFan G rho u P a dxdt t2) := by
  have hb : tdgp1 G - gm1dgp1 G * (-u - -dxdt) / a = tdgp1 G + gm1dgp1 G * (u - dxdt) / a := by ring
  unfold rightFan leftFan Sample.MirrorOf
  simp only [hb]
  refine ⟨trivial, ?_, trivial, by decide⟩
  ring

theorem leftFan_mirror (G rho u P a dxdt : ℝ) (t1 t2 : Nat) :
    (leftFan G rho (-u) P a (-dxdt) t1).MirrorOf (rightFan G rho u P a dxdt t2) := by
  have hb : tdgp1 G + gm1dgp1 G * (-u - -dxdt) / a = tdgp1 G - gm1dgp1 G * (u - dxdt) / a := by ring
  unfold rightFan leftFan Sample.MirrorOf
  simp only [hb]
  refine ⟨trivial, ?_, trivial, by decide⟩
  ring

theorem vacuumState_mirror (t1 t2 : Nat) :
    (vacuumState t1 : Sample ℝ).MirrorOf (vacuumState t2) := by
  unfold vacuumState Sample.MirrorOf; simp [lit0]

theorem sampleLeftVacuum_mirror (G rho u P a dxdt : ℝ) :
    (sampleLeftVacuum G rho (-u) P a (-dxdt)).MirrorOf (sampleRightVacuum G rho u P a dxdt) := by
  have c1 : (-dxdt < -u + a) ↔ (u - a < dxdt) := by constructor <;> intro h <;> linarith
  have c2 : (-u - tdgm1 G * a < -dxdt) ↔ (dxdt < u + tdgm1 G * a) := by
    constructor <;> intro h <;> linarith
  unfold sampleLeftVacuum sampleRightVacuum
  simp only [c1, c2]
  split_ifs
  · exact rightFan_mirror ..
  · exact vacuumState_mirror ..
  · simp [Sample.MirrorOf]

theorem sampleRightVacuum_mirror (G rho u P a dxdt : ℝ) :
    (sampleRightVacuum G rho (-u) P a (-dxdt)).MirrorOf (sampleLeftVacuum G rho u P a dxdt) := by
  have c1 : (-u - a < -dxdt) ↔ (dxdt < u + a) := by constructor <;> intro h <;> linarith
  have c2 : (-dxdt < -u + tdgm1 G * a) ↔ (u - tdgm1 G * a < dxdt) := by
    constructor <;> intro h <;> linarith
  unfold sampleLeftVacuum sampleRightVacuum
  simp only [c1, c2]
  split_ifs
  · exact leftFan_mirror ..
  · exact vacuumState_mirror ..
  · simp [Sample.MirrorOf]

/-- mirror symmetry of `sample_vacuum_generation`, except when both fan tails sit exactly on
`x/t` (then the two orientations sample the two different tails, both with `ρ = P = 0`) -/
theorem sampleVacuumGeneration_mirror (G rhoL uL PL aL rhoR uR PR aR dxdt : ℝ)
    (hne : dxdt < uR - tdgm1 G * aR ∨ uL + tdgm1 G * aL < dxdt) :
    (sampleVacuumGeneration G rhoR (-uR) PR aR rhoL (-uL) PL aL (-dxdt)).MirrorOf
      (sampleVacuumGeneration G rhoL uL PL aL rhoR uR PR aR dxdt) := by
  have c1 : (-dxdt < -uL - tdgm1 G * aL) ↔ (uL + tdgm1 G * aL < dxdt) := by
    constructor <;> intro h <;> linarith
  have c2 : (-uR + tdgm1 G * aR < -dxdt) ↔ (dxdt < uR - tdgm1 G * aR) := by
    constructor <;> intro h <;> linarith
  have c3 : (-dxdt < -uL + aL) ↔ (uL - aL < dxdt) := by constructor <;> intro h <;> linarith
  have c4 : (-uR - aR < -dxdt) ↔ (dxdt < uR + aR) := by constructor <;> intro h <;> linarith
  unfold sampleVacuumGeneration
  simp only [c1, c2, c3, c4]
  split_ifs with h1 h2 h3 h4 h5 h6 h7 h8 h9
  all_goals first
    | exact vacuumState_mirror ..
    | exact rightFan_mirror ..
    | exact leftFan_mirror ..
    | (simp [Sample.MirrorOf]; done)
    | (exfalso; rcases hne with h | h <;> simp_all)

/-! ### fluxes: equality up to the branch id, negation, boost -/

/-- same mass, momentum and energy flux (the branch id is bookkeeping) -/
def Flux.Same (F F' : Flux ℝ) : Prop := F.m = F'.m ∧ F.p = F'.p ∧ F.e = F'.e

/-- `F` is the negative of `F'` -/
def Flux.NegOf (F F' : Flux ℝ) : Prop := F.m = -F'.m ∧ F.p = F'.p.neg ∧ F.e = -F'.e

/-- Galilean transformation of a flux through a face to the frame in which everything moves
with the additional velocity `w`: `m' = m`, `p' = p + m w`, `E' = E + w·p + ½|w|² m` -/
noncomputable def Flux.boost (w : V3 ℝ) (F : Flux ℝ) : Flux ℝ :=
  ⟨F.m, F.p.add (w.smul F.m), F.e + (w.dot F.p + 1 / 2 * w.norm2 * F.m), F.br⟩

theorem deboost_add (m : ℝ) (p : V3 ℝ) (e : ℝ) (vf w : V3 ℝ) (br : Nat) :
    deboost m p e (vf.add w) br = (deboost m p e vf br).boost w := by
  unfold deboost Flux.boost
  ext <;> simp only [V3.add, V3.smul, V3.dot, V3.norm2, lit05] <;> ring

theorem deboost_neg (m : ℝ) (p : V3 ℝ) (e : ℝ) (vf : V3 ℝ) (b1 b2 : Nat) :
    (deboost (-m) p.neg (-e) vf b1).NegOf (deboost m p e vf b2) := by
  unfold deboost Flux.NegOf
  refine ⟨rfl, ?_, ?_⟩
  · ext <;> simp only [V3.add, V3.smul, V3.neg] <;> ring
  · simp only [V3.dot, V3.norm2, V3.neg, lit05]; ring

theorem zeroFlux_boost (w : V3 ℝ) (br : Nat) :
    (⟨0.0, V3.zero, 0.0, br⟩ : Flux ℝ) = (⟨0.0, V3.zero, 0.0, br⟩ : Flux ℝ).boost w := by
  unfold Flux.boost
  ext <;> simp [V3.add, V3.smul, V3.dot, V3.zero, lit0]

theorem zeroFlux_neg (b1 b2 : Nat) :
    (⟨0.0, V3.zero, 0.0, b1⟩ : Flux ℝ).NegOf (⟨0.0, V3.zero, 0.0, b2⟩ : Flux ℝ) := by
  unfold Flux.NegOf
  refine ⟨by simp [lit0], ?_, by simp [lit0]⟩
  ext <;> simp [V3.neg, V3.zero, lit0]

/-! ### the face frame -/

theorem faceFrame_boost (uL uR n vf w : V3 ℝ) :
    faceFrame (uL.add w) (uR.add w) n (vf.add w) = faceFrame uL uR n vf := by
  unfold faceFrame
  have h1 : (uL.add w).sub (vf.add w) = uL.sub vf := by
    ext <;> simp only [V3.add, V3.sub] <;> ring
  have h2 : (uR.add w).sub (vf.add w) = uR.sub vf := by
    ext <;> simp only [V3.add, V3.sub] <;> ring
  simp only [h1, h2]

/-- the frame seen from the other side: states exchanged, normal reversed -/
def FaceFrame.mirror (f : FaceFrame ℝ) : FaceFrame ℝ := ⟨f.uRface, f.uLface, -f.vR, -f.vL⟩

theorem faceFrame_mirror (uL uR n vf : V3 ℝ) :
    faceFrame uR uL n.neg vf = (faceFrame uL uR n vf).mirror := by
  unfold faceFrame FaceFrame.mirror
  simp only [V3.dot, V3.neg, V3.sub]
  congr 1 <;> ring


/-! ### flux assembly (`solve_for_flux`, lines 1062-1100) -/

theorem fluxFromSample_boost (G : ℝ) (s : Sample ℝ) (f : FaceFrame ℝ) (n vf w : V3 ℝ) :
    fluxFromSample G s f n (vf.add w) = (fluxFromSample G s f n vf).boost w := by
  unfold fluxFromSample
  split_ifs
  all_goals first
    | exact deboost_add ..
    | exact zeroFlux_boost ..

/-- a sampled state with `ρ = 0` and `P = 0` carries no flux (the tail of a fan) -/
theorem fluxFromSample_zero (G : ℝ) (s : Sample ℝ) (f : FaceFrame ℝ) (n vf : V3 ℝ)
    (hr : s.rho = 0) (hP : s.P = 0) :
    (fluxFromSample G s f n vf).m = 0 ∧ (fluxFromSample G s f n vf).p = ⟨0, 0, 0⟩ ∧
      (fluxFromSample G s f n vf).e = 0 := by
  unfold fluxFromSample deboost
  split_ifs <;>
    simp [hr, hP, V3.add, V3.smul, V3.dot, V3.norm2, V3.zero, lit0, lit05]

/-- the flags the samplers return -/
def Sample.FlagOk (s : Sample ℝ) : Prop := s.flag = -1 ∨ s.flag = 0 ∨ s.flag = 1

theorem fluxFromSample_mirror (G : ℝ) (s s' : Sample ℝ) (f : FaceFrame ℝ) (n vf : V3 ℝ)
    (hm : s'.MirrorOf s) (hf : s.FlagOk) :
    (fluxFromSample G s' f.mirror n.neg vf).NegOf (fluxFromSample G s f n vf) := by
  obtain ⟨hr, hu, hP, hfl⟩ := hm
  unfold fluxFromSample
  have fin : ∀ (u : V3 ℝ) (b1 b2 : Nat) (r : ℝ),
      (deboost (s.rho * u.dot n.neg) ((u.smul (s.rho * u.dot n.neg)).add (n.neg.smul s.P))
        ((r + s.P) * u.dot n.neg) vf b1).NegOf
      (deboost (s.rho * u.dot n) ((u.smul (s.rho * u.dot n)).add (n.smul s.P))
        ((r + s.P) * u.dot n) vf b2) := by
    intro u b1 b2 r
    have e0 : u.dot n.neg = -(u.dot n) := by simp only [V3.dot, V3.neg]; ring
    have e1 : s.rho * u.dot n.neg = -(s.rho * u.dot n) := by rw [e0]; ring
    have e2 : (u.smul (s.rho * u.dot n.neg)).add (n.neg.smul s.P)
        = ((u.smul (s.rho * u.dot n)).add (n.smul s.P)).neg := by
      rw [e1]; ext <;> simp only [V3.add, V3.smul, V3.neg] <;> ring
    have e3 : (r + s.P) * u.dot n.neg = -((r + s.P) * u.dot n) := by rw [e0]; ring
    rw [e2, e1, e3]
    exact deboost_neg ..
  rcases hf with h | h | h
  · -- left state sampled; the mirrored problem samples its right state
    have h' : s'.flag = 1 := by rw [hfl, h]; rfl
    simp only [h, h', FaceFrame.mirror]
    simp only [show ((-1 : Int) ≠ 0) = True by decide, show ((1 : Int) ≠ 0) = True by decide,
      show ((1 : Int) = -1) = False by decide, if_true, if_false, hr, hu, hP]
    have e1 : (f.uLface.add (n.neg.smul (-s.u - -f.vL))) = f.uLface.add (n.smul (s.u - f.vL)) := by
      ext <;> simp only [V3.add, V3.smul, V3.neg] <;> ring
    rw [e1]
    split_ifs <;> exact fin ..
  · have h' : s'.flag = 0 := by rw [hfl, h]; rfl
    simp only [h, h']
    simp only [show ((0 : Int) ≠ 0) = False by decide, if_false]
    exact zeroFlux_neg ..
  · have h' : s'.flag = -1 := by rw [hfl, h]
    simp only [h, h', FaceFrame.mirror]
    simp only [show ((-1 : Int) ≠ 0) = True by decide, show ((1 : Int) ≠ 0) = True by decide,
      show ((1 : Int) = -1) = False by decide, if_true, if_false, hr, hu, hP]
    have e1 : (f.uRface.add (n.neg.smul (-s.u - -f.vR))) = f.uRface.add (n.smul (s.u - f.vR)) := by
      ext <;> simp only [V3.add, V3.smul, V3.neg] <;> ring
    rw [e1]
    split_ifs <;> exact fin ..

/-! ### the flags returned by the samplers -/

theorem sampleRightVacuum_flag (G rho u P a dxdt : ℝ) :
    (sampleRightVacuum G rho u P a dxdt).FlagOk := by
  unfold sampleRightVacuum leftFan vacuumState Sample.FlagOk
  simp only; split_ifs <;> simp

theorem sampleLeftVacuum_flag (G rho u P a dxdt : ℝ) :
    (sampleLeftVacuum G rho u P a dxdt).FlagOk := by
  unfold sampleLeftVacuum rightFan vacuumState Sample.FlagOk
  simp only; split_ifs <;> simp

theorem sampleVacuumGeneration_flag (G rhoL uL PL aL rhoR uR PR aR dxdt : ℝ) :
    (sampleVacuumGeneration G rhoL uL PL aL rhoR uR PR aR dxdt).FlagOk := by
  unfold sampleVacuumGeneration leftFan rightFan vacuumState Sample.FlagOk
  simp only; split_ifs <;> simp

end CMacVerif.RiemannVacuum
