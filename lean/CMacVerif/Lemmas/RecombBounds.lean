import CMacVerif.Lemmas.Recomb
import Mathlib.Analysis.SpecialFunctions.Exponential
/-!
# C18 — interval bounds that close the positivity of the total metal recombination rates

For N³⁺→N²⁺ (`N_p2`), O⁺→O (`O_n`) and O²⁺→O⁺ (`O_p1`) the Nussbaumer & Storey polynomial is
negative below a cut temperature `Tc`.  There the dielectronic term is bounded below by
`-1e-12 · A · (j+3)!/f^(j+3) · xc^j` (`exp(-f/x) ≤ k! (x/f)^k`, `x^(-1.5) ≤ x^(-2)` for `x ≤ 1`)
and the radiative fit is bounded below by its value with the denominator enlarged on `(0, Tc]`
(`√` and `rpow` bounded by rational numbers); above `Tc` the polynomial is non-negative.
-/
namespace CMacVerif.Verner
open CMacVerif CMacVerif.Gen.Verner CMacVerif.Locate

/-- `base^p ≤ q` from `base ≤ q^m`, `p ≤ 1/m` (a rational certificate for a real power) -/
theorem rpow_le_of_le_pow {base p q : ℝ} (m : ℕ) (hm : 0 < m) (hb : 1 ≤ base) (hp : p ≤ 1 / m)
    (hq : 0 ≤ q) (h : base ≤ q ^ m) : base ^ p ≤ q := by
  have hm' : (0 : ℝ) < m := by exact_mod_cast hm
  calc base ^ p ≤ base ^ (1 / (m : ℝ)) := Real.rpow_le_rpow_of_exponent_le hb hp
    _ ≤ (q ^ m) ^ (1 / (m : ℝ)) := Real.rpow_le_rpow (by linarith) h (by positivity)
    _ = q := by
      rw [← Real.rpow_natCast, ← Real.rpow_mul hq, mul_one_div_cancel hm'.ne', Real.rpow_one]

/-- lower bound of the Verner & Ferland radiative fit on `(0, Tc]` by rational certificates
`z ≥ √(Tc/t₂)`, `q ≥ (z+1)^(1-b)`, `w ≥ √(Tc/t₃)` -/
theorem recNew_lower (row : RecRow ℝ) (T Tc z q w : ℝ) (m : ℕ) (hm : 0 < m)
    (h0 : 0 < row.rnew0) (h2 : 0 < row.rnew2) (h3 : 0 < row.rnew3)
    (hbm : 1 - row.rnew1 ≤ 1 / m) (hb2 : 1 + row.rnew1 ≤ 2)
    (hT : 0 < T) (hTc : T ≤ Tc) (hz : 0 < z) (hz2 : Tc / row.rnew2 ≤ z ^ 2) (hq : 0 < q)
    (hqm : z + 1 ≤ q ^ m) (hw : 0 ≤ w) (hw2 : Tc / row.rnew3 ≤ w ^ 2) :
    row.rnew0 / (z * q * (1 + w) ^ 2) ≤ recNew row T := by
  unfold recNew
  simp only [pow_real, sqrt_real, one_lit]
  have i2 : invNZ row.rnew2 = 1 / row.rnew2 := by
    unfold invNZ; rw [if_pos (Or.inr (by rwa [zero_lit])), one_lit]
  have i3 : invNZ row.rnew3 = 1 / row.rnew3 := by
    unfold invNZ; rw [if_pos (Or.inr (by rwa [zero_lit])), one_lit]
  rw [i2, i3, mul_one_div, mul_one_div]
  have tpos : 0 < Real.sqrt (T / row.rnew2) := Real.sqrt_pos.mpr (div_pos hT h2)
  have tz : Real.sqrt (T / row.rnew2) ≤ z :=
    Real.sqrt_le_iff.mpr ⟨hz.le, le_trans (div_le_div_of_nonneg_right hTc h2.le) hz2⟩
  have sw : Real.sqrt (T / row.rnew3) ≤ w :=
    Real.sqrt_le_iff.mpr ⟨hw, le_trans (div_le_div_of_nonneg_right hTc h3.le) hw2⟩
  have p1 : (Real.sqrt (T / row.rnew2) + 1) ^ (1 - row.rnew1) ≤ q :=
    rpow_le_of_le_pow m hm (by linarith) hbm hq.le (by linarith)
  have p1pos : 0 < (Real.sqrt (T / row.rnew2) + 1) ^ (1 - row.rnew1) := Real.rpow_pos_of_pos (by linarith) _
  have p2 : (1 + Real.sqrt (T / row.rnew3)) ^ (1 + row.rnew1) ≤ (1 + w) ^ 2 := by
    have hs := Real.sqrt_nonneg (T / row.rnew3)
    calc (1 + Real.sqrt (T / row.rnew3)) ^ (1 + row.rnew1)
        ≤ (1 + Real.sqrt (T / row.rnew3)) ^ (2 : ℝ) := Real.rpow_le_rpow_of_exponent_le (by linarith) hb2
      _ = (1 + Real.sqrt (T / row.rnew3)) ^ 2 := by rw [← Real.rpow_natCast]; norm_num
      _ ≤ (1 + w) ^ 2 := pow_le_pow_left₀ (by linarith) (by linarith) 2
  have p2pos : 0 < (1 + Real.sqrt (T / row.rnew3)) ^ (1 + row.rnew1) :=
    Real.rpow_pos_of_pos (by have := Real.sqrt_nonneg (T / row.rnew3); linarith) _
  have hden : Real.sqrt (T / row.rnew2) * (Real.sqrt (T / row.rnew2) + 1) ^ (1 - row.rnew1) *
      (1 + Real.sqrt (T / row.rnew3)) ^ (1 + row.rnew1) ≤ z * q * (1 + w) ^ 2 :=
    mul_le_mul (mul_le_mul tz p1 p1pos.le hz.le) p2 p2pos.le (by positivity)
  exact div_le_div_of_nonneg_left h0.le (mul_pos (mul_pos tpos p1pos) p2pos) hden

/-- `x^(-1.5) · exp(-f/x) / x ≤ (j+3)!/f^(j+3) · x^j` for `0 < x ≤ 1` -/
theorem tail_bound (x f : ℝ) (j : ℕ) (hx : 0 < x) (hx1 : x ≤ 1) (hf : 0 < f) :
    (1 / x) * x ^ (-1.5 : ℝ) * Real.exp (-f * (1 / x)) ≤ ((j + 3).factorial : ℝ) / f ^ (j + 3) * x ^ j := by
  have h15 : x ^ (-1.5 : ℝ) ≤ (x ^ 2)⁻¹ := by
    calc x ^ (-1.5 : ℝ) ≤ x ^ (-(2 : ℝ)) := Real.rpow_le_rpow_of_exponent_ge hx hx1 (by norm_num)
      _ = (x ^ 2)⁻¹ := by rw [Real.rpow_neg hx.le, ← Real.rpow_natCast]; norm_num
  have hy : 0 < f / x := div_pos hf hx
  have he := Real.pow_div_factorial_le_exp (f / x) hy.le (j + 3)
  have hfac : (0 : ℝ) < (j + 3).factorial := by exact_mod_cast Nat.factorial_pos _
  have hexp : Real.exp (-f * (1 / x)) ≤ ((j + 3).factorial : ℝ) / (f / x) ^ (j + 3) := by
    have : -f * (1 / x) = -(f / x) := by ring
    rw [this, Real.exp_neg, le_div_iff₀ (pow_pos hy _), inv_mul_le_iff₀ (Real.exp_pos _)]
    rw [div_le_iff₀ hfac] at he
    linarith
  have hE := Real.exp_pos (-f * (1 / x))
  have hr : 0 < x ^ (-1.5 : ℝ) := Real.rpow_pos_of_pos hx _
  calc (1 / x) * x ^ (-1.5 : ℝ) * Real.exp (-f * (1 / x))
      ≤ (1 / x) * (x ^ 2)⁻¹ * (((j + 3).factorial : ℝ) / (f / x) ^ (j + 3)) :=
        mul_le_mul (mul_le_mul_of_nonneg_left h15 (by positivity)) hexp hE.le (by positivity)
    _ = ((j + 3).factorial : ℝ) / f ^ (j + 3) * x ^ j := by
        rw [div_pow, pow_add x j 3]; field_simp

/-- lower bound of a Nussbaumer & Storey term where its polynomial may be negative
(`poly ≥ -A/x` on `0 < x = T/10⁴ ≤ xc ≤ 1`) -/
theorem nsFit_lower (a b c d f T A xc : ℝ) (j : ℕ) (hT : 0 < T) (hxc : T * 1e-4 ≤ xc) (hxc1 : xc ≤ 1)
    (hf : 0 < f) (hA : 0 ≤ A)
    (hp : -A * (1 / (T * 1e-4)) ≤ a * (1 / (T * 1e-4)) + b + c * (T * 1e-4) + d * (T * 1e-4) * (T * 1e-4)) :
    -(1e-12 * A * (((j + 3).factorial : ℝ) / f ^ (j + 3) * xc ^ j)) ≤ nsFit a b c d f T := by
  unfold nsFit
  simp only [pow_real, exp_real, one_lit]
  have e4 : (1.0e-4 : ℝ) = 1e-4 := by norm_num
  have e12 : (1.0e-12 : ℝ) = 1e-12 := by norm_num
  rw [e4, e12]
  have hx : 0 < T * 1e-4 := by positivity
  have hx1 : T * 1e-4 ≤ 1 := le_trans hxc hxc1
  have tb := tail_bound (T * 1e-4) f j hx hx1 hf
  have hfac : (0 : ℝ) < (j + 3).factorial := by exact_mod_cast Nat.factorial_pos _
  have hmono : ((j + 3).factorial : ℝ) / f ^ (j + 3) * (T * 1e-4) ^ j ≤ ((j + 3).factorial : ℝ) / f ^ (j + 3) * xc ^ j :=
    mul_le_mul_of_nonneg_left (pow_le_pow_left₀ hx.le hxc j) (by positivity)
  have hG : 0 ≤ (T * 1e-4) ^ (-1.5 : ℝ) * Real.exp (-f * (1 / (T * 1e-4))) :=
    mul_nonneg (Real.rpow_nonneg hx.le _) (Real.exp_pos _).le
  -- 1e-12 * poly * G ≥ 1e-12 * (-A/x) * G = -1e-12 * A * (G/x)
  have h1 : 1e-12 * (-A * (1 / (T * 1e-4))) * ((T * 1e-4) ^ (-1.5 : ℝ) * Real.exp (-f * (1 / (T * 1e-4)))) ≤
      1e-12 * (a * (1 / (T * 1e-4)) + b + c * (T * 1e-4) + d * (T * 1e-4) * (T * 1e-4)) *
        ((T * 1e-4) ^ (-1.5 : ℝ) * Real.exp (-f * (1 / (T * 1e-4)))) :=
    mul_le_mul_of_nonneg_right (mul_le_mul_of_nonneg_left hp (by norm_num)) hG
  have h2 : 1e-12 * A * ((1 / (T * 1e-4)) * (T * 1e-4) ^ (-1.5 : ℝ) * Real.exp (-f * (1 / (T * 1e-4)))) ≤
      1e-12 * A * (((j + 3).factorial : ℝ) / f ^ (j + 3) * xc ^ j) :=
    mul_le_mul_of_nonneg_left (le_trans tb hmono) (by positivity)
  nlinarith [h1, h2]

/-! ## the three ions whose dielectronic polynomial changes sign, and Ne⁺ -/


theorem recVerner_7_5 (T : ℝ) : recVerner 7 5 T = recNew (recRow 7 5) T := by
  simp [recVerner, recBranch]

/-- N³⁺ + e → N²⁺ -/
theorem rateCgs_pos_N_p2 (T : ℝ) (h0 : 0 < T) (h1 : T ≤ 1e5) : 0 < rateCgs .N_p2 T := by
  simp only [rateCgs, recPairOf, dielectronic]
  have hx : 0 < T * 1e-4 := by positivity
  have hu : 0 < 1 / (T * 1e-4) := by positivity
  by_cases hc : T ≤ 700
  · have L := recNew_lower (recRow 7 5) T 700 17.9 2.09 0.016 4 (by norm_num) (by norm_num) (by norm_num)
      (by norm_num) (by norm_num) (by norm_num) h0 hc (by norm_num) (by norm_num) (by norm_num) (by norm_num)
      (by norm_num) (by norm_num)
    have D := nsFit_lower (-0.8806) 11.2406 30.7066 (-1.1721) 0.6127 T 0.8806 0.07 5 h0 (by linarith)
      (by norm_num) (by norm_num) (by norm_num)
      (by have : T * 1e-4 ≤ 0.07 := by linarith
          nlinarith [mul_pos hx hx])
    rw [recVerner_7_5]
    have : (0 : ℝ) < (recRow (α := ℝ) 7 5).rnew0 / (17.9 * 2.09 * (1 + 0.016) ^ 2) -
        1e-12 * 0.8806 * (((5 + 3).factorial : ℝ) / 0.6127 ^ (5 + 3) * 0.07 ^ 5) := by
      norm_num [Nat.factorial]
    linarith
  · have hc := not_le.mp hc
    have hv : 0 < recVerner 7 5 T := recVerner_pos (by norm_num [RecWF, recBranch]) h0
    have hxl : (0.07 : ℝ) ≤ T * 1e-4 := by linarith
    have hxu : T * 1e-4 ≤ 10 := by norm_num at h1 ⊢; linarith
    have hul : 1 / (T * 1e-4) ≤ 1 / 0.07 := one_div_le_one_div_of_le (by norm_num) hxl
    have hd := nsFit_nonneg (-0.8806) 11.2406 30.7066 (-1.1721) 0.6127 T h0.le
      (by nlinarith [mul_nonneg (sub_nonneg.mpr hxl) (sub_nonneg.mpr hxu)])
    linarith


theorem recVerner_8_8 (T : ℝ) : recVerner 8 8 T = recNew (recRow 8 8) T := by simp [recVerner, recBranch]
theorem recVerner_8_7 (T : ℝ) : recVerner 8 7 T = recNew (recRow 8 7) T := by simp [recVerner, recBranch]

/-- O⁺ + e → O -/
theorem rateCgs_pos_O_n (T : ℝ) (h0 : 0 < T) (_h1 : T ≤ 1e5) : 0 < rateCgs .O_n T := by
  simp only [rateCgs, recPairOf, dielectronic]
  have hx : 0 < T * 1e-4 := by positivity
  by_cases hc : T ≤ 400
  · have L := recNew_lower (recRow 8 8) T 400 15.5 16.5 0.001 1 (by norm_num) (by norm_num) (by norm_num)
      (by norm_num) (by norm_num) (by norm_num) h0 hc (by norm_num) (by norm_num) (by norm_num) (by norm_num)
      (by norm_num) (by norm_num)
    have D := nsFit_lower (-0.0001) 0.0001 0.0956 0.0193 0.4106 T 0.0001 0.04 1 h0 (by linarith)
      (by norm_num) (by norm_num) (by norm_num) (by nlinarith [mul_pos hx hx])
    rw [recVerner_8_8]
    have : (0 : ℝ) < (recRow (α := ℝ) 8 8).rnew0 / (15.5 * 16.5 * (1 + 0.001) ^ 2) -
        1e-12 * 0.0001 * (((1 + 3).factorial : ℝ) / 0.4106 ^ (1 + 3) * 0.04 ^ 1) := by
      norm_num [Nat.factorial]
    linarith
  · have hc := not_le.mp hc
    have hv : 0 < recVerner 8 8 T := recVerner_pos (by norm_num [RecWF, recBranch]) h0
    have hxl : (0.04 : ℝ) ≤ T * 1e-4 := by linarith
    have hul : 1 / (T * 1e-4) ≤ 1 / 0.04 := one_div_le_one_div_of_le (by norm_num) hxl
    have hd := nsFit_nonneg (-0.0001) 0.0001 0.0956 0.0193 0.4106 T h0.le (by nlinarith [mul_pos hx hx])
    linarith

/-- O²⁺ + e → O⁺ -/
theorem rateCgs_pos_O_p1 (T : ℝ) (h0 : 0 < T) (h1 : T ≤ 1e5) : 0 < rateCgs .O_p1 T := by
  simp only [rateCgs, recPairOf, dielectronic]
  have hx : 0 < T * 1e-4 := by positivity
  by_cases hc : T ≤ 60
  · have L := recNew_lower (recRow 8 7) T 60 95 96 0.001 1 (by norm_num) (by norm_num) (by norm_num)
      (by norm_num) (by norm_num) (by norm_num) h0 hc (by norm_num) (by norm_num) (by norm_num) (by norm_num)
      (by norm_num) (by norm_num)
    have D := nsFit_lower (-0.0036) 0.7519 1.5252 (-0.0838) 0.2769 T 0.0036 0.006 1 h0 (by linarith)
      (by norm_num) (by norm_num) (by norm_num)
      (by have : T * 1e-4 ≤ 0.006 := by linarith
          nlinarith [mul_pos hx hx])
    rw [recVerner_8_7]
    have : (0 : ℝ) < (recRow (α := ℝ) 8 7).rnew0 / (95 * 96 * (1 + 0.001) ^ 2) -
        1e-12 * 0.0036 * (((1 + 3).factorial : ℝ) / 0.2769 ^ (1 + 3) * 0.006 ^ 1) := by
      norm_num [Nat.factorial]
    linarith
  · have hc := not_le.mp hc
    have hv : 0 < recVerner 8 7 T := recVerner_pos (by norm_num [RecWF, recBranch]) h0
    have hxl : (0.006 : ℝ) ≤ T * 1e-4 := by linarith
    have hxu : T * 1e-4 ≤ 10 := by norm_num at h1 ⊢; linarith
    have hul : 1 / (T * 1e-4) ≤ 1 / 0.006 := one_div_le_one_div_of_le (by norm_num) hxl
    have hd := nsFit_nonneg (-0.0036) 0.7519 1.5252 (-0.0838) 0.2769 T h0.le
      (by nlinarith [mul_nonneg (sub_nonneg.mpr hxl) (sub_nonneg.mpr hxu)])
    linarith

/-- Ne²⁺ + e → Ne⁺: the polynomial is positive on (0, 1e5 K] (AM–GM below 10⁴ K, concavity above) -/
theorem dielectronic_nonneg_Ne_p1 (T : ℝ) (h0 : 0 < T) (h1 : T ≤ 1e5) : 0 ≤ dielectronic .Ne_p1 T := by
  have hx : 0 < T * 1e-4 := by positivity
  have hu : 0 < 1 / (T * 1e-4) := by positivity
  have hux : 1 / (T * 1e-4) * (T * 1e-4) = 1 := by field_simp
  have hxu : T * 1e-4 ≤ 10 := by norm_num at h1 ⊢; linarith
  refine nsFit_nonneg _ _ _ _ _ T h0.le ?_
  by_cases hc : T * 1e-4 ≤ 1
  · nlinarith [sq_nonneg (0.0129 * (1 / (T * 1e-4)) - 0.8671 * (T * 1e-4)), mul_pos hx hx, mul_pos hu hx,
      sq_nonneg (0.0129 * (1 / (T * 1e-4)) + 0.8671 * (T * 1e-4) - 0.2), mul_pos hu hu,
      mul_nonneg hx.le (sub_nonneg.mpr hc)]
  · have hc := (not_le.mp hc).le
    nlinarith [mul_nonneg (sub_nonneg.mpr hc) (sub_nonneg.mpr hxu)]

end CMacVerif.Verner
