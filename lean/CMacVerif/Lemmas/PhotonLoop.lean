import CMacVerif.Lemmas.PhotonEnd
/-! C01: the worker loop of the threads on top of the protocol.  Invariant: every running task is held
by a thread that will execute it, every pending task sits in the `tasks_to_add[]` of a thread that
will enqueue it, and for every queued flush task there is a thread that is still going to poll the
shared queue.  Consequence (`Props/C01.lean`): when all threads have left the loop no task exists. -/
namespace CMacVerif.Photon

/-! ### how a label changes a slot of the task table -/

/-- slot `u` is unchanged, or it was free and now holds a task that is not running -/
inductive Delta (s s' : State) (fin : Bool) (u : Nat) : Prop where
  | same (h : s'.tasks u = s.tasks u)
  | new (h0 : s.tasks u = none) (k : Kind) (st : TSt) (h1 : s'.tasks u = some ⟨k, st⟩) (hst : st ≠ .running)
      (hp : st = .pending → fin = true)

theorem fold_tasks {cfg : Cfg} {g : Nat} {outs : Nat → List Nat} {res : Nat → DirRes} :
    ∀ (l : List Nat) (acc acc' : State × Nat × Nat), foldOpt (travDir cfg g outs res) acc l = some acc' →
      (∀ u, acc.1.tasks u ≠ none → acc'.1.tasks u = acc.1.tasks u) ∧
      (∀ u, acc.1.tasks u = none → acc'.1.tasks u = none ∨ ∃ k, acc'.1.tasks u = some ⟨k, .pending⟩ ∧ (kindBuf k).isSome = true) := by
  intro l
  induction l with
  | nil =>
    intro acc acc' h; simp only [foldOpt] at h; injection h with h; subst h
    exact ⟨fun _ _ => rfl, fun _ hu => Or.inl hu⟩
  | cons i l ih =>
    intro acc acc' h
    simp only [foldOpt] at h
    split at h
    · cases h
    · rename_i acc1 hstep
      simp only [travDir] at hstep
      split at hstep
      · cases hstep
      · rename_i s1 hs1
        injection hstep with hstep
        have hF := travDirState_frame hs1
        have h2 := ih acc1 acc' h
        rw [← hstep] at h2
        simp only at h2
        refine ⟨?_, ?_⟩
        · intro u hu
          have e1 := hF.tasksKeep u hu
          rw [h2.1 u (by rw [e1]; exact hu), e1]
        · intro u hu
          rcases hF.tasksNew u hu with e | ⟨k, e, hk⟩
          · exact h2.2 u e
          · right; exact ⟨k, by rw [h2.1 u (by rw [e]; simp), e], hk⟩

theorem kindBuf_flush_none {k : Kind} (h : (kindBuf k).isSome = true) : ∀ c, k ≠ .flush c := by
  intro c e; subst e; simp at h

/-- the effect of a commit label on the task table -/
theorem commit_tasks {cfg : Cfg} {s s' : State} {l : Label} {t0 : Nat} {fin : Bool}
    (h : step cfg s l = some s') (hw : workInfo l = some (t0, fin)) :
    (∃ k, s.tasks t0 = some ⟨k, .running⟩) ∧
    (fin = true → s'.tasks t0 = none) ∧ (fin = false → ∃ k, s'.tasks t0 = some ⟨k, .running⟩) ∧
    ∀ u, u ≠ t0 → Delta s s' fin u := by
  cases l with
  | launchBatch src t => simp [workInfo] at hw
  | launchCont t => simp [workInfo] at hw
  | acquire t => simp [workInfo] at hw
  | enqueue t => simp [workInfo] at hw
  | premature g t' => simp [workInfo] at hw
  | checkTermination => simp [workInfo] at hw
  | execSource t b t' =>
    simp only [workInfo, Option.some.injEq, Prod.mk.injEq] at hw
    obtain ⟨rfl, rfl⟩ := hw
    obtain ⟨src, ids, hk, _, _, _, htt', rfl⟩ := step_execSource h
    refine ⟨⟨_, hk⟩, (fun _ => by simp), (fun e => by cases e), ?_⟩
    intro u hu
    by_cases e : u = t'
    · subst e
      exact Delta.new htt' _ _ (by show upd (upd s.tasks u _) t none u = _; rw [upd_other _ _ _ hu, upd_same])
        (by intro e; cases e) (fun _ => rfl)
    · exact Delta.same (by show upd (upd s.tasks t' _) t none u = _; rw [upd_other _ _ _ hu, upd_other _ _ _ e])
  | contGen t g k =>
    simp only [workInfo, Option.some.injEq, Prod.mk.injEq] at hw
    obtain ⟨rfl, rfl⟩ := hw
    obtain ⟨c, n, ids, hk, _, _, _, _, _, rfl⟩ := step_contGen h
    exact ⟨⟨_, hk⟩, (fun e => by cases e), fun _ => ⟨_, upd_same _ _ _⟩, fun u hu => Delta.same (upd_other _ _ _ hu)⟩
  | contOverflow t g b t' =>
    simp only [workInfo, Option.some.injEq, Prod.mk.injEq] at hw
    obtain ⟨rfl, rfl⟩ := hw
    obtain ⟨c, n, ids, hk, _, _, _, _, htt', rfl⟩ := step_contOverflow h
    have hne : t ≠ t' := by intro e; subst e; rw [hk] at htt'; cases htt'
    refine ⟨⟨_, hk⟩, (fun e => by cases e), fun _ => ⟨_, by simp only [upd_other _ _ _ hne]; exact hk⟩, ?_⟩
    intro u _
    by_cases e : u = t'
    · subst e; exact Delta.new htt' _ _ (upd_same _ _ _) (by intro e; cases e) (fun e => by cases e)
    · exact Delta.same (upd_other _ _ _ e)
  | flushOne t g b t' =>
    simp only [workInfo, Option.some.injEq, Prod.mk.injEq] at hw
    obtain ⟨rfl, rfl⟩ := hw
    obtain ⟨c, hk, _, _, _, _, _, htt', rfl⟩ := step_flushOne h
    have hne : t ≠ t' := by intro e; subst e; rw [hk] at htt'; cases htt'
    refine ⟨⟨_, hk⟩, (fun e => by cases e), fun _ => ⟨_, by simp only [upd_other _ _ _ hne]; exact hk⟩, ?_⟩
    intro u _
    by_cases e : u = t'
    · subst e; exact Delta.new htt' _ _ (upd_same _ _ _) (by intro e; cases e) (fun e => by cases e)
    · exact Delta.same (upd_other _ _ _ e)
  | flushFinish t =>
    simp only [workInfo, Option.some.injEq, Prod.mk.injEq] at hw
    obtain ⟨rfl, rfl⟩ := hw
    obtain ⟨c, hk, _, rfl⟩ := step_flushFinish h
    exact ⟨⟨_, hk⟩, fun _ => upd_same _ _ _, (fun e => by cases e), fun u hu => Delta.same (upd_other _ _ _ hu)⟩
  | contFinish t fl =>
    simp only [workInfo, Option.some.injEq, Prod.mk.injEq] at hw
    obtain ⟨rfl, rfl⟩ := hw
    obtain ⟨c, n, s2, hk, _, _, rfl, hcase⟩ := step_contFinish h
    refine ⟨⟨_, hk⟩, fun _ => upd_same _ _ _, (fun e => by cases e), ?_⟩
    intro u hu
    have hup : ∀ (sx : State), upd sx.tasks t none u = sx.tasks u := fun sx => upd_other _ _ _ hu
    rcases hcase with ⟨_, _, _, hadd⟩ | ⟨_, _, rfl⟩ | ⟨_, rfl⟩
    · -- the flush tasks
      have hfr : ∀ (fl : List Nat) (sa sb : State) (c : Nat), addFlush cfg sa c fl = some sb →
          ∀ u, sb.tasks u = sa.tasks u ∨ (sa.tasks u = none ∧ ∃ c, sb.tasks u = some ⟨.flush c, .queued⟩) := by
        intro fl
        induction fl with
        | nil => intro sa sb c h u; simp only [addFlush] at h; injection h with h; subst h; exact Or.inl rfl
        | cons t ts ih =>
          intro sa sb c h u
          simp only [addFlush] at h
          split_ifs at h with hf
          have hf' := (taskFree_iff cfg sa t).mp hf
          rcases ih _ sb (c + 1) h u with e | ⟨e1, c', e2⟩
          · by_cases hu : u = t
            · subst hu; right; exact ⟨hf'.2, c, by rw [e]; simp⟩
            · left; rw [e]; exact upd_other _ _ _ hu
          · by_cases hu : u = t
            · subst hu; simp at e1
            · right; exact ⟨by rw [← e1]; exact (upd_other _ _ _ hu).symm, c', e2⟩
      rcases hfr fl _ s2 0 hadd u with e | ⟨e1, c', e2⟩
      · exact Delta.same (by show upd s2.tasks t none u = _; rw [hup s2]; exact e)
      · exact Delta.new e1 _ _ (by show upd s2.tasks t none u = _; rw [hup s2]; exact e2) (by intro e; cases e) (fun _ => rfl)
    · exact Delta.same (hup _)
    · exact Delta.same (hup _)
  | execReemit t keep t' =>
    simp only [workInfo, Option.some.injEq, Prod.mk.injEq] at hw
    obtain ⟨rfl, rfl⟩ := hw
    obtain ⟨b, buf, hk, _, _, hcase⟩ := step_execReemit h
    rcases hcase with ⟨_, rfl⟩ | ⟨_, _, htt', rfl⟩
    · exact ⟨⟨_, hk⟩, fun _ => upd_same _ _ _, (fun e => by cases e), fun u hu => Delta.same (upd_other _ _ _ hu)⟩
    · refine ⟨⟨_, hk⟩, fun _ => upd_same _ _ _, (fun e => by cases e), ?_⟩
      intro u hu
      by_cases e : u = t'
      · subst e
        exact Delta.new htt' _ _ (by show upd (upd s.tasks u _) t none u = _; rw [upd_other _ _ _ hu, upd_same])
          (by intro e; cases e) (fun _ => rfl)
      · exact Delta.same (by show upd (upd s.tasks t' _) t none u = _; rw [upd_other _ _ _ hu, upd_other _ _ _ e])
  | execTraverse t fates res =>
    simp only [workInfo, Option.some.injEq, Prod.mk.injEq] at hw
    obtain ⟨rfl, rfl⟩ := hw
    obtain ⟨b0, buf, s1, li, ls, hk, _, _, _, hfold, rfl⟩ := step_execTraverse h
    have hft := fold_tasks _ _ _ hfold
    simp only at hft
    refine ⟨⟨_, hk⟩, fun _ => upd_same _ _ _, (fun e => by cases e), ?_⟩
    intro u hu
    have hup : upd s1.tasks t none u = s1.tasks u := upd_other _ _ _ hu
    cases hsu : s.tasks u with
    | some tk => exact Delta.same (by show upd s1.tasks t none u = _; rw [hup, hft.1 u (by rw [hsu]; simp)])
    | none =>
      rcases hft.2 u hsu with e | ⟨k, e, _⟩
      · exact Delta.same (by show upd s1.tasks t none u = _; rw [hup, e, hsu])
      · exact Delta.new hsu _ _ (by show upd s1.tasks t none u = _; rw [hup]; exact e) (by intro e; cases e) (fun _ => rfl)

/-- new flush tasks only come from `contFinish`; premature launch and task creation by the main
thread add one queued task that is not a flush task -/
theorem other_tasks {cfg : Cfg} {s s' : State} {l : Label} (h : step cfg s l = some s')
    (hl : (∃ a b, l = .launchBatch a b) ∨ (∃ a, l = .launchCont a) ∨ (∃ a b, l = .premature a b)) :
    ∀ u, s'.tasks u = s.tasks u ∨
      (s.tasks u = none ∧ ∃ k, s'.tasks u = some ⟨k, .queued⟩ ∧ ∀ c, k ≠ .flush c) := by
  intro u
  rcases hl with ⟨a, b, rfl⟩ | ⟨a, rfl⟩ | ⟨a, b, rfl⟩
  · obtain ⟨_, _, _, hf, rfl⟩ := step_launchBatch h
    by_cases e : u = b
    · subst e; right; exact ⟨hf, _, upd_same _ _ _, by intro c e; cases e⟩
    · left; exact upd_other _ _ _ e
  · obtain ⟨_, _, hf, _, rfl⟩ := step_launchCont h
    by_cases e : u = a
    · subst e; right; exact ⟨hf, _, upd_same _ _ _, by intro c e; cases e⟩
    · left; exact upd_other _ _ _ e
  · obtain ⟨bb, _, _, _, _, hf, _, rfl⟩ := step_premature h
    by_cases e : u = b
    · subst e; right
      refine ⟨hf, _, upd_same _ _ _, ?_⟩
      intro c e'
      have := fullKind_buf (s.largest a).1 bb
      rw [e'] at this; simp at this
    · left; exact upd_other _ _ _ e

/-! ### the loop invariant -/

def Obliged (th : Th) : Prop := (∃ u, th = .exec u) ∨ th = .post ∨ (∃ u, th = .top (some u))

structure LInv (cfg : Cfg) (s0 : State) (s : LState) : Prop where
  reach : Reach cfg s0 s.p
  /-- a running task is held by a thread that is executing it or is about to -/
  holder : ∀ t k, s.p.tasks t = some ⟨k, .running⟩ → ∃ i, s.th i = .exec t ∨ s.th i = .top (some t)
  /-- a pending task is in the `tasks_to_add[]` of a thread that is adding its tasks -/
  owner : ∀ t k, s.p.tasks t = some ⟨k, .pending⟩ → ∃ i, s.th i = .post ∧ t ∈ s.mine i
  /-- for a queued flush task some thread will poll the shared queue again -/
  oblig : ∀ t c, s.p.tasks t = some ⟨.flush c, .queued⟩ → ∃ i, Obliged (s.th i)
  exitFlag : ∀ i, s.th i = .exited → s.p.run = false

theorem run_stays_false {cfg : Cfg} {s s' : State} (l : Label) (h : step cfg s l = some s') (hr : s.run = false) :
    s'.run = false := by
  rcases (step_done_run l h).2 with e | ⟨e, _, _⟩
  · rw [e]; exact hr
  · exact e

theorem lockHeld_running {cfg : Cfg} {s : State} {l : Lock} (h : lockHeld cfg s l = true) :
    ∃ u k, s.tasks u = some ⟨k, .running⟩ := by
  simp only [lockHeld, List.any_eq_true] at h
  obtain ⟨u, _, hu⟩ := h
  split at hu
  · rename_i k hk; exact ⟨u, k, hk⟩
  · cases hu

theorem poll_cases {cfg : Cfg} {p p' : State} {got : Option Nat} (h : poll cfg p got = some p') :
    (got = none ∧ p' = p ∧ flushAvailable cfg p = false) ∨ (∃ t, got = some t ∧ step cfg p (.acquire t) = some p') := by
  cases got with
  | none =>
    simp only [poll] at h
    split_ifs at h with hf
    injection h with h
    exact Or.inl ⟨rfl, h.symm, by simpa using hf⟩
  | some t => exact Or.inr ⟨t, rfl, h⟩

/-- a poll by thread i that is in a state `old`; `new got` is its next state -/
theorem linv_poll {cfg : Cfg} {s0 : State} {s : LState} {i : Nat} {got : Option Nat} {p' : State} {nxt : Option Nat → Th}
    (hN : weight cfg (fun _ => 1) s0 = cfg.N) (hi : LInv cfg s0 s) (hp : poll cfg s.p got = some p')
    (hold : (∀ u, s.th i ≠ .exec u) ∧ (∀ u, s.th i ≠ .top (some u)))
    (hmine : s.th i = .post → s.mine i = [])
    (hnx : ∀ t, nxt (some t) = .exec t ∨ nxt (some t) = .top (some t))
    (hnn : nxt none ≠ .exited) :
    LInv cfg s0 { s with p := p', th := upd s.th i (nxt got) } := by
  have hother : ∀ j, j ≠ i → upd s.th i (nxt got) j = s.th j := fun j hj => upd_other _ _ _ hj
  rcases poll_cases hp with ⟨rfl, rfl, hfa⟩ | ⟨t, rfl, hacq⟩
  · -- NO_TASK
    refine ⟨hi.reach, ?_, ?_, ?_, ?_⟩
    all_goals dsimp only
    · intro t k ht
      obtain ⟨j, hj⟩ := hi.holder t k ht
      have : j ≠ i := by
        intro e; subst e
        rcases hj with hj | hj
        · exact hold.1 t hj
        · exact hold.2 t hj
      exact ⟨j, by rw [hother j this]; exact hj⟩
    · intro t k ht
      obtain ⟨j, hj1, hj2⟩ := hi.owner t k ht
      have : j ≠ i := by
        intro e; subst e
        rw [hmine hj1] at hj2; cases hj2
      exact ⟨j, by rw [hother j this]; exact hj1, hj2⟩
    · intro t c ht
      -- the lock of the flush task is held by a running task; its holder will poll again
      have hlk : lockHeld cfg s.p (.block c) = true := by
        have hcap := (hi.reach.inv.tk t _ ht).1
        simp only [flushAvailable] at hfa
        have := List.any_eq_false.mp hfa t (List.mem_range.mpr hcap)
        simp only [ht] at this
        simpa using this
      obtain ⟨u, k, hu⟩ := lockHeld_running hlk
      obtain ⟨j, hj⟩ := hi.holder u k hu
      have : j ≠ i := by
        intro e; subst e
        rcases hj with hj | hj
        · exact hold.1 u hj
        · exact hold.2 u hj
      refine ⟨j, ?_⟩
      rw [hother j this]
      rcases hj with hj | hj
      · exact Or.inl ⟨u, hj⟩
      · exact Or.inr (Or.inr ⟨u, hj⟩)
    · intro j hj
      by_cases e : j = i
      · subst e; simp only [upd_same] at hj; exact absurd hj hnn
      · rw [hother j e] at hj; exact hi.exitFlag j hj
  · -- a task was obtained
    obtain ⟨k, hk, _, rfl⟩ := step_acquire hacq
    have hreach := reach_step (.acquire t) hN hi.reach hacq
    refine ⟨hreach, ?_, ?_, ?_, ?_⟩
    all_goals dsimp only
    · intro u k' hu
      by_cases e : u = t
      · subst e
        refine ⟨i, ?_⟩
        simp only [upd_same]
        exact hnx u
      · simp only [upd_other _ _ _ e] at hu
        obtain ⟨j, hj⟩ := hi.holder u k' hu
        have : j ≠ i := by
          intro e; subst e
          rcases hj with hj | hj
          · exact hold.1 u hj
          · exact hold.2 u hj
        exact ⟨j, by rw [hother j this]; exact hj⟩
    · intro u k' hu
      have e : u ≠ t := by
        intro e; subst e; simp only [upd_same] at hu; injection hu with hu; injection hu with _ hu; cases hu
      simp only [upd_other _ _ _ e] at hu
      obtain ⟨j, hj1, hj2⟩ := hi.owner u k' hu
      have : j ≠ i := by
        intro e; subst e
        rw [hmine hj1] at hj2; cases hj2
      exact ⟨j, by rw [hother j this]; exact hj1, hj2⟩
    · intro u c hu
      have e : u ≠ t := by
        intro e; subst e; simp only [upd_same] at hu; injection hu with hu; injection hu with _ hu; cases hu
      simp only [upd_other _ _ _ e] at hu
      obtain ⟨j, hj⟩ := hi.oblig u c hu
      by_cases ej : j = i
      · subst ej
        refine ⟨j, ?_⟩
        simp only [upd_same]
        rcases hnx t with h1 | h1
        · exact Or.inl ⟨t, h1⟩
        · exact Or.inr (Or.inr ⟨t, h1⟩)
      · exact ⟨j, by rw [hother j ej]; exact hj⟩
    · intro j hj
      by_cases e : j = i
      · subst e; simp only [upd_same] at hj
        rcases hnx t with h1 | h1 <;> (rw [h1] at hj; cases hj)
      · rw [hother j e] at hj; exact hi.exitFlag j hj

/-- protocol steps that leave the thread states alone and add at most queued, non-flush tasks -/
theorem linv_other {cfg : Cfg} {s0 : State} {s : LState} {l : Label} {p' : State}
    (hN : weight cfg (fun _ => 1) s0 = cfg.N) (hi : LInv cfg s0 s) (h : step cfg s.p l = some p')
    (hl : (∃ a b, l = .launchBatch a b) ∨ (∃ a, l = .launchCont a) ∨ (∃ a b, l = .premature a b)) :
    LInv cfg s0 { s with p := p' } := by
  have hd := other_tasks h hl
  refine ⟨reach_step l hN hi.reach h, ?_, ?_, ?_, ?_⟩
  all_goals dsimp only
  · intro t k ht
    rcases hd t with e | ⟨_, k', e, _⟩
    · rw [e] at ht; exact hi.holder t k ht
    · rw [e] at ht; injection ht with ht; injection ht with _ ht; cases ht
  · intro t k ht
    rcases hd t with e | ⟨_, k', e, _⟩
    · rw [e] at ht; exact hi.owner t k ht
    · rw [e] at ht; injection ht with ht; injection ht with _ ht; cases ht
  · intro t c ht
    rcases hd t with e | ⟨_, k', e, hnf⟩
    · rw [e] at ht; exact hi.oblig t c ht
    · rw [e] at ht; injection ht with ht; injection ht with ht _; exact absurd ht (hnf c)
  · intro j hj; exact run_stays_false l h (hi.exitFlag j hj)

theorem mem_erase_ne {a b : Nat} {l : List Nat} (h : a ∈ l) (hne : a ≠ b) : a ∈ l.erase b :=
  (List.mem_erase_of_ne hne).mpr h

theorem lstep_inv {cfg : Cfg} {s0 : State} {s s' : LState} (l : LLabel) (hN : weight cfg (fun _ => 1) s0 = cfg.N)
    (hi : LInv cfg s0 s) (h : lstep cfg s l = some s') : LInv cfg s0 s' := by
  cases l with
  | main l =>
    simp only [lstep] at h
    split at h
    · rename_i a b
      split at h
      · rename_i p' hp; injection h with h; subst h
        exact linv_other hN hi hp (Or.inl ⟨a, b, rfl⟩)
      · cases h
    · rename_i a
      split at h
      · rename_i p' hp; injection h with h; subst h
        exact linv_other hN hi hp (Or.inr (Or.inl ⟨a, rfl⟩))
      · cases h
    · cases h
  | startPoll i got =>
    simp only [lstep] at h
    split at h
    · rename_i hth
      split at h
      · rename_i p' hp; injection h with h; subst h
        exact linv_poll (nxt := fun g => .top g) hN hi hp ⟨(by intro u e; rw [hth] at e; cases e), (by intro u e; rw [hth] at e; cases e)⟩
          (by intro e; rw [hth] at e; cases e) (fun t => Or.inr rfl) (by intro e; cases e)
      · cases h
    · cases h
  | topExit i =>
    simp only [lstep] at h
    split at h
    · rename_i hth
      split_ifs at h with hr
      injection h with h; subst h
      have hother : ∀ j, j ≠ i → upd s.th i .exited j = s.th j := fun j hj => upd_other _ _ _ hj
      have hni : ∀ j, (∃ u, s.th j = .exec u) ∨ s.th j = .post ∨ (∃ u, s.th j = .top (some u)) → j ≠ i := by
        intro j hj e; subst e; rw [hth] at hj
        rcases hj with ⟨u, hj⟩ | hj | ⟨u, hj⟩ <;> cases hj
      refine ⟨hi.reach, ?_, ?_, ?_, ?_⟩
      all_goals dsimp only
      · intro t k ht
        obtain ⟨j, hj⟩ := hi.holder t k ht
        have hne := hni j (by rcases hj with hj | hj; exact Or.inl ⟨t, hj⟩; exact Or.inr (Or.inr ⟨t, hj⟩))
        exact ⟨j, by rw [hother j hne]; exact hj⟩
      · intro t k ht
        obtain ⟨j, hj1, hj2⟩ := hi.owner t k ht
        have hne := hni j (Or.inr (Or.inl hj1))
        exact ⟨j, by rw [hother j hne]; exact hj1, hj2⟩
      · intro t c ht
        obtain ⟨j, hj⟩ := hi.oblig t c ht
        have hne := hni j hj
        exact ⟨j, by rw [hother j hne]; exact hj⟩
      · intro j hj
        by_cases e : j = i
        · simpa using hr
        · rw [hother j e] at hj; exact hi.exitFlag j hj
    · cases h
  | topGo i =>
    simp only [lstep] at h
    split at h
    · rename_i t hth
      injection h with h; subst h
      have hother : ∀ j, j ≠ i → upd s.th i (.exec t) j = s.th j := fun j hj => upd_other _ _ _ hj
      refine ⟨hi.reach, ?_, ?_, ?_, ?_⟩
      all_goals dsimp only
      · intro u k hu
        obtain ⟨j, hj⟩ := hi.holder u k hu
        by_cases e : j = i
        · subst e
          rw [hth] at hj
          rcases hj with hj | hj
          · cases hj
          · injection hj with hj; injection hj with hj; subst hj
            exact ⟨j, Or.inl (upd_same _ _ _)⟩
        · exact ⟨j, by rw [hother j e]; exact hj⟩
      · intro u k hu
        obtain ⟨j, hj1, hj2⟩ := hi.owner u k hu
        have e : j ≠ i := by intro e; subst e; rw [hth] at hj1; cases hj1
        exact ⟨j, by rw [hother j e]; exact hj1, hj2⟩
      · intro u c hu
        obtain ⟨j, hj⟩ := hi.oblig u c hu
        by_cases e : j = i
        · subst e; exact ⟨j, Or.inl ⟨t, upd_same _ _ _⟩⟩
        · exact ⟨j, by rw [hother j e]; exact hj⟩
      · intro j hj
        by_cases e : j = i
        · subst e; simp only [upd_same] at hj; cases hj
        · rw [hother j e] at hj; exact hi.exitFlag j hj
    · cases h
  | topPoll i got =>
    simp only [lstep] at h
    split at h
    · rename_i hth
      split_ifs at h with hr
      split at h
      · rename_i p' hp; injection h with h; subst h
        exact linv_poll (nxt := fun g => match g with | some t => .exec t | none => .check) hN hi hp
          ⟨(by intro u e; rw [hth] at e; cases e), (by intro u e; rw [hth] at e; cases e)⟩
          (by intro e; rw [hth] at e; cases e) (fun t => Or.inl rfl) (by intro e; cases e)
      · cases h
    · cases h
  | prem i g t' =>
    simp only [lstep] at h
    split at h
    · split_ifs at h with hr
      split at h
      · rename_i p' hp; injection h with h; subst h
        exact linv_other hN hi hp (Or.inr (Or.inr ⟨g, t', rfl⟩))
      · cases h
    · cases h
  | work i l =>
    simp only [lstep] at h
    split at h
    · rename_i t t0 fin hth hw
      by_cases htt : t = t0
      swap
      · rw [if_neg htt] at h; cases h
      rw [if_pos htt] at h
      subst htt
      split at h
      · rename_i p' hp
        injection h with h; subst h
        obtain ⟨⟨k0, hk0⟩, hfin, hnfin, hdelta⟩ := commit_tasks hp hw
        have hreach := reach_step l hN hi.reach hp
        have hthi : ∀ j, j ≠ i → (if fin = true then upd s.th i Th.post else s.th) j = s.th j := by
          intro j hj; split_ifs
          · exact upd_other _ _ _ hj
          · rfl
        have hthii : (if fin = true then upd s.th i Th.post else s.th) i = if fin = true then Th.post else Th.exec t := by
          split_ifs
          · exact upd_same _ _ _
          · exact hth
        refine ⟨hreach, ?_, ?_, ?_, ?_⟩
        all_goals dsimp only
        · intro u k hu
          by_cases e : u = t
          · subst e
            cases fin with
            | true => rw [hfin rfl] at hu; cases hu
            | false => exact ⟨i, Or.inl (by simpa using hth)⟩
          · cases hdelta u e with
            | same hs =>
              rw [hs] at hu
              obtain ⟨j, hj⟩ := hi.holder u k hu
              have hne : j ≠ i := by
                intro e'; subst e'; rw [hth] at hj
                rcases hj with hj | hj
                · injection hj with hj; exact e hj.symm
                · cases hj
              exact ⟨j, by rw [hthi j hne]; exact hj⟩
            | new h0 k' st h1 hst hp' =>
              rw [h1] at hu; injection hu with hu; injection hu with _ hu; exact absurd hu hst
        · intro u k hu
          have hucap := (hreach.inv.tk u _ hu).1
          by_cases hold : isPending s.p u = true
          · -- was pending before: same owner (not thread i, which was executing)
            have : ∃ k', s.p.tasks u = some ⟨k', .pending⟩ := by
              simp only [isPending] at hold
              split at hold
              · rename_i k' hk'; exact ⟨k', hk'⟩
              · cases hold
            obtain ⟨k', hk'⟩ := this
            obtain ⟨j, hj1, hj2⟩ := hi.owner u k' hk'
            have hne : j ≠ i := by intro e'; subst e'; rw [hth] at hj1; cases hj1
            refine ⟨j, by rw [hthi j hne]; exact hj1, ?_⟩
            rw [upd_other _ _ _ hne]; exact hj2
          · -- newly pending: created by this commit, which therefore ends the task
            have hne : u ≠ t := by
              intro e; subst e
              cases fin with
              | true => rw [hfin rfl] at hu; cases hu
              | false => obtain ⟨k2, hk2⟩ := hnfin rfl; rw [hk2] at hu; injection hu with hu; injection hu with _ hu; cases hu
            have hfinT : fin = true := by
              cases hdelta u hne with
              | same hs =>
                exfalso; apply hold
                simp only [isPending, ← hs, hu]
              | new h0 k' st h1 hst hp' =>
                rw [h1] at hu; injection hu with hu; injection hu with _ hu
                exact hp' hu
            refine ⟨i, by rw [hthii, hfinT]; rfl, ?_⟩
            simp only [upd_same]
            apply List.mem_append_right
            rw [List.mem_filter]
            refine ⟨List.mem_range.mpr hucap, ?_⟩
            have hnow : isPending p' u = true := by simp [isPending, hu]
            simp only [hnow, Bool.true_and, Bool.not_eq_true']
            simpa using hold
        · intro u c hu
          -- the committing thread itself is obliged (it executes, or adds its tasks and polls)
          refine ⟨i, ?_⟩
          rw [hthii]
          cases fin with
          | true => exact Or.inr (Or.inl rfl)
          | false => exact Or.inl ⟨t, rfl⟩
        · intro j hj
          have hne : j ≠ i := by
            intro e; subst e; rw [hthii] at hj
            split_ifs at hj <;> cases hj
          rw [hthi j hne] at hj
          exact run_stays_false l hp (hi.exitFlag j hj)
      · cases h
    · cases h
  | enq i t =>
    simp only [lstep] at h
    split at h
    · rename_i hth
      split_ifs at h with hm
      split at h
      · rename_i p' hp
        injection h with h; subst h
        obtain ⟨k, hk, rfl⟩ := step_enqueue hp
        have hreach := reach_step (.enqueue t) hN hi.reach hp
        refine ⟨hreach, ?_, ?_, ?_, ?_⟩
        all_goals dsimp only
        · intro u k' hu
          have e : u ≠ t := by
            intro e; subst e; simp only [upd_same] at hu; injection hu with hu; injection hu with _ hu; cases hu
          simp only [upd_other _ _ _ e] at hu
          exact hi.holder u k' hu
        · intro u k' hu
          have e : u ≠ t := by
            intro e; subst e; simp only [upd_same] at hu; injection hu with hu; injection hu with _ hu; cases hu
          simp only [upd_other _ _ _ e] at hu
          obtain ⟨j, hj1, hj2⟩ := hi.owner u k' hu
          refine ⟨j, hj1, ?_⟩
          by_cases ej : j = i
          · subst ej; simp only [upd_same]; exact mem_erase_ne hj2 e
          · simp only [upd_other _ _ _ ej]; exact hj2
        · intro u c hu
          by_cases e : u = t
          · exact ⟨i, Or.inr (Or.inl hth)⟩
          · simp only [upd_other _ _ _ e] at hu
            exact hi.oblig u c hu
        · intro j hj; exact hi.exitFlag j hj
      · cases h
    · cases h
  | innerPoll i got =>
    simp only [lstep] at h
    split at h
    · rename_i hth
      split_ifs at h with hm
      split at h
      · rename_i p' hp; injection h with h; subst h
        exact linv_poll (nxt := fun g => match g with | some t => .exec t | none => .check) hN hi hp
          ⟨(by intro u e; rw [hth] at e; cases e), (by intro u e; rw [hth] at e; cases e)⟩
          (by intro _; simpa using hm) (fun t => Or.inl rfl) (by intro e; cases e)
      · cases h
    · cases h
  | checkYes i =>
    simp only [lstep] at h
    split at h
    · rename_i hth
      split at h
      · rename_i p' hp; injection h with h; subst h
        obtain ⟨_, _, rfl⟩ := step_checkTermination hp
        have hreach := reach_step .checkTermination hN hi.reach hp
        have hother : ∀ j, j ≠ i → upd s.th i (.top none) j = s.th j := fun j hj => upd_other _ _ _ hj
        have hni : ∀ j, Obliged (s.th j) → j ≠ i := by
          intro j hj e; subst e; rw [hth] at hj
          rcases hj with ⟨u, hj⟩ | hj | ⟨u, hj⟩ <;> cases hj
        refine ⟨hreach, ?_, ?_, ?_, ?_⟩
        all_goals dsimp only
        · intro t k ht
          obtain ⟨j, hj⟩ := hi.holder t k ht
          have hne := hni j (by rcases hj with hj | hj; exact Or.inl ⟨t, hj⟩; exact Or.inr (Or.inr ⟨t, hj⟩))
          exact ⟨j, by rw [hother j hne]; exact hj⟩
        · intro t k ht
          obtain ⟨j, hj1, hj2⟩ := hi.owner t k ht
          have hne := hni j (Or.inr (Or.inl hj1))
          exact ⟨j, by rw [hother j hne]; exact hj1, hj2⟩
        · intro t c ht
          obtain ⟨j, hj⟩ := hi.oblig t c ht
          exact ⟨j, by rw [hother j (hni j hj)]; exact hj⟩
        · intro j _; rfl
      · cases h
    · cases h
  | checkNo i got =>
    simp only [lstep] at h
    split at h
    · rename_i hth
      split_ifs at h with hc
      split at h
      · rename_i p' hp; injection h with h; subst h
        exact linv_poll (nxt := fun g => .top g) hN hi hp
          ⟨(by intro u e; rw [hth] at e; cases e), (by intro u e; rw [hth] at e; cases e)⟩
          (by intro e; rw [hth] at e; cases e) (fun t => Or.inr rfl) (by intro e; cases e)
      · cases h
    · cases h

theorem lrun_inv {cfg : Cfg} {s0 : State} (hN : weight cfg (fun _ => 1) s0 = cfg.N) :
    ∀ (ls : List LLabel) (s s' : LState), LInv cfg s0 s → lrun cfg s ls = some s' → LInv cfg s0 s' := by
  intro ls
  induction ls with
  | nil => intro s s' hi h; simp only [lrun] at h; injection h with h; subst h; exact hi
  | cons l ls ih =>
    intro s s' hi h
    simp only [lrun] at h
    split at h
    · cases h
    · rename_i s1 hs1
      exact ih s1 s' (lstep_inv l hN hi hs1) h

theorem linit_inv (cfg : Cfg) (srcIds : Nat → List Nat) (contIds : List Nat) :
    LInv cfg (init srcIds contIds) (linit srcIds contIds) := by
  refine ⟨reach_init cfg srcIds contIds, ?_, ?_, ?_, ?_⟩
  · intro t k h; simp [linit, init] at h
  · intro t k h; simp [linit, init] at h
  · intro t c h; simp [linit, init] at h
  · intro i h; simp [linit] at h

end CMacVerif.Photon
