import CMacVerif.Lemmas.PhotonEnd
/-! C01: the worker loop of the threads on top of the protocol.  Invariant: every running task is held
by a thread that will execute it, every pending task sits in the `tasks_to_add[]` of a thread that
will enqueue it, and for every queued flush task there is a thread that is still going to poll the
shared queue.  Consequence (`Props/C01.lean`): when all threads have left the loop no task exists. -/
namespace CMacVerif.Photon

/-! ### how a label changes a slot of the task table -/

/-- slot `u` is unchanged, or it was free and now holds a task that is not running -/
inductive Delta (s s' : State) (fin : Bool) (u : Nat) : Prop where
  | same (h : s'.tasks u = s.tasks u)
  | new (h0 : s.tasks u = none) (k : Kind) (st : TSt) (h1 : s'.tasks u = some ⟨k, st⟩) (hst : st ≠ .running)
      (hp : st = .pending → fin = true)

theorem fold_tasks {cfg : Cfg} {g : Nat} {outs : Nat → List Nat} {res : Nat → DirRes} :
    ∀ (l : List Nat) (acc acc' : State × Nat × Nat), foldOpt (travDir cfg g outs res) acc l = some acc' →
      (∀ u, acc.1.tasks u ≠ none → acc'.1.tasks u = acc.1.tasks u) ∧
      (∀ u, acc.1.tasks u = none → acc'.1.tasks u = none ∨ ∃ k, acc'.1.tasks u = some ⟨k, .pending⟩ ∧ (kindBuf k).isSome = true) := by
  intro l
  induction l with
  | nil =>
    intro acc acc' h; simp only [foldOpt] at h; injection h with h; subst h
    exact ⟨fun _ _ => rfl, fun _ hu => Or.inl hu⟩
  | cons i l ih =>
    intro acc acc' h
    simp only [foldOpt] at h
    split at h
    · cases h
    · rename_i acc1 hstep
      simp only [travDir] at hstep
      split at hstep
      · cases hstep
      · rename_i s1 hs1
        injection hstep with hstep
        have hF := travDirState_frame hs1
        have h2 := ih acc1 acc' h
        rw [← hstep] at h2
        simp only at h2
        refine ⟨?_, ?_⟩
        · intro u hu
          have e1 := hF.tasksKeep u hu
          rw [h2.1 u (by rw [e1]; exact hu), e1]
        · intro u hu
          rcases hF.tasksNew u hu with e | ⟨k, e, hk⟩
          · exact h2.2 u e
          · right; exact ⟨k, by rw [h2.1 u (by rw [e]; simp), e], hk⟩

theorem kindBuf_flush_none {k : Kind} (h : (kindBuf k).isSome = true) : ∀ c, k ≠ .flush c := by
  intro c e; subst e; simp at h

/-- the effect of a commit label on the task table -/
theorem commit_tasks {cfg : Cfg} {s s' : State} {l : Label} {t0 : Nat} {fin : Bool}
    (h : step cfg s l = some s') (hw : workInfo l = some (t0, fin)) :
    (∃ k, s.tasks t0 = some ⟨k, .running⟩) ∧
    (fin = true → s'.tasks t0 = none) ∧ (fin = false → ∃ k, s'.tasks t0 = some ⟨k, .running⟩) ∧
    ∀ u, u ≠ t0 → Delta s s' fin u := by
  cases l with
  | launchBatch src t => simp [workInfo] at hw
  | launchCont t => simp [workInfo] at hw
  | acquire t => simp [workInfo] at hw
  | enqueue t => simp [workInfo] at hw
  | premature g t' => simp [workInfo] at hw
  | checkTermination => simp [workInfo] at hw
  | execSource t b t' =>
    simp only [workInfo, Option.some.injEq, Prod.mk.injEq] at hw
    obtain ⟨rfl, rfl⟩ := hw
    obtain ⟨src, ids, hk, _, _, _, htt', rfl⟩ := step_execSource h
    refine ⟨⟨_, hk⟩, (fun _ => by simp), (fun e => by cases e), ?_⟩
    intro u hu
    by_cases e : u = t'
    · subst e
      exact Delta.new htt' _ _ (by show upd (upd s.tasks u _) t none u = _; rw [upd_other _ _ _ hu, upd_same])
        (by intro e; cases e) (fun _ => rfl)
    · exact Delta.same (by show upd (upd s.tasks t' _) t none u = _; rw [upd_other _ _ _ hu, upd_other _ _ _ e])
  | contGen t g k =>
    simp only [workInfo, Option.some.injEq, Prod.mk.injEq] at hw
    obtain ⟨rfl, rfl⟩ := hw
    obtain ⟨c, n, ids, hk, _, _, _, _, _, rfl⟩ := step_contGen h
    exact ⟨⟨_, hk⟩, (fun e => by cases e), fun _ => ⟨_, upd_same _ _ _⟩, fun u hu => Delta.same (upd_other _ _ _ hu)⟩
  | contOverflow t g b t' =>
    simp only [workInfo, Option.some.injEq, Prod.mk.injEq] at hw
    obtain ⟨rfl, rfl⟩ := hw
    obtain ⟨c, n, ids, hk, _, _, _, _, htt', rfl⟩ := step_contOverflow h
    have hne : t ≠ t' := by intro e; subst e; rw [hk] at htt'; cases htt'
    refine ⟨⟨_, hk⟩, (fun e => by cases e), fun _ => ⟨_, by simp only [upd_other _ _ _ hne]; exact hk⟩, ?_⟩
    intro u _
    by_cases e : u = t'
    · subst e; exact Delta.new htt' _ _ (upd_same _ _ _) (by intro e; cases e) (fun e => by cases e)
    · exact Delta.same (upd_other _ _ _ e)
  | flushOne t g b t' =>
    simp only [workInfo, Option.some.injEq, Prod.mk.injEq] at hw
    obtain ⟨rfl, rfl⟩ := hw
    obtain ⟨c, hk, _, _, _, _, _, htt', rfl⟩ := step_flushOne h
    have hne : t ≠ t' := by intro e; subst e; rw [hk] at htt'; cases htt'
    refine ⟨⟨_, hk⟩, (fun e => by cases e), fun _ => ⟨_, by simp only [upd_other _ _ _ hne]; exact hk⟩, ?_⟩
    intro u _
    by_cases e : u = t'
    · subst e; exact Delta.new htt' _ _ (upd_same _ _ _) (by intro e; cases e) (fun e => by cases e)
    · exact Delta.same (upd_other _ _ _ e)
  | flushFinish t =>
    simp only [workInfo, Option.some.injEq, Prod.mk.injEq] at hw
    obtain ⟨rfl, rfl⟩ := hw
    obtain ⟨c, hk, _, rfl⟩ := step_flushFinish h
    exact ⟨⟨_, hk⟩, fun _ => upd_same _ _ _, (fun e => by cases e), fun u hu => Delta.same (upd_other _ _ _ hu)⟩
  | contFinish t fl =>
    simp only [workInfo, Option.some.injEq, Prod.mk.injEq] at hw
    obtain ⟨rfl, rfl⟩ := hw
    obtain ⟨c, n, s2, hk, _, _, rfl, hcase⟩ := step_contFinish h
    refine ⟨⟨_, hk⟩, fun _ => upd_same _ _ _, (fun e => by cases e), ?_⟩
    intro u hu
    have hup : ∀ (sx : State), upd sx.tasks t none u = sx.tasks u := fun sx => upd_other _ _ _ hu
    rcases hcase with ⟨_, _, _, hadd⟩ | ⟨_, _, rfl⟩ | ⟨_, rfl⟩
    · -- the flush tasks
      have hfr : ∀ (fl : List Nat) (sa sb : State) (c : Nat), addFlush cfg sa c fl = some sb →
          ∀ u, sb.tasks u = sa.tasks u ∨ (sa.tasks u = none ∧ ∃ c, sb.tasks u = some ⟨.flush c, .queued⟩) := by
        intro fl
        induction fl with
        | nil => intro sa sb c h u; simp only [addFlush] at h; injection h with h; subst h; exact Or.inl rfl
        | cons t ts ih =>
          intro sa sb c h u
          simp only [addFlush] at h
          split_ifs at h with hf
          have hf' := (taskFree_iff cfg sa t).mp hf
          rcases ih _ sb (c + 1) h u with e | ⟨e1, c', e2⟩
          · by_cases hu : u = t
            · subst hu; right; exact ⟨hf'.2, c, by rw [e]; simp⟩
            · left; rw [e]; exact upd_other _ _ _ hu
          · by_cases hu : u = t
            · subst hu; simp at e1
            · right; exact ⟨by rw [← e1]; exact (upd_other _ _ _ hu).symm, c', e2⟩
      rcases hfr fl _ s2 0 hadd u with e | ⟨e1, c', e2⟩
      · exact Delta.same (by show upd s2.tasks t none u = _; rw [hup s2]; exact e)
      · exact Delta.new e1 _ _ (by show upd s2.tasks t none u = _; rw [hup s2]; exact e2) (by intro e; cases e) (fun _ => rfl)
    · exact Delta.same (hup _)
    · exact Delta.same (hup _)
  | execReemit t keep t' =>
    simp only [workInfo, Option.some.injEq, Prod.mk.injEq] at hw
    obtain ⟨rfl, rfl⟩ := hw
    obtain ⟨b, buf, hk, _, _, hcase⟩ := step_execReemit h
    rcases hcase with ⟨_, rfl⟩ | ⟨_, _, htt', rfl⟩
    · exact ⟨⟨_, hk⟩, fun _ => upd_same _ _ _, (fun e => by cases e), fun u hu => Delta.same (upd_other _ _ _ hu)⟩
    · refine ⟨⟨_, hk⟩, fun _ => upd_same _ _ _, (fun e => by cases e), ?_⟩
      intro u hu
      by_cases e : u = t'
      · subst e
        exact Delta.new htt' _ _ (by show upd (upd s.tasks u _) t none u = _; rw [upd_other _ _ _ hu, upd_same])
          (by intro e; cases e) (fun _ => rfl)
      · exact Delta.same (by show upd (upd s.tasks t' _) t none u = _; rw [upd_other _ _ _ hu, upd_other _ _ _ e])
  | execTraverse t fates res =>
    simp only [workInfo, Option.some.injEq, Prod.mk.injEq] at hw
    obtain ⟨rfl, rfl⟩ := hw
    obtain ⟨b0, buf, s1, li, ls, hk, _, _, _, hfold, rfl⟩ := step_execTraverse h
    have hft := fold_tasks _ _ _ hfold
    simp only at hft
    refine ⟨⟨_, hk⟩, fun _ => upd_same _ _ _, (fun e => by cases e), ?_⟩
    intro u hu
    have hup : upd s1.tasks t none u = s1.tasks u := upd_other _ _ _ hu
    cases hsu : s.tasks u with
    | some tk => exact Delta.same (by show upd s1.tasks t none u = _; rw [hup, hft.1 u (by rw [hsu]; simp)])
    | none =>
      rcases hft.2 u hsu with e | ⟨k, e, _⟩
      · exact Delta.same (by show upd s1.tasks t none u = _; rw [hup, e, hsu])
      · exact Delta.new hsu _ _ (by show upd s1.tasks t none u = _; rw [hup]; exact e) (by intro e; cases e) (fun _ => rfl)

/-- new flush tasks only come from `contFinish`; premature launch and task creation by the main
thread add one queued task that is not a flush task -/
theorem other_tasks {cfg : Cfg} {s s' : State} {l : Label} (h : step cfg s l = some s')
    (hl : (∃ a b, l = .launchBatch a b) ∨ (∃ a, l = .launchCont a) ∨ (∃ a b, l = .premature a b)) :
    ∀ u, s'.tasks u = s.tasks u ∨
      (s.tasks u = none ∧ ∃ k, s'.tasks u = some ⟨k, .queued⟩ ∧ ∀ c, k ≠ .flush c) := by
  intro u
  rcases hl with ⟨a, b, rfl⟩ | ⟨a, rfl⟩ | ⟨a, b, rfl⟩
  · obtain ⟨_, _, _, hf, rfl⟩ := step_launchBatch h
    by_cases e : u = b
    · subst e; right; exact ⟨hf, _, upd_same _ _ _, by intro c e; cases e⟩
    · left; exact upd_other _ _ _ e
  · obtain ⟨_, _, hf, _, rfl⟩ := step_launchCont h
    by_cases e : u = a
    · subst e; right; exact ⟨hf, _, upd_same _ _ _, by intro c e; cases e⟩
    · left; exact upd_other _ _ _ e
  · obtain ⟨bb, _, _, _, _, hf, _, rfl⟩ := step_premature h
    by_cases e : u = b
    · subst e; right
      refine ⟨hf, _, upd_same _ _ _, ?_⟩
      intro c e'
      have := fullKind_buf (s.largest a).1 bb
      rw [e'] at this; simp at this
    · left; exact upd_other _ _ _ e

end CMacVerif.Photon
