import CMacVerif.Lemmas.CartesianSeg
/-! The deposits of the Cartesian `interact` loop are the chords of the straight line in the cells
(C16): every deposit interval of the line parameter lies in the closed chord of the cell it is
credited to, and wherever the line is in the open box of a cell the deposit is credited to that
cell.  Periodic grids: the line is taken modulo whole box lengths on periodic axes. -/
namespace CMacVerif.Cartesian
open CMacVerif.GridNum

/-- the point of the straight line at parameter `t`, shifted by `σ` -/
def lineAt (p : V3 ℝ) (t : ℝ) (d σ : V3 ℝ) : V3 ℝ :=
  ⟨p.x + t * d.x + σ.x, p.y + t * d.y + σ.y, p.z + t * d.z + σ.z⟩

/-- whole box lengths on periodic axes, nothing on the other axes -/
def Lattice (g : Grid ℝ) (σ : V3 ℝ) : Prop :=
  (∃ k : Int, σ.x = (k : ℝ) * g.box.sx ∧ (g.px = false → k = 0)) ∧
  (∃ k : Int, σ.y = (k : ℝ) * g.box.sy ∧ (g.py = false → k = 0)) ∧
  (∃ k : Int, σ.z = (k : ℝ) * g.box.sz ∧ (g.pz = false → k = 0))

def OpenIn (b : Box3 ℝ) (p : V3 ℝ) : Prop :=
  b.ax < p.x ∧ p.x < b.ax + b.sx ∧ b.ay < p.y ∧ p.y < b.ay + b.sy ∧ b.az < p.z ∧ p.z < b.az + b.sz

/-- closed / open chord of the (shifted) line in a box: the parameters at which the line is inside -/
def ClosedChord (b : Box3 ℝ) (p d σ : V3 ℝ) (t : ℝ) : Prop := ClosedIn b (lineAt p t d σ)
def OpenChord (b : Box3 ℝ) (p d σ : V3 ℝ) (t : ℝ) : Prop := OpenIn b (lineAt p t d σ)

/-- the deposits (newest first): every deposit `(c, ds)` made after the deposits `rest` covers the
parameters `[T rest, T rest + ds]`, and both ends of that interval lie in the closed box of cell `c`
(for one image of the line) -/
def Chords (g : Grid ℝ) (d p0 : V3 ℝ) : List (Int × ℝ) → Prop
  | [] => True
  | e :: rest => 0 ≤ e.2 ∧
      (∃ (i : I3) (σ : V3 ℝ), InRange' g.n i ∧ longIndex g.n i = e.1 ∧ Lattice g σ ∧
        ClosedIn (cellBox g i) (lineAt p0 (pathSum rest) d σ) ∧
        ClosedIn (cellBox g i) (lineAt p0 (pathSum rest + e.2) d σ)) ∧
      Chords g d p0 rest

theorem pathSum_cons (e : Int × ℝ) (l : List (Int × ℝ)) : pathSum (e :: l) = e.2 + pathSum l := by
  simp [pathSum]

theorem lattice_zero (g : Grid ℝ) : Lattice g ⟨0, 0, 0⟩ :=
  ⟨⟨0, by simp, fun _ => rfl⟩, ⟨0, by simp, fun _ => rfl⟩, ⟨0, by simp, fun _ => rfl⟩⟩

theorem lattice_add (g : Grid ℝ) (a b : V3 ℝ) (ha : Lattice g a) (hb : Lattice g b) :
    Lattice g ⟨a.x + b.x, a.y + b.y, a.z + b.z⟩ := by
  obtain ⟨⟨k1, e1, z1⟩, ⟨k2, e2, z2⟩, ⟨k3, e3, z3⟩⟩ := ha
  obtain ⟨⟨l1, f1, w1⟩, ⟨l2, f2, w2⟩, ⟨l3, f3, w3⟩⟩ := hb
  refine ⟨⟨k1 + l1, ?_, fun h => ?_⟩, ⟨k2 + l2, ?_, fun h => ?_⟩, ⟨k3 + l3, ?_, fun h => ?_⟩⟩
  · simp only [e1, f1]; push_cast; ring
  · rw [z1 h, w1 h]; rfl
  · simp only [e2, f2]; push_cast; ring
  · rw [z2 h, w2 h]; rfl
  · simp only [e3, f3]; push_cast; ring
  · rw [z3 h, w3 h]; rfl

/-- one axis of the wrap: the position changes by a whole number of box lengths (0 if not periodic) -/
theorem wrap_axis_shift (per : Bool) (n : Int) (S p : ℝ) (i : Int) :
    ∃ k : Int, (insideAxis per n S i p).2.2 = p + (k : ℝ) * S ∧ (per = false → k = 0) := by
  unfold insideAxis
  cases per
  · exact ⟨0, by simp, fun _ => rfl⟩
  · simp only [Bool.not_true, Bool.false_eq_true, if_false]
    by_cases c1 : i < 0
    · by_cases c2 : n - 1 ≥ n
      · refine ⟨0, ?_, fun h => by simp at h⟩
        simp only [c1, if_true, c2]; push_cast; ring
      · refine ⟨1, ?_, fun h => by simp at h⟩
        simp only [c1, if_true, c2, if_false]; push_cast; ring
    · by_cases c2 : i ≥ n
      · refine ⟨-1, ?_, fun h => by simp at h⟩
        simp only [c1, if_false, c2, if_true]; push_cast; ring
      · refine ⟨0, ?_, fun h => by simp at h⟩
        simp only [c1, if_false, c2]; push_cast; ring

theorem wrap_shift (g : Grid ℝ) (st : St ℝ) :
    ∃ σ, Lattice g σ ∧ (wrapSt g st).pos = ⟨st.pos.x + σ.x, st.pos.y + σ.y, st.pos.z + σ.z⟩ := by
  obtain ⟨k1, e1, z1⟩ := wrap_axis_shift g.px g.n.x g.box.sx st.pos.x st.idx.x
  obtain ⟨k2, e2, z2⟩ := wrap_axis_shift g.py g.n.y g.box.sy st.pos.y st.idx.y
  obtain ⟨k3, e3, z3⟩ := wrap_axis_shift g.pz g.n.z g.box.sz st.pos.z st.idx.z
  refine ⟨⟨(k1 : ℝ) * g.box.sx, (k2 : ℝ) * g.box.sy, (k3 : ℝ) * g.box.sz⟩,
    ⟨⟨k1, rfl, z1⟩, ⟨k2, rfl, z2⟩, ⟨k3, rfl, z3⟩⟩, ?_⟩
  show (isInside g st.idx st.pos).2.2 = _
  simp only [isInside]
  rw [e1, e2, e3]

/-- one loop body: one deposit `(longIndex idx, ds)` with `ds ≥ 0`, the position advances by
`ds · d` and still lies in the closed box of the cell the deposit is credited to -/
theorem body_chord (big : ℝ) (g : Grid ℝ) (hg : GridOK g) (m : Medium ℝ) (d inv : V3 ℝ) (hr : RayOK big g d inv)
    (st : St ℝ) (h : SegInv g st) (hin : InRange' g.n st.idx) (hod : 0 < st.od) :
    ∃ ds : ℝ, 0 ≤ ds ∧ (body big g m d inv st).path = (longIndex g.n st.idx, ds) :: st.path ∧
      (body big g m d inv st).pos = ⟨st.pos.x + ds * d.x, st.pos.y + ds * d.y, st.pos.z + ds * d.z⟩ ∧
      ClosedIn (cellBox g st.idx) (body big g m d inv st).pos := by
  obtain ⟨hc, _, hp⟩ := h
  obtain ⟨bx, by', bz⟩ := hr.big st.idx st.pos hc
  have spec := wallIntersection_spec big st.pos d inv (cellBox g st.idx) hc hr.ix hr.iy hr.iz hr.nonzero bx by' bz
  simp only at spec
  set w := wallIntersection big st.pos d inv (cellBox g st.idx) with hw
  obtain ⟨ds0, hwc, _⟩ := spec
  have hwx : w.1.x = st.pos.x + d.x * w.2.2 := rfl
  have hwy : w.1.y = st.pos.y + d.y * w.2.2 := rfl
  have hwz : w.1.z = st.pos.z + d.z * w.2.2 := rfl
  unfold body
  simp only [zero_lit]
  rw [← hw]
  by_cases hcor : st.od - opticalDepth m (longIndex g.n st.idx) w.2.2 < 0
  · rw [if_pos hcor]
    obtain ⟨htau, hds⟩ := corr_ds_ne m _ _ _ hod hcor
    set tau := opticalDepth m (longIndex g.n st.idx) w.2.2 with htaudef
    have htau_pos : 0 < tau := by linarith
    have ht0 : 0 ≤ st.od / tau := (div_pos hod htau_pos).le
    have ht1 : st.od / tau ≤ 1 := by rw [div_le_one htau_pos]; linarith
    have hds' : w.2.2 + w.2.2 * (st.od - tau) / tau = w.2.2 * (st.od / tau) := by field_simp; ring
    have hpos : ∀ (o dd : ℝ), o + (o + dd * w.2.2 - o) * (w.2.2 + w.2.2 * (st.od - tau) / tau) / w.2.2
        = o + (w.2.2 + w.2.2 * (st.od - tau) / tau) * dd := by
      intro o dd; field_simp; ring
    refine ⟨w.2.2 + w.2.2 * (st.od - tau) / tau, by rw [hds']; exact mul_nonneg ds0 ht0, rfl, ?_, ?_⟩
    · simp only [hwx, hwy, hwz, hpos]
    · simp only [hwx, hwy, hwz, hpos]
      obtain ⟨c1, c2, c3, c4, c5, c6⟩ := hc
      obtain ⟨w1, w2, w3, w4, w5, w6⟩ := hwc
      rw [hwx] at w1 w2; rw [hwy] at w3 w4; rw [hwz] at w5 w6
      rw [hds']
      have conv : ∀ (o dd lo hi : ℝ), lo ≤ o → o ≤ hi → lo ≤ o + dd * w.2.2 → o + dd * w.2.2 ≤ hi →
          lo ≤ o + w.2.2 * (st.od / tau) * dd ∧ o + w.2.2 * (st.od / tau) * dd ≤ hi := by
        intro o dd lo hi a1 a2 a3 a4
        have e : o + w.2.2 * (st.od / tau) * dd = o + (dd * w.2.2) * (st.od / tau) := by ring
        rw [e]
        constructor <;> nlinarith
      exact ⟨(conv _ _ _ _ c1 c2 w1 w2).1, (conv _ _ _ _ c1 c2 w1 w2).2, (conv _ _ _ _ c3 c4 w3 w4).1,
        (conv _ _ _ _ c3 c4 w3 w4).2, (conv _ _ _ _ c5 c6 w5 w6).1, (conv _ _ _ _ c5 c6 w5 w6).2⟩
  · rw [if_neg hcor]
    refine ⟨w.2.2, ds0, rfl, ?_, hwc⟩
    show w.1 = _
    have : w.1 = ⟨w.1.x, w.1.y, w.1.z⟩ := rfl
    rw [this, hwx, hwy, hwz]
    simp only [mul_comm]

/-- the invariant of the loop: the segment invariant, the chord property of all deposits so far,
and the position is the point of (an image of) the line at the parameter reached -/
structure ChordInv (g : Grid ℝ) (d p0 : V3 ℝ) (st : St ℝ) : Prop where
  seg : SegInv g st
  chords : Chords g d p0 st.path
  onLine : ∃ σ, Lattice g σ ∧ st.pos = lineAt p0 (pathSum st.path) d σ

theorem loop_chord (big : ℝ) (g : Grid ℝ) (hg : GridOK g) (m : Medium ℝ) (d inv p0 : V3 ℝ)
    (hr : RayOK big g d inv) (fuel : Nat) : ∀ st : St ℝ, ChordInv g d p0 st →
      Chords g d p0 (loop big g m d inv fuel st).1.path := by
  induction fuel with
  | zero => intro st h; exact h.chords
  | succ fuel ih =>
    intro st h
    simp only [loop]
    by_cases hc : ((isInside g st.idx st.pos).1 && decide (st.od > 0.0)) = true
    · rw [if_pos hc]
      simp only [Bool.and_eq_true, decide_eq_true_eq, zero_lit] at hc
      have hfl : gridFlag g st.idx = true := by rw [← (isInside_flag g st.idx st.pos).1]; exact hc.1
      obtain ⟨hs, hin⟩ := wrap_seg g hg st h.seg hfl
      obtain ⟨σw, hσw, hwpos⟩ := wrap_shift g st
      obtain ⟨σ, hσ, hpos⟩ := h.onLine
      have hod : 0 < (wrapSt g st).od := hc.2
      obtain ⟨ds, hds0, hpath, hbpos, hbin⟩ := body_chord big g hg m d inv hr _ hs hin hod
      have hwpath : (wrapSt g st).path = st.path := rfl
      -- the wrapped position is the line point with the shift σ + σw
      have hwline : (wrapSt g st).pos = lineAt p0 (pathSum st.path) d ⟨σ.x + σw.x, σ.y + σw.y, σ.z + σw.z⟩ := by
        rw [hwpos, hpos]; simp only [lineAt]
        congr 1 <;> ring
      have hbline : (body big g m d inv (wrapSt g st)).pos =
          lineAt p0 (pathSum st.path + ds) d ⟨σ.x + σw.x, σ.y + σw.y, σ.z + σw.z⟩ := by
        rw [hbpos, hwline]; simp only [lineAt]
        congr 1 <;> ring
      apply ih
      refine ⟨body_seg big g hg m d inv hr _ hs hin hod, ?_, ?_⟩
      · rw [hpath, hwpath]
        refine ⟨hds0, ⟨(wrapSt g st).idx, _, hin, rfl, lattice_add g _ _ hσ hσw, ?_, ?_⟩, h.chords⟩
        · rw [← hwline]; exact hs.inCell
        · show ClosedIn _ (lineAt p0 (pathSum st.path + ds) d _)
          rw [← hbline]; exact hbin
      · refine ⟨_, lattice_add g _ _ hσ hσw, ?_⟩
        rw [hbline, hpath, hwpath, pathSum_cons]
        simp only [lineAt]
        congr 1 <;> ring
    · rw [if_neg hc]; exact h.chords

/-- a deposit anywhere in the list has the head property -/
theorem chords_split (g : Grid ℝ) (d p0 : V3 ℝ) (newer : List (Int × ℝ)) (e : Int × ℝ) (older : List (Int × ℝ))
    (h : Chords g d p0 (newer ++ e :: older)) : Chords g d p0 (e :: older) := by
  induction newer with
  | nil => exact h
  | cons x xs ih => exact ih h.2.2

/-- the line between two parameters at which it is in a closed box stays in the box -/
theorem closed_convex (b : Box3 ℝ) (p d σ : V3 ℝ) (t0 t1 t : ℝ) (h0 : ClosedIn b (lineAt p t0 d σ))
    (h1 : ClosedIn b (lineAt p t1 d σ)) (ht0 : t0 ≤ t) (ht1 : t ≤ t1) : ClosedIn b (lineAt p t d σ) := by
  obtain ⟨a1, a2, a3, a4, a5, a6⟩ := h0
  obtain ⟨b1, b2, b3, b4, b5, b6⟩ := h1
  simp only [lineAt] at a1 a2 a3 a4 a5 a6 b1 b2 b3 b4 b5 b6
  have key : ∀ (o dd s lo hi : ℝ), lo ≤ o + t0 * dd + s → o + t0 * dd + s ≤ hi → lo ≤ o + t1 * dd + s →
      o + t1 * dd + s ≤ hi → lo ≤ o + t * dd + s ∧ o + t * dd + s ≤ hi := by
    intro o dd s lo hi c1 c2 c3 c4
    rcases le_total 0 dd with hd | hd
    · have e1 : t0 * dd ≤ t * dd := mul_le_mul_of_nonneg_right ht0 hd
      have e2 : t * dd ≤ t1 * dd := mul_le_mul_of_nonneg_right ht1 hd
      constructor <;> linarith
    · have e1 : t * dd ≤ t0 * dd := mul_le_mul_of_nonpos_right ht0 hd
      have e2 : t1 * dd ≤ t * dd := mul_le_mul_of_nonpos_right ht1 hd
      constructor <;> linarith
  simp only [ClosedIn, lineAt]
  exact ⟨(key _ _ _ _ _ a1 a2 b1 b2).1, (key _ _ _ _ _ a1 a2 b1 b2).2, (key _ _ _ _ _ a3 a4 b3 b4).1,
    (key _ _ _ _ _ a3 a4 b3 b4).2, (key _ _ _ _ _ a5 a6 b5 b6).1, (key _ _ _ _ _ a5 a6 b5 b6).2⟩

/-- one axis: a point of the open interval of cell `j` and its image by `k` box lengths in the
closed interval of cell `i` (both in range): no shift, same cell -/
theorem axis_open_closed (a S : ℝ) (n i j k : Int) (hS : 0 < S) (hn : 0 < n) (hi : 0 ≤ i ∧ i < n) (hj : 0 ≤ j ∧ j < n)
    (x : ℝ) (h1 : a + S / (n : ℝ) * (j : ℝ) < x) (h2 : x < a + S / (n : ℝ) * (j : ℝ) + S / (n : ℝ))
    (h3 : a + S / (n : ℝ) * (i : ℝ) ≤ x + (k : ℝ) * S) (h4 : x + (k : ℝ) * S ≤ a + S / (n : ℝ) * (i : ℝ) + S / (n : ℝ)) :
    k = 0 ∧ i = j := by
  have hnR : (0 : ℝ) < (n : ℝ) := by exact_mod_cast hn
  have hcs : 0 < S / (n : ℝ) := div_pos hS hnR
  have e : S / (n : ℝ) * (n : ℝ) = S := by field_simp
  have hi0 : (0 : ℝ) ≤ (i : ℝ) := by exact_mod_cast hi.1
  have hi1 : (i : ℝ) + 1 ≤ (n : ℝ) := by exact_mod_cast hi.2
  have hj0 : (0 : ℝ) ≤ (j : ℝ) := by exact_mod_cast hj.1
  have hj1 : (j : ℝ) + 1 ≤ (n : ℝ) := by exact_mod_cast hj.2
  -- x ∈ (a, a + S), x + kS ∈ [a, a + S]
  have x1 : a < x := by nlinarith
  have x2 : x < a + S := by nlinarith
  have y1 : a ≤ x + (k : ℝ) * S := by nlinarith
  have y2 : x + (k : ℝ) * S ≤ a + S := by nlinarith
  have k1 : (k : ℝ) < 1 := by
    by_contra hcon
    have : 1 ≤ (k : ℝ) := not_lt.mp hcon
    nlinarith
  have k2 : (-1 : ℝ) < (k : ℝ) := by
    by_contra hcon
    have : (k : ℝ) ≤ -1 := not_lt.mp hcon
    nlinarith
  have hk : k = 0 := by
    have a1 : k < 1 := by exact_mod_cast k1
    have a2 : -1 < k := by exact_mod_cast k2
    omega
  subst hk
  simp only [Int.cast_zero, zero_mul, add_zero] at h3 h4
  refine ⟨rfl, ?_⟩
  have c1 : (j : ℝ) < (i : ℝ) + 1 := by
    by_contra hcon
    have : (i : ℝ) + 1 ≤ (j : ℝ) := not_lt.mp hcon
    nlinarith
  have c2 : (i : ℝ) < (j : ℝ) + 1 := by
    by_contra hcon
    have : (j : ℝ) + 1 ≤ (i : ℝ) := not_lt.mp hcon
    nlinarith
  have d1 : j < i + 1 := by exact_mod_cast c1
  have d2 : i < j + 1 := by exact_mod_cast c2
  omega

/-- a point in the open box of cell `j` whose image by a lattice shift lies in the closed box of
cell `i`: same cell, same image -/
theorem cells_unique (g : Grid ℝ) (hg : GridOK g) (p d σ σ' : V3 ℝ) (t : ℝ) (i j : I3)
    (hi : InRange' g.n i) (hj : InRange' g.n j) (hσ : Lattice g σ) (hσ' : Lattice g σ')
    (hc : ClosedIn (cellBox g i) (lineAt p t d σ)) (ho : OpenIn (cellBox g j) (lineAt p t d σ')) :
    j = i ∧ σ' = σ := by
  obtain ⟨⟨k1, e1, _⟩, ⟨k2, e2, _⟩, ⟨k3, e3, _⟩⟩ := hσ
  obtain ⟨⟨l1, f1, _⟩, ⟨l2, f2, _⟩, ⟨l3, f3, _⟩⟩ := hσ'
  obtain ⟨c1, c2, c3, c4, c5, c6⟩ := hc
  obtain ⟨o1, o2, o3, o4, o5, o6⟩ := ho
  obtain ⟨i1, i2, i3, i4, i5, i6⟩ := hi
  obtain ⟨j1, j2, j3, j4, j5, j6⟩ := hj
  simp only [cellBox, ofInt_real, hg.csx, hg.csy, hg.csz, lineAt] at c1 c2 c3 c4 c5 c6 o1 o2 o3 o4 o5 o6
  have hx := axis_open_closed g.box.ax g.box.sx g.n.x i.x j.x (k1 - l1) hg.sx hg.nx ⟨i1, i2⟩ ⟨j1, j2⟩
    (p.x + t * d.x + σ'.x) o1 o2 (by push_cast; rw [e1, f1] at *; linarith) (by push_cast; rw [e1, f1] at *; linarith)
  have hy := axis_open_closed g.box.ay g.box.sy g.n.y i.y j.y (k2 - l2) hg.sy hg.ny ⟨i3, i4⟩ ⟨j3, j4⟩
    (p.y + t * d.y + σ'.y) o3 o4 (by push_cast; rw [e2, f2] at *; linarith) (by push_cast; rw [e2, f2] at *; linarith)
  have hz := axis_open_closed g.box.az g.box.sz g.n.z i.z j.z (k3 - l3) hg.sz hg.nz ⟨i5, i6⟩ ⟨j5, j6⟩
    (p.z + t * d.z + σ'.z) o5 o6 (by push_cast; rw [e3, f3] at *; linarith) (by push_cast; rw [e3, f3] at *; linarith)
  constructor
  · cases i; cases j
    simp only at hx hy hz
    simp only [I3.mk.injEq]
    exact ⟨hx.2.symm, hy.2.symm, hz.2.symm⟩
  · have a1 : l1 = k1 := by omega
    have a2 : l2 = k2 := by omega
    have a3 : l3 = k3 := by omega
    cases σ; cases σ'
    simp only at e1 e2 e3 f1 f2 f3
    simp only [V3.mk.injEq]
    exact ⟨by rw [f1, e1, a1], by rw [f2, e2, a2], by rw [f3, e3, a3]⟩

end CMacVerif.Cartesian
