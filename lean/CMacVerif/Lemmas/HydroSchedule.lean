import CMacVerif.Model.HydroTasks
import CMacVerif.Lemmas.HydroStep
import CMacVerif.Props.C07
import Mathlib.Logic.Relation
/-! Lemmas for the schedule independence of the hydro step (C10). -/
namespace CMacVerif.HydroSchedule
open CMacVerif CMacVerif.RiemannVacuum CMacVerif.HydroGraph CMacVerif.HydroSweeps
  CMacVerif.HydroUpdate CMacVerif.HydroStep CMacVerif.HydroTasks

/-! ### reordering a sequential execution -/

theorem foldl_comm_front {τ β : Type} (f : β → τ → β) (t : τ) (pre : List τ)
    (hc : ∀ p ∈ pre, ∀ z, f (f z p) t = f (f z t) p) (s : β) :
    (pre ++ [t]).foldl f s = (t :: pre).foldl f s := by
  induction pre generalizing s with
  | nil => rfl
  | cons p pre ih =>
    rw [List.cons_append, List.foldl_cons, ih (fun q hq => hc q (List.mem_cons_of_mem _ hq))]
    simp only [List.foldl_cons]
    rw [hc p List.mem_cons_self]

/-- Two sequential executions of the same tasks give the same result when both respect a
precedence relation `R` and tasks that `R` does not order commute. -/
theorem foldl_eq_of_respects {τ β : Type} (f : β → τ → β) (R : τ → τ → Prop)
    (hcomm : ∀ a b, ¬ R a b → ¬ R b a → ∀ z, f (f z a) b = f (f z b) a) :
    ∀ (σ' σ : List τ), σ.Perm σ' → σ.Pairwise (fun a b => ¬ R b a) →
      σ'.Pairwise (fun a b => ¬ R b a) → ∀ s, σ.foldl f s = σ'.foldl f s := by
  intro σ'
  induction σ' with
  | nil =>
    intro σ hp _ _ s
    rw [List.Perm.eq_nil hp]
  | cons t rest ih =>
    intro σ hp hσ hσ' s
    have ht : t ∈ σ := hp.symm.subset List.mem_cons_self
    obtain ⟨pre, post, rfl⟩ := List.mem_iff_append.mp ht
    rw [List.pairwise_append] at hσ
    obtain ⟨hpre, hpost, hcross⟩ := hσ
    rw [List.pairwise_cons] at hσ'
    have hc : ∀ p ∈ pre, ∀ z, f (f z p) t = f (f z t) p := by
      intro p hp' z
      have h1 : ¬ R t p := hcross p hp' t List.mem_cons_self
      have h2 : ¬ R p t := by
        have : p ∈ t :: rest := hp.subset (List.mem_append_left _ hp')
        rcases List.mem_cons.mp this with rfl | hpr
        · exact h1
        · exact hσ'.1 p hpr
      exact hcomm p t h2 h1 z
    have e1 : (pre ++ t :: post).foldl f s = (pre ++ post).foldl f (f s t) := by
      rw [show pre ++ t :: post = (pre ++ [t]) ++ post by simp, List.foldl_append,
        foldl_comm_front f t pre hc, List.foldl_cons, ← List.foldl_append]
    rw [e1, List.foldl_cons]
    apply ih
    · exact (List.perm_middle.symm.trans hp).cons_inv
    · rw [List.pairwise_append]
      exact ⟨hpre, (List.pairwise_cons.mp hpost).2,
        fun a ha b hb => hcross a ha b (List.mem_cons_of_mem _ hb)⟩
    · exact hσ'.2

/-! ### locality: a task reads and writes only the cells of its footprint -/

variable {σ κ : Type}

/-- `f` leaves the cells outside `A` alone and its result on `A` depends only on the cells of `A` -/
def Local (A : Cell → Prop) (f : Grid σ → Grid σ) : Prop :=
  (∀ s x, ¬ A x → f s x = s x) ∧
    (∀ s s', (∀ x, A x → s x = s' x) → ∀ x, A x → f s x = f s' x)

theorem local_comm {A B : Cell → Prop} {f g : Grid σ → Grid σ} (hf : Local A f) (hg : Local B g)
    (hd : ∀ x, A x → B x → False) (s : Grid σ) : f (g s) = g (f s) := by
  funext x
  by_cases hA : A x
  · have hB : ¬ B x := fun h => hd x hA h
    rw [hg.1 (f s) x hB]
    exact hf.2 (g s) s (fun y hy => hg.1 s y (fun h => hd y hy h)) x hA
  · rw [hf.1 (g s) x hA]
    by_cases hB : B x
    · exact (hg.2 (f s) s (fun y hy => hf.1 s y (fun h => hd y h hy)) x hB).symm
    · rw [hg.1 s x hB, hg.1 (f s) x hB, hf.1 s x hA]

theorem local_mono {A A' : Cell → Prop} {f : Grid σ → Grid σ} (h : ∀ x, A x → A' x)
    (hf : Local A f) : Local A' f := by
  classical
  refine ⟨fun s x hx => hf.1 s x (fun ha => hx (h x ha)), fun s s' hs x hx => ?_⟩
  by_cases ha : A x
  · exact hf.2 s s' (fun y hy => hs y (h y hy)) x ha
  · rw [hf.1 s x ha, hf.1 s' x ha]; exact hs x hx

theorem local_comp {A : Cell → Prop} {f g : Grid σ → Grid σ} (hf : Local A f) (hg : Local A g) :
    Local A (fun s => g (f s)) :=
  ⟨fun s x hx => by show g (f s) x = s x; rw [hg.1 (f s) x hx, hf.1 s x hx],
    fun s s' hs x hx => hg.2 (f s) (f s') (fun y hy => hf.2 s s' hs y hy) x hx⟩

theorem local_id {A : Cell → Prop} : Local A (fun s : Grid σ => s) :=
  ⟨fun _ _ _ => rfl, fun _ _ hs x hx => hs x hx⟩

/-- the cells a call touches -/
def opCells : Op → List Cell
  | .pair _ l r => [l, r]
  | .ghost _ _ x => [x]

theorem local_applyOp (P : Phys σ κ) (op : Op) :
    Local (fun x => x ∈ opCells op) (fun s => applyOp P s op) := by
  cases op with
  | pair ax l r =>
    refine ⟨fun s x hx => ?_, fun s s' hs x hx => ?_⟩
    · simp only [opCells, List.mem_cons, List.not_mem_nil, or_false, not_or] at hx
      simp [applyOp, gupd, hx.1, hx.2]
    · have hl : s l = s' l := hs l (by simp [opCells])
      have hr : s r = s' r := hs r (by simp [opCells])
      simp only [opCells, List.mem_cons, List.not_mem_nil, or_false] at hx
      simp only [applyOp, gupd, hl, hr]
      rcases hx with rfl | rfl
      · by_cases h : x = r
        · simp [h]
        · simp [h]
      · simp
  | ghost ax up c =>
    refine ⟨fun s x hx => ?_, fun s s' hs x hx => ?_⟩
    · simp only [opCells, List.mem_cons, List.not_mem_nil, or_false] at hx
      simp [applyOp, gupd, hx]
    · have hc : s c = s' c := hs c (by simp [opCells])
      simp only [opCells, List.mem_cons, List.not_mem_nil, or_false] at hx
      simp only [applyOp, gupd, hc, hx, if_true]

theorem local_runOps (P : Phys σ κ) (A : Cell → Prop) (ops : List Op)
    (h : ∀ op ∈ ops, ∀ x ∈ opCells op, A x) : Local A (fun s => runOps P s ops) := by
  induction ops with
  | nil => exact local_id
  | cons o ops ih =>
    have h1 : Local A (fun s => applyOp P s o) :=
      local_mono (fun x hx => h o List.mem_cons_self x hx) (local_applyOp P o)
    exact local_comp h1 (ih (fun op hop => h op (List.mem_cons_of_mem _ hop)))

theorem local_mapSub (c : Cells) (g : Sub) (f : σ → σ) :
    Local (fun x => inSub c g x = true) (mapSub c g f) := by
  refine ⟨fun s x hx => by simp [mapSub, hx], fun s s' hs x hx => ?_⟩
  simp only [mapSub, hx, if_true]
  rw [hs x hx]


/-! ### the cells of a subgrid -/

theorem inSub_gcell {c : Cells} (g : Sub) {p : Loc} (hp : validLoc c p = true) :
    inSub c g (gcell c g p) = true := by
  rw [validLoc_iff] at hp
  simp only [inSub, gcell, Bool.and_eq_true]
  refine ⟨⟨⟨⟨⟨?_, ?_⟩, ?_⟩, ?_⟩, ?_⟩, ?_⟩ <;> apply decide_eq_true <;> omega

theorem mul_le_lt_unique {c a a' x : Nat} (h1 : a * c ≤ x) (h2 : x < a * c + c) (h1' : a' * c ≤ x)
    (h2' : x < a' * c + c) : a = a' := by
  rcases Nat.lt_trichotomy a a' with h | h | h
  · have : (a + 1) * c ≤ a' * c := Nat.mul_le_mul_right c h
    rw [Nat.add_mul, Nat.one_mul] at this; omega
  · exact h
  · have : (a' + 1) * c ≤ a * c := Nat.mul_le_mul_right c h
    rw [Nat.add_mul, Nat.one_mul] at this; omega

theorem inSub_unique {c : Cells} {g g' : Sub} {x : Cell} (h : inSub c g x = true)
    (h' : inSub c g' x = true) : g = g' := by
  simp only [inSub, Bool.and_eq_true] at h h'
  obtain ⟨a, b, d⟩ := g
  obtain ⟨a', b', d'⟩ := g'
  have e1 := mul_le_lt_unique (of_decide_eq_true h.1.1.1.1.1) (of_decide_eq_true h.1.1.1.1.2)
    (of_decide_eq_true h'.1.1.1.1.1) (of_decide_eq_true h'.1.1.1.1.2)
  have e2 := mul_le_lt_unique (of_decide_eq_true h.1.1.1.2) (of_decide_eq_true h.1.1.2)
    (of_decide_eq_true h'.1.1.1.2) (of_decide_eq_true h'.1.1.2)
  have e3 := mul_le_lt_unique (of_decide_eq_true h.1.2) (of_decide_eq_true h.2)
    (of_decide_eq_true h'.1.2) (of_decide_eq_true h'.2)
  simp only at e1 e2 e3
  subst e1 e2 e3; rfl

/-- the cells of the subgrids a task touches -/
def fpCells (L : Layout) (c : Cells) (t : Task) (x : Cell) : Prop :=
  ∃ h ∈ footprint L t, inSub c h x = true

theorem fpCells_disjoint {L : Layout} {c : Cells} {a b : Task} (h : ¬ conflict L a b) (x : Cell) :
    fpCells L c a x → fpCells L c b x → False := by
  rintro ⟨h1, hm1, hi1⟩ ⟨h2, hm2, hi2⟩
  have := inSub_unique hi1 hi2
  subst this
  exact h ⟨h1, hm1, hm2⟩

/-! ### the calls of a task stay inside its footprint -/

theorem mem_self_footprint (L : Layout) (t : Task) : t.g ∈ footprint L t := by
  obtain ⟨g, sl⟩ := t
  rcases sl with _ | ax | ax | _ | _ | _ | ax | ax | _ | _ <;> simp only [footprint] <;>
    (try cases ngbUp L ax g) <;> simp

theorem innerOps_cells (L : Layout) (c : Cells) (t : Task) :
    ∀ op ∈ innerOps c t.g, ∀ x ∈ opCells op, fpCells L c t x := by
  intro op hop x hx
  simp only [innerOps, List.mem_flatMap, List.mem_map] at hop
  obtain ⟨ax, _, ⟨p, q⟩, hpq, rfl⟩ := hop
  rw [mem_innerLoc] at hpq
  obtain ⟨hp, hlt, rfl⟩ := hpq
  simp only [opCells, List.mem_cons, List.not_mem_nil, or_false] at hx
  refine ⟨t.g, mem_self_footprint L t, ?_⟩
  rcases hx with rfl | rfl
  · exact inSub_gcell _ hp
  · exact inSub_gcell _ (validLoc_setCoord hp ax hlt)

theorem downOps_cells (L : Layout) (c : Cells) (hc : 0 < c.cx ∧ 0 < c.cy ∧ 0 < c.cz) (ax : Axis)
    (t : Task) : ∀ op ∈ downOps c ax t.g, ∀ x ∈ opCells op, fpCells L c t x := by
  have hcl : 0 < clen c ax := by cases ax <;> simp [clen, hc]
  intro op hop x hx
  simp only [downOps, ghostLoc, List.mem_map] at hop
  obtain ⟨p, hp, rfl⟩ := hop
  rw [mem_faceLocs c ax _ (by simpa using hcl)] at hp
  simp only [opCells, List.mem_cons, List.not_mem_nil, or_false] at hx
  subst hx
  exact ⟨t.g, mem_self_footprint L t, inSub_gcell _ hp.1⟩

theorem upOps_cells (L : Layout) (c : Cells) (hc : 0 < c.cx ∧ 0 < c.cy ∧ 0 < c.cz) (ax : Axis)
    (t : Task) (hs : t.slot = .gradUp ax ∨ t.slot = .fluxUp ax) :
    ∀ op ∈ upOps L c ax t.g, ∀ x ∈ opCells op, fpCells L c t x := by
  have hcl : 0 < clen c ax := by cases ax <;> simp [clen, hc]
  obtain ⟨g, sl⟩ := t
  intro op hop x hx
  have hfp : footprint L ⟨g, sl⟩ = (match ngbUp L ax g with | some n => [g, n] | none => [g]) := by
    rcases hs with h | h <;> simp only at h <;> subst h <;> rfl
  unfold upOps at hop
  simp only at hop
  cases hn : ngbUp L ax g with
  | none =>
    rw [hn] at hop
    simp only [ghostLoc, List.mem_map, if_true] at hop
    obtain ⟨p, hp, rfl⟩ := hop
    rw [mem_faceLocs c ax _ (by omega)] at hp
    simp only [opCells, List.mem_cons, List.not_mem_nil, or_false] at hx
    subst hx
    exact ⟨g, by rw [hfp, hn]; simp, inSub_gcell _ hp.1⟩
  | some n =>
    rw [hn] at hop
    simp only [List.mem_map] at hop
    obtain ⟨⟨p, q⟩, hpq, rfl⟩ := hop
    rw [mem_outerLoc c ax hcl] at hpq
    obtain ⟨hp, _, rfl⟩ := hpq
    simp only [opCells, List.mem_cons, List.not_mem_nil, or_false] at hx
    rcases hx with rfl | rfl
    · exact ⟨g, by rw [hfp, hn]; simp, inSub_gcell _ hp⟩
    · exact ⟨n, by rw [hfp, hn]; simp, inSub_gcell _ (validLoc_setCoord hp ax hcl)⟩

theorem local_execTask (flux : FluxFn ℝ) (pr : Params ℝ) (limiter : HV ℝ → Grad ℝ)
    (predict : HV ℝ → Q ℝ) (L : Layout) (c : Cells) (hc : 0 < c.cx ∧ 0 < c.cy ∧ 0 < c.cz)
    (t : Task) : Local (fpCells L c t) (execTask flux pr limiter predict L c t) := by
  have hmap : ∀ f : HV ℝ → HV ℝ, Local (fpCells L c t) (mapSub c t.g f) := fun f =>
    local_mono (fun x hx => ⟨t.g, mem_self_footprint L t, hx⟩) (local_mapSub c t.g f)
  obtain ⟨g, sl⟩ := t
  rcases sl with _ | ax | ax | _ | _ | _ | ax | ax | _ | _ <;>
    (show Local _ (fun s => execTask flux pr limiter predict L c _ s)) <;> simp only [execTask]
  · exact local_runOps _ _ _ (innerOps_cells L c ⟨g, .gradInt⟩)
  · exact local_runOps _ _ _ (upOps_cells L c hc ax ⟨g, .gradUp ax⟩ (Or.inl rfl))
  · exact local_runOps _ _ _ (downOps_cells L c hc ax ⟨g, .gradDown ax⟩)
  · exact hmap _
  · exact hmap _
  · exact local_runOps _ _ _ (innerOps_cells L c ⟨g, .fluxInt⟩)
  · exact local_runOps _ _ _ (upOps_cells L c hc ax ⟨g, .fluxUp ax⟩ (Or.inr rfl))
  · exact local_runOps _ _ _ (downOps_cells L c hc ax ⟨g, .fluxDown ax⟩)
  · exact hmap _
  · exact hmap _

/-! ### tasks that the data dependences do not order commute -/

/-- the calls of a sweep task -/
def taskOps (L : Layout) (c : Cells) (t : Task) : List Op :=
  match t.slot with
  | .gradInt | .fluxInt => innerOps c t.g
  | .gradUp ax | .fluxUp ax => upOps L c ax t.g
  | .gradDown ax | .fluxDown ax => downOps c ax t.g
  | _ => []

theorem execTask_grad (flux : FluxFn ℝ) (pr : Params ℝ) (limiter : HV ℝ → Grad ℝ)
    (predict : HV ℝ → Q ℝ) (L : Layout) (c : Cells) (t : Task) (h : phase t.slot = 0)
    (s : Grid (HV ℝ)) :
    execTask flux pr limiter predict L c t s = runOps (gradPhys pr) s (taskOps L c t) := by
  obtain ⟨g, sl⟩ := t
  rcases sl with _ | ax | ax | _ | _ | _ | ax | ax | _ | _ <;> simp [phase] at h <;> rfl

theorem execTask_flux (flux : FluxFn ℝ) (pr : Params ℝ) (limiter : HV ℝ → Grad ℝ)
    (predict : HV ℝ → Q ℝ) (L : Layout) (c : Cells) (t : Task) (h : phase t.slot = 3)
    (s : Grid (HV ℝ)) :
    execTask flux pr limiter predict L c t s = runOps (fluxPhys flux pr) s (taskOps L c t) := by
  obtain ⟨g, sl⟩ := t
  rcases sl with _ | ax | ax | _ | _ | _ | ax | ax | _ | _ <;> simp [phase] at h <;> rfl

theorem runOps_append {P : Phys σ κ} (s : Grid σ) (a b : List Op) :
    runOps P (runOps P s a) b = runOps P s (a ++ b) := by
  simp only [runOps, List.foldl_append]

/-- per-cell tasks (phases 1, 2, 4, 5) touch only their own subgrid -/
theorem footprint_of_map_phase (L : Layout) (t : Task)
    (h : phase t.slot ≠ 0 ∧ phase t.slot ≠ 3) : footprint L t = [t.g] := by
  obtain ⟨g, sl⟩ := t
  rcases sl with _ | ax | ax | _ | _ | _ | ax | ax | _ | _ <;> simp [phase] at h <;> rfl

theorem slot_eq_of_phase (a b : Slot) (h : phase a = phase b) (h0 : phase a ≠ 0 ∧ phase a ≠ 3) :
    a = b := by
  rcases a with _ | ax | ax | _ | _ | _ | ax | ax | _ | _ <;>
    rcases b with _ | ax' | ax' | _ | _ | _ | ax' | ax' | _ | _ <;> simp [phase] at h h0 ⊢

/-- **tasks that are not ordered by the data dependences commute** -/
theorem execTask_comm (flux : FluxFn ℝ) (pr : Params ℝ) (limiter : HV ℝ → Grad ℝ)
    (predict : HV ℝ → Q ℝ) (L : Layout) (c : Cells) (hc : 0 < c.cx ∧ 0 < c.cy ∧ 0 < c.cz)
    (a b : Task) (h1 : ¬ mustPrecede L a b) (h2 : ¬ mustPrecede L b a) (s : Grid (HV ℝ)) :
    execTask flux pr limiter predict L c b (execTask flux pr limiter predict L c a s)
      = execTask flux pr limiter predict L c a (execTask flux pr limiter predict L c b s) := by
  by_cases hconf : conflict L a b
  · have hconf' : conflict L b a := by obtain ⟨h, x, y⟩ := hconf; exact ⟨h, y, x⟩
    have hph : phase a.slot = phase b.slot := by
      have n1 : ¬ phase a.slot < phase b.slot := fun h => h1 ⟨h, hconf⟩
      have n2 : ¬ phase b.slot < phase a.slot := fun h => h2 ⟨h, hconf'⟩
      omega
    by_cases h0 : phase a.slot = 0
    · rw [execTask_grad _ _ _ _ _ _ a h0, execTask_grad _ _ _ _ _ _ b (hph ▸ h0),
        execTask_grad _ _ _ _ _ _ a h0, execTask_grad _ _ _ _ _ _ b (hph ▸ h0), runOps_append,
        runOps_append]
      exact runOps_perm (gradAccum pr) List.perm_append_comm s
    · by_cases h3 : phase a.slot = 3
      · rw [execTask_flux _ _ _ _ _ _ a h3, execTask_flux _ _ _ _ _ _ b (hph ▸ h3),
          execTask_flux _ _ _ _ _ _ a h3, execTask_flux _ _ _ _ _ _ b (hph ▸ h3), runOps_append,
          runOps_append]
        exact runOps_perm (fluxAccum flux pr) List.perm_append_comm s
      · -- per-cell tasks of the same phase on a common subgrid: the same task
        have fa := footprint_of_map_phase L a ⟨h0, h3⟩
        have fb := footprint_of_map_phase L b ⟨hph ▸ h0, hph ▸ h3⟩
        obtain ⟨h, ha, hb⟩ := hconf
        rw [fa] at ha; rw [fb] at hb
        simp only [List.mem_cons, List.not_mem_nil, or_false] at ha hb
        have hs := slot_eq_of_phase a.slot b.slot hph ⟨h0, h3⟩
        have : a = b := by
          obtain ⟨ga, sa⟩ := a; obtain ⟨gb, sb⟩ := b
          simp only at ha hb hs; subst ha hb hs; rfl
        rw [this]
  · exact (local_comm (local_execTask flux pr limiter predict L c hc b)
      (local_execTask flux pr limiter predict L c hc a)
      (fun x hb ha => fpCells_disjoint hconf x ha hb) s)


/-! ### every linear extension of the task graph respects the data dependences -/

/-- `p` is one of the tasks `c` waits for -/
def Par (L : Layout) (p c : Task) : Prop := p ∈ parents L c

/-- `a` is an ancestor of `b` in the task graph -/
abbrev Anc (L : Layout) : Task → Task → Prop := Relation.TransGen (Par L)

theorem phase_lt_of_parent {L : Layout} {p c : Task} (h : p ∈ parents L c) :
    phase p.slot < phase c.slot := by
  obtain ⟨g, sc⟩ := c
  have hall : (parents L ⟨g, sc⟩).all (fun p => decide (phase p.slot < phase sc)) = true := by
    rcases sc with _ | ax | ax | _ | _ | _ | ax | ax | _ | _ <;>
      simp only [parents, gradDownTask, fluxDownTask, optTask] <;> (repeat' split) <;> simp [phase]
  rw [List.all_eq_true] at hall
  exact of_decide_eq_true (hall p h)

/-- the per-subgrid chain limiter → prediction → internal flux sweep → conserved update →
primitive update -/
def spine (h : Sub) : Nat → Task
  | 1 => ⟨h, .limiter⟩
  | 2 => ⟨h, .predict⟩
  | 3 => ⟨h, .fluxInt⟩
  | 4 => ⟨h, .updCons⟩
  | _ => ⟨h, .updPrim⟩

theorem spine_step (L : Layout) (h : Sub) (k : Nat) (h1 : 1 ≤ k) (h4 : k ≤ 4) :
    Par L (spine h k) (spine h (k + 1)) := by
  have : k = 1 ∨ k = 2 ∨ k = 3 ∨ k = 4 := by omega
  rcases this with rfl | rfl | rfl | rfl <;> simp [Par, spine, parents]

theorem spine_chain (L : Layout) (h : Sub) (j d : Nat) (h1 : 1 ≤ j) (h5 : j + d ≤ 5) :
    Relation.ReflTransGen (Par L) (spine h j) (spine h (j + d)) := by
  induction d with
  | zero => exact Relation.ReflTransGen.refl
  | succ d ih =>
    exact (ih (by omega)).tail (spine_step L h (j + d) (by omega) (by omega))

theorem mem_footprint_iff (L : Layout) (t : Task) (h : Sub) :
    h ∈ footprint L t ↔ h = t.g ∨
      ∃ ax, (t.slot = .gradUp ax ∨ t.slot = .fluxUp ax) ∧ ngbUp L ax t.g = some h := by
  obtain ⟨g, sl⟩ := t
  rcases sl with _ | ax | ax | _ | _ | _ | ax | ax | _ | _ <;> simp only [footprint]
  case gradUp =>
    cases hn : ngbUp L ax g
    · simp [hn]
    · rename_i n
      simp only [List.mem_cons, List.not_mem_nil, or_false, Slot.gradUp.injEq, reduceCtorEq,
        or_false, exists_eq_left']
      constructor
      · rintro (rfl | rfl)
        · exact Or.inl rfl
        · exact Or.inr hn
      · rintro (rfl | h')
        · exact Or.inl rfl
        · rw [hn] at h'; exact Or.inr (Option.some.inj h').symm
  case fluxUp =>
    cases hn : ngbUp L ax g
    · simp [hn]
    · rename_i n
      simp only [List.mem_cons, List.not_mem_nil, or_false, Slot.fluxUp.injEq, reduceCtorEq,
        false_or, exists_eq_left']
      constructor
      · rintro (rfl | rfl)
        · exact Or.inl rfl
        · exact Or.inr hn
      · rintro (rfl | h')
        · exact Or.inl rfl
        · rw [hn] at h'; exact Or.inr (Option.some.inj h').symm
  all_goals simp

/-- every gradient task that touches subgrid `h` is waited for by the slope limiter of `h` -/
theorem grad_parent_of_limiter {L : Layout} {a : Task} {h : Sub} (ha : exists_ L a = true)
    (hp : phase a.slot = 0) (hf : h ∈ footprint L a) : Par L a ⟨h, .limiter⟩ := by
  obtain ⟨g, sl⟩ := a
  simp only [exists_, Bool.and_eq_true] at ha
  obtain ⟨hg, hs⟩ := ha
  rw [mem_footprint_iff] at hf
  rcases sl with _ | ax | ax | _ | _ | _ | ax | ax | _ | _ <;> simp [phase] at hp
  · rcases hf with rfl | ⟨ax, h' | h', _⟩
    · simp [Par, parents]
    · simp at h'
    · simp at h'
  · rcases hf with rfl | ⟨ax', h' | h', hn⟩
    · cases ax <;> simp [Par, parents]
    · simp only [Slot.gradUp.injEq] at h'; subst h'
      have hd := ngbUp_ngbDown hg hn
      have : gradDownTask L ax h = ⟨g, .gradUp ax⟩ := by simp [gradDownTask, hd]
      cases ax <;> simp [Par, parents, this]
    · simp at h'
  · simp only [slotExists, Option.isNone_iff_eq_none] at hs
    rcases hf with rfl | ⟨ax', h' | h', _⟩
    · have : gradDownTask L ax h = ⟨h, .gradDown ax⟩ := by simp [gradDownTask, hs]
      cases ax <;> simp [Par, parents, this]
    · simp at h'
    · simp at h'

/-- every flux task that touches subgrid `h` waits for the prediction of `h` and is waited for by
the conserved update of `h` -/
theorem flux_between {L : Layout} {a : Task} {h : Sub} (ha : exists_ L a = true)
    (hp : phase a.slot = 3) (hf : h ∈ footprint L a) :
    Par L ⟨h, .predict⟩ a ∧ Par L a ⟨h, .updCons⟩ := by
  obtain ⟨g, sl⟩ := a
  simp only [exists_, Bool.and_eq_true] at ha
  obtain ⟨hg, hs⟩ := ha
  rw [mem_footprint_iff] at hf
  rcases sl with _ | ax | ax | _ | _ | _ | ax | ax | _ | _ <;> simp [phase] at hp
  · rcases hf with rfl | ⟨ax, h' | h', _⟩
    · simp [Par, parents]
    · simp at h'
    · simp at h'
  · rcases hf with rfl | ⟨ax', h' | h', hn⟩
    · constructor
      · simp [Par, parents]
      · cases ax <;> simp [Par, parents]
    · simp at h'
    · simp only [Slot.fluxUp.injEq] at h'; subst h'
      have hd := ngbUp_ngbDown hg hn
      have : fluxDownTask L ax h = ⟨g, .fluxUp ax⟩ := by simp [fluxDownTask, hd]
      constructor
      · simp [Par, parents, optTask, hn]
      · cases ax <;> simp [Par, parents, this]
  · simp only [slotExists, Option.isNone_iff_eq_none] at hs
    rcases hf with rfl | ⟨ax', h' | h', _⟩
    · have : fluxDownTask L ax h = ⟨h, .fluxDown ax⟩ := by simp [fluxDownTask, hs]
      constructor
      · simp [Par, parents]
      · cases ax <;> simp [Par, parents, this]
    · simp at h'
    · simp at h'

/-- a per-cell task that touches `h` is the task of `h` of its phase -/
theorem eq_spine {L : Layout} {a : Task} {h : Sub} (hp : phase a.slot ≠ 0 ∧ phase a.slot ≠ 3)
    (hf : h ∈ footprint L a) : a = spine h (phase a.slot) := by
  rw [footprint_of_map_phase L a hp] at hf
  simp only [List.mem_cons, List.not_mem_nil, or_false] at hf
  obtain ⟨g, sl⟩ := a
  simp only at hf; subst hf
  rcases sl with _ | ax | ax | _ | _ | _ | ax | ax | _ | _ <;> simp [phase] at hp <;> rfl

theorem phase_le_five (s : Slot) : phase s ≤ 5 := by
  rcases s with _ | ax | ax | _ | _ | _ | ax | ax | _ | _ <;> simp [phase]

/-- **conflicting tasks of different phases are ordered by the task graph** -/
theorem anc_of_mustPrecede {L : Layout} {a b : Task} (ha : exists_ L a = true)
    (hb : exists_ L b = true) (h : mustPrecede L a b) : Anc L a b := by
  obtain ⟨hlt, hsub, hfa, hfb⟩ := h
  have hb5 := phase_le_five b.slot
  by_cases hb3 : phase b.slot = 3
  · -- b is a flux task: prediction of hsub → b
    have hpb := (flux_between hb hb3 hfb).1
    by_cases ha0 : phase a.slot = 0
    · have h1 : Par L a (spine hsub 1) := grad_parent_of_limiter ha ha0 hfa
      have h2 := spine_chain L hsub 1 1 (by omega) (by omega)
      exact ((Relation.TransGen.single h1).trans_left h2).tail hpb
    · have ea := eq_spine (L := L) (a := a) ⟨ha0, by omega⟩ hfa
      have h2 := spine_chain L hsub (phase a.slot) (2 - phase a.slot) (by omega) (by omega)
      rw [show phase a.slot + (2 - phase a.slot) = 2 by omega] at h2
      rw [ea]
      exact Relation.TransGen.trans_right h2 (Relation.TransGen.single hpb)
  · have hb0 : phase b.slot ≠ 0 := by omega
    have eb := eq_spine (L := L) (a := b) ⟨hb0, hb3⟩ hfb
    rw [eb]
    by_cases ha0 : phase a.slot = 0
    · have h1 : Par L a (spine hsub 1) := grad_parent_of_limiter ha ha0 hfa
      have h2 := spine_chain L hsub 1 (phase b.slot - 1) (by omega) (by omega)
      rw [show 1 + (phase b.slot - 1) = phase b.slot by omega] at h2
      exact (Relation.TransGen.single h1).trans_left h2
    · by_cases ha3 : phase a.slot = 3
      · have h1 : Par L a (spine hsub 4) := (flux_between ha ha3 hfa).2
        have h2 := spine_chain L hsub 4 (phase b.slot - 4) (by omega) (by omega)
        rw [show 4 + (phase b.slot - 4) = phase b.slot by omega] at h2
        exact (Relation.TransGen.single h1).trans_left h2
      · have ea := eq_spine (L := L) (a := a) ⟨ha0, ha3⟩ hfa
        rw [ea]
        have h1 := spine_step L hsub (phase a.slot) (by omega) (by omega)
        have h2 := spine_chain L hsub (phase a.slot + 1) (phase b.slot - (phase a.slot + 1))
          (by omega) (by omega)
        rw [show phase a.slot + 1 + (phase b.slot - (phase a.slot + 1)) = phase b.slot by omega]
          at h2
        exact (Relation.TransGen.single h1).trans_left h2

/-- in a linear extension of the task graph an ancestor comes before its descendant -/
theorem idx_lt_of_anc {L : Layout} {sched : List Task} (hs : LinExt L sched) {a b : Task}
    (hb : exists_ L b = true) (h : Anc L a b) : sched.idxOf a < sched.idxOf b := by
  have step : ∀ p c, exists_ L c = true → Par L p c → sched.idxOf p < sched.idxOf c := by
    intro p c hc hpc
    have hp : exists_ L p = true := parents_exist L c hc p hpc
    have hpm : p ∈ sched := (hs.all p).mpr hp
    have hcm : c ∈ sched := (hs.all c).mpr hc
    have hpi := List.idxOf_lt_length_iff.mpr hpm
    have hci := List.idxOf_lt_length_iff.mpr hcm
    by_contra hnot
    have hne : sched.idxOf c ≠ sched.idxOf p := by
      intro e
      have e1 : sched[sched.idxOf c] = c := List.getElem_idxOf hci
      have e2 : sched[sched.idxOf p] = p := List.getElem_idxOf hpi
      have : c = p := by rw [← e1, ← e2]; simp only [e]
      have hlt := phase_lt_of_parent hpc
      rw [this] at hlt; omega
    have hlt : sched.idxOf c < sched.idxOf p := by omega
    have := (List.pairwise_iff_getElem.mp hs.order) _ _ hci hpi hlt
    rw [List.getElem_idxOf hci, List.getElem_idxOf hpi] at this
    exact this hpc
  induction h with
  | single hab => exact step _ _ hb hab
  | tail hac hcb ih =>
    have hc := parents_exist L _ hb _ hcb
    exact (ih hc).trans (step _ _ hb hcb)

/-- **every linear extension of C07's task graph respects the data dependences** -/
theorem linExt_respects {L : Layout} {sched : List Task} (hs : LinExt L sched) :
    Respects L sched := by
  unfold Respects
  rw [List.pairwise_iff_getElem]
  intro i j hi hj hij hmp
  have hei : exists_ L sched[i] = true := (hs.all _).mp (List.getElem_mem hi)
  have hej : exists_ L sched[j] = true := (hs.all _).mp (List.getElem_mem hj)
  have := idx_lt_of_anc hs hei (anc_of_mustPrecede hej hei hmp)
  rw [hs.nodup.idxOf_getElem, hs.nodup.idxOf_getElem] at this
  omega

end CMacVerif.HydroSchedule
