import CMacVerif.Model.HydroTasks
import CMacVerif.Lemmas.HydroStep
import CMacVerif.Props.C07
import Mathlib.Logic.Relation
/-! Lemmas for the schedule independence of the hydro step (C10). -/
namespace CMacVerif.HydroSchedule
open CMacVerif CMacVerif.RiemannVacuum CMacVerif.HydroGraph CMacVerif.HydroSweeps
  CMacVerif.HydroUpdate CMacVerif.HydroStep CMacVerif.HydroTasks

/-! ### reordering a sequential execution -/

theorem foldl_comm_front {τ β : Type} (f : β → τ → β) (t : τ) (pre : List τ)
    (hc : ∀ p ∈ pre, ∀ z, f (f z p) t = f (f z t) p) (s : β) :
    (pre ++ [t]).foldl f s = (t :: pre).foldl f s := by
  induction pre generalizing s with
  | nil => rfl
  | cons p pre ih =>
    rw [List.cons_append, List.foldl_cons, ih (fun q hq => hc q (List.mem_cons_of_mem _ hq))]
    simp only [List.foldl_cons]
    rw [hc p List.mem_cons_self]

/-- Two sequential executions of the same tasks give the same result when both respect a
precedence relation `R` and tasks that `R` does not order commute. -/
theorem foldl_eq_of_respects {τ β : Type} (f : β → τ → β) (R : τ → τ → Prop)
    (hcomm : ∀ a b, ¬ R a b → ¬ R b a → ∀ z, f (f z a) b = f (f z b) a) :
    ∀ (σ' σ : List τ), σ.Perm σ' → σ.Pairwise (fun a b => ¬ R b a) →
      σ'.Pairwise (fun a b => ¬ R b a) → ∀ s, σ.foldl f s = σ'.foldl f s := by
  intro σ'
  induction σ' with
  | nil =>
    intro σ hp _ _ s
    rw [List.Perm.eq_nil hp]
  | cons t rest ih =>
    intro σ hp hσ hσ' s
    have ht : t ∈ σ := hp.symm.subset List.mem_cons_self
    obtain ⟨pre, post, rfl⟩ := List.mem_iff_append.mp ht
    rw [List.pairwise_append] at hσ
    obtain ⟨hpre, hpost, hcross⟩ := hσ
    rw [List.pairwise_cons] at hσ'
    have hc : ∀ p ∈ pre, ∀ z, f (f z p) t = f (f z t) p := by
      intro p hp' z
      have h1 : ¬ R t p := hcross p hp' t List.mem_cons_self
      have h2 : ¬ R p t := by
        have : p ∈ t :: rest := hp.subset (List.mem_append_left _ hp')
        rcases List.mem_cons.mp this with rfl | hpr
        · exact h1
        · exact hσ'.1 p hpr
      exact hcomm p t h2 h1 z
    have e1 : (pre ++ t :: post).foldl f s = (pre ++ post).foldl f (f s t) := by
      rw [show pre ++ t :: post = (pre ++ [t]) ++ post by simp, List.foldl_append,
        foldl_comm_front f t pre hc, List.foldl_cons, ← List.foldl_append]
    rw [e1, List.foldl_cons]
    apply ih
    · exact (List.perm_middle.symm.trans hp).cons_inv
    · rw [List.pairwise_append]
      exact ⟨hpre, (List.pairwise_cons.mp hpost).2,
        fun a ha b hb => hcross a ha b (List.mem_cons_of_mem _ hb)⟩
    · exact hσ'.2

/-! ### locality: a task reads and writes only the cells of its footprint -/

variable {σ κ : Type}

/-- `f` leaves the cells outside `A` alone and its result on `A` depends only on the cells of `A` -/
def Local (A : Cell → Prop) (f : Grid σ → Grid σ) : Prop :=
  (∀ s x, ¬ A x → f s x = s x) ∧
    (∀ s s', (∀ x, A x → s x = s' x) → ∀ x, A x → f s x = f s' x)

theorem local_comm {A B : Cell → Prop} {f g : Grid σ → Grid σ} (hf : Local A f) (hg : Local B g)
    (hd : ∀ x, A x → B x → False) (s : Grid σ) : f (g s) = g (f s) := by
  funext x
  by_cases hA : A x
  · have hB : ¬ B x := fun h => hd x hA h
    rw [hg.1 (f s) x hB]
    exact hf.2 (g s) s (fun y hy => hg.1 s y (fun h => hd y hy h)) x hA
  · rw [hf.1 (g s) x hA]
    by_cases hB : B x
    · exact (hg.2 (f s) s (fun y hy => hf.1 s y (fun h => hd y h hy)) x hB).symm
    · rw [hg.1 s x hB, hg.1 (f s) x hB, hf.1 s x hA]

theorem local_mono {A A' : Cell → Prop} {f : Grid σ → Grid σ} (h : ∀ x, A x → A' x)
    (hf : Local A f) : Local A' f := by
  classical
  refine ⟨fun s x hx => hf.1 s x (fun ha => hx (h x ha)), fun s s' hs x hx => ?_⟩
  by_cases ha : A x
  · exact hf.2 s s' (fun y hy => hs y (h y hy)) x ha
  · rw [hf.1 s x ha, hf.1 s' x ha]; exact hs x hx

theorem local_comp {A : Cell → Prop} {f g : Grid σ → Grid σ} (hf : Local A f) (hg : Local A g) :
    Local A (fun s => g (f s)) :=
  ⟨fun s x hx => by show g (f s) x = s x; rw [hg.1 (f s) x hx, hf.1 s x hx],
    fun s s' hs x hx => hg.2 (f s) (f s') (fun y hy => hf.2 s s' hs y hy) x hx⟩

theorem local_id {A : Cell → Prop} : Local A (fun s : Grid σ => s) :=
  ⟨fun _ _ _ => rfl, fun _ _ hs x hx => hs x hx⟩

/-- the cells a call touches -/
def opCells : Op → List Cell
  | .pair _ l r => [l, r]
  | .ghost _ _ x => [x]

theorem local_applyOp (P : Phys σ κ) (op : Op) :
    Local (fun x => x ∈ opCells op) (fun s => applyOp P s op) := by
  cases op with
  | pair ax l r =>
    refine ⟨fun s x hx => ?_, fun s s' hs x hx => ?_⟩
    · simp only [opCells, List.mem_cons, List.not_mem_nil, or_false, not_or] at hx
      simp [applyOp, gupd, hx.1, hx.2]
    · have hl : s l = s' l := hs l (by simp [opCells])
      have hr : s r = s' r := hs r (by simp [opCells])
      simp only [opCells, List.mem_cons, List.not_mem_nil, or_false] at hx
      simp only [applyOp, gupd, hl, hr]
      rcases hx with rfl | rfl
      · by_cases h : x = r
        · simp [h]
        · simp [h]
      · simp
  | ghost ax up c =>
    refine ⟨fun s x hx => ?_, fun s s' hs x hx => ?_⟩
    · simp only [opCells, List.mem_cons, List.not_mem_nil, or_false] at hx
      simp [applyOp, gupd, hx]
    · have hc : s c = s' c := hs c (by simp [opCells])
      simp only [opCells, List.mem_cons, List.not_mem_nil, or_false] at hx
      simp only [applyOp, gupd, hc, hx, if_true]

theorem local_runOps (P : Phys σ κ) (A : Cell → Prop) (ops : List Op)
    (h : ∀ op ∈ ops, ∀ x ∈ opCells op, A x) : Local A (fun s => runOps P s ops) := by
  induction ops with
  | nil => exact local_id
  | cons o ops ih =>
    have h1 : Local A (fun s => applyOp P s o) :=
      local_mono (fun x hx => h o List.mem_cons_self x hx) (local_applyOp P o)
    exact local_comp h1 (ih (fun op hop => h op (List.mem_cons_of_mem _ hop)))

theorem local_mapSub (c : Cells) (g : Sub) (f : σ → σ) :
    Local (fun x => inSub c g x = true) (mapSub c g f) := by
  refine ⟨fun s x hx => by simp [mapSub, hx], fun s s' hs x hx => ?_⟩
  simp only [mapSub, hx, if_true]
  rw [hs x hx]

end CMacVerif.HydroSchedule
