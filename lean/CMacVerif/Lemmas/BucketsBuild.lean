import CMacVerif.Lemmas.BucketsGeom
import Mathlib.Tactic.FieldSimp
/-! The bucket grid built by the constructor of `PointLocations` satisfies the geometric
hypotheses of the nearest-neighbour theorem (C16): every position is stored in exactly the bucket
whose cell contains it, the query lies in its anchor cell. -/
namespace CMacVerif.Buckets
open CMacVerif.GridNum CMacVerif.Shells

/-- the truncated index of a coordinate in the half-open box: in range, and the coordinate lies
in the cell with that index (`cs = s / n`) -/
theorem index_cell (p a s : ℝ) (n : Int) (hs : 0 < s) (hn : 0 < n) (h1 : a ≤ p) (h2 : p < a + s)
    (x : ℝ) (hx : x = (p - a) / s * (n : ℝ)) :
    0 ≤ (Trunc.toInt x : Int) ∧ Trunc.toInt x < n ∧
    a + ((Trunc.toInt x : Int) : ℝ) * (s / (n : ℝ)) ≤ p ∧
    p < a + (((Trunc.toInt x : Int) + 1 : Int) : ℝ) * (s / (n : ℝ)) := by
  have hnR : (0 : ℝ) < (n : ℝ) := by exact_mod_cast hn
  have hx0 : 0 ≤ x := by
    rw [hx]; exact mul_nonneg (div_nonneg (by linarith) hs.le) hnR.le
  rw [toInt_real_nonneg x hx0]
  have hf1 : ((⌊x⌋ : Int) : ℝ) ≤ x := Int.floor_le x
  have hf2 : x < ((⌊x⌋ : Int) : ℝ) + 1 := Int.lt_floor_add_one x
  have hxs : x * (s / (n : ℝ)) = p - a := by rw [hx]; field_simp
  have hcs : 0 < s / (n : ℝ) := div_pos hs hnR
  have hxn : x < (n : ℝ) := by
    rw [hx]
    have : (p - a) / s < 1 := by rw [div_lt_one hs]; linarith
    nlinarith
  refine ⟨Int.floor_nonneg.mpr hx0, ?_, ?_, ?_⟩
  · have : ((⌊x⌋ : Int) : ℝ) < (n : ℝ) := lt_of_le_of_lt hf1 hxn
    exact_mod_cast this
  · have := mul_le_mul_of_nonneg_right hf1 hcs.le
    linarith
  · have := mul_lt_mul_of_pos_right hf2 hcs
    push_cast
    linarith

theorem bucketIndex_cell (p a s : ℝ) (n : Int) (hs : 0 < s) (hn : 0 < n) (h1 : a ≤ p) (h2 : p < a + s) :
    0 ≤ bucketIndex n p a s ∧ bucketIndex n p a s < n ∧
    a + ((bucketIndex n p a s : Int) : ℝ) * (s / (n : ℝ)) ≤ p ∧
    p < a + ((bucketIndex n p a s + 1 : Int) : ℝ) * (s / (n : ℝ)) := by
  unfold bucketIndex
  exact index_cell p a s n hs hn h1 h2 _ (by rw [ofInt_real])

theorem anchorIndex_cell (p a s : ℝ) (n : Int) (hs : 0 < s) (hn : 0 < n) (h1 : a ≤ p) (h2 : p < a + s) :
    0 ≤ anchorIndex p a (s / (n : ℝ)) ∧ anchorIndex p a (s / (n : ℝ)) < n ∧
    a + ((anchorIndex p a (s / (n : ℝ)) : Int) : ℝ) * (s / (n : ℝ)) ≤ p ∧
    p < a + ((anchorIndex p a (s / (n : ℝ)) + 1 : Int) : ℝ) * (s / (n : ℝ)) := by
  unfold anchorIndex
  have hnR : (0 : ℝ) < (n : ℝ) := by exact_mod_cast hn
  exact index_cell p a s n hs hn h1 h2 _ (by field_simp)

theorem mem_bucketsFrom (ids : Nat → Int × Int × Int) (npts : Nat) (ix iy iz : Int) (q : Nat) :
    q ∈ bucketsFrom ids npts ix iy iz ↔ q < npts ∧ (ids q).1 = ix ∧ (ids q).2.1 = iy ∧ (ids q).2.2 = iz := by
  unfold bucketsFrom
  rw [List.mem_filter, List.mem_range, decide_eq_true_eq]

/-- the box of the constructor as a `Box3` -/
def boxOf (a s : V3 ℝ) : Box3 ℝ := ⟨a.x, a.y, a.z, s.x, s.y, s.z⟩

/-- the grid built by the constructor satisfies `Geo` for every query in the box -/
theorem build_geo (n : Int) (a s : V3 ℝ) (pos : Nat → V3 ℝ) (npts : Nat) (p : V3 ℝ) (hn : 0 < n)
    (hb : PosBox (boxOf a s)) (hpts : ∀ i < npts, InBox (boxOf a s) (pos i)) (hp : InBox (boxOf a s) p) :
    Geo (build n a s pos npts) p
      (anchorIndex p.x (build n a s pos npts).anchor.x (build n a s pos npts).cs.x)
      (anchorIndex p.y (build n a s pos npts).anchor.y (build n a s pos npts).cs.y)
      (anchorIndex p.z (build n a s pos npts).anchor.z (build n a s pos npts).cs.z) := by
  obtain ⟨sx, sy, sz⟩ := hb
  obtain ⟨px1, px2, py1, py2, pz1, pz2⟩ := hp
  simp only [boxOf] at sx sy sz px1 px2 py1 py2 pz1 pz2
  have hnR : (0 : ℝ) < (n : ℝ) := by exact_mod_cast hn
  simp only [build, cellSides, ofInt_real]
  have ax := anchorIndex_cell p.x a.x s.x n sx hn px1 px2
  have ay := anchorIndex_cell p.y a.y s.y n sy hn py1 py2
  have az := anchorIndex_cell p.z a.z s.z n sz hn pz1 pz2
  refine ⟨div_pos sx hnR, div_pos sy hnR, div_pos sz hnR, ⟨ax.1, ax.2.1⟩, ⟨ay.1, ay.2.1⟩, ⟨az.1, az.2.1⟩,
    ⟨ax.2.2.1, ax.2.2.2⟩, ⟨ay.2.2.1, ay.2.2.2⟩, ⟨az.2.2.1, az.2.2.2⟩, ?_⟩
  intro ix iy iz q hq
  rw [mem_bucketsFrom] at hq
  obtain ⟨hq, rfl, rfl, rfl⟩ := hq
  obtain ⟨qx1, qx2, qy1, qy2, qz1, qz2⟩ := hpts q hq
  simp only [boxOf] at qx1 qx2 qy1 qy2 qz1 qz2
  simp only [pointBucket]
  have bx := bucketIndex_cell (pos q).x a.x s.x n sx hn qx1 qx2
  have by' := bucketIndex_cell (pos q).y a.y s.y n sy hn qy1 qy2
  have bz := bucketIndex_cell (pos q).z a.z s.z n sz hn qz1 qz2
  exact ⟨⟨bx.2.2.1, bx.2.2.2⟩, ⟨by'.2.2.1, by'.2.2.2⟩, ⟨bz.2.2.1, bz.2.2.2⟩⟩

/-- the buckets inside the grid hold exactly the indices `< npts` -/
theorem build_allPts (n : Int) (a s : V3 ℝ) (pos : Nat → V3 ℝ) (npts : Nat) (ax ay az : Int) (hn : 0 < n)
    (hb : PosBox (boxOf a s)) (hpts : ∀ i < npts, InBox (boxOf a s) (pos i)) (q : Nat) :
    AllPts (build n a s pos npts) ax ay az q ↔ q < npts := by
  constructor
  · rintro ⟨k, _, hq⟩
    simp only [bucketAt, build] at hq
    exact ((mem_bucketsFrom _ _ _ _ _ _).mp hq).1
  · intro hq
    obtain ⟨sx, sy, sz⟩ := hb
    obtain ⟨qx1, qx2, qy1, qy2, qz1, qz2⟩ := hpts q hq
    simp only [boxOf] at sx sy sz qx1 qx2 qy1 qy2 qz1 qz2
    have bx := bucketIndex_cell (pos q).x a.x s.x n sx hn qx1 qx2
    have by' := bucketIndex_cell (pos q).y a.y s.y n sy hn qy1 qy2
    have bz := bucketIndex_cell (pos q).z a.z s.z n sz hn qz1 qz2
    obtain ⟨k, hk⟩ := iter_surjective
      ⟨bucketIndex n (pos q).x a.x s.x - ax, bucketIndex n (pos q).y a.y s.y - ay,
       bucketIndex n (pos q).z a.z s.z - az,
       maxNorm (bucketIndex n (pos q).x a.x s.x - ax) (bucketIndex n (pos q).y a.y s.y - ay)
         (bucketIndex n (pos q).z a.z s.z - az)⟩ rfl
    refine ⟨k, ?_, ?_⟩
    · rw [hk]; unfold Inside; simp only [build]
      refine ⟨?_, ?_, ?_, ?_, ?_, ?_⟩ <;> omega
    · rw [hk]; simp only [bucketAt, build]
      rw [mem_bucketsFrom]
      simp only [pointBucket]
      refine ⟨hq, ?_, ?_, ?_⟩ <;> omega

end CMacVerif.Buckets
