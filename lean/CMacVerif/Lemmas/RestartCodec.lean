/-
Helper lemmas for C09: little-endian round trip, exact reads, strings, std::map insertion,
primitive round trip, the limiter array.
-/
import CMacVerif.Model.RestartCodec
import Mathlib.Tactic.Ring
import Mathlib.Tactic.Linarith

namespace CMacVerif.RestartCodec

/-! ### little endian -/

theorem length_leBytes (w n : Nat) : (leBytes w n).length = w := by
  induction w generalizing n with
  | zero => rfl
  | succ w ih => simp [leBytes, ih]

theorem ofLE_leBytes (w n : Nat) (h : n < 256 ^ w) : ofLE (leBytes w n) = n := by
  induction w generalizing n with
  | zero => simp [leBytes, ofLE]; omega
  | succ w ih =>
    have h2 : n / 256 < 256 ^ w := by
      rw [Nat.div_lt_iff_lt_mul (by decide)]
      rw [Nat.pow_succ] at h; exact h
    simp only [leBytes, ofLE, ih _ h2]
    omega

theorem leBytes_lt (w n : Nat) : ∀ b ∈ leBytes w n, b < 256 := by
  induction w generalizing n with
  | zero => simp [leBytes]
  | succ w ih =>
    intro b hb
    simp only [leBytes, List.mem_cons] at hb
    rcases hb with rfl | hb
    · exact Nat.mod_lt _ (by decide)
    · exact ih _ b hb

/-! ### exact reads -/

theorem takeN_append (a t : Bytes) : takeN a.length (a ++ t) = some (a, t) := by
  induction a with
  | nil => simp [takeN]
  | cons b a ih => simp [takeN, ih]

theorem takeN_leBytes (w n : Nat) (t : Bytes) : takeN w (leBytes w n ++ t) = some (leBytes w n, t) := by
  have := takeN_append (leBytes w n) t
  rwa [length_leBytes] at this

/-! ### strings -/

theorem takeWhile_all {α : Type} (p : α → Bool) (l : List α) (h : l.all p = true) : l.takeWhile p = l := by
  induction l with
  | nil => rfl
  | cons a l ih =>
    simp only [List.all_cons, Bool.and_eq_true] at h
    simp [List.takeWhile, h.1, ih h.2]

theorem decStr_encStr (b t : Bytes) (h : validStr b = true) : decStr (encStr b ++ t) = some (b, t) := by
  simp only [validStr, Bool.and_eq_true, decide_eq_true_eq] at h
  unfold decStr encStr
  rw [List.append_assoc, takeN_leBytes]
  simp only
  have h64 : (2 : Nat) ^ 64 = 256 ^ 8 := by decide
  rw [ofLE_leBytes 8 b.length (by rw [← h64]; exact h.1), takeN_append]
  simp only
  rw [takeWhile_all _ _ h.2]

/-! ### the key order and `map[k] = v` -/

theorem ltBytes_irrefl (a : Bytes) : ltBytes a a = false := by
  induction a with
  | nil => rfl
  | cons x a ih => simp [ltBytes, ih]

theorem ltBytes_asymm (a b : Bytes) (h : ltBytes a b = true) : ltBytes b a = false := by
  induction a generalizing b with
  | nil => cases b <;> simp_all [ltBytes]
  | cons x a ih =>
    cases b with
    | nil => simp_all [ltBytes]
    | cons y b =>
      simp only [ltBytes] at h ⊢
      by_cases hxy : x < y
      · have : ¬ y < x := by omega
        simp [this, hxy]
      · by_cases hyx : y < x
        · simp [hxy, hyx] at h
        · simp only [hxy, hyx, if_false] at h ⊢
          exact ih b h

theorem ne_of_ltBytes (a b : Bytes) (h : ltBytes a b = true) : b ≠ a := by
  intro e; subst e; rw [ltBytes_irrefl] at h; exact Bool.noConfusion h

/-- every key of `m` is smaller than `k` -/
def keysLt (k : Bytes) : List (Bytes × Bytes) → Bool
  | [] => true
  | (k', _) :: t => ltBytes k' k && keysLt k t

theorem mapInsert_max (k v : Bytes) (m : List (Bytes × Bytes)) (h : keysLt k m = true) :
    mapInsert k v m = m ++ [(k, v)] := by
  induction m with
  | nil => rfl
  | cons p m ih =>
    obtain ⟨k', v'⟩ := p
    simp only [keysLt, Bool.and_eq_true] at h
    have h1 : ltBytes k k' = false := ltBytes_asymm _ _ h.1
    have h2 : k ≠ k' := ne_of_ltBytes _ _ h.1
    simp [mapInsert, h1, h2, ih h.2]

theorem keysLt_append (k : Bytes) (a b : List (Bytes × Bytes)) :
    keysLt k (a ++ b) = (keysLt k a && keysLt k b) := by
  induction a with
  | nil => simp [keysLt]
  | cons p a ih => obtain ⟨k', v'⟩ := p; simp [keysLt, ih, Bool.and_assoc]

/-- all keys of `acc` are below all keys of `m` -/
def accBelow (acc : List (Bytes × Bytes)) : List (Bytes × Bytes) → Bool
  | [] => true
  | (k, _) :: t => keysLt k acc && accBelow acc t

theorem accBelow_snoc (acc m : List (Bytes × Bytes)) (k v : Bytes)
    (h1 : accBelow acc m = true) (h2 : allKeysLt k m = true) : accBelow (acc ++ [(k, v)]) m = true := by
  induction m with
  | nil => rfl
  | cons p m ih =>
    obtain ⟨k', v'⟩ := p
    simp only [accBelow, allKeysLt, Bool.and_eq_true] at h1 h2 ⊢
    refine ⟨?_, ih h1.2 h2.2⟩
    rw [keysLt_append]
    simp [keysLt, h1.1, h2.1]

theorem decPairs_encPairs (m acc : List (Bytes × Bytes)) (t : Bytes)
    (hv : validPairs m = true) (hs : sortedKeys m = true) (hb : accBelow acc m = true) :
    decPairs m.length (encPairs m ++ t) acc = some (acc ++ m, t) := by
  induction m generalizing acc with
  | nil => simp [decPairs, encPairs]
  | cons p m ih =>
    obtain ⟨k, v⟩ := p
    simp only [validPairs, Bool.and_eq_true] at hv
    simp only [sortedKeys, Bool.and_eq_true] at hs
    simp only [accBelow, Bool.and_eq_true] at hb
    simp only [List.length_cons, decPairs, encPairs, List.append_assoc]
    rw [decStr_encStr k _ hv.1.1]
    simp only
    rw [decStr_encStr v _ hv.1.2]
    simp only
    rw [mapInsert_max k v acc hb.1, ih _ hv.2 hs.2 (accBelow_snoc acc m k v hb.2 hs.1)]
    simp

/-! ### primitive round trip -/

theorem decodePV_encodePV (p : Prim) (v : PV) (t : Bytes) (h : confPV p v = true) :
    decodePV p (encodePV p v ++ t) = some (v, t) := by
  cases p <;> cases v <;> simp only [confPV, Bool.false_eq_true] at h
  case int.nat w n =>
    simp only [decide_eq_true_eq] at h
    simp [encodePV, decodePV, takeN_leBytes, ofLE_leBytes w n h]
  case f64.nat n =>
    simp only [decide_eq_true_eq] at h
    simp [encodePV, decodePV, takeN_leBytes, ofLE_leBytes 8 n h]
  case bool.nat n =>
    simp only [decide_eq_true_eq] at h
    have : n = 0 ∨ n = 1 := by omega
    rcases this with rfl | rfl <;> simp [encodePV, decodePV, takeN, ofLE]
  case str.bytes b =>
    simp [encodePV, decodePV, decStr_encStr b t h]
  case raw.bytes w b =>
    simp only [decide_eq_true_eq] at h
    subst h
    simp [encodePV, decodePV, takeN_append]
  case smap.smap m =>
    simp only [Bool.and_eq_true, decide_eq_true_eq] at h
    have hb : accBelow [] m = true := by
      clear h
      induction m with
      | nil => rfl
      | cons p m ih => obtain ⟨k, v⟩ := p; simp [accBelow, keysLt, ih]
    simp only [encodePV, decodePV, List.append_assoc, takeN_leBytes,
      ofLE_leBytes 8 m.length h.1.1, decPairs_encPairs m [] t h.1.2 h.2 hb, List.nil_append]

/-! ### the limiter array -/

theorem resetCells_spec (a : Nat → Lim) (n idx : Nat) :
    resetCells a n idx = if idx < 10 * n then limCtor idx else a idx := by
  induction n with
  | zero => simp [resetCells]
  | succ n ih =>
    simp only [resetCells, resetCell, ih, limCtor]
    by_cases h1 : 10 * n ≤ idx ∧ idx < 10 * n + 10
    · have h2 : idx < 10 * (n + 1) := by omega
      have h3 : (idx - 10 * n) % 2 = idx % 2 := by omega
      simp [h1, h2, h3]
    · by_cases h2 : idx < 10 * n
      · have h3 : idx < 10 * (n + 1) := by omega
        simp [h1, h2, h3]
      · have h3 : ¬ idx < 10 * (n + 1) := by omega
        simp [h1, h2, h3]

end CMacVerif.RestartCodec
