import CMacVerif.Lemmas.RanluxStream
import Mathlib.Tactic.Ring
import Mathlib.Tactic.NormNum
import Mathlib.Tactic.Linarith
import Mathlib.Algebra.Order.Group.Int
import Mathlib.Algebra.Order.Ring.Abs
/-!
Helper lemmas for C13, part 4: the subtract-with-borrow recurrence is a linear congruential
generator modulo `M = b^12 - b^5 + 1` (Tezuka–L'Ecuyer–Couture), and what follows for two
generators that deliver the same first 24 values.
-/
namespace CMacVerif.Ranlux

/-- value and borrow of the textbook sequence -/
def X (x0 : Nat → Int) (n : Nat) : Int := (swb x0 n).1
def C (x0 : Nat → Int) (n : Nat) : Int := (swb x0 n).2

theorem C_01 (x0 : Nat → Int) (n : Nat) : C x0 n = 0 ∨ C x0 n = 1 := by
  unfold C
  by_cases h : n < 12
  · rw [swb_lt _ _ h]; exact Or.inl rfl
  · rw [swb_ge _ _ (by omega)]; split
    · exact Or.inr rfl
    · exact Or.inl rfl

theorem C_lt12 (x0 : Nat → Int) (n : Nat) (h : n < 12) : C x0 n = 0 := by
  unfold C; rw [swb_lt _ _ h]

theorem X_lt12 (x0 : Nat → Int) (n : Nat) (h : n < 12) : X x0 n = x0 n := by
  unfold X; rw [swb_lt _ _ h]

/-- the recurrence, with the borrow made explicit -/
theorem X_rec (x0 : Nat → Int) (t : Nat) :
    X x0 (t + 12) = X x0 (t + 7) - X x0 t - C x0 (t + 11) + B * C x0 (t + 12) := by
  unfold X C
  rw [swb_ge x0 (t + 12) (by omega)]
  have a1 : t + 12 - 5 = t + 7 := by omega
  have a2 : t + 12 - 12 = t := by omega
  have a3 : t + 12 - 1 = t + 11 := by omega
  rw [a1, a2, a3]
  split <;> simp

/-- the modulus of the equivalent linear congruential generator -/
def MM : Int := B ^ 12 - B ^ 5 + 1

/-- the residue represented by the window `X t … X (t+11)` and the borrow `C (t+11)` -/
def Zf (x0 : Nat → Int) (t : Nat) : Int :=
  X x0 t + B * X x0 (t + 1) + B ^ 2 * X x0 (t + 2) + B ^ 3 * X x0 (t + 3) + B ^ 4 * X x0 (t + 4)
    + B ^ 5 * X x0 (t + 5) + B ^ 6 * X x0 (t + 6) + (B ^ 7 - 1) * X x0 (t + 7)
    + (B ^ 8 - B) * X x0 (t + 8) + (B ^ 9 - B ^ 2) * X x0 (t + 9)
    + (B ^ 10 - B ^ 3) * X x0 (t + 10) + (B ^ 11 - B ^ 4) * X x0 (t + 11) + C x0 (t + 11)

/-- one step of the recurrence divides the residue by the base, modulo `MM` -/
theorem Z_step (x0 : Nat → Int) (t : Nat) :
    Zf x0 t = B * Zf x0 (t + 1)
      + MM * (X x0 t - X x0 (t + 7) + C x0 (t + 11) - B * C x0 (t + 12)) := by
  simp only [Zf, MM, Nat.add_assoc, Nat.reduceAdd]
  rw [X_rec x0 t]
  ring

theorem Z_iter (x0 : Nat → Int) (t n : Nat) :
    ∃ q : Int, Zf x0 t = B ^ n * Zf x0 (t + n) + MM * q := by
  induction n with
  | zero => exact ⟨0, by simp⟩
  | succ n ih =>
    obtain ⟨q, hq⟩ := ih
    refine ⟨q + B ^ n * (X x0 (t + n) - X x0 (t + n + 7) + C x0 (t + n + 11)
      - B * C x0 (t + n + 12)), ?_⟩
    rw [hq, Z_step x0 (t + n), show t + n + 1 = t + (n + 1) by omega]
    ring

/-! ### numeric facts about the modulus -/

theorem MM_cast :
    MM = ((281474976710656 ^ 12 - 281474976710656 ^ 5 + 1 : Nat) : Int) := by
  unfold MM; rw [B_val]; norm_num

theorem MM_gt : 2 ≤ MM := by
  unfold MM; rw [B_val]; norm_num

set_option exponentiation.threshold 400 in
theorem nat_fact_plus :
    ¬ ((281474976710656 ^ 12 - 281474976710656 ^ 5 + 1 : Nat) ∣ 281474976710656 ^ 397 + 1) := by
  decide

set_option exponentiation.threshold 400 in
theorem nat_fact_minus :
    ¬ ((281474976710656 ^ 12 - 281474976710656 ^ 5 + 1 : Nat) ∣ 281474976710656 ^ 397 - 1) := by
  decide

set_option exponentiation.threshold 400 in
/-- 397 steps are not the identity, nor minus the identity, of the congruential generator -/
theorem MM_not_dvd_plus : ¬ MM ∣ B ^ 397 + 1 := by
  rw [MM_cast, B_val]
  have : ((281474976710656 : Int) ^ 397 + 1) = ((281474976710656 ^ 397 + 1 : Nat) : Int) := by
    push_cast
  rw [this, Int.natCast_dvd_natCast]
  exact nat_fact_plus

set_option exponentiation.threshold 400 in
theorem MM_not_dvd_minus : ¬ MM ∣ B ^ 397 - 1 := by
  rw [MM_cast, B_val]
  have h1 : (1 : Nat) ≤ 281474976710656 ^ 397 := Nat.one_le_pow _ _ (by norm_num)
  have : ((281474976710656 : Int) ^ 397 - 1) = ((281474976710656 ^ 397 - 1 : Nat) : Int) := by
    rw [Nat.cast_sub h1]; push_cast
  rw [this, Int.natCast_dvd_natCast]
  exact nat_fact_minus

/-! ### two sequences with the same first two delivered windows -/

/-- if `m ∣ x` and `|x| < m` then `x = 0`, in the form used below -/
theorem eq_of_dvd_sub_of_lt (m a b : Int) (h : m ∣ a - b) (h1 : a - b < m) (h2 : b - a < m) :
    a = b := by
  have := Int.eq_zero_of_abs_lt_dvd h (by rw [abs_lt]; constructor <;> omega)
  omega

/-- difference of the residues of two sequences that agree on a whole window -/
theorem Z_diff (xa xb : Nat → Int) (t : Nat) (h : ∀ j, j < 12 → X xa (t + j) = X xb (t + j)) :
    Zf xa t - Zf xb t = C xa (t + 11) - C xb (t + 11) := by
  have h0 := h 0 (by omega)
  rw [Nat.add_zero] at h0
  simp only [Zf, h0, h 1 (by omega), h 2 (by omega), h 3 (by omega), h 4 (by omega),
    h 5 (by omega), h 6 (by omega), h 7 (by omega), h 8 (by omega), h 9 (by omega),
    h 10 (by omega), h 11 (by omega)]
  ring

/-- the borrows after the first delivered window agree -/
theorem carries_agree (xa xb : Nat → Int)
    (h1 : ∀ j, j < 12 → X xa (397 + j) = X xb (397 + j))
    (h2 : ∀ j, j < 12 → X xa (794 + j) = X xb (794 + j)) :
    C xa 408 = C xb 408 := by
  obtain ⟨qa, ha⟩ := Z_iter xa 397 397
  obtain ⟨qb, hb⟩ := Z_iter xb 397 397
  have d1 := Z_diff xa xb 397 h1
  have d2 := Z_diff xa xb 794 h2
  norm_num at d1 d2 ha hb
  -- δ1 = B^397 δ2 + MM (qa - qb)
  have key : C xa 408 - C xb 408 = B ^ 397 * (C xa 805 - C xb 805) + MM * (qa - qb) := by
    rw [← d1, ← d2, ha, hb]; ring
  have p := MM_not_dvd_plus
  have m := MM_not_dvd_minus
  have g := MM_gt
  have one : ¬ MM ∣ 1 := fun h => by have := Int.le_of_dvd (by norm_num) h; omega
  generalize B ^ 397 = P at key p m
  rcases C_01 xa 408 with a1 | a1 <;> rcases C_01 xb 408 with b1 | b1 <;>
    rcases C_01 xa 805 with a2 | a2 <;> rcases C_01 xb 805 with b2 | b2 <;>
    rw [a1, b1] <;> rw [a1, b1, a2, b2] at key <;> try rfl
  all_goals exfalso
  -- remaining: δ1 = ±1 with δ2 ∈ {0, 1, -1}
  all_goals first
    | exact one ⟨qa - qb, by linarith⟩
    | exact one ⟨qb - qa, by linarith⟩
    | exact p ⟨qa - qb, by linarith⟩
    | exact p ⟨qb - qa, by linarith⟩
    | exact m ⟨qa - qb, by linarith⟩
    | exact m ⟨qb - qa, by linarith⟩

theorem Z0_eq (x0 : Nat → Int) :
    Zf x0 0 = (x0 0 + B * (x0 1 + B * x0 2 + B ^ 2 * x0 3 + B ^ 3 * x0 4 + B ^ 4 * x0 5
        + B ^ 5 * x0 6))
      + (B ^ 7 - 1) * (x0 7 + B * x0 8 + B ^ 2 * x0 9 + B ^ 3 * x0 10 + B ^ 4 * x0 11) := by
  simp only [Zf, Nat.zero_add]
  rw [X_lt12 x0 0 (by omega), X_lt12 x0 1 (by omega), X_lt12 x0 2 (by omega),
    X_lt12 x0 3 (by omega), X_lt12 x0 4 (by omega), X_lt12 x0 5 (by omega),
    X_lt12 x0 6 (by omega), X_lt12 x0 7 (by omega), X_lt12 x0 8 (by omega),
    X_lt12 x0 9 (by omega), X_lt12 x0 10 (by omega), X_lt12 x0 11 (by omega),
    C_lt12 x0 11 (by omega)]
  ring

/-- bounds of the two parts of the initial residue -/
theorem lo_hi_bounds (x0 : Nat → Int) (b : ∀ k, k < 12 → 0 ≤ x0 k ∧ x0 k < B) (nz : x0 0 ≠ 0) :
    1 ≤ x0 0 + B * (x0 1 + B * x0 2 + B ^ 2 * x0 3 + B ^ 3 * x0 4 + B ^ 4 * x0 5 + B ^ 5 * x0 6)
    ∧ x0 0 + B * (x0 1 + B * x0 2 + B ^ 2 * x0 3 + B ^ 3 * x0 4 + B ^ 4 * x0 5 + B ^ 5 * x0 6)
        ≤ B ^ 7 - 1
    ∧ 0 ≤ x0 7 + B * x0 8 + B ^ 2 * x0 9 + B ^ 3 * x0 10 + B ^ 4 * x0 11
    ∧ x0 7 + B * x0 8 + B ^ 2 * x0 9 + B ^ 3 * x0 10 + B ^ 4 * x0 11 ≤ B ^ 5 - 1 := by
  have b0 := b 0 (by omega); have b1 := b 1 (by omega); have b2 := b 2 (by omega)
  have b3 := b 3 (by omega); have b4 := b 4 (by omega); have b5 := b 5 (by omega)
  have b6 := b 6 (by omega); have b7 := b 7 (by omega); have b8 := b 8 (by omega)
  have b9 := b 9 (by omega); have b10 := b 10 (by omega); have b11 := b 11 (by omega)
  have : 1 ≤ x0 0 := by omega
  rw [B_val] at *
  norm_num
  refine ⟨?_, ?_, ?_, ?_⟩ <;> linarith

/-- two seed arrays (entries in `[0, b)`, first entry non-zero) whose sequences agree on the
first two delivered windows `X 397 … X 408` and `X 794 … X 805` have the same first entry -/
theorem first_word_eq (xa xb : Nat → Int)
    (ba : ∀ k, k < 12 → 0 ≤ xa k ∧ xa k < B) (bb : ∀ k, k < 12 → 0 ≤ xb k ∧ xb k < B)
    (na : xa 0 ≠ 0) (nb : xb 0 ≠ 0)
    (h1 : ∀ j, j < 12 → X xa (397 + j) = X xb (397 + j))
    (h2 : ∀ j, j < 12 → X xa (794 + j) = X xb (794 + j)) : xa 0 = xb 0 := by
  have hc := carries_agree xa xb h1 h2
  have d1 := Z_diff xa xb 397 h1
  norm_num at d1
  rw [hc, sub_self] at d1
  obtain ⟨qa, ha⟩ := Z_iter xa 0 397
  obtain ⟨qb, hb⟩ := Z_iter xb 0 397
  rw [Nat.zero_add] at ha hb
  have e397 : Zf xa 397 = Zf xb 397 := by linarith
  have hdvd : MM ∣ Zf xa 0 - Zf xb 0 := ⟨qa - qb, by rw [ha, hb, e397]; ring⟩
  obtain ⟨la1, la2, ha1, ha2⟩ := lo_hi_bounds xa ba na
  obtain ⟨lb1, lb2, hb1, hb2⟩ := lo_hi_bounds xb bb nb
  rw [Z0_eq xa, Z0_eq xb] at hdvd
  generalize xa 1 + B * xa 2 + B ^ 2 * xa 3 + B ^ 3 * xa 4 + B ^ 4 * xa 5 + B ^ 5 * xa 6 = ra
    at la1 la2 hdvd
  generalize xb 1 + B * xb 2 + B ^ 2 * xb 3 + B ^ 3 * xb 4 + B ^ 4 * xb 5 + B ^ 5 * xb 6 = rb
    at lb1 lb2 hdvd
  generalize xa 7 + B * xa 8 + B ^ 2 * xa 9 + B ^ 3 * xa 10 + B ^ 4 * xa 11 = ua at ha1 ha2 hdvd
  generalize xb 7 + B * xb 8 + B ^ 2 * xb 9 + B ^ 3 * xb 10 + B ^ 4 * xb 11 = ub at hb1 hb2 hdvd
  have b0a := ba 0 (by omega)
  have b0b := bb 0 (by omega)
  -- numeric
  have hM : MM = B ^ 12 - B ^ 5 + 1 := rfl
  have hD : (0 : Int) ≤ B ^ 7 - 1 := by rw [B_val]; norm_num
  have hB7 : B ^ 12 = B ^ 7 * B ^ 5 := by ring
  -- both residues lie in [0, MM)
  have za : (xa 0 + B * ra) + (B ^ 7 - 1) * ua ≤ MM - 1 := by
    have : (B ^ 7 - 1) * ua ≤ (B ^ 7 - 1) * (B ^ 5 - 1) := mul_le_mul_of_nonneg_left ha2 hD
    rw [hM, hB7]; nlinarith
  have zb : (xb 0 + B * rb) + (B ^ 7 - 1) * ub ≤ MM - 1 := by
    have : (B ^ 7 - 1) * ub ≤ (B ^ 7 - 1) * (B ^ 5 - 1) := mul_le_mul_of_nonneg_left hb2 hD
    rw [hM, hB7]; nlinarith
  have pa : 0 ≤ (B ^ 7 - 1) * ua := mul_nonneg hD ha1
  have pb : 0 ≤ (B ^ 7 - 1) * ub := mul_nonneg hD hb1
  have hz := eq_of_dvd_sub_of_lt MM _ _ hdvd (by linarith) (by linarith)
  -- lo_a - lo_b is a multiple of B^7 - 1 and smaller than it
  have hlo : xa 0 + B * ra = xb 0 + B * rb :=
    eq_of_dvd_sub_of_lt (B ^ 7 - 1) _ _ ⟨ub - ua, by linarith⟩ (by linarith) (by linarith)
  -- and the first digits agree
  exact eq_of_dvd_sub_of_lt B _ _ ⟨rb - ra, by linarith⟩ (by linarith) (by linarith)

end CMacVerif.Ranlux
