import CMacVerif.Model.AMRTree
import Mathlib.Tactic.Ring
import Mathlib.Tactic.Linarith
/-! Helper lemmas for the AMR key arithmetic and enumeration (C16). -/
namespace CMacVerif.AMR

/-! ### key codec -/

theorem encodeKey_pos (p : List Nat) : 1 ≤ encodeKey p := by
  induction p with
  | nil => simp [encodeKey]
  | cons i r ih => simp only [encodeKey]; omega

theorem decodeKey_step (k : Nat) (h : ¬ k ≤ 1) : decodeKey k = (k % 8) :: decodeKey (k / 8) := by
  rw [decodeKey, dif_neg h]

theorem decodeKey_one (k : Nat) (h : k ≤ 1) : decodeKey k = [] := by
  rw [decodeKey, dif_pos h]

theorem decode_encode (p : List Nat) (h : ∀ i ∈ p, i < 8) : decodeKey (encodeKey p) = p := by
  induction p with
  | nil => exact decodeKey_one _ (by simp [encodeKey])
  | cons i r ih =>
    have hi : i < 8 := h i (by simp)
    have hr := ih (fun j hj => h j (by simp [hj]))
    have hp := encodeKey_pos r
    show decodeKey (i + 8 * encodeKey r) = i :: r
    rw [decodeKey_step _ (by omega)]
    have e1 : (i + 8 * encodeKey r) % 8 = i := by omega
    have e2 : (i + 8 * encodeKey r) / 8 = encodeKey r := by omega
    rw [e1, e2, hr]

/-- valid keys: the level marker is the highest bit, at a position divisible by three -/
theorem encode_decode (n : Nat) : ∀ k : Nat, 8 ^ n ≤ k → k < 2 * 8 ^ n → encodeKey (decodeKey k) = k := by
  induction n with
  | zero => intro k h1 h2; simp at h1 h2; rw [decodeKey_one k (by omega)]; simp [encodeKey]; omega
  | succ n ih =>
    intro k h1 h2
    rw [pow_succ] at h1 h2
    have hpos : 1 ≤ 8 ^ n := Nat.one_le_pow _ _ (by decide)
    rw [decodeKey_step k (by omega)]
    simp only [encodeKey]
    rw [ih (k / 8) (by omega) (by omega)]
    omega

theorem decodeKey_lt8 (k : Nat) : ∀ i ∈ decodeKey k, i < 8 := by
  induction k using Nat.strong_induction_on with
  | _ k ih =>
    rw [decodeKey]
    by_cases hk : k ≤ 1
    · rw [dif_pos hk]; simp
    · rw [dif_neg hk]
      intro i hi
      simp only [List.mem_cons] at hi
      rcases hi with rfl | hi
      · omega
      · exact ih (k / 8) (by omega) i hi

theorem encodeKey_bounds (p : List Nat) (h : ∀ i ∈ p, i < 8) :
    8 ^ p.length ≤ encodeKey p ∧ encodeKey p < 2 * 8 ^ p.length := by
  induction p with
  | nil => simp [encodeKey]
  | cons i r ih =>
    have hi : i < 8 := h i (by simp)
    have := ih (fun j hj => h j (by simp [hj]))
    simp only [encodeKey, List.length_cons, pow_succ]
    omega

/-! ### chains -/

/-- consecutive elements are linked by `next`, the last one is mapped to `e` -/
inductive ChainTo (next : Nat → Nat) : List Nat → Nat → Prop
  | single (k e : Nat) : next k = e → ChainTo next [k] e
  | cons (k k' : Nat) (r : List Nat) (e : Nat) :
      next k = k' → ChainTo next (k' :: r) e → ChainTo next (k :: k' :: r) e

theorem ChainTo.ne_nil {next : Nat → Nat} {ks : List Nat} {e : Nat} (h : ChainTo next ks e) :
    ks ≠ [] := by cases h <;> simp

theorem ChainTo.append' {next : Nat → Nat} {xs : List Nat} {y : Nat} (hx : ChainTo next xs y) :
    ∀ (ys' : List Nat) (e : Nat), ChainTo next (y :: ys') e → ChainTo next (xs ++ y :: ys') e := by
  induction hx with
  | single k e' hk => intro ys' e hys; exact ChainTo.cons k e' ys' e hk hys
  | cons k k' r e' hk _ ih => intro ys' e hys; exact ChainTo.cons k k' (r ++ e' :: ys') e hk (ih ys' e hys)

theorem ChainTo.append {next : Nat → Nat} {xs ys : List Nat} {e : Nat} (y : Nat)
    (hy : ys.head? = some y) (hx : ChainTo next xs y) (hys : ChainTo next ys e) :
    ChainTo next (xs ++ ys) e := by
  cases ys with
  | nil => simp at hy
  | cons y' ys' =>
    simp at hy; subst hy
    exact ChainTo.append' hx ys' e hys

/-- re-target a chain: `next'` agrees with `next` except that the stop value `m` becomes `e` -/
theorem ChainTo.retarget {next next' : Nat → Nat} {ks : List Nat} {m e : Nat}
    (h : ChainTo next ks m) (hne : ∀ k ∈ ks, k ≠ m)
    (hn : ∀ k ∈ ks, next' k = if next k = m then e else next k) : ChainTo next' ks e := by
  induction h with
  | single k e' hk =>
    refine ChainTo.single k e ?_
    rw [hn k (by simp), hk]; simp
  | cons k k' r e' hk _ ih =>
    refine ChainTo.cons k k' r e ?_ (ih (fun j hj => hne j (by simp [hj])) (fun j hj => hn j (by simp [hj])))
    rw [hn k (by simp), hk]
    rw [if_neg (hne k' (by simp))]

/-- the enumeration loop follows a chain -/
theorem enumerate_chain {next : Nat → Nat} {ks : List Nat} {stop : Nat}
    (h : ChainTo next ks stop) (hne : ∀ k ∈ ks, k ≠ stop) :
    ∀ fuel, ks.length < fuel → ∃ k0 r, ks = k0 :: r ∧ enumerate next stop fuel k0 = ks := by
  induction h with
  | single k e hk =>
    intro fuel hf
    obtain ⟨f, rfl⟩ : ∃ f, fuel = f + 2 := ⟨fuel - 2, by simp at hf; omega⟩
    refine ⟨k, [], rfl, ?_⟩
    simp only [enumerate]
    rw [if_neg (hne k (by simp)), hk]; simp
  | cons k k' r e hk _ ih =>
    intro fuel hf
    obtain ⟨f, rfl⟩ : ∃ f, fuel = f + 1 := ⟨fuel - 1, by simp at hf; omega⟩
    refine ⟨k, k' :: r, rfl, ?_⟩
    obtain ⟨k0, r0, h0, h1⟩ := ih (fun j hj => hne j (by simp [hj])) f (by simp at hf ⊢; omega)
    simp only [enumerate]
    rw [if_neg (hne k (by simp)), hk]
    injection h0 with h0a h0b
    subst h0a
    rw [h1]

/-! ### shape and size of the keys below a cell -/

theorem pow_three_succ (L : Nat) : 2 ^ (3 * (L + 1)) = 8 * 2 ^ (3 * L) := by
  rw [show 3 * (L + 1) = 3 * L + 3 by ring, pow_add]; norm_num; ring

theorem eight_pow (d : Nat) : 8 ^ d = 2 ^ (3 * d) := by
  rw [pow_mul]; norm_num

theorem depth_child_lt (c : Fin 8 → Tree) (i : Fin 8) : depth (c i) + 1 ≤ depth (.node c) := by
  match i with
  | ⟨0, _⟩ => show depth (c 0) + 1 ≤ _; simp only [depth]; omega
  | ⟨1, _⟩ => show depth (c 1) + 1 ≤ _; simp only [depth]; omega
  | ⟨2, _⟩ => show depth (c 2) + 1 ≤ _; simp only [depth]; omega
  | ⟨3, _⟩ => show depth (c 3) + 1 ≤ _; simp only [depth]; omega
  | ⟨4, _⟩ => show depth (c 4) + 1 ≤ _; simp only [depth]; omega
  | ⟨5, _⟩ => show depth (c 5) + 1 ≤ _; simp only [depth]; omega
  | ⟨6, _⟩ => show depth (c 6) + 1 ≤ _; simp only [depth]; omega
  | ⟨7, _⟩ => show depth (c 7) + 1 ≤ _; simp only [depth]; omega

/-- every key below a cell is `pre + 8^level * e` with `e` a valid key of at most `depth` levels -/
theorem mem_leafKeys (t : Tree) : ∀ (L pre k : Nat), k ∈ leafKeys t L pre →
    ∃ e, k = pre + 2 ^ (3 * L) * e ∧ 1 ≤ e ∧ e < 2 * 8 ^ depth t := by
  induction t with
  | leaf => intro L pre k hk; simp [leafKeys] at hk; exact ⟨1, by simp [hk], le_refl _, by simp [depth]⟩
  | node c ih =>
    intro L pre k hk
    have key : ∀ i : Fin 8, k ∈ leafKeys (c i) (L + 1) (pre + i.val * 2 ^ (3 * L)) →
        ∃ e, k = pre + 2 ^ (3 * L) * e ∧ 1 ≤ e ∧ e < 2 * 8 ^ depth (.node c) := by
      intro i hi
      obtain ⟨e', he, h1, h2⟩ := ih i (L + 1) _ k hi
      refine ⟨i.val + 8 * e', ?_, by omega, ?_⟩
      · rw [he, pow_three_succ]; ring
      · have hd := depth_child_lt c i
        have hp : 8 ^ (depth (c i) + 1) ≤ 8 ^ depth (.node c) := Nat.pow_le_pow_right (by decide) hd
        rw [pow_succ] at hp
        have := i.isLt
        omega
    simp only [leafKeys, List.mem_append] at hk
    rcases hk with ((((((hk | hk) | hk) | hk) | hk) | hk) | hk) | hk
    · exact key 0 hk
    · exact key 1 hk
    · exact key 2 hk
    · exact key 3 hk
    · exact key 4 hk
    · exact key 5 hk
    · exact key 6 hk
    · exact key 7 hk

/-- keys of trees of depth ≤ 10 fit in 31 bits; in particular they are never the sentinel -/
theorem key_lt (L d pre e : Nat) (hpre : pre < 2 ^ (3 * L)) (he : e < 2 * 8 ^ d) (hd : L + d ≤ 10) :
    pre + 2 ^ (3 * L) * e < 2 ^ 31 := by
  have h1 : 2 ^ (3 * L) * (e + 1) ≤ 2 ^ (3 * L) * (2 * 8 ^ d) := Nat.mul_le_mul_left _ (by omega)
  have h2 : 2 ^ (3 * L) * (2 * 8 ^ d) = 2 * 2 ^ (3 * (L + d)) := by
    rw [eight_pow, show 3 * (L + d) = 3 * L + 3 * d by ring, pow_add]; ring
  have h3 : 2 ^ (3 * (L + d)) ≤ 2 ^ 30 := Nat.pow_le_pow_right (by decide) (by omega)
  have h4 : 2 ^ (3 * L) * (e + 1) = 2 ^ (3 * L) * e + 2 ^ (3 * L) := by ring
  omega

theorem leafKeys_lt (t : Tree) (L pre k : Nat) (hk : k ∈ leafKeys t L pre) (hpre : pre < 2 ^ (3 * L))
    (hd : L + depth t ≤ 10) : k < 2 ^ 31 := by
  obtain ⟨e, rfl, _, he⟩ := mem_leafKeys t L pre k hk
  exact key_lt L _ pre e hpre he hd

theorem leafKeys_ne_nil (t : Tree) : ∀ (L pre : Nat), leafKeys t L pre ≠ [] := by
  induction t with
  | leaf => intro L pre; simp [leafKeys]
  | node c ih => intro L pre; simp only [leafKeys]; simp [ih]

/-! ### `get_next_key` follows the chain of leaf keys -/

theorem nextKey_node (c : Fin 8 → Tree) (k L : Nat) (i : Fin 8) (h : (k / 2 ^ (3 * L)) % 8 = i.val) :
    nextKey (.node c) k L =
      if nextKey (c i) k (L + 1) = maxKey then
        if i.val = 7 then maxKey
        else firstKey (kid c (i.val + 1)) (L + 1) + (k - (k / 2 ^ (3 * L)) * 2 ^ (3 * L))
          + (i.val + 1) * 2 ^ (3 * L)
      else nextKey (c i) k (L + 1) := by
  obtain rfl : i = ⟨(k / 2 ^ (3 * L)) % 8, Nat.mod_lt _ (by decide)⟩ := Fin.ext h.symm
  simp only [nextKey]

theorem kid_succ (c : Fin 8 → Tree) (i : Fin 8) (h : i.val ≠ 7) :
    kid c (i.val + 1) = c ⟨i.val + 1, by have := i.isLt; omega⟩ := by
  unfold kid; congr 1; apply Fin.ext; simp only; have := i.isLt; omega

theorem nextKey_chain (t : Tree) : ∀ (L pre : Nat), pre < 2 ^ (3 * L) → L + depth t ≤ 10 →
    (leafKeys t L pre).head? = some (pre + firstKey t L) ∧
    ChainTo (fun k => nextKey t k L) (leafKeys t L pre) maxKey := by
  induction t with
  | leaf =>
    intro L pre _ _
    simp only [leafKeys, firstKey, List.head?_cons, one_mul, true_and]
    exact ChainTo.single _ _ rfl
  | node c ih =>
    intro L pre hpre hd
    have hP : 0 < 2 ^ (3 * L) := Nat.pos_of_ne_zero (by positivity)
    -- facts about child `i`
    have hpre' : ∀ i : Fin 8, pre + i.val * 2 ^ (3 * L) < 2 ^ (3 * (L + 1)) := by
      intro i; rw [pow_three_succ]; have := i.isLt
      have : i.val * 2 ^ (3 * L) ≤ 7 * 2 ^ (3 * L) := Nat.mul_le_mul_right _ (by omega)
      omega
    have hd' : ∀ i : Fin 8, L + 1 + depth (c i) ≤ 10 := by
      intro i; have := depth_child_lt c i; omega
    have seg : ∀ i : Fin 8, ChainTo (fun k => nextKey (.node c) k L)
        (leafKeys (c i) (L + 1) (pre + i.val * 2 ^ (3 * L)))
        (if i.val = 7 then maxKey
         else pre + (i.val + 1) * 2 ^ (3 * L) + firstKey (kid c (i.val + 1)) (L + 1)) := by
      intro i
      refine ChainTo.retarget (ih i (L + 1) _ (hpre' i) (hd' i)).2 ?_ ?_
      · intro k hk
        have := leafKeys_lt (c i) (L + 1) _ k hk (hpre' i) (hd' i)
        unfold maxKey; omega
      · intro k hk
        obtain ⟨e', he, _, _⟩ := mem_leafKeys (c i) (L + 1) _ k hk
        have hk' : k = pre + 2 ^ (3 * L) * (i.val + 8 * e') := by rw [he, pow_three_succ]; ring
        have hdiv : k / 2 ^ (3 * L) = i.val + 8 * e' := by
          rw [hk', Nat.add_mul_div_left _ _ hP, Nat.div_eq_of_lt hpre]; simp
        have hcell : (k / 2 ^ (3 * L)) % 8 = i.val := by rw [hdiv]; have := i.isLt; omega
        have hlow : k - (k / 2 ^ (3 * L)) * 2 ^ (3 * L) = pre := by
          rw [hdiv, hk', Nat.mul_comm]; omega
        show nextKey (.node c) k L = _
        rw [nextKey_node c k L i hcell, hlow]
        by_cases h7 : i.val = 7
        · simp only [h7, if_true]
        · simp only [h7, if_false]
          by_cases hm : nextKey (c i) k (L + 1) = maxKey
          · simp only [hm, if_true]; ring
          · simp only [hm, if_false]
    -- heads of the segments
    have hhead : ∀ i : Fin 8, (leafKeys (c i) (L + 1) (pre + i.val * 2 ^ (3 * L))).head?
        = some (pre + i.val * 2 ^ (3 * L) + firstKey (c i) (L + 1)) :=
      fun i => (ih i (L + 1) _ (hpre' i) (hd' i)).1
    have s0 := seg 0; have s1 := seg 1; have s2 := seg 2; have s3 := seg 3
    have s4 := seg 4; have s5 := seg 5; have s6 := seg 6; have s7 := seg 7
    have k1 : kid c ((0 : Fin 8).val + 1) = c 1 := kid_succ c 0 (by decide)
    have k2 : kid c ((1 : Fin 8).val + 1) = c 2 := kid_succ c 1 (by decide)
    have k3 : kid c ((2 : Fin 8).val + 1) = c 3 := kid_succ c 2 (by decide)
    have k4 : kid c ((3 : Fin 8).val + 1) = c 4 := kid_succ c 3 (by decide)
    have k5 : kid c ((4 : Fin 8).val + 1) = c 5 := kid_succ c 4 (by decide)
    have k6 : kid c ((5 : Fin 8).val + 1) = c 6 := kid_succ c 5 (by decide)
    have k7 : kid c ((6 : Fin 8).val + 1) = c 7 := kid_succ c 6 (by decide)
    rw [if_neg (by decide), k1] at s0
    rw [if_neg (by decide), k2] at s1
    rw [if_neg (by decide), k3] at s2
    rw [if_neg (by decide), k4] at s3
    rw [if_neg (by decide), k5] at s4
    rw [if_neg (by decide), k6] at s5
    rw [if_neg (by decide), k7] at s6
    rw [if_pos (by decide)] at s7
    have c01 := ChainTo.append _ (hhead 1) s0 s1
    have c02 := ChainTo.append _ (hhead 2) c01 s2
    have c03 := ChainTo.append _ (hhead 3) c02 s3
    have c04 := ChainTo.append _ (hhead 4) c03 s4
    have c05 := ChainTo.append _ (hhead 5) c04 s5
    have c06 := ChainTo.append _ (hhead 6) c05 s6
    have c07 := ChainTo.append _ (hhead 7) c06 s7
    refine ⟨?_, c07⟩
    have h0 : (leafKeys (c 0) (L + 1) (pre + 0 * 2 ^ (3 * L))).head?
        = some (pre + 0 * 2 ^ (3 * L) + firstKey (c 0) (L + 1)) := hhead 0
    simp only [leafKeys, firstKey]
    simp only [List.append_assoc]
    rw [List.head?_append, h0]
    simp

end CMacVerif.AMR
